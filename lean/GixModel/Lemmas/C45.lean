import GixModel.Model.C45
import GixModel.Basic.ExceptDec
/-
C45 — helper lemmas: the diff contract as a decidable check, rendering of token slices, the
main loop on hunk lists of one side only.
-/
set_option linter.unusedSimpArgs false
namespace GixModel.C45
open GixModel

/-- the diff contract, as a decidable check: hunks in order, separated by at least one unchanged
line, inside both token lists, not empty on both sides, unchanged runs have equal length and
content, the tail after the last hunk is unchanged -/
def diffOkFrom (base side : List Bytes) : Nat → Nat → Bool → List (Range × Range) → Bool
  | pb, ps, _, [] => base.drop pb == side.drop ps
  | pb, ps, first, (b, a) :: rest =>
    b.start ≤ b.stop && a.start ≤ a.stop && b.stop ≤ base.length && a.stop ≤ side.length
    && !(b.start == b.stop && a.start == a.stop)
    && pb ≤ b.start && ps ≤ a.start && (first || pb < b.start) && b.start - pb == a.start - ps
    && (base.drop pb).take (b.start - pb) == (side.drop ps).take (a.start - ps)
    && diffOkFrom base side b.stop a.stop false rest

theorem render_append (a b : List Piece) : render (a ++ b) = render a ++ render b := by
  simp [render]

theorem tokenPieces_render (side : Side) (toks : List Bytes) (s e : Nat) (h : e ≤ toks.length) :
    render (tokenPieces side toks s e) = ((toks.drop s).take (e - s)).flatten := by
  unfold tokenPieces
  generalize hn : e - s = n
  induction n generalizing s e with
  | zero => simp [render]
  | succ n ih =>
    have hs : s < toks.length := by omega
    have h1 : List.range (n + 1) = 0 :: (List.range n).map (· + 1) := by
      rw [List.range_succ_eq_map]
    rw [h1]
    simp only [List.filterMap_cons, Nat.add_zero, List.getElem?_eq_getElem hs, Option.map_some]
    have ih' := ih (s + 1) e h (by omega)
    simp only [List.filterMap_map] at ih' ⊢
    have e1 : (toks.drop s).take (n + 1) = toks[s] :: (toks.drop (s + 1)).take n := by
      rw [List.drop_eq_getElem_cons hs, List.take_succ_cons]
    rw [e1]
    simp only [render, List.flatMap_cons, Piece.bytes, List.flatten_cons]
    congr 1
    have : (fun k => Option.map (fun b => Piece.token side (s + 1 + k) b) toks[s + 1 + k]?) =
        ((fun k => Option.map (fun b => Piece.token side (s + k) b) toks[s + k]?) ∘ fun x => x + 1) := by
      funext k; simp [Nat.add_assoc, Nat.add_comm 1 k]
    rw [← this]
    exact ih'


def oneSide (s : Side) (hs : List (Range × Range)) : List Hunk := hs.map fun (b, a) => Hunk.mk b a s

theorem diffOk_lower {base side : List Bytes} : ∀ {hs : List (Range × Range)} {pb ps : Nat} {first : Bool},
    diffOkFrom base side pb ps first hs = true → ∀ h ∈ hs, pb ≤ h.1.start := by
  intro hs
  induction hs with
  | nil => intro _ _ _ _ h hh; simp at hh
  | cons x rest ih =>
    intro pb ps first hok h hh
    obtain ⟨b, a⟩ := x
    simp only [diffOkFrom, Bool.and_eq_true, decide_eq_true_eq] at hok
    obtain ⟨⟨⟨⟨⟨⟨⟨⟨⟨⟨h1, h2⟩, h3⟩, h4⟩, h5⟩, h6⟩, h7⟩, h8⟩, h9⟩, h10⟩, h11⟩ := hok
    simp only [List.mem_cons] at hh
    rcases hh with rfl | hh
    · exact h6
    · have := ih h11 h hh
      omega

theorem insert_le_all (h : Hunk) (l : List Hunk) (hl : ∀ x ∈ l, h.before.start ≤ x.before.start) :
    insertByStart h l = h :: l := by
  cases l with
  | nil => rfl
  | cons x rest => simp [insertByStart, hl x (by simp)]

theorem sort_oneSide {base side : List Bytes} (s : Side) : ∀ {hs : List (Range × Range)} {pb ps : Nat} {first : Bool},
    diffOkFrom base side pb ps first hs = true → sortByStart (oneSide s hs) = oneSide s hs := by
  intro hs
  induction hs with
  | nil => intro _ _ _ _; rfl
  | cons x rest ih =>
    intro pb ps first hok
    obtain ⟨b, a⟩ := x
    have hok' := hok
    simp only [diffOkFrom, Bool.and_eq_true, decide_eq_true_eq] at hok
    obtain ⟨⟨⟨⟨⟨⟨⟨⟨⟨⟨h1, h2⟩, h3⟩, h4⟩, h5⟩, h6⟩, h7⟩, h8⟩, h9⟩, h10⟩, h11⟩ := hok
    simp only [oneSide, List.map_cons, sortByStart]
    have := ih h11
    simp only [oneSide] at this
    rw [this]
    apply insert_le_all
    intro x hx
    simp only [List.mem_map] at hx
    obtain ⟨y, hy, rfl⟩ := hx
    have := diffOk_lower h11 y hy
    simp; omega

theorem take_same_side (hunk : Hunk) (s : Side) (hs : List (Range × Range)) (h : hunk.side = s) :
    takeIntersecting hunk (oneSide s hs) = ([], oneSide s hs) := by
  cases hs with
  | nil => rfl
  | cons x rest =>
    obtain ⟨b, a⟩ := x
    simp [oneSide, takeIntersecting, h]



theorem writeAncestor_render (inp : Input) (f t : Nat) (h1 : f ≤ t) (h2 : t ≤ inp.anc.length) :
    render (writeAncestor inp f t) = ((inp.anc.drop f).take (t - f)).flatten := by
  unfold writeAncestor
  rw [if_neg (by omega), if_neg (by omega)]
  exact tokenPieces_render _ _ _ _ h2

theorem take_extend (l : List Bytes) (m n : Nat) (h : m ≤ n) :
    (l.take m).flatten ++ ((l.drop m).take (n - m)).flatten = (l.take n).flatten := by
  have : n = m + (n - m) := by omega
  rw [← List.flatten_append]
  conv => rhs; rw [this, List.take_add]

theorem mergeLoop_oneSide (inp : Input) (labels : Labels) (conflict : Conflict) (s : Side)
    (hs_side : s ≠ .ancestor) :
    ∀ (hs : List (Range × Range)) (pb ps : Nat) (first : Bool) (out : List Piece) (fuel : Nat),
      hs.length < fuel →
      diffOkFrom inp.anc (inp.tokens s) pb ps first hs = true →
      ps ≤ (inp.tokens s).length →
      render out = ((inp.tokens s).take ps).flatten →
      ∃ out' upTo, mergeLoop inp labels conflict fuel (oneSide s hs) out pb false = .ok (out', upTo, false) ∧
        render (out' ++ writeAncestor inp upTo inp.anc.length) = (inp.tokens s).flatten := by
  intro hs
  induction hs with
  | nil =>
    intro pb ps first out fuel hf hok hps hout
    cases fuel with
    | zero => omega
    | succ fuel =>
      refine ⟨out, pb, rfl, ?_⟩
      simp only [diffOkFrom, beq_iff_eq] at hok
      by_cases hpb : pb ≤ inp.anc.length
      · rw [render_append, writeAncestor_render _ _ _ hpb (Nat.le_refl _), hout]
        have ht : (inp.anc.drop pb).take (inp.anc.length - pb) = inp.anc.drop pb :=
          List.take_of_length_le (by simp)
        rw [ht, hok, ← List.flatten_append, List.take_append_drop]
      · -- pb beyond the base: the base tail is empty, so is the side's
        have hb : inp.anc.drop pb = [] := List.drop_eq_nil_of_le (by omega)
        rw [hb] at hok
        have : writeAncestor inp pb inp.anc.length = [] := by
          unfold writeAncestor; rw [if_pos (by omega)]
        rw [this, List.append_nil, hout]
        have h2 : (inp.tokens s).take ps = inp.tokens s := by
          have := congrArg List.length hok
          simp at this
          exact List.take_of_length_le (by omega)
        rw [h2]
  | cons x rest ih =>
    intro pb ps first out fuel hf hok hps hout
    obtain ⟨b, a⟩ := x
    cases fuel with
    | zero => simp at hf
    | succ fuel =>
      have hok' := hok
      simp only [diffOkFrom, Bool.and_eq_true, decide_eq_true_eq, beq_iff_eq] at hok
      obtain ⟨⟨⟨⟨⟨⟨⟨⟨⟨⟨h1, h2⟩, h3⟩, h4⟩, h5⟩, h6⟩, h7⟩, h8⟩, h9⟩, h10⟩, h11⟩ := hok
      have hrange : (Hunk.mk b a s).range = a := by
        cases s <;> simp_all [Hunk.range]
      have hslice : sliceTokens s (inp.tokens s) a = .ok (tokenPieces s (inp.tokens s) a.start a.stop) := by
        unfold sliceTokens
        rw [if_neg (by omega), if_neg (by omega)]
      have hwh : writeHunks inp [Hunk.mk b a s] = .ok (tokenPieces s (inp.tokens s) a.start a.stop) := by
        simp [writeHunks, hrange, hslice, bind, Except.bind, pure, Except.pure]
      let out1 := out ++ writeAncestor inp pb b.start ++ tokenPieces s (inp.tokens s) a.start a.stop
      have hout1 : render out1 = ((inp.tokens s).take a.stop).flatten := by
        have hwa := writeAncestor_render inp pb b.start h6 (by omega)
        simp only [out1, render_append, hout, hwa, tokenPieces_render _ _ _ _ h4, h10]
        rw [take_extend _ _ _ h7, take_extend _ _ _ h2]
      obtain ⟨out', upTo, hloop, hfin⟩ := ih b.stop a.stop false out1 fuel (by simp at hf; omega) h11 h4 hout1
      refine ⟨out', upTo, ?_, hfin⟩
      simp only [oneSide, List.map_cons, mergeLoop]
      have := take_same_side (Hunk.mk b a s) s rest rfl
      simp only [oneSide] at this
      rw [this]
      simp only [List.isEmpty_nil, Bool.not_true, Bool.false_eq_true, if_false, hwh, bind, Except.bind]
      exact hloop



theorem lines_go_flatten : ∀ (bs acc : Bytes),
    (linesWithTerminator.go bs acc).flatten = acc.reverse ++ bs := by
  intro bs
  induction bs with
  | nil =>
    intro acc
    simp only [linesWithTerminator.go]
    split
    · rename_i h; simp at h; simp [h]
    · simp
  | cons b rest ih =>
    intro acc
    simp only [linesWithTerminator.go]
    split
    · simp [ih]
    · rw [ih]; simp

theorem lines_flatten (bs : Bytes) : (linesWithTerminator bs).flatten = bs := by
  simp [linesWithTerminator, lines_go_flatten]

/-- the diff contract -/
def DiffOf (base side : List Bytes) (hs : List (Range × Range)) : Prop :=
  diffOkFrom base side 0 0 true hs = true ∧ (side = base → hs = [])

theorem merge_other_only (base theirs : List Bytes) (labels : Labels) (conflict : Conflict)
    (hb : List (Range × Range)) (h : DiffOf base theirs hb) :
    ∃ ps, merge ⟨base, base, theirs⟩ labels conflict [] hb = .ok (.complete, ps) ∧
      render ps = theirs.flatten := by
  let inp : Input := ⟨base, base, theirs⟩
  have hsort : sortByStart (oneSide .other hb) = oneSide .other hb := sort_oneSide .other h.1
  obtain ⟨out', upTo, hloop, hfin⟩ := mergeLoop_oneSide inp labels conflict .other (by decide) hb 0 0 true []
    ((oneSide Side.other hb).length + 1) (by simp [oneSide]) h.1 (Nat.zero_le _) (by simp [render])
  refine ⟨out' ++ writeAncestor inp upTo inp.anc.length, ?_, hfin⟩
  simp only [merge, List.map_nil, List.nil_append]
  have e : List.map (fun x => match x with | (b, a) => Hunk.mk b a Side.other) hb = oneSide .other hb := rfl
  rw [e, hsort, hloop]
  rfl

theorem merge_current_only (base ours : List Bytes) (labels : Labels) (conflict : Conflict)
    (ha : List (Range × Range)) (h : DiffOf base ours ha) :
    ∃ ps, merge ⟨base, ours, base⟩ labels conflict ha [] = .ok (.complete, ps) ∧
      render ps = ours.flatten := by
  let inp : Input := ⟨base, ours, base⟩
  have hsort : sortByStart (oneSide .current ha) = oneSide .current ha := sort_oneSide .current h.1
  obtain ⟨out', upTo, hloop, hfin⟩ := mergeLoop_oneSide inp labels conflict .current (by decide) ha 0 0 true []
    ((oneSide Side.current ha).length + 1) (by simp [oneSide]) h.1 (Nat.zero_le _) (by simp [render])
  refine ⟨out' ++ writeAncestor inp upTo inp.anc.length, ?_, hfin⟩
  simp only [merge, List.map_nil, List.append_nil]
  have e : List.map (fun x => match x with | (b, a) => Hunk.mk b a Side.current) ha = oneSide .current ha := rfl
  rw [e, hsort, hloop]
  rfl



def Piece.isToken : Piece → Bool
  | .token _ _ _ => true
  | _ => false

def Piece.isMarker : Piece → Bool
  | .marker _ => true
  | _ => false

/-- every piece is a whole line of one of the three inputs -/
def AllTokens (ps : List Piece) : Prop := ∀ p ∈ ps, p.isToken = true

theorem AllTokens.append {a b : List Piece} (ha : AllTokens a) (hb : AllTokens b) : AllTokens (a ++ b) := by
  intro p hp
  rcases List.mem_append.mp hp with h | h
  · exact ha p h
  · exact hb p h

theorem allTokens_nil : AllTokens [] := by intro p hp; simp at hp

theorem tokenPieces_allTokens (side : Side) (toks : List Bytes) (s e : Nat) :
    AllTokens (tokenPieces side toks s e) := by
  intro p hp
  simp only [tokenPieces, List.mem_filterMap, Option.map_eq_some_iff] at hp
  obtain ⟨k, _, b, _, rfl⟩ := hp
  rfl

theorem writeAncestor_allTokens (inp : Input) (f t : Nat) : AllTokens (writeAncestor inp f t) := by
  unfold writeAncestor
  split
  · exact allTokens_nil
  · split
    · exact allTokens_nil
    · exact tokenPieces_allTokens _ _ _ _

theorem writeHunks_allTokens (inp : Input) : ∀ (hs : List Hunk) (ps : List Piece),
    writeHunks inp hs = .ok ps → AllTokens ps := by
  intro hs
  induction hs with
  | nil => intro ps h; simp [writeHunks] at h; subst h; exact allTokens_nil
  | cons x rest ih =>
    intro ps h
    simp only [writeHunks, bind, Except.bind] at h
    cases hs : sliceTokens x.side (inp.tokens x.side) x.range with
    | error e => simp [hs] at h
    | ok a =>
      cases hr : writeHunks inp rest with
      | error e => simp [hs, hr] at h
      | ok b =>
        simp only [hs, hr, pure, Except.pure, Except.ok.injEq] at h
        subst h
        apply AllTokens.append _ (ih b hr)
        unfold sliceTokens at hs
        split at hs
        · simp at hs
        · split at hs
          · simp at hs
          · simp only [Except.ok.injEq] at hs; subst hs; exact tokenPieces_allTokens _ _ _ _

theorem keepMiddle_clean (inp : Input) (labels : Labels) (style : Style) (markerSize : Nat) (out : List Piece)
    (iu : Nat) (front ours theirs : List Hunk) (fh lh : Hunk) (out' : List Piece)
    (h : keepMiddle inp labels style markerSize out iu front ours theirs fh lh = .ok (out', false)) :
    ∃ extra, out' = out ++ extra ∧ AllTokens extra := by
  unfold keepMiddle at h
  split at h
  · simp only [bind, Except.bind, pure, Except.pure] at h
    cases hw : writeHunks inp ours with
    | error e => simp [hw] at h
    | ok w => simp [hw] at h; exact ⟨w, h.symm, writeHunks_allTokens _ _ _ hw⟩
  · split at h
    · simp only [bind, Except.bind, pure, Except.pure] at h
      cases hw : writeHunks inp theirs with
      | error e => simp [hw] at h
      | ok w => simp [hw] at h; exact ⟨w, h.symm, writeHunks_allTokens _ _ _ hw⟩
    · simp only [bind, Except.bind, pure, Except.pure] at h
      split at h
      · simp at h
      · split at h
        all_goals (try (simp at h; done))
        all_goals (
          cases style <;> simp only [] at h
          all_goals (repeat' (split at h))
          all_goals (try (simp at h; done))
          all_goals (
            simp only [Except.ok.injEq, Prod.mk.injEq, and_true] at h
            first
            | (subst h; exact ⟨_, rfl, writeHunks_allTokens _ _ _ (by assumption)⟩)
            | (subst h; refine ⟨[], ?_, allTokens_nil⟩; simp; done)))



/-- no piece is a conflict marker line -/
def NoMarker (ps : List Piece) : Prop := ∀ p ∈ ps, p.isMarker = false

theorem AllTokens.noMarker {ps : List Piece} (h : AllTokens ps) : NoMarker ps := by
  intro p hp
  have := h p hp
  cases p <;> simp_all [Piece.isToken, Piece.isMarker]

theorem NoMarker.append {a b : List Piece} (ha : NoMarker a) (hb : NoMarker b) : NoMarker (a ++ b) := by
  intro p hp
  rcases List.mem_append.mp hp with h | h
  · exact ha p h
  · exact hb p h

theorem assureEndsWithNl_ext (out : List Piece) (nl : Bytes) :
    ∃ extra, assureEndsWithNl out nl = out ++ extra ∧ NoMarker extra := by
  unfold assureEndsWithNl
  split
  · exact ⟨[.eol nl], rfl, by intro p hp; simp at hp; subst hp; rfl⟩
  · exact ⟨[], by simp, by intro p hp; simp at hp⟩

theorem keepMiddle_clean' (inp : Input) (labels : Labels) (style : Style) (markerSize : Nat) (out : List Piece)
    (iu : Nat) (front ours theirs : List Hunk) (fh lh : Hunk) (v : List Piece × Bool)
    (h : keepMiddle inp labels style markerSize out iu front ours theirs fh lh = .ok v) (hv : v.2 = false) :
    ∃ extra, v.1 = out ++ extra ∧ AllTokens extra := by
  obtain ⟨p, c⟩ := v
  simp only at hv
  subst hv
  exact keepMiddle_clean _ _ _ _ _ _ _ _ _ _ _ _ h

theorem sectionKeep_clean (inp : Input) (labels : Labels) (style : Style) (ms : Nat) (out : List Piece)
    (iu : Nat) (side : Side) (filled inter : List Hunk) (s : Section)
    (h : sectionKeep inp labels style ms out iu side filled inter = .ok s) (hc : s.conflict = false) :
    ∃ extra, s.pieces = out ++ extra ∧ AllTokens extra := by
  unfold sectionKeep at h
  simp only [bind, Except.bind, pure, Except.pure] at h
  repeat' (split at h)
  all_goals (try (simp at h; done))
  all_goals (
    simp only [Except.ok.injEq] at h
    subst h
    simp only at hc
    have hkm := (by assumption : keepMiddle _ _ _ _ _ _ _ _ _ _ _ = Except.ok _)
    have hback := (by assumption : writeHunks inp (Contracted.back _) = Except.ok _)
    have hfront := (by assumption : writeHunks inp (Contracted.front _) = Except.ok _)
    obtain ⟨extra, he, ht⟩ := keepMiddle_clean' _ _ _ _ _ _ _ _ _ _ _ _ hkm hc
    have hEq : ∀ (a b c d e : List Piece), a ++ b ++ c ++ d ++ e = a ++ (b ++ c ++ d ++ e) := by intros; simp
    refine ⟨_, (by simp only [he]; exact hEq _ _ _ _ _), ?_⟩
    exact (((writeAncestor_allTokens _ _ _).append (writeHunks_allTokens _ _ _ hfront)).append ht).append
      (writeHunks_allTokens _ _ _ hback))

theorem sectionPick_clean (inp : Input) (pickOurs : Bool) (out : List Piece) (iu : Nat) (side : Side)
    (filled inter : List Hunk) (s : Section)
    (h : sectionPick inp pickOurs out iu side filled inter = .ok s) :
    s.conflict = false ∧ ∃ extra, s.pieces = out ++ extra ∧ AllTokens extra := by
  unfold sectionPick at h
  simp only [bind, Except.bind, pure, Except.pure] at h
  repeat' (split at h)
  all_goals (try (simp at h; done))
  all_goals (
    simp only [Except.ok.injEq] at h
    subst h
    refine ⟨rfl, ?_⟩
    have hw := (by assumption : writeHunks inp _ = Except.ok _)
    first
    | exact ⟨_, List.append_assoc _ _ _, (writeAncestor_allTokens _ _ _).append (writeHunks_allTokens _ _ _ hw)⟩
    | exact ⟨_, rfl, writeHunks_allTokens _ _ _ hw⟩)

/-- `out'` extends `out` by pieces that are not markers -/
def Ext (out out' : List Piece) : Prop := ∃ extra, out' = out ++ extra ∧ NoMarker extra

theorem Ext.refl (o : List Piece) : Ext o o := ⟨[], by simp, by intro p hp; simp at hp⟩

theorem Ext.app {o x y : List Piece} (h : Ext o x) (hy : NoMarker y) : Ext o (x ++ y) := by
  obtain ⟨e, rfl, he⟩ := h
  exact ⟨e ++ y, by simp, he.append hy⟩

theorem Ext.assure {o x : List Piece} (nl : Bytes) (h : Ext o x) : Ext o (assureEndsWithNl x nl) := by
  obtain ⟨e, he, hn⟩ := assureEndsWithNl_ext x nl
  rw [he]
  exact h.app hn

theorem sectionUnion_clean (inp : Input) (out : List Piece) (iu : Nat) (side : Side)
    (filled inter : List Hunk) (s : Section)
    (h : sectionUnion inp out iu side filled inter = .ok s) :
    s.conflict = false ∧ Ext out s.pieces := by
  unfold sectionUnion at h
  simp only [bind, Except.bind, pure, Except.pure] at h
  repeat' (split at h)
  all_goals (try (simp at h; done))
  all_goals (
    simp only [Except.ok.injEq] at h
    subst h
    refine ⟨rfl, ?_⟩
    simp only
    repeat (first | exact Ext.refl _ | apply Ext.assure | apply Ext.app)
    all_goals (
      first
      | exact (writeAncestor_allTokens _ _ _).noMarker
      | exact (writeHunks_allTokens _ _ _ (by assumption)).noMarker))

theorem Ext.ofTokens {o x : List Piece} (h : ∃ extra, x = o ++ extra ∧ AllTokens extra) : Ext o x := by
  obtain ⟨e, he, ht⟩ := h
  exact ⟨e, he, ht.noMarker⟩

theorem Ext.trans {a b c : List Piece} (h1 : Ext a b) (h2 : Ext b c) : Ext a c := by
  obtain ⟨e1, rfl, n1⟩ := h1
  obtain ⟨e2, rfl, n2⟩ := h2
  exact ⟨e1 ++ e2, by simp, n1.append n2⟩

theorem sectionFor_clean (inp : Input) (labels : Labels) (conflict : Conflict) (out : List Piece) (iu : Nat)
    (hunk : Hunk) (inter : List Hunk) (s : Section)
    (h : sectionFor inp labels conflict out iu hunk inter = .ok s) (hc : s.conflict = false) :
    Ext out s.pieces := by
  unfold sectionFor at h
  simp only [bind, Except.bind, pure, Except.pure] at h
  repeat' (split at h)
  all_goals (try (simp at h; done))
  · exact Ext.ofTokens (sectionKeep_clean _ _ _ _ _ _ _ _ _ _ h hc)
  · exact Ext.ofTokens (sectionPick_clean _ _ _ _ _ _ _ _ h).2
  · exact Ext.ofTokens (sectionPick_clean _ _ _ _ _ _ _ _ h).2
  · exact (sectionUnion_clean _ _ _ _ _ _ _ h).2

theorem mergeLoop_clean (inp : Input) (labels : Labels) (conflict : Conflict) :
    ∀ (fuel : Nat) (hs : List Hunk) (out : List Piece) (upTo : Nat) (c : Bool) (out' : List Piece) (upTo' : Nat),
      mergeLoop inp labels conflict fuel hs out upTo c = .ok (out', upTo', false) → c = false ∧ Ext out out' := by
  intro fuel
  induction fuel with
  | zero =>
    intro hs out upTo c out' upTo' h
    simp only [mergeLoop, Except.ok.injEq, Prod.mk.injEq] at h
    obtain ⟨rfl, _, rfl⟩ := h
    exact ⟨rfl, Ext.refl _⟩
  | succ fuel ih =>
    intro hs out upTo c out' upTo' h
    cases hs with
    | nil =>
      simp only [mergeLoop, Except.ok.injEq, Prod.mk.injEq] at h
      obtain ⟨rfl, _, rfl⟩ := h
      exact ⟨rfl, Ext.refl _⟩
    | cons hunk rest =>
      simp only [mergeLoop, bind, Except.bind, pure, Except.pure] at h
      split at h
      · -- intersecting group
        split at h
        · simp at h
        · rename_i s hs
          obtain ⟨hc, hext⟩ := ih _ _ _ _ _ _ h
          simp only [Bool.or_eq_false_iff] at hc
          exact ⟨hc.1, (sectionFor_clean _ _ _ _ _ _ _ _ hs hc.2).trans hext⟩
      · split at h
        · simp at h
        · rename_i w hw
          obtain ⟨hc, hext⟩ := ih _ _ _ _ _ _ h
          refine ⟨hc, Ext.trans ?_ hext⟩
          exact ((Ext.refl out).app (writeAncestor_allTokens _ _ _).noMarker).app (writeHunks_allTokens _ _ _ hw).noMarker

/-- `out'` extends `out` by whole input lines only -/
def ExtT (out out' : List Piece) : Prop := ∃ extra, out' = out ++ extra ∧ AllTokens extra

theorem ExtT.refl (o : List Piece) : ExtT o o := ⟨[], by simp, allTokens_nil⟩

theorem ExtT.trans {a b c : List Piece} (h1 : ExtT a b) (h2 : ExtT b c) : ExtT a c := by
  obtain ⟨e1, rfl, n1⟩ := h1
  obtain ⟨e2, rfl, n2⟩ := h2
  exact ⟨e1 ++ e2, by simp, n1.append n2⟩

theorem ExtT.app {o x y : List Piece} (h : ExtT o x) (hy : AllTokens y) : ExtT o (x ++ y) := by
  obtain ⟨e, rfl, he⟩ := h
  exact ⟨e ++ y, by simp, he.append hy⟩

theorem sectionFor_tokens (inp : Input) (labels : Labels) (conflict : Conflict) (out : List Piece) (iu : Nat)
    (hunk : Hunk) (inter : List Hunk) (s : Section) (hu : conflict ≠ .union)
    (h : sectionFor inp labels conflict out iu hunk inter = .ok s) (hc : s.conflict = false) :
    ExtT out s.pieces := by
  unfold sectionFor at h
  simp only [bind, Except.bind, pure, Except.pure] at h
  repeat' (split at h)
  all_goals (try (simp at h; done))
  · exact sectionKeep_clean _ _ _ _ _ _ _ _ _ _ h hc
  · exact (sectionPick_clean _ _ _ _ _ _ _ _ h).2
  · exact (sectionPick_clean _ _ _ _ _ _ _ _ h).2
  · exact absurd rfl hu

theorem mergeLoop_tokens (inp : Input) (labels : Labels) (conflict : Conflict) (hu : conflict ≠ .union) :
    ∀ (fuel : Nat) (hs : List Hunk) (out : List Piece) (upTo : Nat) (c : Bool) (out' : List Piece) (upTo' : Nat),
      mergeLoop inp labels conflict fuel hs out upTo c = .ok (out', upTo', false) → ExtT out out' := by
  intro fuel
  induction fuel with
  | zero =>
    intro hs out upTo c out' upTo' h
    simp only [mergeLoop, Except.ok.injEq, Prod.mk.injEq] at h
    obtain ⟨rfl, _, rfl⟩ := h
    exact ExtT.refl _
  | succ fuel ih =>
    intro hs out upTo c out' upTo' h
    cases hs with
    | nil =>
      simp only [mergeLoop, Except.ok.injEq, Prod.mk.injEq] at h
      obtain ⟨rfl, _, rfl⟩ := h
      exact ExtT.refl _
    | cons hunk rest =>
      have hcl := (mergeLoop_clean inp labels conflict _ _ _ _ _ _ _ h).1
      simp only [mergeLoop, bind, Except.bind, pure, Except.pure] at h
      split at h
      · split at h
        · simp at h
        · rename_i s hs
          have hc := (mergeLoop_clean inp labels conflict _ _ _ _ _ _ _ h).1
          simp only [Bool.or_eq_false_iff] at hc
          exact (sectionFor_tokens _ _ _ _ _ _ _ _ hu hs hc.2).trans (ih _ _ _ _ _ _ h)
      · split at h
        · simp at h
        · rename_i w hw
          exact (((ExtT.refl out).app (writeAncestor_allTokens _ _ _)).app (writeHunks_allTokens _ _ _ hw)).trans
            (ih _ _ _ _ _ _ h)

/-- a conflict-free result contains no marker line (any mode) -/
theorem merge_clean_noMarker (inp : Input) (labels : Labels) (conflict : Conflict) (ha hb : List (Range × Range))
    (ps : List Piece) (h : merge inp labels conflict ha hb = .ok (.complete, ps)) : NoMarker ps := by
  unfold merge at h
  simp only [bind, Except.bind, pure, Except.pure] at h
  split at h
  · simp at h
  · rename_i v hv
    obtain ⟨out, upTo, c⟩ := v
    simp only [Except.ok.injEq, Prod.mk.injEq] at h
    obtain ⟨hc, rfl⟩ := h
    have hc' : c = false := by
      cases c <;> simp_all
    subst hc'
    obtain ⟨_, e, rfl, hn⟩ := mergeLoop_clean _ _ _ _ _ _ _ _ _ _ hv
    exact hn.append (writeAncestor_allTokens _ _ _).noMarker

/-- … and, unless the mode is `ResolveWithUnion`, consists of whole lines of the inputs only -/
theorem merge_clean_tokens (inp : Input) (labels : Labels) (conflict : Conflict) (hu : conflict ≠ .union)
    (ha hb : List (Range × Range)) (ps : List Piece)
    (h : merge inp labels conflict ha hb = .ok (.complete, ps)) : AllTokens ps := by
  unfold merge at h
  simp only [bind, Except.bind, pure, Except.pure] at h
  split at h
  · simp at h
  · rename_i v hv
    obtain ⟨out, upTo, c⟩ := v
    simp only [Except.ok.injEq, Prod.mk.injEq] at h
    obtain ⟨hc, rfl⟩ := h
    have hc' : c = false := by
      cases c <;> simp_all
    subst hc'
    obtain ⟨e, rfl, hn⟩ := mergeLoop_tokens _ _ _ hu _ _ _ _ _ _ _ hv
    exact hn.append (writeAncestor_allTokens _ _ _)



/-- every piece is a whole input line whose side satisfies `S` -/
def TokensOf (S : Side → Bool) (ps : List Piece) : Prop :=
  ∀ p ∈ ps, ∃ s i b, p = Piece.token s i b ∧ S s = true

theorem TokensOf.append {S : Side → Bool} {a b : List Piece} (ha : TokensOf S a) (hb : TokensOf S b) :
    TokensOf S (a ++ b) := by
  intro p hp
  rcases List.mem_append.mp hp with h | h
  · exact ha p h
  · exact hb p h

theorem tokensOf_nil (S : Side → Bool) : TokensOf S [] := by intro p hp; simp at hp

theorem tokenPieces_of (S : Side → Bool) (side : Side) (toks : List Bytes) (s e : Nat) (h : S side = true) :
    TokensOf S (tokenPieces side toks s e) := by
  intro p hp
  simp only [tokenPieces, List.mem_filterMap, Option.map_eq_some_iff] at hp
  obtain ⟨k, _, b, _, rfl⟩ := hp
  exact ⟨_, _, _, rfl, h⟩

theorem writeAncestor_of (S : Side → Bool) (inp : Input) (f t : Nat) (h : S .ancestor = true) :
    TokensOf S (writeAncestor inp f t) := by
  unfold writeAncestor
  split
  · exact tokensOf_nil S
  · split
    · exact tokensOf_nil S
    · exact tokenPieces_of S _ _ _ _ h

theorem writeHunks_of (S : Side → Bool) (inp : Input) : ∀ (hs : List Hunk) (ps : List Piece),
    writeHunks inp hs = .ok ps → (∀ h ∈ hs, S h.side = true) → TokensOf S ps := by
  intro hs
  induction hs with
  | nil => intro ps h _; simp [writeHunks] at h; subst h; exact tokensOf_nil S
  | cons x rest ih =>
    intro ps h hS
    simp only [writeHunks, bind, Except.bind] at h
    cases hs : sliceTokens x.side (inp.tokens x.side) x.range with
    | error e => simp [hs] at h
    | ok a =>
      cases hr : writeHunks inp rest with
      | error e => simp [hs, hr] at h
      | ok b =>
        simp only [hs, hr, pure, Except.pure, Except.ok.injEq] at h
        subst h
        apply TokensOf.append _ (ih b hr (fun h hh => hS h (by simp [hh])))
        unfold sliceTokens at hs
        split at hs
        · simp at hs
        · split at hs
          · simp at hs
          · simp only [Except.ok.injEq] at hs; subst hs
            exact tokenPieces_of S _ _ _ _ (hS x (by simp))

theorem mem_insertByStart (h x : Hunk) (l : List Hunk) : x ∈ insertByStart h l ↔ x = h ∨ x ∈ l := by
  induction l with
  | nil => simp [insertByStart]
  | cons y rest ih =>
    simp only [insertByStart]
    split
    · simp
    · simp only [List.mem_cons, ih]
      constructor <;> (intro hh; rcases hh with h1 | h1 | h1 <;> simp [h1])

theorem mem_sortByStart (x : Hunk) (l : List Hunk) : x ∈ sortByStart l ↔ x ∈ l := by
  induction l with
  | nil => simp [sortByStart]
  | cons y rest ih => simp [sortByStart, mem_insertByStart, ih]

theorem fillGaps_mem : ∀ (fuel idx len0 : Nat) (v : List Hunk) (added : Bool) (v' : List Hunk) (a' : Bool),
    fillGaps fuel idx len0 v added = .ok (v', a') → ∀ h ∈ v', h ∈ v ∨ h.side = .ancestor := by
  intro fuel
  induction fuel with
  | zero =>
    intro idx len0 v added v' a' h
    simp only [fillGaps, Except.ok.injEq, Prod.mk.injEq] at h
    obtain ⟨rfl, _⟩ := h
    intro h hh; exact Or.inl hh
  | succ fuel ih =>
    intro idx len0 v added v' a' h
    unfold fillGaps at h
    repeat' (split at h)
    all_goals (try (simp at h; done))
    all_goals (try (
      simp only [Except.ok.injEq, Prod.mk.injEq] at h
      obtain ⟨rfl, _⟩ := h
      intro h hh; exact Or.inl hh))
    · intro x hx
      rcases ih _ _ _ _ _ _ h x hx with h1 | h1
      · simp only [List.mem_append, List.mem_singleton] at h1
        rcases h1 with h1 | h1
        · exact Or.inl h1
        · right; subst h1; rfl
      · exact Or.inr h1
    · exact ih _ _ _ _ _ _ h

theorem fillAncestor_mem (r : Range) (l l' : List Hunk) (h : fillAncestor r l = .ok l') :
    ∀ x ∈ l', x ∈ l ∨ x.side = .ancestor := by
  unfold fillAncestor at h
  cases l with
  | nil => simp at h; subst h; intro x hx; simp at hx
  | cons first rest =>
    simp only [bind, Except.bind] at h
    split at h
    · simp at h
    · rename_i g hg
      have hfront : ∀ x ∈ (fillFront r first (first :: rest)).1, x ∈ first :: rest ∨ x.side = .ancestor := by
        intro x hx
        unfold fillFront at hx
        split at hx
        · simp only [List.mem_cons] at hx
          rcases hx with rfl | hx
          · right; rfl
          · left; simpa using hx
        · left; exact hx
      have hgaps := fillGaps_mem _ _ _ _ _ _ _ (by rw [hg])
      have hsort : ∀ x ∈ fillSort (fillFront r first (first :: rest)).2 g.1 g.2, x ∈ g.1 := by
        intro x hx
        unfold fillSort at hx
        split at hx
        · rcases List.mem_append.mp hx with h1 | h1
          · exact List.mem_of_mem_take h1
          · exact List.mem_of_mem_drop ((mem_sortByStart _ _).mp h1)
        · exact hx
      intro x hx
      have hx' : x ∈ fillSort (fillFront r first (first :: rest)).2 g.1 g.2 ∨ x.side = .ancestor := by
        unfold fillBack at h
        split at h
        · simp at h
        · split at h
          · simp only [Except.ok.injEq] at h; subst h
            rcases List.mem_append.mp hx with h1 | h1
            · exact Or.inl h1
            · right; simp at h1; subst h1; rfl
          · simp only [Except.ok.injEq] at h; subst h; exact Or.inl hx
      rcases hx' with h1 | h1
      · rcases hgaps x (hsort x h1) with h2 | h2
        · exact hfront x h2
        · exact Or.inr h2
      · exact Or.inr h1

theorem takeIntersecting_sides (hunk : Hunk) : ∀ (l : List Hunk), ∀ b ∈ (takeIntersecting hunk l).1,
    b.side ≠ hunk.side ∧ b ∈ l := by
  intro l
  induction l with
  | nil => intro b hb; simp [takeIntersecting] at hb
  | cons x rest ih =>
    intro b hb
    unfold takeIntersecting at hb
    split at hb
    · rename_i hc
      simp only [List.mem_cons] at hb
      rcases hb with rfl | hb
      · simp only [Bool.and_eq_true, bne_iff_ne, ne_eq] at hc
        exact ⟨hc.1, by simp⟩
      · have := ih b hb
        exact ⟨this.1, by simp [this.2]⟩
    · simp at hb

def oursOrAncestor : Side → Bool
  | .current | .ancestor => true
  | .other => false

def theirsOrAncestor : Side → Bool
  | .other | .ancestor => true
  | .current => false

theorem sectionPick_of (S : Side → Bool) (hS : S .ancestor = true) (inp : Input) (pickOurs : Bool)
    (out : List Piece) (iu : Nat) (side : Side) (filled inter : List Hunk) (s : Section)
    (h : sectionPick inp pickOurs out iu side filled inter = .ok s)
    (hsel : ∀ v, oursTheirs side filled inter = .ok v → ∀ x ∈ (if pickOurs then v.1 else v.2), S x.side = true) :
    ∃ extra, s.pieces = out ++ extra ∧ TokensOf S extra := by
  unfold sectionPick at h
  simp only [bind, Except.bind, pure, Except.pure] at h
  repeat' (split at h)
  all_goals (try (simp at h; done))
  all_goals (
    simp only [Except.ok.injEq] at h
    subst h
    have hw := (by assumption : writeHunks inp _ = Except.ok _)
    have hot := (by assumption : oursTheirs _ _ _ = Except.ok _)
    have hsides := hsel _ hot
    first
    | exact ⟨_, List.append_assoc _ _ _, (writeAncestor_of S _ _ _ hS).append (writeHunks_of S _ _ _ hw hsides)⟩
    | exact ⟨_, rfl, writeHunks_of S _ _ _ hw hsides⟩)

/-- `ResolveWithOurs` / `ResolveWithTheirs` on a group of intersecting hunks writes only lines of
the chosen side and of the base -/
theorem sectionFor_pick (inp : Input) (labels : Labels) (pickOurs : Bool) (out : List Piece) (iu : Nat)
    (hunk : Hunk) (inter : List Hunk) (s : Section)
    (hside : hunk.side ≠ .ancestor)
    (hinter : ∀ b ∈ inter, b.side ≠ hunk.side ∧ b.side ≠ .ancestor)
    (h : sectionFor inp labels (if pickOurs then .ours else .theirs) out iu hunk inter = .ok s) :
    ∃ extra, s.pieces = out ++ extra ∧
      TokensOf (if pickOurs then oursOrAncestor else theirsOrAncestor) extra := by
  unfold sectionFor at h
  simp only [bind, Except.bind, pure, Except.pure] at h
  split at h
  · simp at h
  · rename_i inter' hi
    split at h
    · simp at h
    · split at h
      · simp at h
      · split at h
        · simp at h
        · rename_i filled hf
          have hI := fillAncestor_mem _ _ _ hi
          have hF := fillAncestor_mem _ _ _ hf
          have hpick : sectionPick inp pickOurs out iu hunk.side filled inter' = .ok s := by
            cases pickOurs <;> simpa using h
          apply sectionPick_of _ (by cases pickOurs <;> rfl) _ _ _ _ _ _ _ _ hpick
          intro v hv x hx
          cases hs : hunk.side with
          | ancestor => exact absurd hs hside
          | current =>
            simp only [oursTheirs, hs, Except.ok.injEq] at hv
            subst hv
            cases pickOurs
            · -- theirs = intersecting: other or ancestor
              simp only [Bool.false_eq_true, if_false] at hx ⊢
              rcases hI x hx with h1 | h1
              · have := hinter x h1
                rw [hs] at this
                cases hxs : x.side <;> simp_all [theirsOrAncestor]
              · simp [h1, theirsOrAncestor]
            · simp only [if_true] at hx ⊢
              rcases hF x hx with h1 | h1
              · simp only [List.mem_singleton] at h1; subst h1; simp [hs, oursOrAncestor]
              · simp [h1, oursOrAncestor]
          | other =>
            simp only [oursTheirs, hs, Except.ok.injEq] at hv
            subst hv
            cases pickOurs
            · simp only [Bool.false_eq_true, if_false] at hx ⊢
              rcases hF x hx with h1 | h1
              · simp only [List.mem_singleton] at h1; subst h1; simp [hs, theirsOrAncestor]
              · simp [h1, theirsOrAncestor]
            · simp only [if_true] at hx ⊢
              rcases hI x hx with h1 | h1
              · have := hinter x h1
                rw [hs] at this
                cases hxs : x.side <;> simp_all [oursOrAncestor]
              · simp [h1, oursOrAncestor]



/-- the ranges of a hunk are ordered and inside the token lists they index -/
def HunkValid (inp : Input) (h : Hunk) : Prop :=
  h.before.start ≤ h.before.stop ∧ h.before.stop ≤ inp.anc.length ∧
  h.range.start ≤ h.range.stop ∧ h.range.stop ≤ (inp.tokens h.side).length

theorem writeHunks_ok (inp : Input) : ∀ (hs : List Hunk), (∀ h ∈ hs, HunkValid inp h) →
    ∃ ps, writeHunks inp hs = .ok ps := by
  intro hs
  induction hs with
  | nil => intro _; exact ⟨[], rfl⟩
  | cons x rest ih =>
    intro hv
    obtain ⟨qs, hq⟩ := ih (fun h hh => hv h (by simp [hh]))
    obtain ⟨_, _, h3, h4⟩ := hv x (by simp)
    refine ⟨tokenPieces x.side (inp.tokens x.side) x.range.start x.range.stop ++ qs, ?_⟩
    simp only [writeHunks, bind, Except.bind, sliceTokens]
    rw [if_neg (by omega), if_neg (by omega), hq]
    rfl

theorem ancestorHunk_valid (inp : Input) (s n : Nat) (h : s + n ≤ inp.anc.length) :
    HunkValid inp (ancestorHunk s n) := by
  simp only [HunkValid, ancestorHunk, Hunk.range, Input.tokens]
  omega

theorem fillGaps_ok (inp : Input) : ∀ (fuel idx len0 : Nat) (v : List Hunk) (added : Bool),
    (∀ h ∈ v, HunkValid inp h) →
    ∃ v' a', fillGaps fuel idx len0 v added = .ok (v', a') ∧ (∀ h ∈ v', HunkValid inp h) ∧ v.length ≤ v'.length := by
  intro fuel
  induction fuel with
  | zero => intro idx len0 v added hv; exact ⟨v, added, rfl, hv, Nat.le_refl _⟩
  | succ fuel ih =>
    intro idx len0 v added hv
    unfold fillGaps
    split
    · exact ⟨v, added, rfl, hv, Nat.le_refl _⟩
    · cases hn : v[idx + 1]? with
      | none => exact ⟨v, added, rfl, hv, Nat.le_refl _⟩
      | some next =>
        have hlt : idx + 1 < v.length := by
          have := List.getElem?_eq_some_iff.mp hn
          exact this.1
        have hh : v[idx]? = some v[idx] := List.getElem?_eq_getElem (by omega)
        simp only [hh]
        have hnext : HunkValid inp next := hv next (List.mem_of_getElem? hn)
        split
        · rename_i hgap
          have hval : ∀ h ∈ v ++ [ancestorHunk v[idx].before.stop (next.before.start - v[idx].before.stop)],
              HunkValid inp h := by
            intro h hm
            rcases List.mem_append.mp hm with h1 | h1
            · exact hv h h1
            · simp only [List.mem_singleton] at h1
              subst h1
              apply ancestorHunk_valid
              have := hnext.1; have := hnext.2.1
              omega
          obtain ⟨v', a', h1, h2, h3⟩ := ih (idx + 1) len0 _ true hval
          exact ⟨v', a', h1, h2, by simp at h3; omega⟩
        · exact ih (idx + 1) len0 v added hv

theorem length_insertByStart (h : Hunk) (l : List Hunk) : (insertByStart h l).length = l.length + 1 := by
  induction l with
  | nil => rfl
  | cons x rest ih => simp only [insertByStart]; split <;> simp [ih]

theorem length_sortByStart (l : List Hunk) : (sortByStart l).length = l.length := by
  induction l with
  | nil => rfl
  | cons x rest ih => simp [sortByStart, length_insertByStart, ih]

theorem fillAncestor_ok (inp : Input) (r : Range) (l : List Hunk) (hr : r.stop ≤ inp.anc.length)
    (hne : l ≠ []) (hv : ∀ h ∈ l, HunkValid inp h) :
    ∃ l', fillAncestor r l = .ok l' ∧ l' ≠ [] ∧ ∀ h ∈ l', HunkValid inp h := by
  cases l with
  | nil => exact absurd rfl hne
  | cons first rest =>
    have hfirst := hv first (by simp)
    have hfront : ∀ h ∈ (fillFront r first (first :: rest)).1, HunkValid inp h := by
      intro h hm
      unfold fillFront at hm
      split at hm
      · simp only [List.mem_cons] at hm
        rcases hm with rfl | hm
        · apply ancestorHunk_valid
          have := hfirst.1; have := hfirst.2.1
          omega
        · exact hv h (by simpa using hm)
      · exact hv h hm
    have hfrontlen : 1 ≤ (fillFront r first (first :: rest)).1.length := by
      unfold fillFront; split <;> simp
    obtain ⟨v', a', hg, hgv, hgl⟩ := fillGaps_ok inp ((fillFront r first (first :: rest)).1.length + 1)
      (fillFront r first (first :: rest)).2 (fillFront r first (first :: rest)).1.length _ false hfront
    have hsortv : ∀ h ∈ fillSort (fillFront r first (first :: rest)).2 v' a', HunkValid inp h := by
      intro h hm
      unfold fillSort at hm
      split at hm
      · rcases List.mem_append.mp hm with h1 | h1
        · exact hgv h (List.mem_of_mem_take h1)
        · exact hgv h (List.mem_of_mem_drop ((mem_sortByStart _ _).mp h1))
      · exact hgv h hm
    have hsortlen : 1 ≤ (fillSort (fillFront r first (first :: rest)).2 v' a').length := by
      unfold fillSort
      split
      · simp only [List.length_append, List.length_take, length_sortByStart, List.length_drop]; omega
      · omega
    simp only [fillAncestor, bind, Except.bind, hg]
    unfold fillBack
    cases hl : (fillSort (fillFront r first (first :: rest)).2 v' a').getLast? with
    | none =>
      have := List.getLast?_eq_none_iff.mp hl
      rw [this] at hsortlen; simp at hsortlen
    | some last =>
      have hlast : HunkValid inp last := hsortv last (List.mem_of_getLast? hl)
      simp only
      split
      · refine ⟨_, rfl, by simp, ?_⟩
        intro h hm
        rcases List.mem_append.mp hm with h1 | h1
        · exact hsortv h h1
        · simp only [List.mem_singleton] at h1; subst h1
          apply ancestorHunk_valid; omega
      · refine ⟨_, rfl, ?_, hsortv⟩
        intro he; rw [he] at hsortlen; simp at hsortlen



theorem expect_some {α : Type} (o : Option α) (msg : String) (x : α) (h : o = some x) : expect o msg = .ok x := by
  subst h; rfl

theorem sectionPick_ok (inp : Input) (pickOurs : Bool) (out : List Piece) (iu : Nat) (side : Side)
    (filled inter : List Hunk) (hside : side ≠ .ancestor)
    (hf : ∀ h ∈ filled, HunkValid inp h) (hi : ∀ h ∈ inter, HunkValid inp h) :
    ∃ s, sectionPick inp pickOurs out iu side filled inter = .ok s := by
  unfold sectionPick
  have hot : ∃ v, oursTheirs side filled inter = .ok v ∧ (∀ h ∈ v.1, HunkValid inp h) ∧ (∀ h ∈ v.2, HunkValid inp h) := by
    cases side with
    | ancestor => exact absurd rfl hside
    | current => exact ⟨(filled, inter), rfl, hf, hi⟩
    | other => exact ⟨(inter, filled), rfl, hi, hf⟩
  obtain ⟨v, hv, h1, h2⟩ := hot
  have hw : ∃ ps, writeHunks inp (if pickOurs = true then v.1 else v.2) = .ok ps := by
    cases pickOurs
    · simpa using writeHunks_ok inp v.2 h2
    · simpa using writeHunks_ok inp v.1 h1
  obtain ⟨ps, hps⟩ := hw
  simp only [bind, Except.bind, hv, hps, pure, Except.pure]
  exact ⟨_, rfl⟩

theorem sectionFor_pick_ok (inp : Input) (labels : Labels) (pickOurs : Bool) (out : List Piece) (iu : Nat)
    (hunk : Hunk) (inter : List Hunk)
    (hside : hunk.side ≠ .ancestor) (hh : HunkValid inp hunk) (hne : inter ≠ [])
    (hi : ∀ h ∈ inter, HunkValid inp h) :
    ∃ s, sectionFor inp labels (if pickOurs then .ours else .theirs) out iu hunk inter = .ok s := by
  obtain ⟨inter', h1, hne', hv'⟩ := fillAncestor_ok inp hunk.before inter hh.2.1 hne hi
  obtain ⟨first, hfirst⟩ : ∃ f, inter'.head? = some f := by
    cases inter' with
    | nil => exact absurd rfl hne'
    | cons x _ => exact ⟨x, rfl⟩
  obtain ⟨last, hlast⟩ : ∃ f, inter'.getLast? = some f := by
    cases hl : inter'.getLast? with
    | none => exact absurd (List.getLast?_eq_none_iff.mp hl) hne'
    | some x => exact ⟨x, rfl⟩
  have hlastv := hv' last (List.mem_of_getLast? hlast)
  obtain ⟨filled, h2, _, hfv⟩ := fillAncestor_ok inp ⟨first.before.start, last.before.stop⟩ [hunk] hlastv.2.1
    (by simp) (by intro h hm; simp at hm; subst hm; exact hh)
  obtain ⟨s, hs⟩ := sectionPick_ok inp pickOurs out iu hunk.side filled inter' hside hfv hv'
  refine ⟨s, ?_⟩
  unfold sectionFor
  simp only [bind, Except.bind, h1, expect_some _ _ _ hfirst, expect_some _ _ _ hlast, h2]
  cases pickOurs <;> simpa using hs

theorem takeIntersecting_rest_mem (hunk : Hunk) : ∀ (l : List Hunk), ∀ x ∈ (takeIntersecting hunk l).2, x ∈ l := by
  intro l
  induction l with
  | nil => intro x hx; simp [takeIntersecting] at hx
  | cons y rest ih =>
    intro x hx
    unfold takeIntersecting at hx
    split at hx
    · exact List.mem_cons_of_mem _ (ih x hx)
    · exact hx

theorem mergeLoop_pick_ok (inp : Input) (labels : Labels) (pickOurs : Bool) :
    ∀ (fuel : Nat) (hs : List Hunk) (out : List Piece) (upTo : Nat) (c : Bool),
      (∀ h ∈ hs, HunkValid inp h ∧ h.side ≠ .ancestor) →
      ∃ r, mergeLoop inp labels (if pickOurs then .ours else .theirs) fuel hs out upTo c = .ok r := by
  intro fuel
  induction fuel with
  | zero => intro hs out upTo c _; exact ⟨_, rfl⟩
  | succ fuel ih =>
    intro hs out upTo c hv
    cases hs with
    | nil => exact ⟨_, rfl⟩
    | cons hunk rest =>
      have hh := hv hunk (by simp)
      have hrest : ∀ h ∈ (takeIntersecting hunk rest).2, HunkValid inp h ∧ h.side ≠ .ancestor :=
        fun h hm => hv h (List.mem_cons_of_mem _ (takeIntersecting_rest_mem hunk rest h hm))
      simp only [mergeLoop, bind, Except.bind, pure, Except.pure]
      split
      · rename_i hne
        have hne' : (takeIntersecting hunk rest).1 ≠ [] := by
          intro he; simp [he] at hne
        have htv : ∀ h ∈ (takeIntersecting hunk rest).1, HunkValid inp h :=
          fun h hm => (hv h (List.mem_cons_of_mem _ (takeIntersecting_sides hunk rest h hm).2)).1
        obtain ⟨s, hs⟩ := sectionFor_pick_ok inp labels pickOurs out upTo hunk _ hh.2 hh.1 hne' htv
        rw [hs]
        exact ih _ _ _ _ hrest
      · obtain ⟨ps, hps⟩ := writeHunks_ok inp [hunk] (by intro h hm; simp at hm; subst hm; exact hh.1)
        rw [hps]
        exact ih _ _ _ _ hrest



theorem diffOk_valid {base side : List Bytes} : ∀ {hs : List (Range × Range)} {pb ps : Nat} {first : Bool},
    diffOkFrom base side pb ps first hs = true →
    ∀ h ∈ hs, h.1.start ≤ h.1.stop ∧ h.1.stop ≤ base.length ∧ h.2.start ≤ h.2.stop ∧ h.2.stop ≤ side.length := by
  intro hs
  induction hs with
  | nil => intro _ _ _ _ h hh; simp at hh
  | cons x rest ih =>
    intro pb ps first hok h hh
    obtain ⟨b, a⟩ := x
    simp only [diffOkFrom, Bool.and_eq_true, decide_eq_true_eq] at hok
    obtain ⟨⟨⟨⟨⟨⟨⟨⟨⟨⟨h1, h2⟩, h3⟩, h4⟩, h5⟩, h6⟩, h7⟩, h8⟩, h9⟩, h10⟩, h11⟩ := hok
    simp only [List.mem_cons] at hh
    rcases hh with rfl | hh
    · exact ⟨h1, h3, h2, h4⟩
    · exact ih h11 h hh

/-- with `ResolveWithOurs`/`ResolveWithTheirs` the merge never panics on hunks satisfying the contract -/
theorem merge_pick_ok (base ours theirs : List Bytes) (labels : Labels) (pickOurs : Bool)
    (ha hb : List (Range × Range)) (hA : DiffOf base ours ha) (hB : DiffOf base theirs hb) :
    ∃ r, merge ⟨base, ours, theirs⟩ labels (if pickOurs then .ours else .theirs) ha hb = .ok r := by
  let inp : Input := ⟨base, ours, theirs⟩
  have hvalid : ∀ h ∈ sortByStart (ha.map (fun (b, a) => Hunk.mk b a .current) ++ hb.map (fun (b, a) => Hunk.mk b a .other)),
      HunkValid inp h ∧ h.side ≠ .ancestor := by
    intro h hm
    rw [mem_sortByStart] at hm
    rcases List.mem_append.mp hm with h1 | h1
    · simp only [List.mem_map] at h1
      obtain ⟨⟨b, a⟩, hx, rfl⟩ := h1
      have := diffOk_valid hA.1 (b, a) hx
      exact ⟨⟨this.1, this.2.1, this.2.2.1, this.2.2.2⟩, by simp⟩
    · simp only [List.mem_map] at h1
      obtain ⟨⟨b, a⟩, hx, rfl⟩ := h1
      have := diffOk_valid hB.1 (b, a) hx
      exact ⟨⟨this.1, this.2.1, this.2.2.1, this.2.2.2⟩, by simp⟩
  obtain ⟨r, hr⟩ := mergeLoop_pick_ok inp labels pickOurs
    ((sortByStart (ha.map (fun (b, a) => Hunk.mk b a .current) ++ hb.map (fun (b, a) => Hunk.mk b a .other))).length + 1)
    _ [] 0 false hvalid
  unfold merge
  simp only [bind, Except.bind, pure, Except.pure]
  rw [hr]
  exact ⟨_, rfl⟩


theorem sectionFor_pick_flag (inp : Input) (labels : Labels) (pickOurs : Bool) (out : List Piece) (iu : Nat)
    (hunk : Hunk) (inter : List Hunk) (s : Section)
    (h : sectionFor inp labels (if pickOurs then .ours else .theirs) out iu hunk inter = .ok s) :
    s.conflict = false := by
  unfold sectionFor at h
  simp only [bind, Except.bind, pure, Except.pure] at h
  repeat' (split at h)
  all_goals (try (simp at h; done))
  all_goals (
    first
    | exact (sectionPick_clean _ _ _ _ _ _ _ _ h).1
    | (cases pickOurs <;> simp_all))

theorem mergeLoop_pick_flag (inp : Input) (labels : Labels) (pickOurs : Bool) :
    ∀ (fuel : Nat) (hs : List Hunk) (out : List Piece) (upTo : Nat) (c : Bool) (r : List Piece × Nat × Bool),
      mergeLoop inp labels (if pickOurs then .ours else .theirs) fuel hs out upTo c = .ok r → r.2.2 = c := by
  intro fuel
  induction fuel with
  | zero => intro hs out upTo c r h; simp only [mergeLoop, Except.ok.injEq] at h; subst h; rfl
  | succ fuel ih =>
    intro hs out upTo c r h
    cases hs with
    | nil => simp only [mergeLoop, Except.ok.injEq] at h; subst h; rfl
    | cons hunk rest =>
      simp only [mergeLoop, bind, Except.bind, pure, Except.pure] at h
      split at h
      · split at h
        · simp at h
        · rename_i s hs
          have := ih _ _ _ _ _ h
          rw [this, sectionFor_pick_flag _ _ _ _ _ _ _ _ hs]; simp
      · split at h
        · simp at h
        · exact ih _ _ _ _ _ h


/-- the two copies of every hunk, ours first -/
def pairUp (hs : List (Range × Range)) : List Hunk :=
  hs.flatMap fun (b, a) => [Hunk.mk b a .current, Hunk.mk b a .other]

theorem sort_pull (k : Hunk) : ∀ (X Y : List Hunk), (∀ x ∈ X, k.before.start < x.before.start) →
    (∀ y ∈ Y, k.before.start ≤ y.before.start) → sortByStart (X ++ k :: Y) = k :: sortByStart (X ++ Y) := by
  intro X
  induction X with
  | nil =>
    intro Y _ hY
    simp only [List.nil_append, sortByStart]
    apply insert_le_all
    intro x hx
    exact hY x ((mem_sortByStart x Y).mp hx)
  | cons x X ih =>
    intro Y hX hY
    simp only [List.cons_append, sortByStart]
    rw [ih Y (fun z hz => hX z (by simp [hz])) hY]
    have := hX x (by simp)
    simp only [insertByStart]
    rw [if_neg (by omega)]

theorem diffOk_lower_strict {base side : List Bytes} : ∀ {hs : List (Range × Range)} {pb ps : Nat},
    diffOkFrom base side pb ps false hs = true → ∀ h ∈ hs, pb < h.1.start := by
  intro hs
  cases hs with
  | nil => intro _ _ _ h hh; simp at hh
  | cons x rest =>
    intro pb ps hok h hh
    obtain ⟨b, a⟩ := x
    simp only [diffOkFrom, Bool.and_eq_true, decide_eq_true_eq, Bool.false_or] at hok
    obtain ⟨⟨⟨⟨⟨⟨⟨⟨⟨⟨h1, h2⟩, h3⟩, h4⟩, h5⟩, h6⟩, h7⟩, h8⟩, h9⟩, h10⟩, h11⟩ := hok
    simp only [List.mem_cons] at hh
    rcases hh with rfl | hh
    · exact h8
    · have := diffOk_lower h11 h hh
      omega

theorem sort_pairs {base side : List Bytes} : ∀ {hs : List (Range × Range)} {pb ps : Nat} {first : Bool},
    diffOkFrom base side pb ps first hs = true →
    sortByStart (oneSide .current hs ++ oneSide .other hs) = pairUp hs := by
  intro hs
  induction hs with
  | nil => intro _ _ _ _; rfl
  | cons x rest ih =>
    intro pb ps first hok
    obtain ⟨b, a⟩ := x
    have hok' := hok
    simp only [diffOkFrom, Bool.and_eq_true, decide_eq_true_eq] at hok
    obtain ⟨⟨⟨⟨⟨⟨⟨⟨⟨⟨h1, h2⟩, h3⟩, h4⟩, h5⟩, h6⟩, h7⟩, h8⟩, h9⟩, h10⟩, h11⟩ := hok
    have hlow := diffOk_lower h11
    simp only [oneSide, List.map_cons, List.cons_append, sortByStart, pairUp, List.flatMap_cons]
    have hpull := sort_pull (Hunk.mk b a .other) (oneSide .current rest) (oneSide .other rest)
      (by
        intro x hx
        simp only [oneSide, List.mem_map] at hx
        obtain ⟨y, hy, rfl⟩ := hx
        have := diffOk_lower_strict h11 y hy
        simp; omega)
      (by
        intro x hx
        simp only [oneSide, List.mem_map] at hx
        obtain ⟨y, hy, rfl⟩ := hx
        have := hlow y hy
        simp; omega)
    simp only [oneSide] at hpull ih
    rw [hpull, ih h11]
    simp [insertByStart, pairUp]



theorem fillAncestor_single (r : Range) (h : Hunk) (hr : h.before = r) : fillAncestor r [h] = .ok [h] := by
  subst hr
  simp [fillAncestor, fillFront, fillGaps, fillSort, fillBack, bind, Except.bind]

theorem isEolCrlf_ok (inp : Input) (hs : List Hunk) : ∃ r, isEolCrlf inp hs = .ok r := by
  unfold isEolCrlf
  cases hp : hs.reverse.findSome? (fun h =>
      if !h.after.isEmpty then some (h.after, h.side)
      else if !h.before.isEmpty then some (h.before, Side.ancestor) else none) with
  | none => exact ⟨none, rfl⟩
  | some v =>
    obtain ⟨range, side⟩ := v
    have hne : range.stop ≠ 0 := by
      obtain ⟨h, _, hh⟩ := List.exists_of_findSome?_eq_some hp
      split at hh
      · rename_i he
        simp only [Option.some.injEq, Prod.mk.injEq] at hh
        obtain ⟨rfl, _⟩ := hh
        simp [Range.isEmpty] at he; omega
      · split at hh
        · rename_i he
          simp only [Option.some.injEq, Prod.mk.injEq] at hh
          obtain ⟨rfl, _⟩ := hh
          simp [Range.isEmpty] at he; omega
        · simp at hh
    simp only
    rw [if_neg (by simpa using hne)]
    repeat' split
    all_goals exact ⟨_, rfl⟩

theorem detectLineEnding_ok (inp : Input) (hs : List Hunk) : ∃ r, detectLineEnding inp hs = .ok r := by
  obtain ⟨r, hr⟩ := isEolCrlf_ok inp hs
  unfold detectLineEnding
  rw [hr]
  exact ⟨_, rfl⟩

theorem detectLineEndingOrNl_ok (inp : Input) (hs : List Hunk) : ∃ r, detectLineEndingOrNl inp hs = .ok r := by
  obtain ⟨r, hr⟩ := detectLineEnding_ok inp hs
  unfold detectLineEndingOrNl
  rw [hr]
  exact ⟨_, rfl⟩

def sameStep (s : Nat) (k : Nat) : (Nat × Nat × Side) × (Nat × Nat × Side) :=
  ((s + k, 0, Side.current), (s + k, 0, Side.other))

theorem scanEqual_same (inp : Input) (hcur : inp.cur = inp.oth) (s : Nat) : ∀ (ks : List Nat) (st : ScanState),
    st.lastA = 0 → st.lastB = 0 → (∀ k ∈ ks, s + k < inp.cur.length) →
    scanEqual inp (ks.map (sameStep s)) st = .ok (match ks.getLast? with
      | none => st
      | some k => { st with removeA := some 0, removeB := some 0, tokA := some (s + k), tokB := some (s + k) }) := by
  intro ks
  induction ks with
  | nil => intro st _ _ _; rfl
  | cons k ks ih =>
    intro st hA hB hk
    obtain ⟨lA, lB, rA, rB, tA, tB⟩ := st
    simp only at hA hB
    subst hA hB
    have hlt := hk k (by simp)
    have hl1 : lineContent inp (s + k) .current = .ok inp.cur[s + k] := by
      simp [lineContent, Input.tokens, List.getElem?_eq_getElem hlt]
    have hl2 : lineContent inp (s + k) .other = .ok inp.cur[s + k] := by
      have hlt' : s + k < inp.oth.length := by rw [← hcur]; exact hlt
      simp only [lineContent, Input.tokens, List.getElem?_eq_getElem hlt']
      congr 1
      simp [hcur]
    simp only [List.map_cons, sameStep, scanEqual, bind, Except.bind, hl1, hl2, bne_self_eq_false,
      Bool.false_eq_true, if_false, beq_self_eq_true, if_true]
    have := ih { lastA := 0, lastB := 0, removeA := some 0, removeB := some 0, tokA := some (s + k), tokB := some (s + k) }
      rfl rfl (fun j hj => hk j (by simp [hj]))
    simp only [sameStep] at this
    rw [this]
    cases hks : ks.getLast? with
    | none =>
      have : ks = [] := List.getLast?_eq_none_iff.mp hks
      subst this; rfl
    | some j =>
      have : (k :: ks).getLast? = some j := by
        cases ks with
        | nil => simp at hks
        | cons x xs => rw [List.getLast?_cons_cons]; exact hks
      rw [this]



theorem iterate_pair (b a : Range) :
    (iterateHunks [Hunk.mk b a .current]).zip (iterateHunks [Hunk.mk b a .other]) =
      (List.range (a.stop - a.start)).map (sameStep a.start) := by
  simp only [iterateHunks, List.zipIdx_cons, List.zipIdx_nil, List.flatMap_cons, List.flatMap_nil, List.append_nil,
    Hunk.range, Nat.zero_add]
  rw [List.zip_map']
  rfl

theorem getLast_range (n : Nat) : (List.range n).getLast? = if n = 0 then none else some (n - 1) := by
  cases n with
  | zero => rfl
  | succ n => simp [List.range_succ]

theorem contract_same (inp : Input) (hcur : inp.cur = inp.oth) (b a : Range)
    (h1 : a.start ≤ a.stop) (h2 : a.stop ≤ inp.cur.length) :
    zealouslyContract inp [Hunk.mk b a .current] [Hunk.mk b a .other] =
      .ok (if a.start < a.stop then { a := [], b := [], front := [Hunk.mk b a .current], back := [] }
           else { a := [Hunk.mk b a .current], b := [Hunk.mk b a .other], front := [], back := [] }) := by
  unfold zealouslyContract
  rw [iterate_pair, scanEqual_same inp hcur a.start (List.range (a.stop - a.start)) {} rfl rfl
    (by intro k hk; simp at hk; omega), getLast_range]
  by_cases hn : a.start < a.stop
  · have hne : a.stop - a.start ≠ 0 := by omega
    have htok : a.start + (a.stop - a.start - 1) + 1 = a.stop := by omega
    simp only [hne, if_false, hn, if_true, bind, Except.bind, pure, Except.pure]
    simp [truncateFront, truncateBack, Hunk.range, Hunk.setRange, Range.isEmpty, htok, iterateHunksRev,
      scanEqual]
  · have hne : a.stop - a.start = 0 := by omega
    simp only [hne, if_true, hn, if_false, bind, Except.bind, pure, Except.pure]
    simp [truncateFront, truncateBack, iterateHunksRev, Hunk.range, hne, scanEqual]



theorem writeHunks_single (inp : Input) (h : Hunk) (h1 : h.range.start ≤ h.range.stop)
    (h2 : h.range.stop ≤ (inp.tokens h.side).length) :
    writeHunks inp [h] = .ok (tokenPieces h.side (inp.tokens h.side) h.range.start h.range.stop) := by
  simp only [writeHunks, sliceTokens, bind, Except.bind, pure, Except.pure]
  rw [if_neg (by omega), if_neg (by omega)]
  simp

theorem render_nil : render [] = [] := rfl

theorem keepMiddle_quiet (inp : Input) (labels : Labels) (style : Style) (ms : Nat) (out : List Piece) (iu : Nat)
    (front ours theirs : List Hunk) (fh lh : Hunk) (ho : ours.isEmpty = false) (ht : theirs.isEmpty = false)
    (hc : (containsLines ours || containsLines theirs) = false) :
    keepMiddle inp labels style ms out iu front ours theirs fh lh = .ok (out, false) := by
  unfold keepMiddle
  simp only [ho, ht, Bool.false_eq_true, if_false, bind, Except.bind, pure, Except.pure]
  obtain ⟨r1, h1⟩ := detectLineEnding_ok inp (if front.isEmpty then
      [{ before := ⟨iu, fh.before.start⟩, after := ⟨0, 0⟩, side := .ancestor }] else front)
  obtain ⟨r2, h2⟩ := detectLineEnding_ok inp ours
  rw [h1]
  cases r1 with
  | none => simp only [h2]; cases style <;> simp [hc]
  | some nl => cases style <;> simp [hc]

theorem keepMiddle_diff3_equal (inp : Input) (labels : Labels) (ms : Nat) (out : List Piece) (iu : Nat)
    (front ours theirs : List Hunk) (fh lh : Hunk) (w : List Piece) (ho : ours.isEmpty = false)
    (ht : theirs.isEmpty = false) (hc : (containsLines ours || containsLines theirs) = true)
    (hd : hunksDifferInDiff3 .diff3 inp ours theirs = false) (hw : writeHunks inp ours = .ok w) :
    keepMiddle inp labels .diff3 ms out iu front ours theirs fh lh = .ok (out ++ w, false) := by
  unfold keepMiddle
  simp only [ho, ht, Bool.false_eq_true, if_false, bind, Except.bind, pure, Except.pure]
  obtain ⟨r1, h1⟩ := detectLineEnding_ok inp (if front.isEmpty then
      [{ before := ⟨iu, fh.before.start⟩, after := ⟨0, 0⟩, side := .ancestor }] else front)
  obtain ⟨r2, h2⟩ := detectLineEnding_ok inp ours
  rw [h1]
  cases r1 with
  | none => simp [h2, hc, hd, hw]
  | some nl => simp [hc, hd, hw]

/-- what a group of two identical hunks (same change on both sides) contributes, in every mode -/
theorem sectionFor_same (base side : List Bytes) (labels : Labels) (conflict : Conflict) (out : List Piece)
    (iu : Nat) (b a : Range) (_hb1 : b.start ≤ b.stop) (_hb2 : b.stop ≤ base.length)
    (ha1 : a.start ≤ a.stop) (ha2 : a.stop ≤ side.length) (_hne : ¬(b.start = b.stop ∧ a.start = a.stop)) :
    ∃ s, sectionFor ⟨base, side, side⟩ labels conflict out iu (Hunk.mk b a .current) [Hunk.mk b a .other] = .ok s ∧
      s.conflict = false ∧ s.upTo = b.stop ∧
      render s.pieces = render out ++ render (writeAncestor ⟨base, side, side⟩ iu b.start) ++
        ((side.drop a.start).take (a.stop - a.start)).flatten := by
  have hA : writeHunks (Input.mk base side side) [Hunk.mk b a .current] = .ok (tokenPieces .current side a.start a.stop) :=
    writeHunks_single (Input.mk base side side) _ ha1 ha2
  have hB : writeHunks (Input.mk base side side) [Hunk.mk b a .other] = .ok (tokenPieces .other side a.start a.stop) :=
    writeHunks_single (Input.mk base side side) _ ha1 ha2
  have hrA : render (tokenPieces .current side a.start a.stop) = ((side.drop a.start).take (a.stop - a.start)).flatten :=
    tokenPieces_render _ _ _ _ ha2
  have hrB : render (tokenPieces .other side a.start a.stop) = ((side.drop a.start).take (a.stop - a.start)).flatten :=
    tokenPieces_render _ _ _ _ ha2
  have hW0 : writeHunks (Input.mk base side side) [] = .ok [] := rfl
  have hf1 : fillAncestor b [Hunk.mk b a .other] = .ok [Hunk.mk b a .other] := fillAncestor_single b _ rfl
  have hf2 : fillAncestor ⟨b.start, b.stop⟩ [Hunk.mk b a .current] = .ok [Hunk.mk b a .current] :=
    fillAncestor_single _ _ rfl
  unfold sectionFor
  simp only [bind, Except.bind, hf1, expect, List.head?_cons, List.getLast?_singleton, hf2]
  cases conflict with
  | ours =>
    simp only [sectionPick, oursTheirs, bind, Except.bind, pure, Except.pure, if_true, List.head?_cons,
      List.getLast?_singleton, hA]
    refine ⟨_, rfl, ?_⟩
    refine ⟨rfl, rfl, ?_⟩
    simp [render_append, hrA]
  | theirs =>
    simp only [sectionPick, oursTheirs, bind, Except.bind, pure, Except.pure, Bool.false_eq_true, if_false,
      List.head?_cons, List.getLast?_singleton, hB]
    refine ⟨_, rfl, ?_⟩
    refine ⟨rfl, rfl, ?_⟩
    simp [render_append, hrB]
  | union =>
    simp only [sectionUnion, contract_same (Input.mk base side side) rfl b a ha1 ha2, bind, Except.bind, pure, Except.pure]
    by_cases hn : a.start < a.stop
    · simp only [hn, if_true, oursTheirs, expect, orElse, List.head?_cons, List.head?_nil, List.getLast?_singleton,
        List.getLast?_nil, hA, hW0, containsLines, List.any_nil, Bool.or_false, Bool.false_eq_true, if_false]
      refine ⟨_, rfl, ?_⟩
      refine ⟨rfl, rfl, ?_⟩
      simp [render_append, hrA, render_nil]
    · have hempty : a.isEmpty = true := by simp [Range.isEmpty]; omega
      have hr0 : ((side.drop a.start).take (a.stop - a.start)).flatten = [] := by
        have : a.stop - a.start = 0 := by omega
        simp [this]
      simp only [hn, if_false, oursTheirs, expect, orElse, List.head?_cons, List.head?_nil, List.getLast?_singleton,
        List.getLast?_nil, hA, hB, hW0, containsLines, List.any_cons, List.any_nil, hempty, Bool.not_true, Bool.or_false,
        Bool.false_eq_true, if_false]
      refine ⟨_, rfl, ?_⟩
      refine ⟨rfl, rfl, ?_⟩
      simp [render_append, hrA, hrB, render_nil, hr0]
  | keep style ms =>
    have hcs := contract_same (Input.mk base side side) rfl b a ha1 ha2
    by_cases hn : a.start < a.stop
    · have hcl : containsLines [Hunk.mk b a .current] = true := by
        simp [containsLines, Range.isEmpty, hn]
      cases style with
      | diff3 =>
        have hd : hunksDifferInDiff3 .diff3 (Input.mk base side side) [Hunk.mk b a .current] [Hunk.mk b a .other] = false := by
          simp [hunksDifferInDiff3, Input.tokens]
        simp only [sectionKeep, contractFor, bind, Except.bind, pure, Except.pure, oursTheirs, expect, orElse,
          List.head?_cons, List.head?_nil, List.getLast?_singleton, List.getLast?_nil, hW0, List.append_nil]
        rw [keepMiddle_diff3_equal _ _ _ _ _ _ _ _ _ _ _ rfl rfl (by simp [hcl]) hd hA]
        refine ⟨_, rfl, ?_⟩
        refine ⟨rfl, rfl, ?_⟩
        simp [render_append, hrA, render_nil]
      | merge =>
        simp only [sectionKeep, contractFor, hcs, hn, if_true, bind, Except.bind, pure, Except.pure, oursTheirs,
          expect, orElse, List.head?_cons, List.head?_nil, List.getLast?_singleton, List.getLast?_nil, hA, hW0,
          keepMiddle, List.isEmpty_nil]
        refine ⟨_, rfl, ?_⟩
        refine ⟨rfl, rfl, ?_⟩
        simp [render_append, hrA, render_nil]
      | zdiff3 =>
        simp only [sectionKeep, contractFor, hcs, hn, if_true, bind, Except.bind, pure, Except.pure, oursTheirs,
          expect, orElse, List.head?_cons, List.head?_nil, List.getLast?_singleton, List.getLast?_nil, hA, hW0,
          keepMiddle, List.isEmpty_nil]
        refine ⟨_, rfl, ?_⟩
        refine ⟨rfl, rfl, ?_⟩
        simp [render_append, hrA, render_nil]
    · have hempty : a.isEmpty = true := by simp [Range.isEmpty]; omega
      have hr0 : ((side.drop a.start).take (a.stop - a.start)).flatten = [] := by
        have : a.stop - a.start = 0 := by omega
        simp [this]
      have hq : ∀ (st : Style) (o : List Piece) (fr : List Hunk),
          keepMiddle (Input.mk base side side) labels st ms o iu fr [Hunk.mk b a .current] [Hunk.mk b a .other]
            (Hunk.mk b a .current) (Hunk.mk b a .other) = .ok (o, false) := by
        intro st o fr
        exact keepMiddle_quiet _ _ _ _ _ _ _ _ _ _ _ rfl rfl (by simp [containsLines, hempty])
      cases style <;>
        simp only [sectionKeep, contractFor, hcs, hn, if_false, bind, Except.bind, pure, Except.pure, oursTheirs,
          expect, orElse, List.head?_cons, List.head?_nil, List.getLast?_singleton, List.getLast?_nil, hW0, hq,
          List.append_nil] <;>
        (refine ⟨_, rfl, ?_⟩; refine ⟨rfl, rfl, ?_⟩; simp [render_append, render_nil, hr0])



theorem take_pair (b a : Range) (rest : List (Range × Range)) :
    takeIntersecting (Hunk.mk b a .current) (Hunk.mk b a .other :: pairUp rest) =
      ([Hunk.mk b a .other], pairUp rest) := by
  have hcond : ((Hunk.mk b a Side.other).side != (Hunk.mk b a Side.current).side &&
      ((Hunk.mk b a Side.current).before.contains (Hunk.mk b a Side.other).before.start ||
        ((Hunk.mk b a Side.current).before.isEmpty &&
          (Hunk.mk b a Side.current).before.start == (Hunk.mk b a Side.other).before.start))) = true := by
    simp only [Range.contains, Range.isEmpty]
    by_cases h : b.start < b.stop <;> simp [h]
  unfold takeIntersecting
  rw [if_pos hcond]
  cases rest with
  | nil => simp [pairUp, takeIntersecting]
  | cons x xs =>
    obtain ⟨b', a'⟩ := x
    simp [pairUp, takeIntersecting]

theorem length_pairUp (hs : List (Range × Range)) : (pairUp hs).length = 2 * hs.length := by
  induction hs with
  | nil => rfl
  | cons x rest ih =>
    obtain ⟨b, a⟩ := x
    simp only [pairUp, List.flatMap_cons, List.length_append, List.length_cons, List.length_nil] at ih ⊢
    omega

theorem mergeLoop_pairs (base side : List Bytes) (labels : Labels) (conflict : Conflict) :
    ∀ (hs : List (Range × Range)) (pb ps : Nat) (first : Bool) (out : List Piece) (fuel : Nat),
      2 * hs.length < fuel →
      diffOkFrom base side pb ps first hs = true →
      ps ≤ side.length →
      render out = (side.take ps).flatten →
      ∃ out' upTo, mergeLoop ⟨base, side, side⟩ labels conflict fuel (pairUp hs) out pb false = .ok (out', upTo, false) ∧
        render (out' ++ writeAncestor ⟨base, side, side⟩ upTo base.length) = side.flatten := by
  intro hs
  induction hs with
  | nil =>
    intro pb ps first out fuel hf hok hps hout
    cases fuel with
    | zero => omega
    | succ fuel =>
      refine ⟨out, pb, rfl, ?_⟩
      simp only [diffOkFrom, beq_iff_eq] at hok
      by_cases hpb : pb ≤ base.length
      · rw [render_append, writeAncestor_render ⟨base, side, side⟩ _ _ hpb (Nat.le_refl _), hout]
        have ht : (base.drop pb).take (base.length - pb) = base.drop pb := List.take_of_length_le (by simp)
        rw [ht, hok, ← List.flatten_append, List.take_append_drop]
      · have hb : base.drop pb = [] := List.drop_eq_nil_of_le (by omega)
        rw [hb] at hok
        have : writeAncestor ⟨base, side, side⟩ pb base.length = [] := by
          unfold writeAncestor; rw [if_pos (by show base.length < pb; omega)]
        rw [this, List.append_nil, hout]
        have h2 : side.take ps = side := by
          have := congrArg List.length hok
          simp at this
          exact List.take_of_length_le (by omega)
        rw [h2]
  | cons x rest ih =>
    intro pb ps first out fuel hf hok hps hout
    obtain ⟨b, a⟩ := x
    cases fuel with
    | zero => simp at hf
    | succ fuel =>
      simp only [diffOkFrom, Bool.and_eq_true, decide_eq_true_eq, beq_iff_eq] at hok
      obtain ⟨⟨⟨⟨⟨⟨⟨⟨⟨⟨h1, h2⟩, h3⟩, h4⟩, h5⟩, h6⟩, h7⟩, h8⟩, h9⟩, h10⟩, h11⟩ := hok
      have hne : ¬(b.start = b.stop ∧ a.start = a.stop) := by
        intro hh
        simp [hh.1, hh.2] at h5
      obtain ⟨s, hs, hc, hup, hr⟩ := sectionFor_same base side labels conflict out pb b a h1 h3 h2 h4 hne
      have hout1 : render s.pieces = (side.take a.stop).flatten := by
        rw [hr, hout, writeAncestor_render ⟨base, side, side⟩ pb b.start h6 (by simp; omega)]
        simp only [h10]
        rw [take_extend _ _ _ h7, take_extend _ _ _ h2]
      obtain ⟨out', upTo, hloop, hfin⟩ := ih b.stop a.stop false s.pieces fuel (by simp at hf; omega) h11 h4 hout1
      refine ⟨out', upTo, ?_, hfin⟩
      have hpu : pairUp ((b, a) :: rest) = Hunk.mk b a .current :: Hunk.mk b a .other :: pairUp rest := by
        simp [pairUp]
      rw [hpu]
      simp only [mergeLoop, take_pair, List.isEmpty_cons, Bool.not_false, if_true, bind, Except.bind, hs, hc, hup,
        Bool.or_false]
      exact hloop

/-- `same_change`: both sides made the same change (same text, same hunks) ⇒ every mode yields
that change, without conflict -/
theorem merge_same_change (base side : List Bytes) (labels : Labels) (conflict : Conflict)
    (hs : List (Range × Range)) (h : DiffOf base side hs) :
    ∃ ps, merge ⟨base, side, side⟩ labels conflict hs hs = .ok (.complete, ps) ∧ render ps = side.flatten := by
  have hsort := sort_pairs (base := base) (side := side) h.1
  obtain ⟨out', upTo, hloop, hfin⟩ := mergeLoop_pairs base side labels conflict hs 0 0 true []
    ((pairUp hs).length + 1) (by rw [length_pairUp]; omega) h.1 (Nat.zero_le _) (by simp [render])
  refine ⟨out' ++ writeAncestor ⟨base, side, side⟩ upTo base.length, ?_, hfin⟩
  unfold merge
  have e1 : hs.map (fun x => match x with | (b, a) => Hunk.mk b a Side.current) = oneSide .current hs := rfl
  have e2 : hs.map (fun x => match x with | (b, a) => Hunk.mk b a Side.other) = oneSide .other hs := rfl
  simp only [bind, Except.bind, pure, Except.pure]
  rw [e1, e2, hsort, hloop]
  rfl


end GixModel.C45
