import GixModel.Model.C01
import GixModel.Lemmas.Dec
/-
Helper lemmas for C01: the generic ladder theorem (any table passing the decidable `armsOk`
check computes the exact decimal width for every i64), and length bookkeeping for the writers.
-/
namespace GixModel.C01
open GixModel

def i64Min : Int := -9223372036854775808
def i64Max : Int := 9223372036854775807

/-- Decidable well-formedness of a `Time::size()` ladder below the exclusive bound `hi`:
each live arm `(t, w)` covers `[t, hi)`; both ends must render with `w` bytes and have the same
sign; dead arms (`t ≥ hi`) are ignored; the fall-through covers `[i64::MIN, hi)`. -/
def armsOk : Int → List (Int × Nat) → Nat → Bool
  | hi, [], els =>
    decide (hi ≤ i64Min) ||
      (decide (IntWidth i64Min els) && decide (IntWidth (hi - 1) els) && decide (hi - 1 < 0))
  | hi, (t, w) :: rest, els =>
    if t < hi then
      decide (IntWidth t w) && decide (IntWidth (hi - 1) w) && decide (0 ≤ t ∨ hi - 1 < 0)
        && armsOk t rest els
    else armsOk hi rest els

theorem ladder_width :
    ∀ (arms : List (Int × Nat)) (els : Nat) (hi : Int), armsOk hi arms els = true →
      ∀ s : Int, i64Min ≤ s → s < hi → IntWidth s (ladder arms els s) := by
  intro arms els
  induction arms with
  | nil =>
    intro hi hok s hlo hhi
    simp only [armsOk, Bool.or_eq_true, Bool.and_eq_true, decide_eq_true_eq] at hok
    simp only [ladder]
    cases hok with
    | inl h => omega
    | inr h =>
      obtain ⟨⟨h1, h2⟩, h3⟩ := h
      exact IntWidth.between h1 h2 hlo (by omega) (Or.inr h3)
  | cons a rest ih =>
    obtain ⟨t, w⟩ := a
    intro hi hok s hlo hhi
    simp only [ladder]
    by_cases hst : s ≥ t
    · simp only [hst, if_true]
      have hthi : t < hi := by omega
      simp only [armsOk, hthi, if_true, Bool.and_eq_true, decide_eq_true_eq] at hok
      obtain ⟨⟨⟨h1, h2⟩, h3⟩, _⟩ := hok
      exact IntWidth.between h1 h2 hst (by omega) h3
    · simp only [hst, if_false]
      by_cases hthi : t < hi
      · simp only [armsOk, hthi, if_true, Bool.and_eq_true, decide_eq_true_eq] at hok
        exact ih t hok.2 s hlo (by omega)
      · simp only [armsOk, hthi, if_false] at hok
        exact ih hi hok s hlo hhi

/-- The whole table: ladder correct on all of i64 and the constant is the 6 bytes of ` +hhmm`. -/
def tableOk (arms : List (Int × Nat)) (els extra : Nat) : Bool :=
  armsOk (i64Max + 1) arms els && extra == 6

theorem twoDigits_length {n : Nat} (h : n < 100) : (twoDigits n).length = 2 := by
  unfold twoDigits
  by_cases h10 : n < 10
  · simp only [h10, if_true, List.length_cons]
    rw [natDec_length (k := 1) ⟨by omega, by omega, Or.inl rfl⟩]
  · simp only [h10, if_false]
    exact natDec_length ⟨by omega, by omega, Or.inr (by omega)⟩

theorem concatOpts_some_length :
    ∀ (xs : List (Option Bytes)) (out : Bytes), concatOpts xs = some out →
      out.length = (xs.map (fun o => match o with | some b => b.length | none => 0)).sum := by
  intro xs
  induction xs with
  | nil => intro out h; simp [concatOpts] at h; subst h; simp
  | cons x xs ih =>
    intro out h
    cases x with
    | none => simp [concatOpts, optAppend] at h
    | some b =>
      cases hrest : concatOpts xs with
      | none => simp [concatOpts, optAppend, hrest] at h
      | some r =>
        simp [concatOpts, optAppend, hrest] at h
        subst h
        simp [ih r hrest]

theorem concatOpts_some_all :
    ∀ (xs : List (Option Bytes)) (out : Bytes), concatOpts xs = some out → ∀ x ∈ xs, x.isSome := by
  intro xs
  induction xs with
  | nil => intro out _ x hx; simp at hx
  | cons y ys ih =>
    intro out h x hx
    cases y with
    | none => simp [concatOpts, optAppend] at h
    | some b =>
      cases hrest : concatOpts ys with
      | none => simp [concatOpts, optAppend, hrest] at h
      | some r =>
        simp at hx
        cases hx with
        | inl e => subst e; rfl
        | inr e => exact ih r hrest x e

theorem hexBytes_length (id : Bytes) : (hexBytes id).length = 2 * id.length := by
  induction id with
  | nil => rfl
  | cons b bs ih =>
    simp only [hexBytes, List.flatMap_cons, List.length_append, List.length_cons, List.length_nil] at *
    omega

/-- total length of `lines_with_terminator` pieces is the length of the value -/
theorem lwt_go_length : ∀ (bs acc : Bytes),
    ((linesWithTerminator.go bs acc).map List.length).sum = bs.length + acc.length := by
  intro bs
  induction bs with
  | nil =>
    intro acc
    simp only [linesWithTerminator.go]
    by_cases h : acc.isEmpty
    · simp [h, List.isEmpty_iff.mp h]
    · simp [h]
  | cons b rest ih =>
    intro acc
    simp only [linesWithTerminator.go]
    by_cases hb : b == 10
    · simp [hb, ih]; omega
    · simp [hb, ih]; omega

theorem lwt_length (bs : Bytes) : ((linesWithTerminator bs).map List.length).sum = bs.length := by
  simp [linesWithTerminator, lwt_go_length]

end GixModel.C01
