import GixModel.Model.C09
/-
C09 helper lemmas, part 3: the fan-out loop computes, for every byte value `b`, the number of
(sorted) first bytes `≤ b`; and in a sorted list that count is the boundary between the entries
whose first byte is `≤ b` and the others.
-/
namespace GixModel.C09
open GixModel

/-- number of first bytes `≤ b` -/
def countLe (b : Nat) (l : List UInt8) : Nat := l.countP (fun x => decide (x.toNat ≤ b))

/-- first bytes in non-decreasing order -/
def SortedFb (l : List UInt8) : Prop := l.Pairwise (fun a b => a.toNat ≤ b.toNat)

/-- the iterator state right after `idx_and_entry = iter.next()` when `l` is what is left and `p`
is the index of its head -/
def st (p : Nat) : List UInt8 → Option (Nat × UInt8) × Nat × List UInt8
  | [] => (none, p, [])
  | x :: xs => (some (p, x), p + 1, xs)

theorem findNe_run (byte : Nat) :
    ∀ (xs : List UInt8) (pos : Nat), SortedFb xs → (∀ y ∈ xs, byte ≤ y.toNat) →
      ∃ run l', xs = run ++ l' ∧ (∀ y ∈ run, y.toNat = byte) ∧ (∀ y ∈ l', byte < y.toNat) ∧
        findNe byte pos xs = st (pos + run.length) l' := by
  intro xs
  induction xs with
  | nil => intro pos _ _; exact ⟨[], [], rfl, by simp, by simp, rfl⟩
  | cons y ys ih =>
    intro pos hs hge
    have hs' := List.pairwise_cons.mp hs
    by_cases hy : y.toNat = byte
    · obtain ⟨run, l', h1, h2, h3, h4⟩ := ih (pos + 1) hs'.2 (fun z hz => hge z (by simp [hz]))
      refine ⟨y :: run, l', by simp [h1], ?_, h3, ?_⟩
      · intro z hz
        cases List.mem_cons.mp hz with
        | inl h => rw [h]; exact hy
        | inr h => exact h2 z h
      · simp only [findNe, hy, ne_eq, not_true_eq_false, if_false, h4, List.length_cons]
        congr 1; omega
    · refine ⟨[], y :: ys, rfl, by simp, ?_, ?_⟩
      · have hyb := hge y (by simp)
        intro z hz
        cases List.mem_cons.mp hz with
        | inl h => rw [h]; omega
        | inr h => have := hs'.1 z h; omega
      · simp [findNe, hy, st]

theorem countLe_append (b : Nat) (l1 l2 : List UInt8) : countLe b (l1 ++ l2) = countLe b l1 + countLe b l2 := by
  simp [countLe, List.countP_append]

theorem countLe_all {b : Nat} {l : List UInt8} (h : ∀ y ∈ l, y.toNat ≤ b) : countLe b l = l.length := by
  simp only [countLe]
  rw [List.countP_eq_length]
  intro a ha; simp [h a ha]

theorem countLe_none {b : Nat} {l : List UInt8} (h : ∀ y ∈ l, b < y.toNat) : countLe b l = 0 := by
  simp only [countLe]
  rw [List.countP_eq_zero]
  intro a ha; have := h a ha; simp; omega

theorem countLe_le_length (b : Nat) (l : List UInt8) : countLe b l ≤ l.length := List.countP_le_length

theorem countLe_mono {b c : Nat} (h : b ≤ c) (l : List UInt8) : countLe b l ≤ countLe c l := by
  induction l with
  | nil => simp [countLe]
  | cons x xs ih =>
    simp only [countLe, List.countP_cons] at ih ⊢
    by_cases h1 : x.toNat ≤ b
    · have : x.toNat ≤ c := by omega
      simp [h1, this]; exact ih
    · by_cases h2 : x.toNat ≤ c
      · simp [h1, h2]; omega
      · simp [h1, h2]; exact ih

theorem range_succ_map (k : Nat) (f : Nat → Nat) :
    (List.range (k + 1)).map f = f 0 :: (List.range k).map (fun j => f (j + 1)) := by
  rw [List.range_succ_eq_map]; simp [List.map_map, Function.comp_def]

theorem fanLoop_spec (n : Nat) :
    ∀ (k byte : Nat) (l : List UInt8) (p : Nat), k + byte = 256 → SortedFb l →
      (∀ x ∈ l, byte ≤ x.toNat) → p + l.length = n →
      fanLoop n k byte (st p l).1 (st p l).2.1 (st p l).2.2 p
        = some ((List.range k).map (fun j => p + countLe (byte + j) l)) := by
  intro k
  induction k with
  | zero => intro byte l p _ _ _ _; simp [fanLoop]
  | succ k ih =>
    intro byte l p hkb hs hge hpn
    rw [range_succ_map]
    cases l with
    | nil =>
      have := ih (byte + 1) [] p (by omega) hs (by simp) hpn
      simp only [st] at this ⊢
      simp only [fanLoop, this, Option.map_some, countLe, List.countP_nil, Nat.add_zero] at *
      simp only [List.length_nil, Nat.add_zero] at hpn
      subst hpn
      simp [Nat.add_assoc, Nat.add_comm 1]
    | cons x xs =>
      have hs' := List.pairwise_cons.mp hs
      have hxge := hge x (by simp)
      have hx255 : x.toNat < 256 := x.toNat_lt
      have hpn' : p + (xs.length + 1) = n := by simpa using hpn
      simp only [st]
      by_cases hgt : byte < x.toNat
      · -- Greater: the output is `upper_bound`
        have hnot : ¬ x.toNat < byte := by omega
        have hall : ∀ y ∈ x :: xs, byte < y.toNat := by
          intro y hy
          cases List.mem_cons.mp hy with
          | inl h => rw [h]; exact hgt
          | inr h => have := hs'.1 y h; omega
        have := ih (byte + 1) (x :: xs) p (by omega) hs (fun y hy => hall y hy) hpn
        simp only [st] at this
        simp only [fanLoop, hnot, hgt, if_false, if_true, this, Option.map_some, countLe_none hall,
          Nat.add_zero]
        simp [Nat.add_assoc, Nat.add_comm 1]
      · have hxe : x.toNat = byte := by omega
        have hnot : ¬ x.toNat < byte := by omega
        by_cases h255 : byte = 255
        · have hk0 : k = 0 := by omega
          subst hk0
          subst h255
          have hall : ∀ y ∈ x :: xs, y.toNat ≤ 255 + 0 := by
            intro y _; have := y.toNat_lt; omega
          simp only [fanLoop, hnot, hgt, if_false, if_true, Option.map_some, List.range_zero,
            List.map_nil]
          rw [countLe_all hall]
          simp only [List.length_cons]
          congr 2; omega
        · obtain ⟨run, l', h1, h2, h3, h4⟩ := findNe_run byte xs (p + 1) hs'.2 (fun z hz => hge z (by simp [hz]))
          have hlen : xs.length = run.length + l'.length := by rw [h1]; simp
          have hl's : SortedFb l' := by
            have : SortedFb (run ++ l') := h1 ▸ hs'.2
            exact (List.pairwise_append.mp this).2.1
          have hrec := ih (byte + 1) l' (p + 1 + run.length) (by omega) hl's (fun y hy => h3 y hy)
            (by omega)
          have hcount : ∀ j, countLe (byte + j) (x :: xs) = 1 + run.length + countLe (byte + j) l' := by
            intro j
            have hrun : ∀ y ∈ x :: run, y.toNat ≤ byte + j := by
              intro y hy
              cases List.mem_cons.mp hy with
              | inl h => rw [h]; omega
              | inr h => have := h2 y h; omega
            have : x :: xs = (x :: run) ++ l' := by simp [h1]
            rw [this, countLe_append, countLe_all hrun]
            simp; omega
          have h0 := hcount 0
          rw [countLe_none (b := byte + 0) (l := l') (by intro y hy; have := h3 y hy; omega)] at h0
          have htail : (List.range k).map (fun j => p + 1 + run.length + countLe (byte + 1 + j) l')
              = (List.range k).map (fun j => p + countLe (byte + (j + 1)) (x :: xs)) := by
            apply List.map_congr_left
            intro j _
            rw [hcount (j + 1)]
            have : byte + 1 + j = byte + (j + 1) := by omega
            rw [this]; omega
          rw [htail] at hrec
          -- the new upper bound is the index of the first entry behind the run (or `entries_len`)
          cases l' with
          | nil =>
            have hn : n = p + 1 + run.length := by simp only [List.length_nil] at hlen; omega
            simp only [st] at hrec
            simp only [fanLoop, hnot, hgt, h255, if_false, h4, st, hn] at hrec ⊢
            simp only [hrec, Option.map_some, h0]
            have : p + (1 + run.length + 0) = p + 1 + run.length := by omega
            rw [this]
          | cons z zs =>
            simp only [st] at hrec
            simp only [fanLoop, hnot, hgt, h255, if_false, h4, st, hrec, Option.map_some, h0]
            have : p + (1 + run.length + 0) = p + 1 + run.length := by omega
            rw [this]

theorem fanout_spec (fbs : List UInt8) (hs : SortedFb fbs) :
    fanout fbs = some ((List.range 256).map (fun b => countLe b fbs)) := by
  have := fanLoop_spec fbs.length 256 0 fbs 0 (by omega) hs (by intro x _; omega) (by omega)
  cases fbs with
  | nil => simpa [fanout, st] using this
  | cons x xs => simpa [fanout, st] using this

/-- In a sorted list the entries with first byte `≤ b` are exactly the first `countLe b` ones. -/
theorem lt_countLe_iff {b : Nat} :
    ∀ (l : List UInt8), SortedFb l → ∀ (i : Nat) (hi : i < l.length), (i < countLe b l ↔ l[i].toNat ≤ b) := by
  intro l
  induction l with
  | nil => intro _ i hi; simp at hi
  | cons x xs ih =>
    intro hs i hi
    have hs' := List.pairwise_cons.mp hs
    by_cases hx : x.toNat ≤ b
    · have hc : countLe b (x :: xs) = countLe b xs + 1 := by simp [countLe, List.countP_cons, hx]
      cases i with
      | zero => simp [hc, hx]
      | succ j =>
        have := ih hs'.2 j (by simpa using hi)
        simp only [hc, List.getElem_cons_succ]
        omega
    · have hall : ∀ y ∈ x :: xs, b < y.toNat := by
        intro y hy
        cases List.mem_cons.mp hy with
        | inl h => rw [h]; omega
        | inr h => have := hs'.1 y h; omega
      rw [countLe_none hall]
      have := hall (x :: xs)[i] (List.getElem_mem hi)
      omega

theorem fanMonotone_map_range' (f : Nat → Nat) (hf : ∀ i, f i ≤ f (i + 1)) :
    ∀ (k s : Nat), fanMonotone ((List.range' s k).map f) = true := by
  intro k
  induction k with
  | zero => intro s; rfl
  | succ k ih =>
    intro s
    cases k with
    | zero => rfl
    | succ k' =>
      have h := ih (s + 1)
      simp only [List.range'_succ, List.map_cons] at h ⊢
      simp only [fanMonotone, Bool.and_eq_true, decide_eq_true_eq]
      exact ⟨hf s, h⟩

/-- the cumulative counts the fan-out loop produces are monotonic -/
theorem fanMonotone_counts (l : List UInt8) :
    fanMonotone ((List.range 256).map (fun b => countLe b l)) = true := by
  rw [List.range_eq_range']
  exact fanMonotone_map_range' _ (fun i => countLe_mono (by omega) l) 256 0

end GixModel.C09
