import GixModel.Model.C47Walks
import GixModel.Spec.C47
/-
C47 — lemmas, part 1: the `Simple` iterator.

`SInv` is the invariant of both loops (`next_by_topology` over the deque, `next_by_commit_date`
over the priority queue): the output and the frontier are duplicate-free, walkable, and closed
under accepted parents. `simple_spec` is the summary used by the property theorems.
-/
namespace GixModel.C47
open GixModel GixModel.CG GixModel.Spec.C47

theorem NatSet.mem_insert (s : NatSet) (x y : Nat) :
    (s.insert x).mem y = (s.mem y || decide (y = x)) := by
  by_cases h : y = x <;> simp [NatSet.insert, h]

theorem nodup_subset_length : ∀ {l L : List Nat}, l.Nodup → (∀ x, x ∈ l → x ∈ L) → l.length ≤ L.length := by
  intro l
  induction l with
  | nil => intro L _ _; simp
  | cons x xs ih =>
    intro L hnd hsub
    have hnd' := List.nodup_cons.mp hnd
    have hx : x ∈ L := hsub x List.mem_cons_self
    have hsub' : ∀ y, y ∈ xs → y ∈ L.erase x := by
      intro y hy
      have hne : y ≠ x := fun h => hnd'.1 (h ▸ hy)
      exact (List.mem_erase_of_ne hne).mpr (hsub y (List.mem_cons_of_mem _ hy))
    have := ih hnd'.2 hsub'
    have hlen := List.length_erase_of_mem hx
    have hpos := List.length_pos_of_mem hx
    simp only [List.length_cons]
    omega

/-- what one run of a "push the new parents" loop did -/
structure Pushed (seen seen' : NatSet) (ps : List Nat) (ok : Nat → Bool) (added : List Nat) : Prop where
  seen_eq : ∀ x, seen'.mem x = (seen.mem x || decide (x ∈ ps))
  nodup : added.Nodup
  sound : ∀ x, x ∈ added → x ∈ ps ∧ seen.mem x = false ∧ ok x = true
  complete : ∀ p, p ∈ ps → seen.mem p = false → ok p = true → p ∈ added

theorem Pushed.skip_seen {seen seen' : NatSet} {p : Nat} {ps : List Nat} {ok : Nat → Bool} {added : List Nat}
    (hp : seen.mem p = true) (h : Pushed seen seen' ps ok added) : Pushed seen seen' (p :: ps) ok added where
  seen_eq := by
    intro x
    rw [h.seen_eq]
    by_cases hx : x = p
    · subst hx; simp [hp]
    · simp [hx]
  nodup := h.nodup
  sound := fun x hx => ⟨List.mem_cons_of_mem _ (h.sound x hx).1, (h.sound x hx).2⟩
  complete := by
    intro q hq hsq hok
    cases List.mem_cons.mp hq with
    | inl h' => subst h'; rw [hp] at hsq; cases hsq
    | inr h' => exact h.complete q h' hsq hok

theorem Pushed.take {seen seen' : NatSet} {p : Nat} {ps : List Nat} {ok : Nat → Bool} {added : List Nat}
    (hp : seen.mem p = false) (hok : ok p = true) (h : Pushed (seen.insert p) seen' ps ok added) :
    Pushed seen seen' (p :: ps) ok (p :: added) where
  seen_eq := by
    intro x
    rw [h.seen_eq, NatSet.mem_insert]
    by_cases hx : x = p <;> simp [hx]
  nodup := by
    apply List.nodup_cons.mpr
    refine ⟨?_, h.nodup⟩
    intro hmem
    have := (h.sound p hmem).2.1
    rw [NatSet.mem_insert] at this
    simp at this
  sound := by
    intro x hx
    cases List.mem_cons.mp hx with
    | inl h' => subst h'; exact ⟨List.mem_cons_self, hp, hok⟩
    | inr h' =>
      obtain ⟨a1, a2, a3⟩ := h.sound x h'
      rw [NatSet.mem_insert] at a2
      simp only [Bool.or_eq_false_iff] at a2
      exact ⟨List.mem_cons_of_mem _ a1, a2.1, a3⟩
  complete := by
    intro q hq hsq hokq
    by_cases hqp : q = p
    · subst hqp; exact List.mem_cons_self
    · cases List.mem_cons.mp hq with
      | inl h' => exact absurd h' hqp
      | inr h' =>
        apply List.mem_cons_of_mem
        apply h.complete q h' _ hokq
        rw [NatSet.mem_insert]; simp [hsq, hqp]

theorem Pushed.reject {seen seen' : NatSet} {p : Nat} {ps : List Nat} {ok : Nat → Bool} {added : List Nat}
    (hok : ok p = false) (h : Pushed (seen.insert p) seen' ps ok added) :
    Pushed seen seen' (p :: ps) ok added where
  seen_eq := by
    intro x
    rw [h.seen_eq, NatSet.mem_insert]
    by_cases hx : x = p <;> simp [hx]
  nodup := h.nodup
  sound := by
    intro x hx
    obtain ⟨a1, a2, a3⟩ := h.sound x hx
    rw [NatSet.mem_insert] at a2
    simp only [Bool.or_eq_false_iff] at a2
    exact ⟨List.mem_cons_of_mem _ a1, a2.1, a3⟩
  complete := by
    intro q hq hsq hokq
    by_cases hqp : q = p
    · subst hqp; rw [hok] at hokq; cases hokq
    · cases List.mem_cons.mp hq with
      | inl h' => exact absurd h' hqp
      | inr h' =>
        apply h.complete q h' _ hokq
        rw [NatSet.mem_insert]; simp [hsq, hqp]

theorem Pushed.nil (seen : NatSet) (ok : Nat → Bool) : Pushed seen seen [] ok [] where
  seen_eq := by intro x; simp
  nodup := List.nodup_nil
  sound := by intro x hx; simp at hx
  complete := by intro p hp; simp at hp

theorem pushParentsBfs_spec (pred : Nat → Bool) :
    ∀ (ps : List Nat) (seen : NatSet) (next : List Nat),
      ∃ added, (pushParentsBfs pred ps seen next).2 = next ++ added ∧
        Pushed seen (pushParentsBfs pred ps seen next).1 ps pred added := by
  intro ps
  induction ps with
  | nil => intro seen next; exact ⟨[], by simp [pushParentsBfs], Pushed.nil seen pred⟩
  | cons p ps ih =>
    intro seen next
    unfold pushParentsBfs
    by_cases hs : seen.mem p = true
    · rw [if_pos hs]
      obtain ⟨added, h1, h2⟩ := ih seen next
      exact ⟨added, h1, h2.skip_seen hs⟩
    · rw [if_neg hs]
      have hsf : seen.mem p = false := by simpa using hs
      by_cases hp : pred p = true
      · rw [if_pos hp]
        obtain ⟨added, h1, h2⟩ := ih (seen.insert p) (next ++ [p])
        refine ⟨p :: added, ?_, h2.take hsf hp⟩
        rw [h1]; simp
      · rw [if_neg hp]
        have hpf : pred p = false := by simpa using hp
        obtain ⟨added, h1, h2⟩ := ih (seen.insert p) next
        exact ⟨added, h1, h2.reject hpf⟩

theorem simpleTips_eq (pred : Nat → Bool) : ∀ (ts : List Nat) (seen : NatSet) (next : List Nat),
    simpleTips pred ts seen next = pushParentsBfs pred ts seen next := by
  intro ts
  induction ts with
  | nil => intro seen next; rfl
  | cons t ts ih =>
    intro seen next
    unfold simpleTips pushParentsBfs
    split
    · exact ih _ _
    · split
      · exact ih _ _
      · exact ih _ _

/-- acceptance of a parent in `next_by_commit_date`: the predicate and the cut-off -/
def okDate (g : Dag) (pred : Nat → Bool) (cut : Option Int) (x : Nat) : Bool :=
  pred x && (match cut with
    | some s => decide (g.time x ≥ s)
    | none => true)

theorem pushParentsDate_spec {g : Dag} {q : PQ Int} (hq : q.Lawful) (pred : Nat → Bool) (oldest : Bool)
    (cut : Option Int) :
    ∀ (ps : List Nat) (seen : NatSet) (qu : q.Q),
      ∃ added, ((q.items (pushParentsDate g q pred oldest cut ps seen qu).2).map (·.2)).Perm
          ((q.items qu).map (·.2) ++ added) ∧
        Pushed seen (pushParentsDate g q pred oldest cut ps seen qu).1 ps (okDate g pred cut) added := by
  intro ps
  induction ps with
  | nil => intro seen qu; exact ⟨[], by simp [pushParentsDate], Pushed.nil seen _⟩
  | cons p ps ih =>
    intro seen qu
    unfold pushParentsDate
    by_cases hs : seen.mem p = true
    · rw [if_pos hs]
      obtain ⟨added, h1, h2⟩ := ih seen qu
      exact ⟨added, h1, h2.skip_seen hs⟩
    · rw [if_neg hs]
      have hsf : seen.mem p = false := by simpa using hs
      have hins : ∀ k, ((q.items (q.insert k p qu)).map (·.2)).Perm ((q.items qu).map (·.2) ++ [p]) := by
        intro k
        have := (hq.items_insert k p qu).map (·.2)
        simp only [List.map_cons] at this
        exact this.trans (List.perm_append_singleton _ _).symm
      have htake : ∀ k, okDate g pred cut p = true →
          ∃ added, ((q.items (pushParentsDate g q pred oldest cut ps (seen.insert p) (q.insert k p qu)).2).map (·.2)).Perm
              ((q.items qu).map (·.2) ++ added) ∧
            Pushed seen (pushParentsDate g q pred oldest cut ps (seen.insert p) (q.insert k p qu)).1 (p :: ps)
              (okDate g pred cut) added := by
        intro k hok
        obtain ⟨added, h1, h2⟩ := ih (seen.insert p) (q.insert k p qu)
        refine ⟨p :: added, ?_, h2.take hsf hok⟩
        refine h1.trans ?_
        refine ((hins k).append_right added).trans ?_
        simp
      have hrej : okDate g pred cut p = false →
          ∃ added, ((q.items (pushParentsDate g q pred oldest cut ps (seen.insert p) qu).2).map (·.2)).Perm
              ((q.items qu).map (·.2) ++ added) ∧
            Pushed seen (pushParentsDate g q pred oldest cut ps (seen.insert p) qu).1 (p :: ps)
              (okDate g pred cut) added := by
        intro hok
        obtain ⟨added, h1, h2⟩ := ih (seen.insert p) qu
        exact ⟨added, h1, h2.reject hok⟩
      by_cases hp : pred p = true
      · rw [if_pos hp]
        cases cut with
        | none =>
          dsimp only
          exact htake _ (by simp [okDate, hp])
        | some s =>
          dsimp only
          by_cases hlt : g.time p < s
          · rw [if_pos hlt]
            exact hrej (by simp [okDate, hp]; omega)
          · rw [if_neg hlt]
            exact htake _ (by simp [okDate, hp]; omega)
      · rw [if_neg hp]
        have hpf : pred p = false := by simpa using hp
        exact hrej (by simp [okDate, hpf])

/-! ### the invariant -/

structure SInv (g : Dag) (fp : Bool) (ok : Nat → Bool) (tips nodes : List Nat) (seen : NatSet)
    (F O : List Nat) : Prop where
  nodup : (O ++ F).Nodup
  seen_of : ∀ x, x ∈ O ++ F → seen.mem x = true
  seen_ok : ∀ x, seen.mem x = true → ok x = true → x ∈ O ++ F
  walk : ∀ x, x ∈ O ++ F → Walkable g fp ok tips x
  in_nodes : ∀ x, x ∈ O ++ F → x ∈ nodes
  tips_done : ∀ t, t ∈ tips → ok t = true → t ∈ O ++ F
  closed : ∀ c, c ∈ O → ∀ p, p ∈ edges g fp c → ok p = true → p ∈ O ++ F

theorem edges_subset {g : Dag} {fp : Bool} {c p : Nat} (h : p ∈ edges g fp c) : p ∈ g.parents c := by
  unfold edges at h
  split at h
  · exact List.mem_of_mem_take h
  · exact h

theorem SInv.perm {g : Dag} {fp : Bool} {ok : Nat → Bool} {tips nodes : List Nat} {seen : NatSet}
    {F F' O : List Nat} (h : SInv g fp ok tips nodes seen F O) (hp : F'.Perm F) :
    SInv g fp ok tips nodes seen F' O := by
  have hperm : (O ++ F').Perm (O ++ F) := List.Perm.append_left O hp
  have hmem : ∀ x, x ∈ O ++ F' ↔ x ∈ O ++ F := fun x => hperm.mem_iff
  exact
    { nodup := hperm.nodup_iff.mpr h.nodup
      seen_of := fun x hx => h.seen_of x ((hmem x).mp hx)
      seen_ok := fun x h1 h2 => (hmem x).mpr (h.seen_ok x h1 h2)
      walk := fun x hx => h.walk x ((hmem x).mp hx)
      in_nodes := fun x hx => h.in_nodes x ((hmem x).mp hx)
      tips_done := fun t h1 h2 => (hmem t).mpr (h.tips_done t h1 h2)
      closed := fun c hc p h1 h2 => (hmem p).mpr (h.closed c hc p h1 h2) }

theorem SInv.step {g : Dag} {fp : Bool} {ok : Nat → Bool} {tips nodes : List Nat} {seen seen' : NatSet}
    {c : Nat} {R O added : List Nat} (hcl : Closed g nodes)
    (h : SInv g fp ok tips nodes seen (c :: R) O)
    (hp : Pushed seen seen' (edges g fp c) ok added) :
    SInv g fp ok tips nodes seen' (R ++ added) (O ++ [c]) := by
  have hmem : ∀ x, x ∈ (O ++ [c]) ++ (R ++ added) ↔ x ∈ O ++ c :: R ∨ x ∈ added := by
    intro x
    simp only [List.mem_append, List.mem_cons, List.not_mem_nil, or_false]
    constructor
    · intro hx
      rcases hx with (h1 | h1) | (h1 | h1)
      · exact Or.inl (Or.inl h1)
      · exact Or.inl (Or.inr (Or.inl h1))
      · exact Or.inl (Or.inr (Or.inr h1))
      · exact Or.inr h1
    · intro hx
      rcases hx with (h1 | h1 | h1) | h1
      · exact Or.inl (Or.inl h1)
      · exact Or.inl (Or.inr h1)
      · exact Or.inr (Or.inl h1)
      · exact Or.inr (Or.inr h1)
  have hmono : ∀ x, seen.mem x = true → seen'.mem x = true := by
    intro x hx; rw [hp.seen_eq, hx]; rfl
  have hcF : c ∈ O ++ c :: R := List.mem_append_right _ List.mem_cons_self
  refine
    { nodup := ?_
      seen_of := ?_
      seen_ok := ?_
      walk := ?_
      in_nodes := ?_
      tips_done := fun t h1 h2 => (hmem t).mpr (Or.inl (h.tips_done t h1 h2))
      closed := ?_ }
  · have hperm : ((O ++ [c]) ++ (R ++ added)).Perm ((O ++ c :: R) ++ added) := by
      simp [List.append_assoc]
    rw [hperm.nodup_iff, List.nodup_append]
    refine ⟨h.nodup, hp.nodup, ?_⟩
    intro x hx y hy hxy
    subst hxy
    have := h.seen_of x hx
    rw [(hp.sound x hy).2.1] at this
    cases this
  · intro x hx
    cases (hmem x).mp hx with
    | inl h1 => exact hmono x (h.seen_of x h1)
    | inr h1 =>
      rw [hp.seen_eq]
      simp [(hp.sound x h1).1]
  · intro x hs hok
    apply (hmem x).mpr
    by_cases hsx : seen.mem x = true
    · exact Or.inl (h.seen_ok x hsx hok)
    · have hsf : seen.mem x = false := by simpa using hsx
      rw [hp.seen_eq, hsf] at hs
      simp only [Bool.false_or, decide_eq_true_eq] at hs
      exact Or.inr (hp.complete x hs hsf hok)
  · intro x hx
    cases (hmem x).mp hx with
    | inl h1 => exact h.walk x h1
    | inr h1 =>
      obtain ⟨a1, _, a3⟩ := hp.sound x h1
      exact Walkable.step (h.walk c hcF) a1 a3
  · intro x hx
    cases (hmem x).mp hx with
    | inl h1 => exact h.in_nodes x h1
    | inr h1 => exact hcl c (h.in_nodes c hcF) x (edges_subset (hp.sound x h1).1)
  · intro c' hc' p hpe hok
    apply (hmem p).mpr
    cases List.mem_append.mp hc' with
    | inl h1 => exact Or.inl (h.closed c' h1 p hpe hok)
    | inr h1 =>
      simp only [List.mem_singleton] at h1
      subst h1
      by_cases hsp : seen.mem p = true
      · exact Or.inl (h.seen_ok p hsp hok)
      · have hsf : seen.mem p = false := by simpa using hsp
        exact Or.inr (hp.complete p hpe hsf hok)

theorem SInv.done {g : Dag} {fp : Bool} {ok : Nat → Bool} {tips nodes : List Nat} {seen : NatSet}
    {O : List Nat} (h : SInv g fp ok tips nodes seen [] O) :
    O.Nodup ∧ ∀ x, x ∈ O ↔ Walkable g fp ok tips x := by
  have hn := h.nodup
  simp only [List.append_nil] at hn
  refine ⟨hn, fun x => ⟨fun hx => h.walk x (by simpa using hx), ?_⟩⟩
  intro hw
  induction hw with
  | tip ht hok => simpa using h.tips_done _ ht hok
  | step _ hpe hok ih => simpa using h.closed _ ih _ hpe hok

/-- the output can never be longer than the repository -/
theorem SInv.length_le {g : Dag} {fp : Bool} {ok : Nat → Bool} {tips nodes : List Nat} {seen : NatSet}
    {F O : List Nat} (h : SInv g fp ok tips nodes seen F O) : O.length + F.length ≤ nodes.length := by
  have := nodup_subset_length h.nodup h.in_nodes
  simpa using this

/-! ### initial state -/

theorem drainToQueue_spec {g : Dag} {q : PQ Int} (hq : q.Lawful) (oldest : Bool) (cut : Option Int) :
    ∀ (cs : List Nat) (qu : q.Q),
      ((q.items (drainToQueue g q oldest cut cs qu)).map (·.2)).Perm
        ((q.items qu).map (·.2) ++ cs.filter (fun c => match cut with
          | some s => decide (g.time c ≥ s)
          | none => true)) := by
  intro cs
  induction cs with
  | nil => intro qu; simp [drainToQueue]
  | cons c cs ih =>
    intro qu
    have hins : ∀ k, ((q.items (q.insert k c qu)).map (·.2)).Perm ((q.items qu).map (·.2) ++ [c]) := by
      intro k
      have := (hq.items_insert k c qu).map (·.2)
      simp only [List.map_cons] at this
      exact this.trans (List.perm_append_singleton _ _).symm
    unfold drainToQueue
    cases cut with
    | none =>
      dsimp only
      refine (ih _).trans ?_
      refine ((hins _).append_right _).trans ?_
      simp
    | some s =>
      dsimp only
      by_cases hge : g.time c ≥ s
      · rw [if_pos hge]
        refine (ih _).trans ?_
        refine ((hins _).append_right _).trans ?_
        simp [hge]
      · rw [if_neg hge]
        refine (ih _).trans ?_
        simp [hge]

theorem SInv.init {g : Dag} {fp : Bool} {ok pred okcut : Nat → Bool} {tips nodes : List Nat} {seen : NatSet}
    {added F : List Nat} (hp : Pushed NatSet.empty seen tips pred added)
    (hok : ∀ x, ok x = (pred x && okcut x)) (hF : F.Perm (added.filter okcut))
    (htips : ∀ t, t ∈ tips → t ∈ nodes) : SInv g fp ok tips nodes seen F [] := by
  have hmem : ∀ x, x ∈ [] ++ F ↔ x ∈ added ∧ okcut x = true := by
    intro x
    simp only [List.nil_append]
    rw [hF.mem_iff, List.mem_filter]
  have hseen : ∀ x, seen.mem x = true ↔ x ∈ tips := by
    intro x
    rw [hp.seen_eq]
    simp [NatSet.empty]
  have hin : ∀ x, x ∈ tips → ok x = true → x ∈ [] ++ F := by
    intro x hx hokx
    rw [hok] at hokx
    simp only [Bool.and_eq_true] at hokx
    exact (hmem x).mpr ⟨hp.complete x hx (by simp [NatSet.empty]) hokx.1, hokx.2⟩
  refine
    { nodup := ?_
      seen_of := ?_
      seen_ok := fun x hs hokx => hin x ((hseen x).mp hs) hokx
      walk := ?_
      in_nodes := ?_
      tips_done := hin
      closed := by intro c hc; simp at hc }
  · simp only [List.nil_append]
    exact hF.nodup_iff.mpr (hp.nodup.sublist List.filter_sublist)
  · intro x hx
    exact (hseen x).mpr (hp.sound x ((hmem x).mp hx).1).1
  · intro x hx
    obtain ⟨h1, h2⟩ := (hmem x).mp hx
    obtain ⟨a1, _, a3⟩ := hp.sound x h1
    exact Walkable.tip a1 (by rw [hok, a3, h2]; rfl)
  · intro x hx
    exact htips x (hp.sound x ((hmem x).mp hx).1).1

/-- which commits the configured walk accepts -/
def SimpleCfg.ok (cfg : SimpleCfg) (g : Dag) (x : Nat) : Bool :=
  if cfg.byTopology then cfg.pred x else okDate g cfg.pred cfg.sorting.cutoffTime x

/-- the frontier of a state: the deque or the queue's content -/
def frontier (q : PQ Int) (cfg : SimpleCfg) (s : SState q.Q) : List Nat :=
  if cfg.byTopology then s.next else (q.items s.queue).map (·.2)

/-- a commit-time cut-off together with `Parents::First` is not a meaningful configuration: the
tips are filtered by time, the first-parent walk is not -/
def SimpleCfg.Coherent (cfg : SimpleCfg) : Prop :=
  cfg.firstParent = true → cfg.sorting.cutoffTime = none

theorem simpleInit_inv {g : Dag} {q : PQ Int} (hq : q.Lawful) (cfg : SimpleCfg) (hco : cfg.Coherent)
    {tips nodes : List Nat} (htips : ∀ t, t ∈ tips → t ∈ nodes) :
    SInv g cfg.firstParent (cfg.ok g) tips nodes (simpleInit g q cfg tips).seen
      (frontier q cfg (simpleInit g q cfg tips)) [] ∧ (simpleInit g q cfg tips).out = [] := by
  obtain ⟨added, h1, h2⟩ := pushParentsBfs_spec cfg.pred tips NatSet.empty []
  rw [← simpleTips_eq] at h1 h2
  simp only [List.nil_append] at h1
  have hdrain := fun (o : Bool) (cut : Option Int) => drainToQueue_spec (g := g) hq o cut added q.empty
  simp only [hq.items_empty, List.map_nil, List.nil_append] at hdrain
  unfold simpleInit
  simp only [h1]
  rcases cfg with ⟨pred, sorting, fpar⟩
  cases sorting with
  | breadthFirst =>
    cases fpar with
    | true =>
      refine ⟨?_, rfl⟩
      simp only [frontier, SimpleCfg.byTopology, Bool.true_or, if_true, hq.items_empty, List.map_nil,
        List.append_nil]
      exact SInv.init (okcut := fun _ => true) h2 (by intro x; simp [SimpleCfg.ok, SimpleCfg.byTopology])
        (by rw [List.filter_eq_self.mpr (fun _ _ => rfl)]) htips
    | false =>
      refine ⟨?_, rfl⟩
      simp only [frontier, SimpleCfg.byTopology, Bool.false_or, beq_self_eq_true, if_true,
        Bool.false_eq_true, if_false]
      exact SInv.init (okcut := fun _ => true) h2 (by intro x; simp [SimpleCfg.ok, SimpleCfg.byTopology])
        (by rw [List.filter_eq_self.mpr (fun _ _ => rfl)]) htips
  | byTime o =>
    have hd := hdrain o none
    cases fpar with
    | true =>
      refine ⟨?_, rfl⟩
      simp only [frontier, SimpleCfg.byTopology, Bool.true_or, if_true, List.nil_append]
      exact SInv.init (okcut := fun _ => true) h2 (by intro x; simp [SimpleCfg.ok, SimpleCfg.byTopology])
        (by simpa using hd) htips
    | false =>
      refine ⟨?_, rfl⟩
      have hb : (SimpleCfg.mk pred (.byTime o) false).byTopology = false := by
        simp [SimpleCfg.byTopology]
      simp only [frontier, hb, Bool.false_eq_true, if_false]
      exact SInv.init (okcut := fun _ => true) h2
        (by intro x; simp [SimpleCfg.ok, hb, okDate, Sorting.cutoffTime])
        (by simpa using hd) htips
  | cutoff o sec =>
    have hd := hdrain o (some sec)
    cases fpar with
    | true =>
      have := hco rfl
      simp [Sorting.cutoffTime] at this
    | false =>
      refine ⟨?_, rfl⟩
      have hb : (SimpleCfg.mk pred (.cutoff o sec) false).byTopology = false := by
        simp [SimpleCfg.byTopology]
      simp only [frontier, hb, Bool.false_eq_true, if_false]
      exact SInv.init (okcut := fun c => decide (g.time c ≥ sec)) h2
        (by intro x; simp [SimpleCfg.ok, hb, okDate, Sorting.cutoffTime])
        hd htips

/-! ### the loop -/

theorem simpleLoop_spec {g : Dag} {q : PQ Int} (hq : q.Lawful) (cfg : SimpleCfg)
    {tips nodes : List Nat} (hcl : Closed g nodes) :
    ∀ (fuel : Nat) (s : SState q.Q),
      SInv g cfg.firstParent (cfg.ok g) tips nodes s.seen (frontier q cfg s) s.out →
      nodes.length - s.out.length < fuel →
      ∃ out, simpleLoop g q cfg fuel s = .ok out ∧ out.Nodup ∧
        ∀ x, x ∈ out ↔ Walkable g cfg.firstParent (cfg.ok g) tips x := by
  intro fuel
  induction fuel with
  | zero => intro s _ h; omega
  | succ fuel ih =>
    intro s hinv hfuel
    unfold simpleLoop
    by_cases hb : cfg.byTopology = true
    · rw [if_pos hb]
      have hF : frontier q cfg s = s.next := by simp [frontier, hb]
      have hokp : cfg.ok g = cfg.pred := by funext x; simp [SimpleCfg.ok, hb]
      rw [hF] at hinv
      cases hnext : s.next with
      | nil =>
        dsimp only
        rw [hnext] at hinv
        exact ⟨s.out, rfl, hinv.done⟩
      | cons c rest =>
        dsimp only
        rw [hnext] at hinv
        obtain ⟨added, h1, h2⟩ := pushParentsBfs_spec cfg.pred (stepParents g cfg.firstParent c) s.seen rest
        have h2' : Pushed s.seen (pushParentsBfs cfg.pred (stepParents g cfg.firstParent c) s.seen rest).1
            (edges g cfg.firstParent c) (cfg.ok g) added := by rw [hokp]; exact h2
        have hstep := hinv.step hcl h2'
        have hlen := hinv.length_le
        apply ih
        · have hF' : frontier q cfg
              { s with next := (pushParentsBfs cfg.pred (stepParents g cfg.firstParent c) s.seen rest).2,
                       seen := (pushParentsBfs cfg.pred (stepParents g cfg.firstParent c) s.seen rest).1,
                       out := s.out ++ [c] }
              = rest ++ added := by simp [frontier, hb, h1]
          rw [hF']
          exact hstep
        · simp only [List.length_cons, List.length_append, List.length_nil] at hlen ⊢
          omega
    · rw [if_neg hb]
      have hbf : cfg.byTopology = false := by simpa using hb
      have hfp : cfg.firstParent = false := by
        cases hf : cfg.firstParent with
        | false => rfl
        | true => simp [SimpleCfg.byTopology, hf] at hbf
      have hF : frontier q cfg s = (q.items s.queue).map (·.2) := by simp [frontier, hbf]
      have hokd : cfg.ok g = okDate g cfg.pred cfg.sorting.cutoffTime := by
        funext x; simp [SimpleCfg.ok, hbf]
      rw [hF] at hinv
      cases hpop : q.pop s.queue with
      | none =>
        dsimp only
        have := hq.pop_none _ hpop
        rw [this] at hinv
        exact ⟨s.out, rfl, hinv.done⟩
      | some r =>
        obtain ⟨⟨k, c⟩, qu⟩ := r
        dsimp only
        have hperm := (hq.pop_some _ _ _ hpop).map (·.2)
        simp only [List.map_cons] at hperm
        have hinv1 := hinv.perm hperm.symm
        obtain ⟨added, h1, h2⟩ := pushParentsDate_spec (g := g) hq cfg.pred cfg.sorting.oldest
          cfg.sorting.cutoffTime (g.parents c) s.seen qu
        have hedges : edges g cfg.firstParent c = g.parents c := by simp [edges, hfp]
        have h2' : Pushed s.seen (pushParentsDate g q cfg.pred cfg.sorting.oldest cfg.sorting.cutoffTime
            (g.parents c) s.seen qu).1 (edges g cfg.firstParent c) (cfg.ok g) added := by
          rw [hokd, hedges]; exact h2
        have hstep := hinv1.step hcl h2'
        have hlen := hinv1.length_le
        apply ih
        · have hF' : frontier q cfg
              { s with queue := (pushParentsDate g q cfg.pred cfg.sorting.oldest cfg.sorting.cutoffTime
                          (g.parents c) s.seen qu).2,
                       seen := (pushParentsDate g q cfg.pred cfg.sorting.oldest cfg.sorting.cutoffTime
                          (g.parents c) s.seen qu).1,
                       out := s.out ++ [c] }
              = (q.items (pushParentsDate g q cfg.pred cfg.sorting.oldest cfg.sorting.cutoffTime
                          (g.parents c) s.seen qu).2).map (·.2) := by simp [frontier, hbf]
          rw [hF']
          exact hstep.perm h1
        · simp only [List.length_cons, List.length_append, List.length_nil] at hlen ⊢
          omega

/-- The `Simple` iterator, for every lawful queue (any tie-breaking / pop order), every accept
predicate, every sorting and parent mode: it ends regularly within the prescribed fuel and returns
every walkable commit exactly once. -/
theorem simple_spec {g : Dag} {q : PQ Int} (hq : q.Lawful) (cfg : SimpleCfg) (hco : cfg.Coherent)
    {tips nodes : List Nat} (hcl : Closed g nodes) (htips : ∀ t, t ∈ tips → t ∈ nodes)
    {n : Nat} (hn : nodes.length ≤ n) :
    ∃ out, simpleWalk g q cfg n tips = .ok out ∧ out.Nodup ∧
      ∀ x, x ∈ out ↔ Walkable g cfg.firstParent (cfg.ok g) tips x := by
  obtain ⟨hinv, hout⟩ := simpleInit_inv (g := g) hq cfg hco htips
  unfold simpleWalk
  apply simpleLoop_spec hq cfg hcl
  · rw [hout]; exact hinv
  · rw [hout]; simp only [List.length_nil]; omega

end GixModel.C47
