import GixModel.Lemmas.C55a
/-
C55 — reading an entry to the end returns exactly what the producer put in, for every sequence of
(non-empty) consumer buffers and every chunking of the producer; the rest of the pipe is left
untouched.
-/
namespace GixModel.C55
open GixModel

theorem take_isEmpty_false (l : Bytes) (n : Nat) (hn : 1 ≤ n) (hl : 0 < l.length) : (l.take n).isEmpty = false := by
  cases l with
  | nil => simp at hl
  | cons b r =>
    cases n with
    | zero => omega
    | succ k => rfl

theorem take_length_ne_zero (l : Bytes) (n : Nat) (hn : 1 ≤ n) (hl : 0 < l.length) : ¬ (l.take n).length = 0 := by
  rw [List.length_take]; omega

theorem flatten_reverse_cons (out : Bytes) (acc : List Bytes) :
    (out :: acc).reverse.flatten = acc.reverse.flatten ++ out := by
  simp

/-- known length: the bytes are taken off the pipe in pieces of `min(buffer, remaining)` -/
theorem consume_known (sz : Nat → Nat) (hsz : ∀ i, 1 ≤ sz i) :
    ∀ (fuel : Nat) (content tail p : Bytes) (acc : List Bytes) (i : Nat), content.length + 1 ≤ fuel →
      ∃ i', consume sz fuel i ⟨content ++ tail, p⟩ (some content.length) acc =
        some (acc.reverse.flatten ++ content, ⟨tail, p⟩, i') := by
  intro fuel
  induction fuel with
  | zero => intro content tail p acc i h; omega
  | succ fuel ih =>
    intro content tail p acc i h
    have hs := hsz i
    have hs0 : sz i ≠ 0 := by omega
    simp only [consume, entryRead, hs0, if_false]
    by_cases hc : content = []
    · subst hc
      refine ⟨i + 1, ?_⟩
      simp
    · have hlen : 0 < content.length := List.length_pos_iff.mpr hc
      have hn : 1 ≤ min (sz i) content.length := by omega
      have hle : min (sz i) content.length ≤ content.length := Nat.min_le_right _ _
      have htake : (content ++ tail).take (min (sz i) content.length) = content.take (min (sz i) content.length) := by
        rw [List.take_append_of_le_length hle]
      have hdrop : (content ++ tail).drop (min (sz i) content.length) = content.drop (min (sz i) content.length) ++ tail := by
        rw [List.drop_append_of_le_length hle]
      rw [htake, hdrop]
      have hne := take_isEmpty_false content _ hn hlen
      have hl0 := take_length_ne_zero content _ hn hlen
      simp only [hne, hl0, if_false, Bool.false_eq_true]
      have hrem : content.length - (content.take (min (sz i) content.length)).length =
          (content.drop (min (sz i) content.length)).length := by
        rw [List.length_take, List.length_drop]; omega
      rw [hrem]
      obtain ⟨i', hi'⟩ := ih (content.drop (min (sz i) content.length)) tail p
        (content.take (min (sz i) content.length) :: acc) (i + 1)
        (by rw [List.length_drop]; omega)
      refine ⟨i', ?_⟩
      rw [hi', flatten_reverse_cons, List.append_assoc, List.take_append_drop]

/-- the bytes `write_stream` produces for the reads still to come -/
theorem writeStream_cons (c : Bytes) (cs : List Bytes) :
    writeStream (c :: cs) = le 2 c.length ++ (c ++ writeStream cs) := by
  simp [writeStream, List.append_assoc]

def chunkMeasure (pending : Bytes) (reads : List Bytes) : Nat := pending.length + reads.flatten.length + 1

/-- unknown length: chunk after chunk until the zero length -/
theorem consume_chunks (sz : Nat → Nat) (hsz : ∀ i, 1 ≤ sz i) :
    ∀ (fuel : Nat) (pending : Bytes) (reads : List Bytes) (tail : Bytes) (acc : List Bytes) (i : Nat),
      (∀ c ∈ reads, 0 < c.length ∧ c.length ≤ bufLen) → chunkMeasure pending reads ≤ fuel →
      ∃ i', consume sz fuel i ⟨writeStream reads ++ tail, pending⟩ none acc =
        some (acc.reverse.flatten ++ pending ++ reads.flatten, ⟨tail, []⟩, i') := by
  intro fuel
  induction fuel with
  | zero => intro pending reads tail acc i _ h; unfold chunkMeasure at h; omega
  | succ fuel ih =>
    intro pending reads tail acc i hv h
    have hs := hsz i
    have hs0 : sz i ≠ 0 := by omega
    unfold chunkMeasure at h
    simp only [consume, entryRead, hs0, if_false]
    by_cases hp : pending = []
    · subst hp
      simp only [List.isEmpty_nil, if_true]
      cases reads with
      | nil =>
        have : writeStream [] ++ tail = le 2 0 ++ tail := by simp [writeStream]
        rw [this, readExact_append' _ _ (le_length 2 0)]
        have h0 : ofLe (le 2 0) = 0 := ofLe_le2 0 (by omega)
        simp only [h0, if_true]
        refine ⟨i + 1, ?_⟩
        simp
      | cons c cs =>
        obtain ⟨hc0, hcb⟩ := hv c (by simp)
        unfold bufLen at hcb
        rw [writeStream_cons, List.append_assoc, readExact_append' _ _ (le_length 2 _)]
        have hn : ofLe (le 2 c.length) = c.length := ofLe_le2 _ (by omega)
        have hne : ¬ c.length = 0 := by omega
        simp only [hn, hne, if_false]
        rw [List.append_assoc, readExact_append]
        simp only
        have hmin : 1 ≤ min c.length (sz i) := by omega
        have hm0 : ¬ min c.length (sz i) = 0 := by omega
        have hne2 := take_isEmpty_false c _ hmin hc0
        simp only [hm0, if_false, hne2, Bool.false_eq_true]
        obtain ⟨i', hi'⟩ := ih (c.drop (min c.length (sz i))) cs tail (c.take (min c.length (sz i)) :: acc) (i + 1)
          (fun x hx => hv x (by simp [hx]))
          (by unfold chunkMeasure; simp only [List.flatten_cons, List.length_append, List.length_nil] at h;
              rw [List.length_drop]; omega)
        refine ⟨i', ?_⟩
        rw [hi', flatten_reverse_cons]
        simp only [List.append_assoc, List.nil_append, List.append_nil, List.flatten_cons]
        rw [← List.append_assoc (c.take _), List.take_append_drop]
    · have hpe : pending.isEmpty = false := by
        cases pending with
        | nil => exact absurd rfl hp
        | cons _ _ => rfl
      have hlen : 0 < pending.length := List.length_pos_iff.mpr hp
      simp only [hpe, Bool.false_eq_true, if_false]
      have hm0 : ¬ min pending.length (sz i) = 0 := by omega
      have hne2 := take_isEmpty_false pending (min pending.length (sz i)) (by omega) hlen
      simp only [hm0, if_false, hne2, Bool.false_eq_true]
      obtain ⟨i', hi'⟩ := ih (pending.drop (min pending.length (sz i))) reads tail
        (pending.take (min pending.length (sz i)) :: acc) (i + 1) hv
        (by unfold chunkMeasure; rw [List.length_drop]; omega)
      refine ⟨i', ?_⟩
      rw [hi', flatten_reverse_cons]
      simp only [List.append_assoc]
      rw [← List.append_assoc (pending.take _), List.take_append_drop]

theorem writeStream_length (reads : List Bytes) : (writeStream reads).length = reads.flatten.length + 2 * reads.length + 2 := by
  induction reads with
  | nil => simp [writeStream, le_length]
  | cons c cs ih =>
    rw [writeStream_cons]
    simp only [List.length_append, le_length, ih, List.flatten_cons, List.length_cons]
    omega

/-- one entry, then the rest of the pipe -/
theorem consume_body (sz : Nat → Nat) (hsz : ∀ i, 1 ≤ sz i) (b : Body) (hb : b.Valid) (tail : Bytes) (i : Nat) :
    ∃ i', consume sz ((bodyBytes b ++ tail).length + 2) i ⟨bodyBytes b ++ tail, []⟩ b.declared [] =
      some (b.content, ⟨tail, []⟩, i') := by
  cases b with
  | known c =>
    obtain ⟨i', h⟩ := consume_known sz hsz ((c ++ tail).length + 2) c tail [] [] i
      (by simp only [List.length_append]; omega)
    exact ⟨i', by simpa [bodyBytes, Body.declared, Body.content] using h⟩
  | chunks rs =>
    obtain ⟨i', h⟩ := consume_chunks sz hsz ((writeStream rs ++ tail).length + 2) [] rs tail [] i hb
      (by unfold chunkMeasure; simp only [List.length_append, writeStream_length, List.length_nil]; omega)
    exact ⟨i', by simpa [bodyBytes, Body.declared, Body.content] using h⟩

theorem encodeAll_cons (e : Entry) (es : List Entry) : encodeAll (e :: es) = encodeEntry e ++ encodeAll es := by
  simp [encodeAll]

theorem readEntryInfo_nil : readEntryInfo [] = .eof := by
  unfold readEntryInfo
  rw [readExact_short (by simp)]

theorem decodeLoop_encodeAll (sz : Nat → Nat) (hsz : ∀ i, 1 ≤ sz i) :
    ∀ (es : List Entry) (fuel i : Nat), (∀ e ∈ es, e.Valid) → es.length + 1 ≤ fuel →
      decodeLoop sz fuel i ⟨encodeAll es, []⟩ = .ok (es.map seenOf) := by
  intro es
  induction es with
  | nil =>
    intro fuel i _ h
    cases fuel with
    | zero => omega
    | succ fuel => simp [decodeLoop, encodeAll, readEntryInfo_nil]
  | cons e es ih =>
    intro fuel i hv h
    cases fuel with
    | zero => omega
    | succ fuel =>
      have hve := hv e (by simp)
      rw [encodeAll_cons]
      simp only [decodeLoop, readEntryInfo_encode e hve]
      obtain ⟨i', hi'⟩ := consume_body sz hsz e.body hve.2.2.2 (encodeAll es) i
      simp only [List.length_nil, Nat.add_zero]
      rw [hi']
      simp only
      rw [ih fuel i' (fun x hx => hv x (by simp [hx])) (by simp at h; omega)]
      simp [Decoded.cons, seenOf]

theorem encodeEntry_length_pos (e : Entry) : 1 ≤ (encodeEntry e).length := by
  rw [encodeEntry_eq]
  simp only [List.length_append, le_length]
  omega

theorem encodeAll_length (es : List Entry) : es.length ≤ (encodeAll es).length := by
  induction es with
  | nil => simp
  | cons e es ih =>
    rw [encodeAll_cons, List.length_append, List.length_cons]
    have := encodeEntry_length_pos e
    omega

end GixModel.C55
