import GixModel.Lemmas.C47OrderFinal
/-
C47 — lemmas, part 14: the two transcriptions of git's sort agree (`gitCount` with in-degree
counters and a sorted-list date queue = `gitKahn` with the `ready` test and a select-max queue).
Part A: sorting and the queues.
-/
namespace GixModel.C47
open GixModel GixModel.CG GixModel.Spec.C47
open GixModel.C46 (filter_length_flip)

/-! ### stable sorts -/

/-- insert before the entries that are not newer -/
def insB (g : Dag) (c : Nat) : List Nat → List Nat
  | [] => [c]
  | x :: xs => if g.time x > g.time c then x :: insB g c xs else c :: x :: xs

theorem insNewest_insB_comm (g : Dag) (a b : Nat) :
    ∀ l, insNewest g b (insB g a l) = insB g a (insNewest g b l) := by
  intro l
  induction l with
  | nil =>
    simp only [insB, insNewest]
    split <;> split <;> first | rfl | (exfalso; omega)
  | cons x xs ih =>
    simp only [insB, insNewest]
    by_cases h1 : g.time x > g.time a <;> by_cases h2 : g.time x ≥ g.time b
    · simp only [h1, h2, if_true, insB, insNewest, ih]
    · have h3 : g.time b > g.time a := by omega
      simp only [h1, h2, h3, if_true, if_false, insB, insNewest]
    · have h3 : g.time a ≥ g.time b := by omega
      simp only [h1, h2, h3, if_true, if_false, insB, insNewest]
    · simp only [h1, h2, if_false, insB, insNewest]
      split <;> split <;> first | rfl | (exfalso; omega)

theorem sortNewest_cons (g : Dag) (x : Nat) (F : List Nat) :
    sortNewestFirst g (x :: F) = insB g x (sortNewestFirst g F) := by
  have key : ∀ (F acc : List Nat), F.foldl (fun acc c => insNewest g c acc) (insB g x acc)
      = insB g x (F.foldl (fun acc c => insNewest g c acc) acc) := by
    intro F
    induction F with
    | nil => intro acc; rfl
    | cons y F ih =>
      intro acc
      simp only [List.foldl_cons]
      rw [insNewest_insB_comm, ih]
  unfold sortNewestFirst
  simp only [List.foldl_cons]
  exact key F []

theorem insertAsc_split (g : Dag) (c : Nat) : ∀ (l : List Nat), l.Pairwise (fun a b => g.time a ≤ g.time b) →
    ∃ m1 m2, l = m1 ++ m2 ∧ insertAsc g c l = m1 ++ c :: m2 ∧ (∀ y, y ∈ m1 → g.time y ≤ g.time c) ∧
      (∀ y, y ∈ m2 → g.time y > g.time c) := by
  intro l
  induction l with
  | nil => intro _; exact ⟨[], [], rfl, rfl, by simp, by simp⟩
  | cons x xs ih =>
    intro hp
    obtain ⟨hx, hxs⟩ := List.pairwise_cons.mp hp
    unfold insertAsc
    by_cases h : g.time x ≤ g.time c
    · obtain ⟨m1, m2, e1, e2, a1, a2⟩ := ih hxs
      refine ⟨x :: m1, m2, by rw [e1]; rfl, by rw [if_pos h, e2]; rfl, ?_, a2⟩
      intro y hy
      cases List.mem_cons.mp hy with
      | inl h' => subst h'; exact h
      | inr h' => exact a1 y h'
    · refine ⟨[], x :: xs, rfl, by rw [if_neg h]; rfl, by simp, ?_⟩
      intro y hy
      cases List.mem_cons.mp hy with
      | inl h' => subst h'; omega
      | inr h' => have := hx y h'; omega

theorem insertAsc_sorted (g : Dag) (c : Nat) (l : List Nat) (hp : l.Pairwise (fun a b => g.time a ≤ g.time b)) :
    (insertAsc g c l).Pairwise (fun a b => g.time a ≤ g.time b) := by
  obtain ⟨m1, m2, e1, e2, a1, a2⟩ := insertAsc_split g c l hp
  rw [e2]
  rw [e1] at hp
  obtain ⟨p1, p2, p3⟩ := List.pairwise_append.mp hp
  refine List.pairwise_append.mpr ⟨p1, List.pairwise_cons.mpr ⟨?_, p2⟩, ?_⟩
  · intro y hy; have := a2 y hy; omega
  · intro a ha b hb
    cases List.mem_cons.mp hb with
    | inl h' => subst h'; exact a1 a ha
    | inr h' => exact p3 a ha b h'

theorem sortAsc_sorted (g : Dag) (l : List Nat) : (sortAsc g l).Pairwise (fun a b => g.time a ≤ g.time b) := by
  have key : ∀ (l acc : List Nat), acc.Pairwise (fun a b => g.time a ≤ g.time b) →
      (l.foldl (fun acc c => insertAsc g c acc) acc).Pairwise (fun a b => g.time a ≤ g.time b) := by
    intro l
    induction l with
    | nil => intro acc h; exact h
    | cons x xs ih => intro acc h; exact ih _ (insertAsc_sorted g x acc h)
  exact key l [] List.Pairwise.nil

theorem insB_append (g : Dag) (c : Nat) : ∀ (A B : List Nat), (∀ y, y ∈ A → g.time y > g.time c) →
    (∀ y, y ∈ B → g.time y ≤ g.time c) → insB g c (A ++ B) = A ++ c :: B := by
  intro A
  induction A with
  | nil =>
    intro B _ hB
    cases B with
    | nil => rfl
    | cons y ys =>
      have := hB y List.mem_cons_self
      simp only [List.nil_append, insB]
      rw [if_neg (by omega)]
  | cons a A ih =>
    intro B hA hB
    have := hA a List.mem_cons_self
    simp only [List.cons_append, insB]
    rw [if_pos this, ih B (fun y hy => hA y (List.mem_cons_of_mem _ hy)) hB]

/-- git's list order (stable, newest first) is what the reversed stable oldest-first sort of the
reversed list gives -/
theorem sortNewest_eq (g : Dag) : ∀ (F : List Nat), sortNewestFirst g F = (sortAsc g F.reverse).reverse := by
  intro F
  induction F with
  | nil => rfl
  | cons x F ih =>
    rw [sortNewest_cons, ih]
    have hs := sortAsc_sorted g F.reverse
    obtain ⟨m1, m2, e1, e2, a1, a2⟩ := insertAsc_split g x _ hs
    have : sortAsc g (x :: F).reverse = insertAsc g x (sortAsc g F.reverse) := by
      unfold sortAsc
      rw [List.reverse_cons, List.foldl_append]
      rfl
    rw [this, e2, e1]
    rw [List.reverse_append, insB_append g x m2.reverse m1.reverse
      (fun y hy => a2 y (List.mem_reverse.mp hy)) (fun y hy => a1 y (List.mem_reverse.mp hy))]
    simp

/-! ### the date queues -/

def sdesc (a b : DKey × Nat) : Prop := DKey.le b.1 a.1 = true ∧ a.1 ≠ b.1

def insK (e : DKey × Nat) : List (DKey × Nat) → List (DKey × Nat)
  | [] => [e]
  | x :: xs => if x.1.1 ≥ e.1.1 then x :: insK e xs else e :: x :: xs

def proj1 (e : Int × Nat × Nat) : Int × Nat := (e.1, e.2.2)
def proj2 (e : DKey × Nat) : Int × Nat := (e.1.1, e.2)

theorem dateInsert_perm (e : Int × Nat × Nat) : ∀ l, (dateInsert e l).Perm (e :: l) := by
  intro l
  induction l with
  | nil => exact List.Perm.refl _
  | cons x xs ih =>
    unfold dateInsert
    split
    · exact (List.Perm.cons x ih).trans (List.Perm.swap _ _ _)
    · exact List.Perm.refl _

theorem insK_perm (e : DKey × Nat) : ∀ l, (insK e l).Perm (e :: l) := by
  intro l
  induction l with
  | nil => exact List.Perm.refl _
  | cons x xs ih =>
    unfold insK
    split
    · exact (List.Perm.cons x ih).trans (List.Perm.swap _ _ _)
    · exact List.Perm.refl _

theorem dateInsert_proj (t : Int) (cA cK c : Nat) : ∀ (sq : List (Int × Nat × Nat)) (l : List (DKey × Nat)),
    sq.map proj1 = l.map proj2 →
    (dateInsert (t, cA, c) sq).map proj1 = (insK ((t, cK), c) l).map proj2 := by
  intro sq
  induction sq with
  | nil =>
    intro l h
    cases l with
    | nil => rfl
    | cons x xs => simp at h
  | cons y ys ih =>
    intro l h
    cases l with
    | nil => simp at h
    | cons x xs =>
      simp only [List.map_cons, List.cons.injEq] at h
      obtain ⟨h1, h2⟩ := h
      have ht : y.1 = x.1.1 := congrArg Prod.fst h1
      unfold dateInsert insK
      simp only
      rw [ht]
      by_cases hc : x.1.1 ≥ t
      · rw [if_pos hc, if_pos hc]
        simp only [List.map_cons]
        rw [h1, ih xs h2]
      · rw [if_neg hc, if_neg hc]
        simp only [List.map_cons]
        rw [h1, h2]
        rfl

theorem insK_sorted (e : DKey × Nat) : ∀ (l : List (DKey × Nat)), l.Pairwise sdesc →
    (∀ x, x ∈ l → x.1.2 < e.1.2) → (insK e l).Pairwise sdesc := by
  intro l
  induction l with
  | nil => intro _ _; exact List.pairwise_singleton _ _
  | cons x xs ih =>
    intro hp hc
    obtain ⟨hx, hxs⟩ := List.pairwise_cons.mp hp
    have hxc := hc x List.mem_cons_self
    unfold insK
    by_cases h : x.1.1 ≥ e.1.1
    · rw [if_pos h]
      refine List.pairwise_cons.mpr ⟨?_, ih hxs (fun y hy => hc y (List.mem_cons_of_mem _ hy))⟩
      intro y hy
      cases List.mem_cons.mp ((insK_perm e xs).subset hy) with
      | inl h' =>
        subst h'
        refine ⟨?_, ?_⟩
        · simp only [DKey.le, Bool.or_eq_true, decide_eq_true_eq, Bool.and_eq_true, beq_iff_eq]
          by_cases h2 : y.1.1 < x.1.1
          · left; exact h2
          · right; exact ⟨by omega, by omega⟩
        · intro heq
          rw [heq] at hxc
          omega
      | inr h' => exact hx y h'
    · rw [if_neg h]
      refine List.pairwise_cons.mpr ⟨?_, hp⟩
      intro y hy
      have hyt : y.1.1 ≤ x.1.1 := by
        cases List.mem_cons.mp hy with
        | inl h' => subst h'; omega
        | inr h' =>
          have := (hx y h').1
          simp only [DKey.le, Bool.or_eq_true, decide_eq_true_eq, Bool.and_eq_true, beq_iff_eq] at this
          rcases this with h3 | ⟨h3, _⟩ <;> omega
      refine ⟨?_, ?_⟩
      · simp only [DKey.le, Bool.or_eq_true, decide_eq_true_eq, Bool.and_eq_true, beq_iff_eq]
        left; omega
      · intro heq
        have := hc y hy
        rw [heq] at this
        omega

/-- the sorted-list queue `sq` and the select-max queue `k` hold the same entries and the list is
in the order in which `popMax` will hand them out -/
def DQ (sq : List (Int × Nat × Nat)) (k : KQ) : Prop :=
  ∃ l : List (DKey × Nat), l.Perm k.dq ∧ l.Pairwise sdesc ∧ sq.map proj1 = l.map proj2 ∧
    ∀ e, e ∈ k.dq → e.1.2 < k.ctr

theorem DQ.push {sq : List (Int × Nat × Nat)} {k : KQ} (h : DQ sq k) (t : Int) (cA c : Nat) :
    DQ (dateInsert (t, cA, c) sq) { k with dq := ((t, k.ctr), c) :: k.dq, ctr := k.ctr + 1 } := by
  obtain ⟨l, h1, h2, h3, h4⟩ := h
  refine ⟨insK ((t, k.ctr), c) l, ?_, ?_, dateInsert_proj t cA k.ctr c sq l h3, ?_⟩
  · exact (insK_perm _ l).trans (List.Perm.cons _ h1)
  · exact insK_sorted _ l h2 (fun x hx => h4 x (h1.subset hx))
  · intro e he
    cases List.mem_cons.mp he with
    | inl h' => subst h'; exact Nat.lt_succ_self _
    | inr h' => exact Nat.lt_succ_of_lt (h4 e h')

theorem DQ.pop_nil {k : KQ} (h : DQ [] k) : popMax k.dq = none := by
  obtain ⟨l, h1, _, h3, _⟩ := h
  have hl : l = [] := by
    cases l with
    | nil => rfl
    | cons x xs => simp at h3
  subst hl
  have : k.dq = [] := List.Perm.eq_nil (h1.symm)
  rw [this]
  rfl

theorem DQ.pop_cons {e : Int × Nat × Nat} {rest : List (Int × Nat × Nat)} {k : KQ} (h : DQ (e :: rest) k) :
    ∃ m rest', popMax k.dq = some (m, rest') ∧ m.2 = e.2.2 ∧ DQ rest { k with dq := rest' } := by
  obtain ⟨l, h1, h2, h3, h4⟩ := h
  cases l with
  | nil => simp at h3
  | cons m l' =>
    simp only [List.map_cons, List.cons.injEq] at h3
    obtain ⟨h3a, h3b⟩ := h3
    obtain ⟨hm, hl'⟩ := List.pairwise_cons.mp h2
    have hmem : m ∈ k.dq := h1.subset List.mem_cons_self
    cases hpm : popMax k.dq with
    | none =>
      have := popMax_none k.dq hpm
      rw [this] at hmem
      simp at hmem
    | some r =>
      obtain ⟨m', rest'⟩ := r
      obtain ⟨hperm, hmax⟩ := popMax_spec k.dq m' rest' hpm
      have hm'l : m' ∈ m :: l' := h1.symm.subset (hperm.symm.subset List.mem_cons_self)
      have heq : m' = m := by
        cases List.mem_cons.mp hm'l with
        | inl h' => exact h'
        | inr h' =>
          have h5 := hm m' h'
          have h6 := hmax m hmem
          exact absurd (DKey.le_antisymm _ _ h6 h5.1) h5.2
      subst heq
      refine ⟨m', rest', rfl, ?_, l', ?_, hl', h3b, ?_⟩
      · have := congrArg Prod.snd h3a
        exact this.symm
      · exact List.Perm.cons_inv (h1.trans hperm)
      · intro x hx
        exact h4 x (hperm.symm.subset (List.mem_cons_of_mem _ hx))

end GixModel.C47
