import GixModel.Lemmas.C29Total
/-
C29, round 3: the line-wise calls of `WithSidebands` — `peek_data_line`, `read_data_line`,
`read_line_to_string` — their caller contract (`cap == 0`), panic-freedom under it, round trips.
-/
namespace GixModel.C29
open GixModel

set_option linter.unusedSimpArgs false

theorem peekLine_buf (c : Consts) (r : Reader) : (peekLine c r).2.buf = r.buf := by
  unfold peekLine
  split
  · rfl
  · split
    · rfl
    · split <;> rfl

theorem sbPeekDataLine_total (c : Consts) (hc : ConstsOk c) (s : SB) (h : SB.Ok c s) :
    (sbPeekDataLine c s).1 ≠ .panic ∧ SB.Ok c (sbPeekDataLine c s).2 := by
  obtain ⟨hinv, hp, hcm, hwin⟩ := h
  obtain ⟨a, b⟩ := peekLine_full c hc s.r hinv
  have hbuf := peekLine_buf c s.r
  unfold sbPeekDataLine
  rcases hpl : peekLine c s.r with ⟨x, r1⟩
  rw [hpl] at a b hbuf
  simp only at a b hbuf
  have hok : SB.Ok c { s with r := r1 } := ⟨b, hp, hcm, by simp only [hbuf]; exact hwin⟩
  cases x with
  | panic => exact absurd rfl a
  | line l => cases l <;> exact ⟨by simp, hok⟩
  | none => exact ⟨by simp, hok⟩
  | io => exact ⟨by simp, hok⟩
  | errLine m => exact ⟨by simp, hok⟩
  | dec e => exact ⟨by simp, hok⟩

theorem sbReadDataLine_total (c : Consts) (hc : ConstsOk c) (s : SB) (h : SB.Ok c s) (hcap : s.cap = 0) :
    (sbReadDataLine c s).1 ≠ .panic ∧ SB.Ok c (sbReadDataLine c s).2 := by
  obtain ⟨hinv, hp, hcm, _⟩ := h
  obtain ⟨a, b, _⟩ := readLine_full c hc s.r hinv
  unfold sbReadDataLine
  rw [if_neg (by omega)]
  exact ⟨a, b, hp, hcm, Or.inl (by simp only; omega)⟩

theorem sbReadLineToString_total (c : Consts) (hc : ConstsOk c) (s : SB) (h : SB.Ok c s) (hcap : s.cap = 0) :
    (sbReadLineToString c s).1 ≠ .panic ∧ SB.Ok c (sbReadLineToString c s).2 := by
  obtain ⟨a, b, _⟩ := fillBuf_total c hc s h
  unfold sbReadLineToString
  rw [if_neg (by omega)]
  rcases hfb : fillBuf c s with ⟨f, s1⟩
  rw [hfb] at a b
  simp only at a b
  cases f with
  | panic => exact absurd rfl a
  | err e => exact ⟨by simp, b⟩
  | ok bs =>
    simp only
    split
    · obtain ⟨hinv, hp, hcm, _⟩ := b
      exact ⟨by simp, hinv, hp, Nat.zero_le _, Or.inl (Nat.zero_le _)⟩
    · exact ⟨by simp, b⟩

/-- the caller contract of a call, at the state it is made in: `consume` amounts as before; the
line-wise reads need `cap == 0` ("read-line must be used consistently": no line buffered by
`fill_buf`/`read`, and no `read_line_to_string` that failed on invalid UTF-8 before) -/
def SBCall.LegalAt (c : Consts) (s : SB) : SBCall → Prop
  | .consume amt => amt + c.maxLineLen < 18446744073709551616
  | .readData => s.cap = 0
  | .readString => s.cap = 0
  | _ => True

theorem sbCall_total_at (c : Consts) (hc : ConstsOk c) (s : SB) (h : SB.Ok c s) (k : SBCall)
    (hk : k.LegalAt c s) : (sbCall c s k).1 ≠ .panic ∧ SB.Ok c (sbCall c s k).2 := by
  cases k with
  | fill => exact sbCall_total c hc s h .fill trivial
  | consume amt => exact sbCall_total c hc s h (.consume amt) hk
  | read n => exact sbCall_total c hc s h (.read n) trivial
  | peekData =>
    obtain ⟨a, b⟩ := sbPeekDataLine_total c hc s h
    simp only [sbCall]
    rcases hx : sbPeekDataLine c s with ⟨x, s1⟩
    rw [hx] at a b
    cases x <;> first | exact absurd rfl a | exact ⟨by simp, b⟩
  | readData =>
    obtain ⟨a, b⟩ := sbReadDataLine_total c hc s h hk
    simp only [sbCall]
    rcases hx : sbReadDataLine c s with ⟨x, s1⟩
    rw [hx] at a b
    cases x <;> first | exact absurd rfl a | exact ⟨by simp, b⟩
  | readString =>
    obtain ⟨a, b⟩ := sbReadLineToString_total c hc s h hk
    simp only [sbCall]
    rcases hx : sbReadLineToString c s with ⟨x, s1⟩
    rw [hx] at a b
    cases x <;> first | exact absurd rfl a | exact ⟨by simp, b⟩

/-- every call of the sequence respects its contract at the state it is made in -/
def LegalRun (c : Consts) : List SBCall → SB → Prop
  | [], _ => True
  | k :: ks, s => k.LegalAt c s ∧ LegalRun c ks (sbCall c s k).2

theorem runSB_total_at (c : Consts) (hc : ConstsOk c) (calls : List SBCall) (s : SB) (h : SB.Ok c s)
    (hl : LegalRun c calls s) :
    (∀ x ∈ (runSB c calls s).1, x ≠ .panic) ∧ SB.Ok c (runSB c calls s).2 := by
  induction calls generalizing s with
  | nil => exact ⟨by simp [runSB], h⟩
  | cons k ks ih =>
    obtain ⟨hk, hrest⟩ := hl
    obtain ⟨a, b⟩ := sbCall_total_at c hc s h k hk
    unfold runSB
    simp only
    rw [if_neg a]
    obtain ⟨a2, b2⟩ := ih _ b hrest
    refine ⟨?_, b2⟩
    intro x hx
    simp only [List.mem_cons] at hx
    rcases hx with hx | hx
    · rw [hx]; exact a
    · exact a2 x hx

/-! ### round trips of the line-wise calls -/

theorem wire_allAtOnce (c : Consts) (hc : ConstsOk c) (l : Line) (hv : l.Valid c) :
    allAtOnce c (wire c l) = .ok l ∧ (wire c l).length = lineLen c l := by
  obtain ⟨_, hline⟩ := rliFlat_ok c hc (wire c l ++ [])
  rw [rliFlat_wire c hc l hv []] at hline
  exact hline l rfl

/-- `peek_line` on a stream that starts with a written (plain) line: the line, kept in the peek
buffer; the stream is advanced behind it -/
theorem peekLine_wire (c : Consts) (hc : ConstsOk c) (r : Reader) (l : Line)
    (hp : Plain c r.delims r.failOnErr l) (rest : Bytes) (hr : Ready r)
    (hflat : r.src.flatten = wire c l ++ rest) :
    (peekLine c r).1 = .line l ∧ (peekLine c r).2.peekBuf = ⟨wire c l, lineLen c l⟩ ∧
      (peekLine c r).2.src.flatten = rest ∧ NonEmptyChunks (peekLine c r).2.src ∧
      (peekLine c r).2.isDone = false ∧ (peekLine c r).2.delims = r.delims ∧
      (peekLine c r).2.failOnErr = r.failOnErr := by
  obtain ⟨hv, hd, he⟩ := hp
  obtain ⟨hall, hlen⟩ := wire_allAtOnce c hc l hv
  unfold peekLine
  rw [hr.notDone]
  simp only [Bool.false_eq_true, if_false]
  rw [if_pos hr.noPeek]
  obtain ⟨cs', h1, h1f, h1n⟩ := readLineInner_flat c r.src hr.chunks (r.peekBuf.resize c.maxLineLen).len
  have hl : (r.peekBuf.resize c.maxLineLen).len = c.maxLineLen := rfl
  rw [hflat, hl, rliFlat_wire c hc l hv rest] at h1 h1f
  simp only at h1 h1f
  unfold readLineInnerExhaustive
  rw [hl, h1]
  simp only [hd, Bool.false_eq_true, if_false]
  have hce : (if r.failOnErr = true then checkError c l else none) = none := by
    cases hf : r.failOnErr with
    | false => simp
    | true => simp [he hf]
  rw [hce]
  simp only [if_true, Buf.resize]
  rw [← hlen, List.take_length, hall]
  (refine ⟨?_, ?_, ?_, ?_, ?_, ?_, ?_⟩ <;> first | trivial | rfl | exact h1f | exact h1n)

/-- `read_data_line()` on a stream that starts with a written line returns that line and leaves the
stream right behind it -/
theorem sbReadDataLine_wire (c : Consts) (hc : ConstsOk c) (s : SB) (l : Line)
    (hp : Plain c s.r.delims s.r.failOnErr l) (rest : Bytes) (hcap : s.cap = 0) (hr : Ready s.r)
    (hflat : s.r.src.flatten = wire c l ++ rest) :
    (sbReadDataLine c s).1 = .line l ∧ (sbReadDataLine c s).2.r.src.flatten = rest ∧
      (sbReadDataLine c s).2.cap = 0 := by
  obtain ⟨h1, _, _, h4, _⟩ := readLine_wire c hc s.r l hp.1 rest hr.notDone hr.noPeek hr.chunks hflat
  rw [lineOutcome_plain c _ _ l hp] at h1
  unfold sbReadDataLine
  rw [if_neg (by omega)]
  exact ⟨h1, h4, hcap⟩

/-- `peek_data_line()` shows the next data line without consuming it: a following
`read_data_line()` returns the same line, and only then is the reader behind it -/
theorem sbPeek_then_read (c : Consts) (hc : ConstsOk c) (s : SB) (d : Bytes)
    (hp : Plain c s.r.delims s.r.failOnErr (.data d)) (rest : Bytes) (hcap : s.cap = 0) (hr : Ready s.r)
    (hflat : s.r.src.flatten = wire c (.data d) ++ rest) :
    (sbPeekDataLine c s).1 = .line (.data d) ∧
    (sbReadDataLine c (sbPeekDataLine c s).2).1 = .line (.data d) ∧
    (sbReadDataLine c (sbPeekDataLine c s).2).2.r.src.flatten = rest ∧
    (sbReadDataLine c (sbPeekDataLine c s).2).2.r.peekBuf.len = 0 := by
  obtain ⟨p1, p2, p3, p4, p5, _, _⟩ := peekLine_wire c hc s.r (.data d) hp rest hr hflat
  obtain ⟨hall, hlen⟩ := wire_allAtOnce c hc (.data d) hp.1
  have hpk : sbPeekDataLine c s = (.line (.data d), { s with r := (peekLine c s.r).2 }) := by
    unfold sbPeekDataLine
    rcases hx : peekLine c s.r with ⟨x, r1⟩
    rw [hx] at p1
    simp only at p1
    subst p1
    rfl
  rw [hpk]
  simp only
  have hu : c.u16HexBytes = 4 := hc.1
  have hne : (⟨wire c (.data d), lineLen c (.data d)⟩ : Buf).len ≠ 0 := by
    simp only [lineLen, Line.asSlice]; omega
  refine ⟨by trivial, ?_, ?_, ?_⟩ <;>
  · unfold sbReadDataLine
    simp only
    rw [if_neg (by omega)]
    unfold readLine
    rw [p5, p2]
    simp only [Bool.false_eq_true, if_false]
    rw [if_pos hne]
    simp only [hall]
    first | done | rfl | exact p3

/-- `read_line_to_string()` without side-bands on a stream that starts with a written data line of
valid UTF-8: the whole payload is the string, nothing stays buffered, the stream is right behind
the line -/
theorem sbReadLineToString_wire (c : Consts) (hc : ConstsOk c) (s : SB) (d : Bytes)
    (hp : Plain c s.r.delims s.r.failOnErr (.data d)) (rest : Bytes) (hh : s.handler = false)
    (hcap : s.cap = 0) (hr : Ready s.r) (hflat : s.r.src.flatten = wire c (.data d) ++ rest)
    (hutf : validUtf8 d = true) :
    (sbReadLineToString c s).1 = .ok d ∧ (sbReadLineToString c s).2.cap = 0 ∧
      (sbReadLineToString c s).2.r.src.flatten = rest := by
  have hc' := hc
  obtain ⟨hu, hmin, h65, hml, _⟩ := hc
  obtain ⟨h1, _, _, h4, _, _, _, _, h9⟩ :=
    readLine_wire c hc' s.r (.data d) hp.1 rest hr.notDone hr.noPeek hr.chunks hflat
  rw [lineOutcome_plain c _ _ _ hp] at h1 h9
  simp only at h1 h9
  have hbuf := h9 trivial
  obtain ⟨hw, _⟩ := wire_data c hc' d hp.1
  obtain ⟨hdne, hdlen⟩ := hp.1
  have hloop : fillLoop c s.interruptAt (fillFuel s.r) s.r false s.log =
      (.ok c.u16HexBytes d.length, (readLine c s.r).2, s.log) := by
    have hf : fillFuel s.r = (srcLen s.r.src + 1) + 1 := rfl
    rw [hf]
    unfold fillLoop
    rcases hrl : readLine c s.r with ⟨x, r1⟩
    rw [hrl] at h1
    simp only at h1
    subst h1
    simp [Line.asSlice]
  have hfill : fillBuf c s = (.ok d, { s with r := (readLine c s.r).2, cap := d.length + c.u16HexBytes, pos := c.u16HexBytes }) := by
    unfold fillBuf
    rw [if_pos (by omega), hh, hloop]
    simp only [bufSlice, hbuf, hw]
    rw [if_pos ⟨by omega, by simp only [hu, hml]; omega, by simp [u16ToHex_length, hu]; omega⟩]
    congr 2
    rw [List.take_of_length_le (by simp [u16ToHex_length, hu]; omega), hu]
    show List.drop 4 (u16ToHex _ ++ d) = d
    rw [List.drop_append]
    simp [u16ToHex_length]
  unfold sbReadLineToString
  rw [if_neg (by omega), hfill]
  simp only [hutf, if_true]
  exact ⟨trivial, trivial, h4⟩

end GixModel.C29
