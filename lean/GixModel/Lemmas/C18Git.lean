import GixModel.Lemmas.C18Prefix
import GixModel.Spec.C18
/-
C18 helper lemmas, part 4: the git-side specification (sorted, de-duplicated union; rule list).
-/
namespace GixModel.C18
open GixModel GixModel.C18.Spec

theorem insertItem_lower {x : Item} {l : List Item} (n : Name) (hx : cmpB n x.1 = .lt)
    (hl : ∀ y ∈ l, cmpB n y.1 = .lt) : ∀ y ∈ insertItem x l, cmpB n y.1 = .lt := by
  induction l with
  | nil => intro y hy; simp [insertItem] at hy; subst hy; exact hx
  | cons z zs ih =>
    intro y hy
    simp only [insertItem] at hy
    split at hy
    · rcases List.mem_cons.mp hy with e | hy
      · subst e; exact hx
      · exact hl y hy
    · rcases List.mem_cons.mp hy with e | hy
      · subst e; exact hx
      · exact hl y (List.mem_cons_of_mem _ hy)
    · rcases List.mem_cons.mp hy with e | hy
      · subst e; exact hl _ (List.mem_cons_self ..)
      · exact ih (fun y hy => hl y (List.mem_cons_of_mem _ hy)) y hy

theorem insertItem_sorted {x : Item} {l : List Item} (hl : SortedN l) : SortedN (insertItem x l) := by
  induction l with
  | nil => simp [insertItem, SortedN]
  | cons z zs ih =>
    simp only [insertItem]
    split
    · rename_i hlt
      refine List.pairwise_cons.mpr ⟨?_, hl⟩
      intro y hy
      rcases List.mem_cons.mp hy with e | hy
      · subst e; exact hlt
      · exact cmpB_trans hlt (hl.head_lt y hy)
    · rename_i heq
      have e : x.1 = z.1 := cmpB_eq_iff.mp heq
      refine List.pairwise_cons.mpr ⟨?_, hl.tail⟩
      intro y hy; rw [e]; exact hl.head_lt y hy
    · rename_i hgt
      have hlt : cmpB z.1 x.1 = .lt := (cmpB_swap z.1 x.1).mpr hgt
      exact List.pairwise_cons.mpr ⟨insertItem_lower _ hlt hl.head_lt, ih hl.tail⟩

theorem mem_insertItem {x : Item} {l : List Item} (hl : SortedN l) (y : Item) :
    y ∈ insertItem x l ↔ y = x ∨ (y ∈ l ∧ y.1 ≠ x.1) := by
  induction l with
  | nil => simp [insertItem]
  | cons z zs ih =>
    simp only [insertItem]
    split
    · rename_i hlt
      simp only [List.mem_cons]
      constructor
      · rintro (e | e | h)
        · exact .inl e
        · subst e; exact .inr ⟨.inl rfl, fun e => by rw [e] at hlt; exact cmpB_irrefl hlt⟩
        · refine .inr ⟨.inr h, fun e => ?_⟩
          have := cmpB_trans hlt (hl.head_lt y h)
          rw [e] at this; exact cmpB_irrefl this
      · rintro (e | ⟨e | h, _⟩)
        · exact .inl e
        · exact .inr (.inl e)
        · exact .inr (.inr h)
    · rename_i heq
      have e : x.1 = z.1 := cmpB_eq_iff.mp heq
      simp only [List.mem_cons]
      constructor
      · rintro (e' | h)
        · exact .inl e'
        · refine .inr ⟨.inr h, fun e' => ?_⟩
          have := hl.head_lt y h
          rw [e', e] at this; exact cmpB_irrefl this
      · rintro (e' | ⟨e' | h, hne⟩)
        · exact .inl e'
        · subst e'; exact absurd e.symm hne
        · exact .inr h
    · rename_i hgt
      have hlt : cmpB z.1 x.1 = .lt := (cmpB_swap z.1 x.1).mpr hgt
      simp only [List.mem_cons]
      rw [ih hl.tail]
      constructor
      · rintro (e | e | ⟨h, hne⟩)
        · subst e; exact .inr ⟨.inl rfl, fun e => by rw [e] at hlt; exact cmpB_irrefl hlt⟩
        · exact .inl e
        · exact .inr ⟨.inr h, hne⟩
      · rintro (e | ⟨e | h, hne⟩)
        · exact .inr (.inl e)
        · exact .inl e
        · exact .inr (.inr ⟨h, hne⟩)

theorem sortItems_sorted (u : List Item) : SortedN (sortItems u) := by
  induction u with
  | nil => exact List.Pairwise.nil
  | cons x xs ih => exact insertItem_sorted ih

/-- the sorted list contains of every name the first item of the input -/
theorem mem_sortItems (u : List Item) (y : Item) :
    y ∈ sortItems u ↔ u.find? (fun z => decide (z.1 = y.1)) = some y := by
  induction u with
  | nil => simp [sortItems]
  | cons x xs ih =>
    simp only [sortItems, mem_insertItem (sortItems_sorted xs), ih, List.find?_cons]
    by_cases e : x.1 = y.1
    · simp only [e, decide_true]
      constructor
      · rintro (h | ⟨_, hne⟩)
        · rw [h]
        · exact absurd rfl hne
      · intro h; cases h; exact .inl rfl
    · simp only [e, decide_false]
      constructor
      · rintro (h | ⟨h, _⟩)
        · subst h; exact absurd rfl e
        · exact h
      · intro h; exact .inr ⟨h, fun e' => e e'.symm⟩

theorem find?_unique {u : List Item} {x : Item} (hx : x ∈ u) (hu : ∀ y ∈ u, y.1 = x.1 → y = x) :
    u.find? (fun z => decide (z.1 = x.1)) = some x := by
  cases h : u.find? (fun z => decide (z.1 = x.1)) with
  | none =>
    have := List.find?_eq_none.mp h x hx
    simp at this
  | some y =>
    have hy := List.mem_of_find?_eq_some h
    have hq := List.find?_some h
    simp at hq
    rw [hu y hy hq]

/-! ### lookup -/

theorem findIn_eq_dwimIn (g : Forest) (p : List Item) (cs : List Name)
    (hb : ∀ c ∈ cs, lookupRef g p c ≠ some .broken) :
    findIn g p cs = dwimIn (lookupRef g p) cs := by
  induction cs with
  | nil => rfl
  | cons c cs ih =>
    have ih' := ih (fun d hd => hb d (List.mem_cons_of_mem _ hd))
    have hc := hb c (List.mem_cons_self ..)
    simp only [findIn, dwimIn]
    cases h : lookupRef g p c with
    | none => simpa using ih'
    | some t =>
      cases t with
      | broken => exact absurd h hc
      | id i => rfl
      | sym s => rfl

theorem dwimIn_all_none {look : Name → Option Target} {cs : List Name} (h : ∀ c ∈ cs, look c = none) :
    dwimIn look cs = .none := by
  induction cs with
  | nil => rfl
  | cons c cs ih =>
    simp only [dwimIn, h c (List.mem_cons_self ..)]
    exact ih (fun d hd => h d (List.mem_cons_of_mem _ hd))

theorem dwimIn_append_none {look : Name → Option Target} (cs : List Name) {r : Name} (h : look r = none) :
    dwimIn look (cs ++ [r]) = dwimIn look cs := by
  induction cs with
  | nil => simp [dwimIn, h]
  | cons c cs ih => simp only [List.cons_append, dwimIn, ih]

end GixModel.C18

namespace GixModel.C18
open GixModel GixModel.C18.Spec

/-- equal names mean equal items -/
def NameFunctional (l : List Item) : Prop := ∀ a ∈ l, ∀ b ∈ l, a.1 = b.1 → a = b

theorem SortedN.functional {l : List Item} (h : SortedN l) : NameFunctional l :=
  fun _ ha _ hb e => h.name_unique ha hb e

/-- "first of its name in loose ++ packed" = loose, or packed and not shadowed -/
theorem find?_union_iff {l p : List Item} (hl : NameFunctional l) (hp : SortedN p) (x : Item) :
    (l ++ p).find? (fun z => decide (z.1 = x.1)) = some x ↔ x ∈ l ∨ (x ∈ p ∧ ∀ y ∈ l, y.1 ≠ x.1) := by
  rw [List.find?_append]
  constructor
  · intro h
    cases hl' : l.find? (fun z => decide (z.1 = x.1)) with
    | some y =>
      rw [hl'] at h; simp at h; subst h
      exact .inl (List.mem_of_find?_eq_some hl')
    | none =>
      rw [hl'] at h; simp at h
      refine .inr ⟨List.mem_of_find?_eq_some h, ?_⟩
      intro y hy e
      have := List.find?_eq_none.mp hl' y hy
      simp [e] at this
  · rintro (h | ⟨h, hn⟩)
    · rw [find?_unique h (fun y hy e => hl y hy x h e)]; rfl
    · have : l.find? (fun z => decide (z.1 = x.1)) = none := by
        apply List.find?_eq_none.mpr
        intro y hy; simpa using hn y hy
      rw [this, find?_unique h (fun y hy e => hp.name_unique hy h e)]; rfl

/-! ### the candidate list of `find` against git's rule list -/

theorem looksFull_true_eq (n : Name) : looksFull n true = (looksFull n false || isPseudoRef n) := by
  simp [looksFull]

@[simp] theorem tagsC_ne : tagsC ≠ [] := by decide
@[simp] theorem headsC_ne : headsC ≠ [] := by decide
@[simp] theorem remotesC_ne : remotesC ≠ [] := by decide
theorem head_pseudo : isPseudoRef headName = true := by decide
theorem head_full_t : looksFull headName true = true := by decide
theorem head_full_f : looksFull headName false = false := by decide

theorem cand_short (n : Name) (hf : looksFull n true = false)
    (hj : looksFull (n ++ 47 :: headName) false = false) :
    n :: candidates n = rules n := by
  have hp : isPseudoRef n = false := by
    rw [looksFull_true_eq] at hf; simp at hf; exact hf.2
  have hh : n ≠ headName := by intro e; subst e; exact absurd hp (by decide)
  simp [rules, candidates, construct, hp, hf, hh, hj, inbetweens, List.append_assoc]

theorem cand_pseudo (n : Name) (hf : looksFull n false = false) (hp : isPseudoRef n = true)
    (hj : looksFull (n ++ 47 :: headName) false = false) :
    rules n = candidates n ++ (if n = headName then [refsSlash ++ remotesC ++ 47 :: n ++ 47 :: headName] else []) := by
  have hft : looksFull n true = true := by rw [looksFull_true_eq]; simp [hp]
  by_cases hh : n = headName
  · subst hh
    simp [rules, candidates, construct, head_pseudo, head_full_t, head_full_f, inbetweens, List.append_assoc]
  · simp [rules, candidates, construct, hp, hf, hft, hh, hj, inbetweens, List.append_assoc]

theorem cand_full_head (n : Name) (hf : looksFull n false = true) : (candidates n).head? = some n := by
  have hft : looksFull n true = true := by rw [looksFull_true_eq]; simp [hf]
  by_cases hp : isPseudoRef n = true
  · simp [candidates, construct, hp, hft]
  · have hp' : isPseudoRef n = false := by simpa using hp
    simp [candidates, construct, hp', hft, inbetweens]

theorem dwimIn_head {look : Name → Option Target} {cs : List Name} {n : Name} {t : Target}
    (h : cs.head? = some n) (ht : look n = some t) : dwimIn look cs = .ref n t := by
  cases cs with
  | nil => cases h
  | cons c cs => simp at h; subst h; simp [dwimIn, ht]

/-- a store without unparsable loose refs never answers a lookup with `broken` -/
theorem lookupRef_ne_broken {g : Forest} {p : List Item} (hg : ∀ x ∈ walk [] g, x.2 ≠ .broken)
    (hp : ∀ x ∈ p, x.2 ≠ .broken) (c : Name) : lookupRef g p c ≠ some .broken := by
  unfold lookupRef
  intro h
  split at h
  · rename_i t ht
    cases h
    obtain ⟨x, hx, e⟩ := lookup_mem_walk [] ht
    exact hg x hx e
  · cases hf : p.find? (fun x => decide (x.1 = c)) with
    | none => simp [hf] at h
    | some y =>
      simp [hf] at h
      exact hp y (List.mem_of_find?_eq_some hf) h

end GixModel.C18
