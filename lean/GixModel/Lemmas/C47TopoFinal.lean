import GixModel.Lemmas.C47TopoBuild
/-
C47 — lemmas, part 10: the rest of `build()` and the summary `topoWalk_spec`.
-/
namespace GixModel.C47
open GixModel GixModel.CG GixModel.Spec.C47

section
variable {E : TopoEnv} {nodes tips ends : List Nat}

theorem reg_count {nodes reg : List Nat} (hnd : nodes.Nodup) (hr : reg.Nodup) (hsub : ∀ x, x ∈ reg → x ∈ nodes)
    (P : Nat → Bool) (hP : ∀ x, x ∈ reg → P x = true) :
    reg.length + (nodes.filter fun x => !P x).length ≤ nodes.length := by
  have hnodup : (reg ++ nodes.filter fun x => !P x).Nodup := by
    rw [List.nodup_append]
    refine ⟨hr, hnd.sublist List.filter_sublist, ?_⟩
    intro x hx y hy hxy
    subst hxy
    have := (List.mem_filter.mp hy).2
    rw [hP x hx] at this
    cases this
  have := nodup_subset_length hnodup (by
    intro x hx
    cases List.mem_append.mp hx with
    | inl h => exact hsub x h
    | inr h => exact (List.mem_filter.mp h).1)
  simpa using this

/-- after registering all tips and ends both invariants hold (nothing counted, emitted or queued) -/
theorem RegInv.to_inv (ctx : TCtx E nodes tips ends) {s : TS E} {reg uset : List Nat}
    (h : RegInv E nodes s reg uset) (hreg : ∀ x, x ∈ reg ↔ x ∈ tips ++ ends) (hus : ∀ x, x ∈ uset ↔ x ∈ ends) :
    ExInv E nodes ends s ∧ NInv E nodes tips ends s [] [] tips := by
  have hEQmem : ∀ x, x ∈ reg → ∃ k, (k, x) ∈ E.qg.items s.explore := by
    intro x hx
    obtain ⟨e, he, hex⟩ := List.mem_map.mp (h.eq_ids.symm.subset hx)
    exact ⟨e.1, by rw [← hex]; exact he⟩
  have hEQreg : ∀ e, e ∈ E.qg.items s.explore → e.2 ∈ reg :=
    fun e he => h.eq_ids.subset (List.mem_map.mpr ⟨e, he, rfl⟩)
  have hIQreg : ∀ e, e ∈ E.qg.items s.indegQ → e.2 ∈ reg :=
    fun e he => h.iq_ids.subset (List.mem_map.mpr ⟨e, he, rfl⟩)
  have hflagreg : ∀ x, s.states.fInDeg x = true → x ∈ reg := fun x hx => (h.has_iff x).mp (fInDeg_has hx)
  have hexplreg : ∀ x, s.states.fExplored x = true → x ∈ reg := fun x hx => (h.has_iff x).mp (fExplored_has hx)
  have hcount0 : ∀ c, countedB E s c = false := by
    intro c
    simp only [countedB]
    cases hf : s.states.fInDeg c with
    | false => rfl
    | true =>
      have : c ∈ iqIds E s := h.iq_ids.symm.subset (hflagreg c hf)
      simp [this]
  have hcnt0 : ∀ outp p, cnt E nodes s outp p = 0 := by
    intro outp p
    unfold cnt
    rw [List.length_eq_zero_iff, List.filter_eq_nil_iff]
    intro c _
    simp [hcount0 c]
  have htq0 : tqIds E s = [] := by
    unfold tqIds
    cases E.cfg.sorting with
    | dateOrder => simp [h.date_empty]
    | topoOrder => simp [h.stack_empty]
  have hrch : ∀ x, x ∈ reg → Rch E tips ends x := fun x hx => ⟨x, (hreg x).mp hx, Reach.refl x⟩
  refine ⟨?_, ?_⟩
  · exact
      { st_nodes := fun x hx => h.reg_nodes x ((h.has_iff x).mp hx)
        st_u := fun x hx => ⟨x, (hus x).mp ((h.fU_iff x).mp hx), Reach.refl x⟩
        st_ends := fun e he => (h.fU_iff e).mpr ((hus e).mpr he)
        st_added := fun c hc => by rw [h.fl_added c] at hc; cases hc
        eq_key := h.eq_key
        eq_expl := fun e he => h.fl_expl e.2 (hEQreg e he)
        ex_done := fun x hx => Or.inl (hEQmem x (hexplreg x hx))
        phi_le := by
          have hlen : (E.qg.items s.explore).length = reg.length := by
            have := h.eq_ids.length_eq
            simpa using this
          rw [hlen]
          exact reg_count ctx.nodup h.reg_nodup h.reg_nodes _ h.fl_expl }
  · exact
      { iq_key := h.iq_key
        iq_flag := fun e he => h.fl_indeg e.2 (hIQreg e he)
        iq_nodup := h.iq_ids.nodup_iff.mpr h.reg_nodup
        in_expl := fun x hx => h.fl_expl x (hflagreg x hx)
        in_deg := fun x hx => by rw [h.deg, if_pos (hflagreg x hx)]; rfl
        in_rch := fun x hx => hrch x (hflagreg x hx)
        starts_in := fun x hx => h.fl_indeg x ((hreg x).mpr hx)
        cnt_done := fun c hc => by rw [hcount0 c] at hc; cases hc
        psi_le := by
          have hlen : (E.qg.items s.indegQ).length = reg.length := by
            have := h.iq_ids.length_eq
            simpa using this
          rw [hlen]
          exact reg_count ctx.nodup h.reg_nodup h.reg_nodes _ h.fl_indeg
        deg_ok := by
          intro p _
          simp only [DegOk, h.deg, hcnt0]
          by_cases hp : p ∈ reg
          · simp [hp]
          · simp [hp]
        cur_fresh := by intro p hp; simp at hp
        cur_nodup := List.nodup_nil
        tq_inv := by intro x hx; rw [htq0] at hx; simp at hx
        tq_nodup := by rw [htq0]; exact List.nodup_nil
        out_nodup := List.nodup_nil
        out_inv := by intro x hx; simp at hx
        out_order := by
          intro l₁ x l₂ hl
          have := congrArg List.length hl
          simp at this
        mingen := by intro c hc; simp at hc
        live := by
          intro x _ a2 _ _ a5
          rw [h.deg] at a5
          by_cases hx : x ∈ reg
          · cases List.mem_append.mp ((hreg x).mp hx) with
            | inl h' => exact Or.inr h'
            | inr h' => exact absurd ⟨x, h', Reach.refl x⟩ a2
          · rw [if_neg hx] at a5; cases a5 }

/-- "parents of the ends must also be marked uninteresting" -/
theorem markEndParents_spec (ctx : TCtx E nodes tips ends) {s : TS E} (h : ExInv E nodes ends s) :
    ExInv E nodes ends { s with states := markEndParents E.g ends s.states } ∧
      ExFrame s { s with states := markEndParents E.g ends s.states } := by
  have hhas := orInsertAll_has (pass := flagU) (ins := flagUSeen) rfl (ends.flatMap E.g.parents) s.states
  have hex := orInsertAll_fExplored (pass := flagU) (ins := flagUSeen) rfl plain_flagU plain_flagUSeen
    (ends.flatMap E.g.parents) s.states
  have hin := orInsertAll_fInDeg (pass := flagU) (ins := flagUSeen) rfl plain_flagU plain_flagUSeen
    (ends.flatMap E.g.parents) s.states
  have had := orInsertAll_fAdded (pass := flagU) (ins := flagUSeen) rfl plain_flagU plain_flagUSeen
    (ends.flatMap E.g.parents) s.states
  have hu := orInsertAll_fU_mark flagUSeen rfl rfl (ends.flatMap E.g.parents) s.states
  have hrel : StRel s.states (markEndParents E.g ends s.states) :=
    ⟨hin, fun x hx => by show (orInsertAll _ _ _ _).fExplored x = true; rw [hex]; exact hx,
     fun x hx => by show (orInsertAll _ _ _ _).has x = true; rw [hhas, hx]; rfl,
     fun x hx => by show (orInsertAll _ _ _ _).fU x = true; rw [hu, hx]; rfl⟩
  refine ⟨?_, ⟨rfl, rfl, rfl, rfl, rfl, rfl, hrel⟩⟩
  exact
    { st_nodes := by
        intro x hx
        have hx' : (orInsertAll flagU flagUSeen (ends.flatMap E.g.parents) s.states).has x = true := hx
        rw [hhas] at hx'
        simp only [Bool.or_eq_true, decide_eq_true_eq] at hx'
        cases hx' with
        | inl h' => exact h.st_nodes x h'
        | inr h' =>
          obtain ⟨e, he, hp⟩ := List.mem_flatMap.mp h'
          exact ctx.closed e (ctx.ends_nodes e he) x hp
      st_u := by
        intro x hx
        have hx' : (orInsertAll flagU flagUSeen (ends.flatMap E.g.parents) s.states).fU x = true := hx
        rw [hu] at hx'
        simp only [Bool.or_eq_true, decide_eq_true_eq] at hx'
        cases hx' with
        | inl h' => exact h.st_u x h'
        | inr h' =>
          obtain ⟨e, he, hp⟩ := List.mem_flatMap.mp h'
          exact ⟨e, he, Reach.single hp⟩
      st_ends := fun e he => hrel.fU e (h.st_ends e he)
      st_added := by
        intro c hc p hp
        have hc' : (orInsertAll flagU flagUSeen (ends.flatMap E.g.parents) s.states).fAdded c = true := hc
        rw [had] at hc'
        exact hrel.has p (h.st_added c hc' p hp)
      eq_key := h.eq_key
      eq_expl := fun e he => hrel.fExplored e.2 (h.eq_expl e he)
      ex_done := by
        intro x hx
        have hx' : (orInsertAll flagU flagUSeen (ends.flatMap E.g.parents) s.states).fExplored x = true := hx
        rw [hex] at hx'
        cases h.ex_done x hx' with
        | inl h' => exact Or.inl h'
        | inr h' => exact Or.inr (fun p hp => hrel.fExplored p (h' p hp))
      phi_le := by
        have hun : unexplored nodes (markEndParents E.g ends s.states) = unexplored nodes s.states := by
          unfold unexplored
          congr 1
          apply List.filter_congr
          intro x _
          show (!(orInsertAll flagU flagUSeen (ends.flatMap E.g.parents) s.states).fExplored x) = _
          rw [hex]
        show _ + unexplored nodes (markEndParents E.g ends s.states) ≤ _
        rw [hun]; exact h.phi_le }

/-! ### queueing the tips -/

theorem queueTips_spec (ctx : TCtx E nodes tips ends) :
    ∀ (ts : List Nat) (queued : NatSet) (s : TS E), WInv E nodes tips ends s [] [] ts →
      (∀ x, queued.mem x = true ↔ x ∈ tqIds E s) → (∀ t, t ∈ ts → t ∈ tips) →
      (∀ t, t ∈ tips → s.minGen ≤ E.g.gen t) →
      ∃ s', queueTips E ts queued s = some s' ∧ WInv E nodes tips ends s' [] [] [] := by
  intro ts
  induction ts with
  | nil => intro queued s h _ _ _; exact ⟨s, rfl, h⟩
  | cons t ts ih =>
    intro queued s h hq hts hmg
    unfold queueTips
    have httip : t ∈ tips := hts t List.mem_cons_self
    have hts' : ∀ t', t' ∈ ts → t' ∈ tips := fun t' ht' => hts t' (List.mem_cons_of_mem _ ht')
    have hflag : s.states.fInDeg t = true := h.n.starts_in t (List.mem_append_left _ httip)
    have hsome := h.n.in_deg t hflag
    have hrt : Rch E tips ends t := ⟨t, List.mem_append_left _ httip, Reach.refl t⟩
    cases hget : s.indeg.get t with
    | none => rw [hget] at hsome; cases hsome
    | some i =>
      dsimp only
      by_cases hi : i ≠ 1
      · rw [if_pos hi]
        apply ih queued s ⟨h.ex, h.n.pend_drop (fun h1 => ?_), h.depth⟩ hq hts' hmg
        rw [hget] at h1
        simp only [Option.some.injEq] at h1
        exact absurd h1 hi
      · rw [if_neg hi]
        have hi1 : i = 1 := by
          apply Classical.byContradiction
          intro hne; exact hi hne
        subst hi1
        show ∃ s', (if (s.states.fU t || queued.mem t) = true then queueTips E ts queued s
            else queueTips E ts (queued.insert t) (tqPush E s (E.g.time t) t)) = some s' ∧ _
        by_cases hskip : (s.states.fU t || queued.mem t) = true
        · rw [if_pos hskip]
          apply ih queued s ⟨h.ex, h.n.pend_drop (fun _ => ?_), h.depth⟩ hq hts' hmg
          simp only [Bool.or_eq_true] at hskip
          cases hskip with
          | inl h' => exact Or.inl (h.ex.st_u t h')
          | inr h' => exact Or.inr (Or.inl ((hq t).mp h'))
        · rw [if_neg hskip]
          simp only [Bool.or_eq_true, not_or, Bool.not_eq_true] at hskip
          obtain ⟨hUf, hqf⟩ := hskip
          have htnq : t ∉ tqIds E s := fun hmem => by
            have := (hq t).mpr hmem
            rw [hqf] at this; cases this
          have hte : t ∉ ends := fun hte => by
            have := h.ex.st_ends t hte
            rw [hUf] at this; cases this
          have hcounted : ∀ x, Rch E tips ends x → E.g.gen t ≤ E.g.gen x → countedB E s x = true :=
            fun x hx hg => counted_of_depth ctx h.n h.depth hx (by have := hmg t httip; omega)
          have hnh : ¬ Hid E ends t := by
            intro hh
            obtain ⟨c', hc1, hc2, hc3⟩ := ctx.hid_walk t hh hrt hte
            have hc'c := hcounted c' hc2 (ctx.gen_le_walk hc3)
            have hpos := cnt_pos (nodes := nodes) (s := s) (outp := []) (ctx.rch_nodes hc2) hc'c hc3 (by simp)
            have hdeg := h.n.deg_ok t (by simp)
            simp only [DegOk, hget] at hdeg
            have := hdeg.2 hh
            simp only [List.not_mem_nil, if_false] at this
            omega
          have hpush := h.n.push ctx (E.g.time t) hrt hnh (by simp) hget
            (fun c' hc' hp' => hcounted c' hc' (ctx.gen_le_walk hp')) (hcounted t hrt (Nat.le_refl _)) htnq
          obtain ⟨f1, f2, f3, f4, f5⟩ := tqPush_frame (E := E) s (E.g.time t) t
          have hperm := tqIds_push ctx s (E.g.time t) t
          apply ih (queued.insert t) (tqPush E s (E.g.time t) t)
          · refine ⟨h.ex.of_states_eq f2 f3, hpush, ?_⟩
            intro e he
            rw [f4] at he
            rw [f5]
            exact h.depth e he
          · intro x
            rw [NatSet.mem_insert, hperm.mem_iff]
            simp only [Bool.or_eq_true, decide_eq_true_eq, List.mem_cons]
            rw [hq x]
            constructor
            · intro hx; cases hx with
              | inl h' => exact Or.inr h'
              | inr h' => exact Or.inl h'
            · intro hx; cases hx with
              | inl h' => exact Or.inr h'
              | inr h' => exact Or.inl h'
          · exact hts'
          · rw [f5]; exact hmg

/-! ### the initial sort -/

theorem insertByTime_perm (e : Int × Nat) (l : List (Int × Nat)) : (insertByTime e l).Perm (e :: l) := by
  induction l with
  | nil => exact List.Perm.refl _
  | cons x xs ih =>
    unfold insertByTime
    split
    · exact (List.Perm.cons x ih).trans (List.Perm.swap _ _ _)
    · exact List.Perm.refl _

theorem sortByTime_perm (l : List (Int × Nat)) : (sortByTime l).Perm l := by
  have key : ∀ (l acc : List (Int × Nat)),
      (l.foldl (fun acc e => insertByTime e acc) acc).Perm (l ++ acc) := by
    intro l
    induction l with
    | nil => intro acc; exact List.Perm.refl _
    | cons x xs ih =>
      intro acc
      simp only [List.foldl_cons]
      refine (ih _).trans ?_
      exact (List.Perm.append_left xs (insertByTime_perm x acc)).trans (by simp)
  have := key l []
  simpa [sortByTime] using this

/-- the invariants only look at the topo queue as a bag -/
theorem NInv.of_tq_perm {s s' : TS E} {outp cur pend : List Nat} (h : NInv E nodes tips ends s outp cur pend)
    (h1 : s'.indeg = s.indeg) (h2 : s'.states = s.states) (h4 : s'.indegQ = s.indegQ)
    (h5 : s'.minGen = s.minGen) (hperm : (tqIds E s').Perm (tqIds E s)) :
    NInv E nodes tips ends s' outp cur pend := by
  have hcB : countedB E s' = countedB E s := countedB_congr (fun x => by rw [h2]) h4
  have hcnt : ∀ q, cnt E nodes s' outp q = cnt E nodes s outp q := cnt_congr hcB outp
  have hkids : ∀ x, KidsCounted E tips ends s' x ↔ KidsCounted E tips ends s x := by
    intro x; simp only [KidsCounted, hcB]
  exact
    { iq_key := by rw [h4]; exact h.iq_key
      iq_flag := by rw [h4, h2]; exact h.iq_flag
      iq_nodup := by simp only [iqIds, h4]; exact h.iq_nodup
      in_expl := by rw [h2]; exact h.in_expl
      in_deg := by rw [h2, h1]; exact h.in_deg
      in_rch := by rw [h2]; exact h.in_rch
      starts_in := by rw [h2]; exact h.starts_in
      cnt_done := by rw [hcB, h2]; exact h.cnt_done
      psi_le := by rw [h4, h2]; exact h.psi_le
      deg_ok := by
        intro q hq
        have := h.deg_ok q hq
        simp only [DegOk, h1, hcnt] at this ⊢
        exact this
      cur_fresh := h.cur_fresh
      cur_nodup := h.cur_nodup
      tq_inv := by
        intro x hx
        rw [h1, hcB]
        obtain ⟨a1, a2, a3, a4, a5, a6⟩ := h.tq_inv x (hperm.subset hx)
        exact ⟨a1, a2, a3, a4, (hkids x).mpr a5, a6⟩
      tq_nodup := hperm.nodup_iff.mpr h.tq_nodup
      out_nodup := h.out_nodup
      out_inv := by
        intro x hx
        obtain ⟨a1, a2, a3, a4⟩ := h.out_inv x hx
        exact ⟨a1, a2, (hkids x).mpr a3, by rw [hcB]; exact a4⟩
      out_order := h.out_order
      mingen := by rw [h5]; exact h.mingen
      live := by
        intro x a1 a2 a3 a4 a5
        rw [h1] at a5
        cases h.live x a1 a2 a3 a4 a5 with
        | inl h' => exact Or.inl (hperm.symm.subset h')
        | inr h' => exact Or.inr h' }

/-! ### the whole walk -/

theorem topoBuild_spec (ctx : TCtx E nodes tips ends) (nfuel : Nat) (hn : nodes.length < nfuel) :
    ∃ s, topoBuild E nfuel tips ends = .ok s ∧ WInv E nodes tips ends s [] [] [] := by
  unfold topoBuild
  dsimp only
  -- registering
  have hreg0 : RegInv E nodes
      ({ indeg := DegMap.empty, states := StateMap.empty, explore := E.qg.empty, indegQ := E.qg.empty,
         dateQ := E.qd.empty, dateCtr := 0, stack := [], minGen := genInfinity } : TS E) [] [] :=
    { reg_nodup := List.nodup_nil
      reg_nodes := by intro x hx; simp at hx
      has_iff := by intro x; simp [StateMap.has, StateMap.empty]
      fl_expl := by intro x hx; simp at hx
      fl_indeg := by intro x hx; simp at hx
      fl_added := by intro x; simp [StateMap.fAdded, StateMap.empty]
      fU_iff := by intro x; simp [StateMap.fU, StateMap.empty]
      deg := by intro x; simp [DegMap.empty]
      eq_ids := by simp [ctx.qg_lawful.items_empty]
      eq_key := by intro e he; rw [ctx.qg_lawful.items_empty] at he; simp at he
      iq_ids := by simp [ctx.qg_lawful.items_empty]
      iq_key := by intro e he; rw [ctx.qg_lawful.items_empty] at he; simp at he
      mingen := by intro x hx; simp at hx
      date_empty := ctx.qd_lawful.items_empty
      stack_empty := rfl }
  obtain ⟨reg, uset, hr, hregm, husm⟩ := registerAll_spec ctx
    (tips.map (fun t => (t, tipFlags)) ++ ends.map (fun e => (e, endFlags))) _ [] [] hreg0 (by
      intro e he
      cases List.mem_append.mp he with
      | inl h' =>
        obtain ⟨t, ht, hte⟩ := List.mem_map.mp h'
        subst hte
        exact ⟨ctx.tips_nodes t ht, Or.inl rfl⟩
      | inr h' =>
        obtain ⟨t, ht, hte⟩ := List.mem_map.mp h'
        subst hte
        exact ⟨ctx.ends_nodes t ht, Or.inr rfl⟩)
  have hregm' : ∀ x, x ∈ reg ↔ x ∈ tips ++ ends := by
    intro x
    rw [hregm]
    simp [List.map_append, List.map_map, Function.comp_def]
  have husm' : ∀ x, x ∈ uset ↔ x ∈ ends := by
    intro x
    rw [husm]
    constructor
    · intro hx
      cases hx with
      | inl h' => simp at h'
      | inr h' =>
        cases List.mem_append.mp h' with
        | inl h'' =>
          obtain ⟨t, _, hte⟩ := List.mem_map.mp h''
          have h2 : tipFlags = endFlags := congrArg Prod.snd hte
          simp [tipFlags, endFlags] at h2
        | inr h'' =>
          obtain ⟨t, ht, hte⟩ := List.mem_map.mp h''
          have h1 : t = x := congrArg Prod.fst hte
          rw [← h1]; exact ht
    · intro hx
      exact Or.inr (List.mem_append_right _ (List.mem_map.mpr ⟨x, hx, rfl⟩))
  obtain ⟨hex1, hn1⟩ := hr.to_inv ctx hregm' husm'
  have hmgreg := hr.mingen
  generalize registerAll E (tips.map (fun t => (t, tipFlags)) ++ ends.map (fun e => (e, endFlags)))
    ({ indeg := DegMap.empty, states := StateMap.empty, explore := E.qg.empty, indegQ := E.qg.empty,
       dateQ := E.qd.empty, dateCtr := 0, stack := [], minGen := genInfinity } : TS E) = s1 at *
  -- the parents of the ends
  obtain ⟨hex2, hfr2⟩ := markEndParents_spec ctx hex1
  have hn2 := hn1.of_frame hfr2
  -- the first in-degree computation
  obtain ⟨s3, hs3, a1, a2, a3, a4, a5, a6, a7, _⟩ := computeIndegrees_spec ctx nfuel s1.minGen hn nfuel
    { s1 with states := markEndParents E.g ends s1.states } hex2 hn2 (by
      have := hn2.psi_le
      omega)
  have hs3' : computeIndegrees E nfuel
      ({ s1 with states := markEndParents E.g ends s1.states } : TS E).minGen nfuel
      { s1 with states := markEndParents E.g ends s1.states } = .ok s3 := hs3
  rw [hs3']
  dsimp only
  have hw3 : WInv E nodes tips ends s3 [] [] tips := ⟨a1, a2, by
    intro e he
    rw [a4]
    exact a3 e he⟩
  have htq3 : tqIds E s3 = [] := by
    unfold tqIds
    cases E.cfg.sorting with
    | dateOrder =>
      dsimp only
      rw [a5]
      show (E.qd.items s1.dateQ).map (·.2) = []
      rw [hr.date_empty]; rfl
    | topoOrder =>
      dsimp only
      rw [a7]
      show s1.stack.map (·.2) = []
      rw [hr.stack_empty]; rfl
  obtain ⟨s4, hs4, hw4⟩ := queueTips_spec ctx tips NatSet.empty s3 hw3
    (by intro x; rw [htq3]; simp [NatSet.empty]) (fun t ht => ht)
    (by
      intro t ht
      rw [a4]
      exact hmgreg t ((hregm' t).mpr (List.mem_append_left _ ht)))
  rw [hs4]
  dsimp only
  refine ⟨_, rfl, ?_⟩
  have hperm : (tqIds E { s4 with stack := (sortByTime s4.stack).reverse }).Perm (tqIds E s4) := by
    unfold tqIds
    cases E.cfg.sorting with
    | dateOrder => exact List.Perm.refl _
    | topoOrder =>
      dsimp only
      exact ((List.reverse_perm _).trans (sortByTime_perm s4.stack)).map (·.2)
  exact ⟨hw4.ex.of_states_eq rfl rfl, hw4.n.of_tq_perm rfl rfl rfl rfl hperm, hw4.depth⟩

/-- The `Topo` iterator: for every admissible request it ends regularly and returns exactly the
visible reachable commits, each once, children before parents. -/
theorem topoWalk_spec (ctx : TCtx E nodes tips ends) {n : Nat} (hn : nodes.length ≤ n) :
    ∃ out, topoWalk E n tips ends = .ok out ∧ TopoResult E tips ends out := by
  unfold topoWalk
  obtain ⟨s, hs, hw⟩ := topoBuild_spec ctx (n + 1) (by omega)
  rw [hs]
  dsimp only
  exact topoLoop_spec ctx (n + 1) (by omega) (n + 1) s [] hw (by simp; omega)

end

/-! ### a concrete request used as non-vacuity witness in `Props.C47` -/

/-- criss-cross: 0 ← 1, 0 ← 2, 3 = merge(1,2), 4 = merge(2,1); all commit times equal; no
commit-graph -/
def sampleDag : Dag where
  parents := fun c => match c with
    | 1 => [0] | 2 => [0] | 3 => [1, 2] | 4 => [2, 1] | _ => []
  time := fun _ => 7
  gen := fun _ => 4294967295

/-- a queue that keeps its entries in a plain list and selects a greatest one on `pop` -/
def extractMax {K : Type} (le : K → K → Bool) : List (K × Nat) → Option ((K × Nat) × List (K × Nat))
  | [] => none
  | e :: rest =>
    match extractMax le rest with
    | none => some (e, [])
    | some (m, rest') => if le m.1 e.1 then some (e, m :: rest') else some (m, e :: rest')

def selectPQ {K : Type} (le : K → K → Bool) : PQ K where
  Q := List (K × Nat)
  empty := []
  insert := fun k v s => (k, v) :: s
  pop := fun s => extractMax le s
  items := fun s => s

theorem extractMax_none {K : Type} (le : K → K → Bool) : ∀ (l : List (K × Nat)), extractMax le l = none → l = [] := by
  intro l
  cases l with
  | nil => intro _; rfl
  | cons e rest =>
    intro h
    unfold extractMax at h
    cases hr : extractMax le rest with
    | none => rw [hr] at h; cases h
    | some r =>
      obtain ⟨m, rest'⟩ := r
      rw [hr] at h
      dsimp only at h
      split at h <;> cases h

theorem extractMax_perm {K : Type} (le : K → K → Bool) : ∀ (l : List (K × Nat)) e l',
    extractMax le l = some (e, l') → l.Perm (e :: l') := by
  intro l
  induction l with
  | nil => intro e l' h; cases h
  | cons x rest ih =>
    intro e l' h
    unfold extractMax at h
    cases hr : extractMax le rest with
    | none =>
      rw [hr] at h
      have := extractMax_none le rest hr
      subst this
      cases h
      exact List.Perm.refl _
    | some r =>
      obtain ⟨m, rest'⟩ := r
      rw [hr] at h
      dsimp only at h
      have hp := ih m rest' hr
      split at h
      · cases h
        exact List.Perm.cons _ hp
      · cases h
        exact (List.Perm.cons x hp).trans (List.Perm.swap _ _ _)

theorem selectPQ_lawful {K : Type} (le : K → K → Bool) : (selectPQ le).Lawful where
  items_empty := rfl
  items_insert := fun _ _ _ => List.Perm.refl _
  pop_none := fun s h => extractMax_none le s h
  pop_some := fun s e s' h => extractMax_perm le s e s' h

theorem extractMax_max {K : Type} (le : K → K → Bool) (htot : ∀ a b, le a b = false → le b a = true)
    (htrans : ∀ a b c, le a b = true → le b c = true → le a c = true) :
    ∀ (l : List (K × Nat)) e l', extractMax le l = some (e, l') → ∀ x, x ∈ l → le x.1 e.1 = true := by
  intro l
  induction l with
  | nil => intro e l' h; cases h
  | cons y rest ih =>
    intro e l' h x hx
    have hrefl : ∀ a, le a a = true := by
      intro a
      cases h' : le a a with
      | true => rfl
      | false => have := htot a a h'; rw [h'] at this; cases this
    unfold extractMax at h
    cases hr : extractMax le rest with
    | none =>
      rw [hr] at h
      have := extractMax_none _ rest hr
      subst this
      cases h
      simp only [List.mem_singleton] at hx
      subst hx
      exact hrefl _
    | some r =>
      obtain ⟨m, rest'⟩ := r
      rw [hr] at h
      dsimp only at h
      have hm := ih m rest' hr
      by_cases hle : le m.1 y.1 = true
      · rw [if_pos hle] at h
        cases h
        cases List.mem_cons.mp hx with
        | inl h' => subst h'; exact hrefl _
        | inr h' => exact htrans _ _ _ (hm x h') hle
      · rw [if_neg hle] at h
        cases h
        have hym : le y.1 e.1 = true := htot _ _ (by simpa using hle)
        cases List.mem_cons.mp hx with
        | inl h' => subst h'; exact hym
        | inr h' => exact hm x h'

theorem extractMax_gen : ∀ (l : List (GenTime × Nat)) e l',
    extractMax GenTime.le l = some (e, l') → ∀ x, x ∈ l → x.1.1 ≤ e.1.1 := by
  intro l
  induction l with
  | nil => intro e l' h; cases h
  | cons y rest ih =>
    intro e l' h x hx
    unfold extractMax at h
    cases hr : extractMax GenTime.le rest with
    | none =>
      rw [hr] at h
      have := extractMax_none _ rest hr
      subst this
      cases h
      simp only [List.mem_singleton] at hx
      subst hx
      exact Nat.le_refl _
    | some r =>
      obtain ⟨m, rest'⟩ := r
      rw [hr] at h
      dsimp only at h
      have hm := ih m rest' hr
      by_cases hle : GenTime.le m.1 y.1 = true
      · rw [if_pos hle] at h
        cases h
        have hmy : m.1.1 ≤ y.1.1 := by
          simp only [GenTime.le, Bool.or_eq_true, decide_eq_true_eq, Bool.and_eq_true, beq_iff_eq] at hle
          omega
        cases List.mem_cons.mp hx with
        | inl h' => subst h'; exact Nat.le_refl _
        | inr h' => exact Nat.le_trans (hm x h') hmy
      · rw [if_neg hle] at h
        cases h
        have hym : y.1.1 ≤ e.1.1 := by
          simp only [GenTime.le, Bool.or_eq_true, decide_eq_true_eq, Bool.and_eq_true, beq_iff_eq] at hle
          omega
        cases List.mem_cons.mp hx with
        | inl h' => subst h'; exact hym
        | inr h' => exact hm x h'

theorem sample_ctx : TCtx { g := sampleDag, qg := selectPQ GenTime.le, qd := selectPQ DateKey.le,
                            cfg := { sorting := .dateOrder, firstParent := false } } [0, 1, 2, 3, 4] [3, 4] [1] where
  acyclic := ⟨fun x => x, by
    intro c p h
    show p < c
    simp only [sampleDag] at h
    split at h <;> simp at h <;> omega⟩
  closed := by
    intro c _ p h
    simp only [sampleDag] at h
    split at h <;> simp at h <;> simp [h] <;> omega
  nodup := by decide
  genmono := fun _ _ _ => Nat.le_refl _
  parents_nodup := by
    intro c
    simp only [sampleDag]
    split <;> decide
  tips_nodes := by decide
  ends_nodes := by decide
  qg_lawful := selectPQ_lawful _
  qg_max := fun s e s' h => extractMax_gen s e s' h
  qd_lawful := selectPQ_lawful _
  hid_walk := hidWalk_of_fp_ends (by intro h; cases h)

end GixModel.C47
