import GixModel.Lemmas.C26Append2
/-
C26 — appended newline, parametric in the set of admissible last events; instance: with LF also a
comment may stand at the very end of the file.
-/
namespace GixModel.C26
open GixModel

/-- what the end-of-text iteration must do for a class `G` of last events -/
def EofOk (t : Bytes) (G : Event → Bool) : Prop :=
  ∀ (a : Bytes) (e1 : List Event), bodyIter a = some (e1, []) → a ≠ [] →
    (∃ e, e1.getLast? = some e ∧ G e = true) →
    bodyIter (a ++ t) = some (e1, t) ∨ bodyIter (a ++ t) = some (e1 ++ [.newline t], [])

def GoodEndG (G : Event → Bool) (evs : List Event) : Prop := evs = [] ∨ ∃ e, evs.getLast? = some e ∧ G e = true
def LastOkG (G : Event → Bool) (evs : List Event) : Prop := ∃ e, evs.getLast? = some e ∧ (G e = true ∨ isHeaderEv e = true)

theorem bodyLoop_appG {t : Bytes} (ht : NL t) {G : Event → Bool} (hG : EofOk t G) : ∀ (f : Nat) (a : Bytes) (evs : List Event) (b : Bytes) (g : Nat),
    bodyLoop f a = some (evs, b) → a.length < f → (a ++ t).length < g → Q a →
    (b ≠ [] → bodyLoop g (a ++ t) = some (evs, b ++ t)) ∧
    (b = [] → GoodEndG G evs → bodyLoop g (a ++ t) = some (evs ++ [.newline t], [])) := by
  intro f
  induction f with
  | zero => intro a evs b g _ hf; omega
  | succ f ih =>
    intro a evs b g h hf hg hq
    obtain ⟨g', rfl⟩ : ∃ g', g = g' + 1 := ⟨g - 1, by omega⟩
    have htpos : 0 < t.length := by rcases ht with rfl | rfl <;> simp
    simp only [bodyLoop] at h
    cases hbi : bodyIter a with
    | none => simp [hbi] at h
    | some p =>
      obtain ⟨e1, r1⟩ := p
      simp only [hbi] at h
      have hok := bodyIter_ok hbi
      have hle : r1.length ≤ a.length := length_le_of_ok hok
      by_cases hprog : r1.length = a.length
      · simp only [hprog, beq_self_eq_true, ↓reduceIte, Option.some.injEq, Prod.mk.injEq] at h
        obtain ⟨rfl, rfl⟩ := h
        by_cases ha : a = []
        · subst ha
          have hr1 : r1 = [] := by simpa using hprog
          subst hr1
          have : bodyIter [] = some ([], []) := by decide
          rw [this] at hbi
          simp only [Option.some.injEq, Prod.mk.injEq] at hbi
          obtain ⟨rfl, _⟩ := hbi
          refine ⟨fun h => absurd rfl h, fun _ _ => ?_⟩
          simp only [List.nil_append]
          exact bodyLoop_nl ht _ (by simpa using hg)
        · have hr1 : r1 ≠ [] := by
            intro he; subst he; simp at hprog; exact ha (by simpa using hprog.symm)
          have hq1 := Q_suffix (hok ▸ hq) hr1
          have hit := bodyIter_app ht hbi hr1 hq1.2
          refine ⟨fun _ => ?_, fun he => absurd he hr1⟩
          simp only [bodyLoop, hit]
          simp [hprog]
      · have hne : (r1.length == a.length) = false := by simpa using hprog
        simp only [hne, Bool.false_eq_true, ↓reduceIte] at h
        cases hbl : bodyLoop f r1 with
        | none => simp [hbl] at h
        | some q =>
          obtain ⟨more, r'⟩ := q
          simp only [hbl, Option.some.injEq, Prod.mk.injEq] at h
          obtain ⟨rfl, rfl⟩ := h
          by_cases hr1 : r1 = []
          · subst hr1
            rw [bodyLoop_nil] at hbl
            simp only [Option.some.injEq, Prod.mk.injEq] at hbl
            obtain ⟨rfl, rfl⟩ := hbl
            refine ⟨fun h => absurd rfl h, fun _ hge => ?_⟩
            have ha : a ≠ [] := by intro he; subst he; simp at hprog
            simp only [List.append_nil] at hge ⊢
            have hapos : 0 < a.length := List.length_pos_iff.mpr ha
            have hl : ∃ e, e1.getLast? = some e ∧ G e = true := by
              rcases hge with he | he
              · subst he; simp [renderRaw] at hok; exact absurd hok ha
              · exact he
            rcases hG a e1 hbi ha hl with hit | hit
            · simp only [bodyLoop, hit]
              have : (t.length == (a ++ t).length) = false := by simp; omega
              simp only [this, Bool.false_eq_true, ↓reduceIte]
              rw [bodyLoop_nl ht g' (by simp at hg; omega)]
            · simp only [bodyLoop, hit]
              have : (([] : Bytes).length == (a ++ t).length) = false := by simp; omega
              simp only [this, Bool.false_eq_true, ↓reduceIte]
              rw [bodyLoop_nil]
              simp
          · have hq1 := Q_suffix (hok ▸ hq) hr1
            have hit := bodyIter_app ht hbi hr1 hq1.2
            have hih := ih r1 more r' g' hbl (by omega) (by simp at hg ⊢; omega) hq1.1
            have hne' : ((r1 ++ t).length == (a ++ t).length) = false := by simp; omega
            constructor
            · intro hb
              simp only [bodyLoop, hit, hne', Bool.false_eq_true, ↓reduceIte, hih.1 hb]
            · intro hb hge
              subst hb
              have hmore : more ≠ [] := renderRaw_nil_of (bodyLoop_ok _ _ _ _ hbl) hr1
              have hge' : GoodEndG G more := by
                right
                rcases hge with he | ⟨e, he, hv⟩
                · simp at he; exact absurd he.2 hmore
                · rw [getLast?_append_ne _ _ hmore] at he; exact ⟨e, he, hv⟩
              simp only [bodyLoop, hit, hne', Bool.false_eq_true, ↓reduceIte, hih.2 rfl hge']
              simp

theorem sectionRaw_appG {t : Bytes} (ht : NL t) {G : Event → Bool} (hG : EofOk t G) {a b : Bytes} {evs : List Event} (h : sectionRaw a = some (evs, b)) (hq : Q a) :
    (b ≠ [] → sectionRaw (a ++ t) = some (evs, b ++ t)) ∧
    (b = [] → LastOkG G evs → sectionRaw (a ++ t) = some (evs ++ [.newline t], [])) := by
  unfold sectionRaw at h ⊢
  cases hh : sectionHeaderRaw a with
  | none => simp [hh] at h
  | some p =>
    obtain ⟨hd, r0⟩ := p
    simp only [hh] at h
    rw [sectionHeaderRaw_app ht hh]
    simp only
    cases hb : bodyLoop (r0.length + 1) r0 with
    | none => simp [hb] at h
    | some q =>
      obtain ⟨body, r'⟩ := q
      simp only [hb, Option.some.injEq, Prod.mk.injEq] at h
      obtain ⟨rfl, rfl⟩ := h
      have hok := sectionHeaderRaw_ok hh
      have hq0 : Q r0 := by
        by_cases h0 : r0 = []
        · subst h0; exact Q_nil
        · exact (Q_suffix (hok ▸ hq) h0).1
      have := bodyLoop_appG ht hG (r0.length + 1) r0 body r' ((r0 ++ t).length + 1) hb (by omega) (by omega) hq0
      constructor
      · intro hne
        rw [this.1 hne]
      · intro he hl
        subst he
        have hge : GoodEndG G body := by
          obtain ⟨e, hle, hv⟩ := hl
          by_cases hbody : body = []
          · exact Or.inl hbody
          · right
            rw [show Event.header hd :: body = [Event.header hd] ++ body from rfl, getLast?_append_ne _ _ hbody] at hle
            rcases hv with hv | hv
            · exact ⟨e, hle, hv⟩
            · exfalso
              have := bodyLoop_no_header _ _ _ _ hb e (List.mem_of_getLast? hle)
              rw [this] at hv; simp at hv
        rw [this.2 rfl hge]
        simp

theorem sectionsRaw_appG {t : Bytes} (ht : NL t) {G : Event → Bool} (hG : EofOk t G) : ∀ (f : Nat) (a : Bytes) (evs : List Event) (g : Nat),
    sectionsRaw f a = some evs → a ≠ [] → a.length ≤ f → (a ++ t).length ≤ g → Q a → LastOkG G evs →
    sectionsRaw g (a ++ t) = some (evs ++ [.newline t]) := by
  intro f
  induction f with
  | zero => intro a evs g _ ha hf; simp at hf; exact absurd hf ha
  | succ f ih =>
    intro a evs g h ha hf hg hq hl
    have htpos : 0 < t.length := by rcases ht with rfl | rfl <;> simp
    obtain ⟨g', rfl⟩ : ∃ g', g = g' + 1 := ⟨g - 1, by simp at hg; omega⟩
    have hae : a.isEmpty = false := by simpa using ha
    have hate : (a ++ t).isEmpty = false := by simp [ha]
    simp only [sectionsRaw, hae, hate, Bool.false_eq_true, ↓reduceIte] at h ⊢
    cases hs : sectionRaw a with
    | none => simp [hs] at h
    | some p =>
      obtain ⟨e1, r⟩ := p
      simp only [hs, Option.map_eq_some_iff] at h
      obtain ⟨more, hm, rfl⟩ := h
      obtain ⟨hlt, hd, body, rfl⟩ := sectionRaw_shrinks hs
      have hok := sectionRaw_ok hs
      have hsa := sectionRaw_appG ht hG hs hq
      by_cases hr : r = []
      · subst hr
        have hmore : more = [] := by
          cases f <;> simp [sectionsRaw] at hm <;> exact hm
        subst hmore
        simp only [List.append_nil] at hl ⊢
        rw [hsa.2 rfl hl]
        cases g' <;> simp [sectionsRaw]
      · have hq1 := Q_suffix (hok ▸ hq) hr
        rw [hsa.1 hr]
        simp only
        have hmne : more ≠ [] := by
          intro he; subst he
          have := sectionsRaw_ok _ _ _ hm
          simp [renderRaw] at this; exact hr this
        have hl' : LastOkG G more := by
          obtain ⟨e, hle, hv⟩ := hl
          rw [getLast?_append_ne _ _ hmne] at hle
          exact ⟨e, hle, hv⟩
        rw [ih r more g' hm hr (by omega) (by simp at hg ⊢; omega) hq1.1 hl']
        simp


theorem parseRaw_appG {t : Bytes} (ht : NL t) {G : Event → Bool} (hG : EofOk t G) {bs : Bytes} {evs : List Event} (h : parseRaw bs = some evs)
    (hb : noBomHead bs = true) (hq : Q bs) (hh : ∃ e ∈ evs, isHeaderEv e = true) (hl : LastOkG G evs) :
    parseRaw (bs ++ t) = some (evs ++ [.newline t]) := by
  unfold parseRaw at h ⊢
  rw [bomLen_of_noBomHead _ (noBomHead_app ht bs hb)]
  rw [bomLen_of_noBomHead _ hb] at h
  simp only [List.drop_zero] at h ⊢
  by_cases he : (frontLoop bs.length bs).2.isEmpty = true
  · exfalso
    simp only [he, ↓reduceIte, Option.some.injEq] at h
    obtain ⟨e, hmem, hv⟩ := hh
    rw [← h] at hmem
    have := frontLoop_kind2 bs.length bs e hmem
    rw [this] at hv; simp at hv
  · simp only [he, Bool.false_eq_true, ↓reduceIte, Option.map_eq_some_iff] at h
    obtain ⟨more, hm, rfl⟩ := h
    have hne : (frontLoop bs.length bs).2 ≠ [] := by simpa using he
    have hfl := frontLoop_app ht bs.length bs (bs ++ t).length (by omega) (by omega) hq hne
    rw [hfl]
    have hok := frontLoop_ok bs.length bs
    have hq2 := Q_suffix (hok ▸ hq) hne
    have hmne : more ≠ [] := by
      intro hmm; subst hmm
      have := sectionsRaw_ok _ _ _ hm
      simp [renderRaw] at this; exact hne this
    have hl' : LastOkG G more := by
      obtain ⟨e, hle, hv⟩ := hl
      rw [getLast?_append_ne _ _ hmne] at hle
      exact ⟨e, hle, hv⟩
    have hs := sectionsRaw_appG ht hG _ _ more ((frontLoop bs.length bs).2 ++ t).length hm hne (by omega) (by omega) hq2.1 hl'
    simp only
    have hne2 : ((frontLoop bs.length bs).2 ++ t).isEmpty = false := by simp [hne]
    simp only [hne2, Bool.false_eq_true, ↓reduceIte, hs]
    simp


/-! ### instances -/

theorem eofOk_goodEnd {t : Bytes} (ht : NL t) : EofOk t isGoodEnd := by
  intro a e1 hbi _ hl
  obtain ⟨e, hle, hg⟩ := hl
  simp only [isGoodEnd, Bool.or_eq_true] at hg
  rcases hg with hv | hw
  · exact Or.inl (bodyIter_eof ht hbi ⟨e, hle, hv⟩)
  · exact Or.inr (bodyIter_eof_ws ht hbi ⟨e, hle, hw⟩)

theorem optSpaces_notComment (i : Bytes) : ∀ e ∈ (optSpaces i).1, isComment e = false := by
  intro e he
  unfold optSpaces at he
  split at he <;> simp at he
  subst he; rfl

theorem optNewlines_notComment (i : Bytes) : ∀ e ∈ (optNewlines i).1, isComment e = false := by
  intro e he
  unfold optNewlines at he
  split at he <;> simp at he
  subst he; rfl

theorem not_comment_of_valueEnd {e : Event} (h : isValueEnd e = true) : isComment e = false := by
  cases e <;> simp_all [isValueEnd, isComment]

/-- with LF: the iteration that reaches the end of the text inside a comment -/
theorem bodyIter_eof_comment {a : Bytes} {evs : List Event} (h : bodyIter a = some (evs, []))
    (hl : ∃ e, evs.getLast? = some e ∧ isComment e = true) : bodyIter (a ++ [10]) = some (evs, [10]) := by
  have ht : NL [10] := Or.inl rfl
  unfold bodyIter at h ⊢
  simp only at h ⊢
  rw [optSpaces_app ht a]
  simp only
  cases hk : keyValuePair (optNewlines (optSpaces a).2).2 with
  | none => simp [hk] at h
  | some p =>
    obtain ⟨kv, r1⟩ := p
    simp only [hk, Option.some.injEq, Prod.mk.injEq] at h
    obtain ⟨rfl, hrr⟩ := h
    obtain ⟨e, he, hv⟩ := hl
    -- the comment slot is filled
    have hc : (optComment r1).1 ≠ [] := by
      intro hcc
      have hr1 : r1 = [] := by
        have := optComment_ok r1
        rw [hcc, hrr] at this
        simpa [renderRaw] using this.symm
      simp only [hcc, List.append_nil] at he
      rcases (keyValuePair_shape hk).1 with ⟨h1, _⟩ | ⟨pre, e', h1, h2⟩
      · subst h1
        simp only [List.append_nil] at he
        have hmem := List.mem_of_getLast? he
        simp only [List.mem_append] at hmem
        rcases hmem with hm | hm
        · rw [optSpaces_notComment _ e hm] at hv; simp at hv
        · rw [optNewlines_notComment _ e hm] at hv; simp at hv
      · rw [h1, ← List.append_assoc, List.getLast?_append] at he
        simp at he
        subst he
        rw [not_comment_of_valueEnd h2] at hv; simp at hv
    cases hcm : comment r1 with
    | none => simp [optComment, hcm] at hc
    | some q =>
      obtain ⟨c, rc⟩ := q
      have hrc : rc = [] := by simpa [optComment, hcm] using hrr
      subst hrc
      have hr1 : r1 ≠ [] := by intro h0; subst h0; simp [comment] at hcm
      have hcm' : comment (r1 ++ [10]) = some (c, [10]) := by
        cases r1 with
        | nil => exact absurd rfl hr1
        | cons x rr =>
          simp only [comment, List.cons_append] at hcm ⊢
          split at hcm
          · rename_i hx
            simp only [Option.some.injEq, Prod.mk.injEq] at hcm
            have hs := spanP_app (fun b => b != 10) [10] rr (Or.inr (by intro c hc; simp at hc; subst hc; rfl))
            simp [hx, hs, hcm.1, hcm.2]
          · simp at hcm
      have l2 := length_le_of_ok (keyValuePair_ok hk)
      have hr1pos : 0 < r1.length := List.length_pos_iff.mpr hr1
      have hb2 : (optNewlines (optSpaces a).2).2 ≠ [] := by
        intro h0
        have : r1.length ≤ 0 := by rw [h0] at l2; exact l2
        omega
      have hb13 : (optNewlines (optSpaces a).2).2 ≠ [13] := by
        intro h13
        rw [h13] at hk
        have : keyValuePair [13] = some ([], [13]) := by decide
        rw [this] at hk
        simp only [Option.some.injEq, Prod.mk.injEq] at hk
        obtain ⟨_, rfl⟩ := hk
        simp [comment] at hcm
      rw [optNewlines_app ht _ hb2 hb13]
      simp only
      rw [keyValuePair_app ht hk]
      simp only [optComment, hcm, hcm']

def isGoodEndLf (e : Event) : Bool := isGoodEnd e || isComment e

theorem eofOk_lf : EofOk [10] isGoodEndLf := by
  intro a e1 hbi ha hl
  obtain ⟨e, hle, hg⟩ := hl
  simp only [isGoodEndLf, Bool.or_eq_true] at hg
  rcases hg with hg | hc
  · exact eofOk_goodEnd (Or.inl rfl) a e1 hbi ha ⟨e, hle, hg⟩
  · exact Or.inl (bodyIter_eof_comment hbi ⟨e, hle, hc⟩)

theorem isGoodEndLf_toReal (e : Event) : isGoodEndLf e.toReal = isGoodEndLf e := by
  cases e <;> rfl

/-- the file read back from the text with the final newline appended, parametric -/
theorem fileFromBytes_app_eqG {t : Bytes} (ht : NL t) {G : Event → Bool} (hG : EofOk t G)
    (hGr : ∀ e : Event, G e.toReal = G e) {bs : Bytes} {f : File} (h : fileFromBytes bs = some f)
    (hb : noBomHead bs = true) (hq : Q bs) (hsec : f.sections ≠ []) (hl : LastOkG G f.events) :
    fileFromBytes (bs ++ t) = some (fileOfEvents (f.events ++ [.newline t])) := by
  have hhd : ∃ e ∈ f.events, isHeaderEv e = true := by
    cases hs : f.sections with
    | nil => exact absurd hs hsec
    | cons s ss => exact ⟨.header s.header, by simp [File.events, hs], rfl⟩
  unfold fileFromBytes parseEvents at h ⊢
  simp only [Option.map_eq_some_iff] at h
  obtain ⟨evs, ⟨revs, hr, rfl⟩, rfl⟩ := h
  rw [fileOfEvents_events] at hl hhd ⊢
  have hl' : LastOkG G revs := by
    obtain ⟨e, hle, hv⟩ := hl
    rw [List.getLast?_map] at hle
    cases hg : revs.getLast? with
    | none => rw [hg] at hle; simp at hle
    | some e0 =>
      rw [hg] at hle
      simp only [Option.map_some, Option.some.injEq] at hle
      subst hle
      exact ⟨e0, hg, by rw [← hGr, ← isHeaderEv_toReal]; exact hv⟩
  have hh' : ∃ e ∈ revs, isHeaderEv e = true := by
    obtain ⟨e, hmem, hv⟩ := hhd
    simp only [List.mem_map] at hmem
    obtain ⟨e0, h0, rfl⟩ := hmem
    exact ⟨e0, h0, by rw [← isHeaderEv_toReal]; exact hv⟩
  rw [parseRaw_appG ht hG hr hb hq hh' hl']
  simp [Event.toReal]

end GixModel.C26
