import GixModel.Model.C06
/-
C06 — helper lemmas for the panic-freedom theorems of C06's own models (Model/C06.lean):
loose header, tree entries, EWAH bitmaps, pack variable-length integers.
-/
namespace GixModel.C06
open GixModel

/-! ### loose header -/

theorem findByte_lt (c : UInt8) : ∀ (l : Bytes) (k : Nat), findByte c l = some k → k < l.length
  | [], k, h => by simp [findByte] at h
  | b :: bs, k, h => by
    unfold findByte at h
    split at h
    · cases h; simp
    · cases hr : findByte c bs with
      | none => simp [hr] at h
      | some j =>
        simp [hr] at h; subst h
        have := findByte_lt c bs j hr
        simp; omega

theorem findByte_get (c : UInt8) : ∀ (l : Bytes) (k : Nat), findByte c l = some k → l[k]? = some c
  | [], k, h => by simp [findByte] at h
  | b :: bs, k, h => by
    unfold findByte at h
    split at h
    · rename_i hb; cases h; simp [hb]
    · cases hr : findByte c bs with
      | none => simp [hr] at h
      | some j =>
        simp [hr] at h; subst h
        simpa using findByte_get c bs j hr

theorem kind_no_nul (s : Bytes) (k : Kind) (h : kindFromBytes s = some k) : (0 : UInt8) ∉ s := by
  unfold kindFromBytes at h
  split at h
  · rename_i hs; subst hs; decide
  · split at h
    · rename_i hs; subst hs; decide
    · split at h
      · rename_i hs; subst hs; decide
      · split at h
        · rename_i hs; subst hs; decide
        · simp at h

theorem looseHeader_total (input : Bytes) : looseHeader input ≠ .panic ∧ looseHeader input ≠ .hang := by
  unfold looseHeader
  cases hk : findByte 32 input with
  | none => simp
  | some k =>
    have hklt := findByte_lt _ _ _ hk
    simp only [sliceTo, if_pos (Nat.le_of_lt hklt)]
    cases hkind : kindFromBytes (input.take k) with
    | none => simp
    | some kind =>
      cases hz : findByte 0 input with
      | none => simp
      | some z =>
        have hzlt := findByte_lt _ _ _ hz
        have hzget := findByte_get _ _ _ hz
        have hkget := findByte_get _ _ _ hk
        have hnn := kind_no_nul _ _ hkind
        have hkz : k + 1 ≤ z := by
          rcases Nat.lt_or_ge z (k + 1) with hlt | hge
          · exfalso
            rcases Nat.lt_or_ge z k with h1 | h2
            · apply hnn
              have : (input.take k)[z]? = some 0 := by
                rw [List.getElem?_take_of_lt h1]; exact hzget
              exact List.mem_of_getElem? this
            · have : z = k := by omega
              subst this
              rw [hzget] at hkget
              simp at hkget
          · exact hge
        have hcond : k + 1 ≤ z ∧ z ≤ input.length := ⟨hkz, Nat.le_of_lt hzlt⟩
        simp only [slice, if_pos hcond]
        cases toSignedU64 (List.drop (k + 1) (List.take z input)) <;> simp

/-! ### tree entries -/

/-- the mode loop never overflows its `u32`, and reports a position that only grows -/
theorem modeLoop_total : ∀ (bs : Bytes) (mode pos : Nat),
    modeLoop mode pos bs ≠ .panic ∧ modeLoop mode pos bs ≠ .hang ∧
    ∀ m p, modeLoop mode pos bs = .ok (m, p) → pos ≤ p
  | [], mode, pos => by simp [modeLoop]
  | b :: bs, mode, pos => by
    unfold modeLoop
    split
    · simp
    · split
      · simp
      · rename_i h1 h2
        have hb : 48 ≤ b.toNat ∧ b.toNat ≤ 55 := by
          have h2' : ¬ (b < 48) ∧ ¬ (b > 55) := by
            constructor
            · intro h; exact h2 (Or.inl h)
            · intro h; exact h2 (Or.inr h)
          have a := h2'.1
          have c := h2'.2
          rw [UInt8.lt_iff_toNat_lt] at a
          rw [GT.gt, UInt8.lt_iff_toNat_lt] at c
          simp at a c
          omega
        have hno : ¬ (mode * 8 % u32Mod + (b.toNat - 48) ≥ u32Mod) := by
          unfold u32Mod; omega
        simp only [if_neg hno]
        have ih := modeLoop_total bs (mode * 8 % u32Mod + (b.toNat - 48)) (pos + 1)
        refine ⟨ih.1, ih.2.1, ?_⟩
        intro m p hmp
        have := ih.2.2 m p hmp
        omega

theorem modeFromDecimal_total (i : Bytes) :
    modeFromDecimal i ≠ .panic ∧ modeFromDecimal i ≠ .hang ∧
    ∀ m rest, modeFromDecimal i = .ok (m, rest) → rest.length < i.length := by
  unfold modeFromDecimal
  have h := modeLoop_total i 0 1
  cases hm : modeLoop 0 1 i with
  | err => simp
  | panic => exact absurd hm h.1
  | hang => exact absurd hm h.2.1
  | ok v =>
    obtain ⟨mode, sp⟩ := v
    have hpos := h.2.2 mode sp hm
    simp only
    split
    · simp
    · rename_i hlen
      have hle : sp ≤ i.length := by omega
      simp only [splitAt, if_pos hle]
      refine ⟨by simp, by simp, ?_⟩
      intro m rest hr
      simp at hr
      rw [← hr.2]
      simp
      omega

theorem fastEntry_total (i : Bytes) :
    fastEntry i ≠ .panic ∧ fastEntry i ≠ .hang ∧
    ∀ rest e, fastEntry i = .ok (rest, e) → rest.length < i.length := by
  unfold fastEntry
  have h := modeFromDecimal_total i
  cases hm : modeFromDecimal i with
  | err => simp
  | panic => exact absurd hm h.1
  | hang => exact absurd hm h.2.1
  | ok v =>
    obtain ⟨mode, i1⟩ := v
    have hlen := h.2.2 mode i1 hm
    simp only
    split
    · simp
    · cases hn : findByte 0 i1 with
      | none => simp
      | some nul =>
        have hnl := findByte_lt _ _ _ hn
        simp only [splitAt, if_pos (Nat.le_of_lt hnl)]
        have h1 : 1 ≤ (List.drop nul i1).length := by simp; omega
        simp only [sliceFrom, if_pos h1]
        split
        · simp
        · rename_i h20
          have h20' : 20 ≤ (List.drop 1 (List.drop nul i1)).length := by omega
          simp only [if_pos h20']
          have htake : (List.take 20 (List.drop 1 (List.drop nul i1))).length = 20 := by
            rw [List.length_take]; omega
          simp only [htake]
          refine ⟨by simp, by simp, ?_⟩
          intro rest e hr
          simp at hr
          rw [← hr.1]
          simp at h20' ⊢
          omega

theorem treeLoop_total : ∀ (fuel : Nat) (i : Bytes), i.length < fuel →
    treeLoop fuel i ≠ .panic ∧ treeLoop fuel i ≠ .hang
  | 0, i, h => by omega
  | fuel + 1, i, h => by
    unfold treeLoop
    split
    · simp
    · have hf := fastEntry_total i
      cases he : fastEntry i with
      | err => simp
      | panic => exact absurd he hf.1
      | hang => exact absurd he hf.2.1
      | ok v =>
        obtain ⟨rest, e⟩ := v
        have hl := hf.2.2 rest e he
        have ih := treeLoop_total fuel rest (by omega)
        simp only
        cases hr : treeLoop fuel rest with
        | ok es => simp
        | err => simp
        | panic => exact absurd hr ih.1
        | hang => exact absurd hr ih.2

theorem treeDecode_total (i : Bytes) : treeDecode i ≠ .panic ∧ treeDecode i ≠ .hang :=
  treeLoop_total (i.length + 1) i (Nat.lt_succ_self _)

/-! ### loose objects -/

theorem looseHeader_offset (input : Bytes) (k : Kind) (size off : Nat)
    (h : looseHeader input = .ok (k, size, off)) : off ≤ input.length := by
  unfold looseHeader at h
  split at h
  · simp at h
  · split at h
    · simp at h
    · split at h
      · simp at h
      · split at h
        · simp at h
        · rename_i sizeEnd hz
          have hlt := findByte_lt _ _ _ hz
          split at h
          · simp at h
          · split at h
            · simp at h
            · simp at h
              omega

theorem fromLoose_total (data : Bytes) : fromLoose data ≠ .panic ∧ fromLoose data ≠ .hang := by
  unfold fromLoose
  have hh := looseHeader_total data
  cases hl : looseHeader data with
  | err => simp
  | panic => exact absurd hl hh.1
  | hang => exact absurd hl hh.2
  | ok v =>
    obtain ⟨kind, size, off⟩ := v
    have hoff := looseHeader_offset data kind size off hl
    simp only [sliceFrom, if_pos hoff]
    split
    · simp
    · cases kind with
      | blob => simp
      | commit => simp only; split <;> simp
      | tag => simp only; split <;> simp
      | tree =>
        simp only
        have ht := treeDecode_total (List.take size (List.drop off data))
        cases hr : treeDecode (List.take size (List.drop off data)) with
        | ok _ => simp
        | err => simp
        | panic => exact absurd hr ht.1
        | hang => exact absurd hr ht.2

/-! ### EWAH: decode -/

theorem be_foldl_lt : ∀ (bs : Bytes) (acc : Nat),
    bs.foldl (fun a b => a * 256 + b.toNat) acc < (acc + 1) * 256 ^ bs.length
  | [], acc => by simp
  | b :: bs, acc => by
    simp only [List.foldl_cons, List.length_cons]
    have ih := be_foldl_lt bs (acc * 256 + b.toNat)
    have hb : b.toNat < 256 := b.toNat_lt
    have : (acc * 256 + b.toNat + 1) * 256 ^ bs.length ≤ (acc + 1) * 256 ^ (bs.length + 1) := by
      rw [Nat.pow_succ]
      have : acc * 256 + b.toNat + 1 ≤ (acc + 1) * 256 := by omega
      calc (acc * 256 + b.toNat + 1) * 256 ^ bs.length
          ≤ ((acc + 1) * 256) * 256 ^ bs.length := Nat.mul_le_mul_right _ this
        _ = (acc + 1) * (256 ^ bs.length * 256) := by
            rw [Nat.mul_assoc, Nat.mul_comm 256 (256 ^ bs.length)]
    omega

theorem be_lt (bs : Bytes) : be bs < 256 ^ bs.length := by
  have := be_foldl_lt bs 0
  simpa [be] using this

theorem readU32_total (d : Bytes) :
    readU32 d ≠ .panic ∧ readU32 d ≠ .hang ∧ ∀ v rest, readU32 d = .ok (v, rest) → v < 4294967296 ∧ rest = d.drop 4 := by
  unfold readU32
  split
  · simp
  · rename_i h
    have h4 : 4 ≤ d.length := by omega
    simp only [splitAt, if_pos h4]
    have ht : (List.take 4 d).length = 4 := by rw [List.length_take]; omega
    simp only [ht]
    refine ⟨by simp, by simp, ?_⟩
    intro v rest hv
    simp at hv
    refine ⟨?_, hv.2.symm⟩
    rw [← hv.1]
    have := be_lt (List.take 4 d)
    rw [ht] at this
    simpa using this

theorem readWords_total : ∀ (n : Nat) (bits : Bytes), n * 8 ≤ bits.length →
    readWords n bits ≠ .panic ∧ readWords n bits ≠ .hang
  | 0, bits, _ => by simp [readWords]
  | n + 1, bits, h => by
    unfold readWords
    have h8 : 8 ≤ bits.length := by omega
    simp only [splitAt, if_pos h8]
    have ht : (List.take 8 bits).length = 8 := by rw [List.length_take]; omega
    simp only [ht]
    have ih := readWords_total n (List.drop 8 bits) (by simp; omega)
    cases hr : readWords n (List.drop 8 bits) with
    | ok ws => simp
    | err => simp
    | panic => exact absurd hr ih.1
    | hang => exact absurd hr ih.2

theorem ewahDecode_total (data : Bytes) : ewahDecode data ≠ .panic ∧ ewahDecode data ≠ .hang := by
  unfold ewahDecode
  have h1 := readU32_total data
  cases hr1 : readU32 data with
  | err => simp
  | panic => exact absurd hr1 h1.1
  | hang => exact absurd hr1 h1.2.1
  | ok v1 =>
    obtain ⟨numBits, d1⟩ := v1
    simp only
    have h2 := readU32_total d1
    cases hr2 : readU32 d1 with
    | err => simp
    | panic => exact absurd hr2 h2.1
    | hang => exact absurd hr2 h2.2.1
    | ok v2 =>
      obtain ⟨len, d2⟩ := v2
      have hlen := (h2.2.2 len d2 hr2).1
      simp only
      have hno : ¬ (len * 8 ≥ usizeMod) := by unfold usizeMod; omega
      simp only [if_neg hno]
      split
      · simp
      · rename_i hl
        have hle : len * 8 ≤ d2.length := by omega
        simp only [splitAt, if_pos hle]
        have hw := readWords_total len (List.take (len * 8) d2) (by rw [List.length_take]; omega)
        cases hrw : readWords len (List.take (len * 8) d2) with
        | err => simp
        | panic => exact absurd hrw hw.1
        | hang => exact absurd hrw hw.2
        | ok ws =>
          simp only
          have h3 := readU32_total (List.drop (len * 8) d2)
          cases hr3 : readU32 (List.drop (len * 8) d2) with
          | err => simp
          | panic => exact absurd hr3 h3.1
          | hang => exact absurd hr3 h3.2.1
          | ok v3 => simp

/-! ### EWAH: iteration -/

/-- bound used for the index invariant: a run-length word moves the index by less than `K = 2^38` -/
local macro "K" : term => `((274877906944 : Nat))

theorem literalBits_total (limit w : Nat) : ∀ (n k index : Nat), index + n < usizeMod →
    literalBits limit w n k index ≠ .panic ∧ literalBits limit w n k index ≠ .hang ∧
    literalBits limit w n k index ≠ .err ∧
    ∀ i', literalBits limit w n k index = .ok (some i') → i' = index + n
  | 0, k, index, _ => by simp [literalBits]
  | n + 1, k, index, h => by
    unfold literalBits
    split
    · simp
    · have hno : ¬ (index + 1 ≥ usizeMod) := by omega
      simp only [if_neg hno]
      have ih := literalBits_total limit w n (k + 1) (index + 1) (by omega)
      refine ⟨ih.1, ih.2.1, ih.2.2.1, ?_⟩
      intro i' hi
      have := ih.2.2.2 i' hi
      omega

theorem literals_total (limit : Nat) : ∀ (n : Nat) (ws : List Nat) (index : Nat),
    index + ws.length * K < usizeMod →
    literals limit n ws index ≠ .panic ∧ literals limit n ws index ≠ .hang ∧
    ∀ rest i', literals limit n ws index = .ok (some (rest, i')) →
      rest.length ≤ ws.length ∧ i' + rest.length * K ≤ index + ws.length * K
  | 0, ws, index, _ => by simp [literals]
  | n + 1, [], index, _ => by simp [literals]
  | n + 1, w :: ws, index, h => by
    unfold literals
    simp only [List.length_cons] at h
    have hb := literalBits_total limit w 64 0 index (by omega)
    cases hl : literalBits limit w 64 0 index with
    | err => exact absurd hl hb.2.2.1
    | panic => exact absurd hl hb.1
    | hang => exact absurd hl hb.2.1
    | ok o =>
      cases o with
      | none => simp
      | some i1 =>
        have hi1 := hb.2.2.2 i1 hl
        simp only
        have ih := literals_total limit n ws i1 (by omega)
        refine ⟨ih.1, ih.2.1, ?_⟩
        intro rest i' hr
        have := ih.2.2 rest i' hr
        simp only [List.length_cons]
        omega

theorem runOnes_total (limit len index : Nat) (h : index + len < usizeMod) :
    runOnes limit len index ≠ .panic ∧ runOnes limit len index ≠ .hang ∧
    ∀ i', runOnes limit len index = .ok (some i') → i' = index + len := by
  unfold runOnes
  split
  · rename_i h0; subst h0; simp
  · split
    · simp
    · have hno : ¬ (index + len ≥ usizeMod) := by omega
      simp only [if_neg hno]
      simp

theorem bitsLoop_total (limit : Nat) : ∀ (fuel : Nat) (ws : List Nat) (index : Nat),
    ws.length < fuel → index + ws.length * K < usizeMod →
    bitsLoop limit fuel ws index ≠ .panic ∧ bitsLoop limit fuel ws index ≠ .hang
  | 0, ws, index, hf, _ => by omega
  | fuel + 1, [], index, _, _ => by simp [bitsLoop]
  | fuel + 1, w :: ws, index, hf, h => by
    unfold bitsLoop
    simp only [List.length_cons] at h hf
    have hrun : w / 2 % 4294967296 * 64 < K := by omega
    -- the index after the run
    have hafter : ∀ (r : Res (Option Nat)),
        r = (if w % 2 = 1 then runOnes limit (w / 2 % 4294967296 * 64) index
             else if index + w / 2 % 4294967296 * 64 ≥ usizeMod then Res.panic
             else Res.ok (some (index + w / 2 % 4294967296 * 64))) →
        r ≠ .panic ∧ r ≠ .hang ∧ ∀ i1, r = .ok (some i1) → i1 = index + w / 2 % 4294967296 * 64 := by
      intro r hr
      subst hr
      split
      · exact runOnes_total limit _ index (by omega)
      · have hno : ¬ (index + w / 2 % 4294967296 * 64 ≥ usizeMod) := by omega
        simp only [if_neg hno]
        simp
    simp only
    generalize hr : (if w % 2 = 1 then runOnes limit (w / 2 % 4294967296 * 64) index
             else if index + w / 2 % 4294967296 * 64 ≥ usizeMod then Res.panic
             else Res.ok (some (index + w / 2 % 4294967296 * 64))) = r
    have ha := hafter r hr.symm
    cases r with
    | err => simp
    | panic => exact absurd rfl ha.1
    | hang => exact absurd rfl ha.2.1
    | ok o =>
      cases o with
      | none => simp
      | some i1 =>
        have hi1 := ha.2.2 i1 rfl
        simp only
        have hl := literals_total limit (w / 8589934592) ws i1 (by omega)
        cases hlit : literals limit (w / 8589934592) ws i1 with
        | err => simp
        | panic => exact absurd hlit hl.1
        | hang => exact absurd hlit hl.2.1
        | ok o2 =>
          cases o2 with
          | none => simp
          | some p =>
            obtain ⟨rest, i2⟩ := p
            have hp := hl.2.2 rest i2 hlit
            simp only
            exact bitsLoop_total limit fuel rest i2 (by omega) (by omega)

theorem forEachSetBit_total (e : Ewah) (limit : Nat) (h : e.words.length < 67108864) :
    forEachSetBit e limit ≠ .panic ∧ forEachSetBit e limit ≠ .hang := by
  unfold forEachSetBit
  apply bitsLoop_total limit _ _ 0 (Nat.lt_succ_self _)
  unfold usizeMod
  omega

/-! ### EWAH: decode + iteration -/

theorem readWords_length : ∀ (n : Nat) (bits : Bytes) (ws : List Nat), readWords n bits = .ok ws → ws.length = n
  | 0, bits, ws, h => by simp [readWords] at h; subst h; rfl
  | n + 1, bits, ws, h => by
    unfold readWords at h
    split at h
    · simp at h
    · split at h
      · simp at h
      · rename_i w rest _ _
        cases hr : readWords n rest with
        | ok ws' =>
          rw [hr] at h
          simp at h
          subst h
          simp [readWords_length n rest ws' hr]
        | err => rw [hr] at h; simp at h
        | panic => rw [hr] at h; simp at h
        | hang => rw [hr] at h; simp at h

theorem ewahDecode_words (data : Bytes) (e : Ewah) (rest : Bytes) (h : ewahDecode data = .ok (e, rest)) :
    e.words.length * 8 ≤ data.length := by
  unfold ewahDecode at h
  have h1 := readU32_total data
  cases hr1 : readU32 data with
  | err => rw [hr1] at h; simp at h
  | panic => rw [hr1] at h; simp at h
  | hang => rw [hr1] at h; simp at h
  | ok v1 =>
    obtain ⟨numBits, d1⟩ := v1
    have hd1 := (h1.2.2 numBits d1 hr1).2
    rw [hr1] at h
    simp only at h
    have h2 := readU32_total d1
    cases hr2 : readU32 d1 with
    | err => rw [hr2] at h; simp at h
    | panic => rw [hr2] at h; simp at h
    | hang => rw [hr2] at h; simp at h
    | ok v2 =>
      obtain ⟨len, d2⟩ := v2
      have hd2 := (h2.2.2 len d2 hr2).2
      rw [hr2] at h
      simp only at h
      split at h
      · simp at h
      · split at h
        · simp at h
        · rename_i hl
          split at h
          · simp at h
          · rename_i bits d3 hs
            cases hrw : readWords len bits with
            | err => rw [hrw] at h; simp at h
            | panic => rw [hrw] at h; simp at h
            | hang => rw [hrw] at h; simp at h
            | ok ws =>
              rw [hrw] at h
              simp only at h
              cases hr3 : readU32 d3 with
              | err => rw [hr3] at h; simp at h
              | panic => rw [hr3] at h; simp at h
              | hang => rw [hr3] at h; simp at h
              | ok v3 =>
                rw [hr3] at h
                simp at h
                have hw := readWords_length len bits ws hrw
                rw [← h.1]
                simp only
                rw [hw]
                have : d2.length ≤ data.length := by
                  rw [hd2, hd1]; simp
                omega

/-- decode + iteration with a stopping consumer: no panic, no hang, for every input shorter than
2^29 bytes (the bound comes from the `usize` bit index: 2^26 run-length words can announce 2^64 bits) -/
theorem ewahRun_total (data : Bytes) (h : data.length < 536870912) :
    ewahRun data ≠ .panic ∧ ewahRun data ≠ .hang := by
  unfold ewahRun
  have hd := ewahDecode_total data
  cases hr : ewahDecode data with
  | err => simp
  | panic => exact absurd hr hd.1
  | hang => exact absurd hr hd.2
  | ok v =>
    obtain ⟨e, rest⟩ := v
    have hw := ewahDecode_words data e rest hr
    have hf := forEachSetBit_total e (min e.numBits 65536) (by omega)
    simp only
    cases hb : forEachSetBit e (min e.numBits 65536) with
    | ok _ => simp
    | err => simp
    | panic => exact absurd hb hf.1
    | hang => exact absurd hb hf.2

/-! ### pack variable-length integers -/

/-- a byte without continuation bit occurs among the first `n` bytes -/
def termWithin : Nat → Bytes → Bool
  | 0, _ => false
  | _ + 1, [] => false
  | n + 1, c :: d => c.toNat / 128 = 0 || termWithin n d

theorem pow_step (i : Nat) : 2 ^ (7 * (i + 1) + 1) = 2 ^ (7 * i + 1) * 128 := by
  rw [show 7 * (i + 1) + 1 = (7 * i + 1) + 7 by omega, Nat.pow_add]

theorem leb64Loop_ok : ∀ (d : Bytes) (fuel value i : Nat), d.length < fuel → 1 ≤ i →
    termWithin (10 - i) d = true → value + 3 ≤ 2 ^ (7 * i + 1) →
    ∃ v n, leb64Loop fuel d value i = .ok (v, n) ∧ n ≤ 10
  | [], fuel, value, i, _, _, ht, _ => by
    cases h : 10 - i <;> simp [termWithin, h] at ht
  | c :: d, 0, value, i, hf, _, _, _ => by simp at hf
  | c :: d, fuel + 1, value, i, hf, hi, ht, hv => by
    have hi9 : i ≤ 9 := by
      rcases Nat.lt_or_ge 9 i with h | h
      · have : 10 - i = 0 := by omega
        rw [this] at ht; simp [termWithin] at ht
      · exact h
    have hpow : 2 ^ (7 * i + 1) ≤ 2 ^ 64 := Nat.pow_le_pow_right (by decide) (by omega)
    have h64 : (2 : Nat) ^ 64 = 18446744073709551616 := by decide
    unfold leb64Loop
    have hu : u64Max = 18446744073709551615 := rfl
    have hk : (value + 1) * 128 % usizeMod = (value + 1) * 128 % 18446744073709551616 := rfl
    have h1 : ¬ (i + 1 > 10) := by omega
    have h2 : ¬ (value + 1 > u64Max) := by omega
    have h3 : ¬ ((value + 1) * 128 % usizeMod + c.toNat % 128 > u64Max) := by omega
    simp only [if_neg h1, if_neg h2, if_neg h3]
    split
    · rename_i hcont
      have hnt : ¬ (c.toNat / 128 = 0) := by omega
      have ht' : termWithin (10 - (i + 1)) d = true := by
        have : 10 - i = (10 - (i + 1)) + 1 := by omega
        rw [this] at ht
        simp only [termWithin, Bool.or_eq_true, decide_eq_true_eq] at ht
        rcases ht with h | h
        · exact absurd h hnt
        · exact h
      have hv' : (value + 1) * 128 % usizeMod + c.toNat % 128 + 3 ≤ 2 ^ (7 * (i + 1) + 1) := by
        have hmod : (value + 1) * 128 % usizeMod ≤ (value + 1) * 128 := Nat.mod_le _ _
        rw [pow_step]; omega
      exact leb64Loop_ok d fuel _ (i + 1) (by simp at hf; omega) (by omega) ht' hv'
    · exact ⟨_, _, rfl, by omega⟩

/-- `leb64(d)` returns (no index panic, no assertion, no overflow) whenever a byte without
continuation bit occurs among the first 10 bytes — the precondition its callers owe -/
theorem leb64_ok (d : Bytes) (h : termWithin 10 d = true) : ∃ v n, leb64 d = .ok (v, n) ∧ n ≤ 10 := by
  cases d with
  | nil => simp [termWithin] at h
  | cons c d =>
    by_cases hcont : c.toNat / 128 = 1
    · simp only [leb64, if_pos hcont]
      have hnt : ¬ (c.toNat / 128 = 0) := by omega
      have ht' : termWithin (10 - 1) d = true := by
        simp only [termWithin, Bool.or_eq_true, decide_eq_true_eq] at h
        rcases h with h | h
        · exact absurd h hnt
        · exact h
      exact leb64Loop_ok d _ _ 1 (Nat.lt_succ_self _) (Nat.le_refl _) ht' (by
        have h127 : c.toNat % 128 ≤ 127 := by omega
        have h256 : (2 : Nat) ^ (7 * 1 + 1) = 256 := by decide
        omega)
    · simp only [leb64, if_neg hcont]
      exact ⟨_, _, rfl, by omega⟩

theorem deltaSizeLoop_total : ∀ (d : Bytes) (size j consumed : Nat),
    (termWithin (10 - j) d = true ∨ d.length ≤ 10 - j) →
    deltaSizeLoop d size (7 * j) consumed ≠ .panic ∧ deltaSizeLoop d size (7 * j) consumed ≠ .hang
  | [], size, j, consumed, _ => by simp [deltaSizeLoop]
  | cmd :: d, size, j, consumed, h => by
    have hj : j ≤ 9 := by
      rcases Nat.lt_or_ge 9 j with hlt | hge
      · have h0 : 10 - j = 0 := by omega
        rw [h0] at h
        simp [termWithin] at h
      · exact hge
    unfold deltaSizeLoop
    have h1 : ¬ (7 * j ≥ 64) := by omega
    simp only [if_neg h1]
    split
    · simp
    · rename_i hcont
      have := deltaSizeLoop_total d (size ||| cmd.toNat % 128 * 2 ^ (7 * j) % usizeMod) (j + 1) (consumed + 1) (by
        have hsplit : 10 - j = (10 - (j + 1)) + 1 := by omega
        rcases h with h | h
        · left
          rw [hsplit] at h
          simp only [termWithin, Bool.or_eq_true, decide_eq_true_eq] at h
          rcases h with h | h
          · exact absurd h hcont
          · exact h
        · right
          simp only [List.length_cons] at h
          omega)
      rw [show 7 * (j + 1) = 7 * j + 7 by omega] at this
      exact this

/-- `decode_header_size(d)` never panics (shift amount `< 64`) when the size ends within 10 bytes or
the slice has at most 10 bytes; it cannot index out of bounds at all -/
theorem deltaHeaderSize_total (d : Bytes) (h : termWithin 10 d = true ∨ d.length ≤ 10) :
    deltaHeaderSize d ≠ .panic ∧ deltaHeaderSize d ≠ .hang := by
  unfold deltaHeaderSize
  exact deltaSizeLoop_total d 0 0 0 (by simpa using h)

end GixModel.C06
