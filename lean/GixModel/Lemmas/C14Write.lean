import GixModel.Lemmas.C14Bytes
import GixModel.Lemmas.C14Graph
/-
C14 helper lemmas, part 6: `File.new` on the file git writes for a layer gives back the layer's
chunks (byte-level round trip).
-/
namespace GixModel.C14
open GixModel
open GixModel.C09 (be32 be64 readU32 readU64 slice slice_peel slice_in be64_length)

def totalLen (cs : List (Bytes × Bytes)) : Nat := ((cs.map (·.2)).flatten).length

theorem totalLen_cons (k p : Bytes) (rest : List (Bytes × Bytes)) : totalLen ((k, p) :: rest) = p.length + totalLen rest := by
  simp [totalLen]

/-- the entries of `layout` without the terminating one -/
def layoutInit : List (Bytes × Bytes) → Nat → List (Bytes × Nat)
  | [], _ => []
  | (k, p) :: rest, pos => (k, pos) :: layoutInit rest (pos + p.length)

theorem layout_eq : ∀ (cs : List (Bytes × Bytes)) (pos : Nat),
    layout cs pos = layoutInit cs pos ++ [([0, 0, 0, 0], pos + totalLen cs)] := by
  intro cs
  induction cs with
  | nil => intro pos; simp [layout, layoutInit, totalLen]
  | cons c rest ih =>
    intro pos
    obtain ⟨k, p⟩ := c
    simp only [layout, layoutInit, ih, totalLen_cons, List.cons_append]
    have e : pos + p.length + totalLen rest = pos + (p.length + totalLen rest) := by omega
    rw [e]

theorem layoutInit_length : ∀ (cs : List (Bytes × Bytes)) (pos : Nat), (layoutInit cs pos).length = cs.length := by
  intro cs; induction cs with
  | nil => intro _; rfl
  | cons c rest ih => intro pos; obtain ⟨k, p⟩ := c; simp [layoutInit, ih]

theorem layoutInit_mem : ∀ (cs : List (Bytes × Bytes)) (pos : Nat) (e : Bytes × Nat), e ∈ layoutInit cs pos →
    (∃ c ∈ cs, c.1 = e.1) ∧ pos ≤ e.2 ∧ e.2 ≤ pos + totalLen cs := by
  intro cs
  induction cs with
  | nil => intro pos e h; simp [layoutInit] at h
  | cons c rest ih =>
    intro pos e h
    obtain ⟨k, p⟩ := c
    simp only [layoutInit, List.mem_cons] at h
    rcases h with rfl | h
    · exact ⟨⟨(k, p), by simp, rfl⟩, Nat.le_refl _, by omega⟩
    · obtain ⟨⟨c, hc, hk⟩, h1, h2⟩ := ih _ e h
      rw [totalLen_cons]
      exact ⟨⟨c, by simp [hc], hk⟩, by omega, by omega⟩

theorem layout_sorted : ∀ (cs : List (Bytes × Bytes)) (pos : Nat),
    (layoutInit cs pos ++ [(([0, 0, 0, 0] : Bytes), pos + totalLen cs)]).Pairwise
      (fun (a b : Bytes × Nat) => a.2 ≤ b.2) := by
  intro cs
  induction cs with
  | nil => intro pos; simp [layoutInit]
  | cons c rest ih =>
    intro pos
    obtain ⟨k, p⟩ := c
    simp only [layoutInit, List.cons_append, totalLen_cons]
    refine List.pairwise_cons.mpr ⟨?_, ?_⟩
    · intro e he
      rcases List.mem_append.mp he with he | he
      · have := (layoutInit_mem rest _ e he).2.1; simp only []; omega
      · simp only [List.mem_singleton] at he; subst he; simp only []; omega
    · have := ih (pos + p.length)
      have e : pos + p.length + totalLen rest = pos + (p.length + totalLen rest) := by omega
      rw [e] at this; exact this

/-- chunk ids git can write: 4 bytes, not the terminator, pairwise different -/
structure KindsOk (cs : List (Bytes × Bytes)) : Prop where
  len4 : ∀ c ∈ cs, c.1.length = 4
  nonzero : ∀ c ∈ cs, c.1 ≠ [0, 0, 0, 0]
  distinct : cs.Pairwise (fun a b => a.1 ≠ b.1)

theorem layoutInit_distinct : ∀ (cs : List (Bytes × Bytes)) (pos : Nat), cs.Pairwise (fun a b => a.1 ≠ b.1) →
    (layoutInit cs pos).Pairwise (fun a b => a.1 ≠ b.1) := by
  intro cs
  induction cs with
  | nil => intro _ _; simp [layoutInit]
  | cons c rest ih =>
    intro pos h
    obtain ⟨k, p⟩ := c
    have h' := List.pairwise_cons.mp h
    simp only [layoutInit]
    refine List.pairwise_cons.mpr ⟨?_, ih _ h'.2⟩
    intro e he
    obtain ⟨⟨c, hc, hk⟩, _, _⟩ := layoutInit_mem rest _ e he
    rw [← hk]; exact h'.1 c hc

theorem tocBytes_length (es : List (Bytes × Nat)) (h : ∀ e ∈ es, e.1.length = 4) : (tocBytes es).length = 12 * es.length := by
  induction es with
  | nil => rfl
  | cons e rest ih =>
    rw [tocBytes_cons]
    simp only [List.length_append, be64_length, h e (by simp), ih (fun x hx => h x (by simp [hx])), List.length_cons]
    omega

/-- the table of contents of a written chunk file parses into the ranges that were laid out -/
theorem tocParse_write (hdr : Bytes) (cs : List (Bytes × Bytes)) (tr : Bytes) (hh : hdr.length = 8)
    (hk : KindsOk cs) (hne : cs ≠ [])
    (hsmall : (sWriteChunks hdr cs tr).length < 18446744073709551616) :
    tocParse (sWriteChunks hdr cs tr) 8 cs.length = some (.ok (chunksOf (layout cs (8 + 12 * (cs.length + 1))))) := by
  have hlay := layout_eq cs (8 + 12 * (cs.length + 1))
  have hinit4 : ∀ e ∈ layoutInit cs (8 + 12 * (cs.length + 1)), e.1.length = 4 := by
    intro e he
    obtain ⟨⟨c, hc, hkk⟩, _, _⟩ := layoutInit_mem cs _ e he
    rw [← hkk]; exact hk.len4 c hc
  have hall4 : ∀ e ∈ layout cs (8 + 12 * (cs.length + 1)), e.1.length = 4 := by
    intro e he
    rw [hlay] at he
    rcases List.mem_append.mp he with he | he
    · exact hinit4 e he
    · simp only [List.mem_singleton] at he; subst he; rfl
  have hlaylen : (layout cs (8 + 12 * (cs.length + 1))).length = cs.length + 1 := by
    rw [hlay]; simp [layoutInit_length]
  have htoclen : (tocBytes (layout cs (8 + 12 * (cs.length + 1)))).length = 12 * (cs.length + 1) := by
    rw [tocBytes_length _ hall4, hlaylen]
  have hdlen : (sWriteChunks hdr cs tr).length = 8 + 12 * (cs.length + 1) + totalLen cs + tr.length := by
    simp only [sWriteChunks, List.length_append, hh, htoclen, totalLen]; omega
  have hdrop : (sWriteChunks hdr cs tr).drop 8
      = tocBytes (layout cs (8 + 12 * (cs.length + 1))) ++ ((cs.map (·.2)).flatten ++ tr) := by
    simp only [sWriteChunks]; exact List.drop_left' hh
  have hn0 : ¬ cs.length = 0 := by
    intro h; exact hne (List.length_eq_zero_iff.mp h)
  have hentries : EntriesOk (sWriteChunks hdr cs tr).length [] (layoutInit cs (8 + 12 * (cs.length + 1)))
      ([0, 0, 0, 0], 8 + 12 * (cs.length + 1) + totalLen cs) :=
    { len4 := hinit4
      last4 := rfl
      nonzero := by
        intro e he
        obtain ⟨⟨c, hc, hkk⟩, _, _⟩ := layoutInit_mem cs _ e he
        rw [← hkk]; exact hk.nonzero c hc
      fresh := by intro e _ c hc; simp at hc
      distinct := layoutInit_distinct cs _ hk.distinct
      sorted := layout_sorted cs _
      inFile := by
        intro e he
        rcases List.mem_append.mp he with he | he
        · have := (layoutInit_mem cs _ e he).2.2; rw [hdlen]; omega
        · simp only [List.mem_singleton] at he; subst he; rw [hdlen]; simp only []; omega
      small := hsmall }
  have hloop := tocLoop_entries (sWriteChunks hdr cs tr).length (layoutInit cs (8 + 12 * (cs.length + 1)))
    ([0, 0, 0, 0], 8 + 12 * (cs.length + 1) + totalLen cs) [] ((cs.map (·.2)).flatten ++ tr) hentries
  rw [layoutInit_length, ← hlay, List.nil_append] at hloop
  unfold tocParse
  rw [if_neg hn0, if_neg (by rw [hdlen]; omega)]
  simp only [hdrop]
  rw [if_neg (by simp only [List.length_append, htoclen]; omega), hloop]
  simp only []
  have hs : slice (tocBytes [([0, 0, 0, 0], 8 + 12 * (cs.length + 1) + totalLen cs)] ++ ((cs.map (·.2)).flatten ++ tr)) 0 4
      = some [0, 0, 0, 0] := by
    rw [tocBytes_cons]
    simp only [List.append_assoc]
    rw [slice_in _ _ _ (by simp)]
    rfl
  rw [hs]
  simp

theorem layout_head_ofs : ∀ (cs : List (Bytes × Bytes)) (pos : Nat), ∃ k rest, layout cs pos = (k, pos) :: rest := by
  intro cs pos
  cases cs with
  | nil => exact ⟨_, _, rfl⟩
  | cons c rest => obtain ⟨k, p⟩ := c; exact ⟨_, _, rfl⟩

/-- every chunk range addresses exactly its payload -/
theorem chunks_payload : ∀ (cs : List (Bytes × Bytes)) (pre post : Bytes),
    (chunksOf (layout cs pre.length)).map
        (fun c => (c.kind, c.stop - c.start, chunkBytes (pre ++ ((cs.map (·.2)).flatten ++ post)) c))
      = cs.map (fun c => (c.1, c.2.length, some c.2)) := by
  intro cs
  induction cs with
  | nil => intro pre post; simp [layout, chunksOf]
  | cons c rest ih =>
    intro pre post
    obtain ⟨k, p⟩ := c
    obtain ⟨k2, rest2, hl2⟩ := layout_head_ofs rest (pre.length + p.length)
    have hih := ih (pre ++ p) post
    simp only [List.length_append] at hih
    have hdata : pre ++ ((((k, p) :: rest).map (·.2)).flatten ++ post) = (pre ++ p) ++ ((rest.map (·.2)).flatten ++ post) := by
      simp [List.append_assoc]
    have hchunks : chunksOf (layout ((k, p) :: rest) pre.length)
        = { kind := k, start := pre.length, stop := pre.length + p.length } :: chunksOf (layout rest (pre.length + p.length)) := by
      simp only [layout, hl2, chunksOf]
    rw [hchunks, hdata, List.map_cons, List.map_cons, hih]
    congr 1
    simp only [Prod.mk.injEq, true_and]
    refine ⟨by omega, ?_⟩
    have hb : pre.length ≤ pre.length + p.length ∧ pre.length + p.length ≤ (pre ++ p ++ ((rest.map (·.2)).flatten ++ post)).length := by
      simp only [List.length_append]; omega
    simp only [chunkBytes, hb, and_self, if_true, Option.some.injEq]
    have : pre.length + p.length - pre.length = p.length := by omega
    rw [this, List.append_assoc, List.drop_left, List.take_left]

end GixModel.C14
