import GixModel.Lemmas.C15Gix
/-
C15 — lemmas, part 3: the sanitizer. Invariant of the loop (`Inv`), every iteration returns
(`step_san`), what the final fix-ups receive (`Fin`) and that they produce a `Valid` name.
-/
namespace GixModel.C15
open GixModel Spec.C15


theorem suffix_cases {x : Bytes} (h : x <:+ rlock) :
    x = [] ∨ x = [46] ∨ x = [108, 46] ∨ x = [111, 108, 46] ∨ x = [99, 111, 108, 46] ∨ x = rlock := by
  simp only [rlock, Spec.C15.rlock, List.suffix_cons_iff, List.suffix_nil] at h
  rcases h with h | h | h | h | h | h <;> simp [h, rlock, Spec.C15.rlock]

theorem stripLocks_eq (r : Bytes) :
    stripLocks r = if rlock.isPrefixOf r then stripLocks (r.drop 5) else r := by
  fun_cases stripLocks r
  · simp [rlock, Spec.C15.rlock]
  · rename_i h
    have : rlock.isPrefixOf r = false := by
      cases hp : rlock.isPrefixOf r
      · rfl
      · rw [List.isPrefixOf_iff_prefix] at hp
        obtain ⟨s, hs⟩ := hp
        exact absurd hs.symm (by simpa [rlock, Spec.C15.rlock] using h s)
    simp [this]

theorem stripLocks_id {r : Bytes} (h : rlock.isPrefixOf r = false) : stripLocks r = r := by
  rw [stripLocks_eq, h]; simp

theorem stripLocks_suffix (r : Bytes) : stripLocks r <:+ r := by
  fun_induction stripLocks r with
  | case1 rest ih =>
    exact ih.trans (List.suffix_append [107, 99, 111, 108, 46] rest)
  | case2 r h => exact List.suffix_refl _

theorem stripLocks_noLock (r : Bytes) : rlock.isPrefixOf (stripLocks r) = false := by
  fun_induction stripLocks r with
  | case1 rest ih => exact ih
  | case2 r h =>
    cases hp : rlock.isPrefixOf r
    · rfl
    · rw [List.isPrefixOf_iff_prefix] at hp
      obtain ⟨s, hs⟩ := hp
      exact absurd hs.symm (by simpa [rlock, Spec.C15.rlock] using h s)

theorem PreOk_suffix {p0 : UInt8} {x r : Bytes} (hs : x <:+ r) (h : PreOk p0 r = true) : PreOk p0 x = true := by
  obtain ⟨y, rfl⟩ := hs
  exact PreOk_append y x h

theorem pairOk_dot (h : UInt8) : pairOk h 46 = (!(h == 46) && !(h == 47)) := by
  simp [pairOk]

theorem stripLocks_head {r : Bytes} (hp : PreOk 0 r = true) (hh : r.headD 0 ≠ 47) :
    (stripLocks r).headD 0 ≠ 47 := by
  fun_induction stripLocks r with
  | case1 rest ih =>
    apply ih
    · exact PreOk_suffix (List.suffix_append [107, 99, 111, 108, 46] rest) hp
    · have h1 : PreOk 0 (46 :: rest) = true :=
        PreOk_suffix (x := 46 :: rest) ⟨[107, 99, 111, 108], rfl⟩ hp
      rw [PreOk_cons, pairOk_dot] at h1
      simp only [Bool.and_eq_true, Bool.not_eq_eq_eq_not, Bool.not_true, beq_eq_false_iff_ne] at h1
      exact h1.2.1.2.2
  | case2 r h => exact hh

/-- whatever beginning of ".lock" the sanitised buffer ends with, the consumed input ends with too -/
def LockLink (out pre : Bytes) : Prop :=
  ∀ x : Bytes, x ≠ [] → x <:+ rlock → x <+: out → x <+: pre

/-- invariant of the loop when sanitizing (`out` and `pre` reversed) -/
structure Inv (pre : Bytes) (ce : Nat) (out : Bytes) : Prop where
  ok : PreOk 0 out = true
  head : out.headD 0 = pre.headD 0 ∨ out.headD 0 = 45
  link : LockLink out pre
  ce : CE pre ce
  len : out.length ≤ pre.length

/-- what the loop hands to the final fix-ups -/
def Fin (rout : Bytes) : Prop :=
  PreOk 0 rout = true ∧ (rlock.isPrefixOf rout = false ∨ rout = rlock)

theorem Inv_nil : Inv [] 0 [] :=
  ⟨rfl, Or.inl rfl, fun _ _ _ h => h, CE_nil, Nat.le_refl _⟩

theorem head_mem_of_suffix {x : Bytes} {y : UInt8} {x' : Bytes} (hx : x = y :: x') (hs : x <:+ rlock) :
    y = 46 ∨ y = 108 ∨ y = 111 ∨ y = 99 ∨ y = 107 := by
  subst hx
  have : y ∈ rlock := hs.subset (List.mem_cons_self ..)
  simp [rlock, Spec.C15.rlock] at this
  rcases this with h | h | h | h | h <;> simp [h]

theorem LockLink_dash (out pre : Bytes) (b : UInt8) : LockLink (45 :: out) (b :: pre) := by
  intro x hx hs hp
  cases x with
  | nil => exact absurd rfl hx
  | cons y x' =>
    have hy := head_mem_of_suffix rfl hs
    have : y = 45 := by
      have := List.cons_prefix_cons.1 hp
      exact this.1
    subst this
    rcases hy with h | h | h | h | h <;> cases h

theorem LockLink_push {out pre : Bytes} (h : LockLink out pre) (b : UInt8) : LockLink (b :: out) (b :: pre) := by
  intro x hx hs hp
  cases x with
  | nil => exact absurd rfl hx
  | cons y x' =>
    obtain ⟨hy, hp'⟩ := List.cons_prefix_cons.1 hp
    subst hy
    apply List.cons_prefix_cons.2
    refine ⟨rfl, ?_⟩
    by_cases hx' : x' = []
    · subst hx'; exact List.nil_prefix
    · exact h x' hx' ((List.suffix_cons y x').trans hs) hp'

/-- nothing that starts like ".lock" reversed starts with `c` -/
theorem LockLink_other (out pre : Bytes) (c b : UInt8)
    (hc : c ≠ 46 ∧ c ≠ 108 ∧ c ≠ 111 ∧ c ≠ 99 ∧ c ≠ 107) : LockLink (c :: out) (b :: pre) := by
  intro x hx hs hp
  cases x with
  | nil => exact absurd rfl hx
  | cons y x' =>
    have hy := head_mem_of_suffix rfl hs
    have : y = c := (List.cons_prefix_cons.1 hp).1
    subst this
    obtain ⟨h1, h2, h3, h4, h5⟩ := hc
    rcases hy with h | h | h | h | h <;> contradiction

/-- `out` unchanged while the input repeats its last byte `b` ('.' or '/') -/
theorem LockLink_skip {out pre : Bytes} (h : LockLink out pre) {b : UInt8} (hb : b = 46 ∨ b = 47)
    (hp : pre.headD 0 = b) : LockLink out (b :: pre) := by
  intro x hx hs hpx
  have hpre := h x hx hs hpx
  rcases suffix_cases hs with e | e | e | e | e | e
  · exact absurd e hx
  · subst e
    rcases hb with rfl | rfl
    · exact List.cons_prefix_cons.2 ⟨rfl, List.nil_prefix⟩
    · cases pre with
      | nil => simp at hpre
      | cons p pre => simp at hp; subst hp; simp at hpre
  all_goals
    subst e
    cases pre with
    | nil => simp [rlock, Spec.C15.rlock] at hpre
    | cons p pre =>
      simp only [List.headD_cons] at hp
      subst hp
      have := (List.cons_prefix_cons.1 (by simpa [rlock, Spec.C15.rlock] using hpre)).1
      rcases hb with hb | hb <;> rw [hb] at this <;> cases this

theorem gitBad_dash : gitBad 45 = false := by decide
theorem gitBad_slash : gitBad 47 = false := by decide

theorem pairOk_dash (h : UInt8) : pairOk h 45 = true := by simp [pairOk]

theorem dash_case {pre : Bytes} {ce : Nat} {out : Bytes} (hI : Inv pre ce out) {b : UInt8}
    (hb : (b == 47) = false) : Inv (b :: pre) ce (45 :: out) ∧ Fin (45 :: out) := by
  have hok : PreOk 0 (45 :: out) = true := by
    rw [PreOk_cons, hI.ok, gitBad_dash, pairOk_dash]; rfl
  refine ⟨⟨hok, Or.inr rfl, LockLink_dash out pre b, CE_cons_ne hI.ce hb, ?_⟩, hok, Or.inl ?_⟩
  · have := hI.len; simp; omega
  · rfl

theorem skip_case {pre : Bytes} {ce : Nat} {out : Bytes} (hI : Inv pre ce out) {b : UInt8}
    (hb : b = 46 ∨ b = 47) (hp : pre.headD 0 = b) (hce : CE (b :: pre) ce) :
    Inv (b :: pre) ce out ∧ Fin out := by
  refine ⟨⟨hI.ok, ?_, LockLink_skip hI.link hb hp, hce, ?_⟩, hI.ok, Or.inl ?_⟩
  · rcases hI.head with h | h
    · left; rw [h, hp]; rfl
    · right; exact h
  · have := hI.len; simp; omega
  · cases hl : rlock.isPrefixOf out
    · rfl
    · exfalso
      have := hI.link rlock (by simp [rlock, Spec.C15.rlock]) (List.suffix_refl _) (List.isPrefixOf_iff_prefix.1 hl)
      cases pre with
      | nil => simp [rlock, Spec.C15.rlock] at this
      | cons p pre =>
        simp only [List.headD_cons] at hp
        subst hp
        have := (List.cons_prefix_cons.1 (by simpa [rlock, Spec.C15.rlock] using this)).1
        rcases hb with hb | hb <;> rw [hb] at this <;> cases this

theorem pairOk_of_head {o p b : UInt8} (h : o = p ∨ o = 45) (hp : pairOk p b = true) : pairOk o b = true := by
  rcases h with h | h
  · rw [h]; exact hp
  · rw [h]; simp [pairOk]

theorem default_inv {pre : Bytes} {ce : Nat} {out : Bytes} (hI : Inv pre ce out) {b : UInt8}
    (hbad : gitBad b = false) (hpair : pairOk (pre.headD 0) b = true) :
    Inv (b :: pre) (if (b == 47) = true then pre.length else ce)
      (b :: (if (b == 47 && rlock.isPrefixOf pre) = true then stripLocks out else out)) := by
  have hce := CE_step hI.ce b
  by_cases hl : (b == 47 && rlock.isPrefixOf pre) = true
  · simp only [hl, if_true]
    have hb47 : b = 47 := by
      simp only [Bool.and_eq_true, beq_iff_eq] at hl; exact hl.1
    have hsuf := stripLocks_suffix out
    have hok1 : PreOk 0 (stripLocks out) = true := PreOk_suffix hsuf hI.ok
    have hhead : out.headD 0 ≠ 47 := by
      subst hb47
      have h47 : pairOk (pre.headD 0) 47 = true := hpair
      have : (pre.headD 0 == 47) = false := by
        simp [pairOk] at h47; simpa using h47
      rcases hI.head with h | h
      · rw [h]; simpa using this
      · rw [h]; decide
    have hsh := stripLocks_head hI.ok hhead
    refine ⟨?_, Or.inl rfl, ?_, hce, ?_⟩
    · rw [PreOk_cons, hok1, hbad, stripLocks_noLock]
      subst hb47
      have : ((stripLocks out).headD 0 == 47) = false := by simpa using hsh
      simp only [pairOk, this]; rfl
    · subst hb47
      exact LockLink_other _ _ 47 47 (by decide)
    · have h1 := hsuf.length_le
      have h2 := hI.len
      simp; omega
  · have hl' : (b == 47 && rlock.isPrefixOf pre) = false := by
      cases h : (b == 47 && rlock.isPrefixOf pre)
      · rfl
      · exact absurd h hl
    simp only [hl', Bool.false_eq_true, if_false]
    refine ⟨?_, Or.inl rfl, LockLink_push hI.link b, hce, ?_⟩
    · rw [PreOk_cons, hI.ok, hbad, pairOk_of_head hI.head hpair]
      simp only [Bool.not_false, Bool.true_and]
      cases h47 : b == 47
      · rfl
      · rw [h47] at hl'
        simp only [Bool.true_and] at hl' ⊢
        cases ho : rlock.isPrefixOf out
        · rfl
        · have := hI.link rlock (by simp [rlock, Spec.C15.rlock]) (List.suffix_refl _) (List.isPrefixOf_iff_prefix.1 ho)
          rw [← List.isPrefixOf_iff_prefix, hl'] at this
          cases this
    · have := hI.len; simp; omega

theorem default_fin {pre : Bytes} {ce : Nat} {out : Bytes} (hI : Inv pre ce out) :
    Fin (if (rlock.isPrefixOf pre && pre != rlock) = true then stripLocks out else out) := by
  by_cases hl : (rlock.isPrefixOf pre && pre != rlock) = true
  · simp only [hl, if_true]
    exact ⟨PreOk_suffix (stripLocks_suffix out) hI.ok, Or.inl (stripLocks_noLock out)⟩
  · have hl' : (rlock.isPrefixOf pre && pre != rlock) = false := by simpa using hl
    simp only [hl', Bool.false_eq_true, if_false]
    refine ⟨hI.ok, ?_⟩
    cases ho : rlock.isPrefixOf out
    · exact Or.inl rfl
    · right
      have hpo := List.isPrefixOf_iff_prefix.1 ho
      have hp := hI.link rlock (by simp [rlock, Spec.C15.rlock]) (List.suffix_refl _) hpo
      have hp' := List.isPrefixOf_iff_prefix.2 hp
      rw [hp'] at hl'
      have hpre : pre = rlock := by simpa using hl'
      have hlen : out.length ≤ 5 := by
        have := hI.len; rw [hpre] at this; simpa [rlock, Spec.C15.rlock] using this
      have h5 := rlock_len ho
      exact (List.IsPrefix.eq_of_length hpo (by simp [rlock, Spec.C15.rlock]; omega)).symm


theorem bool_false_of_not {c : Bool} (h : ¬ c = true) : c = false := by
  cases c
  · rfl
  · exact absurd rfl h

theorem step_san {t : Table} (ht : tableOk t = true) {pre : Bytes} {ce : Nat} {out : Bytes}
    (hI : Inv pre ce out) (b : UInt8) (isLast : Bool) :
    ∃ ce' out', step t true isLast ⟨pre, ce, out⟩ b = .ok ⟨b :: pre, ce', out'⟩
      ∧ (isLast = false → Inv (b :: pre) ce' out') ∧ (isLast = true → Fin out') := by
  have hb := table_bad ht b
  unfold step
  by_cases c1 : inRanges t.forbidden b = true
  · have hbad : gitBad b = true := by rw [← hb, c1]; rfl
    have h47 : (b == 47) = false := by
      cases h : b == 47
      · rfl
      · have : b = 47 := by simpa using h
        subst this; rw [gitBad_slash] at hbad; cases hbad
    obtain ⟨h1, h2⟩ := dash_case hI h47
    exact ⟨ce, 45 :: out, by simp [c1], fun _ => h1, fun _ => h2⟩
  have c1' := bool_false_of_not c1
  by_cases c2 : inRanges t.star b = true
  · have hbad : gitBad b = true := by rw [← hb, c2]; simp
    have h47 : (b == 47) = false := by
      cases h : b == 47
      · rfl
      · have : b = 47 := by simpa using h
        subst this; rw [gitBad_slash] at hbad; cases hbad
    obtain ⟨h1, h2⟩ := dash_case hI h47
    exact ⟨ce, 45 :: out, by simp [c1', c2], fun _ => h1, fun _ => h2⟩
  have c2' := bool_false_of_not c2
  have hbad : gitBad b = false := by rw [← hb, c1', c2']; rfl
  by_cases c3 : (b == 46 && pre.headD 0 == 46) = true
  · have hb46 : b = 46 := by simp only [Bool.and_eq_true, beq_iff_eq] at c3; exact c3.1
    have hp : pre.headD 0 = b := by simp only [Bool.and_eq_true, beq_iff_eq] at c3; rw [c3.2, hb46]
    obtain ⟨h1, h2⟩ := skip_case hI (Or.inl hb46) hp (CE_cons_ne hI.ce (by rw [hb46]; rfl))
    exact ⟨ce, out, by simp only [c1', c2', c3]; simp, fun _ => h1, fun _ => h2⟩
  have c3' := bool_false_of_not c3
  by_cases c4 : (b == 46 && pre.headD 0 == 47) = true
  · have hb46 : b = 46 := by simp only [Bool.and_eq_true, beq_iff_eq] at c4; exact c4.1
    obtain ⟨h1, h2⟩ := dash_case hI (b := b) (by rw [hb46]; rfl)
    exact ⟨ce, 45 :: out, by simp only [c1', c2', c3', c4]; simp, fun _ => h1, fun _ => h2⟩
  have c4' := bool_false_of_not c4
  by_cases c5 : (b == 123 && pre.headD 0 == 64) = true
  · have hb123 : b = 123 := by simp only [Bool.and_eq_true, beq_iff_eq] at c5; exact c5.1
    obtain ⟨h1, h2⟩ := dash_case hI (b := b) (by rw [hb123]; rfl)
    exact ⟨ce, 45 :: out, by simp only [c1', c2', c3', c4', c5]; simp, fun _ => h1, fun _ => h2⟩
  have c5' := bool_false_of_not c5
  by_cases c6 : (b == 47 && pre.headD 0 == 47) = true
  · have hb47 : b = 47 := by simp only [Bool.and_eq_true, beq_iff_eq] at c6; exact c6.1
    have hp : pre.headD 0 = b := by simp only [Bool.and_eq_true, beq_iff_eq] at c6; rw [c6.2, hb47]
    obtain ⟨h1, h2⟩ := skip_case hI (Or.inr hb47) hp (by rw [hb47]; exact CE_slash_skip hI.ce)
    exact ⟨ce, out, by simp only [c1', c2', c3', c4', c5', c6]; simp, fun _ => h1, fun _ => h2⟩
  have c6' := bool_false_of_not c6
  -- the catch-all arm
  have hpair : pairOk (pre.headD 0) b = true := by
    simp only [pairOk, c3', c4', c5', c6']; rfl
  have hI' := default_inv hI hbad hpair
  have hfin := default_fin hI'
  have hle := hI.ce.le
  have hcs : (b == 47 && decide (ce > pre.length)) = false := by
    have : decide (ce > pre.length) = false := by simp; omega
    simp [this]
  have hl1 : rlock.isPrefixOf (pre.take (pre.length - ce)) = rlock.isPrefixOf pre := lock1_eq hI.ce
  have hl2 := lock2_eq hI'.ce
  have hle' := hI'.ce.le
  simp only [List.length_cons] at hl2 hle'
  simp only [c1', c2', c3', c4', c5', c6', Bool.false_eq_true, if_false, hcs, hl1, Bool.not_true,
    Bool.and_false, if_true]
  have hng : ¬ ((if (b == 47) = true then pre.length else ce) + 1 > pre.length + 1) := by
    split <;> omega
  simp only [hng, if_false, hl2]
  cases isLast
  · exact ⟨_, _, rfl, fun _ => hI', fun h => absurd h (by decide)⟩
  · exact ⟨_, _, rfl, fun h => absurd h (by decide), fun _ => hfin⟩

theorem loop_san {t : Table} (ht : tableOk t = true) (rest : Bytes) (hne : rest ≠ []) :
    ∀ (pre : Bytes) (ce : Nat) (out : Bytes), Inv pre ce out →
      ∃ st, loop t true ⟨pre, ce, out⟩ rest = .ok st ∧ Fin st.out := by
  induction rest with
  | nil => exact absurd rfl hne
  | cons b rest ih =>
    intro pre ce out hI
    cases rest with
    | nil =>
      obtain ⟨ce', out', hs, _, hf⟩ := step_san ht hI b true
      exact ⟨⟨b :: pre, ce', out'⟩, by simp only [loop, List.isEmpty_nil, hs], hf rfl⟩
    | cons c rest =>
      obtain ⟨ce', out', hs, hi, _⟩ := step_san ht hI b false
      obtain ⟨st, h1, h2⟩ := ih (by simp) (b :: pre) ce' out' (hi rfl)
      exact ⟨st, by simp only [loop, List.isEmpty_cons, hs]; exact h1, h2⟩

/-! #### the final fix-ups -/

/-- the condition on ".lock" that `Fin` carries -/
def LockFree (r : Bytes) : Prop := rlock.isPrefixOf r = false ∨ r = rlock

theorem PreOk_drop_lead {r : Bytes} (h : PreOk 0 (r ++ [47]) = true) : PreOk 0 r = true := by
  induction r with
  | nil => rfl
  | cons b r ih =>
    rw [List.cons_append, PreOk_cons] at h
    simp only [Bool.and_eq_true, Bool.not_eq_eq_eq_not, Bool.not_true] at h
    obtain ⟨h1, ⟨h2, h3⟩, h4⟩ := h
    rw [PreOk_cons, ih h1, h2]
    have hp : pairOk (r.headD 0) b = true := by
      cases r with
      | nil => exact pairOk_zero b
      | cons c r => exact h3
    rw [hp]
    have hl : (b == 47 && rlock.isPrefixOf r) = false := by
      cases hb : b == 47
      · rfl
      · rw [hb] at h4
        simp only [Bool.true_and] at h4 ⊢
        cases hr : rlock.isPrefixOf r
        · rfl
        · have : rlock.isPrefixOf (r ++ [47]) = true := by
            rw [List.isPrefixOf_iff_prefix] at hr ⊢
            exact hr.trans (List.prefix_append _ _)
          rw [this] at h4; cases h4
    rw [hl]; rfl

theorem LockFree_drop_lead {r : Bytes} (h : LockFree (r ++ [47])) : LockFree r := by
  rcases h with h | h
  · left
    cases hr : rlock.isPrefixOf r
    · rfl
    · have : rlock.isPrefixOf (r ++ [47]) = true := by
        rw [List.isPrefixOf_iff_prefix] at hr ⊢
        exact hr.trans (List.prefix_append _ _)
      rw [this] at h; cases h
  · exfalso
    have : (47 : UInt8) ∈ rlock := by rw [← h]; simp
    simp [rlock, Spec.C15.rlock] at this

/-- `while out.first() == Some(&b'/') { out.remove(0) }`, seen from the reversed buffer -/
theorem lead_trim (l : Bytes) (h1 : PreOk 0 l.reverse = true) (h2 : LockFree l.reverse) :
    PreOk 0 (l.dropWhile (· == 47)).reverse = true ∧ LockFree (l.dropWhile (· == 47)).reverse
      ∧ ((l.dropWhile (· == 47)) = [] ∨ (l.dropWhile (· == 47)).getLast? = l.getLast?) := by
  induction l with
  | nil => exact ⟨h1, h2, Or.inl rfl⟩
  | cons a l ih =>
    by_cases ha : (a == 47) = true
    · have : a = 47 := by simpa using ha
      subst this
      simp only [List.reverse_cons] at h1 h2
      obtain ⟨i1, i2, i3⟩ := ih (PreOk_drop_lead h1) (LockFree_drop_lead h2)
      simp only [List.dropWhile_cons, beq_self_eq_true, if_true]
      refine ⟨i1, i2, ?_⟩
      rcases i3 with i3 | i3
      · exact Or.inl i3
      · by_cases hl : l = []
        · subst hl; left; rfl
        · right; rw [i3, List.getLast?_cons_of_ne_nil hl]
    · simp only [List.dropWhile_cons, ha]
      exact ⟨h1, h2, Or.inr rfl⟩

/-- `while out.last() == Some(&b'/') { out.pop() }` on the reversed buffer -/
theorem trail_trim {r : Bytes} (h : Fin r) :
    Fin (r.dropWhile (· == 47)) ∧ (r.dropWhile (· == 47)).headD 0 ≠ 47 := by
  induction r with
  | nil => exact ⟨h, by decide⟩
  | cons a r ih =>
    by_cases ha : (a == 47) = true
    · have : a = 47 := by simpa using ha
      subst this
      simp only [List.dropWhile_cons, beq_self_eq_true, if_true]
      apply ih
      obtain ⟨h1, _⟩ := h
      rw [PreOk_cons] at h1
      simp only [Bool.and_eq_true, Bool.not_eq_eq_eq_not, Bool.not_true, beq_self_eq_true, Bool.true_and] at h1
      exact ⟨h1.1, Or.inl h1.2.2⟩
    · simp only [List.dropWhile_cons, ha]
      refine ⟨h, ?_⟩
      simpa using ha

theorem rlock_snoc {r : Bytes} {x : UInt8} (h : rlock.isPrefixOf (r ++ [x]) = true) (hx : x ≠ 46) :
    rlock.isPrefixOf r = true := by
  rw [List.isPrefixOf_iff_prefix] at h ⊢
  rcases List.prefix_concat_iff.1 h with h | h
  · exfalso
    have : rlock.getLast? = (r ++ [x]).getLast? := by rw [h]
    simp [rlock, Spec.C15.rlock] at this
    exact hx this.symm
  · exact h

/-- `out[0] = b'-'` when it is '.', and the first byte is now also judged as the start of a component -/
theorem PreOk_fix_first {r : Bytes} {c : UInt8} (h : PreOk 0 (r ++ [c]) = true) (hc : c ≠ 47) :
    PreOk 47 (r ++ [if (c == 46) = true then 45 else c]) = true := by
  induction r with
  | nil =>
    simp only [List.nil_append] at h ⊢
    rw [PreOk_cons] at h
    simp only [Bool.and_eq_true, Bool.not_eq_eq_eq_not, Bool.not_true] at h
    by_cases h46 : (c == 46) = true
    · simp only [h46, if_true]; decide
    · have h46' : (c == 46) = false := bool_false_of_not h46
      simp only [h46', Bool.false_eq_true, if_false]
      rw [PreOk_cons, h.2.1.1]
      simp only [List.headD_nil, pairOk_slash]
      have : (c == 47) = false := by simpa using hc
      simp [PreOk, bne, h46', this]
  | cons b r ih =>
    rw [List.cons_append, PreOk_cons] at h
    simp only [Bool.and_eq_true, Bool.not_eq_eq_eq_not, Bool.not_true] at h
    obtain ⟨h1, ⟨h2, h3⟩, h4⟩ := h
    rw [List.cons_append, PreOk_cons, ih h1, h2]
    have hp : pairOk ((r ++ [if (c == 46) = true then 45 else c]).headD 47) b = true := by
      cases r with
      | nil =>
        simp only [List.nil_append, List.headD_cons] at h3 ⊢
        by_cases h46 : (c == 46) = true
        · simp only [h46, if_true]; simp [pairOk]
        · simp only [bool_false_of_not h46, Bool.false_eq_true, if_false]; exact h3
      | cons d r => exact h3
    rw [hp]
    have hl : (b == 47 && rlock.isPrefixOf (r ++ [if (c == 46) = true then 45 else c])) = false := by
      cases hb : b == 47
      · rfl
      · rw [hb] at h4
        simp only [Bool.true_and] at h4 ⊢
        by_cases h46 : (c == 46) = true
        · simp only [h46, if_true]
          cases hr : rlock.isPrefixOf (r ++ [45])
          · rfl
          · have := rlock_snoc hr (by decide)
            have : rlock.isPrefixOf (r ++ [c]) = true := by
              rw [List.isPrefixOf_iff_prefix] at this ⊢
              exact this.trans (List.prefix_append _ _)
            rw [this] at h4; cases h4
        · simp only [bool_false_of_not h46, Bool.false_eq_true, if_false]; exact h4
    rw [hl]; rfl

theorem LockFree_fix_first {r : Bytes} {c : UInt8} (h : LockFree (r ++ [c])) :
    rlock.isPrefixOf (r ++ [if (c == 46) = true then 45 else c]) = false := by
  by_cases h46 : (c == 46) = true
  · simp only [h46, if_true]
    have hc : c = 46 := by simpa using h46
    subst hc
    cases hr : rlock.isPrefixOf (r ++ [45])
    · rfl
    · exfalso
      have h5 := rlock_snoc hr (by decide)
      have hlen := rlock_len h5
      have h6 : rlock.isPrefixOf (r ++ [46]) = true := by
        rw [List.isPrefixOf_iff_prefix] at h5 ⊢
        exact h5.trans (List.prefix_append _ _)
      rcases h with h | h
      · rw [h6] at h; cases h
      · have : (r ++ [46]).length = rlock.length := by rw [h]
        simp [rlock, Spec.C15.rlock] at this
        omega
  · have h46' := bool_false_of_not h46
    simp only [h46', Bool.false_eq_true, if_false]
    rcases h with h | h
    · exact h
    · exfalso
      have : (r ++ [c]).getLast? = rlock.getLast? := by rw [h]
      simp [rlock, Spec.C15.rlock] at this
      subst this; simp at h46'

/-- `out[last] = b'-'` when it is '.' -/
theorem fix_last {R : Bytes} (hR : PreOk 47 R = true) (hne : R ≠ []) (hh : R.headD 0 ≠ 47)
    (hN : rlock.isPrefixOf R = false) :
    Valid (if (R.headD 0 == 46) = true then 45 :: R.tail else R) = true := by
  cases R with
  | nil => exact absurd rfl hne
  | cons l R' =>
    simp only [List.headD_cons, List.tail_cons] at hh ⊢
    have hl47 : (l == 47) = false := by simpa using hh
    by_cases h46 : (l == 46) = true
    · simp only [h46, if_true]
      rw [PreOk_cons] at hR
      simp only [Bool.and_eq_true, Bool.not_eq_eq_eq_not, Bool.not_true] at hR
      have : PreOk 47 (45 :: R') = true := by
        rw [PreOk_cons, hR.1, gitBad_dash, pairOk_dash]; rfl
      have hk : rlock.isPrefixOf (45 :: R') = false := rfl
      simp [Valid, this, hk]
    · have h46' := bool_false_of_not h46
      simp only [h46', Bool.false_eq_true, if_false]
      simp [Valid, hR, hN, bne, hl47, h46']

theorem head_dropWhile {l : Bytes} {c : UInt8} {tl : Bytes} (h : l.dropWhile (· == 47) = c :: tl) :
    (c == 47) = false := by
  induction l with
  | nil => simp at h
  | cons a l ih =>
    simp only [List.dropWhile_cons] at h
    split at h
    · exact ih h
    · rename_i ha
      injection h with h1 _
      subst h1
      exact bool_false_of_not ha

/-- everything after the loop of `name_inner(…, Mode::Sanitize)` (with the empty-buffer repair) -/
theorem finishSanitize_valid {rout : Bytes} (h : Fin rout) :
    ∃ o, finishSanitize rout = .ok (some o) ∧ Valid o.reverse = true := by
  obtain ⟨hF1, hh1⟩ := trail_trim h
  obtain ⟨g1, g2, g3⟩ := lead_trim (rout.dropWhile (· == 47)).reverse
    (by rw [List.reverse_reverse]; exact hF1.1) (by rw [List.reverse_reverse]; exact hF1.2)
  unfold finishSanitize
  simp only []
  generalize hf : ((rout.dropWhile (· == 47)).reverse).dropWhile (· == 47) = f at g1 g2 g3
  cases f with
  | nil => exact ⟨[45], rfl, by decide⟩
  | cons c tl =>
    have hc : (c == 47) = false := head_dropWhile hf
    have hc' : c ≠ 47 := by simpa using hc
    simp only [List.isEmpty_cons, Bool.false_eq_true, if_false]
    simp only [List.reverse_cons] at g1 g2
    have hR := PreOk_fix_first g1 hc'
    have hN := LockFree_fix_first g2
    -- both branches of `out[0] = b'-'` are `c' :: tl`
    have hout : (if (c == 46) = true then 45 :: tl else c :: tl) = (if (c == 46) = true then 45 else c) :: tl := by
      split <;> rfl
    rw [hout]
    generalize hcq : (if (c == 46) = true then (45 : UInt8) else c) = c' at hR hN
    have hc47 : c' ≠ 47 := by
      rw [← hcq]; split
      · decide
      · exact hc'
    -- the last byte
    have hlast : ((c' :: tl).getLast?).getD 0 ≠ 47 := by
      cases tl with
      | nil => simpa using hc47
      | cons d tl =>
        rw [List.getLast?_cons_cons]
        rcases g3 with g3 | g3
        · cases g3
        · rw [List.getLast?_cons_cons] at g3
          rw [g3, List.getLast?_reverse]
          cases hr : rout.dropWhile (· == 47) with
          | nil => simp
          | cons x xs => rw [hr] at hh1; simpa using hh1
    cases hRc : (c' :: tl).reverse with
    | nil => simp at hRc
    | cons l R' =>
      have hfw : c' :: tl = R'.reverse ++ [l] := by
        have := congrArg List.reverse hRc
        simpa using this
      rw [hfw] at hlast ⊢
      have hRR : tl.reverse ++ [c'] = l :: R' := by simpa using hRc
      rw [hRR] at hR hN
      simp only [List.getLast?_append, List.getLast?_singleton, Option.some_or, Option.getD_some] at hlast ⊢
      have hv := fix_last hR (by simp) (by simpa using hlast) hN
      simp only [List.headD_cons, List.tail_cons] at hv
      by_cases h46 : (l == 46) = true
      · simp only [h46, if_true] at hv ⊢
        refine ⟨_, rfl, ?_⟩
        simpa using hv
      · have h46' := bool_false_of_not h46
        simp only [h46', Bool.false_eq_true, if_false] at hv ⊢
        refine ⟨_, rfl, ?_⟩
        simpa using hv


/-- `name_inner(input, Mode::Sanitize)` never panics, always returns a buffer, and the buffer is `Valid` -/
theorem nameInner_sanitize {t : Table} (ht : tableOk t = true) (bs : Bytes) :
    ∃ o, nameInner t true bs = .ok (some o) ∧ Valid o.reverse = true := by
  unfold nameInner
  cases hE : bs.isEmpty
  case true => exact ⟨[45], by simp, by decide⟩
  have hne : bs ≠ [] := by intro e; subst e; simp at hE
  obtain ⟨st, h1, h2⟩ := loop_san ht bs hne [] 0 [] Inv_nil
  obtain ⟨o, h3, h4⟩ := finishSanitize_valid h2
  refine ⟨o, ?_, h4⟩
  simp only [Bool.false_eq_true, if_false, Bool.not_true, Bool.and_false, h1, if_true]
  exact h3

/-- the loop when sanitizing a name that needs no change: every byte is pushed -/
theorem loop_id {t : Table} (ht : tableOk t = true) (rest : Bytes) :
    ∀ (pre : Bytes) (ce : Nat), PreOk 0 (rest.reverse ++ pre) = true → CE pre ce →
      (rlock.isPrefixOf (rest.reverse ++ pre) && (rest.reverse ++ pre) != rlock) = false →
      ∃ ce', loop t true ⟨pre, ce, pre⟩ rest = .ok ⟨rest.reverse ++ pre, ce', rest.reverse ++ pre⟩ := by
  induction rest with
  | nil => intro pre ce _ _ _; exact ⟨ce, rfl⟩
  | cons b rest ih =>
    intro pre ce hp hce hl
    have hrev : (b :: rest).reverse ++ pre = rest.reverse ++ (b :: pre) := by simp
    rw [hrev] at hp hl ⊢
    have hp1 : PreOk 0 (b :: pre) = true := PreOk_append _ _ hp
    have hp0 : PreOk 0 pre = true := PreOk_append [b] pre hp1
    have hg : stepGood pre b = true := by rw [← PreOk_cons_good hp0]; exact hp1
    have hst := step_good ht hce hg true rest.isEmpty pre
    cases rest with
    | nil =>
      simp only [List.reverse_nil, List.nil_append] at hl ⊢
      simp only [List.isEmpty_nil, Bool.true_and, hl, Bool.false_eq_true, if_false, if_true] at hst
      exact ⟨_, by simp only [loop, List.isEmpty_nil, hst]; rfl⟩
    | cons c rest =>
      simp only [List.isEmpty_cons, Bool.false_and, Bool.false_eq_true, if_false, if_true] at hst
      obtain ⟨ce', h⟩ := ih (b :: pre) _ hp (CE_step hce b) hl
      exact ⟨ce', by simp only [loop, List.isEmpty_cons, hst]; exact h⟩

theorem dropWhile_head {l : Bytes} (h : l.head? ≠ some 47) : l.dropWhile (· == 47) = l := by
  cases l with
  | nil => rfl
  | cons a l =>
    have : (a == 47) = false := by
      cases ha : a == 47
      · rfl
      · have : a = 47 := by simpa using ha
        subst this; simp at h
    simp [this]

/-- sanitizing leaves a `Valid` name alone -/
theorem nameInner_sanitize_id {t : Table} (ht : tableOk t = true) (bs : Bytes)
    (hv : Valid bs.reverse = true) : nameInner t true bs = .ok (some bs) := by
  rw [Valid_rev_eq] at hv
  simp only [Bool.and_eq_true, Bool.not_eq_eq_eq_not, Bool.not_true, bne_iff_ne] at hv
  obtain ⟨⟨⟨⟨⟨⟨hE, hp⟩, hh46⟩, hh47⟩, hl47⟩, hl46⟩, hlk⟩ := hv
  obtain ⟨ce', hloop⟩ := loop_id ht bs [] 0 (by simpa using hp) CE_nil (by simp [hlk])
  simp only [List.append_nil] at hloop
  unfold nameInner
  simp only [hE, Bool.false_eq_true, if_false, Bool.not_true, Bool.and_false, hloop, if_true]
  unfold finishSanitize
  have d1 : bs.reverse.dropWhile (· == 47) = bs.reverse := by
    apply dropWhile_head; rw [List.head?_reverse]; exact hl47
  have d2 : bs.dropWhile (· == 47) = bs := dropWhile_head hh47
  simp only [d1, List.reverse_reverse, d2, hE, Bool.false_eq_true, if_false]
  cases bs with
  | nil => simp at hE
  | cons f tl =>
    simp only [List.head?_cons, ne_eq, Option.some.injEq] at hh46
    have hf : (f == 46) = false := by simpa using hh46
    simp only [hf, Bool.false_eq_true, if_false]
    cases hg : (f :: tl).getLast? with
    | none => simp at hg
    | some l =>
      rw [hg] at hl46
      have : (l == 46) = false := by simpa using hl46
      simp [this]
end GixModel.C15
