import GixModel.Lemmas.C26Append4
/-
C26 — print-then-parse, newlines inserted in the middle, first instalment: a newline written right
after the FIRST section header of a text (the key on the header line `[a] k = v`, or `[a][b]`).
The header parser never looks past its closing bracket, and a body that is entered through an
inserted newline continues exactly as the original body did.
-/
namespace GixModel.C26
open GixModel

theorem spanP_split (p : UInt8 → Bool) : ∀ (l : Bytes),
    (∀ x ∈ (spanP p l).1, p x = true) ∧ (∀ c r', (spanP p l).2 = c :: r' → p c = false) := by
  intro l
  induction l with
  | nil => simp [spanP]
  | cons x l ih =>
    by_cases hx : p x = true
    · simp only [spanP, List.takeWhile_cons, hx, ↓reduceIte, List.mem_cons, forall_eq_or_imp, true_and, List.dropWhile_cons]
      exact ih
    · simp only [spanP, List.takeWhile_cons, hx, Bool.false_eq_true, ↓reduceIte, List.not_mem_nil, false_implies,
        implies_true, List.dropWhile_cons, List.cons.injEq, true_and]
      intro c r' h; rw [← h.1]; simpa using hx

theorem spanP_stop (p : UInt8 → Bool) : ∀ (w : Bytes) (c : UInt8) (z : Bytes), (∀ x ∈ w, p x = true) → p c = false →
    spanP p (w ++ c :: z) = (w, c :: z) := by
  intro w
  induction w with
  | nil => intro c z _ hc; simp [spanP, List.takeWhile_cons, List.dropWhile_cons, hc]
  | cons x w ih =>
    intro c z hw hc
    have hx := hw x (by simp)
    have := ih c z (fun y hy => hw y (by simp [hy])) hc
    simp only [spanP, Prod.mk.injEq] at this
    simp [spanP, List.takeWhile_cons, List.dropWhile_cons, hx, this.1, this.2]

theorem subSectionRaw_quote (z : Bytes) : subSectionRaw (34 :: z) = ([], 34 :: z) := by
  cases z with
  | nil => simp [subSectionRaw]
  | cons d r => rw [subSectionRaw.eq_def]; simp

theorem subSectionRaw_prefix : ∀ (i : Bytes) (r' : Bytes), (subSectionRaw i).2 = 34 :: r' →
    ∀ z, subSectionRaw ((subSectionRaw i).1 ++ 34 :: z) = ((subSectionRaw i).1, 34 :: z) := by
  intro i
  fun_induction subSectionRaw i <;> intro r' h z
  all_goals first
    | (simp at h; done)
    | (simp only [List.nil_append]; exact subSectionRaw_quote z)
    | skip
  · rename_i c d r hc hd ih
    simp only at h ⊢
    have := ih r' h z
    simp only [List.cons_append]
    rw [subSectionRaw.eq_def]
    simp [hc, hd, this]
  · rename_i c d r hc hs ih
    simp only at h ⊢
    have := ih r' h z
    simp only [List.cons_append]
    generalize hq : (subSectionRaw (d :: r)).fst = q1 at this ⊢
    cases q1 with
    | nil =>
      simp only [List.nil_append]
      rw [subSectionRaw.eq_def]
      simp [hc, hs, subSectionRaw_quote]
    | cons y q1' =>
      simp only [List.cons_append] at this ⊢
      rw [subSectionRaw.eq_def]
      simp [hc, hs, this]

theorem takeSpaces1_stop (w : Bytes) (c : UInt8) (z : Bytes) (hne : w ≠ []) (hw : ∀ x ∈ w, isSpace x = true)
    (hc : isSpace c = false) : takeSpaces1 (w ++ c :: z) = some (w, c :: z) := by
  unfold takeSpaces1
  simp only [spanP_stop isSpace w c z hw hc]
  cases w with
  | nil => exact absurd rfl hne
  | cons x w' => simp

/-- the header parser never looks past the closing bracket: the text it consumed parses to the
same header whatever follows -/
theorem sectionHeaderRaw_repl {a b : Bytes} {h : Header} (hh : sectionHeaderRaw a = some (h, b)) :
    ∀ z, sectionHeaderRaw (h.writeWith id ++ z) = some (h, z) := by
  intro z
  unfold sectionHeaderRaw at hh
  cases a with
  | nil => simp at hh
  | cons c r =>
    by_cases hc : c = 91
    · subst hc
      simp only at hh
      obtain ⟨hall, hstop⟩ := spanP_split isSectionChar r
      generalize hp2 : (spanP isSectionChar r).2 = p2 at hh hstop
      generalize hp1 : (spanP isSectionChar r).1 = p1 at hh hall
      split at hh
      · simp at hh
      · rename_i hne
        have hp1ne : p1.isEmpty = false := by simpa using hne
        cases p2 with
        | nil => simp [takeSpaces1, spanP] at hh
        | cons x r1 =>
          have hx := hstop x r1 rfl
          by_cases hx93 : x = 93
          · subst hx93
            simp only at hh
            cases hsd : splitLastDot p1 with
            | none =>
              simp only [hsd, Option.some.injEq, Prod.mk.injEq] at hh
              obtain ⟨rfl, _⟩ := hh
              simp only [Header.writeWith, List.append_nil, List.cons_append, List.nil_append, List.append_assoc]
              unfold sectionHeaderRaw
              simp only [spanP_stop isSectionChar p1 93 z hall hx, hp1ne, Bool.false_eq_true, ↓reduceIte, hsd]
            | some q =>
              obtain ⟨qa, qb⟩ := q
              simp only [hsd] at hh
              split at hh
              · simp at hh
              · rename_i hqa
                simp only [Option.some.injEq, Prod.mk.injEq] at hh
                obtain ⟨rfl, _⟩ := hh
                have hjoin := splitLastDot_ok p1 qa qb hsd
                simp only [Header.writeWith, beq_self_eq_true, ↓reduceIte, List.cons_append, List.nil_append, List.append_assoc]
                have : qa ++ (46 :: (qb ++ 93 :: z)) = p1 ++ 93 :: z := by rw [← hjoin]; simp
                rw [this]
                unfold sectionHeaderRaw
                simp only [spanP_stop isSectionChar p1 93 z hall hx, hp1ne, Bool.false_eq_true, ↓reduceIte, hsd, hqa]
          · split at hh
            · rename_i heq; simp at heq; exact absurd heq.1 hx93
            cases hts : takeSpaces1 (x :: r1) with
            | none => simp [hts] at hh
            | some wq =>
              obtain ⟨w, r2⟩ := wq
              simp only [hts] at hh
              obtain ⟨hwr, hwne, hwall⟩ := takeSpaces1_ok hts
              cases r2 with
              | nil => simp at hh
              | cons y r3 =>
                by_cases hy : y = 34
                · subst hy
                  simp only at hh
                  cases hq2 : (subSectionRaw r3).2 with
                  | nil => simp [hq2] at hh
                  | cons z1 q3 =>
                    cases q3 with
                    | nil => simp [hq2] at hh
                    | cons z2 r5 =>
                      by_cases hz : z1 = 34 ∧ z2 = 93
                      · obtain ⟨rfl, rfl⟩ := hz
                        simp only [hq2, Option.some.injEq, Prod.mk.injEq] at hh
                        obtain ⟨rfl, _⟩ := hh
                        have hdot := spaces_ne_dot hwne hwall
                        -- the first space stops the name
                        obtain ⟨w0, w', rfl⟩ : ∃ w0 w', w = w0 :: w' := by
                          cases w with
                          | nil => exact absurd rfl hwne
                          | cons w0 w' => exact ⟨w0, w', rfl⟩
                        have hw0 : isSpace w0 = true := hwall w0 (by simp)
                        have hw0s : isSectionChar w0 = false := by
                          simp only [isSpace, Bool.or_eq_true, beq_iff_eq] at hw0
                          rcases hw0 with rfl | rfl <;> decide
                        have hw093 : w0 ≠ 93 := by
                          intro h93; subst h93; simp [isSpace] at hw0
                        simp only [Header.writeWith, hdot, Bool.false_eq_true, ↓reduceIte, List.cons_append, List.nil_append,
                          List.append_assoc, id]
                        unfold sectionHeaderRaw
                        simp only [spanP_stop isSectionChar p1 w0 _ hall hw0s, hp1ne, Bool.false_eq_true, ↓reduceIte]
                        split
                        · rename_i heq; simp at heq; exact absurd heq.1 hw093
                        have hts' := takeSpaces1_stop (w0 :: w') 34 ((subSectionRaw r3).1 ++ 34 :: 93 :: z) (by simp) hwall (by decide)
                        simp only [List.cons_append] at hts'
                        simp only [hts']
                        have := subSectionRaw_prefix r3 _ hq2 (93 :: z)
                        simp only [this]
                      · exfalso
                        simp only [hq2] at hh
                        split at hh
                        · rename_i heq; simp at heq; exact hz ⟨heq.1, heq.2.1⟩
                        · simp at hh
                · exfalso
                  split at hh
                  · rename_i heq; simp at heq; exact hy heq.1
                  · simp at hh
    · exfalso
      split at hh
      · rename_i heq; simp at heq; exact hc heq.1
      · simp at hh

/-! ### a body entered through an inserted newline -/

theorem takeNewlines_none {Y : Bytes} (h : takeNewlines1 Y = none) : ∀ n, takeNewlines n Y = ([], Y) := by
  intro n
  cases n with
  | zero => rfl
  | succ n =>
    have hnil : (takeNewlines 1023 Y).1 = [] := by
      unfold takeNewlines1 at h
      simp only at h
      split at h
      · rename_i he; simpa using he
      · simp at h
    cases Y with
    | nil => rfl
    | cons c r =>
      by_cases h10 : c = 10
      · subst h10; simp [takeNewlines] at hnil
      · by_cases h13 : c = 13 ∧ ∃ r', r = 10 :: r'
        · obtain ⟨rfl, r', rfl⟩ := h13
          simp [takeNewlines] at hnil
        · rw [takeNewlines.eq_def]
          split
          · rfl
          · rename_i heq1 heq2
            simp at heq2
            exact absurd ⟨heq2.1, _, heq2.2⟩ h13
          · rename_i heq1 heq2
            simp at heq2
            exact absurd heq2.1 h10
          · rfl

theorem optNewlines_ins {t : Bytes} (ht : NL t) {Y : Bytes} (hY : takeNewlines1 Y = none) :
    optNewlines (t ++ Y) = ([.newline t], Y) := by
  unfold optNewlines takeNewlines1
  rcases ht with rfl | rfl
  · simp [takeNewlines, takeNewlines_none hY 1022]
  · simp [takeNewlines, takeNewlines_none hY 1022]

theorem optNewlines_none {Y : Bytes} (hY : takeNewlines1 Y = none) : optNewlines Y = ([], Y) := by
  simp [optNewlines, hY]

theorem optSpaces_nl {t : Bytes} (ht : NL t) (Y : Bytes) : optSpaces (t ++ Y) = ([], t ++ Y) := by
  rcases ht with rfl | rfl <;> simp [optSpaces, takeSpaces1, spanP, List.takeWhile_cons, isSpace]

/-- an iteration that consumes nothing emits nothing -/
theorem bodyIter_noprog {Y r1 : Bytes} {e1 : List Event} (h : bodyIter Y = some (e1, r1)) (hl : r1.length = Y.length) :
    e1 = [] ∧ r1 = Y := by
  have hok := bodyIter_ok h
  have hlen := congrArg List.length hok
  simp only [List.length_append] at hlen
  have hr : renderRaw e1 = [] := List.eq_nil_of_length_eq_zero (by omega)
  have hr1 : r1 = Y := by rw [hr] at hok; simpa using hok
  refine ⟨?_, hr1⟩
  unfold bodyIter at h
  simp only at h
  cases hk : keyValuePair (optNewlines (optSpaces Y).2).2 with
  | none => simp [hk] at h
  | some p =>
    obtain ⟨kv, r⟩ := p
    simp only [hk, Option.some.injEq, Prod.mk.injEq] at h
    obtain ⟨rfl, _⟩ := h
    simp only [renderRaw, List.flatMap_append, List.append_eq_nil_iff] at hr
    obtain ⟨⟨⟨ha, hb⟩, hkv⟩, hc⟩ := hr
    have h1 : (optSpaces Y).1 = [] := by
      unfold optSpaces at ha ⊢
      cases hs : takeSpaces1 Y with
      | none => rfl
      | some q =>
        obtain ⟨w, r0⟩ := q
        have := (takeSpaces1_ok hs).2.1
        simp [hs, Event.writeRaw, Event.writeWith] at ha
        exact absurd ha this
    have h2 : (optNewlines (optSpaces Y).2).1 = [] := by
      unfold optNewlines at hb ⊢
      cases hs : takeNewlines1 (optSpaces Y).2 with
      | none => rfl
      | some q =>
        obtain ⟨n, r0⟩ := q
        have := (takeNewlines1_ok hs).2
        simp [hs, Event.writeRaw, Event.writeWith] at hb
        exact absurd hb this
    have h3 : kv = [] := by
      unfold keyValuePair at hk
      cases hn : configName (optNewlines (optSpaces Y).2).2 with
      | none => simp only [hn, Option.some.injEq, Prod.mk.injEq] at hk; exact hk.1.symm
      | some q =>
        obtain ⟨n, r0⟩ := q
        simp only [hn] at hk
        cases hv : configValue (optSpaces r0).2 with
        | none => simp [hv] at hk
        | some q2 =>
          simp only [hv, Option.some.injEq, Prod.mk.injEq] at hk
          rw [← hk.1] at hkv
          have := (configName_ok hn).2
          simp [Event.writeRaw, Event.writeWith] at hkv
          exact absurd hkv.1 this
    have h4 : (optComment r).1 = [] := by
      unfold optComment at hc ⊢
      cases hs : comment r with
      | none => rfl
      | some q =>
        obtain ⟨c, rc⟩ := q
        exfalso
        simp only [hs, List.flatMap_cons, List.flatMap_nil, List.append_nil] at hc
        cases r with
        | nil => simp [comment] at hs
        | cons x rr =>
          simp only [comment] at hs
          split at hs
          · simp only [Option.some.injEq, Prod.mk.injEq] at hs
            rw [← hs.1] at hc
            simp [Event.writeRaw, Event.writeWith] at hc
          · simp at hs
    simp [h1, h2, h3, h4]

/-- the body loop on `newline ++ Y`, when `Y` does not itself start with a newline: one newline
event, then exactly what the loop does on `Y` -/
theorem bodyLoop_ins {t : Bytes} (ht : NL t) {Y : Bytes} (hY : takeNewlines1 Y = none) (f g : Nat)
    (hf : Y.length < f) (hg : (t ++ Y).length < g) :
    bodyLoop g (t ++ Y) = (bodyLoop f Y).map fun p => (.newline t :: p.1, p.2) := by
  have htpos : 0 < t.length := by rcases ht with rfl | rfl <;> simp
  obtain ⟨g', rfl⟩ : ∃ g', g = g' + 1 := ⟨g - 1, by omega⟩
  have hg' : Y.length < g' := by
    have := List.length_append (as := t) (bs := Y)
    omega
  rw [bodyLoop_fuel f g' Y hf hg']
  have hiter : bodyIter (t ++ Y) = (match keyValuePair Y with
      | none => none
      | some (kv, r) => some (.newline t :: kv ++ (optComment r).1, (optComment r).2)) := by
    unfold bodyIter
    simp only [optSpaces_nl ht Y, optNewlines_ins ht hY]
    cases keyValuePair Y with
    | none => rfl
    | some p => simp
  cases hs : takeSpaces1 Y with
  | some q =>
    -- `Y` starts with whitespace: the first iteration takes the newline only
    obtain ⟨w, r0⟩ := q
    obtain ⟨hwr, hwne, hwall⟩ := takeSpaces1_ok hs
    obtain ⟨w0, w', rfl⟩ : ∃ w0 w', w = w0 :: w' := by
      cases w with
      | nil => exact absurd rfl hwne
      | cons w0 w' => exact ⟨w0, w', rfl⟩
    have hw0 : isSpace w0 = true := hwall w0 (by simp)
    have hYeq : Y = w0 :: (w' ++ r0) := by rw [← hwr]; rfl
    have hkv : keyValuePair Y = some ([], Y) := by
      rw [hYeq]
      simp only [isSpace, Bool.or_eq_true, beq_iff_eq] at hw0
      rcases hw0 with rfl | rfl <;> simp [keyValuePair, configName, isAlpha]
    have hcm : optComment Y = ([], Y) := by
      rw [hYeq]
      simp only [isSpace, Bool.or_eq_true, beq_iff_eq] at hw0
      rcases hw0 with rfl | rfl <;> simp [optComment, comment]
    rw [hkv] at hiter
    simp only [hcm, List.append_nil] at hiter
    simp only [bodyLoop, hiter]
    have : (Y.length == (t ++ Y).length) = false := by
      simp only [List.length_append, beq_eq_false_iff_ne, ne_eq]; omega
    simp only [this, Bool.false_eq_true, ↓reduceIte]
    cases bodyLoop g' Y with
    | none => rfl
    | some p => simp
  | none =>
    have hos : optSpaces Y = ([], Y) := by simp [optSpaces, hs]
    have hiterY : bodyIter Y = (match keyValuePair Y with
        | none => none
        | some (kv, r) => some (kv ++ (optComment r).1, (optComment r).2)) := by
      unfold bodyIter
      simp only [hos, optNewlines_none hY]
      cases keyValuePair Y with
      | none => rfl
      | some p => simp
    obtain ⟨g'', rfl⟩ : ∃ g'', g' = g'' + 1 := ⟨g' - 1, by omega⟩
    cases hk : keyValuePair Y with
    | none =>
      rw [hk] at hiter hiterY
      simp [bodyLoop, hiter, hiterY]
    | some p =>
      obtain ⟨kv, r⟩ := p
      rw [hk] at hiter hiterY
      simp only at hiter hiterY
      have hok := bodyIter_ok hiterY
      have hle : (optComment r).2.length ≤ Y.length := length_le_of_ok hok
      have hne : ((optComment r).2.length == (t ++ Y).length) = false := by
        simp only [List.length_append, beq_eq_false_iff_ne, ne_eq]; omega
      conv => lhs; rw [bodyLoop]
      simp only [hiter, hne, Bool.false_eq_true, ↓reduceIte]
      by_cases hprog : (optComment r).2.length = Y.length
      · -- the original first iteration made no progress: nothing but the newline
        obtain ⟨he1, hr1⟩ := bodyIter_noprog hiterY hprog
        have hloop : bodyLoop (g'' + 1) Y = some ([], Y) := by
          simp only [bodyLoop, hiterY, hprog, beq_self_eq_true, ↓reduceIte, he1, hr1]
        rw [hr1, hloop]
        simp only [Option.map_some]
        have hkvn : kv = [] := by
          have := he1
          simp only [List.append_eq_nil_iff] at this
          exact this.1
        have hcn : (optComment r).1 = [] := by
          have := he1
          simp only [List.append_eq_nil_iff] at this
          exact this.2
        simp [hkvn, hcn]
      · have hne2 : ((optComment r).2.length == Y.length) = false := by simpa using hprog
        conv => rhs; rw [bodyLoop]
        simp only [hiterY, hne2, Bool.false_eq_true, ↓reduceIte]
        have hlt : (optComment r).2.length < g'' := by omega
        rw [bodyLoop_fuel (g'' + 1) g'' (optComment r).2 (by omega) hlt]
        cases bodyLoop g'' (optComment r).2 with
        | none => rfl
        | some q => simp

/-! ### a newline inserted after the first header of a text -/

theorem sectionRaw_ins {t : Bytes} (ht : NL t) {a Y r : Bytes} {h : Header} {evs : List Event}
    (hs : sectionRaw a = some (evs, r)) (hh : sectionHeaderRaw a = some (h, Y)) (hY : takeNewlines1 Y = none) :
    ∃ body, evs = .header h :: body ∧
      sectionRaw (h.writeWith id ++ (t ++ Y)) = some (.header h :: .newline t :: body, r) := by
  unfold sectionRaw at hs ⊢
  simp only [hh] at hs
  rw [sectionHeaderRaw_repl hh (t ++ Y)]
  simp only
  cases hb : bodyLoop (Y.length + 1) Y with
  | none => simp [hb] at hs
  | some q =>
    obtain ⟨body, r'⟩ := q
    simp only [hb, Option.some.injEq, Prod.mk.injEq] at hs
    obtain ⟨rfl, rfl⟩ := hs
    refine ⟨body, rfl, ?_⟩
    rw [bodyLoop_ins ht hY (Y.length + 1) ((t ++ Y).length + 1) (by omega) (by omega), hb]
    simp

theorem frontStep_bracket (r : Bytes) : frontStep (91 :: r) = none := by
  simp [frontStep, comment, takeSpaces1, spanP, List.takeWhile_cons, isSpace, takeNewlines1, takeNewlines]

theorem frontLoop_bracket (f : Nat) (r : Bytes) : frontLoop f (91 :: r) = ([], 91 :: r) := by
  cases f with
  | zero => rfl
  | succ n => simp [frontLoop, frontStep_bracket]

theorem writeWith_head (h : Header) (z : Bytes) : ∃ rr, h.writeWith id ++ z = 91 :: rr := by
  refine ⟨(h.writeWith id ++ z).tail, ?_⟩
  simp [Header.writeWith]

/-- INS: a text that starts with a section header; a newline written right after that header is
read as one more newline event, everything else as before -/
theorem parseRaw_ins {t : Bytes} (ht : NL t) {a : Bytes} {hr : Header} {revs' : List Event}
    (hp : parseRaw a = some (.header hr :: revs')) (hb : bomLen a = 0)
    (hY : takeNewlines1 (renderRaw revs') = none) :
    a = hr.writeWith id ++ renderRaw revs' ∧
    parseRaw (hr.writeWith id ++ (t ++ renderRaw revs')) = some (.header hr :: .newline t :: revs') := by
  have hok := parseRaw_ok hp
  rw [hb] at hok
  have hok' : hr.writeWith id ++ renderRaw revs' = a := by
    simpa [renderRaw, Event.writeRaw, Event.writeWith] using hok
  refine ⟨hok'.symm, ?_⟩
  obtain ⟨rr, ha⟩ := writeWith_head hr (renderRaw revs')
  rw [hok'] at ha
  -- the original parse: no front matter, sections from the first byte
  unfold parseRaw at hp
  rw [hb] at hp
  simp only [List.drop_zero] at hp
  rw [ha, frontLoop_bracket] at hp
  simp only [List.isEmpty_cons, Bool.false_eq_true, ↓reduceIte, List.nil_append, Option.map_eq_some_iff] at hp
  obtain ⟨more, hm, hmore⟩ := hp
  simp only [List.length_cons, sectionsRaw, List.isEmpty_cons, Bool.false_eq_true, ↓reduceIte] at hm
  rw [← ha] at hm
  cases hs : sectionRaw a with
  | none => simp [hs] at hm
  | some q =>
    obtain ⟨e1, r⟩ := q
    simp only [hs, Option.map_eq_some_iff] at hm
    obtain ⟨more2, hm2, rfl⟩ := hm
    have hlt := (sectionRaw_shrinks hs).1
    have hsr := hs
    unfold sectionRaw at hsr
    cases hh : sectionHeaderRaw a with
    | none => simp [hh] at hsr
    | some q2 =>
      obtain ⟨h0, Y0⟩ := q2
      simp only [hh] at hsr
      cases hbl : bodyLoop (Y0.length + 1) Y0 with
      | none => simp [hbl] at hsr
      | some q3 =>
        obtain ⟨body0, r0⟩ := q3
        simp only [hbl, Option.some.injEq, Prod.mk.injEq] at hsr
        obtain ⟨rfl, rfl⟩ := hsr
        simp only [List.cons_append, List.cons.injEq, Event.header.injEq] at hmore
        obtain ⟨rfl, hrevs⟩ := hmore
        have hY0 : Y0 = renderRaw revs' := by
          have h1 := sectionHeaderRaw_ok hh
          rw [← hok'] at h1
          exact List.append_cancel_left h1
        obtain ⟨body, he1, hins⟩ := sectionRaw_ins (Y := Y0) ht hs hh (by rw [hY0]; exact hY)
        simp only [List.cons.injEq, true_and] at he1
        subst he1
        rw [← hY0]
        -- the new parse
        obtain ⟨rr', ha'⟩ := writeWith_head h0 (t ++ Y0)
        unfold parseRaw
        have hb' : bomLen (h0.writeWith id ++ (t ++ Y0)) = 0 := by
          rw [ha']; exact bomLen_of_noBomHead _ (by simp [noBomHead])
        rw [hb']
        simp only [List.drop_zero]
        rw [ha', frontLoop_bracket]
        simp only [List.isEmpty_cons, Bool.false_eq_true, ↓reduceIte, List.nil_append, List.length_cons, sectionsRaw]
        rw [← ha', hins]
        simp only
        have hlen : (h0.writeWith id ++ (t ++ Y0)).length = a.length + t.length := by
          rw [← hok', hY0]; simp; omega
        have hl1 : rr.length + 1 = a.length := by rw [ha]; simp
        have hl2 : rr'.length + 1 = a.length + t.length := by rw [← hlen, ha']; simp
        rw [sectionsRaw_fuel rr'.length rr.length r0 (by omega) (by omega), hm2]
        simp [← hrevs]

/-! ### the file read back -/

theorem fileOfEvents_header_nl (hd : Header) (t : Bytes) (tl : List Event) :
    (fileOfEvents (.header hd :: .newline t :: tl)).entries = (fileOfEvents (.header hd :: tl)).entries ∧
    (fileOfEvents (.header hd :: .newline t :: tl)).headers = (fileOfEvents (.header hd :: tl)).headers := by
  simp [fileOfEvents, groupSections, File.entries, File.headers, bodyEntries]

theorem toReal_header_inv {e : Event} {hd : Header} (h : e.toReal = .header hd) : ∃ hr, e = .header hr ∧ hr.toReal = hd := by
  cases e <;> simp [Event.toReal] at h
  exact ⟨_, rfl, h⟩

/-- Print-then-parse with the newline `File::write_to` inserts after the FIRST section header, for
a text that starts with that header (raw events `header hr :: revs'`, all canonical): what is
written — header, the inserted newline `t`, everything else — parses back as the same events with
one newline event after the header. -/
theorem fileFromBytes_ins {t : Bytes} (ht : NL t) {bs : Bytes} {f : File} (h : fileFromBytes bs = some f)
    (hb : bomLen bs = 0) (hc : ∀ revs, parseRaw bs = some revs → ∀ e ∈ revs, e.canon = true)
    {hd : Header} {tl : List Event} (hev : f.events = .header hd :: tl)
    (hY : takeNewlines1 (render tl) = none) :
    fileFromBytes (render (.header hd :: .newline t :: tl)) = some (fileOfEvents (.header hd :: .newline t :: tl)) := by
  unfold fileFromBytes parseEvents at h
  simp only [Option.map_eq_some_iff] at h
  obtain ⟨evs, ⟨revs, hr, rfl⟩, rfl⟩ := h
  rw [fileOfEvents_events] at hev
  have hcan := hc revs hr
  cases revs with
  | nil => simp at hev
  | cons e0 revs' =>
    simp only [List.map_cons, List.cons.injEq] at hev
    obtain ⟨he0, htl⟩ := hev
    obtain ⟨hraw, rfl, hreal⟩ := toReal_header_inv he0
    have hcan' : ∀ e ∈ revs', e.canon = true := fun e he => hcan e (by simp [he])
    have hrtl : render tl = renderRaw revs' := by rw [← htl]; exact render_toReal_of_canon revs' hcan'
    have hhw : (Event.header hd).write = hraw.writeWith id := by
      have := (toReal_write_iff (.header hraw)).mpr (hcan _ (by simp))
      rw [he0] at this
      simpa [Event.writeRaw, Event.writeWith] using this
    obtain ⟨_, hins⟩ := parseRaw_ins ht hr hb (by rw [← hrtl]; exact hY)
    have htext : render (.header hd :: .newline t :: tl) = hraw.writeWith id ++ (t ++ renderRaw revs') := by
      simp only [render, List.flatMap_cons]
      rw [show List.flatMap Event.write tl = render tl from rfl, hrtl, hhw]
      simp [Event.write, Event.writeWith]
    unfold fileFromBytes parseEvents
    rw [htext, hins]
    simp [Event.toReal, he0, htl, ← hreal]

/-- the same with the final newline `t2` appended as well -/
theorem fileFromBytes_ins_app {t t2 : Bytes} (ht : NL t) (ht2 : NL t2) {G : Event → Bool} (hG : EofOk t2 G)
    (hGr : ∀ e : Event, G e.toReal = G e) {bs : Bytes} {f : File} (h : fileFromBytes bs = some f)
    (hb : bomLen bs = 0) (hc : ∀ revs, parseRaw bs = some revs → ∀ e ∈ revs, e.canon = true)
    {hd : Header} {tl : List Event} (hev : f.events = .header hd :: tl)
    (hY : takeNewlines1 (render tl) = none) (hne : render tl ≠ []) (h13 : render tl ≠ [13])
    (hl : LastOkG G f.events) :
    fileFromBytes (render (.header hd :: .newline t :: (tl ++ [.newline t2]))) =
      some (fileOfEvents (.header hd :: .newline t :: (tl ++ [.newline t2]))) := by
  unfold fileFromBytes parseEvents at h
  simp only [Option.map_eq_some_iff] at h
  obtain ⟨evs, ⟨revs, hr, rfl⟩, rfl⟩ := h
  rw [fileOfEvents_events] at hev hl
  have hcan := hc revs hr
  cases revs with
  | nil => simp at hev
  | cons e0 revs' =>
    simp only [List.map_cons, List.cons.injEq] at hev
    obtain ⟨he0, htl⟩ := hev
    obtain ⟨hraw, rfl, hreal⟩ := toReal_header_inv he0
    have hcan' : ∀ e ∈ revs', e.canon = true := fun e he => hcan e (by simp [he])
    have hrtl : render tl = renderRaw revs' := by rw [← htl]; exact render_toReal_of_canon revs' hcan'
    have hhw : (Event.header hd).write = hraw.writeWith id := by
      have := (toReal_write_iff (.header hraw)).mpr (hcan _ (by simp))
      rw [he0] at this
      simpa [Event.writeRaw, Event.writeWith] using this
    -- first the appended newline
    have hnb := noBomHead_of_parse hr hb
    have hl' : LastOkG G (Event.header hraw :: revs') := by
      obtain ⟨e, hle, hv⟩ := hl
      rw [List.getLast?_map] at hle
      cases hg : (Event.header hraw :: revs').getLast? with
      | none => rw [hg] at hle; simp at hle
      | some e1 =>
        rw [hg] at hle
        simp only [Option.map_some, Option.some.injEq] at hle
        subst hle
        exact ⟨e1, hg, by rw [← hGr, ← isHeaderEv_toReal]; exact hv⟩
    have happ := parseRaw_appH ht2 hG hr hnb ⟨Event.header hraw, by simp, rfl⟩ hl'
    simp only [List.cons_append] at happ
    have hb2 : bomLen (bs ++ t2) = 0 := bomLen_of_noBomHead _ (noBomHead_app ht2 bs hnb)
    have hY2 : takeNewlines1 (renderRaw (revs' ++ [Event.newline t2])) = none := by
      have : renderRaw (revs' ++ [Event.newline t2]) = renderRaw revs' ++ t2 := by
        simp [renderRaw, Event.writeRaw, Event.writeWith]
      rw [this, ← hrtl]
      exact takeNewlines1_none_app ht2 hY hne h13
    obtain ⟨_, hins⟩ := parseRaw_ins ht happ hb2 hY2
    have htext : render (.header hd :: .newline t :: (tl ++ [.newline t2])) =
        hraw.writeWith id ++ (t ++ renderRaw (revs' ++ [Event.newline t2])) := by
      have h1 : renderRaw (revs' ++ [Event.newline t2]) = renderRaw revs' ++ t2 := by
        simp [renderRaw, Event.writeRaw, Event.writeWith]
      simp only [render, List.flatMap_cons, List.flatMap_append]
      rw [show List.flatMap Event.write tl = render tl from rfl, hrtl, hhw, h1]
      simp [Event.write, Event.writeWith]
    unfold fileFromBytes parseEvents
    rw [htext, hins]
    simp [Event.toReal, he0, htl, ← hreal]

/-! ### front matter before the first header: stable under a change of what follows the header start -/

theorem spanP_repl (p : UInt8 → Bool) {w X1 c c' : Bytes} (h : spanP p (w ++ (X1 ++ c)) = (w, X1 ++ c))
    (hc : X1 ≠ [] ∨ (c ≠ [] ∧ c.head? = c'.head?)) : spanP p (w ++ (X1 ++ c')) = (w, X1 ++ c') := by
  obtain ⟨hall, hstop⟩ := spanP_split p (w ++ (X1 ++ c))
  rw [h] at hall hstop
  simp only at hall hstop
  cases X1 with
  | cons x X1' =>
    have := hstop x (X1' ++ c) rfl
    exact spanP_stop p w x (X1' ++ c') hall this
  | nil =>
    rcases hc with hc | ⟨hcne, hhd⟩
    · exact absurd rfl hc
    · simp only [List.nil_append] at hstop ⊢
      cases c with
      | nil => exact absurd rfl hcne
      | cons y c1 =>
        have hy := hstop y c1 rfl
        cases c' with
        | nil => simp at hhd
        | cons y' c1' =>
          simp only [List.head?_cons, Option.some.injEq] at hhd
          subst hhd
          exact spanP_stop p w y c1' hall hy

theorem takeNewlines_fall {c d : UInt8} (hc : c ≠ 10) (hcd : ¬(c = 13 ∧ d = 10)) (n : Nat) (rr : Bytes) :
    takeNewlines (n + 1) (c :: d :: rr) = ([], c :: d :: rr) := by
  rw [takeNewlines.eq_def]
  split
  · rename_i heq; simp at heq
  · rename_i heq; simp at heq; exact absurd ⟨heq.1, heq.2.1⟩ hcd
  · rename_i heq; simp at heq; exact absurd heq.1 hc
  · rfl

theorem takeNewlines_bracket (n : Nat) (z : Bytes) : takeNewlines n (91 :: z) = ([], 91 :: z) := by
  cases n with
  | zero => rfl
  | succ m =>
    cases z with
    | nil => simp [takeNewlines]
    | cons d rr => exact takeNewlines_fall (by decide) (by intro hh; exact absurd hh.1 (by decide)) m rr

/-- newline runs before a `[` -/
theorem takeNewlines_repl : ∀ (n : Nat) (X c1 c1' w X1 : Bytes),
    takeNewlines n (X ++ 91 :: c1) = (w, X1 ++ 91 :: c1) → X = w ++ X1 →
    takeNewlines n (X ++ 91 :: c1') = (w, X1 ++ 91 :: c1') := by
  intro n
  induction n with
  | zero =>
    intro X c1 c1' w X1 h hX
    simp only [takeNewlines, Prod.mk.injEq] at h
    obtain ⟨rfl, _⟩ := h
    simp only [List.nil_append] at hX
    subst hX
    simp [takeNewlines]
  | succ n ih =>
    intro X c1 c1' w X1 h hX
    match X, hX with
    | [], hX =>
      have hw := List.append_eq_nil_iff.mp hX.symm
      obtain ⟨rfl, rfl⟩ := hw
      simp only [List.nil_append]
      exact takeNewlines_bracket _ _
    | [x], hX =>
      by_cases hx : x = 10
      · subst hx
        simp only [List.cons_append, List.nil_append, takeNewlines, takeNewlines_bracket, Prod.mk.injEq] at h ⊢
        obtain ⟨rfl, _⟩ := h
        have : X1 = [] := by simpa using hX
        subst this
        exact ⟨rfl, rfl⟩
      · simp only [List.cons_append, List.nil_append] at h ⊢
        rw [takeNewlines_fall hx (by intro hh; exact absurd hh.2 (by decide)) n c1] at h
        rw [takeNewlines_fall hx (by intro hh; exact absurd hh.2 (by decide)) n c1']
        simp only [Prod.mk.injEq] at h ⊢
        obtain ⟨rfl, _⟩ := h
        simp only [List.nil_append] at hX
        subst hX
        exact ⟨rfl, rfl⟩
    | x :: y :: X2, hX =>
      by_cases hx : x = 10
      · subst hx
        simp only [List.cons_append, takeNewlines, Prod.mk.injEq] at h ⊢
        obtain ⟨rfl, h2⟩ := h
        have hX' : y :: X2 = (takeNewlines n (y :: (X2 ++ 91 :: c1))).1 ++ X1 := by
          simpa using hX
        have := ih (y :: X2) c1 c1' _ X1 (Prod.ext rfl h2) hX'
        simp only [List.cons_append] at this
        rw [this]
        exact ⟨rfl, rfl⟩
      · by_cases hxy : x = 13 ∧ y = 10
        · obtain ⟨rfl, rfl⟩ := hxy
          simp only [List.cons_append, takeNewlines, Prod.mk.injEq] at h ⊢
          obtain ⟨rfl, h2⟩ := h
          have hX' : X2 = (takeNewlines n (X2 ++ 91 :: c1)).1 ++ X1 := by
            simpa using hX
          have := ih X2 c1 c1' _ X1 (Prod.ext rfl h2) hX'
          rw [this]
          exact ⟨rfl, rfl⟩
        · simp only [List.cons_append] at h ⊢
          rw [takeNewlines_fall hx hxy n] at h
          rw [takeNewlines_fall hx hxy n]
          simp only [Prod.mk.injEq] at h ⊢
          obtain ⟨rfl, _⟩ := h
          simp only [List.nil_append] at hX
          rw [← hX]
          exact ⟨rfl, rfl⟩

theorem frontStep_repl {X X1 c1 c1' : Bytes} {e : Event} (hX : X ≠ [])
    (h : frontStep (X ++ 91 :: c1) = some (e, X1 ++ 91 :: c1)) :
    frontStep (X ++ 91 :: c1') = some (e, X1 ++ 91 :: c1') := by
  cases X with
  | nil => exact absurd rfl hX
  | cons x X' =>
    unfold frontStep at h ⊢
    simp only [List.cons_append] at h ⊢
    by_cases hx : (x == 59 || x == 35) = true
    · -- a comment
      simp only [comment, hx, ↓reduceIte, Option.some.injEq, Prod.mk.injEq] at h ⊢
      obtain ⟨rfl, h2⟩ := h
      have happ := spanP_append (fun b => b != 10) (X' ++ 91 :: c1)
      rw [h2] at happ
      have hX' : (spanP (fun b => b != 10) (X' ++ 91 :: c1)).1 ++ X1 = X' := by
        have : ((spanP (fun b => b != 10) (X' ++ 91 :: c1)).1 ++ X1) ++ 91 :: c1 = X' ++ 91 :: c1 := by
          simpa using happ
        exact List.append_cancel_right this
      generalize hw : (spanP (fun b => b != 10) (X' ++ 91 :: c1)).1 = w at h2 hX'
      have h3 : spanP (fun b => b != 10) (w ++ (X1 ++ 91 :: c1)) = (w, X1 ++ 91 :: c1) := by
        rw [← List.append_assoc, hX']; exact Prod.ext hw h2
      have := spanP_repl (c' := 91 :: c1') (fun b => b != 10) h3 (Or.inr ⟨by simp, rfl⟩)
      rw [← List.append_assoc, hX'] at this
      rw [this]
      exact ⟨rfl, rfl⟩
    · have hcn : ∀ z, comment (x :: z) = none := by intro z; simp [comment, hx]
      simp only [hcn] at h ⊢
      by_cases hsp : isSpace x = true
      · -- whitespace
        cases hs : takeSpaces1 (x :: (X' ++ 91 :: c1)) with
        | none =>
          exfalso
          simp [takeSpaces1, spanP, List.takeWhile_cons, hsp] at hs
        | some q =>
          obtain ⟨w, r⟩ := q
          simp only [hs, Option.some.injEq, Prod.mk.injEq] at h
          obtain ⟨rfl, rfl⟩ := h
          obtain ⟨hwr, hwne, _⟩ := takeSpaces1_ok hs
          have hX' : w ++ X1 = x :: X' := by
            have : (w ++ X1) ++ 91 :: c1 = (x :: X') ++ 91 :: c1 := by simpa using hwr
            exact List.append_cancel_right this
          have hsp1 : spanP isSpace (w ++ (X1 ++ 91 :: c1)) = (w, X1 ++ 91 :: c1) := by
            unfold takeSpaces1 at hs
            simp only at hs
            split at hs
            · simp at hs
            · simp only [Option.some.injEq] at hs
              rw [← List.append_assoc, hX']; exact hs
          have := spanP_repl (c' := 91 :: c1') isSpace hsp1 (Or.inr ⟨by simp, rfl⟩)
          rw [← List.append_assoc, hX'] at this
          have hts : takeSpaces1 (x :: (X' ++ 91 :: c1')) = some (w, X1 ++ 91 :: c1') := by
            unfold takeSpaces1
            simp only [List.cons_append] at this
            simp only [this]
            cases w with
            | nil => exact absurd rfl hwne
            | cons _ _ => simp
          simp [hts]
      · have hsn : ∀ z, takeSpaces1 (x :: z) = none := by
          intro z; simp [takeSpaces1, spanP, List.takeWhile_cons, hsp]
        simp only [hsn] at h ⊢
        cases hn : takeNewlines1 (x :: (X' ++ 91 :: c1)) with
        | none => simp [hn] at h
        | some q =>
          obtain ⟨w, r⟩ := q
          simp only [hn, Option.some.injEq, Prod.mk.injEq] at h
          obtain ⟨rfl, rfl⟩ := h
          have hwr := (takeNewlines1_ok hn).1
          have hwne := (takeNewlines1_ok hn).2
          have hX' : x :: X' = w ++ X1 := by
            have : (w ++ X1) ++ 91 :: c1 = (x :: X') ++ 91 :: c1 := by simpa using hwr
            exact (List.append_cancel_right this).symm
          unfold takeNewlines1 at hn
          simp only at hn
          split at hn
          · simp at hn
          · simp only [Option.some.injEq] at hn
            have := takeNewlines_repl 1023 (x :: X') c1 c1' w X1 (by simpa using hn) hX'
            simp only [List.cons_append] at this
            unfold takeNewlines1
            simp only [this]
            cases w with
            | nil => exact absurd rfl hwne
            | cons _ _ => simp

/-- the front matter before a `[`: the same events whatever follows the bracket -/
theorem frontLoop_repl : ∀ (f : Nat) (X c1 c1' : Bytes) (fe : List Event) (g : Nat),
    frontLoop f (X ++ 91 :: c1) = (fe, 91 :: c1) → X.length ≤ g →
    frontLoop g (X ++ 91 :: c1') = (fe, 91 :: c1') := by
  intro f
  induction f with
  | zero =>
    intro X c1 c1' fe g h hg
    simp only [frontLoop, Prod.mk.injEq] at h
    obtain ⟨rfl, h2⟩ := h
    have : X = [] := by
      have := congrArg List.length h2
      simp only [List.length_append, List.length_cons] at this
      exact List.eq_nil_of_length_eq_zero (by omega)
    subst this
    exact frontLoop_bracket g c1'
  | succ f ih =>
    intro X c1 c1' fe g h hg
    by_cases hX : X = []
    · subst hX
      simp only [List.nil_append] at h ⊢
      rw [frontLoop_bracket] at h ⊢
      simp only [Prod.mk.injEq] at h
      rw [← h.1]
    · simp only [frontLoop] at h
      cases hs : frontStep (X ++ 91 :: c1) with
      | none =>
        simp only [hs, Prod.mk.injEq] at h
        exfalso
        have := congrArg List.length h.2
        simp only [List.length_append, List.length_cons] at this
        exact hX (List.eq_nil_of_length_eq_zero (by omega))
      | some p =>
        obtain ⟨e, r⟩ := p
        simp only [hs, Prod.mk.injEq] at h
        obtain ⟨rfl, h2⟩ := h
        -- the rest of the step still ends in the bracket text
        have hok := frontLoop_ok f r
        rw [h2] at hok
        have hstep := frontStep_ok hs
        obtain ⟨X1, hr, hXeq⟩ : ∃ X1, r = X1 ++ 91 :: c1 ∧ X = e.writeRaw ++ X1 := by
          refine ⟨renderRaw (frontLoop f r).1, hok.symm, ?_⟩
          have h1 := hstep.1
          rw [← hok] at h1
          have : (e.writeRaw ++ renderRaw (frontLoop f r).1) ++ 91 :: c1 = X ++ 91 :: c1 := by simpa using h1
          exact (List.append_cancel_right this).symm
        subst hr
        have hs' := frontStep_repl (c1' := c1') hX hs
        obtain ⟨g', rfl⟩ : ∃ g', g = g' + 1 := by
          cases g with
          | zero => exfalso; simp at hg; exact hX hg
          | succ g' => exact ⟨g', rfl⟩
        have hlen : X1.length ≤ g' := by
          have h1 := hstep.2
          simp at h1 hg
          have := congrArg List.length hXeq
          simp at this
          omega
        simp only [frontLoop, hs']
        rw [ih X1 c1 c1' _ g' (Prod.ext rfl h2) hlen]

theorem split_first_header : ∀ (l1 l2 : List Event) (h1 h2 : Header) (r1 r2 : List Event),
    (∀ e ∈ l1, isHeaderEv e = false) → (∀ e ∈ l2, isHeaderEv e = false) →
    l1 ++ .header h1 :: r1 = l2 ++ .header h2 :: r2 → l1 = l2 ∧ h1 = h2 ∧ r1 = r2 := by
  intro l1
  induction l1 with
  | nil =>
    intro l2 h1 h2 r1 r2 _ hl2 h
    cases l2 with
    | nil => simpa using h
    | cons e l2' =>
      simp only [List.nil_append, List.cons_append, List.cons.injEq] at h
      have := hl2 e (by simp)
      rw [← h.1] at this; simp [isHeaderEv] at this
  | cons e l1' ih =>
    intro l2 h1 h2 r1 r2 hl1 hl2 h
    cases l2 with
    | nil =>
      simp only [List.nil_append, List.cons_append, List.cons.injEq] at h
      have := hl1 e (by simp)
      rw [h.1] at this; simp [isHeaderEv] at this
    | cons e2 l2' =>
      simp only [List.cons_append, List.cons.injEq] at h
      obtain ⟨rfl, h'⟩ := h
      obtain ⟨rfl, rfl, rfl⟩ := ih l2' h1 h2 r1 r2 (fun x hx => hl1 x (by simp [hx])) (fun x hx => hl2 x (by simp [hx])) h'
      exact ⟨rfl, rfl, rfl⟩

theorem noBomHead_same_head {x : UInt8} {r r' : Bytes} (h : noBomHead (x :: r) = true) : noBomHead (x :: r') = true := by
  simpa [noBomHead] using h

/-- INS with front matter: comments, blank lines and whitespace before the first header stay what
they are -/
theorem parseRaw_insF {t : Bytes} (ht : NL t) {a : Bytes} {fe : List Event} {hr : Header} {revs' : List Event}
    (hp : parseRaw a = some (fe ++ .header hr :: revs')) (hfe : ∀ e ∈ fe, isHeaderEv e = false) (hb : bomLen a = 0)
    (hY : takeNewlines1 (renderRaw revs') = none) :
    parseRaw (renderRaw fe ++ (hr.writeWith id ++ (t ++ renderRaw revs'))) =
      some (fe ++ .header hr :: .newline t :: revs') := by
  have hnb := noBomHead_of_parse hp hb
  have hp0 := hp
  unfold parseRaw at hp
  rw [hb] at hp
  simp only [List.drop_zero] at hp
  have hfk := frontLoop_kind2 a.length a
  have hfok := frontLoop_ok a.length a
  generalize hfm : frontLoop a.length a = fm at hp hfk hfok
  obtain ⟨fm1, fm2⟩ := fm
  simp only at hp hfk hfok
  by_cases he : fm2.isEmpty = true
  · exfalso
    simp only [he, ↓reduceIte, Option.some.injEq] at hp
    have := hfk (.header hr) (by rw [hp]; simp)
    simp [isHeaderEv] at this
  · simp only [he, Bool.false_eq_true, ↓reduceIte, Option.map_eq_some_iff] at hp
    obtain ⟨more, hm, hmore⟩ := hp
    have hne : fm2 ≠ [] := by simpa using he
    -- `more` starts with a header
    obtain ⟨h0, rest0, rfl⟩ : ∃ h0 rest0, more = .header h0 :: rest0 := by
      cases hl : fm2.length with
      | zero => exact absurd (List.eq_nil_of_length_eq_zero hl) hne
      | succ k =>
        rw [hl] at hm
        have hee : fm2.isEmpty = false := by simpa using hne
        simp only [sectionsRaw, hee, Bool.false_eq_true, ↓reduceIte] at hm
        cases hs : sectionRaw fm2 with
        | none => simp [hs] at hm
        | some q =>
          obtain ⟨e1, r⟩ := q
          simp only [hs, Option.map_eq_some_iff] at hm
          obtain ⟨m2, _, rfl⟩ := hm
          obtain ⟨_, hd, body, rfl⟩ := sectionRaw_shrinks hs
          exact ⟨hd, body ++ m2, rfl⟩
    obtain ⟨rfl, rfl, rfl⟩ := split_first_header fm1 fe h0 hr rest0 revs' hfk hfe hmore
    -- the section text on its own
    have hsok := sectionsRaw_ok _ _ _ hm
    obtain ⟨c1, hc1⟩ := writeWith_head h0 (renderRaw rest0)
    have hfm2 : fm2 = 91 :: c1 := by
      rw [← hsok, ← hc1]; simp [renderRaw, Event.writeRaw, Event.writeWith]
    have hp2 : parseRaw fm2 = some (.header h0 :: rest0) := by
      unfold parseRaw
      have : bomLen fm2 = 0 := by rw [hfm2]; exact bomLen_of_noBomHead _ (by simp [noBomHead])
      rw [this]
      simp only [List.drop_zero]
      rw [hfm2, frontLoop_bracket]
      simp only [List.isEmpty_cons, Bool.false_eq_true, ↓reduceIte, List.nil_append]
      rw [← hfm2, hm]; rfl
    have hb2 : bomLen fm2 = 0 := by rw [hfm2]; exact bomLen_of_noBomHead _ (by simp [noBomHead])
    obtain ⟨hfm2eq, hins⟩ := parseRaw_ins ht hp2 hb2 hY
    -- the new section text parses on its own ...
    obtain ⟨c1', hc1'⟩ := writeWith_head h0 (t ++ renderRaw rest0)
    have hsec' : sectionsRaw (91 :: c1').length (91 :: c1') = some (.header h0 :: .newline t :: rest0) := by
      unfold parseRaw at hins
      have : bomLen (h0.writeWith id ++ (t ++ renderRaw rest0)) = 0 := by
        rw [hc1']; exact bomLen_of_noBomHead _ (by simp [noBomHead])
      rw [this] at hins
      simp only [List.drop_zero] at hins
      rw [hc1', frontLoop_bracket] at hins
      simpa using hins
    -- ... and so does the whole new text
    rw [hc1']
    unfold parseRaw
    have hnb' : noBomHead (renderRaw fm1 ++ 91 :: c1') = true := by
      cases hF : renderRaw fm1 with
      | nil => simp [noBomHead]
      | cons x F' =>
        rw [← hfok, hF] at hnb
        exact noBomHead_same_head hnb
    rw [bomLen_of_noBomHead _ hnb']
    simp only [List.drop_zero]
    have hfl : frontLoop a.length (renderRaw fm1 ++ 91 :: c1) = (fm1, 91 :: c1) := by
      rw [← hfm2, hfok]; exact hfm
    have := frontLoop_repl a.length (renderRaw fm1) c1 c1' fm1 (renderRaw fm1 ++ 91 :: c1').length hfl (by simp)
    rw [this]
    simp only [List.isEmpty_cons, Bool.false_eq_true, ↓reduceIte, hsec']
    rfl

/-! ### the file read back, with front matter -/

theorem groupSections_front : ∀ (fe X : List Event), (∀ e ∈ fe, isHeaderEv e = false) →
    groupSections (fe ++ X) = (fe ++ (groupSections X).1, (groupSections X).2) := by
  intro fe
  induction fe with
  | nil => intro X _; rfl
  | cons e fe ih =>
    intro X hfe
    have he := hfe e (by simp)
    have := ih X (fun x hx => hfe x (by simp [hx]))
    cases e <;> simp [isHeaderEv] at he <;> simp [groupSections, this]

theorem fileOfEvents_front_header_nl (fe : List Event) (hfe : ∀ e ∈ fe, isHeaderEv e = false) (hd : Header) (t : Bytes)
    (tl : List Event) :
    (fileOfEvents (fe ++ .header hd :: .newline t :: tl)).entries = (fileOfEvents (fe ++ .header hd :: tl)).entries ∧
    (fileOfEvents (fe ++ .header hd :: .newline t :: tl)).headers = (fileOfEvents (fe ++ .header hd :: tl)).headers := by
  simp [fileOfEvents, groupSections_front fe _ hfe, groupSections, File.entries, File.headers, bodyEntries]

theorem map_toReal_split {revs fe tl : List Event} {hd : Header} (h : revs.map Event.toReal = fe ++ .header hd :: tl) :
    ∃ rfe hraw revs', revs = rfe ++ .header hraw :: revs' ∧ rfe.map Event.toReal = fe ∧ hraw.toReal = hd ∧
      revs'.map Event.toReal = tl := by
  obtain ⟨a, b, rfl, ha, hb⟩ := List.map_eq_append_iff.mp h
  cases b with
  | nil => simp at hb
  | cons e0 revs' =>
    simp only [List.map_cons, List.cons.injEq] at hb
    obtain ⟨hraw, rfl, hreal⟩ := toReal_header_inv hb.1
    exact ⟨a, hraw, revs', rfl, ha, hreal, hb.2⟩

/-- front matter, first header, inserted newline `t`, the rest — and optionally the final newline `t2` -/
theorem fileFromBytes_insF {t : Bytes} (ht : NL t) {bs : Bytes} {f : File} (h : fileFromBytes bs = some f)
    (hb : bomLen bs = 0) (hc : ∀ revs, parseRaw bs = some revs → ∀ e ∈ revs, e.canon = true)
    {fe : List Event} {hd : Header} {tl : List Event} (hfe : ∀ e ∈ fe, isHeaderEv e = false)
    (hev : f.events = fe ++ .header hd :: tl) (hY : takeNewlines1 (render tl) = none) :
    fileFromBytes (render (fe ++ .header hd :: .newline t :: tl)) =
      some (fileOfEvents (fe ++ .header hd :: .newline t :: tl)) := by
  unfold fileFromBytes parseEvents at h
  simp only [Option.map_eq_some_iff] at h
  obtain ⟨evs, ⟨revs, hr, rfl⟩, rfl⟩ := h
  rw [fileOfEvents_events] at hev
  have hcan := hc revs hr
  obtain ⟨rfe, hraw, revs', rfl, hrfe, hreal, htl⟩ := map_toReal_split hev
  have hcan1 : ∀ e ∈ rfe, e.canon = true := fun e he => hcan e (by simp [he])
  have hcan' : ∀ e ∈ revs', e.canon = true := fun e he => hcan e (by simp [he])
  have hrfe_h : ∀ e ∈ rfe, isHeaderEv e = false := by
    intro e he
    rw [← isHeaderEv_toReal]
    exact hfe _ (by rw [← hrfe]; exact List.mem_map_of_mem he)
  have hrtl : render tl = renderRaw revs' := by rw [← htl]; exact render_toReal_of_canon revs' hcan'
  have hrfe' : render fe = renderRaw rfe := by rw [← hrfe]; exact render_toReal_of_canon rfe hcan1
  have hhw : (Event.header hd).write = hraw.writeWith id := by
    have := (toReal_write_iff (.header hraw)).mpr (hcan _ (by simp))
    rw [show (Event.header hraw).toReal = Event.header hd by simp [Event.toReal, hreal]] at this
    simpa [Event.writeRaw, Event.writeWith] using this
  have hins := parseRaw_insF ht hr hrfe_h hb (by rw [← hrtl]; exact hY)
  have htext : render (fe ++ .header hd :: .newline t :: tl) =
      renderRaw rfe ++ (hraw.writeWith id ++ (t ++ renderRaw revs')) := by
    simp only [render, List.flatMap_append, List.flatMap_cons]
    rw [show List.flatMap Event.write tl = render tl from rfl, show List.flatMap Event.write fe = render fe from rfl,
      hrtl, hrfe', hhw]
    simp [Event.write, Event.writeWith]
  unfold fileFromBytes parseEvents
  rw [htext, hins]
  simp [Event.toReal, hrfe, htl, hreal]

theorem fileFromBytes_insF_app {t t2 : Bytes} (ht : NL t) (ht2 : NL t2) {G : Event → Bool} (hG : EofOk t2 G)
    (hGr : ∀ e : Event, G e.toReal = G e) {bs : Bytes} {f : File} (h : fileFromBytes bs = some f)
    (hb : bomLen bs = 0) (hc : ∀ revs, parseRaw bs = some revs → ∀ e ∈ revs, e.canon = true)
    {fe : List Event} {hd : Header} {tl : List Event} (hfe : ∀ e ∈ fe, isHeaderEv e = false)
    (hev : f.events = fe ++ .header hd :: tl)
    (hY : takeNewlines1 (render tl) = none) (hne : render tl ≠ []) (h13 : render tl ≠ [13])
    (hl : LastOkG G f.events) :
    fileFromBytes (render (fe ++ .header hd :: .newline t :: (tl ++ [.newline t2]))) =
      some (fileOfEvents (fe ++ .header hd :: .newline t :: (tl ++ [.newline t2]))) := by
  unfold fileFromBytes parseEvents at h
  simp only [Option.map_eq_some_iff] at h
  obtain ⟨evs, ⟨revs, hr, rfl⟩, rfl⟩ := h
  rw [fileOfEvents_events] at hev hl
  have hcan := hc revs hr
  obtain ⟨rfe, hraw, revs', rfl, hrfe, hreal, htl⟩ := map_toReal_split hev
  have hcan1 : ∀ e ∈ rfe, e.canon = true := fun e he => hcan e (by simp [he])
  have hcan' : ∀ e ∈ revs', e.canon = true := fun e he => hcan e (by simp [he])
  have hrfe_h : ∀ e ∈ rfe, isHeaderEv e = false := by
    intro e he
    rw [← isHeaderEv_toReal]
    exact hfe _ (by rw [← hrfe]; exact List.mem_map_of_mem he)
  have hrtl : render tl = renderRaw revs' := by rw [← htl]; exact render_toReal_of_canon revs' hcan'
  have hrfe' : render fe = renderRaw rfe := by rw [← hrfe]; exact render_toReal_of_canon rfe hcan1
  have hhw : (Event.header hd).write = hraw.writeWith id := by
    have := (toReal_write_iff (.header hraw)).mpr (hcan _ (by simp))
    rw [show (Event.header hraw).toReal = Event.header hd by simp [Event.toReal, hreal]] at this
    simpa [Event.writeRaw, Event.writeWith] using this
  have hnb := noBomHead_of_parse hr hb
  have hl' : LastOkG G (rfe ++ Event.header hraw :: revs') := by
    obtain ⟨e, hle, hv⟩ := hl
    rw [List.getLast?_map] at hle
    cases hg : (rfe ++ Event.header hraw :: revs').getLast? with
    | none => rw [hg] at hle; simp at hle
    | some e1 =>
      rw [hg] at hle
      simp only [Option.map_some, Option.some.injEq] at hle
      subst hle
      exact ⟨e1, hg, by rw [← hGr, ← isHeaderEv_toReal]; exact hv⟩
  have happ := parseRaw_appH ht2 hG hr hnb ⟨Event.header hraw, by simp, rfl⟩ hl'
  have happ' : parseRaw (bs ++ t2) = some (rfe ++ Event.header hraw :: (revs' ++ [Event.newline t2])) := by
    rw [happ]; simp
  have hb2 : bomLen (bs ++ t2) = 0 := bomLen_of_noBomHead _ (noBomHead_app ht2 bs hnb)
  have hren : renderRaw (revs' ++ [Event.newline t2]) = renderRaw revs' ++ t2 := by
    simp [renderRaw, Event.writeRaw, Event.writeWith]
  have hY2 : takeNewlines1 (renderRaw (revs' ++ [Event.newline t2])) = none := by
    rw [hren, ← hrtl]
    exact takeNewlines1_none_app ht2 hY hne h13
  have hins := parseRaw_insF ht happ' hrfe_h hb2 hY2
  have htext : render (fe ++ .header hd :: .newline t :: (tl ++ [.newline t2])) =
      renderRaw rfe ++ (hraw.writeWith id ++ (t ++ renderRaw (revs' ++ [Event.newline t2]))) := by
    simp only [render, List.flatMap_append, List.flatMap_cons]
    rw [show List.flatMap Event.write tl = render tl from rfl, show List.flatMap Event.write fe = render fe from rfl,
      hrtl, hrfe', hhw, hren]
    simp [Event.write, Event.writeWith]
  unfold fileFromBytes parseEvents
  rw [htext, hins]
  simp [Event.toReal, hrfe, htl, hreal]

end GixModel.C26
