import GixModel.Model.C46
import GixModel.Spec.C46
/-
C46 — lemmas, part 1: `paint_down_to_common`.

`PInv` is the loop invariant; it does not mention the order in which the queue hands out its
entries at all. `paint_spec` is the summary used by the property theorems: with the prescribed
fuel the loop ends regularly (no panic, fuel left) and its output consists of common ancestors and
contains EVERY maximal common ancestor — for arbitrary commit times and generation numbers.
-/
namespace GixModel.C46
open GixModel GixModel.CG GixModel.Spec.C46

theorem FlagMap.set_same (m : FlagMap) (i : Nat) (f : Flags) : (m.set i f) i = f := by
  simp [FlagMap.set]

theorem FlagMap.set_other (m : FlagMap) {i j : Nat} (f : Flags) (h : j ≠ i) : (m.set i f) j = m j := by
  simp [FlagMap.set, h]

theorem rank_ne_parent {g : Dag} (hac : Acyclic g) {c p y : Nat} (hp : p ∈ g.parents c) (hy : Reach g y c) :
    y ≠ p := by
  obtain ⟨rank, hr⟩ := hac
  intro h
  subst h
  have h1 := hr _ _ hp
  have h2 := hy.rank_le hr
  omega

/-- growth of the three painted flags -/
def Flags.sub (f f' : Flags) : Prop :=
  (f.c1 = true → f'.c1 = true) ∧ (f.c2 = true → f'.c2 = true) ∧ (f.stale = true → f'.stale = true)

theorem Flags.sub_refl (f : Flags) : f.sub f := ⟨id, id, id⟩

theorem Flags.sub_trans {a b c : Flags} (h1 : a.sub b) (h2 : b.sub c) : a.sub c :=
  ⟨fun h => h2.1 (h1.1 h), fun h => h2.2.1 (h1.2.1 h), fun h => h2.2.2 (h1.2.2 h)⟩

theorem Flags.sub_add (f : Flags) (p : Pass) : f.sub (f.add p) := by
  refine ⟨?_, ?_, ?_⟩ <;> intro h <;> simp [Flags.add, h]

theorem Flags.covers_add (f : Flags) (p : Pass) : (f.add p).covers p = true := by
  rcases f with ⟨a, b, c, d⟩
  rcases p with ⟨x, y, z⟩
  cases a <;> cases b <;> cases c <;> cases x <;> cases y <;> cases z <;> rfl

theorem Flags.covers_mono {f f' : Flags} {p : Pass} (h : f.sub f') (hc : f.covers p = true) :
    f'.covers p = true := by
  rcases f with ⟨a, b, c, d⟩
  rcases f' with ⟨a', b', c', d'⟩
  rcases p with ⟨x, y, z⟩
  obtain ⟨h1, h2, h3⟩ := h
  simp only [Flags.covers, Bool.and_eq_true, Bool.or_eq_true, Bool.not_eq_true'] at hc ⊢
  obtain ⟨⟨hc1, hc2⟩, hc3⟩ := hc
  refine ⟨⟨?_, ?_⟩, ?_⟩
  · cases hc1 with
    | inl h => exact Or.inl h
    | inr h => exact Or.inr (h1 h)
  · cases hc2 with
    | inl h => exact Or.inl h
    | inr h => exact Or.inr (h2 h)
  · cases hc3 with
    | inl h => exact Or.inl h
    | inr h => exact Or.inr (h3 h)

theorem Flags.add_result (f : Flags) (p : Pass) : (f.add p).result = f.result := rfl

theorem Flags.covers_c1 {f : Flags} {p : Pass} (hc : f.covers p = true) (h : p.c1 = true) : f.c1 = true := by
  rcases f with ⟨a, b, c, d⟩
  rcases p with ⟨x, y, z⟩
  simp only at h
  subst h
  cases a <;> simp [Flags.covers] at hc ⊢

theorem Flags.covers_c2 {f : Flags} {p : Pass} (hc : f.covers p = true) (h : p.c2 = true) : f.c2 = true := by
  rcases f with ⟨a, b, c, d⟩
  rcases p with ⟨x, y, z⟩
  simp only at h
  subst h
  cases b <;> simp [Flags.covers] at hc ⊢

/-! ### the loop over the parents -/

theorem propagate_flags (g : Dag) (q : PQ Key) (pass : Pass) :
    ∀ (ps : List Nat) (fl : FlagMap) (qu : q.Q) (x : Nat),
      (propagate g q pass ps fl qu).1 x
        = if x ∈ ps ∧ (fl x).covers pass = false then (fl x).add pass else fl x := by
  intro ps
  induction ps with
  | nil => intro fl qu x; simp [propagate]
  | cons p ps ih =>
    intro fl qu x
    unfold propagate
    by_cases hc : (fl p).covers pass = true
    · rw [if_pos hc, ih]
      by_cases hx : x = p
      · subst hx
        simp [hc]
      · simp [hx]
    · rw [if_neg hc, ih]
      have hcf : (fl p).covers pass = false := by simpa using hc
      by_cases hx : x = p
      · subst hx
        rw [FlagMap.set_same]
        simp [Flags.covers_add, hcf]
      · rw [FlagMap.set_other _ _ hx]
        simp [hx]

theorem propagate_sub (g : Dag) (q : PQ Key) (pass : Pass) (ps : List Nat) (fl : FlagMap) (qu : q.Q)
    (x : Nat) : (fl x).sub ((propagate g q pass ps fl qu).1 x) := by
  rw [propagate_flags]
  split
  · exact Flags.sub_add _ _
  · exact Flags.sub_refl _

theorem propagate_result (g : Dag) (q : PQ Key) (pass : Pass) (ps : List Nat) (fl : FlagMap) (qu : q.Q)
    (x : Nat) : ((propagate g q pass ps fl qu).1 x).result = (fl x).result := by
  rw [propagate_flags]
  split <;> rfl

theorem propagate_covers (g : Dag) (q : PQ Key) (pass : Pass) (ps : List Nat) (fl : FlagMap) (qu : q.Q)
    (p : Nat) (hp : p ∈ ps) : ((propagate g q pass ps fl qu).1 p).covers pass = true := by
  rw [propagate_flags]
  by_cases hc : (fl p).covers pass = true
  · have : ¬(p ∈ ps ∧ (fl p).covers pass = false) := by simp [hc]
    rw [if_neg this]; exact hc
  · have hcf : (fl p).covers pass = false := by simpa using hc
    rw [if_pos ⟨hp, hcf⟩]; exact Flags.covers_add _ _

theorem propagate_items {g : Dag} {q : PQ Key} (hq : q.Lawful) (pass : Pass) :
    ∀ (ps : List Nat) (fl : FlagMap) (qu : q.Q),
      (∀ e, e ∈ q.items qu → e ∈ q.items (propagate g q pass ps fl qu).2) ∧
      (∀ e, e ∈ q.items (propagate g q pass ps fl qu).2 →
          e ∈ q.items qu ∨ (e.1 = keyOf g e.2 ∧ e.2 ∈ ps)) ∧
      (∀ p, p ∈ ps → (fl p).covers pass = false →
          (keyOf g p, p) ∈ q.items (propagate g q pass ps fl qu).2) := by
  intro ps
  induction ps with
  | nil =>
    intro fl qu
    refine ⟨fun e h => h, fun e h => Or.inl h, ?_⟩
    intro p hp; simp at hp
  | cons p ps ih =>
    intro fl qu
    unfold propagate
    by_cases hc : (fl p).covers pass = true
    · rw [if_pos hc]
      obtain ⟨i1, i2, i3⟩ := ih fl qu
      refine ⟨i1, ?_, ?_⟩
      · intro e he
        cases i2 e he with
        | inl h => exact Or.inl h
        | inr h => exact Or.inr ⟨h.1, List.mem_cons_of_mem _ h.2⟩
      · intro p' hp' hcf
        cases List.mem_cons.mp hp' with
        | inl h => subst h; rw [hc] at hcf; cases hcf
        | inr h => exact i3 p' h hcf
    · rw [if_neg hc]
      obtain ⟨i1, i2, i3⟩ := ih (fl.set p ((fl p).add pass)) (q.insert (keyOf g p) p qu)
      have hins := hq.items_insert (keyOf g p) p qu
      refine ⟨?_, ?_, ?_⟩
      · intro e he
        exact i1 e (hins.symm.subset (List.mem_cons_of_mem _ he))
      · intro e he
        cases i2 e he with
        | inl h =>
          cases List.mem_cons.mp (hins.subset h) with
          | inl h' => subst h'; exact Or.inr ⟨rfl, List.mem_cons_self⟩
          | inr h' => exact Or.inl h'
        | inr h => exact Or.inr ⟨h.1, List.mem_cons_of_mem _ h.2⟩
      · intro p' hp' hcf
        by_cases hpp : p' = p
        · subst hpp
          exact i1 _ (hins.symm.subset List.mem_cons_self)
        · cases List.mem_cons.mp hp' with
          | inl h => exact absurd h hpp
          | inr h =>
            apply i3 p' h
            rw [FlagMap.set_other _ _ hpp]; exact hcf

/-! ### the termination measure: queue length + number of flag bits still missing -/

def missing (f : Flags) : Nat :=
  (if f.c1 then 0 else 1) + (if f.c2 then 0 else 1) + (if f.stale then 0 else 1)

def deficit (nodes : List Nat) (fl : FlagMap) : Nat := (nodes.map fun x => missing (fl x)).sum

theorem missing_le (f : Flags) : missing f ≤ 3 := by
  unfold missing
  split <;> split <;> split <;> omega

theorem deficit_le (nodes : List Nat) (fl : FlagMap) : deficit nodes fl ≤ 3 * nodes.length := by
  induction nodes with
  | nil => simp [deficit]
  | cons x xs ih =>
    have := missing_le (fl x)
    simp only [deficit, List.map_cons, List.sum_cons, List.length_cons] at ih ⊢
    omega

theorem deficit_congr (nodes : List Nat) (fl fl' : FlagMap)
    (h : ∀ x, x ∈ nodes → missing (fl' x) = missing (fl x)) : deficit nodes fl' = deficit nodes fl := by
  induction nodes with
  | nil => rfl
  | cons x xs ih =>
    have h1 := h x List.mem_cons_self
    have h2 := ih (fun y hy => h y (List.mem_cons_of_mem _ hy))
    simp only [deficit, List.map_cons, List.sum_cons] at h2 ⊢
    omega

theorem deficit_set_not_mem (nodes : List Nat) (fl : FlagMap) (p : Nat) (v : Flags) (hp : p ∉ nodes) :
    deficit nodes (fl.set p v) = deficit nodes fl := by
  apply deficit_congr
  intro x hx
  have : x ≠ p := fun h => hp (h ▸ hx)
  rw [FlagMap.set_other _ _ this]

theorem deficit_set (nodes : List Nat) (hnd : nodes.Nodup) (fl : FlagMap) (p : Nat) (v : Flags)
    (hp : p ∈ nodes) : deficit nodes (fl.set p v) + missing (fl p) = deficit nodes fl + missing v := by
  induction nodes with
  | nil => simp at hp
  | cons x xs ih =>
    have hnd' := List.nodup_cons.mp hnd
    by_cases hx : p = x
    · subst hx
      have := deficit_set_not_mem xs fl p v hnd'.1
      simp only [deficit, List.map_cons, List.sum_cons, FlagMap.set_same] at this ⊢
      omega
    · have hp' : p ∈ xs := by
        cases List.mem_cons.mp hp with
        | inl h => exact absurd h hx
        | inr h => exact h
      have := ih hnd'.2 hp'
      have hx' : x ≠ p := fun h => hx h.symm
      simp only [deficit, List.map_cons, List.sum_cons, FlagMap.set_other _ _ hx'] at this ⊢
      omega

theorem missing_add_lt (f : Flags) (p : Pass) (h : f.covers p = false) : missing (f.add p) < missing f := by
  rcases f with ⟨a, b, c, d⟩
  rcases p with ⟨x, y, z⟩
  cases a <;> cases b <;> cases c <;> cases x <;> cases y <;> cases z <;>
    first | (simp [Flags.covers] at h; done) | (simp [missing, Flags.add])

theorem propagate_measure {g : Dag} {q : PQ Key} (hq : q.Lawful) (pass : Pass) (nodes : List Nat)
    (hnd : nodes.Nodup) :
    ∀ (ps : List Nat) (fl : FlagMap) (qu : q.Q), (∀ p, p ∈ ps → p ∈ nodes) →
      (q.items (propagate g q pass ps fl qu).2).length + deficit nodes (propagate g q pass ps fl qu).1
        ≤ (q.items qu).length + deficit nodes fl := by
  intro ps
  induction ps with
  | nil => intro fl qu _; simp [propagate]
  | cons p ps ih =>
    intro fl qu hps
    unfold propagate
    have hps' : ∀ p', p' ∈ ps → p' ∈ nodes := fun p' h => hps p' (List.mem_cons_of_mem _ h)
    by_cases hc : (fl p).covers pass = true
    · rw [if_pos hc]; exact ih fl qu hps'
    · rw [if_neg hc]
      have hcf : (fl p).covers pass = false := by simpa using hc
      have h1 := ih (fl.set p ((fl p).add pass)) (q.insert (keyOf g p) p qu) hps'
      have h2 := (hq.items_insert (keyOf g p) p qu).length_eq
      have h3 := deficit_set nodes hnd fl p ((fl p).add pass) (hps p List.mem_cons_self)
      have h4 := missing_add_lt (fl p) pass hcf
      simp only [List.length_cons] at h2
      omega

/-! ### the loop invariant -/

def outIds {Q : Type} (s : PState Q) : List Nat := s.out.map (·.1)

/-- a commit whose current flags have been handed to its parents and, if it is a merge-base
candidate, recorded -/
def Settled (g : Dag) (fl : FlagMap) (x : Nat) : Prop :=
  (∀ p, p ∈ g.parents x → (fl p).covers (passOf (fl x)) = true) ∧
  ((fl x).c1 = true → (fl x).c2 = true → (fl x).stale = false → (fl x).result = true)

structure PInv (g : Dag) (q : PQ Key) (nodes : List Nat) (a : Nat) (bs : List Nat) (s : PState q.Q) : Prop where
  first_c1 : (s.flags a).c1 = true
  others_c2 : ∀ b, b ∈ bs → (s.flags b).c2 = true
  c1_sound : ∀ x, (s.flags x).c1 = true → Reach g a x
  c2_sound : ∀ x, (s.flags x).c2 = true → ∃ b, b ∈ bs ∧ Reach g b x
  stale_sound : ∀ x, (s.flags x).stale = true → ∃ y, Common g a bs y ∧ Reach g y x ∧ y ≠ x
  settled : ∀ x, (∃ k, (k, x) ∈ q.items s.queue) ∨ Settled g s.flags x
  queue_keys : ∀ e, e ∈ q.items s.queue → e.1 = keyOf g e.2
  queue_nodes : ∀ e, e ∈ q.items s.queue → e.2 ∈ nodes
  out_iff : ∀ x, x ∈ outIds s ↔ (s.flags x).result = true
  result_base : ∀ x, (s.flags x).result = true → (s.flags x).c1 = true ∧ (s.flags x).c2 = true
  out_nodup : (outIds s).Nodup
  out_keys : ∀ e, e ∈ s.out → e.2 = keyOf g e.1

def phi (q : PQ Key) (nodes : List Nat) (s : PState q.Q) : Nat :=
  (q.items s.queue).length + deficit nodes s.flags

end GixModel.C46
