import GixModel.Lemmas.C04d
/-
C04 helper lemmas, part e: induction over the path — `editLoop` refines `Spec.upsert`,
`Spec.remove`, `Spec.mkdir` relative to the tree cached at the start prefix.
-/
namespace GixModel.C04
open GixModel GixModel.Tree
open GixModel.Spec.C04 (Leaf FS)

/-! ### the specification, one component at a time -/

theorem spec_upsert_cons (n : Bytes) (p' : Path) (hp' : p' ≠ []) (v : Option Leaf) (fs : FS) (q : Path) :
    Spec.C04.upsert (n :: p') v fs q =
      match q with
      | [] => none
      | m :: qs => if m = n then (if qs = [] then none
                     else Spec.C04.upsert p' v (fun r => fs (n :: r)) qs) else fs (m :: qs) := by
  unfold Spec.C04.upsert
  cases q with
  | nil => simp
  | cons m qs =>
    simp only
    by_cases hm : m = n
    · subst hm
      simp only [if_true, List.cons.injEq, true_and, List.cons_prefix_cons]
      by_cases hq : qs = []
      · subst hq; simp [hp', Ne.symm hp']
      · simp [hq]
    · have h1 : ¬ (m :: qs = n :: p') := by intro h; injection h with h2 _; exact hm h2
      have h2 : ¬ (n :: p') <+: (m :: qs) := by
        rw [List.cons_prefix_cons]; intro h; exact hm h.1.symm
      have h3 : ¬ (m :: qs) <+: (n :: p') := by
        rw [List.cons_prefix_cons]; intro h; exact hm h.1
      simp [h1, h2, h3, hm]

theorem spec_remove_cons (n : Bytes) (p' : Path) (fs : FS) (q : Path) :
    Spec.C04.remove (n :: p') fs q =
      match q with
      | [] => fs []
      | m :: qs => if m = n then Spec.C04.remove p' (fun r => fs (n :: r)) qs else fs (m :: qs) := by
  unfold Spec.C04.remove
  cases q with
  | nil => simp
  | cons m qs =>
    simp only
    by_cases hm : m = n
    · subst hm; simp [List.cons_prefix_cons]
    · have h2 : ¬ (n :: p') <+: (m :: qs) := by
        rw [List.cons_prefix_cons]; intro h; exact hm h.1.symm
      simp [h2, hm]

theorem spec_mkdir_cons (n : Bytes) (p' : Path) (fs : FS) (q : Path) :
    Spec.C04.mkdir (n :: p') fs q =
      match q with
      | [] => none
      | m :: qs => if m = n then Spec.C04.mkdir p' (fun r => fs (n :: r)) qs else fs (m :: qs) := by
  unfold Spec.C04.mkdir
  cases q with
  | nil => simp
  | cons m qs =>
    simp only
    by_cases hm : m = n
    · subst hm; simp [List.cons_prefix_cons]
    · have h3 : ¬ (m :: qs) <+: (n :: p') := by
        rw [List.cons_prefix_cons]; intro h; exact hm h.1
      simp [h3, hm]

theorem spec_upsert_congr (p : Path) (v : Option Leaf) {f g : FS} (q : Path) (h : f q = g q) :
    Spec.C04.upsert p v f q = Spec.C04.upsert p v g q := by
  unfold Spec.C04.upsert; rw [h]

theorem spec_remove_congr (p : Path) {f g : FS} (q : Path) (h : f q = g q) :
    Spec.C04.remove p f q = Spec.C04.remove p g q := by
  unfold Spec.C04.remove; rw [h]

theorem spec_mkdir_congr (p : Path) {f g : FS} (q : Path) (h : f q = g q) :
    Spec.C04.mkdir p f q = Spec.C04.mkdir p g q := by
  unfold Spec.C04.mkdir; rw [h]

/-- the leaf an `upsert` of `(kind, id)` creates: nothing for a null id -/
def leafVal (mode : Nat) (id : Bytes) : Option Leaf :=
  if isTreeMode mode then none else if id == nullId then none else some (mode, id)

theorem leafOf_mk (mode : Nat) (n id : Bytes) : leafOf ⟨mode, n, id⟩ = leafVal mode id := rfl

/-- result of a whole `upsert_or_remove_at_pathbuf` relative to the tree cached at the prefix -/
def EditOut (ed : Ed) (P : Path) (t : List Entry) (spec : FS → FS) (r : EditRes) : Prop :=
  ∃ ed' t', r = .ok ed' ∧ Inv ed' ∧ ed'.store = ed.store ∧ aget P ed'.trees = some t' ∧
    (∀ K, ¬ P <+: K → aget K ed'.trees = aget K ed.trees) ∧
    (∀ q, lookupIn ed' t' P q = spec (lookupIn ed t P) q)

theorem nonempty_name {n : Bytes} (h : ValidName n) : n.isEmpty = false := by
  cases n with
  | nil => exact absurd rfl h.1
  | cons _ _ => rfl

theorem editLoop_upsert (k : KI) (hum : k.um = .normal) (hkind : isTreeMode k.mode = false) :
    ∀ (p : Path), p ≠ [] → (∀ n ∈ p, ValidName n) →
    ∀ (ed : Ed) (P : Path) (t : List Entry), Inv ed → ed.pathBuf = P → aget P ed.trees = some t →
      EditOut ed P t (Spec.C04.upsert p (leafVal k.mode k.id)) (editLoop (some k) ed p) := by
  intro p
  induction p with
  | nil => intro h; exact absurd rfl h
  | cons n rest ih =>
    intro _ hvalid ed P t hinv hpb hP
    have hn : ValidName n := hvalid n (by simp)
    cases rest with
    | nil =>
      obtain ⟨ed', t', hr, hinv', hs, hP', hframe, hsem⟩ :=
        leaf_step_upsert hinv hpb hP hn hum hkind
      refine ⟨ed', t', ?_, hinv', hs, hP', hframe, ?_⟩
      · simp [editLoop, nonempty_name hn, hr]
      · intro q; rw [hsem q, leafOf_mk]
    | cons m rest' =>
      have hk : MkdirMode false k := by intro h; cases h
      obtain ⟨edS, lookup, ed1, t', tn, hstep, hdesc, hpb1, hinv1, hs1, hP1, hPn1, hdir, hother,
        hframe1, hsem1⟩ := mkdir_step hinv hpb hP hn hk
      obtain ⟨ed2, tn2, hr2, hinv2, hs2, hPn2, hframe2, hsem2⟩ :=
        ih (by simp) (fun x hx => hvalid x (List.mem_cons_of_mem _ hx)) ed1 (P ++ [n]) tn hinv1 hpb1 hPn1
      have hP2 : aget P ed2.trees = some t' := by
        rw [hframe2 P (not_prefix_append_singleton P n)]; exact hP1
      obtain ⟨l0, l1, l2, l3⟩ := lookup_down (t := t) hs1 hs2 hdir hother hframe1 hframe2 hPn2
      refine ⟨ed2, t', ?_, hinv2, hs2.trans hs1, hP2, ?_, ?_⟩
      · have : editLoop (some k) ed (n :: m :: rest') = editLoop (some k) ed1 (m :: rest') := by
          rw [editLoop]
          simp only [nonempty_name hn, Bool.false_eq_true, if_false, List.isEmpty_cons, hstep, hdesc]
        rw [this]; exact hr2
      · intro K hK
        have h1 : ¬ (P ++ [n]) <+: K := fun h => hK ((List.prefix_append P [n]).trans h)
        rw [hframe2 K h1]
        apply hframe1
        · intro h; exact hK (h ▸ List.prefix_refl _)
        · intro h; exact h1 (h ▸ List.prefix_refl _)
      · intro q
        rw [spec_upsert_cons n (m :: rest') (by simp)]
        cases q with
        | nil => exact l0
        | cons x qs =>
          simp only
          by_cases hx : x = n
          · subst hx
            simp only [if_true]
            by_cases hq : qs = []
            · subst hq; simp only [if_true]; exact l1
            · simp only [hq, if_false]
              rw [l2 qs hq, hsem2 qs]
              exact spec_upsert_congr _ _ qs (hsem1 qs hq)
          · simp only [hx, if_false]
            exact l3 x qs hx

theorem upsert_none_eq_remove (n : Bytes) (fs : FS) (h0 : fs [] = none) (q : Path) :
    Spec.C04.upsert [n] none fs q = Spec.C04.remove [n] fs q := by
  unfold Spec.C04.upsert Spec.C04.remove
  cases q with
  | nil => simp [h0]
  | cons m qs =>
    by_cases h1 : [n] <+: (m :: qs)
    · simp [h1]
    · have h2 : ¬ (m :: qs) <+: [n] := by
        intro h
        obtain ⟨hm, hq⟩ := (cons_prefix_singleton _ _ _).1 h
        subst hm; subst hq
        exact h1 (List.prefix_refl _)
      have h3 : ¬ (m :: qs = [n]) := fun h => h1 (h ▸ List.prefix_refl _)
      simp [h1, h2, h3]

theorem lookupIn_nil_path (ed : Ed) (t : List Entry) (P : Path) : lookupIn ed t P [] = none := rfl

theorem editLoop_remove :
    ∀ (p : Path), p ≠ [] → (∀ n ∈ p, ValidName n) →
    ∀ (ed : Ed) (P : Path) (t : List Entry), Inv ed → ed.pathBuf = P → aget P ed.trees = some t →
      EditOut ed P t (Spec.C04.remove p) (editLoop none ed p) := by
  intro p
  induction p with
  | nil => intro h; exact absurd rfl h
  | cons n rest ih =>
    intro _ hvalid ed P t hinv hpb hP
    have hn : ValidName n := hvalid n (by simp)
    cases rest with
    | nil =>
      obtain ⟨ed', t', hr, hinv', hs, hP', hframe, hsem⟩ := leaf_step_remove hinv hpb hP hn
      refine ⟨ed', t', ?_, hinv', hs, hP', hframe, ?_⟩
      · simp [editLoop, nonempty_name hn, hr]
      · intro q; rw [hsem q]; exact upsert_none_eq_remove n _ rfl q
    | cons m rest' =>
      rcases remove_step_down hinv hpb hP hn with ⟨e, hf, hd, hstep⟩ | ⟨hnodir, hstep⟩
      · obtain ⟨ed1, tn, hdesc, hpb1, hinv1, hs1, hP1, hPn1, hframe1, hsem1⟩ :=
          descend_dir hinv hpb hP hf hd
        obtain ⟨ed2, tn2, hr2, hinv2, hs2, hPn2, hframe2, hsem2⟩ :=
          ih (by simp) (fun x hx => hvalid x (List.mem_cons_of_mem _ hx)) ed1 (P ++ [n]) tn hinv1 hpb1 hPn1
        have hP2 : aget P ed2.trees = some t := by
          rw [hframe2 P (not_prefix_append_singleton P n)]; exact hP1
        obtain ⟨l0, l1, l2, l3⟩ := lookup_down (t := t) (t' := t) hs1 hs2 ⟨e, hf, hd⟩
          (fun _ _ => rfl) hframe1 hframe2 hPn2
        refine ⟨ed2, t, ?_, hinv2, hs2.trans hs1, hP2, ?_, ?_⟩
        · have : editLoop none ed (n :: m :: rest') = editLoop none ed1 (m :: rest') := by
            rw [editLoop]
            simp only [nonempty_name hn, Bool.false_eq_true, if_false, List.isEmpty_cons, hstep, hdesc]
          rw [this]; exact hr2
        · intro K hK
          have h1 : ¬ (P ++ [n]) <+: K := fun h => hK ((List.prefix_append P [n]).trans h)
          rw [hframe2 K h1]
          apply hframe1
          · intro h; exact hK (h ▸ List.prefix_refl _)
          · intro h; exact h1 (h ▸ List.prefix_refl _)
        · intro q
          rw [spec_remove_cons n (m :: rest')]
          cases q with
          | nil => rfl
          | cons x qs =>
            simp only
            by_cases hx : x = n
            · subst hx
              simp only [if_true]
              by_cases hq : qs = []
              · subst hq
                rw [l1]
                unfold Spec.C04.remove
                simp [lookupIn, hf, leafOf, hd]
              · rw [l2 qs hq, hsem2 qs]
                exact spec_remove_congr _ qs (hsem1 qs hq)
            · simp only [hx, if_false]
              exact l3 x qs hx
      · -- no such directory: nothing happens, and there was nothing to remove
        refine ⟨ed, t, ?_, hinv, rfl, hP, fun _ _ => rfl, ?_⟩
        · rw [editLoop]
          simp only [nonempty_name hn, Bool.false_eq_true, if_false, List.isEmpty_cons, hstep]
        · intro q
          unfold Spec.C04.remove
          by_cases hq : (n :: m :: rest') <+: q
          · simp only [hq, if_true]
            obtain ⟨r, rfl⟩ := hq
            exact lookupIn_cons_nodir hnodir (by simp)
          · simp [hq]

/-- `cursor_at`: every component is entered in "make sure it is a directory" mode -/
theorem editLoop_mkdir (k : KI) (hk : k.um = .assureTreeOnly ∧ k.mode = 0o040000 ∧ k.id = nullId) :
    ∀ (p : Path), p ≠ [] → (∀ n ∈ p, ValidName n) →
    ∀ (ed : Ed) (P : Path) (t : List Entry), Inv ed → ed.pathBuf = P → aget P ed.trees = some t →
      ∃ ed' t', editLoop (some k) ed p = .ok ed' ∧ Inv ed' ∧ ed'.store = ed.store ∧
        aget P ed'.trees = some t' ∧ (∀ K, ¬ P <+: K → aget K ed'.trees = aget K ed.trees) ∧
        (∀ q, lookupIn ed' t' P q = Spec.C04.mkdir p (lookupIn ed t P) q) ∧
        ed'.pathBuf = P ++ p ∧ (aget (P ++ p) ed'.trees).isSome = true := by
  intro p
  induction p with
  | nil => intro h; exact absurd rfl h
  | cons n rest ih =>
    intro _ hvalid ed P t hinv hpb hP
    have hn : ValidName n := hvalid n (by simp)
    cases rest with
    | nil =>
      obtain ⟨edS, lookup, ed1, t', tn, hstep, hdesc, hpb1, hinv1, hs1, hP1, hPn1, hdir, hother,
        hframe1, hsem1⟩ := mkdir_step (isLast := true) hinv hpb hP hn (fun _ => hk)
      obtain ⟨l0, l1, l2, l3⟩ := lookup_down (ed2 := ed1) (t := t) hs1 rfl hdir hother hframe1
        (fun _ _ => rfl) hPn1
      refine ⟨ed1, t', ?_, hinv1, hs1, hP1, ?_, ?_, hpb1, by simp [hPn1]⟩
      · rw [editLoop]
        simp only [nonempty_name hn, Bool.false_eq_true, if_false, List.isEmpty_nil, hstep, hdesc]
        rfl
      · intro K hK
        apply hframe1
        · intro h; exact hK (h ▸ List.prefix_refl _)
        · intro h; exact hK (h ▸ List.prefix_append P [n])
      · intro q
        rw [spec_mkdir_cons n []]
        cases q with
        | nil => exact l0
        | cons x qs =>
          simp only
          by_cases hx : x = n
          · subst hx
            simp only [if_true]
            by_cases hq : qs = []
            · subst hq; rw [l1]; simp [Spec.C04.mkdir]
            · rw [l2 qs hq, hsem1 qs hq]
              have : ¬ qs <+: [] := fun h => hq (List.prefix_nil.1 h)
              simp [Spec.C04.mkdir, this]
          · simp only [hx, if_false]
            exact l3 x qs hx
    | cons m rest' =>
      have hk' : MkdirMode false k := by intro h; cases h
      obtain ⟨edS, lookup, ed1, t', tn, hstep, hdesc, hpb1, hinv1, hs1, hP1, hPn1, hdir, hother,
        hframe1, hsem1⟩ := mkdir_step hinv hpb hP hn hk'
      obtain ⟨ed2, tn2, hr2, hinv2, hs2, hPn2, hframe2, hsem2, hpb2, hc2⟩ :=
        ih (by simp) (fun x hx => hvalid x (List.mem_cons_of_mem _ hx)) ed1 (P ++ [n]) tn hinv1 hpb1 hPn1
      have hP2 : aget P ed2.trees = some t' := by
        rw [hframe2 P (not_prefix_append_singleton P n)]; exact hP1
      obtain ⟨l0, l1, l2, l3⟩ := lookup_down (t := t) hs1 hs2 hdir hother hframe1 hframe2 hPn2
      refine ⟨ed2, t', ?_, hinv2, hs2.trans hs1, hP2, ?_, ?_, by simpa using hpb2, by simpa using hc2⟩
      · have : editLoop (some k) ed (n :: m :: rest') = editLoop (some k) ed1 (m :: rest') := by
          rw [editLoop]
          simp only [nonempty_name hn, Bool.false_eq_true, if_false, List.isEmpty_cons, hstep, hdesc]
        rw [this]; exact hr2
      · intro K hK
        have h1 : ¬ (P ++ [n]) <+: K := fun h => hK ((List.prefix_append P [n]).trans h)
        rw [hframe2 K h1]
        apply hframe1
        · intro h; exact hK (h ▸ List.prefix_refl _)
        · intro h; exact h1 (h ▸ List.prefix_refl _)
      · intro q
        rw [spec_mkdir_cons n (m :: rest')]
        cases q with
        | nil => exact l0
        | cons x qs =>
          simp only
          by_cases hx : x = n
          · subst hx
            simp only [if_true]
            by_cases hq : qs = []
            · subst hq; rw [l1]; simp [Spec.C04.mkdir]
            · rw [l2 qs hq, hsem2 qs]
              exact spec_mkdir_congr _ qs (hsem1 qs hq)
          · simp only [hx, if_false]
            exact l3 x qs hx

end GixModel.C04
