import GixModel.Lemmas.C26Append
/-
C26 — appended newline, more endings: the file may also end in whitespace or in a section header.
-/
namespace GixModel.C26
open GixModel

def isHeaderEv : Event → Bool
  | .header _ => true
  | _ => false

theorem valueFinish_shape {acc rest : Bytes} {inQ part eof : Bool} {em out : List Event} {b : Bytes}
    (h : valueFinish acc rest inQ part eof em = some (out, b)) : ∃ e, out = em ++ [e] ∧ isValueEnd e = true ∧ isHeaderEv e = false := by
  unfold valueFinish at h
  split at h
  · simp at h
  · split at h
    · simp only [Option.some.injEq, Prod.mk.injEq] at h
      refine ⟨_, h.1.symm, ?_, ?_⟩ <;> split <;> rfl
    · simp only [Option.some.injEq, Prod.mk.injEq] at h
      refine ⟨_, h.1.symm, ?_, ?_⟩ <;> split <;> rfl

theorem valueFinish_shape' {acc rest : Bytes} {inQ part eof : Bool} {em out : List Event} {b : Bytes}
    (h : valueFinish acc rest inQ part eof em = some (out, b)) :
    ∃ mid e, out = em ++ mid ++ [e] ∧ isValueEnd e = true ∧ (∀ x ∈ mid, isHeaderEv x = false) ∧ isHeaderEv e = false := by
  obtain ⟨e, h1, h2, h3⟩ := valueFinish_shape h
  exact ⟨[], e, by simpa using h1, h2, by simp, h3⟩

/-- what the value scanner emits: the events it was given, continuation pieces, and a final value -/
theorem valueScan_shape : ∀ (i acc : Bytes) (inQ part : Bool) (em out : List Event) (b : Bytes),
    valueScan i acc inQ part em = some (out, b) →
    ∃ mid e, out = em ++ mid ++ [e] ∧ isValueEnd e = true ∧ (∀ x ∈ mid, isHeaderEv x = false) ∧ isHeaderEv e = false := by
  intro i acc inQ part em
  fun_induction valueScan i acc inQ part em <;> intro out b h
  all_goals first
    | exact valueFinish_shape' h
    | (simp at h; done)
    | skip
  all_goals rename_i ih
  all_goals obtain ⟨mid, e, h1, h2, h3, h4⟩ := ih out b h
  all_goals first
    | exact ⟨mid, e, h1, h2, h3, h4⟩
    | (refine ⟨_ :: _ :: mid, e, by simpa using h1, h2, ?_, h4⟩
       intro x hx
       simp only [List.mem_cons] at hx
       rcases hx with rfl | rfl | hx
       · rfl
       · rfl
       · exact h3 x hx)

theorem optSpaces_kind (i : Bytes) : ∀ e ∈ (optSpaces i).1, isHeaderEv e = false ∧ isValueEnd e = false := by
  intro e he
  unfold optSpaces at he
  split at he <;> simp at he
  subst he; exact ⟨rfl, rfl⟩

theorem configValue_shape {i b : Bytes} {out : List Event} (h : configValue i = some (out, b)) :
    ∃ pre e, out = pre ++ [e] ∧ isValueEnd e = true ∧ ∀ x ∈ out, isHeaderEv x = false := by
  unfold configValue at h
  split at h
  · rename_i r
    obtain ⟨mid, e, h1, h2, h3, h4⟩ := valueScan_shape _ _ _ _ _ _ _ h
    refine ⟨(.sep :: (optSpaces r).1) ++ mid, e, by simpa using h1, h2, ?_⟩
    intro x hx
    rw [h1] at hx
    simp only [List.mem_append, List.mem_cons, List.mem_singleton, List.not_mem_nil, or_false] at hx
    rcases hx with ((rfl | hx) | hx) | rfl
    · rfl
    · exact (optSpaces_kind r x hx).1
    · exact h3 x hx
    · exact h4
  · simp only [Option.some.injEq, Prod.mk.injEq] at h
    refine ⟨[], .value [], by simpa using h.1.symm, rfl, ?_⟩
    intro x hx; rw [← h.1] at hx; simp at hx; subst hx; rfl

theorem keyValuePair_shape {i b : Bytes} {kv : List Event} (h : keyValuePair i = some (kv, b)) :
    (kv = [] ∧ b = i ∨ ∃ pre e, kv = pre ++ [e] ∧ isValueEnd e = true) ∧ ∀ x ∈ kv, isHeaderEv x = false := by
  unfold keyValuePair at h
  split at h
  · simp only [Option.some.injEq, Prod.mk.injEq] at h
    obtain ⟨rfl, rfl⟩ := h
    exact ⟨Or.inl ⟨rfl, rfl⟩, by simp⟩
  · rename_i n r hn
    simp only at h
    split at h
    · simp at h
    · rename_i evs r2 hv
      simp only [Option.some.injEq, Prod.mk.injEq] at h
      obtain ⟨rfl, rfl⟩ := h
      obtain ⟨pre, e, h1, h2, h3⟩ := configValue_shape hv
      refine ⟨Or.inr ⟨.name n :: (optSpaces r).1 ++ pre, e, by simp [h1], h2⟩, ?_⟩
      intro x hx
      simp only [List.cons_append, List.mem_cons, List.mem_append] at hx
      rcases hx with rfl | hx | hx
      · rfl
      · exact (optSpaces_kind r x hx).1
      · exact h3 x hx

theorem optNewlines_kind (i : Bytes) : ∀ e ∈ (optNewlines i).1, isHeaderEv e = false ∧ isValueEnd e = false ∧ evIsWs e = false := by
  intro e he
  unfold optNewlines at he
  split at he <;> simp at he
  subst he; exact ⟨rfl, rfl, rfl⟩

theorem optComment_kind (i : Bytes) : ∀ e ∈ (optComment i).1, isHeaderEv e = false ∧ isValueEnd e = false ∧ evIsWs e = false := by
  intro e he
  unfold optComment at he
  cases hc : comment i with
  | none => simp [hc] at he
  | some p =>
    obtain ⟨c, r⟩ := p
    simp only [hc, List.mem_singleton] at he
    subst he
    cases i with
    | nil => simp [comment] at hc
    | cons y rr =>
      simp only [comment] at hc
      split at hc
      · simp only [Option.some.injEq, Prod.mk.injEq] at hc
        rw [← hc.1]; exact ⟨rfl, rfl, rfl⟩
      · simp at hc

theorem bodyIter_no_header {a r : Bytes} {evs : List Event} (h : bodyIter a = some (evs, r)) :
    ∀ x ∈ evs, isHeaderEv x = false := by
  unfold bodyIter at h
  simp only at h
  cases hk : keyValuePair (optNewlines (optSpaces a).2).2 with
  | none => simp [hk] at h
  | some p =>
    obtain ⟨kv, r1⟩ := p
    simp only [hk, Option.some.injEq, Prod.mk.injEq] at h
    obtain ⟨rfl, _⟩ := h
    intro x hx
    simp only [List.mem_append] at hx
    rcases hx with ((hx | hx) | hx) | hx
    · exact (optSpaces_kind _ x hx).1
    · exact (optNewlines_kind _ x hx).1
    · exact (keyValuePair_shape hk).2 x hx
    · exact (optComment_kind _ x hx).1

theorem bodyLoop_no_header : ∀ (f : Nat) (a r : Bytes) (evs : List Event), bodyLoop f a = some (evs, r) →
    ∀ x ∈ evs, isHeaderEv x = false := by
  intro f
  induction f with
  | zero => intro a r evs h; simp [bodyLoop] at h; obtain ⟨rfl, _⟩ := h; simp
  | succ f ih =>
    intro a r evs h
    simp only [bodyLoop] at h
    cases hbi : bodyIter a with
    | none => simp [hbi] at h
    | some p =>
      obtain ⟨e1, r1⟩ := p
      simp only [hbi] at h
      split at h
      · simp only [Option.some.injEq, Prod.mk.injEq] at h
        rw [← h.1]; exact bodyIter_no_header hbi
      · cases hbl : bodyLoop f r1 with
        | none => simp [hbl] at h
        | some q =>
          obtain ⟨more, r'⟩ := q
          simp only [hbl, Option.some.injEq, Prod.mk.injEq] at h
          rw [← h.1]
          intro x hx
          simp only [List.mem_append] at hx
          rcases hx with hx | hx
          · exact bodyIter_no_header hbi x hx
          · exact ih _ _ _ hbl x hx

theorem not_ws_of_valueEnd {e : Event} (h : isValueEnd e = true) : evIsWs e = false := by
  cases e <;> simp_all [isValueEnd, evIsWs]

/-- the iteration that reaches the end of the text with whitespace: the appended newline is taken
by the same iteration -/
theorem bodyIter_eof_ws {t : Bytes} (ht : NL t) {a : Bytes} {evs : List Event} (h : bodyIter a = some (evs, []))
    (hl : ∃ e, evs.getLast? = some e ∧ evIsWs e = true) :
    bodyIter (a ++ t) = some (evs ++ [.newline t], []) := by
  unfold bodyIter at h ⊢
  simp only at h ⊢
  rw [optSpaces_app ht a]
  simp only
  cases hk : keyValuePair (optNewlines (optSpaces a).2).2 with
  | none => simp [hk] at h
  | some p =>
    obtain ⟨kv, r1⟩ := p
    simp only [hk, Option.some.injEq, Prod.mk.injEq] at h
    obtain ⟨rfl, hrr⟩ := h
    obtain ⟨e, he, hv⟩ := hl
    have hc : (optComment r1).1 = [] := by
      by_cases hcc : (optComment r1).1 = []
      · exact hcc
      · exfalso
        rw [getLast?_append_ne _ _ hcc] at he
        have := (optComment_kind r1 e (List.mem_of_getLast? he)).2.2
        rw [this] at hv; simp at hv
    have hr1 : r1 = [] := by
      have := optComment_ok r1
      rw [hc, hrr] at this
      simpa [renderRaw] using this.symm
    subst hr1
    simp only [hc, List.append_nil] at he ⊢
    have hkv : kv = [] ∧ (optNewlines (optSpaces a).2).2 = [] := by
      rcases (keyValuePair_shape hk).1 with ⟨h1, h2⟩ | ⟨pre, e', h1, h2⟩
      · exact ⟨h1, h2.symm⟩
      · exfalso
        rw [h1, ← List.append_assoc, List.getLast?_append] at he
        simp at he
        subst he
        rw [not_ws_of_valueEnd h2] at hv; simp at hv
    obtain ⟨rfl, hi2⟩ := hkv
    simp only [List.append_nil] at he ⊢
    have hB : (optNewlines (optSpaces a).2).1 = [] := by
      by_cases hbb : (optNewlines (optSpaces a).2).1 = []
      · exact hbb
      · exfalso
        rw [getLast?_append_ne _ _ hbb] at he
        have := (optNewlines_kind _ e (List.mem_of_getLast? he)).2.2
        rw [this] at hv; simp at hv
    have hi1 : (optSpaces a).2 = [] := by
      have := optNewlines_ok (optSpaces a).2
      rw [hB, hi2] at this
      simpa [renderRaw] using this.symm
    rw [hB, hi1]
    simp only [List.nil_append, List.append_nil]
    rw [optNewlines_nl ht]
    simp only
    have h1 : keyValuePair [] = some ([], []) := by decide
    have h2 : optComment [] = ([], []) := by decide
    rw [h1]
    simp [h2]

def isGoodEnd (e : Event) : Bool := isValueEnd e || evIsWs e

/-- the events end in a value or in whitespace (or there are none) -/
def GoodEnd2 (evs : List Event) : Prop := evs = [] ∨ ∃ e, evs.getLast? = some e ∧ isGoodEnd e = true

theorem bodyLoop_app2 {t : Bytes} (ht : NL t) : ∀ (f : Nat) (a : Bytes) (evs : List Event) (b : Bytes) (g : Nat),
    bodyLoop f a = some (evs, b) → a.length < f → (a ++ t).length < g → Q a →
    (b ≠ [] → bodyLoop g (a ++ t) = some (evs, b ++ t)) ∧
    (b = [] → GoodEnd2 evs → bodyLoop g (a ++ t) = some (evs ++ [.newline t], [])) := by
  intro f
  induction f with
  | zero => intro a evs b g _ hf; omega
  | succ f ih =>
    intro a evs b g h hf hg hq
    obtain ⟨g', rfl⟩ : ∃ g', g = g' + 1 := ⟨g - 1, by omega⟩
    have htpos : 0 < t.length := by rcases ht with rfl | rfl <;> simp
    simp only [bodyLoop] at h
    cases hbi : bodyIter a with
    | none => simp [hbi] at h
    | some p =>
      obtain ⟨e1, r1⟩ := p
      simp only [hbi] at h
      have hok := bodyIter_ok hbi
      have hle : r1.length ≤ a.length := length_le_of_ok hok
      by_cases hprog : r1.length = a.length
      · simp only [hprog, beq_self_eq_true, ↓reduceIte, Option.some.injEq, Prod.mk.injEq] at h
        obtain ⟨rfl, rfl⟩ := h
        by_cases ha : a = []
        · subst ha
          have hr1 : r1 = [] := by simpa using hprog
          subst hr1
          have : bodyIter [] = some ([], []) := by decide
          rw [this] at hbi
          simp only [Option.some.injEq, Prod.mk.injEq] at hbi
          obtain ⟨rfl, _⟩ := hbi
          refine ⟨fun h => absurd rfl h, fun _ _ => ?_⟩
          simp only [List.nil_append]
          exact bodyLoop_nl ht _ (by simpa using hg)
        · have hr1 : r1 ≠ [] := by
            intro he; subst he; simp at hprog; exact ha (by simpa using hprog.symm)
          have hq1 := Q_suffix (hok ▸ hq) hr1
          have hit := bodyIter_app ht hbi hr1 hq1.2
          refine ⟨fun _ => ?_, fun he => absurd he hr1⟩
          simp only [bodyLoop, hit]
          simp [hprog]
      · have hne : (r1.length == a.length) = false := by simpa using hprog
        simp only [hne, Bool.false_eq_true, ↓reduceIte] at h
        cases hbl : bodyLoop f r1 with
        | none => simp [hbl] at h
        | some q =>
          obtain ⟨more, r'⟩ := q
          simp only [hbl, Option.some.injEq, Prod.mk.injEq] at h
          obtain ⟨rfl, rfl⟩ := h
          by_cases hr1 : r1 = []
          · subst hr1
            rw [bodyLoop_nil] at hbl
            simp only [Option.some.injEq, Prod.mk.injEq] at hbl
            obtain ⟨rfl, rfl⟩ := hbl
            refine ⟨fun h => absurd rfl h, fun _ hge => ?_⟩
            have ha : a ≠ [] := by intro he; subst he; simp at hprog
            simp only [List.append_nil] at hge ⊢
            have hapos : 0 < a.length := List.length_pos_iff.mpr ha
            have hl : ∃ e, e1.getLast? = some e ∧ isGoodEnd e = true := by
              rcases hge with he | he
              · subst he; simp [renderRaw] at hok; exact absurd hok ha
              · exact he
            obtain ⟨e, hle', hge'⟩ := hl
            simp only [isGoodEnd, Bool.or_eq_true] at hge'
            rcases hge' with hv | hw
            · have hit := bodyIter_eof ht hbi ⟨e, hle', hv⟩
              simp only [bodyLoop, hit]
              have : (t.length == (a ++ t).length) = false := by simp; omega
              simp only [this, Bool.false_eq_true, ↓reduceIte]
              rw [bodyLoop_nl ht g' (by simp at hg; omega)]
            · have hit := bodyIter_eof_ws ht hbi ⟨e, hle', hw⟩
              simp only [bodyLoop, hit]
              have : (([] : Bytes).length == (a ++ t).length) = false := by simp; omega
              simp only [this, Bool.false_eq_true, ↓reduceIte]
              rw [bodyLoop_nil]
              simp
          · have hq1 := Q_suffix (hok ▸ hq) hr1
            have hit := bodyIter_app ht hbi hr1 hq1.2
            have hih := ih r1 more r' g' hbl (by omega) (by simp at hg ⊢; omega) hq1.1
            have hne' : ((r1 ++ t).length == (a ++ t).length) = false := by simp; omega
            constructor
            · intro hb
              simp only [bodyLoop, hit, hne', Bool.false_eq_true, ↓reduceIte, hih.1 hb]
            · intro hb hge
              subst hb
              have hmore : more ≠ [] := renderRaw_nil_of (bodyLoop_ok _ _ _ _ hbl) hr1
              have hge' : GoodEnd2 more := by
                right
                rcases hge with he | ⟨e, he, hv⟩
                · simp at he; exact absurd he.2 hmore
                · rw [getLast?_append_ne _ _ hmore] at he; exact ⟨e, he, hv⟩
              simp only [bodyLoop, hit, hne', Bool.false_eq_true, ↓reduceIte, hih.2 rfl hge']
              simp

/-- the events end in a value, in whitespace, or in a section header -/
def LastOk (evs : List Event) : Prop := ∃ e, evs.getLast? = some e ∧ (isGoodEnd e = true ∨ isHeaderEv e = true)

theorem sectionRaw_app2 {t : Bytes} (ht : NL t) {a b : Bytes} {evs : List Event} (h : sectionRaw a = some (evs, b)) (hq : Q a) :
    (b ≠ [] → sectionRaw (a ++ t) = some (evs, b ++ t)) ∧
    (b = [] → LastOk evs → sectionRaw (a ++ t) = some (evs ++ [.newline t], [])) := by
  unfold sectionRaw at h ⊢
  cases hh : sectionHeaderRaw a with
  | none => simp [hh] at h
  | some p =>
    obtain ⟨hd, r0⟩ := p
    simp only [hh] at h
    rw [sectionHeaderRaw_app ht hh]
    simp only
    cases hb : bodyLoop (r0.length + 1) r0 with
    | none => simp [hb] at h
    | some q =>
      obtain ⟨body, r'⟩ := q
      simp only [hb, Option.some.injEq, Prod.mk.injEq] at h
      obtain ⟨rfl, rfl⟩ := h
      have hok := sectionHeaderRaw_ok hh
      have hq0 : Q r0 := by
        by_cases h0 : r0 = []
        · subst h0; exact Q_nil
        · exact (Q_suffix (hok ▸ hq) h0).1
      have := bodyLoop_app2 ht (r0.length + 1) r0 body r' ((r0 ++ t).length + 1) hb (by omega) (by omega) hq0
      constructor
      · intro hne
        rw [this.1 hne]
      · intro he hl
        subst he
        have hge : GoodEnd2 body := by
          obtain ⟨e, hle, hv⟩ := hl
          by_cases hbody : body = []
          · exact Or.inl hbody
          · right
            rw [show Event.header hd :: body = [Event.header hd] ++ body from rfl, getLast?_append_ne _ _ hbody] at hle
            rcases hv with hv | hv
            · exact ⟨e, hle, hv⟩
            · exfalso
              have := bodyLoop_no_header _ _ _ _ hb e (List.mem_of_getLast? hle)
              rw [this] at hv; simp at hv
        rw [this.2 rfl hge]
        simp

theorem sectionsRaw_app2 {t : Bytes} (ht : NL t) : ∀ (f : Nat) (a : Bytes) (evs : List Event) (g : Nat),
    sectionsRaw f a = some evs → a ≠ [] → a.length ≤ f → (a ++ t).length ≤ g → Q a → LastOk evs →
    sectionsRaw g (a ++ t) = some (evs ++ [.newline t]) := by
  intro f
  induction f with
  | zero => intro a evs g _ ha hf; simp at hf; exact absurd hf ha
  | succ f ih =>
    intro a evs g h ha hf hg hq hl
    have htpos : 0 < t.length := by rcases ht with rfl | rfl <;> simp
    obtain ⟨g', rfl⟩ : ∃ g', g = g' + 1 := ⟨g - 1, by simp at hg; omega⟩
    have hae : a.isEmpty = false := by simpa using ha
    have hate : (a ++ t).isEmpty = false := by simp [ha]
    simp only [sectionsRaw, hae, hate, Bool.false_eq_true, ↓reduceIte] at h ⊢
    cases hs : sectionRaw a with
    | none => simp [hs] at h
    | some p =>
      obtain ⟨e1, r⟩ := p
      simp only [hs, Option.map_eq_some_iff] at h
      obtain ⟨more, hm, rfl⟩ := h
      obtain ⟨hlt, hd, body, rfl⟩ := sectionRaw_shrinks hs
      have hok := sectionRaw_ok hs
      have hsa := sectionRaw_app2 ht hs hq
      by_cases hr : r = []
      · subst hr
        have hmore : more = [] := by
          cases f <;> simp [sectionsRaw] at hm <;> exact hm
        subst hmore
        simp only [List.append_nil] at hl ⊢
        rw [hsa.2 rfl hl]
        cases g' <;> simp [sectionsRaw]
      · have hq1 := Q_suffix (hok ▸ hq) hr
        rw [hsa.1 hr]
        simp only
        have hmne : more ≠ [] := by
          intro he; subst he
          have := sectionsRaw_ok _ _ _ hm
          simp [renderRaw] at this; exact hr this
        have hl' : LastOk more := by
          obtain ⟨e, hle, hv⟩ := hl
          rw [getLast?_append_ne _ _ hmne] at hle
          exact ⟨e, hle, hv⟩
        rw [ih r more g' hm hr (by omega) (by simp at hg ⊢; omega) hq1.1 hl']
        simp

theorem frontStep_kind2 {a r : Bytes} {e : Event} (h : frontStep a = some (e, r)) : isHeaderEv e = false := by
  unfold frontStep at h
  cases hc : comment a with
  | some x =>
    obtain ⟨c, rc⟩ := x
    simp only [hc, Option.some.injEq, Prod.mk.injEq] at h
    obtain ⟨rfl, _⟩ := h
    cases a with
    | nil => simp [comment] at hc
    | cons y rr =>
      simp only [comment] at hc
      split at hc
      · simp only [Option.some.injEq, Prod.mk.injEq] at hc
        rw [← hc.1]; rfl
      · simp at hc
  | none =>
    simp only [hc] at h
    cases hs : takeSpaces1 a with
    | some x =>
      simp only [hs, Option.some.injEq, Prod.mk.injEq] at h
      rw [← h.1]; rfl
    | none =>
      simp only [hs] at h
      cases hn : takeNewlines1 a with
      | some x =>
        simp only [hn, Option.some.injEq, Prod.mk.injEq] at h
        rw [← h.1]; rfl
      | none => simp [hn] at h

theorem frontLoop_kind2 : ∀ (f : Nat) (a : Bytes), ∀ e ∈ (frontLoop f a).1, isHeaderEv e = false := by
  intro f
  induction f with
  | zero => intro a e he; simp [frontLoop] at he
  | succ f ih =>
    intro a e he
    simp only [frontLoop] at he
    cases hs : frontStep a with
    | none => simp [hs] at he
    | some p =>
      obtain ⟨e0, r⟩ := p
      simp only [hs, List.mem_cons] at he
      rcases he with rfl | he
      · exact frontStep_kind2 hs
      · exact ih r e he

theorem parseRaw_app2 {t : Bytes} (ht : NL t) {bs : Bytes} {evs : List Event} (h : parseRaw bs = some evs)
    (hb : noBomHead bs = true) (hq : Q bs) (hh : ∃ e ∈ evs, isHeaderEv e = true) (hl : LastOk evs) :
    parseRaw (bs ++ t) = some (evs ++ [.newline t]) := by
  unfold parseRaw at h ⊢
  rw [bomLen_of_noBomHead _ (noBomHead_app ht bs hb)]
  rw [bomLen_of_noBomHead _ hb] at h
  simp only [List.drop_zero] at h ⊢
  by_cases he : (frontLoop bs.length bs).2.isEmpty = true
  · exfalso
    simp only [he, ↓reduceIte, Option.some.injEq] at h
    obtain ⟨e, hmem, hv⟩ := hh
    rw [← h] at hmem
    have := frontLoop_kind2 bs.length bs e hmem
    rw [this] at hv; simp at hv
  · simp only [he, Bool.false_eq_true, ↓reduceIte, Option.map_eq_some_iff] at h
    obtain ⟨more, hm, rfl⟩ := h
    have hne : (frontLoop bs.length bs).2 ≠ [] := by simpa using he
    have hfl := frontLoop_app ht bs.length bs (bs ++ t).length (by omega) (by omega) hq hne
    rw [hfl]
    have hok := frontLoop_ok bs.length bs
    have hq2 := Q_suffix (hok ▸ hq) hne
    have hmne : more ≠ [] := by
      intro hmm; subst hmm
      have := sectionsRaw_ok _ _ _ hm
      simp [renderRaw] at this; exact hne this
    have hl' : LastOk more := by
      obtain ⟨e, hle, hv⟩ := hl
      rw [getLast?_append_ne _ _ hmne] at hle
      exact ⟨e, hle, hv⟩
    have hs := sectionsRaw_app2 ht _ _ more ((frontLoop bs.length bs).2 ++ t).length hm hne (by omega) (by omega) hq2.1 hl'
    simp only
    have hne2 : ((frontLoop bs.length bs).2 ++ t).isEmpty = false := by simp [hne]
    simp only [hne2, Bool.false_eq_true, ↓reduceIte, hs]
    simp

theorem isHeaderEv_toReal (e : Event) : isHeaderEv e.toReal = isHeaderEv e := by
  cases e <;> rfl

theorem isGoodEnd_toReal (e : Event) : isGoodEnd e.toReal = isGoodEnd e := by
  cases e <;> rfl

/-- the file read back from the text with the final newline appended (more endings) -/
theorem fileFromBytes_app_eq2 {t : Bytes} (ht : NL t) {bs : Bytes} {f : File} (h : fileFromBytes bs = some f)
    (hb : noBomHead bs = true) (hq : Q bs) (hsec : f.sections ≠ []) (hl : LastOk f.events) :
    fileFromBytes (bs ++ t) = some (fileOfEvents (f.events ++ [.newline t])) := by
  have hhd : ∃ e ∈ f.events, isHeaderEv e = true := by
    cases hs : f.sections with
    | nil => exact absurd hs hsec
    | cons s ss => exact ⟨.header s.header, by simp [File.events, hs], rfl⟩
  unfold fileFromBytes parseEvents at h ⊢
  simp only [Option.map_eq_some_iff] at h
  obtain ⟨evs, ⟨revs, hr, rfl⟩, rfl⟩ := h
  rw [fileOfEvents_events] at hl hhd ⊢
  have hl' : LastOk revs := by
    obtain ⟨e, hle, hv⟩ := hl
    rw [List.getLast?_map] at hle
    cases hg : revs.getLast? with
    | none => rw [hg] at hle; simp at hle
    | some e0 =>
      rw [hg] at hle
      simp only [Option.map_some, Option.some.injEq] at hle
      subst hle
      exact ⟨e0, hg, by rw [← isGoodEnd_toReal, ← isHeaderEv_toReal]; exact hv⟩
  have hh' : ∃ e ∈ revs, isHeaderEv e = true := by
    obtain ⟨e, hmem, hv⟩ := hhd
    simp only [List.mem_map] at hmem
    obtain ⟨e0, h0, rfl⟩ := hmem
    exact ⟨e0, h0, by rw [← isHeaderEv_toReal]; exact hv⟩
  rw [parseRaw_app2 ht hr hb hq hh' hl']
  simp [Event.toReal]

theorem aug_no_sections (f : File) (h : f.sections = []) : f.aug = f.events := by
  simp [File.aug, File.events, h, augSections]

end GixModel.C26
