import GixModel.Model.C24
/-
C06 (round 2) — `State::from_bytes` of C24's model (imported read-only) never returns its `panic`
outcome: every producer of `panic` in that model has been replaced by the error the repaired code
returns (C24 3c35ca0), what is left only propagates. Kept out of namespace `GixModel.C06` because
both models define `Res`, `Entry`, `treeDecode`.
-/
namespace GixModel.C06C24
open GixModel GixModel.C24

theorem c24_treeDecode_ne_panic (d : Bytes) : treeDecode d ≠ .panic := by
  unfold treeDecode; repeat' split
  all_goals simp

theorem c24_untrDecode_ne_panic (d : Bytes) : untrDecode d ≠ .panic := by
  unfold untrDecode; repeat' split
  all_goals simp

theorem c24_fsmnDecode_ne_panic (d : Bytes) : fsmnDecode d ≠ .panic := by
  unfold fsmnDecode; repeat' split
  all_goals (try simp)
  all_goals (repeat' split)
  all_goals simp

theorem c24_extStep_ne_panic (acc : Exts) (s p : Bytes) : extStep acc s p ≠ .panic := by
  unfold extStep
  have h1 := c24_treeDecode_ne_panic p
  have h2 := c24_untrDecode_ne_panic p
  have h3 := c24_fsmnDecode_ne_panic p
  repeat' split
  all_goals first | (simp; done) | simp_all

theorem c24_extFold_ne_panic : ∀ (l : List (Bytes × Bytes)) (acc : Exts), extFold acc l ≠ .panic
  | [], acc => by simp [extFold]
  | (s, p) :: rest, acc => by
    unfold extFold
    have h := c24_extStep_ne_panic acc s p
    split
    · exact c24_extFold_ne_panic rest _
    · simp
    · contradiction

theorem c24_extAll_ne_panic (d : Bytes) : extAll d ≠ .panic := by
  unfold extAll
  split
  · simp
  · simp only
    have h := c24_extFold_ne_panic (extIter (d.take (d.length - hashLen)).length (d.take (d.length - hashLen))).1 {}
    split
    · simp
    · simp
    · contradiction

theorem c24_decodeGroup_ne_panic (v4 : Bool) (data : Bytes) : ∀ os, decodeGroup v4 data os ≠ .panic
  | [] => by simp [decodeGroup]
  | o :: os => by
    unfold decodeGroup
    have ih := c24_decodeGroup_ne_panic v4 data os
    repeat' split
    all_goals first | (simp; done) | simp_all

theorem c24_joinGroups_ne_panic : ∀ (rs : List (Res (List Entry))), (∀ r ∈ rs, r ≠ .panic) → joinGroups rs ≠ .panic
  | [], _ => by simp [joinGroups]
  | r :: rs, h => by
    unfold joinGroups
    have hr := h r (by simp)
    have ih := c24_joinGroups_ne_panic rs (fun x hx => h x (by simp [hx]))
    split
    all_goals first | (simp; done) | simp_all

theorem c24_decodeGrouped_ne_panic (v4 : Bool) (c : Nat) (data : Bytes) (offs : List Offset) :
    decodeGrouped v4 c data offs ≠ .panic := by
  unfold decodeGrouped
  apply c24_joinGroups_ne_panic
  intro r hr
  simp only [List.mem_map] at hr
  obtain ⟨g, _, rfl⟩ := hr
  exact c24_decodeGroup_ne_panic v4 data g

theorem c24_threadedEntries_ne_panic (v4 : Bool) (n : Nat) (ph data ext : Bytes) (t : Nat) :
    threadedEntries v4 n ph data ext t ≠ .panic := by
  unfold threadedEntries
  split
  · exact c24_decodeGrouped_ne_panic _ _ _ _
  · split <;> simp

theorem c24_finish_ne_panic (v : Nat) (es : List Entry) (x : Exts) (tr : Bytes) : finish v es x tr ≠ .panic := by
  unfold finish; split <;> simp

theorem c24_serialDecode_ne_panic (v n : Nat) (ph : Bytes) : serialDecode v n ph ≠ .panic := by
  unfold serialDecode
  split
  · simp
  · have h := c24_extAll_ne_panic
    split
    · simp
    · rename_i heq; exact absurd heq (h _)
    · exact c24_finish_ne_panic _ _ _ _

theorem c24_threadedDecode_ne_panic (v n : Nat) (ph data : Bytes) (off t : Nat) :
    threadedDecode v n ph data off t ≠ .panic := by
  unfold threadedDecode
  have h1 := c24_extAll_ne_panic (data.drop off)
  have h2 := c24_threadedEntries_ne_panic (v == 4) n ph data (data.drop off) t
  split
  all_goals first | (simp; done) | (exact c24_finish_ne_panic _ _ _ _) | simp_all

theorem c24_fromBytes_ne_panic (sha1 : Bytes → Bytes) (t : Nat) (data : Bytes) : fromBytes sha1 t data ≠ .panic := by
  unfold fromBytes
  split
  · simp
  · split
    · split
      · exact c24_threadedDecode_ne_panic _ _ _ _ _ _
      · exact c24_serialDecode_ne_panic _ _ _
    · exact c24_serialDecode_ne_panic _ _ _

end GixModel.C06C24
