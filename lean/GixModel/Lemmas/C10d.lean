import GixModel.Model.C10Inject
/-
C10 — `injectBases` writes a pack without gaps: every yielded entry starts where the previous one ends,
whatever is inserted and however headers shrink or grow.
-/
namespace GixModel.C10

def endOf (out : List OutEntry) (start : Nat) : Nat :=
  match out.getLast? with
  | some o => o.ofs + o.hsize + o.body
  | none => start

theorem contiguous_snoc (out : List OutEntry) (o : OutEntry) (hc : contiguous out = true)
    (hl : ∀ l, out.getLast? = some l → o.ofs = l.ofs + l.hsize + l.body) : contiguous (out ++ [o]) = true := by
  induction out with
  | nil => rfl
  | cons a rest ih =>
    cases rest with
    | nil =>
      have := hl a rfl
      simp [contiguous, this]
    | cons b rest' =>
      simp only [contiguous, Bool.and_eq_true, beq_iff_eq] at hc
      have ih' := ih hc.2 (fun l h => hl l (by simpa [List.getLast?_cons_cons] using h))
      simp only [List.cons_append, contiguous, Bool.and_eq_true, beq_iff_eq]
      exact ⟨hc.1, by simpa using ih'⟩

theorem endOf_snoc (out : List OutEntry) (o : OutEntry) (start : Nat) :
    endOf (out ++ [o]) start = o.ofs + o.hsize + o.body := by
  simp [endOf]

theorem head_snoc (out : List OutEntry) (o x : OutEntry) (start : Nat)
    (hf : ∀ y, out.head? = some y → y.ofs = start) (ho : out = [] → o.ofs = start)
    (hx : (out ++ [o]).head? = some x) : x.ofs = start := by
  cases out with
  | nil => simp at hx; subst hx; exact ho rfl
  | cons a rest => simp at hx; subst hx; exact hf _ rfl

/-- what holds between two calls of `next()`; `next` = the offset of the next entry of the thin pack -/
structure IInv (start : Nat) (st : IState) (next : Nat) : Prop where
  contig : contiguous st.out = true
  first : ∀ o, st.out.head? = some o → o.ofs = start
  endEq : (endOf st.out start : Int) = (next : Int) + st.total
  noChange : st.changes = [] → st.total = 0
  empty : st.out = [] → next = start ∧ st.total = 0

theorem shifted_eq_end {start : Nat} {st : IState} {next : Nat} (inv : IInv start st next) :
    shifted st next = endOf st.out start := by
  unfold shifted
  rw [← inv.endEq]
  exact Int.toNat_natCast _

theorem trackChange_total (st : IState) (a b : Nat) (d : Int) (o : Option Nat) :
    (trackChange st a b d o).total = st.total + d ∧ (trackChange st a b d o).out = st.out
    ∧ ((trackChange st a b d o).changes = [] → st.changes = [] ∧ d = 0) := by
  unfold trackChange
  split
  · rename_i h; subst h; exact ⟨by simp, rfl, fun h => ⟨h, rfl⟩⟩
  · exact ⟨rfl, rfl, fun h => by simp at h⟩

/-- appending an entry of the given size at the current end keeps the invariant for the following input
offset -/
theorem IInv.push {start : Nat} {st : IState} {next : Nat} (inv : IInv start st next) (o : OutEntry)
    (ho : o.ofs = shifted st next) (delta : Int) (next' : Nat) (a b : Nat) (oid : Option Nat)
    (hsz : ((o.hsize + o.body : Nat) : Int) + (next : Int) = (next' : Int) + delta) :
    IInv start (trackChange { st with out := st.out ++ [o] } a b delta oid) next' := by
  have hend := shifted_eq_end inv
  obtain ⟨ht, hout, hch⟩ := trackChange_total { st with out := st.out ++ [o] } a b delta oid
  refine ⟨?_, ?_, ?_, ?_, ?_⟩
  · rw [hout]
    apply contiguous_snoc _ _ inv.contig
    intro l hl
    rw [ho, hend]; simp [endOf, hl]
  · intro x hx
    rw [hout] at hx
    apply head_snoc st.out o x start inv.first _ hx
    intro he
    rw [ho, hend]; simp [endOf, he]
  · rw [hout, ht, endOf_snoc]
    have : (o.ofs : Int) = (next : Int) + st.total := by rw [ho, hend]; exact inv.endEq
    simp only [] at *
    omega
  · intro h
    obtain ⟨h1, h2⟩ := hch h
    rw [ht, h2]
    have := inv.noChange h1
    simp only [] at *
    omega
  · intro h
    rw [hout] at h
    simp at h

end GixModel.C10

namespace GixModel.C10

theorem trackChange_zero (st : IState) (a b : Nat) (o : Option Nat) : trackChange st a b 0 o = st := by
  simp [trackChange]

theorem IInv.shiftAndPoint {start : Nat} {st : IState} {e : InEntry} (inv : IInv start st e.ofs) (idx dist : Nat) :
    IInv start (shiftAndPoint st idx e dist) (e.ofs + e.hsize + e.body) := by
  unfold GixModel.C10.shiftAndPoint
  apply inv.push
  · rfl
  · simp only []
    omega

theorem inactive_total {start : Nat} {st : IState} {next : Nat} (inv : IInv start st next) (fix : Fix)
    (h : isActive fix st = false) : st.total = 0 := by
  cases fix with
  | repaired =>
    simp only [isActive, Bool.not_eq_false', List.isEmpty_iff] at h
    exact inv.noChange h
  | asFound => simpa [isActive] using h

theorem IInv.keep {start : Nat} {st : IState} {e : InEntry} (inv : IInv start st e.ofs) (o : OutEntry)
    (ho : o.ofs = shifted st e.ofs) (hh : o.hsize = e.hsize) (hb : o.body = e.body) :
    IInv start { st with out := st.out ++ [o] } (e.ofs + e.hsize + e.body) := by
  have := inv.push o ho 0 (e.ofs + e.hsize + e.body) 0 0 none (by rw [hh, hb]; omega)
  rwa [trackChange_zero] at this

theorem injectOne_inv {start : Nat} {fix : Fix} {odb : Nat → Option (Nat × Nat)} {st st' : IState} {idx : Nat}
    {e : InEntry} (inv : IInv start st e.ofs) (h : injectOne fix odb st idx e = some st') :
    IInv start st' (e.ofs + e.hsize + e.body) := by
  unfold injectOne at h
  split at h
  · -- ref-delta
    rename_i id _
    split at h
    · split at h
      · rename_i bh bb _
        cases h
        have inv1 : IInv start (trackChange { st with out := st.out ++ [{ ofs := shifted st e.ofs, hdr := Hdr.base, hsize := bh, body := bb, src := none, baseId := some id }] }
            (shifted st e.ofs) e.ofs ((bh + bb : Nat) : Int) (some id)) e.ofs :=
          inv.push _ rfl _ _ _ _ _ (by simp only []; omega)
        exact inv1.shiftAndPoint idx (bh + bb)
      · cases h
    · cases h; exact inv.shiftAndPoint idx _
  · -- ofs-delta
    split at h
    · dsimp only at h
      split at h
      · split at h
        · cases h; exact inv.shiftAndPoint idx _
        · cases h
      · cases h; exact inv.shiftAndPoint idx _
    · rename_i hact
      cases h
      have ht := inactive_total inv fix (by simpa using hact)
      exact inv.keep _ (by simp [shifted, ht]) rfl rfl
  · -- base object
    cases h
    apply inv.keep _ _ rfl rfl
    simp only []
    split
    · rfl
    · rename_i hact
      have ht := inactive_total inv fix (by simpa using hact)
      simp [shifted, ht]

/-- the entries of the thin pack follow each other without gaps -/
def InContig : List InEntry → Prop
  | a :: b :: rest => b.ofs = a.ofs + a.hsize + a.body ∧ InContig (b :: rest)
  | _ => True

theorem injectFrom_inv {start : Nat} {fix : Fix} {odb : Nat → Option (Nat × Nat)} :
    ∀ (entries : List InEntry) (st st' : IState) (idx : Nat), InContig entries →
      (∀ e, entries.head? = some e → IInv start st e.ofs) → (entries = [] → contiguous st.out = true ∧ ∀ o, st.out.head? = some o → o.ofs = start) →
      injectFrom fix odb st idx entries = some st' →
      contiguous st'.out = true ∧ ∀ o, st'.out.head? = some o → o.ofs = start := by
  intro entries
  induction entries with
  | nil => intro st st' idx _ _ hnil h; cases h; exact hnil rfl
  | cons e rest ih =>
    intro st st' idx hc hinv _ h
    simp only [injectFrom] at h
    split at h
    · rename_i st1 h1
      have inv1 := injectOne_inv (hinv e rfl) h1
      apply ih st1 st' (idx + 1) _ _ _ h
      · cases rest with
        | nil => trivial
        | cons b rest' => exact hc.2
      · intro b hb
        cases rest with
        | nil => cases hb
        | cons b' rest' =>
          simp at hb; subst hb
          rw [hc.1]; exact inv1
      · intro _; exact ⟨inv1.contig, inv1.first⟩
    · cases h

end GixModel.C10
