/-
C16, reflogs: for transactions that do not dereference, the reflog lines written are exactly one
per updated name, with old = the object the name had (null if it had none or was symbolic) and
new = the new object.
-/
import GixModel.Lemmas.C16Fs

namespace GixModel.C16Fs
open GixModel.C17 GixModel.C16

/-- the reflog line of an update in terms of the value `ex` the name had before -/
def specLine (ex : Option Target) (e : Edit) : Option LogLine :=
  match e.update.change with
  | .update _ expected (.symbolic _) =>
    match ex, expected with
    | none, .existingMustMatch (.object o) => some (0, o)   -- a new symbolic ref, as when cloning
    | _, _ => none
  | .update _ _ (.object new) =>
    match ex with
    | some (.object p) => if p = new then none else some (p, new)
    | _ => some (0, new)
  | .delete _ _ => none

/-- the reflogs after the updates of a transaction, from the values the names had (`M`) -/
def specLogsU (M : RefMap) : List (Name × List LogLine) → List Edit → List (Name × List LogLine)
  | logs, [] => logs
  | logs, e :: rest =>
    specLogsU M (match specLine (M e.name) e with
      | some l => if autoLog e.name || (lookup logs e.name).isSome then appendLog logs e.name l else logs
      | none => logs) rest

theorem applied_leaf (cx : Ctx) (ex : Option Target) (e : Edit) : (applied cx ex e).leafPrev = e.leafPrev := by
  unfold applied; split <;> rfl

/-- what `commit_inner` logs for an applied edit without a leaf value is the line from the old
value, provided the expectation held -/
theorem logLineOf_applied (cx : Ctx) (ex : Option Target) (e : Edit) (hl : e.leafPrev = none)
    (hc : checkC ex e = none) : logLineOf (applied cx ex e) = specLine ex e := by
  unfold logLineOf specLine
  have hleaf := applied_leaf cx ex e
  unfold applied at hleaf ⊢
  unfold checkC at hc
  cases hch : e.update.change with
  | delete exp log => simp
  | update log exp new =>
    rw [hch] at hc hleaf
    simp only [] at hc hleaf ⊢
    cases new with
    | symbolic r =>
      simp only []
      cases ex with
      | none =>
        cases exp with
        | existingMustMatch t => cases t <;> simp [recordExisting]
        | any => simp [recordExisting]
        | mustExist => simp [recordExisting]
        | mustNotExist => simp [recordExisting]
        | mustExistAndMatch t => simp [recordExisting]
      | some t => simp [recordExisting]
    | object o =>
      simp only [hleaf, hl]
      cases ex with
      | none =>
        simp only [recordExisting]
        cases exp with
        | mustExistAndMatch t => simp [checkUpdate] at hc
        | any => simp
        | mustExist => simp
        | mustNotExist => simp
        | existingMustMatch t => simp
      | some t =>
        cases t with
        | object p => simp [recordExisting]
        | symbolic r => simp [recordExisting]

/-! ### transactions that do not dereference -/

def NoDeref (t : Txn) : Prop := ∀ u ∈ t.edits, u.deref = false

theorem splitPass_noderef (find : Name → Option Target) (eid : Nat) (l : List Edit)
    (h : ∀ e ∈ l, e.update.deref = false) : splitPass find eid l = (l, []) := by
  induction l generalizing eid with
  | nil => rfl
  | cons e rest ih =>
    have he : e.update.deref = false := h e (List.mem_cons_self ..)
    have hs : splitEdit find eid e = (e, []) := by simp [splitEdit, he]
    simp only [splitPass, hs, ih (eid + 1) (fun x hx => h x (List.mem_cons_of_mem _ hx))]
    rfl

theorem preProcess_noderef (find : Name → Option Target) (edits : List RefEdit)
    (h : ∀ u ∈ edits, u.deref = false) (es : List Edit) (hp : preProcess find edits = .ok es) :
    es = edits.map fun u => { update := u } := by
  unfold preProcess extendWithSplits at hp
  have hall : ∀ e ∈ (edits.map fun u => ({ update := u } : Edit)), e.update.deref = false := by
    intro e he
    obtain ⟨u, hu, hue⟩ := List.mem_map.mp he
    rw [← hue]; exact h u hu
  have hloop : splitLoop find 5 1 0 (edits.map fun u => ({ update := u } : Edit))
      = some (.ok (edits.map fun u => ({ update := u } : Edit))) := by
    simp only [splitLoop, List.drop_zero, List.take_zero, List.nil_append,
      splitPass_noderef find 0 _ hall, List.isEmpty_nil, if_true]
  rw [hloop] at hp
  simp only [] at hp
  split at hp
  · cases hp
  · injection hp with hp; exact hp.symm

theorem lockAndApply_leaf (cx : Ctx) (S : Store) (e : Edit) (S1 : Store) (e1 : Edit)
    (h : lockAndApply cx S e = .ok (S1, e1)) : e1.leafPrev = e.leafPrev := by
  unfold lockAndApply at h
  repeat' ((try dsimp only at h); split at h)
  all_goals first
    | (simp at h; done)
    | (simp only [Except.ok.injEq, Prod.mk.injEq] at h; rw [← h.2])

/-- without parents the second walk never runs: no edit ever gets a leaf value -/
theorem prepLoop_leaf_none (cx : Ctx) (unlockPacked : Store → Store) :
    ∀ todo cid S (es : List Edit), (∀ e ∈ es, e.parent = none ∧ e.leafPrev = none) →
      match prepLoop .fixed cx unlockPacked todo cid S es with
      | .ok es' _ => ∀ e ∈ es', e.parent = none ∧ e.leafPrev = none
      | _ => True := by
  intro todo
  induction todo with
  | zero => intro cid S es h; simpa [prepLoop] using h
  | succ todo ih =>
    intro cid S es h
    simp only [prepLoop]
    cases hget : es[cid]? with
    | none => simpa using h
    | some e =>
      simp only []
      cases hla : lockAndApply cx S e with
      | error err =>
        cases err with
        | lock =>
          simp only []
          cases walkBy .fixed es es.length e.parent e.name with
          | none => trivial
          | some w => cases w <;> trivial
        | check ce =>
          simp only []
          cases errOfCheck e.name ce <;> trivial
      | ok r =>
        obtain ⟨S1, e1⟩ := r
        simp only []
        have hmem : e ∈ es := List.mem_of_getElem? hget
        have hp1 : e1.parent = none := by rw [lockAndApply_parent cx S e S1 e1 hla]; exact (h e hmem).1
        have hl1 : e1.leafPrev = none := by rw [lockAndApply_leaf cx S e S1 e1 hla]; exact (h e hmem).2
        have hset : ∀ x ∈ es.set cid e1, x.parent = none ∧ x.leafPrev = none := by
          intro x hx
          rcases List.mem_or_eq_of_mem_set hx with hx | hx
          · exact h x hx
          · rw [hx]; exact ⟨hp1, hl1⟩
        rw [hp1]
        have := ih (cid + 1) S1 (es.set cid e1) hset
        cases hprev : prevOid e1.update.change <;> simpa using this

theorem core_of_leaf_none (e : Edit) (h : e.leafPrev = none) : e.core = e := by
  cases e; simp only [Edit.core] at *; simp_all

theorem map_core_of_leaf_none (l : List Edit) (h : ∀ e ∈ l, e.leafPrev = none) : l.map Edit.core = l := by
  induction l with
  | nil => rfl
  | cons e rest ih =>
    simp only [List.map_cons, core_of_leaf_none e (h e (List.mem_cons_self ..)),
      ih (fun x hx => h x (List.mem_cons_of_mem _ hx))]

/-- `logsD` only looks at names and at whether an edit is a deletion -/
def editKind (e : Edit) : Name × Bool :=
  (e.name, match e.update.change with | .delete _ _ => true | .update _ _ _ => false)

theorem logsD_congr : ∀ (l1 l2 : List Edit) (logs : List (Name × List LogLine)),
    l1.map editKind = l2.map editKind → logsD logs l1 = logsD logs l2 := by
  intro l1
  induction l1 with
  | nil => intro l2 logs h; cases l2 with | nil => rfl | cons _ _ => simp at h
  | cons a l1 ih =>
    intro l2 logs h
    cases l2 with
    | nil => simp at h
    | cons b l2 =>
      simp only [List.map_cons, List.cons.injEq] at h
      obtain ⟨hab, hrest⟩ := h
      have hname : a.name = b.name := congrArg Prod.fst hab
      have hk : (match a.update.change with | .delete _ _ => true | .update _ _ _ => false)
          = (match b.update.change with | .delete _ _ => true | .update _ _ _ => false) := congrArg Prod.snd hab
      unfold logsD
      cases ha : a.update.change with
      | delete ea la =>
        cases hb : b.update.change with
        | delete eb lb => simp only []; rw [hname]; exact ih l2 _ hrest
        | update lb eb nb => rw [ha, hb] at hk; cases hk
      | update la ea na =>
        cases hb : b.update.change with
        | delete eb lb => rw [ha, hb] at hk; cases hk
        | update lb eb nb => simp only []; exact ih l2 _ hrest

theorem kind_of_sig (a b : Edit) (h : a.sig = b.sig) : editKind a = editKind b := by
  unfold editKind
  rw [sig_name b a h, sig_change b a h]

theorem applied_kind (cx : Ctx) (ex : Option Target) (e : Edit) : editKind (applied cx ex e) = editKind e := by
  unfold editKind
  rw [applied_name]
  unfold applied
  cases e.update.change <;> rfl

theorem core_sig (e : Edit) : e.core.sig = e.sig := rfl

/-- the first pass over applied edits is the pass over the old values -/
theorem logsU_applied (cx : Ctx) (M : RefMap) : ∀ (es : List Edit) (logs : List (Name × List LogLine)),
    (∀ e ∈ es, e.leafPrev = none) → (∀ e ∈ es, checkC (M e.name) e = none) →
    logsU logs (es.map fun e => applied cx (M e.name) e) = specLogsU M logs es := by
  intro es
  induction es with
  | nil => intro logs _ _; rfl
  | cons e rest ih =>
    intro logs hl hc
    simp only [List.map_cons, logsU, specLogsU]
    rw [logLineOf_applied cx (M e.name) e (hl e (List.mem_cons_self ..)) (hc e (List.mem_cons_self ..)), applied_name]
    exact ih _ (fun x hx => hl x (List.mem_cons_of_mem _ hx)) (fun x hx => hc x (List.mem_cons_of_mem _ hx))

theorem firstFailure_none (M : RefMap) : ∀ (es : List Edit), firstFailure M es = none →
    ∀ e ∈ es, checkC (M e.name) e = none := by
  intro es
  induction es with
  | nil => intro _ e he; cases he
  | cons x rest ih =>
    intro h e he
    simp only [firstFailure, checkEdit_eq] at h
    cases hx : checkC (M x.name) x with
    | some ce => rw [hx] at h; cases h
    | none =>
      rw [hx] at h
      cases he with
      | head => exact hx
      | tail _ he => exact ih h e he

/-- what `prepare` hands to `commit` when it succeeds (no foreign locks): every edit as
`lock_ref_and_apply_change` leaves it, all expectations hold -/
theorem prepared_edits (env : Env) (S : Store) (t : Txn) (hS : StoreOk S) (hL : NoLocks S) (hT : PlainTxn t)
    (es : List Edit) (hp : preProcess (fun n => lookup S.loose n) t.edits = .ok es)
    (p : Prepared) (S1 : Store) (h : prepareWith .fixed env S t = .ok p S1) :
    ∃ cx : Ctx, p.edits.map Edit.core = (es.map fun e => applied cx (S.find e.name) e).map Edit.core ∧
      firstFailure S.find es = none ∧
      (∃ todo cid S0 es0, es0 = es ∧ prepLoop .fixed cx (if cx.hasGlobalLock then (fun S' => { S' with packedLock := false }) else id) todo cid S0 es0 = .ok p.edits S1
        ∧ todo = es.length ∧ cid = 0) := by
  obtain ⟨hl0, hpl0⟩ := hL
  obtain ⟨hinv, hn⟩ := preProcess_ok_inv _ _ hT es hp
  have hw := preProcess_ok_wf _ _ _ hp
  have hlk : ∀ e ∈ es, e.lock = false := fun e he => (hinv e he).1
  have hunlock : ({ ({ S with packedLock := true } : Store) with packedLock := false } : Store) = S := by
    cases S; simp_all
  rw [prepareWith_ok_eq env S t es hp hpl0] at h
  by_cases hwith : withTxB t.mode S es = true
  · simp only [hwith, if_true] at h
    by_cases hk : objectsKnown env t.mode es = true
    · simp only [hk, if_true] at h
      have hsum := prepLoop_summary
        { buffer := S.packed, hasGlobalLock := true, directToPacked := decide (t.mode = .updatesRemoveLoose) }
        (fun S' => { S' with packedLock := false }) { S with packedLock := true } S es hl0
        hunlock hw hlk hn (fun e _ => readExisting_tx S true e.name)
      cases hpl : prepLoop .fixed
          { buffer := S.packed, hasGlobalLock := true, directToPacked := decide (t.mode = .updatesRemoveLoose) }
          (fun S' => { S' with packedLock := false }) es.length 0 { S with packedLock := true } es with
      | ok es' S2 =>
        rw [hpl] at hsum h
        simp only [liftPrep] at h
        injection h with h1 h2
        subst h1 h2
        exact ⟨_, hsum.2.2, hsum.1, es.length, 0, _, es, rfl, hpl, rfl, rfl⟩
      | err e S2 => rw [hpl] at h; simp [liftPrep] at h
      | panic S2 => rw [hpl] at h; simp [liftPrep] at h
      | hang => rw [hpl] at h; simp [liftPrep] at h
    · simp [hk] at h
  · have hwith' : withTxB t.mode S es = false := by simpa using hwith
    simp only [hwith', Bool.false_eq_true, if_false] at h
    obtain ⟨hfind, _⟩ := notx_facts S hS t.mode es hinv hwith'
    have hsum := prepLoop_summary
      { buffer := none, hasGlobalLock := false, directToPacked := decide (t.mode = .updatesRemoveLoose) }
      id S S es hl0 rfl hw hlk hn hfind
    cases hpl : prepLoop .fixed
        { buffer := none, hasGlobalLock := false, directToPacked := decide (t.mode = .updatesRemoveLoose) }
        id es.length 0 S es with
    | ok es' S2 =>
      rw [hpl] at hsum h
      simp only [liftPrep] at h
      injection h with h1 h2
      subst h1 h2
      exact ⟨_, hsum.2.2, hsum.1, es.length, 0, _, es, rfl, hpl, rfl, rfl⟩
    | err e S2 => rw [hpl] at h; simp [liftPrep] at h
    | panic S2 => rw [hpl] at h; simp [liftPrep] at h
    | hang => rw [hpl] at h; simp [liftPrep] at h

/-- Reflogs of a transaction that does not dereference (no foreign locks, no name of the
transaction below a loose reference file): if it succeeds, the reflogs are the old ones after one
pass over the updates — per updated name one line `old -> new` with old = the object the name
had (null id if it had none or was symbolic), nothing if the value does not change, nothing for
symbolic values (except the new-symbolic-ref-with-`ExistingMustMatch(object)` case), only for
names that get reflogs by default or have one — and one pass that removes the reflog of every
deleted name. -/
theorem reflog_noderef (env : Env) (SX SX' : StoreX) (t : Txn) (hS : StoreOk SX.base) (hL : NoLocks SX.base)
    (hT : PlainTxn t) (hnd : NoDeref t)
    (hnb : ∀ es, preProcess (fun n => lookup SX.base.loose n) t.edits = .ok es → blockedNames SX.base es = [])
    (h : runX env SX t = .ok SX') :
    SX'.logs = logsD (specLogsU (abs SX.base) SX.logs (t.edits.map fun u => { update := u }))
      (t.edits.map fun u => { update := u }) := by
  unfold runX at h
  cases hp : preProcess (fun n => lookup SX.base.loose n) t.edits with
  | outOfFuel => rw [hp] at h; simp at h
  | cycle => rw [hp] at h; simp at h
  | duplicate => rw [hp] at h; simp at h
  | ok es =>
    rw [hp] at h
    simp only [hnb es hp, List.append_nil, unblock_nil] at h
    have hes := preProcess_noderef _ _ hnd es hp
    cases hprep : prepareWith .fixed env SX.base t with
    | hang => rw [hprep] at h; simp at h
    | err e S1 => rw [hprep] at h; simp at h
    | panic S1 => rw [hprep] at h; simp at h
    | ok p S1 =>
      rw [hprep] at h
      simp only [] at h
      obtain ⟨_, hlogs⟩ := commitX_ok { SX with base := S1 } SX' p h
      obtain ⟨cx, hcore, hff, todo, cid, S0, es0, hes0, hloop, _, _⟩ := prepared_edits env SX.base t hS hL hT es hp p S1 hprep
      -- no parents, no leaf values
      have hroot : ∀ e ∈ es, e.parent = none ∧ e.leafPrev = none := by
        intro e he
        rw [hes] at he
        obtain ⟨u, _, hu⟩ := List.mem_map.mp he
        rw [← hu]; exact ⟨rfl, rfl⟩
      have hleaf := prepLoop_leaf_none cx (if cx.hasGlobalLock then (fun S' => { S' with packedLock := false }) else id)
        todo cid S0 es0 (by rw [hes0]; exact hroot)
      rw [hloop] at hleaf
      simp only [] at hleaf
      have hpe : p.edits = es.map fun e => applied cx (SX.base.find e.name) e := by
        have h1 : p.edits.map Edit.core = p.edits := map_core_of_leaf_none _ (fun e he => (hleaf e he).2)
        have h2 : (es.map fun e => applied cx (SX.base.find e.name) e).map Edit.core
            = es.map fun e => applied cx (SX.base.find e.name) e := by
          apply map_core_of_leaf_none
          intro x hx
          obtain ⟨e, he, hex⟩ := List.mem_map.mp hx
          rw [← hex, applied_leaf]; exact (hroot e he).2
        rw [← h1, hcore, h2]
      rw [hlogs]
      simp only []
      have hU : logsU SX.logs p.edits = specLogsU (abs SX.base) SX.logs es := by
        rw [hpe]
        exact logsU_applied cx (abs SX.base) es SX.logs (fun e he => (hroot e he).2)
          (firstFailure_none _ es hff)
      have hkinds : ((commitUpdates (decide (p.mode = .updatesRemoveLoose)) S1 (p.edits.map Edit.core)).2).map editKind
          = es.map editKind := by
        have hsig := (commitUpdates_frame (decide (p.mode = .updatesRemoveLoose)) S1 (p.edits.map Edit.core)).2.2
        have : ∀ l1 l2 : List Edit, l1.map Edit.sig = l2.map Edit.sig → l1.map editKind = l2.map editKind := by
          intro l1
          induction l1 with
          | nil => intro l2 h; cases l2 with | nil => rfl | cons _ _ => simp at h
          | cons a l1 ih =>
            intro l2 h
            cases l2 with
            | nil => simp at h
            | cons b l2 =>
              simp only [List.map_cons, List.cons.injEq] at h ⊢
              exact ⟨kind_of_sig a b h.1, ih l2 h.2⟩
        rw [this _ _ hsig, hpe]
        simp [List.map_map, Function.comp_def, editKind, core_name, applied_name]
        intro e _
        unfold applied Edit.core
        cases e.update.change <;> rfl
      rw [hU, logsD_congr _ _ _ hkinds, hes]

/-- `reflog_noderef` without the side condition on names below loose files -/
theorem reflog_noderef_any (env : Env) (SX SX' : StoreX) (t : Txn) (hS : StoreOk SX.base) (hL : NoLocks SX.base)
    (hT : PlainTxn t) (hnd : NoDeref t) (h : runX env SX t = .ok SX') :
    SX'.logs = logsD (specLogsU (abs SX.base) SX.logs (t.edits.map fun u => { update := u }))
      (t.edits.map fun u => { update := u }) := by
  obtain ⟨p, S1, hprep, hc⟩ := runX_ok_parts env SX SX' t hL h
  cases hp : preProcess (fun n => lookup SX.base.loose n) t.edits with
  | outOfFuel => unfold prepareWith at hprep; rw [hp] at hprep; cases hprep
  | cycle => unfold prepareWith at hprep; rw [hp] at hprep; cases hprep
  | duplicate => unfold prepareWith at hprep; rw [hp] at hprep; cases hprep
  | ok es =>
    have hes := preProcess_noderef _ _ hnd es hp
    obtain ⟨_, hlogs⟩ := commitX_ok { SX with base := S1 } SX' p hc
    obtain ⟨cx, hcore, hff, todo, cid, S0, es0, hes0, hloop, _, _⟩ := prepared_edits env SX.base t hS hL hT es hp p S1 hprep
    have hroot : ∀ e ∈ es, e.parent = none ∧ e.leafPrev = none := by
      intro e he
      rw [hes] at he
      obtain ⟨u, _, hu⟩ := List.mem_map.mp he
      rw [← hu]; exact ⟨rfl, rfl⟩
    have hleaf := prepLoop_leaf_none cx (if cx.hasGlobalLock then (fun S' => { S' with packedLock := false }) else id)
      todo cid S0 es0 (by rw [hes0]; exact hroot)
    rw [hloop] at hleaf
    simp only [] at hleaf
    have hpe : p.edits = es.map fun e => applied cx (SX.base.find e.name) e := by
      have h1 : p.edits.map Edit.core = p.edits := map_core_of_leaf_none _ (fun e he => (hleaf e he).2)
      have h2 : (es.map fun e => applied cx (SX.base.find e.name) e).map Edit.core
          = es.map fun e => applied cx (SX.base.find e.name) e := by
        apply map_core_of_leaf_none
        intro x hx
        obtain ⟨e, he, hex⟩ := List.mem_map.mp hx
        rw [← hex, applied_leaf]; exact (hroot e he).2
      rw [← h1, hcore, h2]
    rw [hlogs]
    simp only []
    have hU : logsU SX.logs p.edits = specLogsU (abs SX.base) SX.logs es := by
      rw [hpe]
      exact logsU_applied cx (abs SX.base) es SX.logs (fun e he => (hroot e he).2)
        (firstFailure_none _ es hff)
    have hkinds : ((commitUpdates (decide (p.mode = .updatesRemoveLoose)) S1 (p.edits.map Edit.core)).2).map editKind
        = es.map editKind := by
      have hsig := (commitUpdates_frame (decide (p.mode = .updatesRemoveLoose)) S1 (p.edits.map Edit.core)).2.2
      have : ∀ l1 l2 : List Edit, l1.map Edit.sig = l2.map Edit.sig → l1.map editKind = l2.map editKind := by
        intro l1
        induction l1 with
        | nil => intro l2 h; cases l2 with | nil => rfl | cons _ _ => simp at h
        | cons a l1 ih =>
          intro l2 h
          cases l2 with
          | nil => simp at h
          | cons b l2 =>
            simp only [List.map_cons, List.cons.injEq] at h ⊢
            exact ⟨kind_of_sig a b h.1, ih l2 h.2⟩
      rw [this _ _ hsig, hpe]
      simp [List.map_map, Function.comp_def, editKind, core_name, applied_name]
      intro e _
      unfold applied Edit.core
      cases e.update.change <;> rfl
    rw [hU, logsD_congr _ _ _ hkinds, hes]

end GixModel.C16Fs
