import GixModel.Lemmas.C36Multi
/-
C36 — any number of single stars: the joint induction (fuel covers pattern length; the recursive
calls behind a star use the induction hypothesis on the rest of the pattern and every suffix of the
text; the depth cut-off is covered by `count42 ps ≤ d`).
-/
namespace GixModel.C36
open GixModel GixModel.Spec.C36

theorem relAA_if {cM : Prop} [Decidable cM] {cS : Prop} [Decidable cS] (hc : cM ↔ cS) {a : Res} {b : Wm}
    (h : RelAA a b) : RelAA (if cM then Res.noMatch else a) (if cS then Wm.noMatch else b) := by
  by_cases h1 : cM
  · have h2 : cS := hc.mp h1
    simp [h1, h2, RelAA, ofWm]
  · have h2 : ¬ cS := fun x => h1 (hc.mpr x)
    simp [h1, h2, h]

theorem count42_tail_le (c : UInt8) (r : Bytes) : count42 r ≤ count42 (c :: r) := by
  have := count42_drop (c :: r) 1
  simpa using this

/-- T2+: any number of single stars (no `**`) -/
theorem go_rel_multi (m : Mode) :
    ∀ (fuel d : Nat) (pattern text : Bytes), PatOk m pattern → noDS pattern = true → (∀ c ∈ text, c ≠ 0) →
      ∀ (ps ts : Bytes) (i ti : Nat) (prev : Option UInt8),
        pattern.drop i = ps → text.drop ti = ts → ps.length ≤ fuel → count42 ps ≤ d →
        RelAA (go m fuel d pattern text ⟨i, ps⟩ ⟨ti, ts⟩) (dowild (flagsOf m) fuel prev ps ts) := by
  intro fuel
  induction fuel with
  | zero => intros; left; simp [go, dowild, ofWm]
  | succ n ih =>
    intro d pattern text hok hds htext ps ts i ti prev hinv htinv hfuel hdepth
    have htnn : ∀ c ∈ ts, c ≠ 0 := fun c hc => htext c (List.mem_of_mem_drop (htinv ▸ hc))
    cases ps with
    | nil =>
      left
      rw [go_nil, dw_nil (by intro h; exact (htnn 0 h) rfl)]
      cases ts <;> simp [ofWm]
    | cons c r =>
      have hmem : ∀ x ∈ c :: r, x ∈ pattern := fun x hx => List.mem_of_mem_drop (hinv ▸ hx)
      have hc0 : c ≠ 0 := hok.noNul c (hmem c (by simp))
      have hr := drop_succ_of_drop hinv
      have hrl : r.length ≤ n := by simp at hfuel; omega
      have hrd : count42 r ≤ d := Nat.le_trans (count42_tail_le c r) hdepth
      obtain ⟨s42, s92, s63, s91, s47, s0, s93⟩ := lc_special m c
      by_cases h42 : c = 42
      · subst h42
        have hdpos : count42 r + 1 ≤ d := by rw [count42_cons42] at hdepth; exact hdepth
        have hdne : d ≠ 0 := by omega
        have hilen : i + 1 ≤ pattern.length := lt_of_drop_cons hinv
        have hpsds : noDS (42 :: r) = true := by rw [← hinv]; exact noDS_drop hds i
        cases r with
        | nil =>
          left
          rw [go_star_end', dw_star_end]
          have hs : sliceFrom text (if ts.isEmpty then text.length else ti) = some ts := by
            unfold sliceFrom
            cases ts with
            | nil => simp
            | cons a b =>
              have := lt_of_drop_cons htinv
              simp [Nat.le_of_lt this, htinv]
          rw [hs]
          simp only [contains47_iff, flagsOf_pathname]
          by_cases hcnd : (m.noMatchSlash && (strchrSlash ts).isSome) = true
          · simp [hcnd, ofWm]
          · simp [hcnd, ofWm]
        | cons c1 r' =>
          have hc1_42 : c1 ≠ 42 := noDS_star_next hpsds
          have hc1_0 : c1 ≠ 0 := hok.noNul c1 (hmem c1 (by simp))
          have hl42 : lc m c1 ≠ 42 := fun h => hc1_42 ((lc_special m c1).1.mp h)
          have h47 : lc m c1 = 47 ↔ c1 = 47 := (lc_special m c1).2.2.2.2.1
          have hr2 := drop_succ_of_drop hr
          rw [dw_star1 hc1_0 hc1_42]
          by_cases hns : m.noMatchSlash = true ∧ lc m c1 = 47
          · have hcS : ((flagsOf m).pathname && c1 == 47) = true := by
              simp [hns.1, h47.mp hns.2]
            simp only [hcS, if_true]
            cases ts with
            | nil =>
              left
              rw [go_star1_slash_nil hns]
              simp [strchrSlash, ofWm]
            | cons tc tr =>
              have hti := lt_of_drop_cons htinv
              rw [go_star1_slash hns]
              have hsl : sliceFrom text ti = some (tc :: tr) := by
                unfold sliceFrom; simp [Nat.le_of_lt hti, htinv]
              rw [hsl]
              simp only []
              cases hf : findSlash (tc :: tr) with
              | none => left; simp [findSlash_none hf, ofWm]
              | some dist =>
                obtain ⟨h1, h2⟩ := findSlash_some hf
                rw [h1]
                simp only []
                have hd' : dist ≤ tr.length := by simp at h2; omega
                have hadv : (Iter.mk (ti + 1) tr).advance dist = ⟨ti + 1 + dist, tr.drop dist⟩ := by
                  simp [Iter.advance, Nat.min_eq_left hd']
                rw [hadv]
                have htail : (List.drop dist (tc :: tr)).tail = tr.drop dist := by
                  rw [List.tail_drop]; simp
                rw [htail]
                exact ih d pattern text hok hds htext r' (tr.drop dist) (i + 2) (ti + 1 + dist) (some 47) hr2
                  (by
                    have := drop_add_eq htinv (1 + dist)
                    rw [← Nat.add_assoc] at this
                    rw [this]; simp [Nat.add_comm 1 dist])
                  (by simp at hrl ⊢; omega)
                  (Nat.le_trans (count42_tail_le c1 r') (by omega))
          · have hcS : ((flagsOf m).pathname && c1 == 47) = false := by
              cases hp : m.noMatchSlash with
              | false => simp [hp]
              | true =>
                have : ¬ c1 = 47 := fun e => hns ⟨hp, h47.mpr e⟩
                simp [hp, this]
            simp only [hcS, Bool.false_eq_true, if_false]
            -- the recursive calls: by the induction hypothesis, on the rest of the pattern
            have hsubok : PatOk m (c1 :: r') := by rw [← hr]; exact patOk_drop hok (i + 1)
            have hsubds : noDS (c1 :: r') = true := noDS_tail hpsds
            have hrecM : ∀ k, k ≤ text.length →
                RelAA (recCall m n d pattern text (i + 1) k)
                  (dowild (flagsOf m) n none (c1 :: r') (text.drop k)) := by
              intro k hk
              unfold recCall sliceFrom
              simp only [hilen, hk, if_true]
              have hd' : (d == 0) = false := by simpa using hdne
              simp only [hd', Bool.false_eq_true, if_false, Iter.ofSlice, hr]
              exact ih (d - 1) (c1 :: r') (text.drop k) hsubok hsubds
                (fun c hc => htext c (List.mem_of_mem_drop hc)) (c1 :: r') (text.drop k) 0 0 none
                (by simp) (by simp) (by simpa using hrl) (by omega)
            have hrecBeyond : ∀ k, text.length < k → recCall m n d pattern text (i + 1) k ≠ .matched := by
              intro k hk
              unfold recCall sliceFrom
              have : ¬ k ≤ text.length := by omega
              simp [this]
            cases ts with
            | nil =>
              rw [go_star1_nil hl42 hns]
              simp only [hd, List.headD_nil]
              have hf0 : Spec.C36.fold (flagsOf m) 0 = 0 := by rw [fold_eq_lc]; exact (lc_special m 0).2.2.2.2.2.1.mpr rfl
              rw [hf0, List.length_nil, sl_zero]
              right
              refine ⟨rfl, ?_⟩
              by_cases hg : isGlobCharacter (lc m c1) = true
              · rw [starLoop_glob m _ _ _ _ hg]
                have hR := hrecM text.length (Nat.le_refl _)
                simp only [List.drop_length] at hR
                obtain ⟨n', e⟩ : ∃ n', n = n' + 1 := ⟨n - 1, by simp at hrl; omega⟩
                subst e
                rw [dw_abort hc1_0 hc1_42] at hR
                have hne := hR.ne_matched (by simp)
                simp only [Iter.next]
                split
                · exact hne
                · split <;> simp
              · simp only [Bool.not_eq_true] at hg
                have hne : (0 : UInt8) ≠ lc m c1 := fun h => hc1_0 ((lc_special m c1).2.2.2.2.2.1.mp h.symm)
                rw [starLoop_end m _ _ _ _ hg hne]
                simp
            | cons tc tr =>
              have hti := lt_of_drop_cons htinv
              have hlen : text.length - ti = tr.length + 1 := by
                have := congrArg List.length htinv
                simpa using this
              rw [go_star1 hl42 hns]
              have := starLoop_relAA m (fun k => recCall m n d pattern text (i + 1) k)
                (fun tx => dowild (flagsOf m) n none (c1 :: r') tx) (c1 :: r') (!m.noMatchSlash)
                (by simpa [hd] using hc1_0)
                (by
                  intro ⟨h1, h2⟩
                  apply hns
                  refine ⟨by simpa using h1, by simpa [hd] using h2⟩)
                (tc :: tr) htnn (by simp) ti (tr.length + 1) ((tc :: tr).length + 1)
                (Spec.C36.fold (flagsOf m) (hd (tc :: tr)))
                (by simp) (by simp) (Or.inr rfl)
                (by
                  intro j hj
                  have := hrecM (ti + j) (by simp at hj; omega)
                  rwa [drop_add_eq htinv j] at this)
                (by
                  intro k' hk'
                  by_cases hk : k' ≤ text.length
                  · -- exactly the end of the text: the recursive call sees an empty text and aborts
                    have hke : k' = text.length := by simp at hk'; omega
                    subst hke
                    have hR := hrecM text.length (Nat.le_refl _)
                    simp only [List.drop_length] at hR
                    obtain ⟨n', e⟩ : ∃ n', n = n' + 1 := ⟨n - 1, by simp at hrl; omega⟩
                    subst e
                    rw [dw_abort hc1_0 hc1_42] at hR
                    exact hR.ne_matched (by simp)
                  · exact hrecBeyond k' (by omega))
                (by
                  intro j hj' i'
                  have := dowild_abort_sound m n none (c1 :: r') ((tc :: tr).drop j) hsubds hsubok.noNul
                    (fun c hc => htnn c (List.mem_of_mem_drop hc)) hj' i'
                  rwa [List.drop_drop] at this)
              simpa [hd, flagsOf_pathname] using this
      · have hc42 : c ≠ 42 := h42
        cases ts with
        | nil =>
          left
          rw [go_abort (by rw [Ne, s42]; exact hc42), dw_abort hc0 hc42]
          rfl
        | cons tc tr =>
          have htc : tc ≠ 0 := htnn tc (by simp)
          have htr := drop_succ_of_drop htinv
          have htc' : lc m tc ≠ 0 := fun h => htc ((lc_special m tc).2.2.2.2.2.1.mp h)
          by_cases h92 : c = 92
          · subst h92
            cases r with
            | nil =>
              left
              rw [go_esc_end (by rw [s92]), dw_esc hc0 htc (by rw [fold_eq_lc, s92])]
              simp [hd, fold_eq_lc, ofWm, htc']
            | cons e r2 =>
              rw [go_esc (by rw [s92]), dw_esc hc0 htc (by rw [fold_eq_lc, s92])]
              have hle : lc m e = e := by
                cases hic : m.ignoreCase with
                | false => simp [lc, hic]
                | true =>
                  have := escSafe_drop pattern (hok.icase hic).2 i
                  rw [hinv] at this
                  simp [escSafe] at this
                  exact lc_of_not_upper m e (by simpa using this.1)
              simp only [hd, List.headD_cons, List.tail_cons, fold_eq_lc, hle]
              have hr2 := drop_succ_of_drop hr
              have := ih d pattern text hok hds htext r2 tr (i + 2) (ti + 1) (some e) hr2 htr
                (by simp at hrl ⊢; omega) (Nat.le_trans (count42_tail_le e r2) hrd)
              exact relAA_if (by constructor <;> (intro h; exact fun x => h x.symm)) this
          · by_cases h63 : c = 63
            · subst h63
              rw [go_qm (by rw [s63]), dw_qm hc0 htc (by rw [fold_eq_lc, s63])]
              have := ih d pattern text hok hds htext r tr (i + 1) (ti + 1) (some 63) hr htr hrl hrd
              simp only [fold_eq_lc, flagsOf_pathname]
              exact relAA_if (by simp) this
            · by_cases h91 : c = 91
              · subst h91
                have hic : m.ignoreCase = false := by
                  cases h : m.ignoreCase with
                  | false => rfl
                  | true => exact absurd rfl ((hok.icase h).1 91 (hmem 91 (by simp)))
                rw [go_br (by rw [s91]), dw_br hc0 htc (by rw [fold_eq_lc, s91])]
                have hb := bracket_rel m hic pattern hok.noNul (lc m tc) n (i + 1) r hr
                simp only [fold_eq_lc, flagsOf_pathname]
                cases hbs : Spec.C36.bracket (flagsOf m) (lc m tc) n r with
                | abort =>
                  rw [hbs] at hb
                  cases hbm : C36.bracket m pattern (lc m tc) n ⟨i + 1, r⟩ <;> rw [hbm] at hb <;> simp [BrRel] at hb
                  left; rfl
                | fuel =>
                  rw [hbs] at hb
                  cases hbm : C36.bracket m pattern (lc m tc) n ⟨i + 1, r⟩ <;> rw [hbm] at hb <;> simp [BrRel] at hb
                  left; rfl
                | done ok' rest =>
                  rw [hbs] at hb
                  have hlen := spec_bracket_len _ _ _ _ _ _ hbs
                  obtain ⟨jd, hjd⟩ := spec_bracket_suffix _ _ _ _ _ _ hbs
                  cases hbm : C36.bracket m pattern (lc m tc) n ⟨i + 1, r⟩ with
                  | abort => rw [hbm] at hb; simp [BrRel] at hb
                  | panic => rw [hbm] at hb; simp [BrRel] at hb
                  | fuel => rw [hbm] at hb; simp [BrRel] at hb
                  | done ok p =>
                    rw [hbm] at hb
                    obtain ⟨h1, h2, h3⟩ := hb
                    obtain ⟨k, pr⟩ := p
                    simp at h2 h3
                    subst h1 h2
                    simp only []
                    have := ih d pattern text hok hds htext pr tr k (ti + 1) (some 93) h3 htr (by omega)
                      (by rw [hjd]; exact Nat.le_trans (count42_drop r jd) hrd)
                    exact relAA_if (by simp) this
              · rw [go_lit (by rw [Ne, s42]; exact hc42) (by rw [Ne, s92]; exact h92)
                    (by rw [Ne, s63]; exact h63) (by rw [Ne, s91]; exact h91),
                  dw_lit hc0 htc (by rw [fold_eq_lc, Ne, s42]; exact hc42) (by rw [fold_eq_lc, Ne, s92]; exact h92)
                    (by rw [fold_eq_lc, Ne, s63]; exact h63) (by rw [fold_eq_lc, Ne, s91]; exact h91)]
                have := ih d pattern text hok hds htext r tr (i + 1) (ti + 1) (some c) hr htr hrl hrd
                simp only [fold_eq_lc]
                exact relAA_if (by constructor <;> (intro h; exact fun x => h x.symm)) this


end GixModel.C36
