import GixModel.Model.C41
/-
C41 — lemmas. System calls on a path without a symbolic link among its proper prefixes act at and
below that path only (`sys_step`); `create_directory` and `try_op_or_unlink` are such calls on one
path (`createDirectory_spec`, `tryOpOrUnlink_spec`); the push loop, `make_relative_path_current`
and `at_path` keep the stack invariant `Inv` (`pushLoop_spec`, `makeCurrent_spec`, `atPath_spec`);
one entry, the two phases and the whole checkout (`checkoutEntry_spec` … `checkout_spec`).
-/
namespace GixModel.C41

/-- `fs'` differs from `fs` only at `p` and below -/
def Below (p : Path) (fs fs' : FS) : Prop := ∀ q, p.isPrefixOf q = false → fs' q = fs q

theorem Below.refl (p : Path) (fs : FS) : Below p fs fs := fun _ _ => rfl
theorem Below.trans {p : Path} {a b c : FS} (h1 : Below p a b) (h2 : Below p b c) : Below p a c :=
  fun q hq => (h2 q hq).trans (h1 q hq)

/-- no symbolic link appears that was not there -/
def NoNewLinks (fs fs' : FS) : Prop := ∀ q, isLinkAt fs' q = true → isLinkAt fs q = true
theorem NoNewLinks.refl (fs : FS) : NoNewLinks fs fs := fun _ h => h
theorem NoNewLinks.trans {a b c : FS} (h1 : NoNewLinks a b) (h2 : NoNewLinks b c) : NoNewLinks a c :=
  fun q h => h1 q (h2 q h)

/-- … except possibly at `p` -/
def LinksOnlyAt (p : Path) (fs fs' : FS) : Prop := ∀ q, isLinkAt fs' q = true → isLinkAt fs q = true ∨ q = p
theorem LinksOnlyAt.refl (p : Path) (fs : FS) : LinksOnlyAt p fs fs := fun _ h => Or.inl h
theorem LinksOnlyAt.trans {p : Path} {a b c : FS} (h1 : LinksOnlyAt p a b) (h2 : LinksOnlyAt p b c) : LinksOnlyAt p a c := by
  intro q h
  rcases h2 q h with h | h
  · exact h1 q h
  · exact Or.inr h
theorem NoNewLinks.only {p : Path} {a b : FS} (h : NoNewLinks a b) : LinksOnlyAt p a b := fun q hq => Or.inl (h q hq)

/-- no proper, non-empty prefix of `p` is a symbolic link -/
def Clean (fs : FS) (p : Path) : Prop := ∀ k, 0 < k → k < p.length → isLinkAt fs (p.take k) = false

theorem linkPrefix_false (fs : FS) (p : Path) (h : Clean fs p) : linkPrefix fs p = false := by
  unfold linkPrefix
  rw [List.any_eq_false]
  intro k hk
  have hk' : k < p.length := List.mem_range.mp hk
  by_cases h0 : 0 < k
  · simp [h k h0 hk']
  · simp [h0]

theorem sys_eq_direct (follow : Follow) (fs : FS) (p : Path) (op : Op) (h : Clean fs p) :
    sys follow fs p op = direct fs p op := by
  unfold sys
  rw [linkPrefix_false fs p h]
  simp

theorem isPrefixOf_self (p : Path) : p.isPrefixOf p = true := by
  induction p with
  | nil => rfl
  | cons a as ih => simp [List.isPrefixOf, ih]

theorem set_below (fs : FS) (p : Path) (n : Node) : Below p fs (fs.set p n) := by
  intro q hq
  unfold FS.set
  by_cases h : q = p
  · subst h; rw [isPrefixOf_self] at hq; simp at hq
  · simp [h]

theorem erase_below (fs : FS) (p : Path) : Below p fs (fs.erase p) := by
  intro q hq
  unfold FS.erase
  by_cases h : q = p
  · subst h; rw [isPrefixOf_self] at hq; simp at hq
  · simp [h]

theorem eraseTree_below (fs : FS) (p : Path) : Below p fs (fs.eraseTree p) := by
  intro q hq
  unfold FS.eraseTree
  simp [hq]

theorem direct_below (fs : FS) (p : Path) (op : Op) : Below p fs (direct fs p op).1 := by
  unfold direct
  split
  · exact Below.refl _ _
  · cases op <;> simp only <;> (repeat' split) <;>
      first | exact Below.refl _ _ | exact set_below _ _ _ | exact erase_below _ _ | exact eraseTree_below _ _

theorem isLinkAt_set (fs : FS) (p q : Path) (n : Node) :
    isLinkAt (fs.set p n) q = if q = p then n.isLink else isLinkAt fs q := by
  unfold isLinkAt FS.set
  by_cases h : q = p <;> simp [h]

theorem isLinkAt_erase (fs : FS) (p q : Path) :
    isLinkAt (fs.erase p) q = if q = p then false else isLinkAt fs q := by
  unfold isLinkAt FS.erase
  by_cases h : q = p <;> simp [h]

theorem isLinkAt_eraseTree (fs : FS) (p q : Path) :
    isLinkAt (fs.eraseTree p) q = if p.isPrefixOf q then false else isLinkAt fs q := by
  unfold isLinkAt FS.eraseTree
  by_cases h : p.isPrefixOf q <;> simp [h]

theorem direct_links (fs : FS) (p : Path) (op : Op) : LinksOnlyAt p fs (direct fs p op).1 := by
  unfold direct
  split
  · exact LinksOnlyAt.refl _ _
  · cases op <;> simp only <;> (repeat' split) <;> (try exact LinksOnlyAt.refl _ _) <;>
      (intro q hq) <;>
      (first
        | (rw [isLinkAt_set] at hq; by_cases h : q = p
           · exact Or.inr h
           · simp only [h, if_false] at hq; exact Or.inl hq)
        | (rw [isLinkAt_erase] at hq; by_cases h : q = p
           · exact Or.inr h
           · simp only [h, if_false] at hq; exact Or.inl hq)
        | (rw [isLinkAt_eraseTree] at hq; by_cases h : p.isPrefixOf q
           · simp [h] at hq
           · simp only [h, if_false] at hq; exact Or.inl hq))

theorem direct_noNewLinks (fs : FS) (p : Path) (op : Op) (h : ∀ t, op ≠ .symlink t) :
    NoNewLinks fs (direct fs p op).1 := by
  unfold direct
  split
  · exact NoNewLinks.refl _
  · cases op <;> simp only <;> (repeat' split) <;> (try exact NoNewLinks.refl _) <;>
      (first
        | (exact absurd rfl (h _))
        | (intro q hq; rw [isLinkAt_set] at hq; by_cases hqp : q = p
           · simp [hqp, Node.isLink] at hq
           · simp only [hqp, if_false] at hq; exact hq)
        | (intro q hq; rw [isLinkAt_erase] at hq; by_cases hqp : q = p
           · simp [hqp] at hq
           · simp only [hqp, if_false] at hq; exact hq)
        | (intro q hq; rw [isLinkAt_eraseTree] at hq; by_cases hqp : p.isPrefixOf q
           · simp [hqp] at hq
           · simp only [hqp, if_false] at hq; exact hq))


theorem not_prefix_of_take (p : Path) (k : Nat) (hk : k < p.length) : p.isPrefixOf (p.take k) = false := by
  cases h : p.isPrefixOf (p.take k) with
  | false => rfl
  | true =>
    have := (List.isPrefixOf_iff_prefix.mp h).length_le
    simp only [List.length_take] at this
    omega

theorem clean_of_below {fs fs' : FS} {p : Path} (hc : Clean fs p) (hb : Below p fs fs') : Clean fs' p := by
  intro k h0 hk
  unfold isLinkAt
  rw [hb _ (not_prefix_of_take p k hk)]
  exact hc k h0 hk

/-- everything one system call on a clean path guarantees -/
theorem sys_step (follow : Follow) (fs : FS) (p : Path) (op : Op) (hc : Clean fs p) :
    Below p fs (sys follow fs p op).1 ∧ LinksOnlyAt p fs (sys follow fs p op).1 ∧
    Clean (sys follow fs p op).1 p ∧ ((∀ t, op ≠ .symlink t) → NoNewLinks fs (sys follow fs p op).1) := by
  rw [sys_eq_direct follow fs p op hc]
  exact ⟨direct_below fs p op, direct_links fs p op, clean_of_below hc (direct_below fs p op),
    direct_noNewLinks fs p op⟩

theorem direct_mkdir_ok (fs fs1 : FS) (p : Path) (h : direct fs p .mkdir = (fs1, .ok)) :
    isLinkAt fs1 p = false := by
  unfold direct at h
  split at h
  · simp at h
  · simp only at h
    split at h
    · simp only [Prod.mk.injEq, and_true] at h
      subst h
      rw [isLinkAt_set]; simp [Node.isLink]
    · simp at h

theorem direct_lstat_isDir (fs fs1 : FS) (p : Path) (h : direct fs p .lstat = (fs1, .isDir)) :
    isLinkAt fs1 p = false := by
  unfold direct at h
  split at h
  · simp at h
  · simp only at h
    split at h <;> simp only [Prod.mk.injEq, reduceCtorEq, and_false, and_true] at h
    subst h
    rename_i hd
    unfold isLinkAt; rw [hd]; rfl

theorem createDirectory_spec (c : Cfg) (fs : FS) (p : Path) (hc : Clean fs p) :
    Below p fs (createDirectory c fs p).1 ∧ NoNewLinks fs (createDirectory c fs p).1 ∧
    ((createDirectory c fs p).2 = none → isLinkAt (createDirectory c fs p).1 p = false) := by
  unfold createDirectory
  have s1 := sys_step c.follow fs p .mkdir hc
  have e1 := sys_eq_direct c.follow fs p .mkdir hc
  generalize sys c.follow fs p .mkdir = r1 at s1 e1
  obtain ⟨fs1, res1⟩ := r1
  obtain ⟨b1, -, c1, nf1⟩ := s1
  have n1 := nf1 (by intro t; simp)
  clear nf1
  simp only at b1 c1 n1
  cases res1 with
  | ok => exact ⟨b1, n1, fun _ => direct_mkdir_ok fs fs1 p e1.symm⟩
  | isDir => exact ⟨b1, n1, by simp⟩
  | isFile => exact ⟨b1, n1, by simp⟩
  | isLink => exact ⟨b1, n1, by simp⟩
  | err e =>
    cases e with
    | exist =>
      simp only
      have s2 := sys_step c.follow fs1 p .lstat c1
      have e2 := sys_eq_direct c.follow fs1 p .lstat c1
      generalize sys c.follow fs1 p .lstat = r2 at s2 e2
      obtain ⟨fs2, res2⟩ := r2
      obtain ⟨b2, -, c2, nf2⟩ := s2
      have n2 := nf2 (by intro t; simp)
      clear nf2
      simp only at b2 c2 n2
      have b12 := Below.trans b1 b2
      have n12 := NoNewLinks.trans n1 n2
      cases res2 with
      | isDir => exact ⟨b12, n12, fun _ => direct_lstat_isDir fs1 fs2 p e2.symm⟩
      | err e2' => exact ⟨b12, n12, by simp⟩
      | ok | isFile | isLink =>
        simp only
        split
        · have s3 := sys_step c.follow fs2 p .unlink c2
          generalize sys c.follow fs2 p .unlink = r3 at s3
          obtain ⟨fs3, res3⟩ := r3
          obtain ⟨b3, -, c3, nf3⟩ := s3
          have n3 := nf3 (by intro t; simp)
          clear nf3
          simp only at b3 c3 n3
          cases res3 with
          | ok =>
            simp only
            have s4 := sys_step c.follow fs3 p .mkdir c3
            have e4 := sys_eq_direct c.follow fs3 p .mkdir c3
            generalize sys c.follow fs3 p .mkdir = r4 at s4 e4
            obtain ⟨fs4, res4⟩ := r4
            obtain ⟨b4, -, -, nf4⟩ := s4
            have n4 := nf4 (by intro t; simp)
            clear nf4
            simp only at b4 n4
            have bb := Below.trans (Below.trans b12 b3) b4
            have nn := NoNewLinks.trans (NoNewLinks.trans n12 n3) n4
            cases res4 with
            | ok => exact ⟨bb, nn, fun _ => direct_mkdir_ok fs3 fs4 p e4.symm⟩
            | err e4' => exact ⟨bb, nn, by simp⟩
            | isDir | isFile | isLink => exact ⟨bb, nn, by simp⟩
          | err e3' => exact ⟨Below.trans b12 b3, NoNewLinks.trans n12 n3, by simp⟩
          | isDir | isFile | isLink => exact ⟨Below.trans b12 b3, NoNewLinks.trans n12 n3, by simp⟩
        · exact ⟨b12, n12, by simp⟩
    | isdir | loop | noent | notdir | other => exact ⟨b1, n1, by simp⟩



theorem removeThenRetry_spec (c : Cfg) (fs : FS) (p : Path) (rm op : Op) (hc : Clean fs p)
    (hrm : ∀ t, rm ≠ .symlink t) :
    Below p fs (removeThenRetry c fs p rm op).1 ∧ LinksOnlyAt p fs (removeThenRetry c fs p rm op).1 ∧
    ((∀ t, op ≠ .symlink t) → NoNewLinks fs (removeThenRetry c fs p rm op).1) := by
  unfold removeThenRetry
  have s3 := sys_step c.follow fs p rm hc
  generalize sys c.follow fs p rm = r3 at s3
  obtain ⟨fs3, res3⟩ := r3
  obtain ⟨b3, l3, c3, nf3⟩ := s3
  have n3 := nf3 hrm
  clear nf3
  simp only at b3 l3 c3 n3
  cases res3 with
  | ok =>
    simp only
    have s4 := sys_step c.follow fs3 p op c3
    generalize sys c.follow fs3 p op = r4 at s4
    obtain ⟨fs4, res4⟩ := r4
    obtain ⟨b4, l4, -, n4⟩ := s4
    simp only at b4 l4 n4
    have bb := Below.trans b3 b4
    have ll := LinksOnlyAt.trans l3 l4
    have nn : (∀ t, op ≠ .symlink t) → NoNewLinks fs fs4 := fun h => NoNewLinks.trans n3 (n4 h)
    cases res4 <;> exact ⟨bb, ll, nn⟩
  | err e3 => exact ⟨b3, l3, fun _ => n3⟩
  | isDir | isFile | isLink => exact ⟨b3, l3, fun _ => n3⟩

theorem tryOpOrUnlink_spec (c : Cfg) (fs : FS) (p : Path) (op : Op) (hc : Clean fs p) :
    Below p fs (tryOpOrUnlink c fs p op).1 ∧ LinksOnlyAt p fs (tryOpOrUnlink c fs p op).1 ∧
    ((∀ t, op ≠ .symlink t) → NoNewLinks fs (tryOpOrUnlink c fs p op).1) := by
  unfold tryOpOrUnlink
  have s1 := sys_step c.follow fs p op hc
  generalize sys c.follow fs p op = r1 at s1
  obtain ⟨fs1, res1⟩ := r1
  obtain ⟨b1, l1, c1, n1⟩ := s1
  simp only at b1 l1 c1 n1
  cases res1 with
  | ok => exact ⟨b1, l1, n1⟩
  | isDir => exact ⟨b1, l1, n1⟩
  | isFile => exact ⟨b1, l1, n1⟩
  | isLink => exact ⟨b1, l1, n1⟩
  | err e =>
    simp only
    split
    · have s2 := sys_step c.follow fs1 p .lstat c1
      generalize sys c.follow fs1 p .lstat = r2 at s2
      obtain ⟨fs2, res2⟩ := r2
      obtain ⟨b2, l2, c2, nf2⟩ := s2
      have n2 := nf2 (by intro t; simp)
      clear nf2
      simp only at b2 l2 c2 n2
      have b12 := Below.trans b1 b2
      have l12 := LinksOnlyAt.trans l1 l2
      have n12 : (∀ t, op ≠ .symlink t) → NoNewLinks fs fs2 := fun h => NoNewLinks.trans (n1 h) n2
      have fin : ∀ rm, (∀ t, rm ≠ Op.symlink t) →
          Below p fs (removeThenRetry c fs2 p rm op).1 ∧ LinksOnlyAt p fs (removeThenRetry c fs2 p rm op).1 ∧
          ((∀ t, op ≠ .symlink t) → NoNewLinks fs (removeThenRetry c fs2 p rm op).1) := by
        intro rm hrm
        obtain ⟨b, l, n⟩ := removeThenRetry_spec c fs2 p rm op c2 hrm
        exact ⟨Below.trans b12 b, LinksOnlyAt.trans l12 l, fun h => NoNewLinks.trans (n12 h) (n h)⟩
      cases res2 with
      | err e2 => exact ⟨b12, l12, n12⟩
      | isDir => exact fin _ (by intro t; simp)
      | ok => exact fin _ (by intro t; simp)
      | isFile => exact fin _ (by intro t; simp)
      | isLink => exact fin _ (by intro t; simp)
    · exact ⟨b1, l1, n1⟩



/-! ## the region a checkout may touch -/

def okName (c : Cfg) (n : Name) : Prop := c.valid n false = true ∨ c.valid n true = true

/-- strictly below `dest`, first component accepted by the validation -/
def Allowed (c : Cfg) (q : Path) : Prop := ∃ n rest, q = c.dest ++ n :: rest ∧ okName c n

def Same (c : Cfg) (fs fs' : FS) : Prop := ∀ q, ¬ Allowed c q → fs' q = fs q
theorem Same.refl (c : Cfg) (fs : FS) : Same c fs fs := fun _ _ => rfl
theorem Same.trans {c : Cfg} {a b d : FS} (h1 : Same c a b) (h2 : Same c b d) : Same c a d :=
  fun q hq => (h2 q hq).trans (h1 q hq)

def DestOk (c : Cfg) (fs : FS) : Prop := ∀ k, 0 < k → k ≤ c.dest.length → isLinkAt fs (c.dest.take k) = false

theorem not_prefix_shorter (p q : Path) (h : q.length < p.length) : p.isPrefixOf q = false := by
  cases hp : p.isPrefixOf q with
  | false => rfl
  | true =>
    have := (List.isPrefixOf_iff_prefix.mp hp).length_le
    omega

theorem below_same (c : Cfg) (fs fs' : FS) (n : Name) (rest : List Name) (hn : okName c n)
    (hb : Below (c.dest ++ n :: rest) fs fs') : Same c fs fs' := by
  intro q hq
  apply hb
  cases hp : (c.dest ++ n :: rest).isPrefixOf q with
  | false => rfl
  | true =>
    obtain ⟨r, hr⟩ := List.isPrefixOf_iff_prefix.mp hp
    exact absurd ⟨n, rest ++ r, by rw [← hr]; simp, hn⟩ hq

theorem destOk_of_same {c : Cfg} {fs fs' : FS} (hd : DestOk c fs) (hs : Same c fs fs') : DestOk c fs' := by
  intro k h0 hk
  unfold isLinkAt
  rw [hs]
  · exact hd k h0 hk
  · rintro ⟨n, rest, h, -⟩
    have := congrArg List.length h
    simp only [List.length_take, List.length_append, List.length_cons] at this
    omega

theorem clean_dest_append (c : Cfg) (fs : FS) (comps : List Name) (hd : DestOk c fs)
    (h : ∀ j, 0 < j → j < comps.length → isLinkAt fs (c.dest ++ comps.take j) = false) :
    Clean fs (c.dest ++ comps) := by
  intro k h0 hk
  rw [List.take_append]
  by_cases hle : k ≤ c.dest.length
  · have : k - c.dest.length = 0 := by omega
    rw [this]; simp only [List.take_zero, List.append_nil]
    exact hd k h0 hle
  · have hk2 : k - c.dest.length < comps.length := by simp only [List.length_append] at hk; omega
    rw [List.take_of_length_le (by omega)]
    exact h _ (by omega) hk2

theorem take_snoc_le (cur : List Name) (n : Name) (j : Nat) (h : j ≤ cur.length) :
    (cur ++ [n]).take j = cur.take j := by
  rw [List.take_append_of_le_length h]

/-- all components of the stack are known not to be symbolic links -/
def Full (c : Cfg) (cur : List Name) (fs : FS) : Prop :=
  ∀ j, 0 < j → j ≤ cur.length → isLinkAt fs (c.dest ++ cur.take j) = false

theorem full_of_below (c : Cfg) (cur : List Name) (n : Name) (fs fs' : FS) (hf : Full c cur fs)
    (hb : Below (c.dest ++ (cur ++ [n])) fs fs') : Full c cur fs' := by
  intro j h0 hj
  unfold isLinkAt
  rw [hb]
  · exact hf j h0 hj
  · apply not_prefix_shorter
    simp only [List.length_append, List.length_take, List.length_cons, List.length_nil]
    omega

theorem pushLoop_spec (c : Cfg) (kind : Kind) : ∀ (comps : List C42.Comp) (st : Stk) (fs : FS),
    DestOk c fs → (∀ n ∈ st.cur, okName c n) → Full c st.cur fs →
    Same c fs (pushLoop c kind comps st fs).2.1 ∧ NoNewLinks fs (pushLoop c kind comps st fs).2.1 ∧
    (∀ n ∈ (pushLoop c kind comps st fs).1.cur, okName c n) ∧
    (∀ j, 0 < j → j ≤ (pushLoop c kind comps st fs).1.cur.length →
      (j < (pushLoop c kind comps st fs).1.cur.length ∨ isDirMode kind = true ∨
        (pushLoop c kind comps st fs).2.2 ≠ none ∨ comps = []) →
      isLinkAt (pushLoop c kind comps st fs).2.1 (c.dest ++ (pushLoop c kind comps st fs).1.cur.take j) = false) ∧
    ((pushLoop c kind comps st fs).2.2 = none →
      (pushLoop c kind comps st fs).1.cur.length = st.cur.length + comps.length) ∧
    (pushLoop c kind comps st fs).1.isLeaf = st.isLeaf := by
  intro comps
  induction comps with
  | nil =>
    intro st fs _ hn hf
    simp only [pushLoop]
    exact ⟨Same.refl _ _, NoNewLinks.refl _, hn, fun j h0 hj _ => hf j h0 hj, fun _ => by simp, by first | rfl | trivial⟩
  | cons comp rest ih =>
    intro st fs hd hn hf
    cases comp with
    | normal n =>
      simp only [pushLoop]
      split
      · -- the component is refused
        exact ⟨Same.refl _ _, NoNewLinks.refl _, hn, fun j h0 hj _ => hf j h0 hj, by simp, by first | rfl | trivial⟩
      · rename_i hv
        have hv' : c.valid n (kind == Kind.link) = true := by simpa using hv
        have hok : okName c n := by
          cases hk : (kind == Kind.link) <;> rw [hk] at hv'
          · exact Or.inl hv'
          · exact Or.inr hv'
        have hn' : ∀ m ∈ st.cur ++ [n], okName c m := by
          intro m hm
          rcases List.mem_append.mp hm with h | h
          · exact hn m h
          · simp only [List.mem_singleton] at h; subst h; exact hok
        split
        · -- last component of a file or symlink: nothing is created
          rename_i hlast
          have hrest : rest = [] := by
            simp only [Bool.and_eq_true, List.isEmpty_iff] at hlast
            exact hlast.1
          subst hrest
          simp only [pushLoop]
          refine ⟨Same.refl _ _, NoNewLinks.refl _, hn', ?_, fun _ => by simp, by first | rfl | trivial⟩
          intro j h0 hj hcase
          simp only [List.length_append, List.length_cons, List.length_nil] at hj hcase
          have hdm : isDirMode kind = false := by
            simp only [Bool.and_eq_true, Bool.not_eq_true'] at hlast
            exact hlast.2
          have hj' : j ≤ st.cur.length := by
            rcases hcase with h | h | h | h
            · omega
            · rw [hdm] at h; simp at h
            · simp at h
            · simp at h
          rw [take_snoc_le _ _ _ hj']
          exact hf j h0 hj'
        · -- a directory is needed at dest ++ cur ++ [n]
          have hclean : Clean fs (c.dest ++ (st.cur ++ [n])) := by
            apply clean_dest_append c fs _ hd
            intro j h0 hj
            simp only [List.length_append, List.length_cons, List.length_nil] at hj
            rw [take_snoc_le _ _ _ (by omega)]
            exact hf j h0 (by omega)
          obtain ⟨cb, cn, cok⟩ := createDirectory_spec c fs (c.dest ++ (st.cur ++ [n])) hclean
          -- the first component below dest is accepted
          have hsame : Same c fs (createDirectory c fs (c.dest ++ (st.cur ++ [n]))).1 := by
            cases hcur : st.cur with
            | nil =>
              rw [hcur] at cb
              exact below_same c _ _ n [] hok (by simpa using cb)
            | cons a as =>
              rw [hcur] at cb
              exact below_same c _ _ a (as ++ [n]) (hn a (by rw [hcur]; simp)) (by simpa using cb)
          generalize hr : createDirectory c fs (c.dest ++ (st.cur ++ [n])) = r at cb cn cok hsame
          obtain ⟨fs1, res⟩ := r
          simp only at cb cn cok hsame
          cases res with
          | some e =>
            simp only
            refine ⟨hsame, cn, hn, ?_, by simp, by first | rfl | trivial⟩
            intro j h0 hj _
            exact full_of_below c st.cur n fs fs1 hf cb j h0 hj
          | none =>
            simp only
            have hf1 : Full c (st.cur ++ [n]) fs1 := by
              intro j h0 hj
              simp only [List.length_append, List.length_cons, List.length_nil] at hj
              by_cases hj' : j ≤ st.cur.length
              · rw [take_snoc_le _ _ _ hj']
                exact full_of_below c st.cur n fs fs1 hf cb j h0 hj'
              · have : j = (st.cur ++ [n]).length := by simp; omega
                rw [this, List.take_length]
                exact cok rfl
            obtain ⟨i1, i2, i3, i4, i5, i6⟩ := ih { st with cur := st.cur ++ [n], curIsDir := !rest.isEmpty } fs1
              (destOk_of_same hd hsame) hn' hf1
            refine ⟨Same.trans hsame i1, NoNewLinks.trans cn i2, i3, ?_, ?_, i6⟩
            · intro j h0 hj hcase
              apply i4 j h0 hj
              rcases hcase with h | h | h | h
              · exact Or.inl h
              · exact Or.inr (Or.inl h)
              · exact Or.inr (Or.inr (Or.inl h))
              · simp at h
            · intro hnone
              rw [i5 hnone]
              simp only [List.length_append, List.length_cons, List.length_nil]
              omega
    | parentDir | rootDir | curDir =>
      simp only [pushLoop]
      exact ⟨Same.refl _ _, NoNewLinks.refl _, hn, fun j h0 hj _ => hf j h0 hj, by simp, by first | rfl | trivial⟩



/-- What the checkout knows about the path stack of a worker: every component was accepted by the
validation, and every component that would be descended through without a further look (all of
them, except the last one when that was written as file or symlink) is not a symbolic link. -/
structure Inv (c : Cfg) (st : Stk) (fs : FS) : Prop where
  names : ∀ n ∈ st.cur, okName c n
  nolink : ∀ j, 0 < j → j ≤ st.cur.length → (j < st.cur.length ∨ st.isLeaf = false) →
    isLinkAt fs (c.dest ++ st.cur.take j) = false

theorem matching_le_left : ∀ (cur : List Name) (comps : List C42.Comp), matching cur comps ≤ cur.length
  | [], _ => by simp [matching]
  | _ :: _, [] => by simp [matching]
  | a :: as, .normal b :: bs => by
    simp only [matching]
    split
    · have := matching_le_left as bs; simp; omega
    · simp
  | _ :: _, .parentDir :: _ => by simp [matching]
  | _ :: _, .rootDir :: _ => by simp [matching]
  | _ :: _, .curDir :: _ => by simp [matching]

theorem matching_le_right : ∀ (cur : List Name) (comps : List C42.Comp), matching cur comps ≤ comps.length
  | [], _ => by simp [matching]
  | _ :: _, [] => by simp [matching]
  | a :: as, .normal b :: bs => by
    simp only [matching]
    split
    · have := matching_le_right as bs; simp; omega
    · simp
  | _ :: _, .parentDir :: _ => by simp [matching]
  | _ :: _, .rootDir :: _ => by simp [matching]
  | _ :: _, .curDir :: _ => by simp [matching]

theorem makeCurrent_spec (c : Cfg) (kind : Kind) (comps : List C42.Comp) (m : Nat) (st0 : Stk) (fs0 : FS)
    (hm : m ≤ st0.cur.length) (hd : DestOk c fs0) (hn : ∀ n ∈ st0.cur, okName c n)
    (hpart : ∀ j, 0 < j → j < m → isLinkAt fs0 (c.dest ++ st0.cur.take j) = false)
    (hfull : comps.drop m ≠ [] → 0 < m → isLinkAt fs0 (c.dest ++ st0.cur.take m) = false) :
    Same c fs0 (makeCurrent c kind comps m st0 fs0).2.1 ∧ NoNewLinks fs0 (makeCurrent c kind comps m st0 fs0).2.1 ∧
    (∀ n ∈ (makeCurrent c kind comps m st0 fs0).1.cur, okName c n) ∧
    (∀ j, 0 < j → j ≤ (makeCurrent c kind comps m st0 fs0).1.cur.length →
      (j < (makeCurrent c kind comps m st0 fs0).1.cur.length ∨
        (comps.drop m ≠ [] ∧ (isDirMode kind = true ∨ (makeCurrent c kind comps m st0 fs0).2.2 ≠ none))) →
      isLinkAt (makeCurrent c kind comps m st0 fs0).2.1
        (c.dest ++ (makeCurrent c kind comps m st0 fs0).1.cur.take j) = false) ∧
    ((makeCurrent c kind comps m st0 fs0).2.2 = none →
      (makeCurrent c kind comps m st0 fs0).1.cur.length = m + (comps.drop m).length) ∧
    (comps.drop m = [] → (makeCurrent c kind comps m st0 fs0) =
      (⟨st0.cur.take m, decide (m < st0.cur.length) || st0.curIsDir || false, st0.isLeaf⟩, fs0, none)) := by
  unfold makeCurrent
  simp only
  have hlen : (st0.cur.take m).length = m := by simp [List.length_take]; omega
  have hn1 : ∀ n ∈ st0.cur.take m, okName c n := fun n h => hn n (List.mem_of_mem_take h)
  have htake : ∀ j, j ≤ m → (st0.cur.take m).take j = st0.cur.take j := by
    intro j hj; rw [List.take_take]; congr 1; omega
  by_cases hrest : comps.drop m = []
  · -- nothing to push
    rw [hrest]
    simp only [pushLoop, List.isEmpty_nil, Bool.not_true]
    refine ⟨Same.refl _ _, NoNewLinks.refl _, hn1, ?_, fun _ => by simp [hlen], fun _ => by first | rfl | trivial⟩
    intro j h0 hj hcase
    simp only [hlen] at hj hcase
    rcases hcase with h | ⟨h, -⟩
    · rw [htake j (by omega)]; exact hpart j h0 h
    · exact absurd rfl h
  · have hfull' : Full c (st0.cur.take m) fs0 := by
      intro j h0 hj
      rw [hlen] at hj
      rw [htake j hj]
      by_cases hjm : j < m
      · exact hpart j h0 hjm
      · have : j = m := by omega
        subst this
        exact hfull hrest h0
    -- whatever `curIsDir` is, `pushLoop` only looks at `cur`
    have key : ∀ (st2 : Stk), st2.cur = st0.cur.take m → st2.isLeaf = st0.isLeaf →
        Same c fs0 (pushLoop c kind (comps.drop m) st2 fs0).2.1 ∧ NoNewLinks fs0 (pushLoop c kind (comps.drop m) st2 fs0).2.1 ∧
        (∀ n ∈ (pushLoop c kind (comps.drop m) st2 fs0).1.cur, okName c n) ∧
        (∀ j, 0 < j → j ≤ (pushLoop c kind (comps.drop m) st2 fs0).1.cur.length →
          (j < (pushLoop c kind (comps.drop m) st2 fs0).1.cur.length ∨
            (comps.drop m ≠ [] ∧ (isDirMode kind = true ∨ (pushLoop c kind (comps.drop m) st2 fs0).2.2 ≠ none))) →
          isLinkAt (pushLoop c kind (comps.drop m) st2 fs0).2.1
            (c.dest ++ (pushLoop c kind (comps.drop m) st2 fs0).1.cur.take j) = false) ∧
        ((pushLoop c kind (comps.drop m) st2 fs0).2.2 = none →
          (pushLoop c kind (comps.drop m) st2 fs0).1.cur.length = m + (comps.drop m).length) := by
      intro st2 hc2 _
      obtain ⟨p1, p2, p3, p4, p5, -⟩ := pushLoop_spec c kind (comps.drop m) st2 fs0 hd (by rw [hc2]; exact hn1)
        (by rw [hc2]; exact hfull')
      refine ⟨p1, p2, p3, ?_, ?_⟩
      · intro j h0 hj hcase
        apply p4 j h0 hj
        rcases hcase with h | ⟨-, h | h⟩
        · exact Or.inl h
        · exact Or.inr (Or.inl h)
        · exact Or.inr (Or.inr (Or.inl h))
      · intro h; rw [p5 h, hc2, hlen]
    obtain ⟨k1, k2, k3, k4, k5⟩ := key ⟨st0.cur.take m, decide (m < st0.cur.length) || st0.curIsDir || !(comps.drop m).isEmpty, st0.isLeaf⟩ rfl rfl
    exact ⟨k1, k2, k3, k4, k5, fun h => absurd h hrest⟩



theorem splitSlash_head (b : UInt8) (t : Bytes) (hb : (b == 47) = false) :
    ∃ s ss, C42.splitSlash (b :: t) = (b :: s) :: ss := by
  unfold C42.splitSlash
  rw [hb]
  simp only [Bool.false_eq_true, if_false]
  cases C42.splitSlash t with
  | nil => exact ⟨[], [], rfl⟩
  | cons s ss => exact ⟨s, ss, rfl⟩

theorem components_ne_nil (p : Bytes) (hp : p.isEmpty = false) : C42.components p ≠ [] := by
  cases p with
  | nil => simp at hp
  | cons b t =>
    unfold C42.components
    by_cases hb : (b == 47) = true
    · have : C42.splitSlash (b :: t) = [] :: C42.splitSlash t := by simp [C42.splitSlash, hb]
      rw [this]
      have hb' : b = 47 := by simpa using hb
      simp [hb']
    · have hb' : (b == 47) = false := by simpa using hb
      obtain ⟨s, ss, h⟩ := splitSlash_head b t hb'
      rw [h]
      have hne : ¬ (b = 47) := by simpa using hb'
      simp only [List.head?_cons, beq_iff_eq, Option.some.injEq, hne, if_false]
      split
      · simp
      · rename_i h46
        simp only [C42.segComp]
        have : ((b :: s) == []) = false := by rfl
        simp only [this, Bool.false_eq_true, if_false]
        split
        · rename_i h1; exact absurd (by simpa using h1) h46
        · split <;> simp

theorem atPath_spec (c : Cfg) (st : Stk) (fs : FS) (e : Entry) (hd : DestOk c fs) (hi : Inv c st fs) :
    Same c fs (atPath c st fs e).2.1 ∧ NoNewLinks fs (atPath c st fs e).2.1 ∧
    Inv c (atPath c st fs e).1 (atPath c st fs e).2.1 ∧
    ((atPath c st fs e).2.2 = none → (atPath c st fs e).1.cur ≠ [] ∧
      (isDirMode e.kind = false → (atPath c st fs e).1.isLeaf = true)) := by
  unfold atPath
  simp only
  have hm1 := matching_le_left st.cur (C42.components e.path)
  have hm2 := matching_le_right st.cur (C42.components e.path)
  generalize hcomps : C42.components e.path = comps at hm1 hm2
  generalize matching st.cur comps = m at hm1 hm2
  split
  · exact ⟨Same.refl _ _, NoNewLinks.refl _, hi, by simp⟩
  · rename_i hpe
    have hcne : comps ≠ [] := by
      rw [← hcomps]; exact components_ne_nil e.path (by simpa using hpe)
    split
    · exact ⟨Same.refl _ _, NoNewLinks.refl _, hi, by simp⟩
    · -- the facts about the optional directory creation at dest ++ cur
      have step1 : ∃ fs0 r0, (if needDir st comps m = true then createDirectory c fs (c.dest ++ st.cur) else (fs, none)) = (fs0, r0) ∧
          Same c fs fs0 ∧ NoNewLinks fs fs0 ∧
          (∀ j, 0 < j → j < st.cur.length → isLinkAt fs0 (c.dest ++ st.cur.take j) = false) ∧
          (needDir st comps m = false → fs0 = fs ∧ r0 = none) ∧
          (needDir st comps m = true → r0 = none → isLinkAt fs0 (c.dest ++ st.cur) = false) := by
        by_cases hnd : needDir st comps m = true
        · simp only [hnd, if_true]
          have hcur : st.cur ≠ [] := by
            intro h; simp [needDir, h] at hnd
          have hclean : Clean fs (c.dest ++ st.cur) :=
            clean_dest_append c fs st.cur hd (fun j h0 hj => hi.nolink j h0 (by omega) (Or.inl hj))
          obtain ⟨cb, cn, cok⟩ := createDirectory_spec c fs (c.dest ++ st.cur) hclean
          refine ⟨(createDirectory c fs (c.dest ++ st.cur)).1, (createDirectory c fs (c.dest ++ st.cur)).2, rfl, ?_, cn, ?_, by simp [hnd], fun _ h => cok h⟩
          · cases hc : st.cur with
            | nil => exact absurd hc hcur
            | cons a as =>
              rw [hc] at cb
              exact below_same c _ _ a as (hi.names a (by rw [hc]; simp)) cb
          · intro j h0 hj
            have hq := cb (c.dest ++ st.cur.take j) (by
              apply not_prefix_shorter
              simp only [List.length_append, List.length_take]; omega)
            have := hi.nolink j h0 (by omega) (Or.inl hj)
            unfold isLinkAt at this ⊢
            rw [hq]; exact this
        · have hnd' : needDir st comps m = false := by simpa using hnd
          simp only [hnd', Bool.false_eq_true, if_false]
          exact ⟨fs, none, rfl, Same.refl _ _, NoNewLinks.refl _,
            fun j h0 hj => hi.nolink j h0 (by omega) (Or.inl hj), fun _ => ⟨rfl, rfl⟩, by simp⟩
      obtain ⟨fs0, r0, hr0, s0, n0, part0, hno, hyes⟩ := step1
      rw [hr0]
      cases r0 with
      | some err =>
        simp only
        refine ⟨s0, n0, ⟨hi.names, ?_⟩, by simp⟩
        intro j h0 hj hcase
        have hnd : needDir st comps m = true := by
          cases h : needDir st comps m with
          | true => rfl
          | false => have := (hno h).2; simp at this
        have hleaf : st.isLeaf = true := by
          simp only [needDir, Bool.and_eq_true] at hnd; exact hnd.1.1.1
        rcases hcase with h | h
        · exact part0 j h0 h
        · rw [hleaf] at h; simp at h
      | none =>
        simp only
        -- the stack handed to make_relative_path_current
        have hst0cur : (if needDir st comps m = true then { st with isLeaf := false } else st).cur = st.cur := by
          split <;> rfl
        have hd0 : DestOk c fs0 := destOk_of_same hd s0
        have hfull0 : comps.drop m ≠ [] → 0 < m → isLinkAt fs0 (c.dest ++ st.cur.take m) = false := by
          intro hrest h0
          by_cases hml : m < st.cur.length
          · exact part0 m h0 hml
          · have hmeq : m = st.cur.length := by omega
            rw [hmeq, List.take_length]
            cases hnd : needDir st comps m with
            | true => exact hyes hnd rfl
            | false =>
              obtain ⟨hfs, -⟩ := hno hnd
              subst hfs
              have hleaf : st.isLeaf = false := by
                cases hl : st.isLeaf with
                | false => rfl
                | true =>
                  exfalso
                  have hlen : st.cur.length < comps.length := by
                    have : (comps.drop m).length ≠ 0 := by
                      intro h; exact hrest (List.length_eq_zero_iff.mp h)
                    simp only [List.length_drop] at this; omega
                  have hne : st.cur.isEmpty = false := by
                    cases hc : st.cur with
                    | nil => rw [hc] at hmeq; simp at hmeq; omega
                    | cons _ _ => rfl
                  simp [needDir, hl, hne, hmeq, hlen] at hnd
              have := hi.nolink st.cur.length (by omega) (Nat.le_refl _) (Or.inr hleaf)
              rw [List.take_length] at this
              exact this
        obtain ⟨k1, k2, k3, k4, k5, k6⟩ := makeCurrent_spec c e.kind comps m
          (if needDir st comps m = true then { st with isLeaf := false } else st) fs0
          (by rw [hst0cur]; exact hm1) hd0 (by rw [hst0cur]; exact hi.names)
          (by rw [hst0cur]; intro j h0 hj; exact part0 j h0 (by omega))
          (by rw [hst0cur]; exact hfull0)
        generalize hmc : makeCurrent c e.kind comps m
          (if needDir st comps m = true then { st with isLeaf := false } else st) fs0 = r at k1 k2 k3 k4 k5 k6
        obtain ⟨st3, fs3, res3⟩ := r
        simp only at k1 k2 k3 k4 k5 k6
        cases res3 with
        | some err =>
          simp only
          refine ⟨Same.trans s0 k1, NoNewLinks.trans n0 k2, ⟨k3, ?_⟩, by simp⟩
          intro j h0 hj _
          apply k4 j h0 hj
          by_cases hjl : j < st3.cur.length
          · exact Or.inl hjl
          · right
            refine ⟨?_, Or.inr (by simp)⟩
            intro hrest
            have := k6 hrest
            simp at this
        | none =>
          simp only
          have hlen3 : st3.cur.length = comps.length := by
            rw [k5 rfl, List.length_drop]; omega
          refine ⟨Same.trans s0 k1, NoNewLinks.trans n0 k2, ⟨k3, ?_⟩, ?_⟩
          · intro j h0 hj hcase
            simp only at hj hcase
            by_cases hjl : j < st3.cur.length
            · exact k4 j h0 hj (Or.inl hjl)
            · have hjeq : j = st3.cur.length := by omega
              rcases hcase with h | h
              · exact absurd h hjl
              · -- the new flag is `false`: a directory-like entry that is not the path already set as leaf
                simp only [Bool.or_eq_false_iff, Bool.not_eq_false'] at h
                obtain ⟨hdm, hsame⟩ := h
                by_cases hrest : comps.drop m = []
                · have hk := k6 hrest
                  simp only [Prod.mk.injEq] at hk
                  obtain ⟨hst3, hfs3, -⟩ := hk
                  subst hfs3
                  have hcur3 : st3.cur = st.cur.take m := by rw [hst3, hst0cur]
                  have hmc2 : m = comps.length := by
                    have : (comps.drop m).length = 0 := by rw [hrest]; rfl
                    simp only [List.length_drop] at this; omega
                  rw [hjeq, hcur3, List.take_length]
                  by_cases hml : m < st.cur.length
                  · exact part0 m (by rw [hmc2]; exact List.length_pos_iff.mpr hcne) hml
                  · have hmeq : m = st.cur.length := by omega
                    have hleaf : st.isLeaf = false := by
                      cases hl : st.isLeaf with
                      | false => rfl
                      | true => simp [hmc2.symm, hmeq.symm, hl] at hsame
                    have hnd : needDir st comps m = false := by simp [needDir, hleaf]
                    obtain ⟨hfs, -⟩ := hno hnd
                    subst hfs
                    have := hi.nolink st.cur.length (by rw [← hmeq, hmc2]; exact List.length_pos_iff.mpr hcne)
                      (Nat.le_refl _) (Or.inr hleaf)
                    rw [hmeq]
                    simpa using this
                · exact k4 j h0 hj (Or.inr ⟨hrest, Or.inl hdm⟩)
          · intro _
            refine ⟨?_, fun hdm => by simp [hdm]⟩
            intro hnil
            have : st3.cur.length = 0 := by rw [hnil]; rfl
            rw [hlen3] at this
            exact hcne (List.length_eq_zero_iff.mp this)



theorem checkoutEntry_spec (c : Cfg) (st : Stk) (fs : FS) (e : Entry) (hd : DestOk c fs) (hi : Inv c st fs) :
    Same c fs (checkoutEntry c st fs e).2.1 ∧ Inv c (checkoutEntry c st fs e).1 (checkoutEntry c st fs e).2.1 ∧
    (e.kind ≠ .link → NoNewLinks fs (checkoutEntry c st fs e).2.1) := by
  unfold checkoutEntry
  obtain ⟨a1, a2, a3, a4⟩ := atPath_spec c st fs e hd hi
  generalize atPath c st fs e = r at a1 a2 a3 a4
  obtain ⟨st1, fs1, res⟩ := r
  simp only at a1 a2 a3 a4
  cases res with
  | some err => exact ⟨a1, a3, fun _ => a2⟩
  | none =>
    simp only
    obtain ⟨hne, hleaf⟩ := a4 rfl
    have hd1 := destOk_of_same hd a1
    have hclean : Clean fs1 (c.dest ++ st1.cur) :=
      clean_dest_append c fs1 st1.cur hd1 (fun j h0 hj => a3.nolink j h0 (by omega) (Or.inl hj))
    -- any operation at dest ++ cur of an entry that is no directory keeps everything
    have leafOp : ∀ (op : Op), isDirMode e.kind = false →
        Same c fs (tryOpOrUnlink c fs1 (c.dest ++ st1.cur) op).1 ∧
        Inv c st1 (tryOpOrUnlink c fs1 (c.dest ++ st1.cur) op).1 ∧
        ((∀ t, op ≠ .symlink t) → NoNewLinks fs (tryOpOrUnlink c fs1 (c.dest ++ st1.cur) op).1) := by
      intro op hdm
      obtain ⟨tb, -, tn⟩ := tryOpOrUnlink_spec c fs1 (c.dest ++ st1.cur) op hclean
      have hs : Same c fs1 (tryOpOrUnlink c fs1 (c.dest ++ st1.cur) op).1 := by
        cases hc : st1.cur with
        | nil => exact absurd hc hne
        | cons a as =>
          rw [hc] at tb
          exact below_same c _ _ a as (a3.names a (by rw [hc]; simp)) tb
      refine ⟨Same.trans a1 hs, ⟨a3.names, ?_⟩, fun h => NoNewLinks.trans a2 (tn h)⟩
      intro j h0 hj hcase
      have hjl : j < st1.cur.length := by
        rcases hcase with h | h
        · exact h
        · rw [hleaf hdm] at h; simp at h
      have hq := tb (c.dest ++ st1.cur.take j) (by
        apply not_prefix_shorter
        simp only [List.length_append, List.length_take]; omega)
      have := a3.nolink j h0 hj (Or.inl hjl)
      unfold isLinkAt at this ⊢
      rw [hq]; exact this
    cases hk : e.kind with
    | file =>
      obtain ⟨l1, l2, l3⟩ := leafOp (.openW (c.opts.empty && !c.opts.overwrite) e.data false false) (by rw [hk]; rfl)
      exact ⟨l1, l2, fun _ => l3 (by intro t; simp)⟩
    | exec =>
      obtain ⟨l1, l2, l3⟩ := leafOp (.openW (c.opts.empty && !c.opts.overwrite) e.data true (!c.opts.empty)) (by rw [hk]; rfl)
      exact ⟨l1, l2, fun _ => l3 (by intro t; simp)⟩
    | link =>
      obtain ⟨l1, l2, -⟩ := leafOp (.symlink e.data) (by rw [hk]; rfl)
      exact ⟨l1, l2, fun h => absurd rfl h⟩
    | gitlink => exact ⟨a1, a3, fun _ => a2⟩

/-- the invariant of the whole run: the destination's own path is free of symbolic links, and
`Inv` holds for the stack of every worker -/
def WInv (c : Cfg) (w : World) : Prop := DestOk c w.fs ∧ ∀ t, Inv c (w.stacks t) w.fs

theorem inv_new (c : Cfg) (fs : FS) : Inv c Stk.new fs :=
  ⟨by intro n h; simp [Stk.new] at h, by intro j h0 hj; simp [Stk.new] at hj; omega⟩

theorem inv_of_noNewLinks {c : Cfg} {st : Stk} {fs fs' : FS} (hi : Inv c st fs) (hn : NoNewLinks fs fs') :
    Inv c st fs' := by
  refine ⟨hi.names, ?_⟩
  intro j h0 hj hcase
  cases h : isLinkAt fs' (c.dest ++ st.cur.take j) with
  | false => rfl
  | true => have := hn _ h; rw [hi.nolink j h0 hj hcase] at this; simp at this

theorem stepEntry_phase1 (c : Cfg) (w : World) (t : Nat) (e : Entry) (hk : e.kind ≠ .link) (hw : WInv c w) :
    WInv c (stepEntry c w t e) ∧ Same c w.fs (stepEntry c w t e).fs := by
  obtain ⟨s1, s2, s3⟩ := checkoutEntry_spec c (w.stacks t) w.fs e hw.1 (hw.2 t)
  refine ⟨⟨destOk_of_same hw.1 s1, ?_⟩, s1⟩
  intro u
  simp only [stepEntry]
  by_cases hu : u = t
  · simp only [hu, if_true]; exact s2
  · simp only [hu, if_false]; exact inv_of_noNewLinks (hw.2 u) (s3 hk)

theorem phase1_spec (c : Cfg) : ∀ (sched : List (Nat × Entry)) (w : World), WInv c w →
    WInv c (phase1 c w sched) ∧ Same c w.fs (phase1 c w sched).fs
  | [], w, hw => ⟨hw, Same.refl _ _⟩
  | (t, e) :: rest, w, hw => by
    simp only [phase1]
    split
    · exact phase1_spec c rest w hw
    · rename_i hk
      obtain ⟨h1, h2⟩ := stepEntry_phase1 c w t e hk hw
      obtain ⟨h3, h4⟩ := phase1_spec c rest _ h1
      exact ⟨h3, Same.trans h2 h4⟩

theorem stepEntry_phase2 (c : Cfg) (w : World) (t : Nat) (e : Entry)
    (hw : DestOk c w.fs ∧ Inv c (w.stacks t) w.fs) :
    (DestOk c (stepEntry c w t e).fs ∧ Inv c ((stepEntry c w t e).stacks t) (stepEntry c w t e).fs) ∧
    Same c w.fs (stepEntry c w t e).fs := by
  obtain ⟨s1, s2, -⟩ := checkoutEntry_spec c (w.stacks t) w.fs e hw.1 hw.2
  refine ⟨⟨destOk_of_same hw.1 s1, ?_⟩, s1⟩
  simp only [stepEntry, if_true]
  exact s2

theorem phase2_spec (c : Cfg) (t : Nat) : ∀ (entries : List Entry) (w : World),
    (DestOk c w.fs ∧ Inv c (w.stacks t) w.fs) →
    (DestOk c (phase2 c t w entries).fs ∧ Inv c ((phase2 c t w entries).stacks t) (phase2 c t w entries).fs) ∧
    Same c w.fs (phase2 c t w entries).fs
  | [], w, hw => ⟨hw, Same.refl _ _⟩
  | e :: rest, w, hw => by
    simp only [phase2]
    split
    · obtain ⟨h1, h2⟩ := stepEntry_phase2 c w t e hw
      obtain ⟨h3, h4⟩ := phase2_spec c t rest _ h1
      exact ⟨h3, Same.trans h2 h4⟩
    · exact phase2_spec c t rest w hw

theorem checkout_spec (c : Cfg) (fs : FS) (sched : List (Nat × Entry)) (entries : List Entry) (t2 : Nat)
    (hd : DestOk c fs) :
    Same c fs (checkout c fs sched entries t2).fs ∧ DestOk c (checkout c fs sched entries t2).fs ∧
    Inv c ((checkout c fs sched entries t2).stacks t2) (checkout c fs sched entries t2).fs := by
  unfold checkout
  have h0 : WInv c (World.init fs) := ⟨hd, fun _ => inv_new c fs⟩
  obtain ⟨h1, h2⟩ := phase1_spec c sched (World.init fs) h0
  obtain ⟨h3, h4⟩ := phase2_spec c t2 entries _ ⟨h1.1, h1.2 t2⟩
  exact ⟨Same.trans h2 h4, h3.1, h3.2⟩



end GixModel.C41
