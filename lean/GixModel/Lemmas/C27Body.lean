import GixModel.Spec.C27Body
import GixModel.Lemmas.C26
/-
Helper lemmas about well-formed section bodies: the backwards index scan of
`key_and_value_range_by` finds the last item with the key and the exact indices of its value
events (`rangeScan_items`); every body the parser produces is well formed (`fileFromBytes_wf`).
-/
namespace GixModel.C27
open GixModel GixModel.C26

/-- `rangeScan` over a reversed list whose head has index `n - 1` -/
def scanR (key : Bytes) : List Event → Nat → Nat → Nat → Option (Nat × Nat × Nat)
  | [], _, _, _ => none
  | e :: rest, n, s, t =>
    match e with
    | .name k => if eqIgnoreCase k key then some (n - 1, s, t) else scanR key rest (n - 1) 0 0
    | .value _ => scanR key rest (n - 1) (n - 1) (n - 1)
    | .notDone _ => if t == 0 then scanR key rest (n - 1) s (n - 1) else scanR key rest (n - 1) (n - 1) t
    | .done _ => if t == 0 then scanR key rest (n - 1) s (n - 1) else scanR key rest (n - 1) (n - 1) t
    | _ => scanR key rest (n - 1) s t

theorem indexed_snoc (l : List Event) (e : Event) : indexed (l ++ [e]) = indexed l ++ [(l.length, e)] := by
  unfold indexed
  simp only [List.length_append, List.length_cons, List.length_nil, Nat.zero_add, List.range_succ]
  rw [List.zip_append (by simp)]
  simp

theorem rangeScan_rev (key : Bytes) : ∀ (r : List Event) (s t : Nat),
    rangeScan key (indexed r.reverse).reverse s t = scanR key r r.length s t := by
  intro r
  induction r with
  | nil => intro s t; simp [indexed, rangeScan, scanR]
  | cons e r ih =>
    intro s t
    rw [List.reverse_cons, indexed_snoc, List.reverse_append]
    simp only [List.reverse_cons, List.reverse_nil, List.nil_append, List.singleton_append,
      List.length_reverse, List.length_cons, Nat.add_sub_cancel]
    cases e <;> simp only [rangeScan, scanR, ih, Nat.add_sub_cancel]

theorem rangeScan_eq_scanR (key : Bytes) (l : List Event) (s t : Nat) :
    rangeScan key (indexed l).reverse s t = scanR key l.reverse l.length s t := by
  have := rangeScan_rev key l.reverse s t
  simpa using this


theorem scanR_cont (key : Bytes) : ∀ (r rest : List Event) (n : Nat), contOk r = true → r.length + 2 ≤ n →
    ∃ s', scanR key (r.reverse ++ rest) n 0 0 = scanR key rest (n - r.length) s' (n - 1) := by
  intro r
  fun_induction contOk r
  · intro rest n _ hn
    refine ⟨0, ?_⟩
    simp [scanR]
  · rename_i c r' ih
    intro rest n hc hn
    simp only [List.length_cons] at hn
    obtain ⟨s', hs⟩ := ih (.notDone c :: rest) n hc (by omega)
    refine ⟨n - r'.length - 1, ?_⟩
    rw [List.reverse_cons, List.append_assoc, List.singleton_append, hs]
    have : (n - 1 == 0) = false := by simp; omega
    simp only [scanR, this, Bool.false_eq_true, ↓reduceIte, List.length_cons]
    congr 1 <;> omega
  · rename_i c r' ih
    intro rest n hc hn
    simp only [List.length_cons] at hn
    obtain ⟨s', hs⟩ := ih (.newline c :: rest) n hc (by omega)
    refine ⟨s', ?_⟩
    rw [List.reverse_cons, List.append_assoc, List.singleton_append, hs]
    have : n - r'.length - 1 = n - (r'.length + 1) := by omega
    simp only [scanR, List.length_cons, this]
  · intro rest n hc; simp at hc

theorem scanR_vals (key : Bytes) (vals rest : List Event) (n : Nat) (hv : valsOk vals = true)
    (hn : vals.length + 1 ≤ n) :
    scanR key (vals.reverse ++ rest) n 0 0 = scanR key rest (n - vals.length) (n - vals.length) (n - 1) := by
  unfold valsOk at hv
  split at hv
  · simp [scanR]
  · rename_i a r
    simp only [List.length_cons] at hn
    obtain ⟨s', hs⟩ := scanR_cont key r (.notDone a :: rest) n hv (by omega)
    rw [List.reverse_cons, List.append_assoc, List.singleton_append, hs]
    have : (n - 1 == 0) = false := by simp; omega
    simp only [scanR, this, Bool.false_eq_true, ↓reduceIte, List.length_cons]
    congr 1 <;> omega
  · simp at hv

theorem scanR_mid (key : Bytes) : ∀ (m rest : List Event) (n s t : Nat), m.all isMid = true →
    scanR key (m ++ rest) n s t = scanR key rest (n - m.length) s t := by
  intro m
  induction m with
  | nil => intro rest n s t _; simp
  | cons e m ih =>
    intro rest n s t h
    simp only [List.all_cons, Bool.and_eq_true] at h
    have := ih rest (n - 1) s t h.2
    cases e <;> simp [isMid, evIsWs] at h <;> simp only [List.cons_append, scanR, this, List.length_cons] <;> congr 1 <;> omega

theorem scanR_misc (key : Bytes) (e : Event) (rest : List Event) (n s t : Nat)
    (h : (evIsWs e || evIsNewline e || isComment e) = true) :
    scanR key (e :: rest) n s t = scanR key rest (n - 1) s t := by
  cases e <;> simp [evIsWs, evIsNewline, isComment] at h <;> simp [scanR]

def revEvents (ris : List Item) : List Event := ris.flatMap fun i => i.events.reverse

theorem revEvents_cons_length (it : Item) (ris : List Item) :
    (revEvents (it :: ris)).length = it.events.length + (revEvents ris).length := by
  simp [revEvents]

theorem scanR_items (key : Bytes) : ∀ (ris : List Item) (n : Nat), (∀ i ∈ ris, i.ok = true) →
    n = (revEvents ris).length → scanR key (revEvents ris) n 0 0 = findKv key ris n := by
  intro ris
  induction ris with
  | nil => intro n _ _; simp [revEvents, scanR, findKv]
  | cons it ris ih =>
    intro n hok hn
    have hrest : ∀ i ∈ ris, i.ok = true := fun i hi => hok i (by simp [hi])
    have hit := hok it (by simp)
    rw [revEvents_cons_length] at hn
    have hcons : revEvents (it :: ris) = it.events.reverse ++ revEvents ris := by simp [revEvents]
    rw [hcons]
    cases it with
    | misc e =>
      simp only [Item.events, List.length_cons, List.length_nil] at hn
      simp only [Item.events, List.reverse_cons, List.reverse_nil, List.nil_append, List.singleton_append]
      simp only [Item.ok] at hit
      rw [scanR_misc key e _ n 0 0 hit]
      simp only [findKv]
      exact ih (n - 1) hrest (by omega)
    | kv k mid vals =>
      simp only [Item.ok, Bool.and_eq_true] at hit
      have hev : (Item.kv k mid vals).events.reverse = vals.reverse ++ (mid.reverse ++ [.name k]) := by
        simp [Item.events]
      have hl : (Item.kv k mid vals).events.length = 1 + mid.length + vals.length := by
        simp [Item.events]; omega
      rw [hl] at hn
      rw [hev, List.append_assoc, scanR_vals key vals _ n hit.1.2 (by omega)]
      rw [List.append_assoc, scanR_mid key mid.reverse _ _ _ _ (by simpa using hit.1.1)]
      simp only [List.singleton_append, scanR, findKv, List.length_reverse]
      have e1 : n - vals.length - mid.length - 1 = n - (1 + mid.length + vals.length) := by omega
      rw [e1]
      split
      · rfl
      · exact ih _ hrest (by omega)

theorem flatten_reverse (is : List Item) : (flatten is).reverse = revEvents is.reverse := by
  induction is with
  | nil => rfl
  | cons i is ih => simp [flatten, revEvents] at ih ⊢; rw [ih]

/-- For a well-formed body, `key_and_value_range_by`'s backwards scan finds the LAST item with the
key and returns exactly the indices of its name and of its first / last value event. -/
theorem rangeScan_items (key : Bytes) (is : List Item) (hok : ∀ i ∈ is, i.ok = true) :
    rangeScan key (indexed (flatten is)).reverse 0 0 = findKv key is.reverse (flatten is).length := by
  rw [rangeScan_eq_scanR, flatten_reverse]
  apply scanR_items key is.reverse _ (fun i hi => hok i (by simpa using hi))
  rw [← flatten_reverse]; simp

theorem WFb_nil : WFb [] := ⟨[], by simp, rfl⟩

theorem WFb_append {a b : List Event} (ha : WFb a) (hb : WFb b) : WFb (a ++ b) := by
  obtain ⟨ia, oa, fa⟩ := ha
  obtain ⟨ib, ob, fb⟩ := hb
  refine ⟨ia ++ ib, ?_, by simp [flatten, ← fa, ← fb]⟩
  intro i hi
  rcases List.mem_append.mp hi with h | h
  · exact oa i h
  · exact ob i h

theorem WFb_misc (e : Event) (h : (evIsWs e || evIsNewline e || isComment e) = true) : WFb [e] :=
  ⟨[.misc e], by simpa [Item.ok] using h, by simp [flatten, Item.events]⟩

theorem contOk_snoc_pair (tail : List Event) (a n : Bytes) (h : contOk tail = true) :
    contOk (.notDone a :: .newline n :: tail) = true := by simp [contOk, h]

/-- the events `value_impl` adds: a single `value`, or `notDone newline … done` -/
theorem valueScan_shape : ∀ (i acc : Bytes) (inQ part : Bool) (em out : List Event) (r : Bytes),
    valueScan i acc inQ part em = some (out, r) →
      ∃ tail, out = em ++ tail ∧ (part = true → contOk tail = true) ∧ (part = false → valsOk tail = true) := by
  intro i acc inQ part em
  have fin : ∀ (acc rest : Bytes) (inQ part eof : Bool) (em out : List Event) (r : Bytes),
      valueFinish acc rest inQ part eof em = some (out, r) →
      ∃ tail, out = em ++ tail ∧ (part = true → contOk tail = true) ∧ (part = false → valsOk tail = true) := by
    intro acc rest inQ part eof em out r h
    unfold valueFinish at h
    split at h
    · simp at h
    · split at h
      · simp only [Option.some.injEq, Prod.mk.injEq] at h
        obtain ⟨rfl, _⟩ := h
        cases part <;> exact ⟨_, rfl, by simp [contOk], by simp [valsOk]⟩
      · simp only [Option.some.injEq, Prod.mk.injEq] at h
        obtain ⟨rfl, _⟩ := h
        cases part <;> exact ⟨_, rfl, by simp [contOk], by simp [valsOk]⟩
  fun_induction valueScan i acc inQ part em <;> intro out r h
  all_goals first
    | exact fin _ _ _ _ _ _ _ _ h
    | (simp at h; done)
    | skip
  all_goals
    rename_i ih
    obtain ⟨tail, ht, h1, h2⟩ := ih out r h
    first
      | exact ⟨tail, ht, h1, h2⟩
      | (rename_i accv _ _ _ _
         exact ⟨_, by rw [ht, List.append_assoc], fun _ => by simp [contOk, h1 rfl], fun _ => by simp [valsOk, contOk, h1 rfl]⟩)


theorem optSpaces_mid (i : Bytes) : (optSpaces i).1.all isMid = true := by
  unfold optSpaces; split <;> simp [isMid, evIsWs]

theorem configValue_shape {i r : Bytes} {out : List Event} (h : configValue i = some (out, r)) :
    ∃ mid vals, out = mid ++ vals ∧ mid.all isMid = true ∧ valsOk vals = true ∧
      (mid.any (· == Event.sep) || vals.length == 1) = true := by
  unfold configValue at h
  split at h
  · rename_i r0
    obtain ⟨tail, ht, _, h2⟩ := valueScan_shape _ _ _ _ _ _ _ h
    refine ⟨.sep :: (optSpaces r0).1, tail, ht, ?_, h2 rfl, by simp⟩
    simp [isMid, optSpaces_mid]
  · simp only [Option.some.injEq, Prod.mk.injEq] at h
    obtain ⟨rfl, _⟩ := h
    exact ⟨[], [.value []], rfl, rfl, rfl, rfl⟩

theorem keyValuePair_wf {i r : Bytes} {out : List Event} (h : keyValuePair i = some (out, r)) : WFb out := by
  unfold keyValuePair at h
  split at h
  · simp only [Option.some.injEq, Prod.mk.injEq] at h
    obtain ⟨rfl, _⟩ := h
    exact WFb_nil
  · rename_i n r0 _
    simp only at h
    split at h
    · simp at h
    · rename_i evs r2 hv
      simp only [Option.some.injEq, Prod.mk.injEq] at h
      obtain ⟨rfl, _⟩ := h
      obtain ⟨mid, vals, rfl, hm, hvals, hsep⟩ := configValue_shape hv
      refine ⟨[.kv n ((optSpaces r0).1 ++ mid) vals], ?_, ?_⟩
      · intro it hit
        simp at hit; subst hit
        simp only [Item.ok, List.all_append, optSpaces_mid, hm, hvals, Bool.and_self, List.any_append, Bool.true_and]
        simp only [Bool.or_eq_true] at hsep ⊢
        rcases hsep with h1 | h1
        · exact Or.inl (Or.inr h1)
        · exact Or.inr h1
      · simp [flatten, Item.events]

theorem optSpaces_wf (i : Bytes) : WFb (optSpaces i).1 := by
  unfold optSpaces; split
  · exact WFb_misc _ (by simp [evIsWs])
  · exact WFb_nil

theorem optNewlines_wf (i : Bytes) : WFb (optNewlines i).1 := by
  unfold optNewlines; split
  · exact WFb_misc _ (by simp [evIsNewline])
  · exact WFb_nil

theorem optComment_wf (i : Bytes) : WFb (optComment i).1 := by
  unfold optComment
  split
  · rename_i c r hc
    unfold comment at hc
    split at hc
    · split at hc
      · simp at hc; obtain ⟨rfl, _⟩ := hc; exact WFb_misc _ (by simp [isComment])
      · simp at hc
    · simp at hc
  · exact WFb_nil

theorem bodyIter_wf {i r : Bytes} {out : List Event} (h : bodyIter i = some (out, r)) : WFb out := by
  unfold bodyIter at h
  simp only at h
  split at h
  · simp at h
  · rename_i kv r0 hkv
    simp only [Option.some.injEq, Prod.mk.injEq] at h
    obtain ⟨rfl, _⟩ := h
    exact WFb_append (WFb_append (WFb_append (optSpaces_wf _) (optNewlines_wf _)) (keyValuePair_wf hkv)) (optComment_wf _)

/-- every section body the parser produces is well formed -/
theorem bodyLoop_wf : ∀ (f : Nat) (i r : Bytes) (out : List Event), bodyLoop f i = some (out, r) → WFb out := by
  intro f
  induction f with
  | zero => intro i r out h; simp [bodyLoop] at h; obtain ⟨rfl, _⟩ := h; exact WFb_nil
  | succ f ih =>
    intro i r out h
    simp only [bodyLoop] at h
    split at h
    · simp at h
    · rename_i evs r0 hi
      split at h
      · simp only [Option.some.injEq, Prod.mk.injEq] at h
        obtain ⟨rfl, _⟩ := h
        exact bodyIter_wf hi
      · split at h
        · simp at h
        · rename_i more r' hl
          simp only [Option.some.injEq, Prod.mk.injEq] at h
          obtain ⟨rfl, _⟩ := h
          exact WFb_append (bodyIter_wf hi) (ih _ _ _ hl)


def isHeader : Event → Bool
  | .header _ => true
  | _ => false

theorem WFb_headerFree {evs : List Event} (h : WFb evs) : ∀ e ∈ evs, isHeader e = false := by
  obtain ⟨is, hok, rfl⟩ := h
  intro e he
  simp only [flatten, List.mem_flatMap] at he
  obtain ⟨it, hit, hmem⟩ := he
  have ho := hok it hit
  cases it with
  | misc x =>
    simp [Item.events] at hmem; subst hmem
    cases e <;> simp [Item.ok, evIsWs, evIsNewline, isComment] at ho <;> rfl
  | kv k mid vals =>
    simp only [Item.ok, Bool.and_eq_true] at ho
    simp only [Item.events, List.mem_cons, List.mem_append] at hmem
    rcases hmem with rfl | hm | hv
    · rfl
    · have := List.all_eq_true.mp ho.1.1 e hm
      cases e <;> simp [isMid, evIsWs] at this <;> rfl
    · -- value events
      have : ∀ (l : List Event), (valsOk l = true ∨ contOk l = true) → ∀ x ∈ l, isHeader x = false := by
        intro l
        induction l with
        | nil => intro _ x hx; simp at hx
        | cons y t ih =>
          intro hl x hx
          have hy : isHeader y = false ∧ (t = [] ∨ contOk t = true) := by
            rcases hl with hl | hl
            · unfold valsOk at hl
              split at hl
              · rename_i heq; simp at heq; obtain ⟨rfl, rfl⟩ := heq; exact ⟨rfl, Or.inl rfl⟩
              · rename_i heq; simp at heq; obtain ⟨rfl, rfl⟩ := heq; exact ⟨rfl, Or.inr hl⟩
              · simp at hl
            · unfold contOk at hl
              split at hl
              · rename_i heq; simp at heq; obtain ⟨rfl, rfl⟩ := heq; exact ⟨rfl, Or.inl rfl⟩
              · rename_i heq; simp at heq; obtain ⟨rfl, rfl⟩ := heq; exact ⟨rfl, Or.inr hl⟩
              · rename_i heq; simp at heq; obtain ⟨rfl, rfl⟩ := heq; exact ⟨rfl, Or.inr hl⟩
              · simp at hl
          simp at hx
          rcases hx with rfl | hx
          · exact hy.1
          · rcases hy.2 with h0 | hc
            · subst h0; simp at hx
            · exact ih (Or.inr hc) x hx
      exact this vals (Or.inl ho.1.2) e hv

theorem toReal_id_of_headerFree (evs : List Event) (h : ∀ e ∈ evs, isHeader e = false) :
    evs.map Event.toReal = evs := by
  induction evs with
  | nil => rfl
  | cons e t ih =>
    have he := h e (by simp)
    have := ih (fun x hx => h x (by simp [hx]))
    cases e <;> simp [isHeader] at he <;> simp [Event.toReal, this]

theorem groupSections_append (a b : List Event) (h : ∀ e ∈ a, isHeader e = false) :
    groupSections (a ++ b) = (a ++ (groupSections b).1, (groupSections b).2) := by
  induction a with
  | nil => simp
  | cons e t ih =>
    have he := h e (by simp)
    have := ih (fun x hx => h x (by simp [hx]))
    cases e <;> simp [isHeader] at he <;> simp [groupSections, this]

/-- a sequence of sections: header, well-formed body, … -/
inductive Sects : List Event → Prop
  | nil : Sects []
  | cons (h : Header) (body rest : List Event) (hb : WFb body) (hr : Sects rest) :
      Sects (.header h :: (body ++ rest))

theorem Sects_group : ∀ {evs : List Event}, Sects evs →
    (groupSections (evs.map Event.toReal)).1 = [] ∧
      ∀ s ∈ (groupSections (evs.map Event.toReal)).2, WFb s.body := by
  intro evs h
  induction h with
  | nil => simp [groupSections]
  | cons hd body rest hb hr ih =>
    have hfree := WFb_headerFree hb
    simp only [List.map_cons, List.map_append, Event.toReal, groupSections]
    rw [toReal_id_of_headerFree body hfree, groupSections_append body _ hfree, ih.1]
    refine ⟨trivial, ?_⟩
    intro s hs
    simp only [List.append_nil, List.mem_cons] at hs
    rcases hs with rfl | hs
    · exact hb
    · exact ih.2 s hs

theorem sectionRaw_sects {i r : Bytes} {out : List Event} (h : sectionRaw i = some (out, r)) :
    ∃ hd body, out = .header hd :: body ∧ WFb body := by
  unfold sectionRaw at h
  split at h
  · simp at h
  · rename_i hd r0 _
    split at h
    · simp at h
    · rename_i evs r' hl
      simp only [Option.some.injEq, Prod.mk.injEq] at h
      obtain ⟨rfl, _⟩ := h
      exact ⟨hd, evs, rfl, bodyLoop_wf _ _ _ _ hl⟩

theorem sectionsRaw_sects : ∀ (f : Nat) (i : Bytes) (out : List Event), sectionsRaw f i = some out → Sects out := by
  intro f
  induction f with
  | zero =>
    intro i out h
    simp only [sectionsRaw] at h
    split at h
    · simp at h; subst h; exact .nil
    · simp at h
  | succ f ih =>
    intro i out h
    simp only [sectionsRaw] at h
    split at h
    · simp at h; subst h; exact .nil
    · split at h
      · simp at h
      · rename_i evs r hs
        simp only [Option.map_eq_some_iff] at h
        obtain ⟨more, hm, rfl⟩ := h
        obtain ⟨hd, body, rfl, hb⟩ := sectionRaw_sects hs
        exact .cons hd body more hb (ih _ _ hm)

theorem frontStep_headerFree {i r : Bytes} {e : Event} (h : frontStep i = some (e, r)) : isHeader e = false := by
  unfold frontStep at h
  split at h
  · rename_i x hc
    simp at h; subst h
    unfold comment at hc
    split at hc
    · split at hc
      · simp at hc; obtain ⟨rfl, _⟩ := hc; rfl
      · simp at hc
    · simp at hc
  · split at h
    · simp at h; obtain ⟨rfl, _⟩ := h; rfl
    · split at h
      · simp at h; obtain ⟨rfl, _⟩ := h; rfl
      · simp at h

theorem frontLoop_headerFree : ∀ (f : Nat) (i : Bytes), ∀ e ∈ (frontLoop f i).1, isHeader e = false := by
  intro f
  induction f with
  | zero => intro i e he; simp [frontLoop] at he
  | succ f ih =>
    intro i e he
    simp only [frontLoop] at he
    split at he
    · simp at he
    · rename_i x r hs
      simp at he
      rcases he with rfl | he
      · exact frontStep_headerFree hs
      · exact ih r e he

/-- every section body of a parsed file is well formed -/
theorem fileFromBytes_wf {bs : Bytes} {f : File} (h : fileFromBytes bs = some f) : ∀ s ∈ f.sections, WFb s.body := by
  unfold fileFromBytes parseEvents parseRaw at h
  simp only at h
  generalize bs.drop (bomLen bs) = i0 at h
  have hfree := frontLoop_headerFree i0.length i0
  generalize frontLoop i0.length i0 = fm at h hfree
  simp only [Option.map_eq_some_iff] at h
  obtain ⟨evs, ⟨revs, hr, rfl⟩, rfl⟩ := h
  split at hr
  · simp only [Option.some.injEq] at hr
    subst hr
    intro s hs
    unfold fileOfEvents at hs
    simp only at hs
    rw [toReal_id_of_headerFree fm.1 hfree] at hs
    have := groupSections_append fm.1 [] hfree
    simp [groupSections] at this
    rw [this] at hs
    simp at hs
  · simp only [Option.map_eq_some_iff] at hr
    obtain ⟨more, hm, rfl⟩ := hr
    have hsec := sectionsRaw_sects _ _ _ hm
    intro s hs
    unfold fileOfEvents at hs
    simp only [List.map_append] at hs
    rw [toReal_id_of_headerFree fm.1 hfree, groupSections_append fm.1 _ hfree] at hs
    exact (Sects_group hsec).2 s hs

theorem revEvents_length_kv (k : Bytes) (mid vals : List Event) (r : List Item) :
    (revEvents (.kv k mid vals :: r)).length = 1 + mid.length + vals.length + (revEvents r).length := by
  rw [revEvents_cons_length]; simp [Item.events]; omega

theorem findKv_some (key : Bytes) : ∀ (ris : List Item) (n ks s t : Nat), n = (revEvents ris).length →
    findKv key ris n = some (ks, s, t) →
    ∃ post k mid vals pre, ris = post ++ .kv k mid vals :: pre ∧ eqIgnoreCase k key = true ∧
      (∀ it ∈ post, it.matches key = false) ∧
      ks = (revEvents pre).length ∧ s = ks + 1 + mid.length ∧ t + 1 = s + vals.length := by
  intro ris
  induction ris with
  | nil => intro n ks s t _ h; simp [findKv] at h
  | cons it r ih =>
    intro n ks s t hn h
    cases it with
    | misc e =>
      rw [revEvents_cons_length] at hn
      simp only [Item.events, List.length_cons, List.length_nil] at hn
      simp only [findKv] at h
      obtain ⟨post, k, mid, vals, pre, hr, hm, hp, h1, h2, h3⟩ := ih (n - 1) ks s t (by omega) h
      refine ⟨.misc e :: post, k, mid, vals, pre, by simp [hr], hm, ?_, h1, h2, h3⟩
      intro x hx
      simp at hx
      rcases hx with rfl | hx
      · rfl
      · exact hp x hx
    | kv k mid vals =>
      rw [revEvents_length_kv] at hn
      simp only [findKv] at h
      split at h
      · rename_i hm
        simp only [Option.some.injEq, Prod.mk.injEq] at h
        obtain ⟨rfl, rfl, rfl⟩ := h
        refine ⟨[], k, mid, vals, r, rfl, hm, by simp, by omega, by omega, by omega⟩
      · rename_i hm
        obtain ⟨post, k', mid', vals', pre, hr, hm', hp, h1, h2, h3⟩ :=
          ih (n - (1 + mid.length + vals.length)) ks s t (by omega) h
        refine ⟨.kv k mid vals :: post, k', mid', vals', pre, by simp [hr], hm', ?_, h1, h2, h3⟩
        intro x hx
        simp at hx
        rcases hx with rfl | hx
        · simpa [Item.matches] using hm
        · exact hp x hx

theorem findKv_none (key : Bytes) : ∀ (ris : List Item) (n : Nat), findKv key ris n = none →
    ∀ it ∈ ris, it.matches key = false := by
  intro ris
  induction ris with
  | nil => intro n _ it hit; simp at hit
  | cons x r ih =>
    intro n h it hit
    cases x with
    | misc e =>
      simp only [findKv] at h
      simp at hit
      rcases hit with rfl | hit
      · rfl
      · exact ih _ h it hit
    | kv k mid vals =>
      simp only [findKv] at h
      split at h
      · simp at h
      · rename_i hm
        simp at hit
        rcases hit with rfl | hit
        · simpa [Item.matches] using hm
        · exact ih _ h it hit

/-- a well-formed body split at the LAST item carrying the key -/
structure KeySplit (key : Bytes) (is : List Item) where
  pre : List Item
  k : Bytes
  mid : List Event
  vals : List Event
  post : List Item
  his : is = pre ++ .kv k mid vals :: post
  hk : eqIgnoreCase k key = true
  hpost : ∀ it ∈ post, it.matches key = false

theorem flatten_length_rev (is : List Item) : (revEvents is.reverse).length = (flatten is).length := by
  rw [← flatten_reverse]; simp

/-- `key_and_value_range_by` on a well-formed body: `none` iff no item has the key; otherwise the
key range is exactly the events of the LAST such item and the value range exactly its value events
(present iff there is a `=` between name and value). -/
theorem keyAndValueRange_wf (key : Bytes) (is : List Item) (hok : ∀ i ∈ is, i.ok = true) :
    (keyAndValueRange key (flatten is) = none ∧ ∀ it ∈ is, it.matches key = false) ∨
    (∃ sp : KeySplit key is,
      keyAndValueRange key (flatten is) =
        some (((flatten sp.pre).length, (flatten sp.pre).length + 1 + sp.mid.length + sp.vals.length),
          if sp.mid.any (· == Event.sep) then
            some ((flatten sp.pre).length + 1 + sp.mid.length, (flatten sp.pre).length + 1 + sp.mid.length + sp.vals.length)
          else none)) := by
  unfold keyAndValueRange
  rw [rangeScan_items key is hok]
  cases hf : findKv key is.reverse (flatten is).length with
  | none =>
    left
    refine ⟨rfl, ?_⟩
    intro it hit
    exact findKv_none key _ _ hf it (by simpa using hit)
  | some p =>
    right
    obtain ⟨ks, s, t⟩ := p
    obtain ⟨post, k, mid, vals, pre, hr, hm, hp, h1, h2, h3⟩ :=
      findKv_some key is.reverse _ ks s t (flatten_length_rev is).symm hf
    have his : is = pre.reverse ++ .kv k mid vals :: post.reverse := by
      have := congrArg List.reverse hr
      simpa using this
    have hks : ks = (flatten pre.reverse).length := by rw [h1, ← flatten_length_rev]; simp
    refine ⟨⟨pre.reverse, k, mid, vals, post.reverse, his, hm, fun it hit => hp it (by simpa using hit)⟩, ?_⟩
    simp only
    -- the separator test looks at the events between the name and the first value event
    have hbody : flatten is = flatten pre.reverse ++ (.name k :: (mid ++ vals)) ++ flatten post.reverse := by
      rw [his]; simp [flatten, Item.events]
    have hsep : ((flatten is).take s).drop ks = .name k :: mid := by
      rw [hbody, h2]
      have e1 : ks + 1 + mid.length = (flatten pre.reverse ++ (.name k :: mid)).length := by
        simp [hks]; omega
      have e2 : flatten pre.reverse ++ Event.name k :: (mid ++ vals) ++ flatten post.reverse =
          (flatten pre.reverse ++ (.name k :: mid)) ++ (vals ++ flatten post.reverse) := by simp
      rw [e2, e1, List.take_left, hks, List.drop_left]
    rw [hsep]
    have hany : ((Event.name k :: mid).any fun e => e == Event.sep) = mid.any (· == Event.sep) := by simp
    rw [hany]
    have ht : t + 1 = (flatten pre.reverse).length + 1 + mid.length + vals.length := by omega
    simp only [ht, h2, hks]

theorem implicitGo_cont : ∀ (r : List Event) (cat : Bytes), contOk r = true →
    implicitGo r cat = some (normalize (cat ++ valText r)) := by
  intro r
  fun_induction contOk r
  · intro cat _; simp [implicitGo, valText]
  · rename_i c r' ih
    intro cat h
    simp only [implicitGo]
    rw [ih (cat ++ c) h]
    simp [valText]
  · rename_i c r' ih
    intro cat h
    simp only [implicitGo]
    rw [ih cat h]
    simp [valText]
  · intro cat h; simp at h

theorem implicitGo_vals (vals : List Event) (h : valsOk vals = true) :
    implicitGo vals [] = some (normalize (valText vals)) := by
  unfold valsOk at h
  split at h
  · simp [implicitGo, valText]
  · rename_i a r
    simp only [implicitGo]
    rw [implicitGo_cont r ([] ++ a) h]
    simp [valText]
  · simp at h

theorem bodyValuesGo_skip (key : Bytes) : ∀ (m rest : List Event) (expect : Bool) (cat : Bytes),
    m.all isMid = true → bodyValuesGo key (m ++ rest) expect cat = bodyValuesGo key rest expect cat := by
  intro m
  induction m with
  | nil => intro rest expect cat _; rfl
  | cons e m ih =>
    intro rest expect cat h
    simp only [List.all_cons, Bool.and_eq_true] at h
    have := ih rest expect cat h.2
    cases e <;> simp [isMid, evIsWs] at h <;> simp [bodyValuesGo, this]

theorem bodyValuesGo_cont_true (key : Bytes) : ∀ (r rest : List Event) (cat : Bytes), contOk r = true →
    bodyValuesGo key (r ++ rest) true cat = normalize (cat ++ valText r) :: bodyValuesGo key rest false [] := by
  intro r
  fun_induction contOk r
  · intro rest cat _; simp [bodyValuesGo, valText]
  · rename_i c r' ih
    intro rest cat h
    simp only [List.cons_append, bodyValuesGo, ↓reduceIte]
    rw [ih rest (cat ++ c) h]
    simp [valText]
  · rename_i c r' ih
    intro rest cat h
    simp only [List.cons_append, bodyValuesGo]
    rw [ih rest cat h]
    simp [valText]
  · intro rest cat h; simp at h

theorem bodyValuesGo_cont_false (key : Bytes) : ∀ (r rest : List Event) (cat : Bytes), contOk r = true →
    bodyValuesGo key (r ++ rest) false cat = bodyValuesGo key rest false cat := by
  intro r
  fun_induction contOk r
  · intro rest cat _; simp [bodyValuesGo]
  · rename_i c r' ih
    intro rest cat h
    simp only [List.cons_append, bodyValuesGo, Bool.false_eq_true, ↓reduceIte]
    exact ih rest cat h
  · rename_i c r' ih
    intro rest cat h
    simp only [List.cons_append, bodyValuesGo]
    exact ih rest cat h
  · intro rest cat h; simp at h

def Item.valueOf : Item → Bytes
  | .kv _ _ vals => normalize (valText vals)
  | .misc _ => []

/-- `Body::values` on a well-formed body: the normalized value of every item with the key, in order -/
theorem bodyValuesGo_items (key : Bytes) : ∀ (is : List Item) (rest : List Event), (∀ i ∈ is, i.ok = true) →
    bodyValuesGo key (flatten is ++ rest) false [] =
      ((is.filter (·.matches key)).map Item.valueOf) ++ bodyValuesGo key rest false [] := by
  intro is
  induction is with
  | nil => intro rest _; simp [flatten]
  | cons it is ih =>
    intro rest hok
    have hrest : ∀ i ∈ is, i.ok = true := fun i hi => hok i (by simp [hi])
    have hit := hok it (by simp)
    have hfl : flatten (it :: is) ++ rest = it.events ++ (flatten is ++ rest) := by simp [flatten]
    rw [hfl]
    cases it with
    | misc e =>
      simp only [Item.ok] at hit
      have : bodyValuesGo key (Item.events (.misc e) ++ (flatten is ++ rest)) false [] =
          bodyValuesGo key (flatten is ++ rest) false [] := by
        cases e <;> simp [evIsWs, evIsNewline, isComment] at hit <;> simp [Item.events, bodyValuesGo]
      rw [this, ih rest hrest]
      simp [Item.matches]
    | kv k mid vals =>
      simp only [Item.ok, Bool.and_eq_true] at hit
      simp only [Item.events, List.cons_append, List.append_assoc, bodyValuesGo]
      by_cases hm : eqIgnoreCase k key = true
      · simp only [hm, ↓reduceIte]
        rw [bodyValuesGo_skip key mid _ _ _ hit.1.1]
        have hv : bodyValuesGo key (vals ++ (flatten is ++ rest)) true [] =
            normalize (valText vals) :: bodyValuesGo key (flatten is ++ rest) false [] := by
          have hvo := hit.1.2
          unfold valsOk at hvo
          split at hvo
          · simp [bodyValuesGo, valText]
          · rename_i a r
            simp only [List.cons_append, bodyValuesGo, ↓reduceIte]
            rw [bodyValuesGo_cont_true key r _ _ hvo]
            simp [valText]
          · simp at hvo
        rw [hv, ih rest hrest]
        simp [Item.matches, hm, Item.valueOf]
      · simp only [hm, Bool.false_eq_true, ↓reduceIte]
        rw [bodyValuesGo_skip key mid _ _ _ hit.1.1]
        have hv : bodyValuesGo key (vals ++ (flatten is ++ rest)) false [] =
            bodyValuesGo key (flatten is ++ rest) false [] := by
          have hvo := hit.1.2
          unfold valsOk at hvo
          split at hvo
          · simp [bodyValuesGo]
          · rename_i a r
            simp only [List.cons_append, bodyValuesGo, Bool.false_eq_true, ↓reduceIte]
            exact bodyValuesGo_cont_false key r _ _ hvo
          · simp at hvo
        rw [hv, ih rest hrest]
        simp [Item.matches, hm]

theorem bodyValues_items (key : Bytes) (is : List Item) (hok : ∀ i ∈ is, i.ok = true) :
    bodyValues key (flatten is) = (is.filter (·.matches key)).map Item.valueOf := by
  have := bodyValuesGo_items key is [] hok
  simpa [bodyValues, bodyValuesGo] using this

theorem slice_vals (pre : List Event) (k : Bytes) (mid vals post : List Event) :
    ((pre ++ (.name k :: (mid ++ vals)) ++ post).take (pre.length + 1 + mid.length + vals.length)).drop
        (pre.length + 1 + mid.length) = vals := by
  have e2 : pre ++ Event.name k :: (mid ++ vals) ++ post = (pre ++ (.name k :: mid)) ++ (vals ++ post) := by simp
  have l1 : pre.length + 1 + mid.length = (pre ++ (.name k :: mid)).length := by simp; omega
  rw [e2, l1, List.take_length_add_append, List.drop_left]
  simp

/-- `Body::value_implicit` on a well-formed body -/
theorem valueImplicit_wf (key : Bytes) (is : List Item) (hok : ∀ i ∈ is, i.ok = true) :
    (valueImplicit key (flatten is) = none ∧ ∀ it ∈ is, it.matches key = false) ∨
    (∃ sp : KeySplit key is, valueImplicit key (flatten is) =
        some (if sp.mid.any (· == Event.sep) then some (normalize (valText sp.vals)) else none)) := by
  rcases keyAndValueRange_wf key is hok with ⟨hn, hall⟩ | ⟨sp, hsp⟩
  · left; exact ⟨by unfold valueImplicit; rw [hn], hall⟩
  · right
    refine ⟨sp, ?_⟩
    unfold valueImplicit
    rw [hsp]
    obtain ⟨pre, k, mid, vals, post, his, hk, hpost⟩ := sp
    subst his
    simp only
    by_cases hs : mid.any (· == Event.sep) = true
    · simp only [hs, ↓reduceIte]
      have hbody : flatten (pre ++ .kv k mid vals :: post) = flatten pre ++ (.name k :: (mid ++ vals)) ++ flatten post := by
        simp [flatten, Item.events]
      have hvok : valsOk vals = true := by
        have := hok (.kv k mid vals) (by simp)
        simp only [Item.ok, Bool.and_eq_true] at this
        exact this.1.2
      rw [hbody, slice_vals, implicitGo_vals _ hvok]
    · simp only [hs, Bool.false_eq_true, ↓reduceIte]

theorem filter_split (key : Bytes) (is : List Item) (sp : KeySplit key is) :
    is.filter (·.matches key) = sp.pre.filter (·.matches key) ++ [.kv sp.k sp.mid sp.vals] := by
  obtain ⟨pre, k, mid, vals, post, his, hk, hpost⟩ := sp
  subst his
  simp only
  rw [List.filter_append, List.filter_cons]
  have hm : (Item.kv k mid vals).matches key = true := by simpa [Item.matches] using hk
  have hp : post.filter (·.matches key) = [] := by
    rw [List.filter_eq_nil_iff]; intro it hit; simp [hpost it hit]
  simp [hm, hp]

/-- Last one wins inside a body: on a well-formed body `Body::value` is the last of `Body::values`,
unless the last occurrence of the key has no `=` (then `value` is `None`). -/
theorem bodyValue_last (key : Bytes) (is : List Item) (hok : ∀ i ∈ is, i.ok = true)
    (hne : valueImplicit key (flatten is) ≠ some none) :
    bodyValue key (flatten is) = (bodyValues key (flatten is)).getLast? := by
  rw [bodyValues_items key is hok]
  unfold bodyValue
  rcases valueImplicit_wf key is hok with ⟨hn, hall⟩ | ⟨sp, hsp⟩
  · rw [hn]
    have : is.filter (·.matches key) = [] := by
      rw [List.filter_eq_nil_iff]; intro it hit; simp [hall it hit]
    simp [this]
  · rw [hsp] at hne ⊢
    by_cases hs : sp.mid.any (· == Event.sep) = true
    · simp only [hs, ↓reduceIte, Option.join_some]
      rw [filter_split key is sp]
      simp [Item.valueOf]
    · simp [hs] at hne

end GixModel.C27
