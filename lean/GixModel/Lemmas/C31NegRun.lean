import GixModel.Lemmas.C31NegCons
import GixModel.Lemmas.C31NegSkip
/-
C31 — whole conversations: any algorithm, any sequence of negotiator calls, any acknowledgements.
-/
namespace GixModel.C31.Neg

/-- the commits the other side is said to have: declared by the caller (`known_common`) or
acknowledged by the server -/
def Op.source : Op → List Nat
  | .knownCommon id => [id]
  | .ack id => [id]
  | _ => []

def sources : List Op → List Nat
  | [] => []
  | op :: ops => op.source ++ sources ops

theorem step_inv {a : Algo} {o : Odb} {pk : Picker} {fuel : Nat} {src : List Nat} {st st' : St} {op : Op}
    {ans : Answer} (hinv : Inv o src st) (h : step a o pk fuel st op = .ok (ans, st')) :
    Inv o (src ++ op.source) st' ∧ ∀ x, ans = .have (some x) → o.present x = true := by
  have hmono : Inv o (src ++ op.source) st := hinv.mono (fun x hx => List.mem_append.mpr (Or.inl hx))
  cases op with
  | knownCommon id =>
    have hid : id ∈ src ++ (Op.knownCommon id).source := by simp [Op.source]
    cases a with
    | noop => simp only [step] at h; cases h; exact ⟨hmono, by intro x hx; cases hx⟩
    | consecutive =>
      simp only [step] at h
      cases hk : Consecutive.knownCommon o pk fuel st id with
      | ok s2 =>
        simp only [hk] at h; cases h
        exact ⟨Consecutive.knownCommon_inv pk fuel id hmono hid hk, by intro x hx; cases hx⟩
      | panic => simp [hk] at h
      | fuel => simp [hk] at h
    | skipping =>
      simp only [step] at h; cases h
      exact ⟨Skipping.knownCommon_inv id hmono hid, by intro x hx; cases hx⟩
  | addTip id =>
    cases a with
    | noop => simp only [step] at h; cases h; exact ⟨hmono, by intro x hx; cases hx⟩
    | consecutive =>
      simp only [step] at h; cases h
      exact ⟨Consecutive.addTip_inv id hmono, by intro x hx; cases hx⟩
    | skipping =>
      simp only [step] at h; cases h
      exact ⟨Skipping.addTip_inv id hmono, by intro x hx; cases hx⟩
  | nextHave =>
    cases a with
    | noop => simp only [step] at h; cases h; exact ⟨hmono, by intro x hx; cases hx⟩
    | consecutive =>
      simp only [step] at h
      cases hk : Consecutive.nextHave o pk fuel st with
      | ok r =>
        obtain ⟨hv, s2⟩ := r
        simp only [hk] at h; cases h
        obtain ⟨h1, h2⟩ := Consecutive.nextHave_inv pk fuel _ _ _ hmono hk
        exact ⟨h1, by intro x hx; cases hx; exact h2 x rfl⟩
      | panic => simp [hk] at h
      | fuel => simp [hk] at h
    | skipping =>
      simp only [step] at h
      cases hk : Skipping.nextHave o pk fuel st with
      | ok r =>
        obtain ⟨hv, s2⟩ := r
        simp only [hk] at h; cases h
        obtain ⟨h1, h2⟩ := Skipping.nextHave_inv pk fuel _ _ _ hmono hk
        exact ⟨h1, by intro x hx; cases hx; exact h2 x rfl⟩
      | panic => simp [hk] at h
      | fuel => simp [hk] at h
  | ack id =>
    have hid : id ∈ src ++ (Op.ack id).source := by simp [Op.source]
    cases a with
    | noop => simp only [step] at h; cases h; exact ⟨hmono, by intro x hx; cases hx⟩
    | consecutive =>
      simp only [step] at h
      cases hk : Consecutive.inCommonWithRemote o pk fuel st id with
      | ok r =>
        obtain ⟨b, s2⟩ := r
        simp only [hk] at h; cases h
        exact ⟨Consecutive.inCommonWithRemote_inv pk fuel id b hmono hid hk, by intro x hx; cases hx⟩
      | panic => simp [hk] at h
      | fuel => simp [hk] at h
    | skipping =>
      simp only [step] at h
      cases hk : Skipping.inCommonWithRemote o pk fuel st id with
      | ok r =>
        obtain ⟨b, s2⟩ := r
        simp only [hk] at h; cases h
        exact ⟨Skipping.inCommonWithRemote_inv pk fuel id b hmono hid hk, by intro x hx; cases hx⟩
      | panic => simp [hk] at h
      | fuel => simp [hk] at h

theorem run_inv {a : Algo} {o : Odb} {pk : Picker} {fuel : Nat} (ops : List Op) :
    ∀ (src : List Nat) (st st' : St) (answers : List Answer), Inv o src st →
      run a o pk fuel st ops = .ok (answers, st') →
      Inv o (src ++ sources ops) st' ∧ ∀ x, Answer.have (some x) ∈ answers → o.present x = true := by
  induction ops with
  | nil =>
    intro src st st' answers hinv h
    simp only [run, Res.ok.injEq, Prod.mk.injEq] at h
    obtain ⟨rfl, rfl⟩ := h
    exact ⟨by simpa [sources] using hinv, by intro x hx; cases hx⟩
  | cons op ops ih =>
    intro src st st' answers hinv h
    unfold run at h
    cases hs : step a o pk fuel st op with
    | ok r =>
      obtain ⟨ans, s1⟩ := r
      simp only [hs] at h
      cases hr : run a o pk fuel s1 ops with
      | ok r2 =>
        obtain ⟨rest, s2⟩ := r2
        simp only [hr, Res.ok.injEq, Prod.mk.injEq] at h
        obtain ⟨rfl, rfl⟩ := h
        obtain ⟨h1, h2⟩ := step_inv hinv hs
        obtain ⟨h3, h4⟩ := ih _ _ _ _ h1 hr
        refine ⟨by simpa [sources, List.append_assoc] using h3, ?_⟩
        intro x hx
        rcases List.mem_cons.mp hx with h5 | h5
        · exact h2 x h5.symm
        · exact h4 x h5
      | panic => simp [hr] at h
      | fuel => simp [hr] at h
    | panic => simp [hs] at h
    | fuel => simp [hs] at h

end GixModel.C31.Neg
