import GixModel.Lemmas.C04t
/-
C04 helper lemmas, part h: whole operations on the editor (path buffer cleared first), histories of
operations, and the injectivity of the real cache key (`path_hash`) on valid paths.
-/
namespace GixModel.C04
open GixModel GixModel.Tree
open GixModel.Spec.C04 (Leaf FS)

def ValidPath (p : Path) : Prop := p ≠ [] ∧ ∀ n ∈ p, ValidName n

instance (p : Path) : Decidable (ValidPath p) := by unfold ValidPath; infer_instance

/-- `Editor::upsert` of a non-tree kind -/
theorem upsert_spec {ed : Ed} (hinv : Inv ed) {p : Path} (hp : ValidPath p) {mode : Nat} {id : Bytes}
    (hk : isTreeMode mode = false) :
    ∃ ed', upsert ed p mode id = .ok ed' ∧ Inv ed' ∧ ed'.store = ed.store ∧
      abs ed' = Spec.C04.upsert p (leafVal mode id) (abs ed) := by
  cases hroot : aget [] ed.trees with
  | none => have := hinv.root; simp [hroot] at this
  | some root =>
    obtain ⟨ed', t', hr, hinv', hs, hP', _, hsem⟩ :=
      editLoop_upsert ⟨mode, id, .normal⟩ rfl hk p hp.1 hp.2 { ed with pathBuf := [] } [] root
        (inv_pathBuf hinv []) rfl hroot
    refine ⟨ed', hr, hinv', hs, ?_⟩
    funext q
    have h1 : abs ed' q = lookupIn ed' t' [] q := by simp [abs, hP']
    rw [h1, hsem q]
    have h2 : lookupIn { ed with pathBuf := [] } root [] = abs ed := by
      funext r
      have := congrFun (abs_pathBuf ed []) r
      simp only [abs, hroot] at this
      simp only [abs, hroot]
      exact this
    rw [h2]

/-- `Editor::remove` -/
theorem remove_spec {ed : Ed} (hinv : Inv ed) {p : Path} (hp : ValidPath p) :
    ∃ ed', remove ed p = .ok ed' ∧ Inv ed' ∧ ed'.store = ed.store ∧
      abs ed' = Spec.C04.remove p (abs ed) := by
  cases hroot : aget [] ed.trees with
  | none => have := hinv.root; simp [hroot] at this
  | some root =>
    obtain ⟨ed', t', hr, hinv', hs, hP', _, hsem⟩ :=
      editLoop_remove p hp.1 hp.2 { ed with pathBuf := [] } [] root (inv_pathBuf hinv []) rfl hroot
    refine ⟨ed', hr, hinv', hs, ?_⟩
    funext q
    have h1 : abs ed' q = lookupIn ed' t' [] q := by simp [abs, hP']
    rw [h1, hsem q]
    have h2 : lookupIn { ed with pathBuf := [] } root [] = abs ed := by
      funext r
      have := congrFun (abs_pathBuf ed []) r
      simp only [abs, hroot] at this
      simp only [abs, hroot]
      exact this
    rw [h2]

/-- `Editor::cursor_at` (as repaired: an existing directory is kept) -/
theorem cursorAt_spec {ed : Ed} (hinv : Inv ed) {p : Path} (hp : ValidPath p) :
    ∃ ed', cursorAt ed p = .ok ed' ∧ Inv ed' ∧ ed'.store = ed.store ∧
      abs ed' = Spec.C04.mkdir p (abs ed) ∧ ed'.pathBuf = p ∧ (aget p ed'.trees).isSome = true := by
  cases hroot : aget [] ed.trees with
  | none => have := hinv.root; simp [hroot] at this
  | some root =>
    obtain ⟨ed', t', hr, hinv', hs, hP', _, hsem, hpb, hc⟩ :=
      editLoop_mkdir ⟨0o040000, nullId, .assureTreeOnly⟩ ⟨rfl, rfl, rfl⟩ p hp.1 hp.2
        { ed with pathBuf := [] } [] root (inv_pathBuf hinv []) rfl hroot
    refine ⟨ed', hr, hinv', hs, ?_, by simpa using hpb, by simpa using hc⟩
    funext q
    have h1 : abs ed' q = lookupIn ed' t' [] q := by simp [abs, hP']
    rw [h1, hsem q]
    have h2 : lookupIn { ed with pathBuf := [] } root [] = abs ed := by
      funext r
      have := congrFun (abs_pathBuf ed []) r
      simp only [abs, hroot] at this
      simp only [abs, hroot]
      exact this
    rw [h2]

/-- `Editor::set_root` with a canonical stored tree -/
theorem setRoot_spec {hash : List Entry → Bytes} {ed : Ed} (h : InvW hash ed) {t : List Entry}
    (ht : Canon ed.store t) :
    InvW hash (setRoot ed t) ∧ abs (setRoot ed t) = absStore ed.store t := by
  constructor
  · refine ⟨⟨by simp [setRoot, aget], ?_, ?_, ?_, h.inv.store⟩, h.hashed, h.canon⟩
    · intro K tk hK
      by_cases h0 : K = []
      · subst h0
        simp only [setRoot, aget, if_true, Option.some.injEq] at hK
        subst hK; exact ht.treeOk
      · simp only [setRoot] at hK
        rw [aget_root_only _ _ h0] at hK; cases hK
    · intro K n tk hK
      simp only [setRoot] at hK
      rw [aget_root_only _ _ (by simp)] at hK; cases hK
    · intro K tk hK e he hd
      by_cases h0 : K = []
      · subst h0
        simp only [setRoot, aget, if_true, Option.some.injEq] at hK
        subst hK
        have := ht.closed e he hd
        simp only [resolve, setRoot]
        rw [aget_root_only _ _ (by simp)]
        by_cases hE : noFind e.oid = true
        · simp [hE]
        · simpa [hE] using this
      · simp only [setRoot] at hK
        rw [aget_root_only _ _ h0] at hK; cases hK
  · funext q
    simp only [abs, setRoot, aget, if_true, absStore]
    apply lookupIn_congr (ed := storeEd ed.store) (ed' := { ed with trees := [([], t)] }) rfl
    intro K _ hK
    rw [aget_root_only _ _ hK]
    simp [storeEd, aget]

/-! ### histories -/

inductive Op where
  | upsert (p : Path) (mode : Nat) (id : Bytes)
  | remove (p : Path)
  | write
  | setRoot (t : List Entry)
  /-- create a cursor at `p` (and drop it again) -/
  | cursorAt (p : Path)

/-- operations the theorems cover: valid paths; upserts of a non-tree kind, or of kind Tree with the
id of a stored tree (not the empty tree: git has no such entries); canonical stored root trees -/
def ValidOp (S0 : Assoc Bytes (List Entry)) : Op → Prop
  | .upsert p mode id => ValidPath p ∧
      (isTreeMode mode = false ∨
        (mode = 0o040000 ∧ id ≠ emptyTreeId ∧ (id = nullId ∨ ∃ t, aget id S0 = some t)))
  | .remove p => ValidPath p
  | .write => True
  | .setRoot t => Canon S0 t
  | .cursorAt p => ValidPath p

/-- the same history on the abstract file system -/
def specStep (S0 : Assoc Bytes (List Entry)) (fs : FS) : Op → FS
  | .upsert p mode id =>
    if isTreeMode mode then
      (match aget id S0 with
       | some t => Spec.C04.graft p (absStore S0 t) fs
       | none => Spec.C04.graft p Spec.C04.empty fs)
    else Spec.C04.upsert p (leafVal mode id) fs
  | .remove p => Spec.C04.remove p fs
  | .write => fs
  | .setRoot t => absStore S0 t
  | .cursorAt p => Spec.C04.mkdir p fs

/-- one operation on the editor; `none` = error result or panic -/
def applyOp (hash : List Entry → Bytes) (ed : Ed) : Op → Option Ed
  | .upsert p mode id => match upsert ed p mode id with | .ok ed' => some ed' | _ => none
  | .remove p => match remove ed p with | .ok ed' => some ed' | _ => none
  | .write => match write hash ed with | .ok _ _ ed' => some ed' | .panic => none
  | .setRoot t => some (setRoot ed t)
  | .cursorAt p => match cursorAt ed p with | .ok ed' => some ed' | _ => none

def runHistory (hash : List Entry → Bytes) : Ed → List Op → Option Ed
  | ed, [] => some ed
  | ed, op :: ops => match applyOp hash ed op with | some ed' => runHistory hash ed' ops | none => none

theorem applyOp_spec {hash : List Entry → Bytes} (hh : HashOk hash) {S0 : Assoc Bytes (List Entry)}
    {ed : Ed} (h : InvW hash ed) (hm : StoreMono S0 ed.store) (hS0 : StoreOk S0) {op : Op}
    (hv : ValidOp S0 op) :
    ∃ ed', applyOp hash ed op = some ed' ∧ InvW hash ed' ∧ StoreMono S0 ed'.store ∧
      abs ed' = specStep S0 (abs ed) op := by
  cases op with
  | upsert p mode id =>
    rcases hv.2 with hk | ⟨hmode, hne, t⟩
    · obtain ⟨ed', h1, h2, h3, h4⟩ := upsert_spec h.inv hv.1 (id := id) hk
      refine ⟨ed', by simp [applyOp, h1], ⟨h2, h3 ▸ h.hashed, h3 ▸ h.canon⟩, h3 ▸ hm, ?_⟩
      simp only [specStep, hk, Bool.false_eq_true, if_false]; exact h4
    · subst hmode
      rcases t with hnull | ⟨t, ht⟩
      · subst hnull
        obtain ⟨ed', h1, h2, h3, h4⟩ := upsert_tree_spec h.inv hv.1 (ts := []) (Or.inl ⟨rfl, rfl⟩) hne
        refine ⟨ed', by simp [applyOp, h1], ⟨h2, h3 ▸ h.hashed, h3 ▸ h.canon⟩, h3 ▸ hm, ?_⟩
        simp only [specStep, isTree_040000, if_true, hS0.nonull]
        rw [h4]
        congr 1
        funext q
        exact lookupIn_nil _ _ _
      · have hst := hm _ _ ht
        have hnn : id ≠ nullId := fun e => by rw [e, h.inv.store.nonull] at hst; cases hst
        obtain ⟨ed', h1, h2, h3, h4⟩ := upsert_tree_spec h.inv hv.1 (Or.inr ⟨hnn, hst⟩) hne
        refine ⟨ed', by simp [applyOp, h1], ⟨h2, h3 ▸ h.hashed, h3 ▸ h.canon⟩, h3 ▸ hm, ?_⟩
        simp only [specStep, isTree_040000, if_true, ht]
        rw [h4]
        congr 1
        funext q
        exact lookup_store_mono hS0 hm q t [] (storeOk_closed hS0 ht)
  | remove p =>
    obtain ⟨ed', h1, h2, h3, h4⟩ := remove_spec h.inv hv
    exact ⟨ed', by simp [applyOp, h1], ⟨h2, h3 ▸ h.hashed, h3 ▸ h.canon⟩, h3 ▸ hm, h4⟩
  | write =>
    obtain ⟨calls, ed', root, h1, h2, _, _, _, h6, h7⟩ := write_spec hh h
    exact ⟨ed', by simp [applyOp, h1], h2, hm.trans h7, funext h6⟩
  | setRoot t =>
    have ht : Canon ed.store t := Canon.mono hm hv
    obtain ⟨h1, h2⟩ := setRoot_spec h ht
    refine ⟨setRoot ed t, rfl, h1, hm, ?_⟩
    rw [h2]
    funext q
    exact lookup_store_mono hS0 hm q t [] hv.closed
  | cursorAt p =>
    obtain ⟨ed', h1, h2, h3, h4, _, _⟩ := cursorAt_spec h.inv hv
    exact ⟨ed', by simp [applyOp, h1], ⟨h2, h3 ▸ h.hashed, h3 ▸ h.canon⟩, h3 ▸ hm, h4⟩

theorem runHistory_spec {hash : List Entry → Bytes} (hh : HashOk hash) {S0 : Assoc Bytes (List Entry)}
    (hS0 : StoreOk S0) :
    ∀ (ops : List Op) (ed : Ed), InvW hash ed → StoreMono S0 ed.store → (∀ op ∈ ops, ValidOp S0 op) →
      ∃ ed', runHistory hash ed ops = some ed' ∧ InvW hash ed' ∧ StoreMono S0 ed'.store ∧
        abs ed' = ops.foldl (specStep S0) (abs ed) := by
  intro ops
  induction ops with
  | nil => intro ed h hm _; exact ⟨ed, rfl, h, hm, rfl⟩
  | cons op ops ih =>
    intro ed h hm hv
    obtain ⟨ed1, h1, h2, h3, h4⟩ := applyOp_spec hh h hm hS0 (hv op (by simp))
    obtain ⟨ed2, g1, g2, g3, g4⟩ := ih ed1 h2 h3 (fun o ho => hv o (List.mem_cons_of_mem _ ho))
    refine ⟨ed2, by simp [runHistory, h1, g1], g2, g3, ?_⟩
    rw [g4, h4]; rfl

/-- the fresh editor on the empty tree -/
theorem invW_empty (hash : List Entry → Bytes) : InvW hash emptyEd := by
  refine ⟨⟨by simp [emptyEd, aget], ?_, ?_, ?_, ⟨?_, ?_, by simp [emptyEd, aget]⟩⟩, ?_, ?_⟩
  · intro K t hK
    by_cases h0 : K = []
    · subst h0
      simp only [emptyEd, aget, if_true, Option.some.injEq] at hK
      subst hK; exact treeOk_nil
    · simp only [emptyEd] at hK
      rw [aget_root_only _ _ h0] at hK; cases hK
  · intro K n t hK
    simp only [emptyEd] at hK
    rw [aget_root_only _ _ (by simp)] at hK; cases hK
  · intro K t hK e he hd
    by_cases h0 : K = []
    · subst h0
      simp only [emptyEd, aget, if_true, Option.some.injEq] at hK
      subst hK; cases he
    · simp only [emptyEd] at hK
      rw [aget_root_only _ _ h0] at hK; cases hK
  · intro id t h; simp [emptyEd, aget] at h
  · intro id t h; simp [emptyEd, aget] at h
  · intro id t h; simp [emptyEd, aget] at h
  · intro id t h; simp [emptyEd, aget] at h

theorem abs_empty : abs emptyEd = Spec.C04.empty := by
  funext q
  simp only [abs, emptyEd, aget, if_true, Spec.C04.empty]
  exact lookupIn_nil _ _ _

/-! ### the full operation set (for the statement of what is not proved yet) -/

/-- all operations of the property: the ones above plus edits and writes through a live cursor -/
inductive OpF where
  | base (op : Op)
  | cUpsert (p : Path) (mode : Nat) (id : Bytes)
  | cRemove (p : Path)
  | cWrite

structure RunF where
  ed : Ed
  cursor : Option Path

def applyF (hash : List Entry → Bytes) (r : RunF) : OpF → Option RunF
  | .base (.cursorAt p) =>
    match cursorAt r.ed p with
    | .ok ed' => some ⟨ed', some ed'.pathBuf⟩
    | _ => none
  | .base op => (applyOp hash r.ed op).map (fun ed' => ⟨ed', none⟩)
  | .cUpsert p mode id =>
    match r.cursor with
    | some pfx => (match cursorUpsert r.ed pfx p mode id with
      | .ok ed' => some ⟨ed', some pfx⟩
      | _ => none)
    | none => none
  | .cRemove p =>
    match r.cursor with
    | some pfx => (match cursorRemove r.ed pfx p with
      | .ok ed' => some ⟨ed', some pfx⟩
      | _ => none)
    | none => none
  | .cWrite =>
    match r.cursor with
    | some pfx => (match cursorWrite hash r.ed pfx with
      | .ok _ _ ed' => some ⟨ed', some pfx⟩
      | .panic => none)
    | none => none

def runF (hash : List Entry → Bytes) : RunF → List OpF → Option RunF
  | r, [] => some r
  | r, op :: ops => match applyF hash r op with | some r' => runF hash r' ops | none => none

/-- the abstract side: the file system and where the cursor is -/
def specF (S0 : Assoc Bytes (List Entry)) (s : FS × Option Path) : OpF → FS × Option Path
  | .base (.cursorAt p) => (Spec.C04.mkdir p s.1, some p)
  | .base op => (specStep S0 s.1 op, none)
  | .cUpsert p mode id =>
    match s.2 with
    | some pfx =>
      (if isTreeMode mode then
        (match aget id S0 with
         | some t => Spec.C04.graft (pfx ++ p) (absStore S0 t) s.1
         | none => Spec.C04.graft (pfx ++ p) Spec.C04.empty s.1)
       else Spec.C04.upsert (pfx ++ p) (leafVal mode id) s.1, s.2)
    | none => s
  | .cRemove p =>
    match s.2 with
    | some pfx => (Spec.C04.remove (pfx ++ p) s.1, s.2)
    | none => s
  | .cWrite => s

/-- cursor operations need a live cursor -/
def ValidF (S0 : Assoc Bytes (List Entry)) : Option Path → List OpF → Prop
  | _, [] => True
  | _, .base (.cursorAt p) :: ops => ValidPath p ∧ ValidF S0 (some p) ops
  | _, .base op :: ops => ValidOp S0 op ∧ ValidF S0 none ops
  | c, .cUpsert p mode id :: ops => c.isSome ∧ ValidPath p ∧
      (isTreeMode mode = false ∨
        (mode = 0o040000 ∧ id ≠ emptyTreeId ∧ (id = nullId ∨ ∃ t, aget id S0 = some t))) ∧
      ValidF S0 c ops
  | c, .cRemove p :: ops => c.isSome ∧ ValidPath p ∧ ValidF S0 c ops
  | c, .cWrite :: ops => c.isSome ∧ ValidF S0 c ops

/-! ### the real cache key: `/`-joined paths are in bijection with valid component lists -/

def tailBytes (ps : Path) : Bytes := ps.flatMap (fun c => 47 :: c)

theorem foldl_pushPath (ps : Path) : ∀ (acc : Bytes), acc ≠ [] →
    ps.foldl pushPath acc = acc ++ tailBytes ps := by
  induction ps with
  | nil => intro acc _; simp [tailBytes]
  | cons c ps ih =>
    intro acc hacc
    have hne : acc.isEmpty = false := by cases acc <;> simp_all
    have h1 : pushPath acc c = acc ++ [47] ++ c := by simp [pushPath, hne]
    simp only [List.foldl_cons, h1]
    rw [ih _ (by simp)]
    simp [tailBytes, List.flatMap_cons]

theorem joinPath_cons (c : Bytes) (ps : Path) (hc : c ≠ []) : joinPath (c :: ps) = c ++ tailBytes ps := by
  simp only [joinPath, List.foldl_cons]
  have : pushPath [] c = c := by simp [pushPath]
  rw [this, foldl_pushPath ps c hc]

def SlashOrNil (x : Bytes) : Prop := x = [] ∨ ∃ r, x = 47 :: r

theorem tailBytes_shape (ps : Path) : SlashOrNil (tailBytes ps) := by
  cases ps with
  | nil => exact Or.inl rfl
  | cons c ps => exact Or.inr ⟨c ++ tailBytes ps, by simp [tailBytes, List.flatMap_cons]⟩

theorem split_slashfree : ∀ (c d x y : Bytes), SlashFree c → SlashFree d → SlashOrNil x → SlashOrNil y →
    c ++ x = d ++ y → c = d ∧ x = y := by
  intro c
  induction c with
  | nil =>
    intro d x y _ hd hx hy h
    cases d with
    | nil => exact ⟨rfl, by simpa using h⟩
    | cons d0 d' =>
      exfalso
      have hd0 : d0 ≠ 47 := hd d0 (by simp)
      rcases hx with rfl | ⟨r, rfl⟩
      · simp at h
      · simp at h; exact hd0 h.1.symm
  | cons c0 c' ih =>
    intro d x y hc hd hx hy h
    cases d with
    | nil =>
      exfalso
      have hc0 : c0 ≠ 47 := hc c0 (by simp)
      rcases hy with rfl | ⟨r, rfl⟩
      · simp at h
      · simp at h; exact hc0 h.1
    | cons d0 d' =>
      simp only [List.cons_append, List.cons.injEq] at h
      obtain ⟨h1, h2⟩ := ih d' x y hc.tail hd.tail hx hy h.2
      exact ⟨by rw [h.1, h1], h2⟩

theorem tailBytes_inj : ∀ (ps qs : Path), (∀ n ∈ ps, ValidName n) → (∀ n ∈ qs, ValidName n) →
    tailBytes ps = tailBytes qs → ps = qs := by
  intro ps
  induction ps with
  | nil =>
    intro qs _ _ h
    cases qs with
    | nil => rfl
    | cons d qs => simp [tailBytes, List.flatMap_cons] at h
  | cons c ps ih =>
    intro qs hp hq h
    cases qs with
    | nil => simp [tailBytes, List.flatMap_cons] at h
    | cons d qs =>
      simp only [tailBytes, List.flatMap_cons, List.cons_append, List.cons.injEq, true_and] at h
      obtain ⟨h1, h2⟩ := split_slashfree c d _ _ (hp c (by simp)).2 (hq d (by simp)).2
        (tailBytes_shape ps) (tailBytes_shape qs) h
      rw [h1, ih qs (fun n hn => hp n (List.mem_cons_of_mem _ hn))
        (fun n hn => hq n (List.mem_cons_of_mem _ hn)) h2]

/-- the key the real code uses for its hash map (`path_hash` of the `/`-joined path) identifies
the component list, as long as components are non-empty and slash-free -/
theorem joinPath_inj (p q : Path) (hp : ∀ n ∈ p, ValidName n) (hq : ∀ n ∈ q, ValidName n)
    (h : joinPath p = joinPath q) : p = q := by
  cases p with
  | nil =>
    cases q with
    | nil => rfl
    | cons d qs =>
      exfalso
      rw [joinPath_cons d qs (hq d (by simp)).1] at h
      have h' : d ++ tailBytes qs = [] := by simpa [joinPath] using h.symm
      exact (hq d (by simp)).1 (List.append_eq_nil_iff.1 h').1
  | cons c ps =>
    cases q with
    | nil =>
      exfalso
      rw [joinPath_cons c ps (hp c (by simp)).1] at h
      have h' : c ++ tailBytes ps = [] := by simpa [joinPath] using h
      exact (hp c (by simp)).1 (List.append_eq_nil_iff.1 h').1
    | cons d qs =>
      rw [joinPath_cons c ps (hp c (by simp)).1, joinPath_cons d qs (hq d (by simp)).1] at h
      obtain ⟨h1, h2⟩ := split_slashfree c d _ _ (hp c (by simp)).2 (hq d (by simp)).2
        (tailBytes_shape ps) (tailBytes_shape qs) h
      rw [h1, tailBytes_inj ps qs (fun n hn => hp n (List.mem_cons_of_mem _ hn))
        (fun n hn => hq n (List.mem_cons_of_mem _ hn)) h2]

end GixModel.C04
