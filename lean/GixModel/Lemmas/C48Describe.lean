import GixModel.Lemmas.C48Rev
/-
C48 — `git describe` output `<ref>-<n>-g<hex>` as anchor: `long_describe_prefix` finds the prefix and
the `DescribeAnchor` hint.
-/
namespace GixModel.C48
open GixModel GixModel.Spec.C48

theorem splitOn_ne_nil (sep : UInt8) : ∀ l : Bytes, splitOn sep l ≠ [] := by
  intro l
  induction l with
  | nil => simp [splitOn]
  | cons b l ih =>
    unfold splitOn
    split
    · simp
    · split
      · simp
      · simp

theorem splitOn_append (sep : UInt8) : ∀ (a b : Bytes),
    splitOn sep (a ++ sep :: b) = splitOn sep a ++ splitOn sep b := by
  intro a
  induction a with
  | nil => intro b; simp [splitOn]
  | cons c a ih =>
    intro b
    simp only [List.cons_append]
    by_cases hc : (c == sep) = true
    · simp only [splitOn, hc, if_true, ih b, List.cons_append]
    · simp only [splitOn, hc, Bool.false_eq_true, if_false, ih b]
      cases hs : splitOn sep a with
      | nil => exact absurd hs (splitOn_ne_nil sep a)
      | cons t ts => simp

theorem splitOn_free (sep : UInt8) : ∀ (l : Bytes), (∀ b ∈ l, b ≠ sep) → splitOn sep l = [l] := by
  intro l
  induction l with
  | nil => intro _; rfl
  | cons c l ih =>
    intro h
    have hc : (c == sep) = false := by simpa using h c (by simp)
    simp only [splitOn, hc, Bool.false_eq_true, if_false, ih (fun b hb => h b (by simp [hb]))]

theorem joinWith_splitOn (sep : UInt8) : ∀ (l : Bytes), joinWith sep (splitOn sep l) = l := by
  intro l
  induction l with
  | nil => rfl
  | cons c l ih =>
    by_cases hc : (c == sep) = true
    · have hcs : c = sep := by simpa using hc
      simp only [splitOn, hc, if_true]
      cases hs : splitOn sep l with
      | nil => exact absurd hs (splitOn_ne_nil sep l)
      | cons t ts =>
        rw [hs] at ih
        simp only [joinWith, List.nil_append, ih, hcs]
    · simp only [splitOn, hc, Bool.false_eq_true, if_false]
      cases hs : splitOn sep l with
      | nil => exact absurd hs (splitOn_ne_nil sep l)
      | cons t ts =>
        rw [hs] at ih
        simp only
        cases ts with
        | nil => simp only [joinWith] at ih ⊢; rw [ih]
        | cons t2 ts => simp only [joinWith, List.cons_append] at ih ⊢; rw [ih]

theorem digit_ne_dash {l : Bytes} (h : l.all isDigit = true) : ∀ b ∈ l, b ≠ 45 := by
  rw [List.all_eq_true] at h
  intro b hb
  exact isDigit_ne b (h b hb) 45 (Or.inl (by decide))

theorem hex_ne_dash {l : Bytes} (h : l.all isHexDigit = true) : ∀ b ∈ l, b ≠ 45 := by
  rw [List.all_eq_true] at h
  intro b hb hc
  subst hc
  exact absurd (h _ hb) (by decide)

theorem parseUsize_natDec (g : Nat) (hg : g < 2 ^ 64) : parseUsize (natDec g) = some g := by
  obtain ⟨d, ds, hnd, hd, hall, hval⟩ := natDec_cons g
  rw [hnd, parseUsize_digits d ds hd hall (by rw [hval]; exact hg), hval]

theorem longDescribe_print (r : Bytes) (g : Nat) (h : Bytes) (hg : g < 2 ^ 64)
    (hh : h.all isHexDigit = true) :
    longDescribe (r ++ [45] ++ natDec g ++ [45, 103] ++ h) = some (h, .anchor r g) := by
  obtain ⟨hne, hdig, _⟩ := natDec_spec g
  have hsplit : splitOn 45 (r ++ [45] ++ natDec g ++ [45, 103] ++ h)
      = splitOn 45 r ++ [natDec g, 103 :: h] := by
    have e : r ++ [45] ++ natDec g ++ [45, 103] ++ h = r ++ 45 :: (natDec g ++ 45 :: (103 :: h)) := by
      simp
    have hgh : ∀ b ∈ (103 :: h : Bytes), b ≠ 45 := by
      intro b hb
      simp only [List.mem_cons] at hb
      rcases hb with rfl | hb
      · decide
      · exact hex_ne_dash hh b hb
    rw [e, splitOn_append, splitOn_append, splitOn_free 45 (natDec g) (digit_ne_dash hdig),
      splitOn_free 45 (103 :: h) hgh]
    rfl
  unfold longDescribe
  rw [hsplit]
  simp only [List.reverse_append, List.reverse_cons, List.reverse_nil, List.nil_append, List.cons_append]
  have hG : isGHex (103 :: h) = some h := by simp [isGHex, hh]
  simp only [findG, hG]
  have hany : (natDec g :: (splitOn 45 r).reverse).any (fun t => !t.isEmpty) = true := by
    cases hd : natDec g with
    | nil => exact absurd hd hne
    | cons _ _ => simp
  simp only [hany, if_true]
  cases hrev : (splitOn 45 r).reverse with
  | nil =>
    have : splitOn 45 r = [] := by simpa using hrev
    exact absurd this (splitOn_ne_nil 45 r)
  | cons tok more =>
    simp only [parseUsize_natDec g hg]
    have : more.reverse ++ [tok] = splitOn 45 r := by
      have := congrArg List.reverse hrev
      simpa using this.symm
    rw [this, joinWith_splitOn]

theorem nameHex_none : ∀ (l : Bytes), nameHex none l = none := by
  intro l
  induction l with
  | nil => rfl
  | cons b l ih => simp [nameHex, hexStep, ih]

theorem nameHex_dash : ∀ (a : Bytes) (hex : Option Nat) (b : Bytes), nameHex hex (a ++ 45 :: b) = none := by
  intro a
  induction a with
  | nil =>
    intro hex b
    have : hexStep hex 45 = none := by
      cases hex <;> simp [hexStep, isHexDigit] <;> decide
    simp [nameHex, this, nameHex_none]
  | cons c a ih => intro hex b; simp [nameHex, ih]

theorem nameOk_append : ∀ (a b : Bytes), nameOk a = true → nameOk b = true → nameOk (a ++ b) = true := by
  intro a
  induction a with
  | nil => intro b _ hb; simpa using hb
  | cons c a ih =>
    intro b ha hb
    simp only [nameOk, Bool.and_eq_true] at ha
    obtain ⟨⟨h1, h2⟩, h3⟩ := ha
    simp only [List.cons_append, nameOk, Bool.and_eq_true]
    refine ⟨⟨h1, ?_⟩, ih b h3 hb⟩
    cases a with
    | nil =>
      -- then `c` is not '.', since a '.' needs a successor inside `a`
      simp only [Bool.or_eq_true, bne_iff_ne, ne_eq] at h2
      rcases h2 with h2 | h2
      · simp [h2]
      · simp at h2
    | cons d a => simpa using h2

theorem revision_describe (dateOk : Bytes → Bool) (r : Bytes) (g : Nat) (h : Bytes)
    (ha : (Anchor.describe r g h).Wf dateOk) (tail : Bytes)
    (hs : SepStart tail) (ho : okNext tail = true) (s : St) (k : St → Bytes → Res) :
    revision allYes dateOk s ((Anchor.describe r g h).print ++ tail) k =
      navigate allYes (tail.length + 1) (s.pushAll (Anchor.describe r g h).calls) tail k := by
  obtain ⟨hrne, hrok, hg, hh⟩ := ha
  obtain ⟨_, hdig, _⟩ := natDec_spec g
  have hhexdig : (natDec g).all isHexDigit = true := by
    rw [List.all_eq_true] at hdig ⊢
    intro b hb
    have := isDigit_range b (hdig b hb)
    simp only [isHexDigit, Bool.or_eq_true, Bool.and_eq_true, decide_eq_true_eq, UInt8.le_iff_toNat_le]
    left; left
    have h48 : (48 : UInt8).toNat = 48 := rfl
    have h57 : (57 : UInt8).toNat = 57 := rfl
    omega
  have hname_ok : nameOk (r ++ [45] ++ natDec g ++ [45, 103] ++ h) = true := by
    apply nameOk_append
    · apply nameOk_append
      · apply nameOk_append
        · exact nameOk_append _ _ hrok (by decide)
        · exact hex_nameOk _ hhexdig
      · decide
    · exact hex_nameOk _ hh.2.2
  have hname_hex : nameHex (some 0) (r ++ [45] ++ natDec g ++ [45, 103] ++ h) = none := by
    have e : r ++ [45] ++ natDec g ++ [45, 103] ++ h = r ++ 45 :: (natDec g ++ [45, 103] ++ h) := by simp
    rw [e, nameHex_dash]
  have hemp : (r ++ [45] ++ natDec g ++ [45, 103] ++ h).isEmpty = false := by
    cases r with
    | nil => exact absurd rfl hrne
    | cons _ _ => rfl
  have hhead : (r ++ [45] ++ natDec g ++ [45, 103] ++ h ++ tail).head? ≠ some 58 := by
    cases r with
    | nil => exact absurd rfl hrne
    | cons c r' =>
      simp only [nameOk, Bool.and_eq_true] at hrok
      have := hrok.1.1
      simp only [nameByte, Bool.not_eq_eq_eq_not, Bool.not_true, Bool.or_eq_false_iff,
        beq_eq_false_iff_ne, ne_eq] at this
      simpa using this.1.2
  obtain ⟨h64, _⟩ : tail.head? ≠ some 64 ∧ True := by
    rcases okNext_cases ho with rfl | ⟨c, r', rfl, hc⟩
    · simp
    · rcases hc with rfl | rfl | rfl | rfl <;> simp
  simp only [Anchor.print, Anchor.calls, pushAll_cons, pushAll_nil]
  rw [revision_main _ _ _ _ _ hhead, scan_name _ hname_ok true (some 0) [] _ hs]
  unfold revisionMain
  simp only [List.reverse_nil, List.nil_append, hemp, Bool.false_and, Bool.false_eq_true, if_false,
    hname_hex]
  have hchain : nameChain allYes s (r ++ [45] ++ natDec g ++ [45, 103] ++ h) none
      = (s.push (.prefix (h.map lower) (.anchor r g)), .ok false) := by
    unfold nameChain
    have hlt : ¬ ((none : Option Nat).getD 0 ≥ 4) := by simp
    simp only [hlt, if_false]
    unfold describeStep
    have : describeCand (r ++ [45] ++ natDec g ++ [45, 103] ++ h) = some (h, .anchor r g) := by
      unfold describeCand
      rw [longDescribe_print r g h hg hh.2.2]
    rw [this]
    simp only
    rw [trySetPrefix_allYes s h _ hh]
    simp [hemp]
  rw [hchain]
  exact afterName_plain _ _ _ _ _ _ _ h64 (Or.inl rfl)

end GixModel.C48
