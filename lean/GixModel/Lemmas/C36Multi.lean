import GixModel.Lemmas.C36
/-
C36 — lemmas for patterns with any number of single stars: what git's ABORT_ALL means (no suffix of
the text matches), text-independence of what a bracket expression consumes, and the relation of
the two matchers when gitoxide answers NoMatch where git answers ABORT_ALL.
-/
namespace GixModel.C36
open GixModel GixModel.Spec.C36

/-! ### the bytes a bracket expression consumes do not depend on the text byte -/

theorem classTest_isNone (f : Flags) (name : Bytes) (a b : UInt8) :
    (Spec.C36.classTest f name a).isNone = (Spec.C36.classTest f name b).isNone := by
  unfold Spec.C36.classTest
  simp only [apply_ite Option.isNone, Option.isNone_some, Option.isNone_none]

/-- forget `matched` -/
def stepShape : Option (UInt8 × Bytes × Bool) → Option (UInt8 × Bytes)
  | none => none
  | some (a, b, _) => some (a, b)

theorem spec_bracketStep_indep (f : Flags) (tch tch' pch : UInt8) (rest : Bytes) (prev : UInt8) (m m' : Bool) :
    stepShape (Spec.C36.bracketStep f tch pch rest prev m) = stepShape (Spec.C36.bracketStep f tch' pch rest prev m') := by
  unfold Spec.C36.bracketStep
  by_cases h92 : (pch == 92) = true
  · simp only [h92, if_true]
    by_cases hz : (hd rest == 0) = true <;> simp [hz, stepShape]
  · simp only [h92, Bool.false_eq_true, if_false]
    by_cases hr : (pch == 45 && prev != 0 && hd rest != 0 && hd rest != 93) = true
    · simp only [hr, if_true]
      by_cases he : (hd rest == 92) = true
      · simp only [he, if_true]
        by_cases hz : (hd rest.tail == 0) = true <;> simp [hz, stepShape]
      · simp [he, stepShape]
    · simp only [hr, Bool.false_eq_true, if_false]
      by_cases hc : (pch == 91 && hd rest == 58) = true
      · simp only [hc, if_true]
        by_cases hz : (hd (List.dropWhile (fun c => c != 0 && c != 93) rest.tail) == 0) = true
        · simp [hz, stepShape]
        · simp only [hz, Bool.false_eq_true, if_false]
          split
          · simp [stepShape]
          · have := classTest_isNone f (List.takeWhile (fun c => c != 0 && c != 93) rest.tail).dropLast tch tch'
            cases h1 : Spec.C36.classTest f (List.takeWhile (fun c => c != 0 && c != 93) rest.tail).dropLast tch <;>
              cases h2 : Spec.C36.classTest f (List.takeWhile (fun c => c != 0 && c != 93) rest.tail).dropLast tch' <;>
              simp [h1, h2, stepShape] at this ⊢
      · simp [hc, stepShape]


/-- forget `matched` -/
def brShape : Spec.C36.BrRes → Spec.C36.BrRes
  | .done _ r => .done false r
  | x => x

theorem spec_bracketLoop_indep (f : Flags) (tch tch' : UInt8) :
    ∀ (n : Nat) (pch : UInt8) (rest : Bytes) (prev : UInt8) (m m' : Bool),
      brShape (Spec.C36.bracketLoop f tch n pch rest prev m) = brShape (Spec.C36.bracketLoop f tch' n pch rest prev m') := by
  intro n
  induction n with
  | zero => intro pch rest prev m m'; unfold Spec.C36.bracketLoop; split <;> rfl
  | succ n ih =>
    intro pch rest prev m m'
    unfold Spec.C36.bracketLoop
    split
    · rfl
    · simp only
      have hs := spec_bracketStep_indep f tch tch' pch rest prev m m'
      cases h1 : Spec.C36.bracketStep f tch pch rest prev m with
      | none =>
        cases h2 : Spec.C36.bracketStep f tch' pch rest prev m' with
        | none => rfl
        | some y => rw [h1, h2] at hs; obtain ⟨a, b, c⟩ := y; simp [stepShape] at hs
      | some x =>
        cases h2 : Spec.C36.bracketStep f tch' pch rest prev m' with
        | none => rw [h1, h2] at hs; obtain ⟨a, b, c⟩ := x; simp [stepShape] at hs
        | some y =>
          obtain ⟨a, b, c⟩ := x
          obtain ⟨a', b', c'⟩ := y
          rw [h1, h2] at hs
          simp [stepShape] at hs
          obtain ⟨e1, e2⟩ := hs
          subst e1 e2
          simp only
          split
          · rfl
          · exact ih _ _ _ _ _

theorem spec_bracket_indep (f : Flags) (tch tch' : UInt8) (n : Nat) (rest : Bytes) :
    brShape (Spec.C36.bracket f tch n rest) = brShape (Spec.C36.bracket f tch' n rest) := by
  unfold Spec.C36.bracket
  by_cases hneg : ((if (hd rest == 94) = true then (33 : UInt8) else hd rest) == 33) = true
  · simp only [hneg, if_true]
    have h := spec_bracketLoop_indep f tch tch' n (hd rest.tail) rest.tail.tail 0 false false
    revert h
    cases Spec.C36.bracketLoop f tch n (hd rest.tail) rest.tail.tail 0 false <;>
      cases Spec.C36.bracketLoop f tch' n (hd rest.tail) rest.tail.tail 0 false <;>
      simp [brShape]
  · simp only [hneg, Bool.false_eq_true, if_false]
    have h := spec_bracketLoop_indep f tch tch' n (if (hd rest == 94) = true then 33 else hd rest) rest.tail 0 false false
    revert h
    cases Spec.C36.bracketLoop f tch n (if (hd rest == 94) = true then 33 else hd rest) rest.tail 0 false <;>
      cases Spec.C36.bracketLoop f tch' n (if (hd rest == 94) = true then 33 else hd rest) rest.tail 0 false <;>
      simp [brShape]


/-! ### what a bracket expression leaves is a suffix of what it was given -/

theorem dropWhile_is_drop (p : UInt8 → Bool) (l : Bytes) : ∃ k, l.dropWhile p = l.drop k := by
  induction l with
  | nil => exact ⟨0, rfl⟩
  | cons a r ih =>
    simp only [List.dropWhile_cons]
    split
    · obtain ⟨k, hk⟩ := ih; exact ⟨k + 1, by simpa using hk⟩
    · exact ⟨0, rfl⟩

theorem tail_is_drop (l : Bytes) : l.tail = l.drop 1 := by cases l <;> rfl

theorem spec_bracketStep_suffix (f : Flags) (tch pch : UInt8) (rest : Bytes) (prev : UInt8) (matched : Bool)
    (pch' : UInt8) (rest' : Bytes) (m' : Bool)
    (h : Spec.C36.bracketStep f tch pch rest prev matched = some (pch', rest', m')) :
    ∃ k, rest' = rest.drop k := by
  unfold Spec.C36.bracketStep at h
  by_cases h92 : (pch == 92) = true
  · simp only [h92, if_true] at h
    by_cases hz : (hd rest == 0) = true
    · simp [hz] at h
    · simp only [hz, Bool.false_eq_true, if_false, Option.some.injEq, Prod.mk.injEq] at h
      exact ⟨_, by rw [← h.2.1, tail_is_drop]⟩
  · simp only [h92, Bool.false_eq_true, if_false] at h
    by_cases hr : (pch == 45 && prev != 0 && hd rest != 0 && hd rest != 93) = true
    · simp only [hr, if_true] at h
      by_cases he : (hd rest == 92) = true
      · simp only [he, if_true] at h
        by_cases hz : (hd rest.tail == 0) = true
        · simp [hz] at h
        · simp only [hz, Bool.false_eq_true, if_false, Option.some.injEq, Prod.mk.injEq] at h
          exact ⟨_, by rw [← h.2.1, tail_is_drop, tail_is_drop, List.drop_drop]⟩
      · simp only [he, Bool.false_eq_true, if_false, Option.some.injEq, Prod.mk.injEq] at h
        exact ⟨_, by rw [← h.2.1, tail_is_drop]⟩
    · simp only [hr, Bool.false_eq_true, if_false] at h
      by_cases hc : (pch == 91 && hd rest == 58) = true
      · simp only [hc, if_true] at h
        by_cases hz : (hd (List.dropWhile (fun c => c != 0 && c != 93) rest.tail) == 0) = true
        · simp [hz] at h
        · simp only [hz, Bool.false_eq_true, if_false] at h
          split at h
          · simp only [Option.some.injEq, Prod.mk.injEq] at h
            exact ⟨0, by rw [← h.2.1]; rfl⟩
          · split at h
            · cases h
            · simp only [Option.some.injEq, Prod.mk.injEq] at h
              obtain ⟨k, hk⟩ := dropWhile_is_drop (fun c => c != 0 && c != 93) rest.tail
              exact ⟨_, by rw [← h.2.1, hk, tail_is_drop, tail_is_drop, List.drop_drop, List.drop_drop]⟩
      · simp only [hc, Bool.false_eq_true, if_false, Option.some.injEq, Prod.mk.injEq] at h
        exact ⟨0, by rw [← h.2.1]; rfl⟩

theorem spec_bracketLoop_suffix (f : Flags) (tch : UInt8) :
    ∀ (n : Nat) (pch : UInt8) (rest : Bytes) (prev : UInt8) (matched b : Bool) (r : Bytes),
      Spec.C36.bracketLoop f tch n pch rest prev matched = .done b r → ∃ k, r = rest.drop k := by
  intro n
  induction n with
  | zero =>
    intro pch rest prev matched b r h
    unfold Spec.C36.bracketLoop at h
    split at h <;> simp at h
  | succ n ih =>
    intro pch rest prev matched b r h
    unfold Spec.C36.bracketLoop at h
    split at h
    · cases h
    · simp only at h
      split at h
      · cases h
      · rename_i pch' rest' m' hs
        obtain ⟨k, hk⟩ := spec_bracketStep_suffix f tch pch rest prev matched pch' rest' m' hs
        split at h
        · injection h with h1 h2
          exact ⟨_, by rw [← h2, hk, tail_is_drop, List.drop_drop]⟩
        · obtain ⟨k2, hk2⟩ := ih _ _ _ _ _ _ h
          exact ⟨_, by rw [hk2, hk, tail_is_drop, List.drop_drop, List.drop_drop]⟩

theorem spec_bracket_suffix (f : Flags) (tch : UInt8) (fuel : Nat) (rest : Bytes) (b : Bool) (r : Bytes)
    (h : Spec.C36.bracket f tch fuel rest = .done b r) : ∃ k, r = rest.drop k := by
  unfold Spec.C36.bracket at h
  by_cases hneg : ((if (hd rest == 94) = true then (33 : UInt8) else hd rest) == 33) = true
  · simp only [hneg, if_true] at h
    split at h
    · rename_i m r' hl
      injection h with h1 h2
      obtain ⟨k, hk⟩ := spec_bracketLoop_suffix f tch _ _ _ _ _ _ _ hl
      exact ⟨_, by rw [← h2, hk, tail_is_drop, tail_is_drop, List.drop_drop, List.drop_drop]⟩
    · rename_i hne; exact absurd h (by intro e; exact hne _ _ e)
  · simp only [hneg, Bool.false_eq_true, if_false] at h
    split at h
    · rename_i m r' hl
      injection h with h1 h2
      obtain ⟨k, hk⟩ := spec_bracketLoop_suffix f tch _ _ _ _ _ _ _ hl
      exact ⟨_, by rw [← h2, hk, tail_is_drop, List.drop_drop]⟩
    · rename_i hne; exact absurd h (by intro e; exact hne _ _ e)



/-! ### git's star loop: soundness of Match and of ABORT_ALL -/

theorem spec_scanLit_drop (f : Flags) (ms : Bool) (pch : UInt8) (text : Bytes) :
    ∃ j, (Spec.C36.scanLit f ms pch text).2 = text.drop j := by
  induction text with
  | nil => exact ⟨0, rfl⟩
  | cons c r ih =>
    unfold Spec.C36.scanLit
    split
    · exact ⟨0, rfl⟩
    · split
      · exact ⟨0, rfl⟩
      · split
        · exact ⟨0, rfl⟩
        · obtain ⟨j, hj⟩ := ih; exact ⟨j + 1, by simpa using hj⟩

/-- a `Match` of git's star loop comes from one of its recursive calls, on a suffix of the text -/
theorem spec_starLoop_sound (f : Flags) (rec : Bytes → Wm) (p : Bytes) (ms : Bool) :
    ∀ (n : Nat) (tch : UInt8) (text : Bytes),
      Spec.C36.starLoop f rec p ms n tch text = .matched → ∃ j, rec (text.drop j) = .matched := by
  intro n
  induction n with
  | zero => intro tch text h; simp [Spec.C36.starLoop] at h
  | succ n ih =>
    intro tch text h
    unfold Spec.C36.starLoop at h
    split at h
    · cases h
    · simp only at h
      split at h
      · cases h
      · rename_i tch' text' hsc
        have htext' : ∃ j, text' = text.drop j := by
          split at hsc
          · obtain ⟨j, hj⟩ := spec_scanLit_drop f ms (Spec.C36.fold f (hd p)) text
            split at hsc
            · cases hsc
            · simp only [Option.some.injEq, Prod.mk.injEq] at hsc
              exact ⟨j, by rw [← hsc.2, ← hj]⟩
          · simp only [Option.some.injEq, Prod.mk.injEq] at hsc
            exact ⟨0, by rw [← hsc.2]; rfl⟩
        obtain ⟨j0, hj0⟩ := htext'
        split at h
        · exact ⟨j0, by rw [← hj0]; exact h⟩
        · split at h
          · cases h
          · obtain ⟨j, hj⟩ := ih _ _ h
            exact ⟨_, by rw [← hj, hj0, tail_is_drop, List.drop_drop, List.drop_drop]⟩


theorem sl_fuel0 (f : Flags) (rec : Bytes → Wm) (p : Bytes) (ms : Bool) (tch : UInt8) (text : Bytes) :
    Spec.C36.starLoop f rec p ms 0 tch text = .fuelOut := by
  unfold Spec.C36.starLoop; rfl

/-- ABORT_ALL of the loop behind a star means: no suffix of the text is matched by that loop —
provided the same holds for the recursive calls. -/
theorem spec_starLoop_abort (f : Flags) (rec : Bytes → Wm) (p : Bytes) (ms : Bool)
    (hp0 : Spec.C36.fold f (hd p) ≠ 0) :
    ∀ (text : Bytes), (∀ c ∈ text, c ≠ 0) → ∀ (n : Nat) (tch : UInt8), (tch = 0 ↔ text = []) →
      Spec.C36.starLoop f rec p ms n tch text = .abortAll →
      (∀ j, rec (text.drop j) = .abortAll → ∀ i, rec (text.drop (j + i)) ≠ .matched) →
      ∀ (k n' : Nat) (tch' : UInt8), (tch' = 0 ↔ text.drop k = []) →
        Spec.C36.starLoop f rec p ms n' tch' (text.drop k) ≠ .matched := by
  intro text
  induction text with
  | nil =>
    intro _ n tch _ _ _ k n' tch' hc'
    have : tch' = 0 := hc'.mpr (by simp)
    subst this
    cases n' with
    | zero => rw [List.drop_nil, sl_fuel0]; simp
    | succ n' => rw [List.drop_nil, sl_zero]; simp
  | cons c0 tr ih =>
    intro hnn n tch hc hAA hrec k n' tch' hc'
    have hc0 : c0 ≠ 0 := hnn c0 (by simp)
    have htr_nn : ∀ c ∈ tr, c ≠ 0 := fun x hx => hnn x (by simp [hx])
    have htch0 : tch ≠ 0 := fun h => by have := hc.mp h; cases this
    have hrec_tr : ∀ j, rec (tr.drop j) = .abortAll → ∀ i, rec (tr.drop (j + i)) ≠ .matched := by
      intro j hj i
      have := hrec (j + 1) (by simpa using hj) i
      simpa [Nat.add_right_comm] using this
    have hcons_tr : (hd tr = 0 ↔ tr = []) := by
      cases tr with
      | nil => simp [hd]
      | cons a b => simp [hd]; exact htr_nn a (by simp)
    -- the conclusion for suffixes of `tr`, once the loop on `tr` is known to abort
    have tail_case : ∀ (n1 : Nat) (t1 : UInt8), (t1 = 0 ↔ tr = []) →
        Spec.C36.starLoop f rec p ms n1 t1 tr = .abortAll →
        ∀ (k : Nat) (n' : Nat) (tch' : UInt8), (tch' = 0 ↔ tr.drop k = []) →
          Spec.C36.starLoop f rec p ms n' tch' (tr.drop k) ≠ .matched :=
      fun n1 t1 h1 h2 => ih htr_nn n1 t1 h1 h2 hrec_tr
    -- case A: the recursive call at this position aborts
    have caseA : rec (c0 :: tr) = .abortAll →
        Spec.C36.starLoop f rec p ms n' tch' ((c0 :: tr).drop k) ≠ .matched := by
      intro hr hm
      obtain ⟨j, hj⟩ := spec_starLoop_sound f rec p ms n' tch' _ hm
      rw [List.drop_drop] at hj
      exact hrec 0 (by simpa using hr) (k + j) (by simpa using hj)
    cases n with
    | zero => rw [sl_fuel0] at hAA; cases hAA
    | succ n0 =>
    -- one pass of the loop at this position, for the text and for its suffix `k = 0`
    have pass : ∀ (tpOf : UInt8 → UInt8) (hpass : ∀ (nn : Nat) (tt : UInt8), tt ≠ 0 →
          Spec.C36.starLoop f rec p ms (nn + 1) tt (c0 :: tr) =
            (let r := rec (c0 :: tr)
             if r != .noMatch && (!ms || r != .abortToStarStar) then r
             else if r == .noMatch && !ms && tpOf tt == 47 then .abortToStarStar
             else Spec.C36.starLoop f rec p ms nn (hd tr) tr)),
        Spec.C36.starLoop f rec p ms n' tch' ((c0 :: tr).drop k) ≠ .matched := by
      intro tpOf hpass
      rw [hpass n0 tch htch0] at hAA
      simp only at hAA
      by_cases h1 : (rec (c0 :: tr) != .noMatch && (!ms || rec (c0 :: tr) != .abortToStarStar)) = true
      · rw [if_pos h1] at hAA
        exact caseA hAA
      · rw [if_neg h1] at hAA
        by_cases h2 : (rec (c0 :: tr) == .noMatch && !ms && tpOf tch == 47) = true
        · rw [if_pos h2] at hAA; cases hAA
        · rw [if_neg h2] at hAA
          cases k with
          | zero =>
            have htch'0 : tch' ≠ 0 := fun h => by have := hc'.mp h; simp at this
            cases n' with
            | zero => rw [List.drop_zero, sl_fuel0]; simp
            | succ n'' =>
              rw [List.drop_zero, hpass n'' tch' htch'0]
              simp only [h1, if_false, Bool.false_eq_true]
              by_cases h3 : (rec (c0 :: tr) == .noMatch && !ms && tpOf tch' == 47) = true
              · rw [if_pos h3]; simp
              · rw [if_neg h3]
                have := tail_case n0 (hd tr) hcons_tr hAA 0 n'' (hd tr) (by simpa using hcons_tr)
                simpa using this
          | succ k' =>
            have := tail_case n0 (hd tr) hcons_tr hAA k' n' tch' (by simpa using hc')
            simpa using this
    by_cases hg : isGlobSpecial (hd p) = true
    · exact pass id (fun nn tt ht => by
        rw [sl_pass f rec p ms nn tt tt (c0 :: tr) ht (Or.inl ⟨hg, rfl⟩)]
        rfl)
    · simp only [Bool.not_eq_true] at hg
      by_cases hstop : ms = false ∧ c0 = 47
      · -- the scan stops at a slash
        obtain ⟨hms, hc47⟩ := hstop
        subst hms hc47
        by_cases heq : Spec.C36.fold f (hd p) = 47
        · -- … which is what is looked for
          have hf47 : Spec.C36.fold f 47 = 47 := by
            unfold Spec.C36.fold Spec.C36.isUpper; simp
          exact pass (fun _ => Spec.C36.fold f (hd p)) (fun nn tt ht => by
            rw [sl_pass f rec p false nn tt (Spec.C36.fold f (hd p)) (47 :: tr) ht
              (Or.inr ⟨hg, by
                unfold Spec.C36.scanLit
                simp [heq], rfl⟩)]
            rfl)
        · rw [sl_stop_slash f rec p n0 tch tr hg htch0 heq] at hAA
          cases hAA
      · by_cases heq : Spec.C36.fold f c0 = Spec.C36.fold f (hd p)
        · exact pass (fun _ => Spec.C36.fold f (hd p)) (fun nn tt ht => by
            rw [sl_pass f rec p ms nn tt (Spec.C36.fold f (hd p)) (c0 :: tr) ht
              (Or.inr ⟨hg, scanLit_hit_spec f ms c0 tr _ hc0 hstop heq, rfl⟩)]
            rfl)
        · -- this position is skipped
          cases tr with
          | nil =>
            rw [sl_end f rec p ms n0 tch c0 hg htch0 hc0 hp0 hstop heq] at hAA
            cases hAA
          | cons c1 tr' =>
            have hc1 : c1 ≠ 0 := hnn c1 (by simp)
            rw [sl_skip f rec p ms n0 tch c1 c0 (c1 :: tr') hg htch0 hc1 hc0 hstop heq] at hAA
            cases k with
            | zero =>
              have htch'0 : tch' ≠ 0 := fun h => by have := hc'.mp h; simp at this
              cases n' with
              | zero => rw [List.drop_zero, sl_fuel0]; simp
              | succ n'' =>
                rw [List.drop_zero, sl_skip f rec p ms n'' tch' c1 c0 (c1 :: tr') hg htch'0 hc1 hc0 hstop heq]
                have := tail_case (n0 + 1) c1 (by simp [hc1]) hAA 0 (n'' + 1) c1 (by simp [hc1])
                simpa using this
            | succ k' =>
              have := tail_case (n0 + 1) c1 (by simp [hc1]) hAA k' n' tch' (by simpa using hc')
              simpa using this



/-! ### ABORT_ALL is sound for patterns without `**` -/

/-- no `**`: no two adjacent star bytes -/
def noDS : Bytes → Bool
  | 42 :: 42 :: _ => false
  | _ :: r => noDS r
  | [] => true

theorem noDS_tail {c : UInt8} {r : Bytes} (h : noDS (c :: r) = true) : noDS r = true := by
  cases r with
  | nil => rfl
  | cons a b =>
    unfold noDS at h
    split at h
    · cases h
    · rename_i heq; simp at heq; rw [heq.2]; exact h
    · rename_i heq; cases heq

theorem noDS_drop {p : Bytes} (h : noDS p = true) : ∀ k, noDS (p.drop k) = true := by
  intro k
  induction k generalizing p with
  | zero => simpa using h
  | succ k ih =>
    cases p with
    | nil => rfl
    | cons a r => simpa using ih (noDS_tail h)

theorem noDS_star_next {c1 : UInt8} {r : Bytes} (h : noDS (42 :: c1 :: r) = true) : c1 ≠ 42 := by
  intro e; subst e; simp [noDS] at h

theorem findSlash_drop_mono : ∀ (t : Bytes) (k d' : Nat), findSlash (t.drop k) = some d' →
    ∃ d, findSlash t = some d ∧ d ≤ k + d' := by
  intro t
  induction t with
  | nil => intro k d' h; simp [findSlash] at h
  | cons c r ih =>
    intro k d' h
    by_cases hc : c = 47
    · exact ⟨0, by simp [findSlash, SLASH, hc], by omega⟩
    · cases k with
      | zero => exact ⟨d', by simpa using h, by omega⟩
      | succ k' =>
        obtain ⟨d, h1, h2⟩ := ih k' d' (by simpa using h)
        exact ⟨d + 1, by simp [findSlash, SLASH, hc, h1], by omega⟩

theorem findSlash_of_strchr_none {l : Bytes} (h : strchrSlash l = none) : findSlash l = none := by
  cases hf : findSlash l with
  | none => rfl
  | some d => rw [(findSlash_some hf).1] at h; cases h

/-- the first slash of a suffix lies behind the first slash of the text -/
theorem strchr_drop (t : Bytes) (k : Nat) :
    strchrSlash (t.drop k) = none ∨
      ∃ s s' j, strchrSlash t = some s ∧ strchrSlash (t.drop k) = some s' ∧ s'.tail = s.tail.drop j := by
  cases hf : findSlash (t.drop k) with
  | none => left; exact findSlash_none hf
  | some d' =>
    right
    obtain ⟨d, h1, h2⟩ := findSlash_drop_mono t k d' hf
    refine ⟨t.drop d, (t.drop k).drop d', k + d' - d, (findSlash_some h1).1, (findSlash_some hf).1, ?_⟩
    rw [tail_is_drop, tail_is_drop, List.drop_drop, List.drop_drop, List.drop_drop, List.drop_drop]
    congr 1
    omega


theorem fold_ne0 (m : Mode) {c : UInt8} (h : c ≠ 0) : Spec.C36.fold (flagsOf m) c ≠ 0 := by
  rw [fold_eq_lc]; exact fun e => h ((lc_special m c).2.2.2.2.2.1.mp e)

theorem fold_hd_zero_iff (m : Mode) {t : Bytes} (hnn : ∀ c ∈ t, c ≠ 0) :
    (Spec.C36.fold (flagsOf m) (hd t) = 0 ↔ t = []) := by
  cases t with
  | nil =>
    simp only [hd, List.headD_nil, iff_true]
    rw [fold_eq_lc]; exact (lc_special m 0).2.2.2.2.2.1.mpr rfl
  | cons a b =>
    simp only [hd, List.headD_cons]
    constructor
    · intro h; exact absurd h (fold_ne0 m (hnn a (by simp)))
    · intro h; cases h

theorem brShape_abort {a b : Spec.C36.BrRes} (h : brShape a = brShape b) (ha : a = .abort) : b = .abort := by
  subst ha; cases b <;> simp [brShape] at h ⊢

theorem brShape_done {a b : Spec.C36.BrRes} {ok : Bool} {r : Bytes} (h : brShape a = brShape b) (ha : a = .done ok r) :
    ∃ ok', b = .done ok' r := by
  subst ha
  cases b with
  | abort => simp [brShape] at h
  | fuel => simp [brShape] at h
  | done ok' r' => simp [brShape] at h; exact ⟨ok', by rw [h]⟩

/-- What git's ABORT_ALL means for patterns without `**`: if `dowild(p, t)` aborts, then `p` matches
no suffix of `t` either — so a loop further out loses nothing by giving up. -/
theorem dowild_abort_sound (m : Mode) :
    ∀ (n : Nat) (prev : Option UInt8) (p t : Bytes), noDS p = true → (∀ c ∈ p, c ≠ 0) → (∀ c ∈ t, c ≠ 0) →
      dowild (flagsOf m) n prev p t = .abortAll →
      ∀ k, dowild (flagsOf m) n prev p (t.drop k) ≠ .matched := by
  intro n
  induction n with
  | zero => intro prev p t _ _ _ h; simp [dowild] at h
  | succ n ih =>
    intro prev p t hds hpn htn hAA k
    have hun : ∀ c ∈ t.drop k, c ≠ 0 := fun c hc => htn c (List.mem_of_mem_drop hc)
    cases p with
    | nil =>
      rw [dw_nil (by intro h; exact htn 0 h rfl)] at hAA
      split at hAA <;> cases hAA
    | cons c rest =>
      have hc0 : c ≠ 0 := hpn c (by simp)
      have hrn : ∀ x ∈ rest, x ≠ 0 := fun x hx => hpn x (by simp [hx])
      have hrds := noDS_tail hds
      obtain ⟨s42, s92, s63, s91, s47, s0, s93⟩ := lc_special m c
      by_cases h42 : c = 42
      · -- a star
        subst h42
        cases rest with
        | nil =>
          rw [dw_star_end] at hAA
          split at hAA <;> cases hAA
        | cons c1 r' =>
          have hc1 : c1 ≠ 42 := noDS_star_next hds
          have hc10 : c1 ≠ 0 := hrn c1 (by simp)
          rw [dw_star1 hc10 hc1] at hAA ⊢
          by_cases hj : ((flagsOf m).pathname && c1 == 47) = true
          · simp only [hj, if_true] at hAA ⊢
            cases hs : strchrSlash t with
            | none => rw [hs] at hAA; cases hAA
            | some s =>
              rw [hs] at hAA
              simp only at hAA
              rcases strchr_drop t k with h0 | ⟨s1, s', j, h1, h2, h3⟩
              · rw [h0]; simp
              · rw [hs] at h1; cases h1
                rw [h2]
                simp only
                rw [h3]
                have hsn : ∀ c ∈ s.tail, c ≠ 0 := by
                  intro c hc
                  obtain ⟨d, hd1⟩ : ∃ d, s = t.drop d := by
                    cases hf : findSlash t with
                    | none => rw [findSlash_none hf] at hs; cases hs
                    | some d => exact ⟨d, by have := (findSlash_some hf).1; rw [hs] at this; cases this; rfl⟩
                  rw [hd1, tail_is_drop, List.drop_drop] at hc
                  exact htn c (List.mem_of_mem_drop hc)
                exact ih (some 47) r' s.tail (noDS_tail hrds) (fun x hx => hrn x (by simp [hx])) hsn hAA j
          · simp only [hj, Bool.false_eq_true, if_false] at hAA ⊢
            have hrec : ∀ j, dowild (flagsOf m) n none (c1 :: r') (t.drop j) = .abortAll →
                ∀ i, dowild (flagsOf m) n none (c1 :: r') (t.drop (j + i)) ≠ .matched := by
              intro j hj' i
              have := ih none (c1 :: r') (t.drop j) hrds hrn
                (fun c hc => htn c (List.mem_of_mem_drop hc)) hj' i
              rwa [List.drop_drop] at this
            exact spec_starLoop_abort (flagsOf m) (fun tx => dowild (flagsOf m) n none (c1 :: r') tx) (c1 :: r')
              (!(flagsOf m).pathname) (by simpa [hd] using fold_ne0 m hc10) t htn (t.length + 1)
              (Spec.C36.fold (flagsOf m) (hd t)) (fold_hd_zero_iff m htn) hAA hrec k
              ((t.drop k).length + 1) (Spec.C36.fold (flagsOf m) (hd (t.drop k))) (fold_hd_zero_iff m hun)
      · -- not a star: one text byte is consumed (or the text is exhausted)
        have hc42 : c ≠ 42 := h42
        -- the suffix `t.drop k` is empty, is `t` itself, or starts further down
        cases hu : t.drop k with
        | nil => rw [dw_abort hc0 hc42]; simp
        | cons uc ur =>
          have huc0 : uc ≠ 0 := by rw [hu] at hun; exact hun uc (by simp)
          have hurdrop : ∃ k', t = [] ∨ ur = t.tail.drop k' := by
            cases k with
            | zero => exact ⟨0, Or.inr (by simp at hu; rw [hu]; simp)⟩
            | succ k' =>
              cases t with
              | nil => simp at hu
              | cons tc tr =>
                exact ⟨k' + 1, Or.inr (by
                  simp at hu
                  have := congrArg List.tail hu
                  simp [List.tail_drop] at this
                  simpa using this.symm)⟩
          cases t with
          | nil => simp at hu
          | cons tc tr =>
            have htc0 : tc ≠ 0 := htn tc (by simp)
            have htrn : ∀ c ∈ tr, c ≠ 0 := fun x hx => htn x (by simp [hx])
            obtain ⟨k', hk'⟩ := hurdrop
            have hur : ur = tr.drop k' := by
              rcases hk' with h | h
              · cases h
              · simpa using h
            by_cases h92 : c = 92
            · subst h92
              rw [dw_esc hc0 htc0 (by rw [fold_eq_lc, s92])] at hAA
              rw [dw_esc hc0 huc0 (by rw [fold_eq_lc, s92])]
              split at hAA
              · cases hAA
              · split
                · simp
                · rw [hur]
                  exact ih _ _ _ (by rw [tail_is_drop]; exact noDS_drop hrds 1) (fun x hx => hrn x (List.mem_of_mem_tail hx)) htrn hAA k'
            · by_cases h63 : c = 63
              · subst h63
                rw [dw_qm hc0 htc0 (by rw [fold_eq_lc, s63])] at hAA
                rw [dw_qm hc0 huc0 (by rw [fold_eq_lc, s63])]
                split at hAA
                · cases hAA
                · split
                  · simp
                  · rw [hur]
                    exact ih _ _ _ hrds hrn htrn hAA k'
              · by_cases h91 : c = 91
                · subst h91
                  rw [dw_br hc0 htc0 (by rw [fold_eq_lc, s91])] at hAA
                  rw [dw_br hc0 huc0 (by rw [fold_eq_lc, s91])]
                  have hind := spec_bracket_indep (flagsOf m) (Spec.C36.fold (flagsOf m) tc)
                    (Spec.C36.fold (flagsOf m) uc) n rest
                  cases hb : Spec.C36.bracket (flagsOf m) (Spec.C36.fold (flagsOf m) tc) n rest with
                  | abort =>
                    rw [brShape_abort hind hb]; simp
                  | fuel => rw [hb] at hAA; cases hAA
                  | done ok r =>
                    rw [hb] at hAA
                    simp only at hAA
                    obtain ⟨ok', hb'⟩ := brShape_done hind hb
                    rw [hb']
                    simp only
                    split at hAA
                    · cases hAA
                    · split
                      · simp
                      · obtain ⟨j, hj⟩ := spec_bracket_suffix _ _ _ _ _ _ hb
                        rw [hur]
                        exact ih _ r _ (by rw [hj]; exact noDS_drop hrds j)
                          (fun x hx => hrn x (by rw [hj] at hx; exact List.mem_of_mem_drop hx)) htrn hAA k'
                · rw [dw_lit hc0 htc0 (by rw [fold_eq_lc, Ne, s42]; exact hc42) (by rw [fold_eq_lc, Ne, s92]; exact h92)
                      (by rw [fold_eq_lc, Ne, s63]; exact h63) (by rw [fold_eq_lc, Ne, s91]; exact h91)] at hAA
                  rw [dw_lit hc0 huc0 (by rw [fold_eq_lc, Ne, s42]; exact hc42) (by rw [fold_eq_lc, Ne, s92]; exact h92)
                      (by rw [fold_eq_lc, Ne, s63]; exact h63) (by rw [fold_eq_lc, Ne, s91]; exact h91)]
                  split at hAA
                  · cases hAA
                  · split
                    · simp
                    · rw [hur]
                      exact ih _ _ _ hrds hrn htrn hAA k'



/-! ### the two star loops when git aborts everything and gitoxide merely fails -/

theorem scanLit_idx (m : Mode) (ms : Bool) (pch : UInt8) :
    ∀ (rest : Bytes) (tIdx : Nat) (tch : UInt8) (i : Nat), tIdx < i →
      tIdx ≤ (C36.scanLit m ms pch tIdx tch i rest).1 ∧
        (C36.scanLit m ms pch tIdx tch i rest).1 < (C36.scanLit m ms pch tIdx tch i rest).2.2.idx := by
  intro rest
  induction rest with
  | nil => intro tIdx tch i h; simp [C36.scanLit]; exact h
  | cons c r ih =>
    intro tIdx tch i h
    unfold C36.scanLit
    split
    · simp; exact h
    · have := ih i (lc m c) (i + 1) (by omega)
      exact ⟨by omega, this.2⟩

/-- a `Match` of the loop behind a star comes from a recursive call at the current position or behind it -/
theorem starLoop_sound_ge (m : Mode) (rec : Nat → Res) (pch : UInt8) (ms : Bool) :
    ∀ (n tIdx : Nat) (tch : UInt8) (t : Iter), tIdx < t.idx →
      C36.starLoop m rec pch ms n tIdx tch t = .matched → ∃ k, tIdx ≤ k ∧ rec k = .matched := by
  intro n
  induction n with
  | zero => intro tIdx tch t _ h; simp [C36.starLoop] at h
  | succ n ih =>
    intro tIdx tch t hidx h
    unfold C36.starLoop at h
    simp only at h
    split at h
    · simp at h
    · rename_i tIdx' tch' t' hsc
      have hb : tIdx ≤ tIdx' ∧ tIdx' < t'.idx := by
        split at hsc
        · have := scanLit_idx m ms pch t.rest tIdx tch t.idx hidx
          split at hsc
          · cases hsc
          · simp only [Option.some.injEq, Prod.mk.injEq] at hsc
            obtain ⟨e1, _, e3⟩ := hsc
            rw [← e1, ← e3]; exact this
        · simp only [Option.some.injEq, Prod.mk.injEq] at hsc
          obtain ⟨e1, _, e3⟩ := hsc
          rw [← e1, ← e3]; exact ⟨Nat.le_refl _, hidx⟩
      by_cases hr : rec tIdx' = .matched
      · exact ⟨tIdx', hb.1, hr⟩
      · split at h
        · exact absurd h hr
        · split at h
          · simp at h
          · cases hn : t'.next m with
            | none => simp [hn] at h
            | some x =>
              obtain ⟨⟨i, c⟩, t''⟩ := x
              simp [hn] at h
              have hi : i = t'.idx ∧ t''.idx = t'.idx + 1 := by
                unfold Iter.next at hn
                split at hn
                · cases hn
                · simp at hn; exact ⟨hn.1.1.symm, by rw [← hn.2]⟩
              obtain ⟨k, hk1, hk2⟩ := ih i c t'' (by omega) h
              exact ⟨k, by omega, hk2⟩


/-- the two results are the same, or git aborts everything and gitoxide at least finds no match -/
def RelAA (a : Res) (b : Wm) : Prop := a = ofWm b ∨ (b = .abortAll ∧ a ≠ .matched)

theorem ofWm_matched_iff (w : Wm) : ofWm w = .matched ↔ w = .matched := by cases w <;> simp [ofWm]

theorem RelAA.ne_matched {a : Res} {b : Wm} (h : RelAA a b) (hb : b ≠ .matched) : a ≠ .matched := by
  rcases h with h | ⟨_, h⟩
  · rw [h]; exact fun e => hb ((ofWm_matched_iff b).mp e)
  · exact h

/-- Behind a star, with text left: lock-step as long as the recursive calls agree; where git's
recursive call aborts everything and gitoxide's merely fails, git's loop aborts and gitoxide's goes
on — without ever finding a match, because ABORT_ALL is sound (`hcl`). -/
theorem starLoop_relAA (m : Mode) (recM : Nat → Res) (recS : Bytes → Wm) (p : Bytes) (ms : Bool)
    (hp0 : hd p ≠ 0) (hnsl : ¬ (ms = false ∧ lc m (hd p) = 47)) :
    ∀ (tx : Bytes), (∀ c ∈ tx, c ≠ 0) → tx ≠ [] → ∀ (k n_m n_s : Nat) (tchS : UInt8),
      tx.length ≤ n_m → tx.length + 1 ≤ n_s →
      (tchS = hd tx ∨ tchS = Spec.C36.fold (flagsOf m) (hd tx)) →
      (∀ j, j < tx.length → RelAA (recM (k + j)) (recS (tx.drop j))) →
      (∀ k', k + tx.length ≤ k' → recM k' ≠ .matched) →
      (∀ j, recS (tx.drop j) = .abortAll → ∀ i, recS (tx.drop (j + i)) ≠ .matched) →
      RelAA (C36.starLoop m recM (lc m (hd p)) ms n_m k (lc m (hd tx)) ⟨k + 1, tx.tail⟩)
        (Spec.C36.starLoop (flagsOf m) recS p ms n_s tchS tx) := by
  intro tx
  induction tx with
  | nil => intro _ h; exact absurd rfl h
  | cons c0 tr ih =>
    intro hnn _ k n_m n_s tchS hnm hns htch hrec hbeyond hcl
    have hc0 : c0 ≠ 0 := hnn c0 (by simp)
    have hlc0 : lc m c0 ≠ 0 := fun h => hc0 ((lc_special m c0).2.2.2.2.2.1.mp h)
    have h47 : lc m c0 = 47 ↔ c0 = 47 := (lc_special m c0).2.2.2.2.1
    simp only [hd_cons] at htch
    have htch0 : tchS ≠ 0 := by
      rcases htch with h | h
      · rw [h]; exact hc0
      · rw [h, fold_eq_lc]; exact hlc0
    have hpch0 : lc m (hd p) ≠ 0 := fun h => hp0 ((lc_special m (hd p)).2.2.2.2.2.1.mp h)
    obtain ⟨nm, hnm'⟩ : ∃ nm, n_m = nm + 1 := ⟨n_m - 1, by simp at hnm; omega⟩
    obtain ⟨ns, hns'⟩ : ∃ ns, n_s = ns + 1 := ⟨n_s - 1, by simp at hns; omega⟩
    subst hnm' hns'
    simp only [hd_cons, List.tail_cons]
    have hrec0 : RelAA (recM k) (recS (c0 :: tr)) := by simpa using hrec 0 (by simp)
    have htch47 : (tchS == 47) = (lc m c0 == 47) := by
      rw [Bool.eq_iff_iff]
      rcases htch with h | h
      · simp [h, h47]
      · rw [h, fold_eq_lc]
    -- the hypotheses, shifted to the tail
    have hrec_tr : ∀ j, j < tr.length → RelAA (recM (k + 1 + j)) (recS (tr.drop j)) := by
      intro j hj
      have := hrec (j + 1) (by simp; omega)
      simpa [Nat.add_assoc, Nat.add_comm 1 j] using this
    have hbeyond_tr : ∀ k', k + 1 + tr.length ≤ k' → recM k' ≠ .matched := by
      intro k' hk'; exact hbeyond k' (by simp; omega)
    have hcl_tr : ∀ j, recS (tr.drop j) = .abortAll → ∀ i, recS (tr.drop (j + i)) ≠ .matched := by
      intro j hj i
      have := hcl (j + 1) (by simpa using hj) i
      simpa [Nat.add_right_comm] using this
    -- if git's call at this position aborts, gitoxide's loop from here never matches
    have hdiverge : recS (c0 :: tr) = .abortAll →
        C36.starLoop m recM (lc m (hd p)) ms (nm + 1) k (lc m c0) ⟨k + 1, tr⟩ ≠ .matched := by
      intro hAA hm
      obtain ⟨k', hk1, hk2⟩ := starLoop_sound_ge m recM _ ms _ _ _ _ (by simp) hm
      by_cases hin : k' < k + (c0 :: tr).length
      · obtain ⟨j, hj⟩ : ∃ j, k' = k + j := ⟨k' - k, by omega⟩
        subst hj
        have hR := hrec j (by omega)
        have hS := hcl 0 (by simpa using hAA) j
        simp only [Nat.zero_add] at hS
        exact hR.ne_matched hS hk2
      · exact hbeyond k' (by omega) hk2
    have hnext : RelAA (match Iter.next m ⟨k + 1, tr⟩ with
          | none => Res.abortAll
          | some ((i, c), t) => C36.starLoop m recM (lc m (hd p)) ms nm i c t)
        (Spec.C36.starLoop (flagsOf m) recS p ms ns (hd tr) tr) := by
      cases tr with
      | nil =>
        obtain ⟨ns', e⟩ : ∃ ns', ns = ns' + 1 := ⟨ns - 1, by simp at hns; omega⟩
        subst e
        left
        simp [Iter.next, hd, sl_zero, ofWm]
      | cons c1 tr' =>
        have := ih (fun x hx => hnn x (by simp [hx])) (by simp) (k + 1) nm ns c1
          (by simp at hnm ⊢; omega) (by simp at hns ⊢; omega) (Or.inl (by simp [hd_cons]))
          hrec_tr hbeyond_tr hcl_tr
        simpa [Iter.next, hd_cons] using this
    -- one pass at a position where the scan stands still, when the recursive calls agree
    have hpass : ∀ (tchM tchS' : UInt8), (tchM == SLASH) = (tchS' == 47) → recM k = ofWm (recS (c0 :: tr)) →
        RelAA (let res := recM k
         if res != .noMatch && (!ms || res != .abortToStarStar) then res
         else if res == .noMatch && !ms && tchM == SLASH then .abortToStarStar
         else match Iter.next m ⟨k + 1, tr⟩ with
           | none => .abortAll
           | some ((i, c), t) => C36.starLoop m recM (lc m (hd p)) ms nm i c t)
        (let r := recS (c0 :: tr)
         if r != .noMatch && (!ms || r != .abortToStarStar) then r
         else if r == .noMatch && !ms && tchS' == 47 then .abortToStarStar
         else Spec.C36.starLoop (flagsOf m) recS p ms ns (hd tr) tr) := by
      intro tchM tchS' hsl heq
      simp only [heq, ofWm_ne_noMatch, ofWm_ne_abortSS, ofWm_eq_noMatch, hsl]
      split
      · left; rfl
      · split
        · left; rfl
        · exact hnext
    -- the same pass when git's call aborts
    have hpassAA : ∀ (tchS' : UInt8), recS (c0 :: tr) = .abortAll →
        (let r := recS (c0 :: tr)
         if r != .noMatch && (!ms || r != .abortToStarStar) then r
         else if r == .noMatch && !ms && tchS' == 47 then .abortToStarStar
         else Spec.C36.starLoop (flagsOf m) recS p ms ns (hd tr) tr) = .abortAll := by
      intro tchS' h; simp [h]
    by_cases hg : isGlobCharacter (lc m (hd p)) = true
    · have hgS : isGlobSpecial (hd p) = true := by rw [← isGlob_same, ← lc_glob m]; exact hg
      rw [sl_pass _ _ _ _ _ tchS tchS _ htch0 (Or.inl ⟨hgS, rfl⟩)]
      rcases hrec0 with heq | ⟨hAA, _⟩
      · rw [starLoop_glob m recM ms _ _ hg]
        exact hpass (lc m c0) tchS (by simp [SLASH, htch47]) heq
      · simp only [hAA]
        exact Or.inr ⟨by simp, hdiverge hAA⟩
    · simp only [Bool.not_eq_true] at hg
      have hgS : isGlobSpecial (hd p) = false := by rw [← isGlob_same, ← lc_glob m]; exact hg
      by_cases hstop : ms = false ∧ c0 = 47
      · obtain ⟨hms, hc47⟩ := hstop
        subst hms hc47
        have hl47 : lc m 47 = 47 := (lc_special m 47).2.2.2.2.1.mpr rfl
        rw [hl47]
        by_cases heq : lc m (hd p) = 47
        · exact absurd ⟨rfl, heq⟩ hnsl
        · rw [starLoop_stop_slash m recM _ hg heq, sl_stop_slash _ _ _ _ _ _ hgS htch0 (by rw [fold_eq_lc]; exact heq)]
          left; rfl
      · by_cases heq : lc m c0 = lc m (hd p)
        · rw [sl_pass _ _ _ _ _ tchS (Spec.C36.fold (flagsOf m) (hd p)) _ htch0
              (Or.inr ⟨hgS, scanLit_hit_spec _ _ _ _ _ hc0 hstop (by rw [fold_eq_lc, fold_eq_lc, heq]), rfl⟩)]
          rcases hrec0 with heq0 | ⟨hAA, _⟩
          · rw [heq, starLoop_hit m recM ms _ hg]
            exact hpass _ _ (by rw [fold_eq_lc]; rfl) heq0
          · simp only [hAA]
            exact Or.inr ⟨by simp, hdiverge hAA⟩
        · have hnes : Spec.C36.fold (flagsOf m) c0 ≠ Spec.C36.fold (flagsOf m) (hd p) := by
            rw [fold_eq_lc, fold_eq_lc]; exact heq
          have hstopM : ¬ (ms = false ∧ lc m c0 = 47) := fun h => hstop ⟨h.1, h47.mp h.2⟩
          cases tr with
          | nil =>
            rw [starLoop_end m recM ms _ _ hg heq,
              sl_end _ _ _ _ _ _ _ hgS htch0 hc0 (by rw [fold_eq_lc]; exact hpch0) hstop hnes]
            left; rfl
          | cons c1 tr' =>
            have hc1 : c1 ≠ 0 := hnn c1 (by simp)
            rw [starLoop_skip m recM ms _ _ hg nm k (k + 1) c1 tr' hstopM heq,
              sl_skip _ _ _ _ _ tchS c1 _ _ hgS htch0 hc1 hc0 hstop hnes]
            have := ih (fun x hx => hnn x (by simp [hx])) (by simp) (k + 1) (nm + 1) (ns + 1) c1
              (by simp at hnm ⊢; omega) (by simp at hns ⊢; omega) (Or.inl (by simp [hd_cons]))
              hrec_tr hbeyond_tr hcl_tr
            simpa [hd_cons] using this


end GixModel.C36
