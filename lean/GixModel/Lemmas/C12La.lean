import GixModel.Model.C12Live
/-
C12 (liveness) — the invariant of the repaired retry loop (`Cfg.fixed`).
-/
namespace GixModel.C12.Live

@[simp] theorem setAt_same {α : Type} (f : Nat → α) (i : Nat) (a : α) : setAt f i a i = a := by simp [setAt]
theorem setAt_other {α : Type} (f : Nat → α) (i j : Nat) (a : α) (h : j ≠ i) : setAt f i a j = f j := by
  simp [setAt, h]

/-- nobody is inside the critical section of `load_next_index` for index object `ix` -/
def NoLoad (s : S) (ix : Nat) : Prop := ∀ h pr k, (s.hs h).pc ≠ Pc.lnLoad ix pr k

/-- every position of index object `ix` was claimed and every load attempt is over -/
def Exh (s : S) (ix : Nat) : Prop := (s.objs ix).claimed = (s.objs ix).files.length ∧ NoLoad s ix

/-- the index object a program counter refers to -/
def pcIx : Pc → Option Nat
  | Pc.lnStart ix => some ix
  | Pc.lnInner ix _ => some ix
  | Pc.lnClaim ix _ => some ix
  | Pc.lnLate ix _ _ => some ix
  | Pc.lnLoad ix _ _ => some ix
  | Pc.lnWait ix _ => some ix
  | Pc.lnEnd ix _ => some ix
  | Pc.cons ix => some ix
  | Pc.recheck ix => some ix
  | Pc.collWait ix => some ix
  | Pc.collRead ix => some ix
  | _ => none

/-- the `previous_state_id` a program counter carries -/
def pcPrev : Pc → Option (Nat × Nat)
  | Pc.lnInner ix p => some (ix, p)
  | Pc.lnClaim ix p => some (ix, p)
  | Pc.lnLate ix p _ => some (ix, p)
  | Pc.lnLoad ix p _ => some (ix, p)
  | Pc.lnWait ix p => some (ix, p)
  | Pc.lnEnd ix p => some (ix, p)
  | _ => none

/-- the lookup did not find the object in the snapshot it still holds -/
def postScan : Pc → Bool
  | Pc.loi | Pc.lnStart _ | Pc.lnInner _ _ | Pc.lnClaim _ _ | Pc.lnLate _ _ _ | Pc.lnLoad _ _ _ | Pc.lnWait _ _
  | Pc.lnEnd _ _ | Pc.cons _ | Pc.recheck _ => true
  | _ => false

structure GInv (s : S) : Prop where
  cfg : s.cfg = Cfg.fixed
  diskLt : ∀ f ∈ s.disk, f < s.nextFile
  filesLt : ∀ p, ∀ f ∈ (s.objs p).files, f < s.nextFile
  pubLt : s.pub < s.nObjs
  beyond : ∀ p, s.nObjs ≤ p → s.objs p = IdxObj.empty
  claimedLe : ∀ p, (s.objs p).claimed ≤ (s.objs p).files.length
  pos : ∀ p k, k < (s.objs p).claimed → k ∈ (s.objs p).done ∨ ∃ h pr, (s.hs h).pc = Pc.lnLoad p pr k
  loadedOk : ∀ p k, k ∈ (s.objs p).done → ∀ f, (s.objs p).files[k]? = some f → f ∈ s.disk → f ∈ s.loadedFiles
  freshH : ∀ h, s.nH ≤ h → s.hs h = H.fresh
  obj0 : s.objs 0 = IdxObj.empty
  uninit : ∀ p, (s.objs p).init = false → s.objs p = IdxObj.empty

structure HInv (s : S) (x : H) : Prop where
  ixLt : ∀ ix, pcIx x.pc = some ix → ix < s.nObjs
  mLt : x.mPtr < s.nObjs
  snapLt : ∀ f ∈ x.snap, f < s.nextFile
  noLate : ∀ ix p k, x.pc ≠ Pc.lnLate ix p k
  loadK : ∀ ix p k, x.pc = Pc.lnLoad ix p k → k < (s.objs ix).claimed
  mLe : x.mLoaded ≤ (s.objs x.mPtr).loaded
  prevLe : ∀ ix p, pcPrev x.pc = some (ix, p) → p ≤ (s.objs ix).loaded
  snapOk : (∀ ix, x.pc ≠ Pc.collRead ix) → x.mLoaded = (s.objs x.mPtr).loaded →
    ∀ k ∈ (s.objs x.mPtr).done, ∀ f, (s.objs x.mPtr).files[k]? = some f → f ∈ s.disk → f ∈ x.snap
  readPtr : ∀ ix, x.pc = Pc.collRead ix → x.mPtr = ix
  scanFail : postScan x.pc = true → ∀ f ∈ x.snap, holds s f x.obj = false
  waitAll : ∀ ix p, x.pc = Pc.lnWait ix p → (s.objs ix).claimed = (s.objs ix).files.length
  endExh : ∀ ix p, x.pc = Pc.lnEnd ix p → p = (s.objs ix).loaded → Exh s ix
  consExh : ∀ ix, x.pc = Pc.cons ix → Exh s ix
  reExh : ∀ ix, x.pc = Pc.recheck ix → Exh s ix ∧ (∀ f ∈ x.alive, f ∈ (s.objs ix).files) ∧ (s.pub = ix ∨ x.mPtr ≠ s.pub)
  aliveOk : ∀ f ∈ x.alive, f ∈ s.disk ∧ holds s f x.obj = true
  nf : x.pc = Pc.notFound → x.alive = []

structure Inv (s : S) : Prop where
  g : GInv s
  h : ∀ h, HInv s (s.hs h)

theorem hinv_fresh (s : S) (hn : 0 < s.nObjs) (h0 : s.objs 0 = IdxObj.empty) : HInv s H.fresh := by
  refine ⟨?_, hn, ?_, ?_, ?_, Nat.zero_le _, ?_, ?_, ?_, ?_, ?_, ?_, ?_, ?_, ?_, ?_⟩
  · intro ix h; cases h
  · intro f h; cases h
  · intro ix p k h; cases h
  · intro ix p k h; cases h
  · intro ix p h; cases h
  · intro _ _ k hk
    have : (s.objs H.fresh.mPtr).done = [] := by show (s.objs 0).done = []; rw [h0]; rfl
    rw [this] at hk; cases hk
  · intro ix h; cases h
  · intro h; cases h
  · intro ix p h; cases h
  · intro ix p h; cases h
  · intro ix h; cases h
  · intro ix h; cases h
  · intro f h; cases h
  · intro h; cases h

theorem inv_init : Inv (S.init Cfg.fixed) := by
  refine ⟨⟨rfl, ?_, ?_, ?_, ?_, ?_, ?_, ?_, ?_, ?_, ?_⟩, fun h => hinv_fresh _ (by decide) rfl⟩
  · intro f h; cases h
  · intro p f h; cases h
  · decide
  · intro p _; rfl
  · intro p; exact Nat.le_refl _
  · intro p k h; exact absurd h (Nat.not_lt_zero _)
  · intro p k h; cases h
  · intro h _; rfl
  · rfl
  · intro p _; rfl

end GixModel.C12.Live
