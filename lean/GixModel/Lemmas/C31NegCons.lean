import GixModel.Lemmas.C31NegBase
/-
C31 — `consecutive.rs`: every operation keeps the invariant; every `have` is a local commit.
-/
namespace GixModel.C31.Neg.Consecutive
open GixModel.C31.Neg

theorem or_common (a b : Flags) : (a.or b).common = (a.common || b.common) := rfl
theorem or_commonRef (a b : Flags) : (a.or b).commonRef = (a.commonRef || b.commonRef) := rfl
theorem or_advertised (a b : Flags) : (a.or b).advertised = (a.advertised || b.advertised) := rfl

/-- `add_to_queue(id, mark)` keeps the invariant if the marks it adds are justified -/
theorem addToQueue_inv {o : Odb} {src : List Nat} {st : St} (hinv : Inv o src st) (id : Nat) (mark : Flags)
    (hc : mark.common = true → Just o src id)
    (hr : (mark.commonRef = true ∨ mark.advertised = true) → id ∈ src) :
    Inv o src (addToQueue o st id mark) := by
  unfold addToQueue
  cases ht : touch o st id (fun m => { m with flags := m.flags.or mark }) with
  | none => exact hinv
  | some r =>
    obtain ⟨old, new, st'⟩ := r
    obtain ⟨hnew, _, _⟩ := touch_some ht
    have hinv' : Inv o src st' := by
      apply hinv.touch ht
      · intro hn
        rw [hnew] at hn
        simp only [or_common, Bool.or_eq_true] at hn
        rcases hn with h1 | h1
        · exact Or.inl h1
        · exact Or.inr (hc h1)
      · intro hn
        rw [hnew] at hn
        simp only [or_commonRef, or_advertised, Bool.or_eq_true] at hn
        rcases hn with (h1 | h1) | (h1 | h1)
        · exact Or.inl (Or.inl h1)
        · exact Or.inr (hr (Or.inl h1))
        · exact Or.inl (Or.inr h1)
        · exact Or.inr (hr (Or.inr h1))
    simp only
    split
    · exact hinv'
    · exact hinv'.push _ _ _ (touch_graph_ne_none ht)

theorem markParents_inv {o : Odb} {src : List Nat} (gen : Nat) (ps : List Nat) :
    ∀ (st : St) (q : List (Int × Nat × Nat)), Inv o src st → (∀ p, p ∈ ps → Just o src p) →
      (∀ e, e ∈ q → Just o src e.2.1) →
      Inv o src (markParents o gen st q ps).1 ∧ ∀ e, e ∈ (markParents o gen st q ps).2 → Just o src e.2.1 := by
  induction ps with
  | nil => intro st q hinv _ hq; exact ⟨hinv, hq⟩
  | cons p ps ih =>
    intro st q hinv hps hq
    have hp := hps p (by simp)
    have hps' : ∀ x, x ∈ ps → Just o src x := fun x hx => hps x (by simp [hx])
    unfold markParents
    cases ht : touch o st p (fun m => { m with flags := { m.flags with common := true } }) with
    | none => exact ih st q hinv hps' hq
    | some r =>
      obtain ⟨prev, new, st'⟩ := r
      obtain ⟨hnew, _, _⟩ := touch_some ht
      have hinv' : Inv o src st' := by
        apply hinv.touch ht
        · intro _; exact Or.inr hp
        · intro hn
          rw [hnew] at hn
          exact Or.inl hn
      simp only
      split
      · exact ih st' q hinv' hps' hq
      · apply ih
        · split
          · exact hinv'.withCounter _
          · exact hinv'
        · exact hps'
        · intro e he
          rcases List.mem_cons.mp he with h1 | h1
          · subst h1; exact hp
          · exact hq e h1

theorem markLoop_inv {o : Odb} {src : List Nat} (pk : Picker) (anc : Ancestors) (fuel : Nat) :
    ∀ (st : St) (q : List (Int × Nat × Nat)) (st' : St), Inv o src st → (∀ e, e ∈ q → Just o src e.2.1) →
      markLoop o pk anc fuel st q = .ok st' → Inv o src st' := by
  induction fuel with
  | zero => intro st q st' _ _ h; simp [markLoop] at h
  | succ fuel ih =>
    intro st q st' hinv hq h
    unfold markLoop at h
    cases hpop : popWith pk q with
    | none => simp only [hpop] at h; cases h; exact hinv
    | some r =>
      obtain ⟨⟨t, id, gen⟩, q'⟩ := r
      obtain ⟨hmem, hsub⟩ := popWith_mem hpop
      have hq' : ∀ e, e ∈ q' → Just o src e.2.1 := fun e he => hq e (hsub e he)
      have hid : Just o src id := hq _ hmem
      simp only [hpop] at h
      split at h
      · exact ih _ _ _ (addToQueue_inv hinv id fSeen (by intro hc; cases hc) (by intro hc; rcases hc with hc | hc <;> cases hc)) hq' h
      · split at h
        · cases ht : touch o st id (fun m => m) with
          | none => simp only [ht] at h; exact ih _ _ _ hinv hq' h
          | some r2 =>
            obtain ⟨old, new, st1⟩ := r2
            obtain ⟨hnew, _, _⟩ := touch_some ht
            have hinv1 : Inv o src st1 := by
              apply hinv.touch ht
              · intro hn; rw [hnew] at hn; exact Or.inl hn
              · intro hn; rw [hnew] at hn; exact Or.inl hn
            simp only [ht] at h
            have hmp := markParents_inv (o := o) (src := src) gen (o.parents id) st1 q' hinv1
              (fun p hp => hid.parent hp) hq'
            cases hm : markParents o gen st1 q' (o.parents id) with
            | mk st2 q2 =>
              rw [hm] at hmp h
              exact ih _ _ _ hmp.1 hmp.2 h
        · exact ih _ _ _ hinv hq' h

theorem markCommon_inv {o : Odb} {src : List Nat} (pk : Picker) (fuel : Nat) {st st' : St} (id : Nat)
    (mode : MarkMode) (anc : Ancestors) (hinv : Inv o src st) (hid : Just o src id)
    (h : markCommon o pk fuel st id mode anc = .ok st') : Inv o src st' := by
  unfold markCommon at h
  cases ht : touch o st id (fun m => m) with
  | none => simp only [ht] at h; cases h; exact hinv
  | some r =>
    obtain ⟨old, new, st1⟩ := r
    obtain ⟨hnew, hst1, _⟩ := touch_some ht
    have hinv1 : Inv o src st1 := by
      apply hinv.touch ht
      · intro hn; rw [hnew] at hn; exact Or.inl hn
      · intro hn; rw [hnew] at hn; exact Or.inl hn
    have hpres := touch_present hinv ht
    obtain ⟨_, ho2⟩ := touch_old_flags hinv ht
    simp only [ht] at h
    split at h
    · cases h; exact hinv1
    · refine markLoop_inv pk anc fuel _ _ _ ?_ ?_ h
      · split
        · have hs : Inv o src (setMeta st1 id { old with flags := { old.flags with common := true } }) :=
            hinv1.setMeta id _ hpres (fun _ => hid) (fun hn => ho2 hn)
          split
          · exact hs.withCounter _
          · exact hs
        · exact hinv1
      · intro e he
        simp only [List.mem_singleton] at he
        subst he
        exact hid

theorem knownCommon_inv {o : Odb} {src : List Nat} (pk : Picker) (fuel : Nat) {st st' : St} (id : Nat)
    (hinv : Inv o src st) (hid : id ∈ src) (h : knownCommon o pk fuel st id = .ok st') : Inv o src st' := by
  unfold knownCommon at h
  split at h
  · refine markCommon_inv pk fuel id _ _ ?_ (Just.of_mem hid) h
    exact addToQueue_inv hinv id fCommonRefSeen (by intro hc; cases hc) (fun _ => hid)
  · cases h; exact hinv

theorem addTip_inv {o : Odb} {src : List Nat} {st : St} (id : Nat) (hinv : Inv o src st) :
    Inv o src (addTip o st id) :=
  addToQueue_inv hinv id fSeen (by intro hc; cases hc) (by intro hc; rcases hc with hc | hc <;> cases hc)

theorem haveParents_inv {o : Odb} {src : List Nat} (pk : Picker) (fuel : Nat) (mark : Flags)
    (hmr : mark.commonRef = false) (hma : mark.advertised = false) (ps : List Nat) :
    ∀ (st st' : St), Inv o src st → (mark.common = true → ∀ p, p ∈ ps → Just o src p) →
      haveParents o pk fuel mark st ps = .ok st' → Inv o src st' := by
  induction ps with
  | nil => intro st st' hinv _ h; simp [haveParents] at h; cases h; exact hinv
  | cons p ps ih =>
    intro st st' hinv hps h
    unfold haveParents at h
    have hps' : mark.common = true → ∀ x, x ∈ ps → Just o src x := fun hc x hx => hps hc x (by simp [hx])
    have hinv1 : Inv o src (if (flagOf st p (·.seen)).getD false = false then addToQueue o st p mark else st) := by
      split
      · exact addToQueue_inv hinv p mark (fun hc => hps hc p (by simp))
          (by intro hc; rcases hc with hc | hc <;> simp_all)
      · exact hinv
    simp only at h
    split at h
    · rename_i hmc
      cases hm : markCommon o pk fuel
          (if (flagOf st p (·.seen)).getD false = false then addToQueue o st p mark else st) p
          .ancestorsOnly .allUnseen with
      | ok st2 =>
        rw [hm] at h
        exact ih _ _ (markCommon_inv pk fuel p _ _ hinv1 (hps hmc p (by simp)) hm) hps' h
      | panic => rw [hm] at h; cases h
      | fuel => rw [hm] at h; cases h
    · exact ih _ _ hinv1 hps' h

/-- `next_have` keeps the invariant, and what it hands out is a commit of the local object
database -/
theorem nextHave_inv {o : Odb} {src : List Nat} (pk : Picker) (fuel : Nat) :
    ∀ (st st' : St) (r : Option Nat), Inv o src st → nextHave o pk fuel st = .ok (r, st') →
      Inv o src st' ∧ ∀ h, r = some h → o.present h = true := by
  induction fuel with
  | zero => intro st st' r _ h; simp [nextHave] at h
  | succ fuel ih =>
    intro st st' r hinv h
    unfold nextHave at h
    cases hpop : popWith pk st.revs with
    | none =>
      simp only [hpop, Res.ok.injEq, Prod.mk.injEq] at h
      obtain ⟨rfl, rfl⟩ := h
      exact ⟨hinv, by intro h hh; cases hh⟩
    | some pr =>
      obtain ⟨⟨t, id, g⟩, revs'⟩ := pr
      obtain ⟨hmem, hsub⟩ := popWith_mem hpop
      have hinvR : Inv o src { st with revs := revs' } :=
        hinv.withRevs revs' (fun e he => hinv.revsInGraph e (hsub e he))
      simp only [hpop] at h
      split at h
      · simp only [Res.ok.injEq, Prod.mk.injEq] at h
        obtain ⟨rfl, rfl⟩ := h
        exact ⟨hinvR, by intro h hh; cases hh⟩
      · cases hg : st.graph id with
        | none => exact absurd hg (hinv.revsInGraph _ hmem)
        | some m =>
          have hg' : ({ st with revs := revs' } : St).graph id = some m := hg
          have hpres := hinv.graphPresent id m hg
          first | simp only [hg'] at h | simp only [hg] at h
          -- the popped commit, now flagged POPPED
          have hinvP : Inv o src (setMeta { st with revs := revs' } id { m with flags := { m.flags with popped := true } }) :=
            hinvR.setMeta id _ hpres (fun hc => hinv.commonJust id m hg hc) (fun hc => hinv.refJust id m hg hc)
          split at h
          all_goals
            first
            | cases h
            | skip
          all_goals
            rename_i stp hhp
            have hinvHP : Inv o src stp := by
              refine haveParents_inv pk fuel _ ?_ ?_ (o.parents id) _ _ ?_ ?_ hhp
              · split <;> (try split) <;> rfl
              · split <;> (try split) <;> rfl
              · split
                · exact hinvP.withCounter _
                · exact hinvP
              · intro hmc p hp
                -- the mark contains COMMON only if the commit is COMMON or COMMON_REF
                by_cases hcm : m.flags.common = true
                · exact (hinv.commonJust id m hg hcm).parent hp
                · by_cases hcr : m.flags.commonRef = true
                  · exact (Just.of_mem (hinv.refJust id m hg (Or.inl hcr))).parent hp
                  · simp [hcm, hcr, fSeen] at hmc
            split at h
            · rename_i hres
              simp only [Res.ok.injEq, Prod.mk.injEq] at h
              obtain ⟨rfl, rfl⟩ := h
              refine ⟨hinvHP, ?_⟩
              intro h' hh
              cases hh
              first
              | exact hpres
              | (split at hres <;> (try split at hres) <;> simp_all)
            · exact ih _ _ _ hinvHP h

theorem inCommonWithRemote_inv {o : Odb} {src : List Nat} (pk : Picker) (fuel : Nat) {st st' : St} (id : Nat)
    (b : Bool) (hinv : Inv o src st) (hid : id ∈ src)
    (h : inCommonWithRemote o pk fuel st id = .ok (b, st')) : Inv o src st' := by
  unfold inCommonWithRemote at h
  cases hm : markCommon o pk fuel st id .thisCommitAndAncestors .directUnseen with
  | ok st2 =>
    simp only [hm, Res.ok.injEq, Prod.mk.injEq] at h
    obtain ⟨_, rfl⟩ := h
    exact markCommon_inv pk fuel id _ _ hinv (Just.of_mem hid) hm
  | panic => simp [hm] at h
  | fuel => simp [hm] at h

end GixModel.C31.Neg.Consecutive
