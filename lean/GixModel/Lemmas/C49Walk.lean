import GixModel.Spec.C49
/-
C49 — the directory-collapsing fold of `gix_dir::walk::readdir` computes git's rule, by induction
over the directory tree.
-/
namespace GixModel.C49
open GixModel GixModel.Spec.C49

/-- the options `gix status` walks with for `--untracked-files=normal --ignored` -/
def normalOpts : WalkOpts := ⟨.collapse, some .collapse, false, true⟩

def leafOf (i : Item) : Leaf := (i.status, i.repo)

/-- something below is tracked or a nested repository -/
def bad (l : List Leaf) : Bool := l.any fun x => x.2 || x.1 == .tracked

def anyU (l : List Leaf) : Bool := l.any fun x => x.1 == .untracked

/-- statuses that occur in trees without `.git` entries below the root and without precious ignores -/
def okStatus (s : DStatus) : Bool := s == .tracked || s == .untracked || s == .ignored .expendable

def allOk (l : List Leaf) : Bool := l.all fun x => okStatus x.1

mutual
/-- no `.git` entry, no precious ignore pattern and no empty directory inside the tree (gitoxide
counts an empty directory as an untracked entry when folding, git does not — a recorded
difference, excluded here) -/
def good : Tree → Bool
  | .file _ f => okStatus (classify f).1
  | .dir _ f cs =>
    okStatus (classify f).1 && goodL cs &&
      (!(!(classify f).2 && ((classify f).1 == .tracked || (classify f).1 == .untracked)) || !cs.isEmpty)
def goodL : List Tree → Bool
  | [] => true
  | t :: ts => good t && goodL ts
end

theorem bad_append (a b : List Leaf) : bad (a ++ b) = (bad a || bad b) := by simp [bad]
theorem anyU_append (a b : List Leaf) : anyU (a ++ b) = (anyU a || anyU b) := by simp [anyU]
theorem allOk_append (a b : List Leaf) : allOk (a ++ b) = (allOk a && allOk b) := by simp [allOk]

/-! ### git's rule on lists of ok statuses -/

theorem filter_ok (l : List Leaf) (h : allOk l = true) : l.filter (fun x => x.1 != .pruned) = l := by
  rw [List.filter_eq_self]
  intro x hx
  have := (List.all_eq_true.mp h) x hx
  rcases x with ⟨s, r⟩
  cases s <;> simp_all [okStatus]

theorem gitFold_ok (l : List Leaf) (h : allOk l = true) (hne : l ≠ []) :
    gitFold l = if bad l then none else if anyU l then some .untracked else some (.ignored .expendable) := by
  unfold gitFold
  simp only [filter_ok l h]
  have hb : (l.any fun x => x.2 || x.1 == .tracked) = bad l := rfl
  have hu : (l.any fun x => x.1 == .untracked) = anyU l := rfl
  rw [hb, hu]
  cases hbad : bad l
  · cases hU : anyU l
    · have hemp : l.isEmpty = false := by
        cases l with
        | nil => exact absurd rfl hne
        | cons _ _ => rfl
      have hall : (l.all fun x => x.1 == .ignored .expendable) = true := by
        rw [List.all_eq_true]
        intro x hx
        have h1 := (List.all_eq_true.mp h) x hx
        have h2 : (x.2 || x.1 == .tracked) = false := by
          have := hbad
          simp only [bad, List.any_eq_false] at this
          simpa using this x hx
        have h3 : (x.1 == .untracked) = false := by
          have := hU
          simp only [anyU, List.any_eq_false] at this
          simpa using this x hx
        rcases x with ⟨s, r⟩
        cases s <;> simp_all [okStatus]
      simp [hemp, hall]
    · simp
  · simp

/-! ### `try_collapse` on held entries with ok statuses -/

theorem count_partition : ∀ (held : List Item), (held.all fun i => okStatus i.status) = true →
    (held.filter fun i => i.status == .untracked).length
      + (held.filter fun i => i.status == .ignored .expendable).length
      + (held.filter fun i => i.status == .tracked).length = held.length
    ∧ (held.filter fun i => i.status == .ignored .precious).length = 0 := by
  intro held
  induction held with
  | nil => intro _; simp
  | cons i rest ih =>
    intro h
    simp only [List.all_cons, Bool.and_eq_true] at h
    obtain ⟨ih1, ih2⟩ := ih h.2
    have hi := h.1
    simp only [List.filter_cons]
    cases hs : i.status with
    | pruned => rw [hs] at hi; simp [okStatus] at hi
    | tracked =>
      have e1 : (DStatus.tracked == DStatus.untracked) = false := by decide
      have e2 : (DStatus.tracked == DStatus.ignored IgnKind.expendable) = false := by decide
      have e3 : (DStatus.tracked == DStatus.ignored IgnKind.precious) = false := by decide
      have e4 : (DStatus.tracked == DStatus.tracked) = true := by decide
      simp only [e1, e2, e3, e4, Bool.false_eq_true, if_false, if_true, List.length_cons]
      omega
    | untracked =>
      have e1 : (DStatus.untracked == DStatus.untracked) = true := by decide
      have e2 : (DStatus.untracked == DStatus.ignored IgnKind.expendable) = false := by decide
      have e3 : (DStatus.untracked == DStatus.ignored IgnKind.precious) = false := by decide
      have e4 : (DStatus.untracked == DStatus.tracked) = false := by decide
      simp only [e1, e2, e3, e4, Bool.false_eq_true, if_false, if_true, List.length_cons]
      omega
    | ignored k =>
      cases k with
      | expendable =>
        have e1 : (DStatus.ignored IgnKind.expendable == DStatus.untracked) = false := by decide
        have e2 : (DStatus.ignored IgnKind.expendable == DStatus.ignored IgnKind.expendable) = true := by decide
        have e3 : (DStatus.ignored IgnKind.expendable == DStatus.ignored IgnKind.precious) = false := by decide
        have e4 : (DStatus.ignored IgnKind.expendable == DStatus.tracked) = false := by decide
        simp only [e1, e2, e3, e4, Bool.false_eq_true, if_false, if_true, List.length_cons]
        omega
      | precious => rw [hs] at hi; simp [okStatus] at hi

theorem filter_length_ne_zero {α : Type} (p : α → Bool) (l : List α) :
    ((l.filter p).length != 0) = l.any p := by
  induction l with
  | nil => simp
  | cons a l ih =>
    by_cases hp : p a = true
    · simp [List.filter_cons, hp]
    · simp only [List.filter_cons, hp, Bool.false_eq_true, if_false, List.any_cons, Bool.false_or]
      exact ih

theorem filter_length_zero {α : Type} (p : α → Bool) (l : List α) :
    ((l.filter p).length = 0) ↔ l.any p = false := by
  induction l with
  | nil => simp
  | cons a l ih =>
    by_cases hp : p a = true
    · simp [List.filter_cons, hp]
    · simp only [List.filter_cons, hp, Bool.false_eq_true, if_false, List.any_cons, Bool.false_or]
      exact ih

theorem bad_map (held : List Item) :
    bad (held.map leafOf) = (held.any (fun i => i.repo) || held.any (fun i => i.status == .tracked)) := by
  induction held with
  | nil => rfl
  | cons i rest ih =>
    simp only [List.map_cons, bad, List.any_cons, leafOf] at ih ⊢
    rw [ih]
    cases i.repo <;> cases (i.status == DStatus.tracked) <;> simp

theorem anyU_map (held : List Item) :
    anyU (held.map leafOf) = held.any (fun i => i.status == .untracked) := by
  simp [anyU, leafOf, List.any_map, Function.comp_def]

theorem collapseStatus_ok (held : List Item) (hok : allOk (held.map leafOf) = true) (hne : held ≠ []) :
    collapseStatus normalOpts held =
      if bad (held.map leafOf) then none
      else if anyU (held.map leafOf) then some .untracked else some (.ignored .expendable) := by
  have hok' : (held.all fun i => okStatus i.status) = true := by
    simpa [allOk, leafOf, List.all_map, Function.comp_def] using hok
  obtain ⟨hpart, hprec⟩ := count_partition held hok'
  have hU := filter_length_ne_zero (fun i : Item => i.status == .untracked) held
  have hT := filter_length_zero (fun i : Item => i.status == .tracked) held
  have hN : held.length ≠ 0 := by
    cases held with
    | nil => exact absurd rfl hne
    | cons _ _ => simp
  rw [bad_map, anyU_map]
  unfold collapseStatus normalOpts
  simp only [hprec]
  generalize (held.filter fun i => i.status == DStatus.untracked).length = U at *
  generalize (held.filter fun i => i.status == DStatus.ignored IgnKind.expendable).length = E at *
  generalize (held.filter fun i => i.status == DStatus.tracked).length = T at *
  generalize held.length = N at *
  cases hrepo : held.any (fun i => i.repo)
  · cases htr : held.any (fun i => i.status == DStatus.tracked)
    · have hT0 : T = 0 := hT.mpr htr
      cases hu : held.any (fun i => i.status == DStatus.untracked)
      · have hU0 : U = 0 := by
          rw [hu] at hU
          simpa using hU
        have hEN : E = N := by omega
        simp [hU0, hEN, hN]
      · have hU1 : (U != 0) = true := by rw [hU]; exact hu
        have hsum : U + E = N := by omega
        simp [hU1, hsum]
    · have hT1 : T ≠ 0 := by
        intro h0
        have := hT.mp h0
        rw [htr] at this
        cases this
      have h1 : ¬ (U + E = N) := by omega
      have h2 : ¬ (E = N) := by omega
      simp [h1, h2]
  · simp

/-! ### the fold, by induction over the tree -/

theorem leaves_ne_nil (t : Tree) : good t = true → leaves t ≠ [] := by
  refine Tree.rec (motive_1 := fun t => good t = true → leaves t ≠ [])
    (motive_2 := fun cs => goodL cs = true → cs ≠ [] → leavesL cs ≠ []) ?_ ?_ ?_ ?_ t
  · intro name f _; simp [leaves]
  · intro name f cs ih hg
    simp only [good, Bool.and_eq_true, Bool.or_eq_true, Bool.not_eq_true'] at hg
    obtain ⟨⟨_, hgcs⟩, hent⟩ := hg
    unfold leaves
    split
    · rename_i he
      intro hnil
      have := (List.append_eq_nil_iff.mp hnil).2
      refine ih hgcs ?_ this
      rcases hent with h | h
      · rw [he] at h; cases h
      · intro hnil'; rw [hnil'] at h; simp at h
    · simp
  · intro _ h; exact absurd rfl h
  · intro t ts iht _ hg _
    simp only [goodL, Bool.and_eq_true] at hg
    simp only [leavesL]
    intro h
    have := List.append_eq_nil_iff.mp h
    exact iht hg.1 this.1

theorem leavesL_ne_nil (cs : List Tree) (hg : goodL cs = true) (h : cs ≠ []) : leavesL cs ≠ [] := by
  cases cs with
  | nil => exact absurd rfl h
  | cons t ts =>
    simp only [goodL, Bool.and_eq_true] at hg
    simp only [leavesL]
    intro h'
    exact leaves_ne_nil t hg.1 (List.append_eq_nil_iff.mp h').1

/-- the held entries stand for the leaves: same verdict on "tracked or repository below",
on "something untracked below", on emptiness, and all statuses are ok -/
structure Summ (held : List Item) (l : List Leaf) : Prop where
  bad : bad (held.map leafOf) = bad l
  anyU : anyU (held.map leafOf) = anyU l
  empty : held.isEmpty = l.isEmpty
  ok : allOk (held.map leafOf) = true

def Inv (r : WalkRes) (l : List Leaf) : Prop :=
  allOk l = true ∧ (r.prevent = true → bad l = true) ∧ (r.prevent = false → Summ r.held l)

theorem summ_cons (i : Item) (held : List Item) (x : Leaf) (l : List Leaf) (hx : leafOf i = x)
    (hok : okStatus x.1 = true) (h : Summ held l) : Summ (i :: held) (x :: l) := by
  obtain ⟨h1, h2, _, h4⟩ := h
  refine ⟨?_, ?_, rfl, ?_⟩
  · simp only [List.map_cons, bad, List.any_cons, hx] at h1 ⊢; rw [h1]
  · simp only [List.map_cons, anyU, List.any_cons, hx] at h2 ⊢; rw [h2]
  · simp only [List.map_cons, allOk, List.all_cons, hx, hok, Bool.true_and] at h4 ⊢; exact h4

theorem summ_append {a b : List Item} {la lb : List Leaf} (ha : Summ a la) (hb : Summ b lb) :
    Summ (a ++ b) (la ++ lb) := by
  refine ⟨?_, ?_, ?_, ?_⟩
  · rw [List.map_append, bad_append, bad_append, ha.bad, hb.bad]
  · rw [List.map_append, anyU_append, anyU_append, ha.anyU, hb.anyU]
  · have := ha.empty; have := hb.empty
    cases a <;> cases b <;> cases la <;> cases lb <;> simp_all
  · rw [List.map_append, allOk_append, ha.ok, hb.ok]; rfl

/-- prepend one held item (a file, or a directory that is not entered) -/
theorem inv_cons (i : Item) (x : Leaf) (r : WalkRes) (l : List Leaf) (hx : leafOf i = x)
    (hok : okStatus x.1 = true) (h : Inv r l) :
    Inv ⟨r.emitted, i :: r.held, r.prevent⟩ (x :: l) := by
  obtain ⟨h0, h1, h2⟩ := h
  refine ⟨?_, ?_, ?_⟩
  · simp only [allOk, List.all_cons, hok, Bool.true_and] at h0 ⊢; exact h0
  · intro hp
    have := h1 hp
    simp only [bad, List.any_cons] at this ⊢
    rw [this]; simp
  · intro hp
    exact summ_cons i r.held x l hx hok (h2 hp)

theorem shouldHold_ok {s : DStatus} (h : okStatus s = true) : normalOpts.shouldHold s = true := by
  cases s with
  | pruned => simp [okStatus] at h
  | tracked => rfl
  | untracked => rfl
  | ignored k => rfl

/-- a directory the index knows is never folded -/
theorem walkDir_tracked (p : Bytes) (cs : List Tree) (hne : cs ≠ []) :
    (walkDir normalOpts true p .tracked cs).held = [] ∧ (walkDir normalOpts true p .tracked cs).prevent = true := by
  have hemp : cs.isEmpty = false := by
    cases cs with
    | nil => exact absurd rfl hne
    | cons _ _ => rfl
  have hno : (true && DStatus.tracked != DStatus.tracked) = false := by decide
  rw [walkDir.eq_1]
  simp only [hemp, Bool.false_eq_true, if_false, hno]
  split <;> simp

/-- `walkDir` on a non-empty directory whose children satisfy the invariant: it becomes ONE held
entry with git's status, or nothing (and then collapsing is prevented further up) -/
theorem walkDir_fold (p : Bytes) (st : DStatus) (hst : st ≠ .tracked) (cs : List Tree) (hne : cs ≠ [])
    (hg : goodL cs = true) (h : Inv (walkChildren normalOpts p cs) (leavesL cs)) :
    (match gitFold (leavesL cs) with
      | some s => (walkDir normalOpts true p st cs).held = [⟨p, s, true, false, false⟩]
          ∧ (walkDir normalOpts true p st cs).prevent = false ∧ bad (leavesL cs) = false
          ∧ (s = .untracked ∨ s = .ignored .expendable) ∧ (anyU (leavesL cs) = (s == .untracked))
      | none => (walkDir normalOpts true p st cs).held = [] ∧ (walkDir normalOpts true p st cs).prevent = true
          ∧ bad (leavesL cs) = true) := by
  obtain ⟨hok, h1, h2⟩ := h
  have hlne := leavesL_ne_nil cs hg hne
  have hemp : cs.isEmpty = false := by
    cases cs with
    | nil => exact absurd rfl hne
    | cons _ _ => rfl
  rw [gitFold_ok _ hok hlne, walkDir.eq_1]
  simp only [hemp, Bool.false_eq_true, if_false]
  cases hp : (walkChildren normalOpts p cs).prevent
  · have hs := h2 hp
    have hheld : (walkChildren normalOpts p cs).held ≠ [] := by
      intro hh
      have := hs.empty
      rw [hh] at this
      cases hl : leavesL cs with
      | nil => exact hlne hl
      | cons _ _ => rw [hl] at this; simp at this
    have hst' : (true && st != DStatus.tracked) = true := by simpa using hst
    simp only [Bool.false_eq_true, if_false, hst', if_true]
    rw [collapseStatus_ok _ hs.ok hheld, hs.bad, hs.anyU]
    cases hb : bad (leavesL cs)
    · cases hu : anyU (leavesL cs) <;> simp
    · simp
  · have hb := h1 hp
    simp [hb]

theorem classify_eta (f : PathFacts) : classify f = ((classify f).1, (classify f).2) := rfl

theorem inv_nil (path : Bytes) : Inv (walkChildren normalOpts path []) (leavesL []) := by
  rw [walkChildren.eq_1]
  refine ⟨rfl, ?_, ?_⟩
  · intro h; cases h
  · intro _; exact ⟨rfl, rfl, rfl, rfl⟩

theorem walkChildren_inv (cs : List Tree) :
    goodL cs = true → ∀ path, Inv (walkChildren normalOpts path cs) (leavesL cs) := by
  refine Tree.rec_1
    (motive_1 := fun t => good t = true → ∀ path rest,
      Inv (walkChildren normalOpts path rest) (leavesL rest) →
      Inv (walkChildren normalOpts path (t :: rest)) (leaves t ++ leavesL rest))
    (motive_2 := fun cs => goodL cs = true → ∀ path, Inv (walkChildren normalOpts path cs) (leavesL cs))
    ?_ ?_ ?_ ?_ cs
  · -- a file
    intro name f hg path rest hrest
    have hok : okStatus (classify f).1 = true := by simpa [good] using hg
    rw [walkChildren.eq_2, classify_eta f]
    simp only [shouldHold_ok hok, if_true, leaves, List.cons_append, List.nil_append]
    exact inv_cons _ _ _ _ rfl hok hrest
  · -- a directory
    intro name f cs ih hg path rest hrest
    simp only [good, Bool.and_eq_true, Bool.or_eq_true, Bool.not_eq_true'] at hg
    obtain ⟨⟨hok, hgcs⟩, hentne⟩ := hg
    rw [walkChildren.eq_3, classify_eta f]
    simp only
    unfold leaves
    by_cases hent : (!(classify f).2 && ((classify f).1 == DStatus.tracked || (classify f).1 == DStatus.untracked)) = true
    · simp only [hent, if_true]
      by_cases hemp : cs = []
      · -- excluded: entered directories are not empty
        exfalso
        rcases hentne with h | h
        · rw [hent] at h; cases h
        · rw [hemp] at h; simp at h
      · have hcs := ih hgcs (joinPath path name)
        obtain ⟨hok0, hp1, hp2⟩ := hrest
        by_cases htr : (classify f).1 = DStatus.tracked
        · -- a directory the index knows: never folded, and it counts as tracked content
          obtain ⟨hheld, hprev⟩ := walkDir_tracked (joinPath path name) cs hemp
          rw [htr]
          simp only [beq_self_eq_true, if_true, List.cons_append, List.nil_append]
          refine ⟨?_, ?_, ?_⟩
          · simp only [allOk, List.all_cons, List.all_append] at hcs hok0 ⊢
            rw [show okStatus DStatus.tracked = true from rfl]
            simp only [Bool.true_and]
            rw [show (List.all (leavesL cs) fun x => okStatus x.1) = true from hcs.1, hok0]; rfl
          · intro _; simp [bad]
          · intro hp; simp [hprev] at hp
        · have htr' : ((classify f).1 == DStatus.tracked) = false := by simpa using htr
          simp only [htr', Bool.false_eq_true, if_false, List.nil_append]
          have hfold := walkDir_fold (joinPath path name) (classify f).1 htr cs hemp hgcs hcs
          cases hgf : gitFold (leavesL cs) with
          | none =>
            rw [hgf] at hfold
            obtain ⟨hheld, hprev, hbad⟩ := hfold
            refine ⟨?_, ?_, ?_⟩
            · rw [allOk_append, hcs.1, hok0]; rfl
            · intro _; rw [bad_append, hbad]; rfl
            · intro hp; simp [hprev] at hp
          | some s =>
            rw [hgf] at hfold
            obtain ⟨hheld, hprev, hbad, hs, hU⟩ := hfold
            refine ⟨?_, ?_, ?_⟩
            · rw [allOk_append, hcs.1, hok0]; rfl
            · intro hp
              simp only [hprev, Bool.false_or] at hp
              rw [bad_append, hp1 hp]; simp
            · intro hp
              simp only [hprev, Bool.false_or] at hp
              rw [hheld]
              apply summ_append _ (hp2 hp)
              have hne := leavesL_ne_nil cs hgcs hemp
              refine ⟨?_, ?_, ?_, ?_⟩
              · rw [hbad]
                rcases hs with rfl | rfl <;> rfl
              · rw [hU]
                rcases hs with rfl | rfl <;> rfl
              · cases hl : leavesL cs with
                | nil => exact absurd hl hne
                | cons _ _ => rfl
              · rcases hs with rfl | rfl <;> rfl
    · -- not entered: an ignored directory or a nested repository
      simp only [hent, Bool.false_eq_true, if_false, shouldHold_ok hok, if_true, List.cons_append,
        List.nil_append]
      exact inv_cons _ _ _ _ rfl hok hrest
  · intro _ path; exact inv_nil path
  · intro t ts iht ihts hg path
    simp only [goodL, Bool.and_eq_true] at hg
    simp only [leavesL]
    exact iht hg.1 path ts (ihts hg.2 path)

end GixModel.C49
