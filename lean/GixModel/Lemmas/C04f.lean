import GixModel.Lemmas.C04e
/-
C04 helper lemmas, part f: writing. `writeTree` turns the cached trees below a path into stored
trees; the tree it returns, read through the object store alone, denotes the same file system as
the cached tree did, and is canonical (sorted, no null ids, no empty sub-trees written).
-/
namespace GixModel.C04
open GixModel GixModel.Tree
open GixModel.Spec.C04 (Leaf FS)

/-- what the theorems assume of the id function (SHA-1 in reality): no collisions, the well-known
id of the empty tree, never the null id -/
structure HashOk (hash : List Entry → Bytes) : Prop where
  inj : ∀ a b, hash a = hash b → a = b
  empty : hash [] = emptyTreeId
  nonnull : ∀ a, hash a ≠ nullId

/-- every tree is stored under its own id -/
def Hashed (hash : List Entry → Bytes) (S : Assoc Bytes (List Entry)) : Prop :=
  ∀ id t, aget id S = some t → hash t = id

def StoreMono (S S' : Assoc Bytes (List Entry)) : Prop := ∀ id t, aget id S = some t → aget id S' = some t

/-- all directory entries of `t` can be found in `S` -/
def Closed (S : Assoc Bytes (List Entry)) (t : List Entry) : Prop :=
  ∀ e ∈ t, e.isTree = true → (aget e.oid S).isSome = true

theorem StoreMono.refl (S : Assoc Bytes (List Entry)) : StoreMono S S := fun _ _ h => h

theorem StoreMono.trans {S1 S2 S3 : Assoc Bytes (List Entry)} (h1 : StoreMono S1 S2)
    (h2 : StoreMono S2 S3) : StoreMono S1 S3 := fun id t h => h2 id t (h1 id t h)

theorem Closed.mono {S S' : Assoc Bytes (List Entry)} {t : List Entry} (h : Closed S t)
    (hm : StoreMono S S') : Closed S' t := by
  intro e he hd
  have := h e he hd
  cases hs : aget e.oid S with
  | none => simp [hs] at this
  | some ts => simp [hm _ _ hs]

theorem storeOk_closed {S : Assoc Bytes (List Entry)} (h : StoreOk S) {id : Bytes} {t : List Entry}
    (ht : aget id S = some t) : Closed S t := by
  intro e he hd
  rcases h.closed id t ht e he hd with h1 | h1
  · exact absurd h1 ((h.trees id t ht).good e he hd).1
  · exact h1

/-- adding a tree under its own id does not disturb a hashed store -/
theorem storeMono_aset {hash : List Entry → Bytes} (hh : HashOk hash)
    {S : Assoc Bytes (List Entry)} (hS : Hashed hash S) (t : List Entry) :
    StoreMono S (aset (hash t) t S) := by
  intro id x hx
  by_cases hid : id = hash t
  · subst hid
    rw [aget_aset_self]
    have := hS _ _ hx
    rw [hh.inj _ _ this]
  · rw [aget_aset_ne _ _ hid]; exact hx

theorem hashed_aset {hash : List Entry → Bytes} {S : Assoc Bytes (List Entry)} (hS : Hashed hash S)
    (t : List Entry) : Hashed hash (aset (hash t) t S) := by
  intro id x hx
  by_cases hid : id = hash t
  · subst hid
    rw [aget_aset_self] at hx
    simp only [Option.some.injEq] at hx
    rw [hx]
  · rw [aget_aset_ne _ _ hid] at hx; exact hS _ _ hx

theorem storeOk_aset {hash : List Entry → Bytes} (hh : HashOk hash)
    {S : Assoc Bytes (List Entry)} (hS : Hashed hash S) (hok : StoreOk S) {t : List Entry}
    (ht : TreeOk t) (hc : Closed S t) : StoreOk (aset (hash t) t S) := by
  have hm := storeMono_aset hh hS t
  refine ⟨?_, ?_, ?_⟩
  rotate_left 2
  · rw [aget_aset_ne _ _ (Ne.symm (hh.nonnull t))]; exact hok.nonull
  · intro id x hx
    by_cases hid : id = hash t
    · subst hid
      rw [aget_aset_self] at hx
      simp only [Option.some.injEq] at hx
      subst hx; exact ht
    · rw [aget_aset_ne _ _ hid] at hx; exact hok.trees _ _ hx
  · intro id x hx e he hd
    right
    by_cases hid : id = hash t
    · subst hid
      rw [aget_aset_self] at hx
      simp only [Option.some.injEq] at hx
      subst hx
      exact (hc.mono hm) e he hd
    · rw [aget_aset_ne _ _ hid] at hx
      exact ((storeOk_closed hok hx).mono hm) e he hd

theorem null_not_stored {hash : List Entry → Bytes} (hh : HashOk hash)
    {S : Assoc Bytes (List Entry)} (hS : Hashed hash S) : aget nullId S = none := by
  cases h : aget nullId S with
  | none => rfl
  | some t => exact absurd (hS _ _ h) (hh.nonnull t)

/-! ### reading through the store alone -/

theorem resolve_storeEd (S : Assoc Bytes (List Entry)) (pb : Path) (oid : Bytes) :
    resolve (storeEd S) pb oid = if noFind oid then some [] else aget oid S := by
  simp [resolve, storeEd, aget]

theorem noFind_false {oid : Bytes} (h1 : oid ≠ emptyTreeId) (h2 : oid ≠ nullId) : noFind oid = false := by
  simp [noFind, h1, h2]

/-- growing the store does not change what a closed tree denotes -/
theorem lookup_store_mono {S S' : Assoc Bytes (List Entry)} (hS : StoreOk S) (hm : StoreMono S S')
    (q : Path) : ∀ (t : List Entry) (P : Path), Closed S t →
      lookupIn (storeEd S') t P q = lookupIn (storeEd S) t P q := by
  induction q with
  | nil => intro t P _; rfl
  | cons n rest ih =>
    intro t P hc
    cases rest with
    | nil => rfl
    | cons m rest' =>
      simp only [lookupIn]
      cases hf : findName t n with
      | none => rfl
      | some e =>
        simp only
        by_cases hd : e.isTree = true
        · simp only [hd, if_true, resolve_storeEd]
          by_cases he : noFind e.oid = true
          · simp only [he, if_true]
            rw [lookupIn_nil, lookupIn_nil]
          · simp only [he, Bool.false_eq_true, if_false]
            have hmem : e ∈ t := List.mem_of_find?_eq_some hf
            have := hc e hmem hd
            cases hs : aget e.oid S with
            | none => simp [hs] at this
            | some ts =>
              rw [hm _ _ hs]
              simp only
              exact ih ts _ (storeOk_closed hS hs)
        · simp [hd]

/-- with an empty cache the position of a tree is irrelevant -/
theorem lookup_store_path (S : Assoc Bytes (List Entry)) (q : Path) :
    ∀ (t : List Entry) (P P' : Path), lookupIn (storeEd S) t P q = lookupIn (storeEd S) t P' q := by
  induction q with
  | nil => intro t P P'; rfl
  | cons n rest ih =>
    intro t P P'
    cases rest with
    | nil => rfl
    | cons m rest' =>
      simp only [lookupIn]
      cases hf : findName t n with
      | none => rfl
      | some e =>
        simp only
        by_cases hd : e.isTree = true
        · simp only [hd, if_true, resolve_storeEd]
          cases (if noFind e.oid = true then some [] else aget e.oid S) with
          | none => rfl
          | some ts => exact ih ts _ _
        · simp [hd]

/-! ### the meaning of one entry -/

/-- what looking up `n :: qs` yields when the tree at `P` holds `o` under the name `n` -/
def entrySem (ed : Ed) (P : Path) (n : Bytes) (o : Option Entry) (qs : Path) : Option Leaf :=
  match qs with
  | [] => o.bind leafOf
  | m :: rest =>
    match o with
    | some e =>
      if e.isTree then
        match resolve ed (P ++ [n]) e.oid with
        | some t' => lookupIn ed t' (P ++ [n]) (m :: rest)
        | none => none
      else none
    | none => none

theorem lookupIn_cons_eq (ed : Ed) (t : List Entry) (P : Path) (n : Bytes) (qs : Path) :
    lookupIn ed t P (n :: qs) = entrySem ed P n (findName t n) qs := by
  cases qs with
  | nil => rfl
  | cons m rest =>
    simp only [lookupIn, entrySem]
    cases findName t n <;> rfl

/-! ### canonical trees -/

/-- A tree all of whose reachable sub-trees are in the store, sorted with unique valid names,
free of null ids, with directory entries of mode 040000 that never point at the empty tree: the
shape of the trees git writes. (Inductive: the descent through the store is well-founded.) -/
inductive Canon (S : Assoc Bytes (List Entry)) : List Entry → Prop
  | mk (t : List Entry) : TreeOk t → (∀ e ∈ t, e.oid ≠ nullId) → Closed S t →
      (∀ e ∈ t, e.isTree = true → ∀ t', aget e.oid S = some t' → Canon S t') → Canon S t

theorem Canon.treeOk {S : Assoc Bytes (List Entry)} {t : List Entry} (h : Canon S t) : TreeOk t := by
  cases h with | mk _ h1 _ _ _ => exact h1

theorem Canon.nonnull {S : Assoc Bytes (List Entry)} {t : List Entry} (h : Canon S t) :
    ∀ e ∈ t, e.oid ≠ nullId := by
  cases h with | mk _ _ h2 _ _ => exact h2

theorem Canon.closed {S : Assoc Bytes (List Entry)} {t : List Entry} (h : Canon S t) : Closed S t := by
  cases h with | mk _ _ _ h3 _ => exact h3

theorem Canon.child {S : Assoc Bytes (List Entry)} {t : List Entry} (h : Canon S t) :
    ∀ e ∈ t, e.isTree = true → ∀ t', aget e.oid S = some t' → Canon S t' := by
  cases h with | mk _ _ _ _ h4 => exact h4

theorem Canon.mono {S S' : Assoc Bytes (List Entry)} (hm : StoreMono S S') {t : List Entry}
    (h : Canon S t) : Canon S' t := by
  induction h with
  | mk t h1 h2 h3 _ ih =>
    refine Canon.mk t h1 h2 (h3.mono hm) ?_
    intro e he hd t' ht'
    have := h3 e he hd
    cases hs : aget e.oid S with
    | none => simp [hs] at this
    | some t0 =>
      have := hm _ _ hs
      rw [this] at ht'
      simp only [Option.some.injEq] at ht'
      subst ht'
      exact ih e he hd t0 hs

/-- every stored tree is canonical -/
def StoreCanon (S : Assoc Bytes (List Entry)) : Prop := ∀ id t, aget id S = some t → Canon S t

theorem storeCanon_aset {hash : List Entry → Bytes} (hh : HashOk hash)
    {S : Assoc Bytes (List Entry)} (hS : Hashed hash S) (hc : StoreCanon S) {t : List Entry}
    (ht : Canon S t) : StoreCanon (aset (hash t) t S) := by
  have hm := storeMono_aset hh hS t
  intro id x hx
  by_cases hid : id = hash t
  · subst hid
    rw [aget_aset_self] at hx
    simp only [Option.some.injEq] at hx
    subst hx; exact ht.mono hm
  · rw [aget_aset_ne _ _ hid] at hx
    exact (hc _ _ hx).mono hm

/-! ### the specification of `writeTree` -/

/-- the immutable picture of the editor when `write` started: cache `c0` (without the tree being
written itself) and store `s0` -/
structure Snap (hash : List Entry → Bytes) (c0 : Assoc Path (List Entry))
    (s0 : Assoc Bytes (List Entry)) : Prop where
  trees : ∀ K t, aget K c0 = some t → TreeOk t
  closed : ∀ K t, aget K c0 = some t → ∀ e ∈ t, e.isTree = true →
    (resolve ⟨c0, s0, []⟩ (K ++ [e.name]) e.oid).isSome = true
  below : ∀ K, aget K c0 = none → ∀ K', K <+: K' → aget K' c0 = none
  linked : ∀ K n tk, aget (K ++ [n]) c0 = some tk →
    ∃ tp e, aget K c0 = some tp ∧ findName tp n = some e ∧ e.isTree = true
  store : StoreOk s0
  hashed : Hashed hash s0
  canon : StoreCanon s0

structure WPre (hash : List Entry → Bytes) (c0 : Assoc Path (List Entry))
    (s0 : Assoc Bytes (List Entry)) (st : WState) (P : Path) (t : List Entry) : Prop where
  agree : ∀ K, P <+: K → K ≠ P → aget K st.cache = aget K c0
  mono : StoreMono s0 st.store
  storeOk : StoreOk st.store
  hashed : Hashed hash st.store
  allCanon : StoreCanon st.store
  tree : TreeOk t
  closed : ∀ e ∈ t, e.isTree = true → (resolve ⟨c0, s0, []⟩ (P ++ [e.name]) e.oid).isSome = true
  self : aget P c0 = some t

structure WPost (hash : List Entry → Bytes) (c0 : Assoc Path (List Entry))
    (s0 : Assoc Bytes (List Entry)) (st : WState) (P : Path) (t : List Entry)
    (r : WState × List Entry) : Prop where
  mono : StoreMono st.store r.1.store
  storeOk : StoreOk r.1.store
  hashed : Hashed hash r.1.store
  allCanon : StoreCanon r.1.store
  frame : ∀ K, ¬ (P <+: K ∧ K ≠ P) → aget K r.1.cache = aget K st.cache
  len : r.1.cache.length ≤ st.cache.length
  erased : ∀ K, P <+: K → K ≠ P → aget K r.1.cache = none
  tree : TreeOk r.2
  nonnull : ∀ e ∈ r.2, e.oid ≠ nullId
  closed : Closed r.1.store r.2
  canon : Canon r.1.store r.2
  sem : ∀ q, lookupIn (storeEd r.1.store) r.2 P q = lookupIn ⟨c0, s0, []⟩ t P q

def RecOk (hash : List Entry → Bytes) (c0 : Assoc Path (List Entry)) (s0 : Assoc Bytes (List Entry))
    (fuel : Nat) (rec : WState → Path → List Entry → WState × List Entry) : Prop :=
  ∀ st P t, WPre hash c0 s0 st P t → st.cache.length < fuel → WPost hash c0 s0 st P t (rec st P t)

/-- what `wstep` makes of entry `e`: `o`, correct when read through store `S` -/
structure EntryOut (c0 : Assoc Path (List Entry)) (s0 : Assoc Bytes (List Entry)) (P : Path)
    (S : Assoc Bytes (List Entry)) (e : Entry) (o : Option Entry) : Prop where
  shape : ∀ e', o = some e' → e'.name = e.name ∧ e'.isTree = e.isTree ∧ e'.oid ≠ nullId ∧
    GoodEntry e' ∧ (e'.isTree = true → (aget e'.oid S).isSome = true)
  canon : ∀ e', o = some e' → e'.isTree = true → ∀ ts, aget e'.oid S = some ts → Canon S ts
  sem : ∀ qs, entrySem (storeEd S) P e.name o qs = entrySem ⟨c0, s0, []⟩ P e.name (some e) qs

theorem EntryOut.mono {c0 : Assoc Path (List Entry)} {s0 S S' : Assoc Bytes (List Entry)} {P : Path}
    {e : Entry} {o : Option Entry} (h : EntryOut c0 s0 P S e o) (hS : StoreOk S)
    (hm : StoreMono S S') : EntryOut c0 s0 P S' e o := by
  constructor
  · intro e' ho
    obtain ⟨h1, h2, h3, h4, h5⟩ := h.shape e' ho
    refine ⟨h1, h2, h3, h4, ?_⟩
    intro hd
    have := h5 hd
    cases hs : aget e'.oid S with
    | none => simp [hs] at this
    | some ts => simp [hm _ _ hs]
  · intro e' ho hd ts hts
    have := (h.shape e' ho).2.2.2.2 hd
    cases hs : aget e'.oid S with
    | none => simp [hs] at this
    | some ts0 =>
      have h2 := hm _ _ hs
      rw [h2] at hts
      simp only [Option.some.injEq] at hts
      subst hts
      exact (h.canon e' ho hd ts0 hs).mono hm
  · intro qs
    rw [← h.sem qs]
    cases qs with
    | nil => rfl
    | cons m rest =>
      cases o with
      | none => rfl
      | some e' =>
        simp only [entrySem]
        by_cases hd : e'.isTree = true
        · simp only [hd, if_true, resolve_storeEd]
          by_cases he : noFind e'.oid = true
          · simp only [he, if_true]
            rw [lookupIn_nil, lookupIn_nil]
          · simp only [he, Bool.false_eq_true, if_false]
            have := (h.shape e' rfl).2.2.2.2 hd
            cases hs : aget e'.oid S with
            | none => simp [hs] at this
            | some ts =>
              rw [hm _ _ hs]
              simp only
              exact lookup_store_mono hS hm _ ts _ (storeOk_closed hS hs)
        · simp [hd]

theorem keep_eq (e : Entry) :
    (if (e.oid == nullId) = true then none else some e : Option Entry).bind leafOf = leafOf e := by
  by_cases h : e.oid == nullId
  · simp [h, leafOf]
  · simp [h]

/-- one entry -/
theorem wstep_spec {hash : List Entry → Bytes} (hh : HashOk hash) {c0 : Assoc Path (List Entry)}
    {s0 : Assoc Bytes (List Entry)} (hsnap : Snap hash c0 s0) {fuel : Nat}
    {rec : WState → Path → List Entry → WState × List Entry} (hrec : RecOk hash c0 s0 fuel rec)
    (st : WState) (P : Path) (e : Entry)
    (hagree : ∀ K, (P ++ [e.name]) <+: K → aget K st.cache = aget K c0)
    (hmono : StoreMono s0 st.store) (hok : StoreOk st.store) (hhashed : Hashed hash st.store)
    (hall : StoreCanon st.store)
    (hclosed : e.isTree = true → (resolve ⟨c0, s0, []⟩ (P ++ [e.name]) e.oid).isSome = true)
    (hgood : GoodEntry e) (hlen : st.cache.length ≤ fuel)
    (hnocache : e.isTree = false → aget (P ++ [e.name]) c0 = none) :
    let r := wstep hash rec P st e
    StoreMono st.store r.1.store ∧ StoreOk r.1.store ∧ Hashed hash r.1.store ∧ StoreCanon r.1.store ∧
    (∀ K, ¬ (P ++ [e.name]) <+: K → aget K r.1.cache = aget K st.cache) ∧
    r.1.cache.length ≤ st.cache.length ∧
    (∀ K, (P ++ [e.name]) <+: K → aget K r.1.cache = none) ∧ EntryOut c0 s0 P r.1.store e r.2 := by
  intro r
  by_cases hd : e.isTree = true
  · cases hc : aget (P ++ [e.name]) st.cache with
    | none =>
      -- a directory that was not touched: its id stays
      have hr : r = (st, if e.oid == nullId then none else some e) := by
        simp [r, wstep, hd, hc]
      have hc0 : aget (P ++ [e.name]) c0 = none := by rw [← hagree _ (List.prefix_refl _)]; exact hc
      have hres := hclosed hd
      simp only [resolve, hc0] at hres
      by_cases hnull : e.oid = nullId
      · -- a null-id placeholder directory nobody entered: it is dropped, and it held nothing
        have hnf : noFind e.oid = true := by simp [noFind, hnull]
        have hr' : r = (st, none) := by rw [hr]; simp [hnull]
        rw [hr']
        refine ⟨StoreMono.refl _, hok, hhashed, hall, fun _ _ => rfl, Nat.le_refl _, ?_, ?_, ?_, ?_⟩
        · intro K hK
          rw [hagree K hK]
          exact hsnap.below (P ++ [e.name]) hc0 K hK
        · intro e' ho; cases ho
        · intro e' ho; cases ho
        · intro qs
          cases qs with
          | nil => simp [entrySem, leafOf, hd]
          | cons m rest =>
            have hR : resolve ⟨c0, s0, []⟩ (P ++ [e.name]) e.oid = some [] := by
              simp [resolve, hc0, hnf]
            simp only [entrySem, hd, if_true, hR]
            rw [lookupIn_nil]
      have hne : noFind e.oid = false := noFind_false (hgood hd).1 hnull
      simp only [hne, Bool.false_eq_true, if_false] at hres
      cases hs : aget e.oid s0 with
      | none => simp [hs] at hres
      | some ts =>
        have hnn : (e.oid == nullId) = false := by
          cases h : e.oid == nullId with
          | false => rfl
          | true =>
            have : e.oid = nullId := by simpa using h
            rw [this, null_not_stored hh hsnap.hashed] at hs; cases hs
        rw [hr]
        refine ⟨StoreMono.refl _, hok, hhashed, hall, fun _ _ => rfl, Nat.le_refl _, ?_, ?_, ?_, ?_⟩
        · intro K hK
          rw [hagree K hK]
          exact hsnap.below (P ++ [e.name]) hc0 K hK
        · intro e' ho
          simp only [hnn, Bool.false_eq_true, if_false, Option.some.injEq] at ho
          subst ho
          refine ⟨rfl, rfl, by simpa using hnn, hgood, fun _ => by simp [hmono _ _ hs]⟩
        · intro e' ho _ ts' hts'
          simp only [hnn, Bool.false_eq_true, if_false, Option.some.injEq] at ho
          subst ho
          rw [hmono _ _ hs] at hts'
          simp only [Option.some.injEq] at hts'
          subst hts'
          exact (hsnap.canon _ _ hs).mono hmono
        · intro qs
          cases qs with
          | nil => simp only [entrySem]; exact keep_eq e
          | cons m rest =>
            have hL : resolve (storeEd st.store) (P ++ [e.name]) e.oid = some ts := by
              rw [resolve_storeEd]; simp [hne, hmono _ _ hs]
            have hR : resolve ⟨c0, s0, []⟩ (P ++ [e.name]) e.oid = some ts := by
              simp [resolve, hc0, hne, hs]
            simp only [hnn, Bool.false_eq_true, if_false, entrySem, hd, if_true, hL, hR]
            rw [lookup_store_mono hsnap.store hmono _ ts _ (storeOk_closed hsnap.store hs)]
            symm
            apply lookupIn_congr (ed := storeEd s0) (ed' := ⟨c0, s0, []⟩) rfl
            intro K hK hne'
            have h1 : aget K c0 = none :=
              hsnap.below (P ++ [e.name]) hc0 K hK
            simp [h1, storeEd, aget]
    | some sub =>
      -- a directory with a cached tree: write that first
      have hc0 : aget (P ++ [e.name]) c0 = some sub := by
        rw [← hagree _ (List.prefix_refl _)]; exact hc
      have hpre : WPre hash c0 s0 { st with cache := aerase (P ++ [e.name]) st.cache } (P ++ [e.name]) sub := by
        refine ⟨?_, hmono, hok, hhashed, hall, hsnap.trees _ _ hc0, hsnap.closed _ _ hc0, hc0⟩
        intro K hK hne
        show aget K (aerase (P ++ [e.name]) st.cache) = aget K c0
        rw [aget_aerase_ne _ hne]; exact hagree K hK
      have hlt : (aerase (P ++ [e.name]) st.cache).length < fuel :=
        Nat.lt_of_lt_of_le (aerase_length_lt hc) hlen
      have hpost := hrec _ _ _ hpre hlt
      have hframe : ∀ K, ¬ (P ++ [e.name]) <+: K →
          aget K (rec { st with cache := aerase (P ++ [e.name]) st.cache } (P ++ [e.name]) sub).1.cache
            = aget K st.cache := by
        intro K hK
        rw [hpost.frame K (fun h => hK h.1)]
        show aget K (aerase (P ++ [e.name]) st.cache) = aget K st.cache
        exact aget_aerase_ne _ (fun h => hK (h ▸ List.prefix_refl _))
      have hlen' : (rec { st with cache := aerase (P ++ [e.name]) st.cache } (P ++ [e.name]) sub).1.cache.length
          ≤ st.cache.length :=
        Nat.le_trans hpost.len (aerase_length_le _ _)
      have herased : ∀ K, (P ++ [e.name]) <+: K →
          aget K (rec { st with cache := aerase (P ++ [e.name]) st.cache } (P ++ [e.name]) sub).1.cache = none := by
        intro K hK
        by_cases hKe : K = P ++ [e.name]
        · subst hKe
          rw [hpost.frame _ (fun h => h.2 rfl)]
          exact aget_aerase_self _ _
        · exact hpost.erased K hK hKe
      have hresolve0 : resolve ⟨c0, s0, []⟩ (P ++ [e.name]) e.oid = some sub := by
        simp [resolve, hc0]
      by_cases hempty : (rec { st with cache := aerase (P ++ [e.name]) st.cache } (P ++ [e.name]) sub).2.isEmpty = true
      · have hr : r = ((rec { st with cache := aerase (P ++ [e.name]) st.cache } (P ++ [e.name]) sub).1, none) := by
          simp [r, wstep, hd, hc, hempty]
        rw [hr]
        refine ⟨hpost.mono, hpost.storeOk, hpost.hashed, hpost.allCanon, hframe, hlen', herased, ?_, ?_, ?_⟩
        · intro e' ho; cases ho
        · intro e' ho; cases ho
        · intro qs
          cases qs with
          | nil => simp [entrySem, leafOf, hd]
          | cons m rest =>
            simp only [entrySem, hd, if_true, hresolve0]
            rw [← hpost.sem]
            have : (rec { st with cache := aerase (P ++ [e.name]) st.cache } (P ++ [e.name]) sub).2 = [] :=
              List.isEmpty_iff.1 hempty
            rw [this, lookupIn_nil]
      · have hne : (rec { st with cache := aerase (P ++ [e.name]) st.cache } (P ++ [e.name]) sub).2 ≠ [] := by
          intro h; rw [h] at hempty; exact hempty rfl
        generalize hr0 : rec { st with cache := aerase (P ++ [e.name]) st.cache } (P ++ [e.name]) sub = r0 at *
        have hnn : (hash r0.2 == nullId) = false := by
          cases h : hash r0.2 == nullId with
          | false => rfl
          | true => exact absurd (by simpa using h) (hh.nonnull r0.2)
        have hnE : hash r0.2 ≠ emptyTreeId := by
          intro h
          rw [← hh.empty] at h
          exact hne (hh.inj _ _ h)
        have hnE' : noFind (hash r0.2) = false := noFind_false hnE (hh.nonnull r0.2)
        have hr : r = ({ r0.1 with store := aset (hash r0.2) r0.2 r0.1.store, calls := r0.1.calls + 1 },
            some { e with oid := hash r0.2 }) := by
          simp [r, wstep, hd, hc, hr0, hempty, hnn]
        have hm1 := storeMono_aset hh hpost.hashed r0.2
        rw [hr]
        refine ⟨hpost.mono.trans hm1, storeOk_aset hh hpost.hashed hpost.storeOk hpost.tree hpost.closed,
          hashed_aset hpost.hashed r0.2, storeCanon_aset hh hpost.hashed hpost.allCanon hpost.canon,
          hframe, hlen', herased, ?_, ?_, ?_⟩
        · intro e' ho
          simp only [Option.some.injEq] at ho
          subst ho
          exact ⟨rfl, rfl, hh.nonnull _, fun _ => ⟨hnE, (hgood hd).2⟩, fun _ => by simp [aget_aset_self]⟩
        · intro e' ho _ ts hts
          simp only [Option.some.injEq] at ho
          subst ho
          rw [aget_aset_self] at hts
          simp only [Option.some.injEq] at hts
          subst hts
          exact hpost.canon.mono hm1
        · intro qs
          cases qs with
          | nil => simp [entrySem, leafOf, hd, Entry.isTree] <;> simp_all [Entry.isTree]
          | cons m rest =>
            have hd' : ({ e with oid := hash r0.2 } : Entry).isTree = true := hd
            simp only [entrySem, hd', hd, if_true, hresolve0, resolve_storeEd, hnE', Bool.false_eq_true,
              if_false, aget_aset_self]
            rw [lookup_store_mono hpost.storeOk hm1 _ r0.2 _ hpost.closed]
            exact hpost.sem _
  · -- not a directory
    have hd' : e.isTree = false := by cases h : e.isTree <;> simp_all
    have hr : r = (st, if e.oid == nullId then none else some e) := by
      simp [r, wstep, hd']
    rw [hr]
    refine ⟨StoreMono.refl _, hok, hhashed, hall, fun _ _ => rfl, Nat.le_refl _, ?_, ?_, ?_, ?_⟩
    · intro K hK
      rw [hagree K hK]
      exact hsnap.below (P ++ [e.name]) (hnocache hd') K hK
    · intro e' ho
      by_cases hn : e.oid == nullId
      · simp [hn] at ho
      · simp only [hn, Bool.false_eq_true, if_false, Option.some.injEq] at ho
        subst ho
        exact ⟨rfl, rfl, by simpa using hn, hgood, fun h => by rw [hd'] at h; cases h⟩
    · intro e' ho he'
      by_cases hn : e.oid == nullId
      · simp [hn] at ho
      · simp only [hn, Bool.false_eq_true, if_false, Option.some.injEq] at ho
        subst ho
        rw [hd'] at he'; cases he'
    · intro qs
      cases qs with
      | nil => simp only [entrySem]; exact keep_eq e
      | cons m rest =>
        by_cases hn : e.oid == nullId
        · simp [entrySem, hn, hd']
        · simp [entrySem, hn, hd']

/-! ### all entries of one tree -/

/-- outputs aligned with inputs -/
def Aligned (R : Entry → Option Entry → Prop) : List Entry → List (Option Entry) → Prop
  | [], [] => True
  | e :: es, o :: os => R e o ∧ Aligned R es os
  | _, _ => False

theorem mapAccum_spec {hash : List Entry → Bytes} (hh : HashOk hash) {c0 : Assoc Path (List Entry)}
    {s0 : Assoc Bytes (List Entry)} (hsnap : Snap hash c0 s0) {fuel : Nat}
    {rec : WState → Path → List Entry → WState × List Entry} (hrec : RecOk hash c0 s0 fuel rec)
    (P : Path) (t : List Entry) (ht : TreeOk t)
    (hclosed : ∀ e ∈ t, e.isTree = true → (resolve ⟨c0, s0, []⟩ (P ++ [e.name]) e.oid).isSome = true)
    (hself : aget P c0 = some t) :
    ∀ (todo : List Entry), (∀ e ∈ todo, e ∈ t) → (todo.map (·.name)).Nodup →
    ∀ (st : WState), (∀ e ∈ todo, ∀ K, (P ++ [e.name]) <+: K → aget K st.cache = aget K c0) →
      StoreMono s0 st.store → StoreOk st.store → Hashed hash st.store → StoreCanon st.store →
      st.cache.length ≤ fuel →
      StoreMono st.store (mapAccum (wstep hash rec P) st todo).1.store ∧
      StoreOk (mapAccum (wstep hash rec P) st todo).1.store ∧
      Hashed hash (mapAccum (wstep hash rec P) st todo).1.store ∧
      StoreCanon (mapAccum (wstep hash rec P) st todo).1.store ∧
      (∀ K, (∀ e ∈ todo, ¬ (P ++ [e.name]) <+: K) →
        aget K (mapAccum (wstep hash rec P) st todo).1.cache = aget K st.cache) ∧
      (mapAccum (wstep hash rec P) st todo).1.cache.length ≤ st.cache.length ∧
      (∀ e ∈ todo, ∀ K, (P ++ [e.name]) <+: K →
        aget K (mapAccum (wstep hash rec P) st todo).1.cache = none) ∧
      Aligned (EntryOut c0 s0 P (mapAccum (wstep hash rec P) st todo).1.store) todo
        (mapAccum (wstep hash rec P) st todo).2 := by
  intro todo
  induction todo with
  | nil =>
    intro _ _ st _ _ hok hha hall _
    exact ⟨StoreMono.refl _, hok, hha, hall, fun _ _ => rfl, Nat.le_refl _, by simp, trivial⟩
  | cons e es ih =>
    intro hsub hnd st hagree hmono hok hha hall hlen
    have het : e ∈ t := hsub e (by simp)
    have hnd' : e.name ∉ es.map (·.name) ∧ (es.map (·.name)).Nodup := by
      have := hnd
      simp only [List.map_cons] at this
      exact List.nodup_cons.1 this
    have hnocache : e.isTree = false → aget (P ++ [e.name]) c0 = none := by
      intro hd
      cases hc : aget (P ++ [e.name]) c0 with
      | none => rfl
      | some tk =>
        obtain ⟨tp, e2, h1, h2, h3⟩ := hsnap.linked P e.name tk hc
        rw [hself] at h1
        simp only [Option.some.injEq] at h1
        subst h1
        have := (findName_eq_some_iff ht.uniq).1 h2
        have : e2 = e := uniq_name_eq ht.uniq this.1 het this.2
        subst this
        rw [hd] at h3; cases h3
    obtain ⟨m1, ok1, ha1, all1, fr1, len1, er1, out1⟩ := wstep_spec hh hsnap hrec st P e
      (hagree e (by simp)) hmono hok hha hall (hclosed e het) (ht.good e het) hlen hnocache
    have hagree' : ∀ e' ∈ es, ∀ K, (P ++ [e'.name]) <+: K →
        aget K (wstep hash rec P st e).1.cache = aget K c0 := by
      intro e' he' K hK
      have hne : e'.name ≠ e.name := by
        intro h
        exact hnd'.1 (List.mem_map.2 ⟨e', he', h⟩)
      rw [fr1 K (under_child_ne hne hK).1]
      exact hagree e' (List.mem_cons_of_mem _ he') K hK
    obtain ⟨m2, ok2, ha2, all2, fr2, len2, er2, out2⟩ := ih (fun x hx => hsub x (List.mem_cons_of_mem _ hx)) hnd'.2
      (wstep hash rec P st e).1 hagree' (hmono.trans m1) ok1 ha1 all1 (Nat.le_trans len1 hlen)
    simp only [mapAccum]
    refine ⟨m1.trans m2, ok2, ha2, all2, ?_, Nat.le_trans len2 len1, ?_, ⟨out1.mono ok1 m2, out2⟩⟩
    · intro K hK
      rw [fr2 K (fun x hx => hK x (List.mem_cons_of_mem _ hx)), fr1 K (hK e (by simp))]
    · intro x hx K hK
      rcases List.mem_cons.1 hx with rfl | hx'
      · -- erased by the head step, untouched by the rest (other names)
        rw [fr2 K ?_]
        · exact er1 K hK
        · intro y hy
          have hne : x.name ≠ y.name := by
            intro h
            exact hnd'.1 (List.mem_map.2 ⟨y, hy, h.symm⟩)
          exact (under_child_ne hne hK).1
      · exact er2 x hx' K hK

theorem findName_cons (x : Entry) (l : List Entry) (n : Bytes) :
    findName (x :: l) n = if x.name = n then some x else findName l n := by
  by_cases h : x.name = n
  · simp [findName, List.find?, h]
  · have : (x.name == n) = false := by simpa using h
    simp [findName, List.find?, h, this]

theorem treeOk_tail {e : Entry} {t : List Entry} (h : TreeOk (e :: t)) :
    TreeOk t ∧ (∀ b ∈ t, entryCmp e b = .lt) ∧ (∀ b ∈ t, b.name ≠ e.name) := by
  have := treeOk_unsplice (L := []) (x := e) (R := t) (by simpa using h)
  simpa using ⟨this.1, this.2.2.1, this.2.2.2⟩

/-- the tree assembled from aligned outputs -/
theorem aligned_tree {c0 : Assoc Path (List Entry)} {s0 S : Assoc Bytes (List Entry)} {P : Path} :
    ∀ (t : List Entry) (os : List (Option Entry)), Aligned (EntryOut c0 s0 P S) t os → TreeOk t →
      TreeOk (os.filterMap id) ∧ (∀ x ∈ os.filterMap id, x.oid ≠ nullId) ∧
      Closed S (os.filterMap id) ∧
      (∀ x ∈ os.filterMap id, x.isTree = true → ∀ ts, aget x.oid S = some ts → Canon S ts) ∧
      (∀ x ∈ os.filterMap id, ∃ e ∈ t, x.name = e.name ∧ x.isTree = e.isTree) ∧
      (∀ n qs, entrySem (storeEd S) P n (findName (os.filterMap id) n) qs =
        entrySem ⟨c0, s0, []⟩ P n (findName t n) qs) := by
  intro t
  induction t with
  | nil =>
    intro os hal _
    cases os with
    | nil =>
      refine ⟨treeOk_nil, ?_, ?_, ?_, ?_, ?_⟩
      · intro x hx; cases hx
      · intro x hx; cases hx
      · intro x hx; cases hx
      · intro x hx; cases hx
      · intro n qs; rfl
    | cons o os' => exact absurd hal id
  | cons e t' ih =>
    intro os hal ht
    cases os with
    | nil => exact absurd hal id
    | cons o os' =>
      obtain ⟨hout, hal'⟩ := hal
      obtain ⟨ht', hlt, hne⟩ := treeOk_tail ht
      obtain ⟨ok', nn', cl', cn', corr', sem'⟩ := ih os' hal' ht'
      have hnoname : ∀ x ∈ os'.filterMap id, x.name ≠ e.name := by
        intro x hx
        obtain ⟨e2, he2, h1, _⟩ := corr' x hx
        rw [h1]; exact hne e2 he2
      cases o with
      | none =>
        simp only [List.filterMap_cons, id]
        refine ⟨ok', nn', cl', cn', ?_, ?_⟩
        · intro x hx
          obtain ⟨e2, he2, h⟩ := corr' x hx
          exact ⟨e2, List.mem_cons_of_mem _ he2, h⟩
        · intro n qs
          rw [findName_cons]
          by_cases hn : e.name = n
          · subst hn
            simp only [if_true]
            have : findName (os'.filterMap id) e.name = none := findName_eq_none_iff.2 hnoname
            rw [this]; exact hout.sem qs
          · simp only [hn, if_false]; exact sem' n qs
      | some e' =>
        obtain ⟨h1, h2, h3, h4, h5⟩ := hout.shape e' rfl
        simp only [List.filterMap_cons, id]
        have hok : TreeOk (e' :: os'.filterMap id) := by
          have := treeOk_splice (L := []) (R := os'.filterMap id) (y := e') (by simpa using ok')
            (h1 ▸ ht.names e (by simp)) h4 (by simpa [h1] using hnoname) (by simp) (by
              intro b hb
              obtain ⟨e2, he2, hb1, hb2⟩ := corr' b hb
              rw [entryCmp_congr h1 h2 hb1 hb2]; exact hlt e2 he2)
          simpa using this
        refine ⟨hok, ?_, ?_, ?_, ?_, ?_⟩
        · intro x hx
          rcases List.mem_cons.1 hx with rfl | hx'
          · exact h3
          · exact nn' x hx'
        · intro x hx hd
          rcases List.mem_cons.1 hx with rfl | hx'
          · exact h5 hd
          · exact cl' x hx' hd
        · intro x hx hd
          rcases List.mem_cons.1 hx with rfl | hx'
          · exact hout.canon x rfl hd
          · exact cn' x hx' hd
        · intro x hx
          rcases List.mem_cons.1 hx with rfl | hx'
          · exact ⟨e, by simp, h1, h2⟩
          · obtain ⟨e2, he2, h⟩ := corr' x hx'
            exact ⟨e2, List.mem_cons_of_mem _ he2, h⟩
        · intro n qs
          rw [findName_cons, findName_cons, h1]
          by_cases hn : e.name = n
          · subst hn
            simp only [if_true]; exact hout.sem qs
          · simp only [hn, if_false]; exact sem' n qs

/-- `writeTree` meets its specification for every amount of fuel that covers the cache -/
theorem writeTree_spec {hash : List Entry → Bytes} (hh : HashOk hash) {c0 : Assoc Path (List Entry)}
    {s0 : Assoc Bytes (List Entry)} (hsnap : Snap hash c0 s0) :
    ∀ fuel, RecOk hash c0 s0 fuel (writeTree hash fuel) := by
  intro fuel
  induction fuel with
  | zero => intro st P t _ hlt; exact absurd hlt (Nat.not_lt_zero _)
  | succ fuel ih =>
    intro st P t hpre hlt
    have hnd : (t.map (·.name)).Nodup := hpre.tree.uniq
    obtain ⟨m, ok, ha, hallc, fr, len, er, al⟩ := mapAccum_spec hh hsnap ih P t hpre.tree hpre.closed hpre.self t
      (fun _ h => h) hnd st
      (fun e _ K hK => hpre.agree K ((List.prefix_append P [e.name]).trans hK) (by
        intro h; subst h; exact not_prefix_append_singleton _ _ hK))
      hpre.mono hpre.storeOk hpre.hashed hpre.allCanon (Nat.le_of_lt_succ hlt)
    obtain ⟨tok, nn, cl, cn, _, sem⟩ := aligned_tree t _ al hpre.tree
    show WPost hash c0 s0 st P t
      ((mapAccum (wstep hash (writeTree hash fuel) P) st t).1,
       (mapAccum (wstep hash (writeTree hash fuel) P) st t).2.filterMap id)
    refine ⟨m, ok, ha, hallc, ?_, len, ?_, tok, nn, cl, Canon.mk _ tok nn cl cn, ?_⟩
    · intro K hK
      apply fr
      intro e _ hpre'
      apply hK
      exact ⟨(List.prefix_append P [e.name]).trans hpre', by
        intro h; subst h; exact not_prefix_append_singleton _ _ hpre'⟩
    · -- every cache entry strictly below `P` is gone
      intro K hK hne
      obtain ⟨S, rfl⟩ := hK
      cases S with
      | nil => exact absurd (by simp) hne
      | cons n rest =>
        have hpre' : (P ++ [n]) <+: (P ++ n :: rest) := ⟨rest, by simp [List.append_assoc]⟩
        by_cases hex : ∃ e ∈ t, e.name = n
        · obtain ⟨e, he, hen⟩ := hex
          exact er e he _ (hen ▸ hpre')
        · -- no entry of that name: nothing was cached there in the first place
          have hc0 : aget (P ++ [n]) c0 = none := by
            cases hc : aget (P ++ [n]) c0 with
            | none => rfl
            | some tk =>
              obtain ⟨tp, e2, h1, h2, _⟩ := hsnap.linked P n tk hc
              rw [hpre.self] at h1
              simp only [Option.some.injEq] at h1
              subst h1
              have := (findName_eq_some_iff hpre.tree.uniq).1 h2
              exact absurd ⟨e2, this.1, this.2⟩ hex
          rw [fr _ (fun e he hpe => hex ⟨e, he, ((under_child_ne (m := n) (n := e.name)
            (fun h => hex ⟨e, he, h.symm⟩) hpre').1 hpe).elim⟩)]
          rw [hpre.agree _ ⟨n :: rest, rfl⟩ (by
            intro h
            have := congrArg List.length h
            simp at this)]
          exact hsnap.below _ hc0 _ hpre'
    · intro q
      cases q with
      | nil => rfl
      | cons n qs => rw [lookupIn_cons_eq, lookupIn_cons_eq]; exact sem n qs

end GixModel.C04
