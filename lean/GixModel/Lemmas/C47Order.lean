import GixModel.Lemmas.C47TopoFinal
import GixModel.Spec.C47Order
/-
C47 — lemmas, part 11: the SEQUENCE of a topo walk over all parents is git's (`Spec.C47.gitKahn`).

The model's run is simulated step by step by the specification's: `QRel` relates the topo queue
of the model (any lawful max-first date queue resp. the stack) to the specification's queue;
`deg_iff_ready` is the bridge: when the model looks at the in-degree of a parent (after the
in-degrees were completed down to its generation) the counter says "all children emitted" exactly
when the specification's `ready` test does.
-/
namespace GixModel.C47
open GixModel GixModel.CG GixModel.Spec.C47

/-- is this a `--date-order` walk? -/
def dOrd (E : TopoEnv) : Bool := E.cfg.sorting == TopoSorting.dateOrder

/-- additional hypotheses of the order theorems -/
structure OCtx (E : TopoEnv) (tips ends : List Nat) (sel : Nat → Bool) : Prop where
  all_parents : E.cfg.firstParent = false
  sel_iff : ∀ x, sel x = true ↔ (Rch E tips ends x ∧ ¬ Hid E ends x)
  date_max : ∀ s e s', E.qd.pop s = some (e, s') → ∀ x, x ∈ E.qd.items s → DateKey.le x.1 e.1 = true

section
variable {E : TopoEnv} {nodes tips ends : List Nat} {sel : Nat → Bool}

theorem OCtx.walk (o : OCtx E tips ends sel) (c : Nat) : walkParents E c = E.g.parents c := by
  simp [walkParents, o.all_parents]

/-! ### the queues -/

def QRel (E : TopoEnv) (s : TS E) (k : KQ) : Prop :=
  match E.cfg.sorting with
  | .dateOrder => (E.qd.items s.dateQ).Perm k.dq ∧ s.dateCtr = k.ctr ∧ (k.dq.map (·.1.2)).Nodup ∧
      ∀ e, e ∈ k.dq → e.1.2 < k.ctr
  | .topoOrder => s.stack.map (·.2) = k.stack ∧ ∀ e, e ∈ s.stack → e.1 = E.g.time e.2

theorem QRel.frame {s s' : TS E} {k : KQ} (h : QRel E s k) (h1 : s'.dateQ = s.dateQ)
    (h2 : s'.dateCtr = s.dateCtr) (h3 : s'.stack = s.stack) : QRel E s' k := by
  unfold QRel at h ⊢
  cases hs : E.cfg.sorting with
  | dateOrder => rw [hs] at h; dsimp only at h ⊢; rw [h1, h2]; exact h
  | topoOrder => rw [hs] at h; dsimp only at h ⊢; rw [h3]; exact h

theorem QRel.push (ctx : TCtx E nodes tips ends) {s : TS E} {k : KQ} (h : QRel E s k) (c : Nat) :
    QRel E (tqPush E s (E.g.time c) c) (kPush E.g (dOrd E) k c) := by
  unfold QRel at h ⊢
  unfold tqPush kPush dOrd
  cases hs : E.cfg.sorting with
  | dateOrder =>
    rw [hs] at h
    dsimp only at h ⊢
    obtain ⟨h1, h2, h3, h4⟩ := h
    simp only [beq_self_eq_true, if_true]
    refine ⟨?_, by rw [h2], ?_, ?_⟩
    · refine (ctx.qd_lawful.items_insert _ _ _).trans ?_
      rw [h2]
      exact List.Perm.cons _ h1
    · simp only [List.map_cons]
      apply List.nodup_cons.mpr
      refine ⟨?_, h3⟩
      intro hmem
      obtain ⟨e, he, hec⟩ := List.mem_map.mp hmem
      have := h4 e he
      omega
    · intro e he
      cases List.mem_cons.mp he with
      | inl h' => subst h'; simp
      | inr h' => have := h4 e h'; omega
  | topoOrder =>
    rw [hs] at h
    dsimp only at h ⊢
    have : (TopoSorting.topoOrder == TopoSorting.dateOrder) = false := by decide
    simp only [this, Bool.false_eq_true, if_false]
    refine ⟨by simp [h.1], ?_⟩
    intro e he
    cases List.mem_cons.mp he with
    | inl h' => subst h'; rfl
    | inr h' => exact h.2 e h'

theorem popMax_none : ∀ (l : List (DKey × Nat)), popMax l = none → l = [] := by
  intro l
  cases l with
  | nil => intro _; rfl
  | cons e rest =>
    intro h
    unfold popMax at h
    cases hr : popMax rest with
    | none => rw [hr] at h; cases h
    | some r =>
      obtain ⟨m, rest'⟩ := r
      rw [hr] at h
      dsimp only at h
      split at h <;> cases h

theorem DKey.le_total (a b : DKey) : DKey.le a b = false → DKey.le b a = true := by
  simp only [DKey.le, Bool.or_eq_false_iff, decide_eq_false_iff_not, Bool.and_eq_false_imp, beq_iff_eq,
    Bool.or_eq_true, decide_eq_true_eq, Bool.and_eq_true]
  intro ⟨h1, h2⟩
  by_cases heq : a.1 = b.1
  · have := h2 heq
    right
    exact ⟨heq.symm, by omega⟩
  · left; omega

theorem DKey.le_trans (a b c : DKey) : DKey.le a b = true → DKey.le b c = true → DKey.le a c = true := by
  simp only [DKey.le, Bool.or_eq_true, decide_eq_true_eq, Bool.and_eq_true, beq_iff_eq]
  intro h1 h2
  rcases h1 with h1 | ⟨h1, h1'⟩ <;> rcases h2 with h2 | ⟨h2, h2'⟩
  · left; omega
  · left; omega
  · left; omega
  · right; exact ⟨by omega, by omega⟩

theorem DKey.le_antisymm (a b : DKey) : DKey.le a b = true → DKey.le b a = true → a = b := by
  simp only [DKey.le, Bool.or_eq_true, decide_eq_true_eq, Bool.and_eq_true, beq_iff_eq]
  intro h1 h2
  rcases a with ⟨a1, a2⟩
  rcases b with ⟨b1, b2⟩
  simp only at h1 h2
  have : a1 = b1 := by omega
  have : a2 = b2 := by omega
  subst_vars
  rfl

theorem popMax_spec : ∀ (l : List (DKey × Nat)) e l', popMax l = some (e, l') →
    l.Perm (e :: l') ∧ ∀ x, x ∈ l → DKey.le x.1 e.1 = true := by
  intro l
  induction l with
  | nil => intro e l' h; cases h
  | cons y rest ih =>
    intro e l' h
    have hrefl : ∀ a : DKey, DKey.le a a = true := by
      intro a
      cases h' : DKey.le a a with
      | true => rfl
      | false => have := DKey.le_total a a h'; rw [h'] at this; cases this
    unfold popMax at h
    cases hr : popMax rest with
    | none =>
      rw [hr] at h
      have := popMax_none rest hr
      subst this
      cases h
      refine ⟨List.Perm.refl _, ?_⟩
      intro x hx
      simp only [List.mem_singleton] at hx
      subst hx; exact hrefl _
    | some r =>
      obtain ⟨m, rest'⟩ := r
      rw [hr] at h
      dsimp only at h
      obtain ⟨hp, hm⟩ := ih m rest' hr
      by_cases hle : DKey.le m.1 y.1 = true
      · rw [if_pos hle] at h
        cases h
        refine ⟨List.Perm.cons _ hp, ?_⟩
        intro x hx
        cases List.mem_cons.mp hx with
        | inl h' => subst h'; exact hrefl _
        | inr h' => exact DKey.le_trans _ _ _ (hm x h') hle
      · rw [if_neg hle] at h
        cases h
        refine ⟨(List.Perm.cons y hp).trans (List.Perm.swap _ _ _), ?_⟩
        intro x hx
        have hym : DKey.le y.1 e.1 = true := DKey.le_total _ _ (by simpa using hle)
        cases List.mem_cons.mp hx with
        | inl h' => subst h'; exact hym
        | inr h' => exact hm x h'

theorem eq_of_nodup_map {α β : Type} (f : α → β) : ∀ {l : List α}, (l.map f).Nodup → ∀ {a b : α}, a ∈ l → b ∈ l →
    f a = f b → a = b := by
  intro l
  induction l with
  | nil => intro _ a b ha; simp at ha
  | cons x xs ih =>
    intro hnd a b ha hb hab
    simp only [List.map_cons] at hnd
    have hnd' := List.nodup_cons.mp hnd
    cases List.mem_cons.mp ha with
    | inl h1 =>
      cases List.mem_cons.mp hb with
      | inl h2 => rw [h1, h2]
      | inr h2 =>
        exfalso
        apply hnd'.1
        rw [← h1, hab]
        exact List.mem_map.mpr ⟨b, h2, rfl⟩
    | inr h1 =>
      cases List.mem_cons.mp hb with
      | inl h2 =>
        exfalso
        apply hnd'.1
        rw [← h2, ← hab]
        exact List.mem_map.mpr ⟨a, h1, rfl⟩
      | inr h2 => exact ih hnd'.2 h1 h2 hab

theorem QRel.pop (ctx : TCtx E nodes tips ends) (o : OCtx E tips ends sel) {s s' : TS E} {k : KQ} {c : Nat}
    (h : QRel E s k) (hpop : tqPop E s = some (c, s')) :
    ∃ k', kPop (dOrd E) k = some (c, k') ∧ QRel E s' k' := by
  unfold QRel at h ⊢
  unfold tqPop at hpop
  unfold kPop dOrd
  cases hs : E.cfg.sorting with
  | dateOrder =>
    rw [hs] at h hpop
    dsimp only at h hpop ⊢
    obtain ⟨h1, h2, h3, h4⟩ := h
    simp only [beq_self_eq_true, if_true]
    cases hp : E.qd.pop s.dateQ with
    | none => rw [hp] at hpop; cases hpop
    | some r =>
      obtain ⟨⟨key, c'⟩, qu⟩ := r
      rw [hp] at hpop
      simp only [Option.some.injEq, Prod.mk.injEq] at hpop
      obtain ⟨hc, hs'⟩ := hpop
      subst hc; subst hs'
      have hperm := ctx.qd_lawful.pop_some _ _ _ hp
      have hmax := o.date_max _ _ _ hp
      have hin : (key, c') ∈ k.dq := h1.subset (hperm.symm.subset List.mem_cons_self)
      cases hk : popMax k.dq with
      | none =>
        have := popMax_none _ hk
        rw [this] at hin; simp at hin
      | some r2 =>
        obtain ⟨e, rest⟩ := r2
        obtain ⟨hp2, hm2⟩ := popMax_spec _ _ _ hk
        have he_in : e ∈ k.dq := hp2.symm.subset List.mem_cons_self
        have hle1 : DKey.le key e.1 = true := hm2 _ hin
        have hle2 : DKey.le e.1 key = true := hmax e (h1.symm.subset he_in)
        have hkeyeq : key = e.1 := DKey.le_antisymm _ _ hle1 hle2
        have heq : (key, c') = e := eq_of_nodup_map (fun x : DKey × Nat => x.1.2) h3 hin he_in (by rw [hkeyeq])
        subst heq
        dsimp only
        refine ⟨_, rfl, ?_, h2, ?_, ?_⟩
        · have : ((key, c') :: E.qd.items qu).Perm ((key, c') :: rest) := hperm.symm.trans (h1.trans hp2)
          exact this.cons_inv
        · have := (hp2.map (fun x : DKey × Nat => x.1.2)).nodup_iff.mp h3
          simp only [List.map_cons] at this
          exact (List.nodup_cons.mp this).2
        · intro x hx
          exact h4 x (hp2.symm.subset (List.mem_cons_of_mem _ hx))
  | topoOrder =>
    rw [hs] at h hpop
    dsimp only at h hpop ⊢
    have hne : (TopoSorting.topoOrder == TopoSorting.dateOrder) = false := by decide
    simp only [hne, Bool.false_eq_true, if_false]
    cases hst : s.stack with
    | nil => rw [hst] at hpop; cases hpop
    | cons e rest =>
      obtain ⟨t, c'⟩ := e
      rw [hst] at hpop h
      simp only [Option.some.injEq, Prod.mk.injEq] at hpop
      obtain ⟨hc, hs'⟩ := hpop
      subst hc; subst hs'
      simp only [List.map_cons] at h
      rw [← h.1]
      exact ⟨_, rfl, rfl, fun e he => h.2 e (List.mem_cons_of_mem _ he)⟩

theorem QRel.pop_none (ctx : TCtx E nodes tips ends) {s : TS E} {k : KQ}
    (h : QRel E s k) (hpop : tqPop E s = none) : kPop (dOrd E) k = none := by
  unfold QRel at h
  unfold tqPop at hpop
  unfold kPop dOrd
  cases hs : E.cfg.sorting with
  | dateOrder =>
    rw [hs] at h hpop
    dsimp only at h hpop ⊢
    simp only [beq_self_eq_true, if_true]
    cases hp : E.qd.pop s.dateQ with
    | none =>
      have hnil := ctx.qd_lawful.pop_none _ hp
      have : k.dq = [] := by
        have := h.1
        rw [hnil] at this
        exact List.Perm.eq_nil this.symm
      rw [this]; rfl
    | some r => obtain ⟨⟨key, c'⟩, qu⟩ := r; rw [hp] at hpop; cases hpop
  | topoOrder =>
    rw [hs] at h hpop
    dsimp only at h hpop ⊢
    have hne : (TopoSorting.topoOrder == TopoSorting.dateOrder) = false := by decide
    simp only [hne, Bool.false_eq_true, if_false]
    cases hst : s.stack with
    | nil => rw [hst] at h; simp only [List.map_nil] at h; rw [← h.1]
    | cons e rest => obtain ⟨t, c'⟩ := e; rw [hst] at hpop; cases hpop

/-! ### the bridge between the in-degree counters and `ready` -/

theorem deg_iff_ready (ctx : TCtx E nodes tips ends) (o : OCtx E tips ends sel) {s : TS E}
    {outp cur pend : List Nat} {p : Nat} {d : Int} (hw : WInv E nodes tips ends s outp cur pend)
    (hmin : s.minGen ≤ E.g.gen p) (hpr : Rch E tips ends p) (hpe : p ∉ ends) (hpo : p ∉ outp)
    (hget : s.indeg.get p = some d) :
    (d = 1 + (if p ∈ cur then 1 else 0)) ↔ ready E.g sel nodes outp p = true := by
  have hdeg := hw.n.deg_ok p hpo
  simp only [DegOk, hget] at hdeg
  have hcounted : ∀ x, Rch E tips ends x → E.g.gen p ≤ E.g.gen x → countedB E s x = true :=
    fun x hx hg => counted_of_depth ctx hw.n hw.depth hx (by omega)
  have hkidcounted : ∀ c, Rch E tips ends c → p ∈ E.g.parents c → countedB E s c = true := by
    intro c hc hp
    exact hcounted c hc (ctx.genmono c p hp)
  -- a hidden `p` has a counted child that is never emitted
  have hhid : Hid E ends p → 1 ≤ cnt E nodes s outp p := by
    intro hh
    obtain ⟨c', hc1, hc2, hc3⟩ := ctx.hid_walk p hh hpr hpe
    have hc'c := hcounted c' hc2 (ctx.gen_le_walk hc3)
    have hc'o : c' ∉ outp := fun hmem => (hw.n.out_inv c' hmem).2.1 hc1
    exact cnt_pos (ctx.rch_nodes hc2) hc'c hc3 hc'o
  unfold ready
  simp only [Bool.and_eq_true, List.all_eq_true, Bool.or_eq_true, Bool.not_eq_true',
    Bool.and_eq_false_imp]
  constructor
  · intro hd
    have hnh : ¬ Hid E ends p := by
      intro hh
      have := hhid hh
      have := hdeg.2 hh
      omega
    refine ⟨(o.sel_iff p).mpr ⟨hpr, hnh⟩, ?_⟩
    intro c hcn
    by_cases hsc : sel c = true
    · by_cases hpc : (E.g.parents c).contains p = true
      · right
        have hpc' : p ∈ E.g.parents c := by simpa using hpc
        have hrc := ((o.sel_iff c).mp hsc).1
        have h0 := hdeg.1 hnh
        have hz : cnt E nodes s outp p = 0 := by omega
        have := cnt_zero hz hcn (hkidcounted c hrc hpc') (by rw [o.walk]; exact hpc')
        simpa using this
      · left; intro _; simpa using hpc
    · left; intro h'; exact absurd h' hsc
  · intro ⟨hsp, hall⟩
    have hnh : ¬ Hid E ends p := ((o.sel_iff p).mp hsp).2
    have h0 := hdeg.1 hnh
    have hz : cnt E nodes s outp p = 0 := by
      unfold cnt
      rw [List.length_eq_zero_iff, List.filter_eq_nil_iff]
      intro c hcn
      simp only [Bool.and_eq_true, Bool.not_eq_true', not_and]
      intro ⟨hcc, hpc⟩
      have hpc' : p ∈ walkParents E c := by simpa using hpc
      have hcf : s.states.fInDeg c = true := by
        simp only [countedB, Bool.and_eq_true] at hcc; exact hcc.1
      have hrc := hw.n.in_rch c hcf
      have hsc : sel c = true := (o.sel_iff c).mpr ⟨hrc, fun hh => hnh (hh.step hpc')⟩
      rw [o.walk] at hpc'
      cases hall c hcn with
      | inl h' =>
        have := h' hsc
        have hc2 : (E.g.parents c).contains p = true := by simpa using hpc'
        rw [hc2] at this; cases this
      | inr h' => simpa using h'
    omega

end

end GixModel.C47
