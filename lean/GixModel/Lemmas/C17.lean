/-
Lemmas for C17: the loops of reference-transaction preparation terminate.
-/
import GixModel.Model.C17Core

namespace GixModel.C17

/-- parents have smaller indices -/
def WfParents (es : List Edit) : Prop :=
  ∀ (i : Nat) (e : Edit) (p : Nat), es[i]? = some e → e.parent = some p → p < i

/-! ### splitEdit / splitPass -/

theorem splitEdit_parent (find : Name → Option Target) (eid : Nat) (e : Edit) :
    (splitEdit find eid e).1.parent = e.parent := by
  unfold splitEdit
  split
  · split
    · split <;> rfl
    · rfl
  · rfl

theorem splitEdit_new_parent (find : Name → Option Target) (eid : Nat) (e : Edit) :
    ∀ c ∈ (splitEdit find eid e).2, c.parent = some eid := by
  unfold splitEdit
  split
  · split
    · split <;> (intro c hc; simp at hc; subst hc; rfl)
    · intro c hc; simp at hc
  · intro c hc; simp at hc

theorem splitPass_length (find : Name → Option Target) (eid : Nat) (l : List Edit) :
    (splitPass find eid l).1.length = l.length := by
  induction l generalizing eid with
  | nil => rfl
  | cons e rest ih => simp [splitPass, ih]

theorem splitPass_parent (find : Name → Option Target) (eid : Nat) (l : List Edit) :
    ∀ (j : Nat) (e' : Edit), (splitPass find eid l).1[j]? = some e' → ∃ e : Edit, l[j]? = some e ∧ e'.parent = e.parent := by
  induction l generalizing eid with
  | nil => intro j e' h; simp [splitPass] at h
  | cons e rest ih =>
    intro j e' h
    cases j with
    | zero =>
      simp [splitPass] at h
      exact ⟨e, by simp, by rw [← h]; exact splitEdit_parent find eid e⟩
    | succ j =>
      simp [splitPass] at h
      obtain ⟨e0, h0, hp⟩ := ih (eid + 1) j e' h
      exact ⟨e0, by simpa using h0, hp⟩

theorem splitPass_new_parent (find : Name → Option Target) (eid : Nat) (l : List Edit) :
    ∀ c ∈ (splitPass find eid l).2, ∃ k, c.parent = some k ∧ eid ≤ k ∧ k < eid + l.length := by
  induction l generalizing eid with
  | nil => intro c hc; simp [splitPass] at hc
  | cons e rest ih =>
    intro c hc
    simp only [splitPass, List.mem_append] at hc
    rcases hc with hc | hc
    · exact ⟨eid, splitEdit_new_parent find eid e c hc, Nat.le_refl _, by simp⟩
    · obtain ⟨k, hk, h1, h2⟩ := ih (eid + 1) c hc
      exact ⟨k, hk, by omega, by simp; omega⟩

/-- one round keeps the parent relation well-founded: old edits keep their parents, new edits
point at indices of the part just processed and are appended behind it -/
theorem round_wf (find : Name → Option Target) (first : Nat) (es : List Edit)
    (hw : WfParents es) (hf : first ≤ es.length) :
    let r := splitPass find first (es.drop first)
    WfParents (es.take first ++ r.1) ∧ (es.take first ++ r.1).length = es.length ∧
    WfParents ((es.take first ++ r.1) ++ r.2) := by
  intro r
  have hlen : (es.take first ++ r.1).length = es.length := by
    simp [r, splitPass_length]; omega
  have hw1 : WfParents (es.take first ++ r.1) := by
    intro i e p hi hp
    by_cases h : i < first
    · have : (es.take first ++ r.1)[i]? = es[i]? := by
        rw [List.getElem?_append_left (by simp; omega)]
        simp [List.getElem?_take, h]
      rw [this] at hi
      exact hw i e p hi hp
    · have h' : first ≤ i := Nat.le_of_not_lt h
      have : (es.take first ++ r.1)[i]? = r.1[i - first]? := by
        rw [List.getElem?_append_right (by simp; omega)]
        simp [Nat.min_eq_left hf]
      rw [this] at hi
      obtain ⟨e0, h0, hpar⟩ := splitPass_parent find first (es.drop first) (i - first) e hi
      rw [List.getElem?_drop] at h0
      have : first + (i - first) = i := by omega
      rw [this] at h0
      exact hw i e0 p h0 (by rw [← hpar]; exact hp)
  refine ⟨hw1, hlen, ?_⟩
  intro i e p hi hp
  by_cases h : i < (es.take first ++ r.1).length
  · rw [List.getElem?_append_left h] at hi
    exact hw1 i e p hi hp
  · have h' : (es.take first ++ r.1).length ≤ i := Nat.le_of_not_lt h
    rw [List.getElem?_append_right h'] at hi
    have hmem : e ∈ r.2 := List.mem_of_getElem? hi
    obtain ⟨k, hk, _, h2⟩ := splitPass_new_parent find first (es.drop first) e hmem
    rw [hk] at hp
    injection hp with hp
    subst hp
    simp at h2
    omega

theorem splitLoop_wf (find : Name → Option Target) :
    ∀ fuel round first es, WfParents es → first ≤ es.length →
      ∀ es', splitLoop find fuel round first es = some (.ok es') → WfParents es' := by
  intro fuel
  induction fuel with
  | zero => intro round first es _ _ es' h; simp [splitLoop] at h
  | succ fuel ih =>
    intro round first es hw hf es' h
    obtain ⟨h1, h2, h3⟩ := round_wf find first es hw hf
    simp only [splitLoop] at h
    split at h
    · injection h with h; injection h with h; subst h; exact h1
    · split at h
      · simp at h
      · exact ih _ _ _ h3 (by simp) es' h

theorem wf_of_roots (es : List Edit) (h : ∀ e ∈ es, e.parent = none) : WfParents es := by
  intro i e p hi hp
  have := h e (List.mem_of_getElem? hi)
  rw [this] at hp
  cases hp

/-- the rounds loop never runs out of fuel: with `round ≤ 5` and `fuel + round ≥ 6` it returns -/
theorem splitLoop_some (find : Name → Option Target) :
    ∀ fuel round first es, round ≤ 5 → 6 ≤ fuel + round → ∃ r, splitLoop find fuel round first es = some r := by
  intro fuel
  induction fuel with
  | zero => intro round first es h1 h2; omega
  | succ fuel ih =>
    intro round first es h1 h2
    simp only [splitLoop]
    split
    · exact ⟨_, rfl⟩
    · split
      · exact ⟨_, rfl⟩
      · rename_i hne
        have : round ≠ 5 := by simpa using hne
        exact ih _ _ _ (by omega) (by omega)

/-- more fuel does not change the result -/
theorem splitLoop_mono (find : Name → Option Target) :
    ∀ fuel round first es r, splitLoop find fuel round first es = some r →
      ∀ fuel', fuel ≤ fuel' → splitLoop find fuel' round first es = some r := by
  intro fuel
  induction fuel with
  | zero => intro round first es r h; simp [splitLoop] at h
  | succ fuel ih =>
    intro round first es r h fuel' hle
    cases fuel' with
    | zero => omega
    | succ fuel' =>
      simp only [splitLoop] at h ⊢
      split
      · rename_i hc; simp only [hc, if_true] at h; exact h
      · rename_i hc
        simp only [hc] at h
        split
        · rename_i h5; simp only [h5, if_true] at h; exact h
        · rename_i h5
          simp only [h5] at h
          exact ih _ _ _ r h fuel' (by omega)

/-! ### the walks -/

/-- the repaired walk returns within `bound` steps when every index reachable from the cursor is
below `bound` -/
theorem walk_some (es : List Edit) (hw : WfParents es) :
    ∀ bound, bound ≤ es.length → ∀ fuel, bound ≤ fuel → ∀ cursor nm,
      (∀ p, cursor = some p → p < bound) → ∃ n, walk es fuel cursor nm = some (.name n) := by
  intro bound
  induction bound with
  | zero =>
    intro _ fuel _ cursor nm hc
    cases cursor with
    | none => exact ⟨nm, by cases fuel <;> rfl⟩
    | some p => exact absurd (hc p rfl) (by omega)
  | succ b ih =>
    intro hb fuel hf cursor nm hc
    cases cursor with
    | none => exact ⟨nm, by cases fuel <;> rfl⟩
    | some p =>
      have hp : p < b + 1 := hc p rfl
      cases fuel with
      | zero => omega
      | succ fuel =>
        have hlt : p < es.length := by omega
        have hget : es[p]? = some es[p] := List.getElem?_eq_getElem hlt
        simp only [walk, hget]
        apply ih (by omega) fuel (by omega)
        intro q hq
        have := hw p es[p] q hget hq
        omega

theorem setLeaf_parent_eq (es : List Edit) (p : Nat) (parent : Edit) (oid : Oid)
    (hget : es[p]? = some parent) :
    ∀ i : Nat, ((es.set p { parent with leafPrev := some oid })[i]?).map Edit.parent = (es[i]?).map Edit.parent := by
  intro i
  by_cases h : p = i
  · subst h
    have hlt : p < es.length := by
      rcases Nat.lt_or_ge p es.length with h | h
      · exact h
      · rw [List.getElem?_eq_none h] at hget; cases hget
    have heq : es[p] = parent := by
      rw [List.getElem?_eq_getElem hlt] at hget; exact Option.some.inj hget
    simp [hlt, heq]
  · simp [h]

theorem wf_of_parent_eq (es es' : List Edit)
    (h : ∀ i : Nat, (es'[i]?).map Edit.parent = (es[i]?).map Edit.parent) (hw : WfParents es) : WfParents es' := by
  intro i e p hi hp
  have := h i
  rw [hi] at this
  simp at this
  cases hes : es[i]? with
  | none => rw [hes] at this; simp at this
  | some e0 =>
    rw [hes] at this
    simp at this
    exact hw i e0 p hes (by rw [← this]; exact hp)

/-- the second walk (`leaf_referent_previous_oid`) returns, keeps length and parents -/
theorem setLeaf_some (oid : Oid) :
    ∀ bound (es : List Edit), WfParents es → bound ≤ es.length → ∀ fuel, bound ≤ fuel → ∀ cursor,
      (∀ p, cursor = some p → p < bound) →
      ∃ es', setLeaf oid fuel cursor es = some (some es') ∧ es'.length = es.length ∧
        (∀ i : Nat, (es'[i]?).map Edit.parent = (es[i]?).map Edit.parent) := by
  intro bound
  induction bound with
  | zero =>
    intro es _ _ fuel _ cursor hc
    cases cursor with
    | none => exact ⟨es, by cases fuel <;> rfl, rfl, fun _ => rfl⟩
    | some p => exact absurd (hc p rfl) (by omega)
  | succ b ih =>
    intro es hw hb fuel hf cursor hc
    cases cursor with
    | none => exact ⟨es, by cases fuel <;> rfl, rfl, fun _ => rfl⟩
    | some p =>
      have hp : p < b + 1 := hc p rfl
      cases fuel with
      | zero => omega
      | succ fuel =>
        have hlt : p < es.length := by omega
        have hget : es[p]? = some es[p] := List.getElem?_eq_getElem hlt
        simp only [setLeaf, hget]
        have hpe := setLeaf_parent_eq es p es[p] oid hget
        have hw' := wf_of_parent_eq es _ hpe hw
        obtain ⟨es', h1, h2, h3⟩ := ih (es.set p { es[p] with leafPrev := some oid }) hw' (by simp; omega)
          fuel (by omega) es[p].parent (by
            intro q hq
            have := hw p es[p] q hget hq
            omega)
        refine ⟨es', h1, by simpa using h2, ?_⟩
        intro i
        rw [h3 i, hpe i]

/-! ### the old walk diverges -/

def legacyWitness : List Edit :=
  [ { update := { change := .update .only .any (.object 1), name := [72], deref := false } },
    { update := { change := .update .andReference .any (.object 1), name := [97], deref := false },
      parent := some 0 } ]

theorem legacy_walk_none : ∀ fuel nm, Legacy.walk legacyWitness fuel (some 0) nm = none := by
  intro fuel
  induction fuel with
  | zero => intro nm; rfl
  | succ fuel ih =>
    intro nm
    simp only [Legacy.walk, legacyWitness, List.getElem?_cons_zero, Option.isNone_none, if_true]
    exact ih _

/-! ### back-off -/

def ExpoOk (s : Expo) : Prop := 1 ≤ s.multiplier ∧ s.multiplier ≤ 1000

theorem expo_next_ok (s : Expo) (h : ExpoOk s) : ExpoOk s.next.2 ∧ s.next.1 = s.multiplier := by
  unfold Expo.next ExpoOk at *
  refine ⟨?_, rfl⟩
  simp only
  split
  · exact ⟨by simp, by simp⟩
  · exact ⟨by simp; omega, by simp; omega⟩

/-- with a transform that maps steps `1..=1000` into `1..=maxStep` the iterator stops: the list
is finite (the fuel `time - elapsed + 2` suffices), has at most `time - elapsed + 1` items and
sums up to at most the remaining time plus one step -/
theorem waits_bounded (transform : Nat → Nat → Nat) (maxStep time : Nat)
    (hpos : ∀ k m, 1 ≤ m → m ≤ 1000 → 1 ≤ transform k m ∧ transform k m ≤ maxStep) :
    ∀ fuel k s elapsed, ExpoOk s → elapsed ≤ time → time - elapsed + 2 ≤ fuel →
      ∃ ws, waits transform time fuel k s elapsed false = some ws ∧
        ws.sum ≤ time - elapsed + maxStep ∧ ws.length ≤ time - elapsed + 1 ∧ ws ≠ [] := by
  intro fuel
  induction fuel with
  | zero => intro k s elapsed _ _ h; omega
  | succ fuel ih =>
    intro k s elapsed hs he hf
    obtain ⟨hs', hm⟩ := expo_next_ok s hs
    have hd := hpos k s.next.1 (by rw [hm]; exact hs.1) (by rw [hm]; exact hs.2)
    simp only [waits, Bool.false_eq_true, if_false]
    by_cases hstop : elapsed + transform k s.next.1 > time
    · -- the item that exceeds the duration is still yielded, the next call stops
      have : waits transform time fuel (k + 1) s.next.2 (elapsed + transform k s.next.1) (decide (elapsed + transform k s.next.1 > time)) = some [] := by
        cases fuel with
        | zero => omega
        | succ f => simp [waits, hstop]
      rw [this]
      refine ⟨[transform k s.next.1], rfl, ?_, ?_, by simp⟩
      · simp; omega
      · simp
    · have hle : elapsed + transform k s.next.1 ≤ time := Nat.le_of_not_lt hstop
      have hdec : decide (elapsed + transform k s.next.1 > time) = false := by simp [hstop]
      rw [hdec]
      obtain ⟨ws, h1, h2, h3, _⟩ := ih (k + 1) s.next.2 (elapsed + transform k s.next.1) hs' hle (by omega)
      rw [h1]
      refine ⟨transform k s.next.1 :: ws, rfl, ?_, ?_, by simp⟩
      · simp; omega
      · simp; omega

theorem randomize_bounds (r m : Nat) (hr : 750 ≤ r ∧ r ≤ 1250) (hm1 : 1 ≤ m) (hm : m ≤ 1000) :
    1 ≤ randomize r m ∧ randomize r m ≤ 1250 := by
  unfold randomize
  simp only
  split
  · omega
  · rename_i h
    refine ⟨by omega, ?_⟩
    have h1 : r * m ≤ 1250 * m := Nat.mul_le_mul_right m hr.2
    have h2 : 1250 * m ≤ 1250 * 1000 := Nat.mul_le_mul_left 1250 hm
    have : r * m / 1000 ≤ 1250 * 1000 / 1000 := Nat.div_le_div_right (Nat.le_trans h1 h2)
    omega

/-! ### lock_with_mode -/

theorem lockLoop_attempts (tryLock : Nat → TryLock) :
    ∀ ws k n, lockLoop tryLock ws k = .permanentlyLocked n → n ≤ k + ws.length + 1 := by
  intro ws
  induction ws with
  | nil =>
    intro k n h
    simp only [lockLoop] at h
    split at h <;> simp at h
    omega
  | cons w ws ih =>
    intro k n h
    simp only [lockLoop] at h
    split at h
    · simp at h
    · have := ih (k + 1) n h
      simp; omega
    · simp at h

/-! ### prepare never hangs -/

theorem lockAndApply_parent (cx : Ctx) (S : Store) (e : Edit) (S1 : Store) (e1 : Edit)
    (h : lockAndApply cx S e = .ok (S1, e1)) : e1.parent = e.parent := by
  unfold lockAndApply at h
  repeat' ((try dsimp only at h); split at h)
  all_goals first
    | (simp at h; done)
    | (simp only [Except.ok.injEq, Prod.mk.injEq] at h; rw [← h.2])

theorem set_parent_eq (es : List Edit) (cid : Nat) (e e1 : Edit) (hget : es[cid]? = some e)
    (hp : e1.parent = e.parent) :
    ∀ i : Nat, ((es.set cid e1)[i]?).map Edit.parent = (es[i]?).map Edit.parent := by
  intro i
  by_cases h : cid = i
  · subst h
    have hlt : cid < es.length := by
      rcases Nat.lt_or_ge cid es.length with h | h
      · exact h
      · rw [List.getElem?_eq_none h] at hget; cases hget
    have heq : es[cid] = e := by
      rw [List.getElem?_eq_getElem hlt] at hget; exact Option.some.inj hget
    simp [hlt, heq, hp]
  · simp [h]

theorem prepLoop_ne_hang (cx : Ctx) (unlockPacked : Store → Store) :
    ∀ todo cid S es, WfParents es → prepLoop .fixed cx unlockPacked todo cid S es ≠ .hang := by
  intro todo
  induction todo with
  | zero => intro cid S es _; simp [prepLoop]
  | succ todo ih =>
    intro cid S es hw
    simp only [prepLoop]
    split
    · simp
    · rename_i e hget
      have hlt : cid < es.length := by
        rcases Nat.lt_or_ge cid es.length with h | h
        · exact h
        · rw [List.getElem?_eq_none h] at hget; cases hget
      split
      · -- lock error: the walk returns
        obtain ⟨n, hn⟩ := walk_some es hw cid (by omega) es.length (by omega) e.parent e.name
          (fun p hp => hw cid e p hget hp)
        simp only [walkBy, hn]
        simp
      · split <;> simp
      · rename_i S1 e1 hok
        have hp1 := lockAndApply_parent cx S e S1 e1 hok
        have hpe := set_parent_eq es cid e e1 hget hp1
        have hw1 := wf_of_parent_eq es _ hpe hw
        split
        · rename_i oid p hprev hpar
          have hget1 : (es.set cid e1)[cid]? = some e1 := by simp [List.getElem?_set, hlt]
          obtain ⟨es2, h1, h2, h3⟩ := setLeaf_some oid cid (es.set cid e1) hw1 (by simp; omega)
            (es.set cid e1).length (by simp; omega) (some p)
            (fun q hq => by
              cases hq
              exact hw1 cid e1 p hget1 hpar)
          rw [h1]
          exact ih _ _ _ (wf_of_parent_eq _ _ h3 hw1)
        · exact ih _ _ _ hw1

theorem extendWithSplits_some (find : Name → Option Target) (es : List Edit) :
    ∃ r, extendWithSplits find es = some r :=
  splitLoop_some find 5 1 0 es (by omega) (by omega)

theorem preProcess_ne_outOfFuel (find : Name → Option Target) (edits : List RefEdit) :
    ∀ r, preProcess find edits = r → (match r with | .outOfFuel => False | _ => True) := by
  intro r h
  obtain ⟨x, hx⟩ := extendWithSplits_some find (edits.map fun u => { update := u })
  unfold preProcess at h
  rw [hx] at h
  subst h
  cases x with
  | error _ => trivial
  | ok es =>
    dsimp only
    by_cases hd : hasDup (List.map Edit.name es) = true <;> simp [hd]

theorem preProcess_ok_wf (find : Name → Option Target) (edits : List RefEdit) (es : List Edit)
    (h : preProcess find edits = .ok es) : WfParents es := by
  unfold preProcess at h
  split at h
  · cases h
  · cases h
  · rename_i es0 hx
    split at h
    · cases h
    · injection h with h
      subst h
      exact splitLoop_wf find 5 1 0 _ (wf_of_roots _ (by
        intro e he
        simp only [List.mem_map] at he
        obtain ⟨u, _, hu⟩ := he
        rw [← hu])) (Nat.zero_le _) es0 hx

theorem prepareWith_fixed_ne_hang (env : Env) (S : Store) (t : Txn) : prepareWith .fixed env S t ≠ .hang := by
  unfold prepareWith
  split
  · rename_i h
    exact absurd (preProcess_ne_outOfFuel _ _ _ h) (by simp)
  · simp
  · simp
  · rename_i es hes
    have hw := preProcess_ok_wf _ _ _ hes
    dsimp only
    split
    · split
      · simp
      · split
        · simp
        · have := prepLoop_ne_hang
            { buffer := S.packed, hasGlobalLock := true, directToPacked := decide (t.mode = .updatesRemoveLoose) }
            (fun S' => { S' with packedLock := false }) es.length 0 { S with packedLock := true } es hw
          split <;> simp_all
    · have := prepLoop_ne_hang
        { buffer := none, hasGlobalLock := false, directToPacked := decide (t.mode = .updatesRemoveLoose) }
        id es.length 0 S es hw
      split <;> simp_all

end GixModel.C17
