import GixModel.Lemmas.C18Order
/-
C18 helper lemmas, part 2: the sorted directory walk. For a well-formed directory tree (entry
names contain no `/` and are unique within their directory) the walk of the tree sorted with the
repaired comparator is strictly ascending by full name.
-/
namespace GixModel.C18
open GixModel

/-- the sort key of an entry: a directory compares like `name/` -/
def key (n : Bytes) (d : Bool) : Bytes := if d then n ++ [47] else n

def keys : Forest → List Bytes
  | .nil => []
  | .file n _ rest => n :: keys rest
  | .dir n _ rest => (n ++ [47]) :: keys rest

def names : Forest → List Bytes
  | .nil => []
  | .file n _ rest => n :: names rest
  | .dir n _ rest => n :: names rest

/-- no entry name contains `/`, at any depth -/
def NoSlash : Forest → Prop
  | .nil => True
  | .file n _ rest => (47 : UInt8) ∉ n ∧ NoSlash rest
  | .dir n sub rest => (47 : UInt8) ∉ n ∧ NoSlash sub ∧ NoSlash rest

/-- what a file system guarantees: names without `/`, unique within a directory -/
def WF : Forest → Prop
  | .nil => True
  | .file n _ rest => (47 : UInt8) ∉ n ∧ n ∉ names rest ∧ WF rest
  | .dir n sub rest => (47 : UInt8) ∉ n ∧ n ∉ names rest ∧ WF sub ∧ WF rest

/-- every directory's listing strictly ascending by key -/
def SortedF : Forest → Prop
  | .nil => True
  | .file n _ rest => (∀ k ∈ keys rest, cmpB n k = .lt) ∧ SortedF rest
  | .dir n sub rest => (∀ k ∈ keys rest, cmpB (n ++ [47]) k = .lt) ∧ SortedF sub ∧ SortedF rest

theorem WF.noSlash {f : Forest} (h : WF f) : NoSlash f := by
  induction f with
  | nil => trivial
  | file n t rest ih => exact ⟨h.1, ih h.2.2⟩
  | dir n sub rest ihs ihr => exact ⟨h.1, ihs h.2.2.1, ihr h.2.2.2⟩

theorem noSlash_top {f : Forest} (h : NoSlash f) : ∀ n ∈ names f, (47 : UInt8) ∉ n := by
  induction f with
  | nil => intro n hn; cases hn
  | file m t rest ih =>
    intro n hn
    rcases List.mem_cons.mp hn with e | hn
    · subst e; exact h.1
    · exact ih h.2 n hn
  | dir m sub rest _ ihr =>
    intro n hn
    rcases List.mem_cons.mp hn with e | hn
    · subst e; exact h.1
    · exact ihr h.2.2 n hn

/-- every key is the key of a top-level name -/
theorem keys_of_names {f : Forest} {k : Bytes} (hk : k ∈ keys f) : ∃ n ∈ names f, ∃ d, k = key n d := by
  induction f with
  | nil => cases hk
  | file m t rest ih =>
    rcases List.mem_cons.mp hk with e | hk
    · exact ⟨m, List.mem_cons_self .., false, by simp [key, e]⟩
    · obtain ⟨n, hn, d, e⟩ := ih hk
      exact ⟨n, List.mem_cons_of_mem _ hn, d, e⟩
  | dir m sub rest _ ihr =>
    rcases List.mem_cons.mp hk with e | hk
    · exact ⟨m, List.mem_cons_self .., true, by simp [key, e]⟩
    · obtain ⟨n, hn, d, e⟩ := ihr hk
      exact ⟨n, List.mem_cons_of_mem _ hn, d, e⟩

/-! ### the repaired comparator is the byte order of the keys -/

theorem cmpRepaired_cons (x y : UInt8) (xs ys : Bytes) (ad bd : Bool) :
    cmpRepaired (x :: xs) ad (y :: ys) bd =
      if x.toNat < y.toNat then .lt else if y.toNat < x.toNat then .gt else cmpRepaired xs ad ys bd := by
  unfold cmpRepaired
  simp only [List.length_cons, Nat.succ_min_succ, List.take_succ_cons, cmpB, List.getElem?_cons_succ]
  by_cases h1 : x.toNat < y.toNat
  · simp [h1]
  · by_cases h2 : y.toNat < x.toNat
    · simp [h1, h2]
    · simp [h1, h2]

theorem cmpRepaired_eq_key {a b : Bytes} (ad bd : Bool) (ha : (47 : UInt8) ∉ a) (hb : (47 : UInt8) ∉ b) :
    cmpRepaired a ad b bd = cmpB (key a ad) (key b bd) := by
  induction a generalizing b with
  | nil =>
    cases b with
    | nil => cases ad <;> cases bd <;> simp [cmpRepaired, key, cmpB, cmpOpt]
    | cons y ys =>
      have hy : y ≠ 47 := fun e => hb (by simp [e])
      have hy' : y.toNat ≠ 47 := fun e => hy (u8_eq_of_toNat (by simpa using e))
      cases ad <;> cases bd <;> simp [cmpRepaired, key, cmpB, cmpOpt]
      all_goals (
        by_cases h1 : 47 < y.toNat
        · simp [h1]
        · have h2 : y.toNat < 47 := by omega
          simp [h1, h2])
  | cons x xs ih =>
    cases b with
    | nil =>
      have hx : x ≠ 47 := fun e => ha (by simp [e])
      have hx' : x.toNat ≠ 47 := fun e => hx (u8_eq_of_toNat (by simpa using e))
      cases ad <;> cases bd <;> simp [cmpRepaired, key, cmpB, cmpOpt]
      all_goals (
        by_cases h1 : x.toNat < 47
        · simp [h1]
        · have h2 : 47 < x.toNat := by omega
          simp [h1, h2])
    | cons y ys =>
      have ha' : (47 : UInt8) ∉ xs := fun h => ha (List.mem_cons_of_mem _ h)
      have hb' : (47 : UInt8) ∉ ys := fun h => hb (List.mem_cons_of_mem _ h)
      rw [cmpRepaired_cons, ih ha' hb']
      cases ad <;> cases bd <;> simp [key, cmpB]

/-- `name/` is a prefix of a key of a slash-free name only if it is that key -/
theorem slash_prefix_key {n m : Bytes} (d : Bool) (hn : (47 : UInt8) ∉ n) (hm : (47 : UInt8) ∉ m)
    (h : (n ++ [47]) <+: key m d) : key m d = n ++ [47] := by
  induction n generalizing m with
  | nil =>
    cases m with
    | nil => cases d <;> simp_all [key]
    | cons y ys =>
      have : y = 47 := by
        cases d <;> simp [key] at h <;> first | exact h.symm | exact h.1.symm
      exact absurd (this ▸ List.mem_cons_self ..) hm
  | cons x xs ih =>
    have hn' : (47 : UInt8) ∉ xs := fun h => hn (List.mem_cons_of_mem _ h)
    cases m with
    | nil =>
      cases d
      · simp [key] at h
      · simp only [key, if_true, List.nil_append, List.cons_append] at h
        have := (List.cons_prefix_cons.mp h).1
        exact absurd (this ▸ List.mem_cons_self ..) hn
    | cons y ys =>
      have hm' : (47 : UInt8) ∉ ys := fun h => hm (List.mem_cons_of_mem _ h)
      have h' : x = y ∧ (xs ++ [47]) <+: key ys d := by
        cases d <;> simpa [key, List.cons_prefix_cons] using h
      have := ih hn' hm' h'.2
      cases d <;> simp_all [key]

/-! ### insertion and sorting -/

theorem names_insFile (cmp : Cmp) (n : Bytes) (t : Target) (f : Forest) (m : Bytes) :
    m ∈ names (insFile cmp n t f) ↔ m = n ∨ m ∈ names f := by
  induction f with
  | nil => simp [insFile, names]
  | file a u rest ih =>
    simp only [insFile]; split <;> simp [names, ih] <;> grind
  | dir a s rest _ ih =>
    simp only [insFile]; split <;> simp [names, ih] <;> grind

theorem names_insDir (cmp : Cmp) (n : Bytes) (sub : Forest) (f : Forest) (m : Bytes) :
    m ∈ names (insDir cmp n sub f) ↔ m = n ∨ m ∈ names f := by
  induction f with
  | nil => simp [insDir, names]
  | file a u rest ih =>
    simp only [insDir]; split <;> simp [names, ih] <;> grind
  | dir a s rest _ ih =>
    simp only [insDir]; split <;> simp [names, ih] <;> grind

theorem names_sortF (cmp : Cmp) (f : Forest) (m : Bytes) : m ∈ names (sortF cmp f) ↔ m ∈ names f := by
  induction f with
  | nil => simp [sortF]
  | file a u rest ih => simp [sortF, names_insFile, names, ih]
  | dir a s rest _ ih => simp [sortF, names_insDir, names, ih]

theorem keys_insFile (cmp : Cmp) (n : Bytes) (t : Target) (f : Forest) (k : Bytes) :
    k ∈ keys (insFile cmp n t f) ↔ k = n ∨ k ∈ keys f := by
  induction f with
  | nil => simp [insFile, keys]
  | file a u rest ih =>
    simp only [insFile]; split <;> simp [keys, ih] <;> grind
  | dir a s rest _ ih =>
    simp only [insFile]; split <;> simp [keys, ih] <;> grind

theorem keys_insDir (cmp : Cmp) (n : Bytes) (sub : Forest) (f : Forest) (k : Bytes) :
    k ∈ keys (insDir cmp n sub f) ↔ k = n ++ [47] ∨ k ∈ keys f := by
  induction f with
  | nil => simp [insDir, keys]
  | file a u rest ih =>
    simp only [insDir]; split <;> simp [keys, ih] <;> grind
  | dir a s rest _ ih =>
    simp only [insDir]; split <;> simp [keys, ih] <;> grind

theorem noSlash_insFile (cmp : Cmp) (n : Bytes) (t : Target) (f : Forest) :
    NoSlash (insFile cmp n t f) ↔ (47 : UInt8) ∉ n ∧ NoSlash f := by
  induction f with
  | nil => simp [insFile, NoSlash]
  | file a u rest ih => simp only [insFile]; split <;> simp [NoSlash, ih] <;> grind
  | dir a s rest _ ih => simp only [insFile]; split <;> simp [NoSlash, ih] <;> grind

theorem noSlash_insDir (cmp : Cmp) (n : Bytes) (sub : Forest) (f : Forest) :
    NoSlash (insDir cmp n sub f) ↔ (47 : UInt8) ∉ n ∧ NoSlash sub ∧ NoSlash f := by
  induction f with
  | nil => simp [insDir, NoSlash]
  | file a u rest ih => simp only [insDir]; split <;> simp [NoSlash, ih] <;> grind
  | dir a s rest _ ih => simp only [insDir]; split <;> simp [NoSlash, ih] <;> grind

theorem noSlash_sortF (cmp : Cmp) (f : Forest) : NoSlash (sortF cmp f) ↔ NoSlash f := by
  induction f with
  | nil => simp [sortF]
  | file a u rest ih => simp [sortF, noSlash_insFile, NoSlash, ih]
  | dir a s rest ihs ihr => simp [sortF, noSlash_insDir, NoSlash, ihs, ihr]

/-- distinct slash-free names have distinct keys, whatever their kinds -/
theorem key_ne {n m : Bytes} (d e : Bool) (hn : (47 : UInt8) ∉ n) (hm : (47 : UInt8) ∉ m) (hne : n ≠ m) :
    key n d ≠ key m e := by
  intro h
  cases d <;> cases e <;> simp [key] at h
  · exact hne h
  · exact hn (h ▸ by simp)
  · exact hm (h ▸ by simp)
  · exact hne h

theorem sortedF_insFile {n : Bytes} (t : Target) {f : Forest} (hs : SortedF f) (hf : NoSlash f)
    (hn : (47 : UInt8) ∉ n) (hd : n ∉ names f) : SortedF (insFile cmpRepaired n t f) := by
  induction f with
  | nil => simp [insFile, SortedF, keys]
  | file m u rest ih =>
    have hm : (47 : UInt8) ∉ m := hf.1
    have hne : n ≠ m := fun e => hd (e ▸ List.mem_cons_self ..)
    have hd' : n ∉ names rest := fun h => hd (List.mem_cons_of_mem _ h)
    simp only [insFile, cmpRepaired_eq_key false false hn hm, key]
    simp only [Bool.false_eq_true, if_false]
    split
    · rename_i hgt
      refine ⟨?_, ih hs.2 hf.2 hd'⟩
      intro k hk
      rcases (keys_insFile _ _ _ _ _).mp hk with e | hk
      · subst e; exact (cmpB_swap m k).mpr hgt
      · exact hs.1 k hk
    · rename_i hngt
      have hlt : cmpB n m = .lt := by
        rcases cmpB_total n m with h | h | h
        · exact h
        · exact absurd h hne
        · exact absurd ((cmpB_swap m n).mp h) hngt
      refine ⟨?_, hs⟩
      intro k hk
      rcases List.mem_cons.mp hk with e | hk
      · subst e; exact hlt
      · exact cmpB_trans hlt (hs.1 k hk)
  | dir m s rest _ ih =>
    have hm : (47 : UInt8) ∉ m := hf.1
    have hne : n ≠ m := fun e => hd (e ▸ List.mem_cons_self ..)
    have hd' : n ∉ names rest := fun h => hd (List.mem_cons_of_mem _ h)
    simp only [insFile, cmpRepaired_eq_key false true hn hm, key]
    simp only [Bool.false_eq_true, if_false, if_true]
    split
    · rename_i hgt
      refine ⟨?_, hs.2.1, ih hs.2.2 hf.2.2 hd'⟩
      intro k hk
      rcases (keys_insFile _ _ _ _ _).mp hk with e | hk
      · subst e; exact (cmpB_swap (m ++ [47]) k).mpr hgt
      · exact hs.1 k hk
    · rename_i hngt
      have hk := key_ne false true hn hm hne
      simp only [key, Bool.false_eq_true, if_false, if_true] at hk
      have hlt : cmpB n (m ++ [47]) = .lt := by
        rcases cmpB_total n (m ++ [47]) with h | h | h
        · exact h
        · exact absurd h hk
        · exact absurd ((cmpB_swap (m ++ [47]) n).mp h) hngt
      refine ⟨?_, hs⟩
      intro k hk
      rcases List.mem_cons.mp hk with e | hk
      · subst e; exact hlt
      · exact cmpB_trans hlt (hs.1 k hk)

theorem sortedF_insDir {n : Bytes} {sub : Forest} (hsub : SortedF sub) {f : Forest} (hs : SortedF f)
    (hf : NoSlash f) (hn : (47 : UInt8) ∉ n) (hd : n ∉ names f) :
    SortedF (insDir cmpRepaired n sub f) := by
  induction f with
  | nil => simp [insDir, SortedF, keys, hsub]
  | file m u rest ih =>
    have hm : (47 : UInt8) ∉ m := hf.1
    have hne : n ≠ m := fun e => hd (e ▸ List.mem_cons_self ..)
    have hd' : n ∉ names rest := fun h => hd (List.mem_cons_of_mem _ h)
    simp only [insDir, cmpRepaired_eq_key true false hn hm, key]
    simp only [Bool.false_eq_true, if_false, if_true]
    split
    · rename_i hgt
      refine ⟨?_, ih hs.2 hf.2 hd'⟩
      intro k hk
      rcases (keys_insDir _ _ _ _ _).mp hk with e | hk
      · subst e; exact (cmpB_swap m (n ++ [47])).mpr hgt
      · exact hs.1 k hk
    · rename_i hngt
      have hk := key_ne true false hn hm hne
      simp only [key, Bool.false_eq_true, if_false, if_true] at hk
      have hlt : cmpB (n ++ [47]) m = .lt := by
        rcases cmpB_total (n ++ [47]) m with h | h | h
        · exact h
        · exact absurd h hk
        · exact absurd ((cmpB_swap m (n ++ [47])).mp h) hngt
      refine ⟨?_, hsub, hs⟩
      intro k hk
      rcases List.mem_cons.mp hk with e | hk
      · subst e; exact hlt
      · exact cmpB_trans hlt (hs.1 k hk)
  | dir m s rest _ ih =>
    have hm : (47 : UInt8) ∉ m := hf.1
    have hne : n ≠ m := fun e => hd (e ▸ List.mem_cons_self ..)
    have hd' : n ∉ names rest := fun h => hd (List.mem_cons_of_mem _ h)
    simp only [insDir, cmpRepaired_eq_key true true hn hm, key]
    simp only [if_true]
    split
    · rename_i hgt
      refine ⟨?_, hs.2.1, ih hs.2.2 hf.2.2 hd'⟩
      intro k hk
      rcases (keys_insDir _ _ _ _ _).mp hk with e | hk
      · subst e; exact (cmpB_swap (m ++ [47]) (n ++ [47])).mpr hgt
      · exact hs.1 k hk
    · rename_i hngt
      have hk := key_ne true true hn hm hne
      simp only [key, if_true] at hk
      have hlt : cmpB (n ++ [47]) (m ++ [47]) = .lt := by
        rcases cmpB_total (n ++ [47]) (m ++ [47]) with h | h | h
        · exact h
        · exact absurd h hk
        · exact absurd ((cmpB_swap (m ++ [47]) (n ++ [47])).mp h) hngt
      refine ⟨?_, hsub, hs⟩
      intro k hk
      rcases List.mem_cons.mp hk with e | hk
      · subst e; exact hlt
      · exact cmpB_trans hlt (hs.1 k hk)

theorem sortF_sorted {f : Forest} (h : WF f) : SortedF (sortF cmpRepaired f) := by
  induction f with
  | nil => trivial
  | file n t rest ih =>
    exact sortedF_insFile t (ih h.2.2) ((noSlash_sortF _ _).mpr h.2.2.noSlash) h.1
      (fun hm => h.2.1 ((names_sortF _ _ _).mp hm))
  | dir n sub rest ihs ihr =>
    exact sortedF_insDir (ihs h.2.2.1) (ihr h.2.2.2) ((noSlash_sortF _ _).mpr h.2.2.2.noSlash) h.1
      (fun hm => h.2.1 ((names_sortF _ _ _).mp hm))

/-! ### the walk -/

theorem walk_prefix {pre : Bytes} {f : Forest} {x : Item} (hx : x ∈ walk pre f) :
    ∃ k ∈ keys f, ∃ ext, x.1 = pre ++ k ++ ext := by
  induction f generalizing pre with
  | nil => cases hx
  | file n t rest ih =>
    rcases List.mem_cons.mp hx with e | hx
    · exact ⟨n, List.mem_cons_self .., [], by simp [e]⟩
    · obtain ⟨k, hk, ext, e⟩ := ih hx
      exact ⟨k, List.mem_cons_of_mem _ hk, ext, e⟩
  | dir n sub rest ihs ihr =>
    rcases List.mem_append.mp hx with hx | hx
    · obtain ⟨k, _, ext, e⟩ := ihs hx
      exact ⟨n ++ [47], List.mem_cons_self .., k ++ ext, by simp [e]⟩
    · obtain ⟨k, hk, ext, e⟩ := ihr hx
      exact ⟨k, List.mem_cons_of_mem _ hk, ext, e⟩

/-- the walk of a tree whose directories are all sorted by key is strictly ascending -/
theorem walk_sorted_of {f : Forest} (hs : SortedF f) (hf : NoSlash f) (pre : Bytes) :
    SortedN (walk pre f) := by
  induction f generalizing pre with
  | nil => exact List.Pairwise.nil
  | file n t rest ih =>
    refine List.pairwise_cons.mpr ⟨?_, ih hs.2 hf.2 pre⟩
    intro y hy
    obtain ⟨k, hk, ext, e⟩ := walk_prefix hy
    rw [e, List.append_assoc, cmpB_append_left]
    exact cmpB_lt_append_right ext (hs.1 k hk)
  | dir n sub rest ihs ihr =>
    refine List.pairwise_append.mpr ⟨ihs hs.2.1 hf.2.1 _, ihr hs.2.2 hf.2.2 pre, ?_⟩
    intro x hx y hy
    obtain ⟨k1, _, ext1, e1⟩ := walk_prefix hx
    obtain ⟨k, hk, ext, e⟩ := walk_prefix hy
    have hlt := hs.1 k hk
    obtain ⟨m, hm, d, ek⟩ := keys_of_names hk
    have hmslash := noSlash_top hf.2.2 m hm
    have hnp : ¬ (n ++ [47]) <+: k := by
      intro hp
      rw [ek] at hp
      have := slash_prefix_key d hf.1 hmslash hp
      rw [← ek] at this
      rw [this] at hlt
      exact cmpB_irrefl hlt
    rw [e1, e]
    have : pre ++ n ++ [47] ++ k1 ++ ext1 = pre ++ ((n ++ [47]) ++ (k1 ++ ext1)) := by simp
    rw [this, List.append_assoc pre k ext, cmpB_append_left]
    exact cmpB_lt_append_both _ _ hlt hnp

theorem mem_walk_insFile (cmp : Cmp) (pre n : Bytes) (t : Target) (f : Forest) (x : Item) :
    x ∈ walk pre (insFile cmp n t f) ↔ x = (pre ++ n, t) ∨ x ∈ walk pre f := by
  induction f with
  | nil => simp [insFile, walk]
  | file a u rest ih => simp only [insFile]; split <;> simp [walk, ih] <;> grind
  | dir a s rest _ ih => simp only [insFile]; split <;> simp [walk, ih] <;> grind

theorem mem_walk_insDir (cmp : Cmp) (pre n : Bytes) (sub : Forest) (f : Forest) (x : Item) :
    x ∈ walk pre (insDir cmp n sub f) ↔ x ∈ walk (pre ++ n ++ [47]) sub ∨ x ∈ walk pre f := by
  induction f with
  | nil => simp [insDir, walk]
  | file a u rest ih => simp only [insDir]; split <;> simp [walk, ih] <;> grind
  | dir a s rest _ ih => simp only [insDir]; split <;> simp [walk, ih] <;> grind

/-- sorting does not change which files the walk sees -/
theorem mem_walk_sortF (cmp : Cmp) (pre : Bytes) (f : Forest) (x : Item) :
    x ∈ walk pre (sortF cmp f) ↔ x ∈ walk pre f := by
  induction f generalizing pre with
  | nil => simp [sortF]
  | file a u rest ih => simp [sortF, mem_walk_insFile, walk, ih]
  | dir a s rest ihs ihr => simp [sortF, mem_walk_insDir, walk, ihs, ihr]

/-- `walk_sorted`: for every well-formed directory tree the walk the repaired code performs is
strictly ascending by full name -/
theorem walk_sortF_sorted {f : Forest} (h : WF f) (pre : Bytes) :
    SortedN (walk pre (sortF cmpRepaired f)) :=
  walk_sorted_of (sortF_sorted h) ((noSlash_sortF _ _).mpr h.noSlash) pre

end GixModel.C18
