import GixModel.Lemmas.C48Rev
import GixModel.Lemmas.C48Describe
/-
C48 — the tokenizer on printed revisions and whole specs, with the all-accepting delegate.
-/
namespace GixModel.C48
open GixModel GixModel.Spec.C48

/-! ### what ends a printed revision -/

inductive EndOk : Bytes → Prop
  | nil : EndOk []
  | range (r : Bytes) : EndOk (46 :: 46 :: r)
  | path (p : Bytes) : EndOk (58 :: p)
  | parents (r : Bytes) : EndOk (94 :: 64 :: r)
  | exclParents (r : Bytes) : EndOk (94 :: 33 :: r)
  | parentRange (r : Bytes) : EndOk (94 :: 45 :: r)

theorem EndOk.okNext {t : Bytes} (h : EndOk t) : okNext t = true := by
  cases h <;> rfl

theorem EndOk.sepStart {t : Bytes} (h : EndOk t) : SepStart t := by
  cases h with
  | nil => exact Or.inl rfl
  | range r => exact Or.inr (Or.inr (Or.inl ⟨r, rfl⟩))
  | path p => exact Or.inr (Or.inr (Or.inr ⟨58, p, rfl, Or.inr (Or.inr rfl)⟩))
  | parents r => exact Or.inr (Or.inr (Or.inr ⟨94, _, rfl, Or.inl rfl⟩))
  | exclParents r => exact Or.inr (Or.inr (Or.inr ⟨94, _, rfl, Or.inl rfl⟩))
  | parentRange r => exact Or.inr (Or.inr (Or.inr ⟨94, _, rfl, Or.inl rfl⟩))

theorem Nav.print_head (n : Nav) : ∃ b r, n.print = b :: r ∧ (b = 94 ∨ b = 126) := by
  cases n with
  | parent m => exact ⟨94, _, rfl, Or.inl rfl⟩
  | parent1 => exact ⟨94, _, rfl, Or.inl rfl⟩
  | ancestor m => exact ⟨126, _, rfl, Or.inr rfl⟩
  | ancestor1 => exact ⟨126, _, rfl, Or.inr rfl⟩
  | commit0 => exact ⟨94, _, rfl, Or.inl rfl⟩
  | peel k => exact ⟨94, _, rfl, Or.inl rfl⟩
  | peelObject => exact ⟨94, _, rfl, Or.inl rfl⟩
  | peelTags => exact ⟨94, _, rfl, Or.inl rfl⟩
  | search re neg => exact ⟨94, _, rfl, Or.inl rfl⟩

theorem tail_sepStart (ns : List Nav) (t : Bytes) (ht : EndOk t) : SepStart (printNavs ns ++ t) := by
  cases ns with
  | nil => simpa [printNavs] using ht.sepStart
  | cons n ns =>
    obtain ⟨b, r, hp, hb⟩ := Nav.print_head n
    right; right; right
    refine ⟨b, r ++ (printNavs ns ++ t), ?_, ?_⟩
    · simp [printNavs, hp]
    · rcases hb with rfl | rfl
      · exact Or.inl rfl
      · exact Or.inr (Or.inl rfl)

theorem tail_okNext (ns : List Nav) (t : Bytes) (ht : EndOk t) : okNext (printNavs ns ++ t) = true :=
  okNext_printNavs ns t ht.okNext

theorem printNavs_length (ns : List Nav) : ns.length ≤ (printNavs ns).length := by
  induction ns with
  | nil => simp [printNavs]
  | cons n ns ih =>
    have : 1 ≤ n.print.length := by cases n <;> simp [Nav.print]
    simp only [printNavs, List.flatMap_cons, List.length_append, List.length_cons] at ih ⊢
    omega

theorem okNext_head {t : Bytes} (h : okNext t = true) :
    t.head? ≠ some 64 ∧ t.head? ≠ some 123 := by
  rcases okNext_cases h with rfl | ⟨c, r, rfl, hc⟩
  · simp
  · rcases hc with rfl | rfl | rfl | rfl <;> simp

/-! ### anchors -/

theorem refName_head {n : Bytes} (h : RefName n) :
    ∃ b r, n = b :: r ∧ b ≠ 58 ∧ b ≠ 94 := by
  obtain ⟨hne, hok, _⟩ := h
  cases n with
  | nil => exact absurd rfl hne
  | cons b r =>
    refine ⟨b, r, rfl, ?_⟩
    simp only [nameOk, Bool.and_eq_true] at hok
    have := hok.1.1
    simp only [nameByte, Bool.not_eq_eq_eq_not, Bool.not_true, Bool.or_eq_false_iff,
      beq_eq_false_iff_ne, ne_eq] at this
    exact ⟨this.1.2, this.1.1.2⟩

theorem hexName_head {h : Bytes} (hh : HexName h) :
    ∃ b r, h = b :: r ∧ b ≠ 58 ∧ b ≠ 94 := by
  obtain ⟨h1, _, h3⟩ := hh
  cases h with
  | nil => simp at h1
  | cons b r =>
    refine ⟨b, r, rfl, ?_⟩
    simp only [List.all_cons, Bool.and_eq_true] at h3
    have := (hexDigit_nameByte b h3.1).1
    simp only [nameByte, Bool.not_eq_eq_eq_not, Bool.not_true, Bool.or_eq_false_iff,
      beq_eq_false_iff_ne, ne_eq] at this
    exact ⟨this.1.2, this.1.1.2⟩

/-- a name (or none) followed by `@{body}tail` -/
theorem revision_brace (dateOk : Bytes → Bool) (n : Option Bytes) (hn : OptRefName n) (body tail : Bytes)
    (s : St) (k : St → Bytes → Res) :
    revision allYes dateOk s (optName n ++ 64 :: 123 :: (body ++ 125 :: tail)) k =
      afterName allYes dateOk (s.pushAll (nameCalls n)) (optName n) true (optName n).isEmpty
        (64 :: 123 :: (body ++ 125 :: tail)) k := by
  have hsep : SepStart (64 :: 123 :: (body ++ 125 :: tail)) := Or.inr (Or.inl ⟨_, rfl⟩)
  cases n with
  | none =>
    simp only [optName, List.nil_append, nameCalls, pushAll_nil, List.isEmpty_nil]
    rw [revision_main _ _ _ _ _ (by simp)]
    rw [scan_end true (some 0) [] _ hsep]
    unfold revisionMain
    simp only [List.reverse_nil, List.isEmpty_nil, List.head?_cons, List.tail_cons, bne_self_eq_false,
      Bool.and_false, Bool.false_eq_true, if_false]
    rw [nameChain_empty s (some 0) (by decide)]
    simp
  | some n =>
    obtain ⟨b, r, hbr, h58, _⟩ := refName_head hn
    simp only [optName, nameCalls, pushAll_cons, pushAll_nil]
    rw [revision_main _ _ _ _ _ (by rw [hbr]; simpa using h58)]
    rw [scan_name n hn.2.1 true (some 0) [] _ hsep]
    unfold revisionMain
    have hemp : n.isEmpty = false := by rw [hbr]; rfl
    simp only [List.reverse_nil, List.nil_append, hemp, Bool.false_and, Bool.false_eq_true, if_false]
    rw [nameChain_ref s n hn]

theorem digits_plain : ∀ (l : Bytes), l.all isDigit = true → plain l = true := by
  intro l hl
  rw [List.all_eq_true] at hl
  simp only [plain, List.all_eq_true]
  intro b hb
  have := isDigit_range b (hl b hb)
  have e : ∀ c : UInt8, b = c → b.toNat = c.toNat := fun c hc => by rw [hc]
  simp only [Bool.not_eq_eq_eq_not, Bool.not_true, Bool.or_eq_false_iff, beq_eq_false_iff_ne, ne_eq]
  refine ⟨⟨?_, ?_⟩, ?_⟩ <;> intro hc <;> have := e _ hc <;> simp at this <;> omega

theorem tryParseI_natDec (n : Nat) (hn : n < 2 ^ 63) : tryParseI (natDec n) = .some (n : Int) := by
  obtain ⟨d, ds, hnd, hd, hall, hval⟩ := natDec_cons n
  rw [hnd, tryParseI_digits d ds hd hall (by rw [hval]; exact hn), hval]

theorem tryParseI_neg_natDec (n : Nat) (hn1 : 1 ≤ n) (hn : n ≤ 2 ^ 63) :
    tryParseI (45 :: natDec n) = .some (-(n : Int)) := by
  obtain ⟨d, ds, hnd, hd, hall, hval⟩ := natDec_cons n
  have hpI : parseIsize (45 :: d :: ds) = some (-(n : Int)) := by
    unfold parseIsize
    have : allDigits (d :: ds) = true := by simp [allDigits, hall]
    simp only [this, Bool.true_and, hval, decide_eq_true_eq]
    simp [hn]
  rw [hnd]
  unfold tryParseI
  rw [hpI]
  have hne : (-(n : Int) == 0) = false := by
    simp only [beq_eq_false_iff_ne, ne_eq]; omega
  simp [hne]

theorem tryParseI_none_of_parse {d : Bytes} (h : parseIsize d = none) : tryParseI d = .none := by
  unfold tryParseI
  rw [h]

theorem revision_anchor (dateOk : Bytes → Bool) (a : Anchor) (ha : a.Wf dateOk) (tail : Bytes)
    (hs : SepStart tail) (ho : okNext tail = true) (s : St) (k : St → Bytes → Res) :
    revision allYes dateOk s (a.print ++ tail) k =
      navigate allYes (tail.length + 1) (s.pushAll a.calls) tail k := by
  obtain ⟨h64, h123⟩ := okNext_head ho
  cases a with
  | ref n =>
    obtain ⟨b, r, hbr, h58, _⟩ := refName_head ha
    have hemp : n.isEmpty = false := by rw [hbr]; rfl
    simp only [Anchor.print, Anchor.calls, pushAll_cons, pushAll_nil]
    rw [revision_main _ _ _ _ _ (by rw [hbr]; simpa using h58)]
    rw [scan_name n ha.2.1 true (some 0) [] _ hs]
    unfold revisionMain
    simp only [List.reverse_nil, List.nil_append, hemp, Bool.false_and, Bool.false_eq_true, if_false]
    rw [nameChain_ref s n ha]
    exact afterName_plain _ _ _ _ _ _ _ h64 (Or.inl rfl)
  | hex h =>
    obtain ⟨b, r, hbr, h58, _⟩ := hexName_head ha
    have hemp : h.isEmpty = false := by rw [hbr]; rfl
    simp only [Anchor.print, Anchor.calls, pushAll_cons, pushAll_nil]
    rw [revision_main _ _ _ _ _ (by rw [hbr]; simpa using h58)]
    rw [scan_name h (hex_nameOk h ha.2.2) true (some 0) [] _ hs]
    unfold revisionMain
    simp only [List.reverse_nil, List.nil_append, hemp, Bool.false_and, Bool.false_eq_true, if_false]
    rw [nameChain_hex s h ha]
    exact afterName_plain _ _ _ _ _ _ _ h64 (Or.inl rfl)
  | describe r g h =>
    exact revision_describe dateOk r g h ha tail hs ho s k
  | head =>
    simp only [Anchor.print, Anchor.calls, pushAll_cons, pushAll_nil, List.cons_append, List.nil_append]
    rw [revision_main _ _ _ _ _ (by simp)]
    have hat : atIsSep true tail = true := by
      rcases okNext_cases ho with rfl | ⟨c, r, rfl, hc⟩
      · rfl
      · rcases hc with rfl | rfl | rfl | rfl <;> rfl
    have hscan : scan true (some 0) [] (64 :: tail) = ([], 64 :: tail, some 0) := by
      simp [scan, hat]
    rw [hscan]
    unfold revisionMain
    have h123' : (tail.head? != some 123) = true := by simpa using h123
    simp only [List.isEmpty_nil, List.head?_cons, beq_self_eq_true, List.tail_cons, h123', Bool.and_self,
      if_true, callK_allYes]
    cases tail with
    | nil => simp [navigate]
    | cons c r => exact afterName_plain _ _ _ _ _ _ _ h64 (Or.inl rfl)
  | reflog n m =>
    obtain ⟨hn, hm⟩ := ha
    obtain ⟨_, hall, _⟩ := natDec_spec m
    have := revision_brace dateOk n hn (natDec m) tail s k
    simp only [Anchor.print, Anchor.calls, List.append_assoc, List.cons_append, List.nil_append] at this ⊢
    rw [this, afterName_brace _ _ _ _ _ _ _ _ (digits_plain _ hall), tryParseI_natDec m hm]
    have hneg : ¬ ((m : Int) < 0) := by omega
    simp [hneg, pushAll_append]
  | nthCheckedOut m =>
    obtain ⟨h1, h2⟩ := ha
    obtain ⟨_, hall, _⟩ := natDec_spec m
    have hpl : plain (45 :: natDec m) = true := by
      have := digits_plain _ hall
      simpa [plain] using this
    have := revision_brace dateOk none trivial (45 :: natDec m) tail s k
    simp only [Anchor.print, Anchor.calls, List.append_assoc, List.cons_append, List.nil_append, optName,
      nameCalls, pushAll_nil, List.isEmpty_nil] at this ⊢
    rw [this]
    have hb := afterName_brace dateOk s [] true true (45 :: natDec m) tail k hpl
    simp only [List.cons_append] at hb
    rw [hb, tryParseI_neg_natDec m h1 h2]
    have hneg : (-(m : Int) < 0) := by omega
    have hm0 : ¬ (m = 0) := by omega
    simp [hneg, hm0]
  | sibling n push =>
    have hw : ∀ w : Bytes, plain w = true → tryParseI w = .none → siblingParse w = some push →
        revision allYes dateOk s (optName n ++ [64, 123] ++ w ++ [125] ++ tail) k =
          navigate allYes (tail.length + 1) (s.pushAll (nameCalls n ++ [.sibling push])) tail k := by
      intro w hpl hI hS
      have := revision_brace dateOk n ha w tail s k
      simp only [List.append_assoc, List.cons_append, List.nil_append] at this ⊢
      rw [this, afterName_brace _ _ _ _ _ _ _ _ hpl, hI]
      simp [hS, pushAll_append]
    cases push with
    | true => exact hw [112, 117, 115, 104] (by decide) (tryParseI_none_of_parse (by decide)) (by decide)
    | false =>
      exact hw [117, 112, 115, 116, 114, 101, 97, 109] (by decide) (tryParseI_none_of_parse (by decide)) (by decide)
  | date n d =>
    obtain ⟨hn, hpl, hdate, hI, hS⟩ := ha
    have := revision_brace dateOk n hn d tail s k
    simp only [Anchor.print, Anchor.calls, List.append_assoc, List.cons_append, List.nil_append] at this ⊢
    rw [this, afterName_brace _ _ _ _ _ _ _ _ hpl, tryParseI_none_of_parse hI]
    simp [hS, hdate, pushAll_append]

/-! ### revisions -/

theorem pushAll_lastPrefix_navs (ns : List Nav) : ∀ s : St,
    (s.pushAll (ns.map Nav.call)).lastPrefix = s.lastPrefix ∧
    (s.pushAll (ns.map Nav.call)).lastRef = s.lastRef := by
  induction ns with
  | nil => intro s; exact ⟨rfl, rfl⟩
  | cons n ns ih =>
    intro s
    simp only [List.map_cons, pushAll_cons]
    obtain ⟨h1, h2⟩ := ih (s.push n.call)
    rw [h1, h2]
    cases n <;> exact ⟨rfl, rfl⟩

/-- a navigation revision followed by an end marker: all its calls are made, then `navigate`
looks at the end marker -/
theorem revision_open (dateOk : Bytes → Bool) (a : Anchor) (ns : List Nav) (ha : a.Wf dateOk)
    (hns : ∀ n ∈ ns, n.Wf) (t : Bytes) (ht : EndOk t) (s : St) (k : St → Bytes → Res) :
    ∃ F, revision allYes dateOk s (a.print ++ printNavs ns ++ t) k =
      navigate allYes (F + 1) (s.pushAll (a.calls ++ ns.map Nav.call)) t k := by
  have hlen := printNavs_length ns
  refine ⟨(printNavs ns ++ t).length - ns.length, ?_⟩
  rw [List.append_assoc, revision_anchor dateOk a ha _ (tail_sepStart ns t ht) (tail_okNext ns t ht)]
  rw [navigate_navs ns hns t ht.okNext _ _ _ (by omega), pushAll_append]
  congr 1
  simp only [List.length_append] at hlen ⊢
  omega

theorem natDec_small : natDec 0 = [48] ∧ natDec 1 = [49] ∧ natDec 2 = [50] ∧ natDec 3 = [51] := by decide

/-- a revision in final position -/
theorem revision_closed (dateOk : Bytes → Bool) (r : Rev) (hwf : r.Wf dateOk) (s : St)
    (k : St → Bytes → Res) :
    revision allYes dateOk s r.print k = k (s.pushAll r.calls) [] := by
  cases r with
  | nav a ns p =>
    obtain ⟨ha, hns⟩ := hwf
    cases p with
    | none =>
      obtain ⟨F, hF⟩ := revision_open dateOk a ns ha hns [] .nil s k
      simp only [List.append_nil] at hF
      simp only [Rev.print, printPath, List.append_nil, Rev.calls, pathCalls]
      rw [hF, navigate_nil]
    | some p =>
      obtain ⟨F, hF⟩ := revision_open dateOk a ns ha hns (58 :: p) (.path p) s k
      simp only [Rev.print, printPath, Rev.calls, pathCalls]
      rw [hF, navigate_path, pushAll_append, pushAll_append]
      simp [pushAll_append]
  | searchAll re neg =>
    have hne : printRegex re neg ≠ [] := by
      cases neg with
      | true => simp [printRegex]
      | false => simpa [printRegex] using hwf.1
    have hre : re.isEmpty = false := by
      cases re with
      | nil => exact absurd rfl hwf.1
      | cons _ _ => rfl
    simp only [Rev.print, Rev.calls, List.cons_append, List.nil_append, pushAll_cons, pushAll_nil]
    cases hp : printRegex re neg with
    | nil => exact absurd hp hne
    | cons c cs =>
      unfold revision
      simp only
      rw [← hp, parseRegexPrefix_print re neg hwf]
      simp [hre]
  | index st p =>
    cases st with
    | none =>
      obtain ⟨hne, h47, hnum⟩ := hwf
      simp only [Rev.print, Rev.calls, pushAll_cons, pushAll_nil]
      cases p with
      | nil => exact absurd rfl hne
      | cons c cs =>
        have hc47 : c ≠ 47 := by simpa using h47
        unfold revision
        split
        · rename_i heq; simp at heq
        · rename_i heq; simp only [List.cons.injEq, true_and] at heq; exact absurd heq.1 hc47
        · rename_i regex heq; simp only [List.cons.injEq, true_and] at heq; exact absurd heq.1 hc47
        · rename_i path heq
          simp only [List.cons.injEq, true_and] at heq
          rw [heq.1, heq.2] at hnum
          simp [stagePrefixed] at hnum
        · rename_i path heq
          simp only [List.cons.injEq, true_and] at heq
          rw [heq.1, heq.2] at hnum
          simp [stagePrefixed] at hnum
        · rename_i path heq
          simp only [List.cons.injEq, true_and] at heq
          rw [heq.1, heq.2] at hnum
          simp [stagePrefixed] at hnum
        · rename_i path heq
          simp only [List.cons.injEq, true_and] at heq
          rw [heq.1, heq.2] at hnum
          simp [stagePrefixed] at hnum
        · rename_i path heq
          simp only [List.cons.injEq, true_and] at heq
          subst heq
          simp
        · rename_i hno; exact absurd rfl (hno (c :: cs))
    | some st =>
      have hst : st = 0 ∨ st = 1 ∨ st = 2 ∨ st = 3 := by
        have : st ≤ 3 := hwf
        omega
      obtain ⟨d0, d1, d2, d3⟩ := natDec_small
      rcases hst with rfl | rfl | rfl | rfl
      · simp [Rev.print, Rev.calls, d0, revision]
      · simp [Rev.print, Rev.calls, d1, revision]
      · simp [Rev.print, Rev.calls, d2, revision]
      · simp [Rev.print, Rev.calls, d3, revision]

/-- the first byte of a printed revision -/
theorem Rev.print_head (dateOk : Bytes → Bool) (r : Rev) (hwf : r.Wf dateOk) :
    ∃ b rest, r.print = b :: rest ∧ b ≠ 94 := by
  cases r with
  | nav a ns p =>
    obtain ⟨ha, _⟩ := hwf
    have hname : ∀ n : Bytes, RefName n → ∀ t : Bytes, ∃ b rest, n ++ t = b :: rest ∧ b ≠ 94 := by
      intro n hn t
      obtain ⟨b, r, hbr, _, h94⟩ := refName_head hn
      exact ⟨b, r ++ t, by rw [hbr]; rfl, h94⟩
    have hopt : ∀ n : Option Bytes, OptRefName n → ∀ t : Bytes,
        ∃ b rest, optName n ++ 64 :: t = b :: rest ∧ b ≠ 94 := by
      intro n hn t
      cases n with
      | none => exact ⟨64, t, rfl, by decide⟩
      | some n => exact hname n hn _
    cases a with
    | ref n =>
      obtain ⟨b, rest, h, hb⟩ := hname n ha (printNavs ns ++ printPath p)
      exact ⟨b, rest, by simpa [Rev.print, Anchor.print] using h, hb⟩
    | hex h =>
      obtain ⟨b, r, hbr, _, h94⟩ := hexName_head ha
      exact ⟨b, r ++ printNavs ns ++ printPath p, by simp [Rev.print, Anchor.print, hbr], h94⟩
    | describe r g h =>
      obtain ⟨hrne, hrok, _, _⟩ := ha
      cases r with
      | nil => exact absurd rfl hrne
      | cons c r' =>
        simp only [nameOk, Bool.and_eq_true] at hrok
        have := hrok.1.1
        simp only [nameByte, Bool.not_eq_eq_eq_not, Bool.not_true, Bool.or_eq_false_iff,
          beq_eq_false_iff_ne, ne_eq] at this
        exact ⟨c, _, rfl, this.1.1.2⟩
    | head => exact ⟨64, _, rfl, by decide⟩
    | reflog n m =>
      obtain ⟨b, rest, h, hb⟩ := hopt n ha.1 (123 :: (natDec m ++ [125] ++ printNavs ns ++ printPath p))
      exact ⟨b, rest, by simpa [Rev.print, Anchor.print] using h, hb⟩
    | nthCheckedOut m => exact ⟨64, _, rfl, by decide⟩
    | sibling n push =>
      obtain ⟨b, rest, h, hb⟩ := hopt n ha
        (123 :: ((if push then [112, 117, 115, 104] else [117, 112, 115, 116, 114, 101, 97, 109])
          ++ [125] ++ printNavs ns ++ printPath p))
      exact ⟨b, rest, by simpa [Rev.print, Anchor.print] using h, hb⟩
    | date n d =>
      obtain ⟨b, rest, h, hb⟩ := hopt n ha.1 (123 :: (d ++ [125] ++ printNavs ns ++ printPath p))
      exact ⟨b, rest, by simpa [Rev.print, Anchor.print] using h, hb⟩
  | searchAll re neg => exact ⟨58, _, rfl, by decide⟩
  | index st p =>
    cases st with
    | none => exact ⟨58, _, rfl, by decide⟩
    | some st => exact ⟨58, _, rfl, by decide⟩

end GixModel.C48
