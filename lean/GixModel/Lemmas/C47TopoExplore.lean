import GixModel.Lemmas.C47TopoSteps
/-
C47 — lemmas, part 4: the explore walk. `ExInv` is what holds of the state map and the explore
queue at all times; `exploreToDepth_spec`: the walk keeps it, ends within the prescribed fuel
without a missing-state error, leaves only entries below the cut-off in the queue and touches
nothing but the state map and its own queue.
-/
namespace GixModel.C47
open GixModel GixModel.CG GixModel.Spec.C47

section
variable {E : TopoEnv} {nodes tips ends : List Nat}

theorem fExplored_has {m : StateMap} {x : Nat} (h : m.fExplored x = true) : m.has x = true := by
  unfold StateMap.fExplored at h
  unfold StateMap.has
  cases hg : m.get x with
  | none => rw [hg] at h; cases h
  | some st => rfl

theorem fInDeg_has {m : StateMap} {x : Nat} (h : m.fInDeg x = true) : m.has x = true := by
  unfold StateMap.fInDeg at h
  unfold StateMap.has
  cases hg : m.get x with
  | none => rw [hg] at h; cases h
  | some st => rfl

theorem fU_has {m : StateMap} {x : Nat} (h : m.fU x = true) : m.has x = true := by
  unfold StateMap.fU at h
  unfold StateMap.has
  cases hg : m.get x with
  | none => rw [hg] at h; cases h
  | some st => rfl

structure ExInv (E : TopoEnv) (nodes ends : List Nat) (s : TS E) : Prop where
  st_nodes : ∀ x, s.states.has x = true → x ∈ nodes
  st_u : ∀ x, s.states.fU x = true → Hid E ends x
  st_ends : ∀ e, e ∈ ends → s.states.fU e = true
  st_added : ∀ c, s.states.fAdded c = true → ∀ p, p ∈ walkParents E c → s.states.has p = true
  eq_key : ∀ e, e ∈ E.qg.items s.explore → e.1 = genTime E.g e.2
  eq_expl : ∀ e, e ∈ E.qg.items s.explore → s.states.fExplored e.2 = true
  ex_done : ∀ x, s.states.fExplored x = true →
    (∃ k, (k, x) ∈ E.qg.items s.explore) ∨ ∀ p, p ∈ walkParents E x → s.states.fExplored p = true
  phi_le : (E.qg.items s.explore).length + unexplored nodes s.states ≤ nodes.length

/-- how the state map may change while other parts of the state are untouched -/
structure StRel (m m' : StateMap) : Prop where
  fInDeg : ∀ x, m'.fInDeg x = m.fInDeg x
  fExplored : ∀ x, m.fExplored x = true → m'.fExplored x = true
  has : ∀ x, m.has x = true → m'.has x = true
  fU : ∀ x, m.fU x = true → m'.fU x = true

theorem StRel.refl (m : StateMap) : StRel m m := ⟨fun _ => rfl, fun _ h => h, fun _ h => h, fun _ h => h⟩

theorem StRel.trans {a b c : StateMap} (h1 : StRel a b) (h2 : StRel b c) : StRel a c :=
  ⟨fun x => by rw [h2.fInDeg, h1.fInDeg], fun x h => h2.fExplored x (h1.fExplored x h),
   fun x h => h2.has x (h1.has x h), fun x h => h2.fU x (h1.fU x h)⟩

/-- only the state map and the explore queue differ -/
structure ExFrame (s s' : TS E) : Prop where
  indeg : s'.indeg = s.indeg
  indegQ : s'.indegQ = s.indegQ
  dateQ : s'.dateQ = s.dateQ
  dateCtr : s'.dateCtr = s.dateCtr
  stack : s'.stack = s.stack
  minGen : s'.minGen = s.minGen
  st : StRel s.states s'.states

theorem ExFrame.refl (s : TS E) : ExFrame s s := ⟨rfl, rfl, rfl, rfl, rfl, rfl, StRel.refl _⟩

theorem ExFrame.trans {a b c : TS E} (h1 : ExFrame a b) (h2 : ExFrame b c) : ExFrame a c :=
  ⟨h2.indeg.trans h1.indeg, h2.indegQ.trans h1.indegQ, h2.dateQ.trans h1.dateQ, h2.dateCtr.trans h1.dateCtr,
   h2.stack.trans h1.stack, h2.minGen.trans h1.minGen, h1.st.trans h2.st⟩

/-- `process_parents` of a registered commit keeps the state-map part of `ExInv` -/
theorem Processed.exinv (ctx : TCtx E nodes tips ends) {s : TS E} (h : ExInv E nodes ends s) {c : Nat}
    (hc : s.states.has c = true) {m' : StateMap} (hp : Processed E.g c (walkParents E c) s.states m') :
    (∀ x, m'.has x = true → x ∈ nodes) ∧ (∀ x, m'.fU x = true → Hid E ends x) ∧
    (∀ e, e ∈ ends → m'.fU e = true) ∧
    (∀ c', m'.fAdded c' = true → ∀ p, p ∈ walkParents E c' → m'.has p = true) ∧
    (∀ p, p ∈ walkParents E c → m'.has p = true) ∧ StRel s.states m' := by
  have hcn : c ∈ nodes := h.st_nodes c hc
  have hmono : ∀ x, s.states.has x = true → m'.has x = true := by
    intro x hx; rw [hp.has, hx]; rfl
  have hpar : ∀ p, p ∈ walkParents E c → m'.has p = true := by
    intro p hpp
    rw [hp.has]
    cases hA : s.states.fAdded c with
    | true => simp [h.st_added c hA p hpp]
    | false => simp [hpp]
  refine ⟨?_, ?_, ?_, ?_, hpar, ?_⟩
  · intro x hx
    rw [hp.has] at hx
    simp only [Bool.or_eq_true, Bool.and_eq_true, Bool.not_eq_true', decide_eq_true_eq] at hx
    rcases hx with hx | ⟨_, hx | ⟨_, hx⟩⟩
    · exact h.st_nodes x hx
    · exact ctx.closed c hcn x (walkParents_sub E hx)
    · obtain ⟨p, hp1, hp2⟩ := List.mem_flatMap.mp hx
      exact ctx.closed p (ctx.closed c hcn p (walkParents_sub E hp1)) x hp2
  · intro x hx
    rw [hp.fU] at hx
    simp only [Bool.or_eq_true, Bool.and_eq_true, Bool.not_eq_true', decide_eq_true_eq] at hx
    rcases hx with hx | ⟨⟨_, hu⟩, hx | hx⟩
    · exact h.st_u x hx
    · exact (h.st_u c hu).step hx
    · obtain ⟨p, hp1, hp2⟩ := List.mem_flatMap.mp hx
      exact ((h.st_u c hu).step hp1).parent hp2
  · intro e he
    rw [hp.fU, h.st_ends e he]; rfl
  · intro c' hA p hpp
    rw [hp.fAdded] at hA
    simp only [Bool.or_eq_true, decide_eq_true_eq] at hA
    cases hA with
    | inl hA => exact hmono p (h.st_added c' hA p hpp)
    | inr hA => subst hA; exact hpar p hpp
  · exact ⟨hp.fInDeg, fun x hx => by rw [hp.fExplored]; exact hx, hmono,
      fun x hx => by rw [hp.fU, hx]; rfl⟩

/-- one `explore_walk_step` on the popped entry -/
theorem exploreStep_spec (ctx : TCtx E nodes tips ends) {s : TS E} (h : ExInv E nodes ends s)
    {k : GenTime} {c : Nat} {qu : E.qg.Q} (hpop : E.qg.pop s.explore = some ((k, c), qu)) :
    ∃ m1 m2 qu2, processParents E.g c (walkParents E c) s.states = some m1 ∧
      exploreParents E (walkParents E c) m1 qu = some (m2, qu2) ∧
      ExInv E nodes ends { s with states := m2, explore := qu2 } ∧
      StRel s.states m2 ∧
      (E.qg.items qu2).length + unexplored nodes m2 + 1 ≤ (E.qg.items s.explore).length + unexplored nodes s.states := by
  have hperm := ctx.qg_lawful.pop_some _ _ _ hpop
  have hkc : (k, c) ∈ E.qg.items s.explore := hperm.symm.subset List.mem_cons_self
  have hcE : s.states.fExplored c = true := h.eq_expl _ hkc
  have hch : s.states.has c = true := fExplored_has hcE
  obtain ⟨m1, hm1, hP⟩ := processParents_spec E.g c (walkParents E c) s.states hch
  obtain ⟨p1, p2, p3, p4, p5, p6⟩ := hP.exinv ctx h hch
  have hpn : ∀ p, p ∈ walkParents E c → p ∈ nodes := fun p hp => p1 p (p5 p hp)
  obtain ⟨m2, qu2, hm2, hX⟩ := exploreParents_spec ctx.qg_lawful nodes (walkParents E c) m1 qu p5 hpn
  have hrel : StRel s.states m2 :=
    p6.trans ⟨hX.fInDeg, fun x hx => by rw [hX.fExplored, hx]; rfl, fun x hx => by rw [hX.has]; exact hx,
      fun x hx => by rw [hX.fU]; exact hx⟩
  refine ⟨m1, m2, qu2, hm1, hm2, ?_, hrel, ?_⟩
  · refine
      { st_nodes := fun x hx => p1 x (by rw [← hX.has]; exact hx)
        st_u := fun x hx => p2 x (by rw [← hX.fU]; exact hx)
        st_ends := fun e he => by show m2.fU e = true; rw [hX.fU]; exact p3 e he
        st_added := ?_
        eq_key := ?_
        eq_expl := ?_
        ex_done := ?_
        phi_le := ?_ }
    · intro c' hA p hp
      show m2.has p = true
      rw [hX.has]
      exact p4 c' (by rw [← hX.fAdded]; exact hA) p hp
    · intro e he
      cases hX.q_new e he with
      | inl h' => exact h.eq_key e (hperm.symm.subset (List.mem_cons_of_mem _ h'))
      | inr h' => exact h'.1
    · intro e he
      show m2.fExplored e.2 = true
      rw [hX.fExplored]
      cases hX.q_new e he with
      | inl h' =>
        have := h.eq_expl e (hperm.symm.subset (List.mem_cons_of_mem _ h'))
        rw [hP.fExplored, this]; rfl
      | inr h' => simp [h'.2]
    · intro x hx
      have hx' : m2.fExplored x = true := hx
      by_cases hxc : x = c
      · subst hxc
        right
        intro p hp
        show m2.fExplored p = true
        rw [hX.fExplored]; simp [hp]
      · rw [hX.fExplored] at hx'
        simp only [Bool.or_eq_true, decide_eq_true_eq] at hx'
        by_cases hold : s.states.fExplored x = true
        · cases h.ex_done x hold with
          | inl h' =>
            obtain ⟨k', hk'⟩ := h'
            cases List.mem_cons.mp (hperm.subset hk') with
            | inl h'' => exact absurd (congrArg Prod.snd h'') hxc
            | inr h'' => exact Or.inl ⟨k', hX.q_old _ h''⟩
          | inr h' =>
            right
            intro p hp
            exact hrel.fExplored p (h' p hp)
        · have hold' : m1.fExplored x = false := by rw [hP.fExplored]; simpa using hold
          cases hx' with
          | inl h' => rw [hold'] at h'; cases h'
          | inr h' => exact Or.inl ⟨_, hX.q_in x h' hold'⟩
    · have hlen := hperm.length_eq
      simp only [List.length_cons] at hlen
      have hu : unexplored nodes m1 = unexplored nodes s.states := by
        unfold unexplored
        congr 1
        apply List.filter_congr
        intro x _
        rw [hP.fExplored]
      have := hX.phi
      have := h.phi_le
      show (E.qg.items qu2).length + unexplored nodes m2 ≤ nodes.length
      omega
  · have hlen := hperm.length_eq
    simp only [List.length_cons] at hlen
    have hu : unexplored nodes m1 = unexplored nodes s.states := by
      unfold unexplored
      congr 1
      apply List.filter_congr
      intro x _
      rw [hP.fExplored]
    have := hX.phi
    omega

theorem exploreToDepth_spec (ctx : TCtx E nodes tips ends) (cutoff : Nat) :
    ∀ (fuel : Nat) (s : TS E), ExInv E nodes ends s →
      (E.qg.items s.explore).length + unexplored nodes s.states < fuel →
      ∃ s', exploreToDepth E cutoff fuel s = .ok s' ∧ ExInv E nodes ends s' ∧ ExFrame s s' ∧
        ∀ e, e ∈ E.qg.items s'.explore → e.1.1 < cutoff := by
  intro fuel
  induction fuel with
  | zero => intro s _ h; omega
  | succ fuel ih =>
    intro s hinv hfuel
    unfold exploreToDepth
    cases hpop : E.qg.pop s.explore with
    | none =>
      dsimp only
      refine ⟨s, rfl, hinv, ExFrame.refl s, ?_⟩
      intro e he
      rw [ctx.qg_lawful.pop_none _ hpop] at he
      simp at he
    | some r =>
      obtain ⟨⟨k, c⟩, qu⟩ := r
      dsimp only
      by_cases hk : k.1 ≥ cutoff
      · rw [if_pos hk]
        obtain ⟨m1, m2, qu2, h1, h2, h3, h4, h5⟩ := exploreStep_spec ctx hinv hpop
        rw [h1]
        dsimp only
        rw [h2]
        dsimp only
        obtain ⟨s', hs', hinv', hfr, hpost⟩ := ih { s with states := m2, explore := qu2 } h3 (by
          show (E.qg.items qu2).length + unexplored nodes m2 < fuel
          omega)
        refine ⟨s', hs', hinv', ?_, hpost⟩
        have hf0 : ExFrame s { s with states := m2, explore := qu2 } := ⟨rfl, rfl, rfl, rfl, rfl, rfl, h4⟩
        exact ExFrame.trans hf0 hfr
      · rw [if_neg hk]
        refine ⟨s, rfl, hinv, ExFrame.refl s, ?_⟩
        intro e he
        have := ctx.qg_max _ _ _ hpop e he
        simp only at this
        omega

end

end GixModel.C47
