import GixModel.Lemmas.C10d
/-
C10 — `injectBases` points every delta at its base: list helpers, the specification of the two
searches (`findAt`, `rfindOid`), what a correct result looks like (`PointsOk`) and that it implies the
decidable check `basesOk`.
-/
namespace GixModel.C10

/-! ### list helpers -/

theorem sumDeltas_foldl (l : List Change) (a : Int) :
    l.foldl (fun acc c => acc + c.delta) a = a + sumDeltas l := by
  unfold sumDeltas
  induction l generalizing a with
  | nil => simp
  | cons c rest ih =>
    simp only [List.foldl_cons]
    rw [ih (a + c.delta), ih (0 + c.delta)]
    omega

theorem sumDeltas_nil : sumDeltas [] = 0 := rfl

theorem sumDeltas_cons (c : Change) (l : List Change) : sumDeltas (c :: l) = c.delta + sumDeltas l := by
  have := sumDeltas_foldl l (0 + c.delta)
  unfold sumDeltas at *
  simp only [List.foldl_cons]
  rw [this]; omega

theorem sumDeltas_append (a b : List Change) : sumDeltas (a ++ b) = sumDeltas a + sumDeltas b := by
  induction a with
  | nil => simp [sumDeltas_nil]
  | cons c rest ih => simp only [List.cons_append, sumDeltas_cons, ih]; omega

theorem takeWhile_append_of_none {α : Type} (p : α → Bool) (l r : List α) (h : ∀ x ∈ r, p x = false) :
    (l ++ r).takeWhile p = l.takeWhile p := by
  induction l with
  | nil =>
    cases r with
    | nil => rfl
    | cons x rest => simp [List.takeWhile, h x List.mem_cons_self]
  | cons a rest ih =>
    simp only [List.cons_append, List.takeWhile_cons]
    split
    · rw [ih]
    · rfl

theorem takeWhile_eq_self {α : Type} (p : α → Bool) (l : List α) (h : ∀ x ∈ l, p x = true) : l.takeWhile p = l := by
  induction l with
  | nil => rfl
  | cons a rest ih =>
    simp only [List.takeWhile_cons, h a List.mem_cons_self, if_true]
    rw [ih (fun x hx => h x (List.mem_cons_of_mem _ hx))]

theorem drop_takeWhile_length {α : Type} (p : α → Bool) (l : List α) :
    l.takeWhile p ++ l.drop (l.takeWhile p).length = l := by
  induction l with
  | nil => rfl
  | cons a rest ih =>
    simp only [List.takeWhile_cons]
    split
    · simp only [List.length_cons, List.drop_succ_cons, List.cons_append]; rw [ih]
    · simp

theorem findIdx_none {α : Type} (p : α → Bool) (l : List α) (h : l.findIdx? p = none) : ∀ x ∈ l, p x = false := by
  induction l with
  | nil => intro x hx; cases hx
  | cons a rest ih =>
    simp only [List.findIdx?_cons] at h
    split at h
    · cases h
    · rename_i hp
      intro x hx
      rcases List.mem_cons.mp hx with rfl | hx
      · simpa using hp
      · apply ih _ x hx
        cases hr : rest.findIdx? p with
        | none => rfl
        | some k => rw [hr] at h; simp at h

theorem findIdx_some {α : Type} (p : α → Bool) (l : List α) (k : Nat) (h : l.findIdx? p = some k) :
    (∃ x, l[k]? = some x ∧ p x = true) ∧ ∀ j x, j < k → l[j]? = some x → p x = false := by
  induction l generalizing k with
  | nil => simp at h
  | cons a rest ih =>
    simp only [List.findIdx?_cons] at h
    split at h
    · rename_i hp
      cases h
      exact ⟨⟨a, rfl, hp⟩, fun j x hj => by omega⟩
    · rename_i hp
      cases hr : rest.findIdx? p with
      | none => rw [hr] at h; simp at h
      | some k' =>
        rw [hr] at h
        simp at h; subst h
        obtain ⟨⟨x, hx, hpx⟩, hlt⟩ := ih k' hr
        refine ⟨⟨x, by simpa using hx, hpx⟩, ?_⟩
        intro j y hj hy
        cases j with
        | zero => simp at hy; subst hy; simpa using hp
        | succ j' => exact hlt j' y (by omega) (by simpa using hy)

/-- the unique position with property `p` is what `findIdx?` finds -/
theorem findIdx_unique {α : Type} (p : α → Bool) (l : List α) (b : Nat) (x : α) (hb : l[b]? = some x) (hp : p x = true)
    (hu : ∀ k y, l[k]? = some y → p y = true → k = b) : l.findIdx? p = some b := by
  cases h : l.findIdx? p with
  | none => have := findIdx_none p l h x (List.mem_of_getElem? hb); rw [hp] at this; cases this
  | some k =>
    obtain ⟨⟨y, hy, hpy⟩, _⟩ := findIdx_some p l k h
    rw [hu k y hy hpy]

/-! ### the searches of the iterator -/

theorem rfindOid_spec (l : List Change) (id : Nat) (ch : Change) (h : rfindOid l id = some ch) :
    ch ∈ l ∧ ch.oid = some id := by
  unfold rfindOid at h
  have h1 := List.mem_of_find?_eq_some h
  have h2 := List.find?_some h
  exact ⟨List.mem_reverse.mp h1, by simpa using h2⟩

theorem findAt_none (l : List Change) (key : Nat) (h : findAt l key = none) : ∀ c ∈ l, c.packOfs ≠ key := by
  unfold findAt at h
  split at h
  · split at h
    · split at h <;> cases h
    · cases h
  · rename_i hn
    intro c hc he
    have := findIdx_none _ l hn c hc
    simp [he] at this

/-- `findAt` reports a record with the key; if it is not the first such record it directly follows the
first one -/
theorem findAt_some (l : List Change) (key idx : Nat) (h : findAt l key = some idx) :
    ∃ i0 c0, l[i0]? = some c0 ∧ c0.packOfs = key ∧
      ((idx = i0 ∧ ∀ c1, l[i0 + 1]? = some c1 → c1.packOfs ≠ key)
       ∨ (idx = i0 + 1 ∧ ∃ c1, l[i0 + 1]? = some c1 ∧ c1.packOfs = key)) := by
  unfold findAt at h
  split at h
  · rename_i i0 hi0
    obtain ⟨⟨c0, hc0, hp0⟩, _⟩ := findIdx_some _ l i0 hi0
    refine ⟨i0, c0, hc0, by simpa using hp0, ?_⟩
    split at h
    · rename_i c1 hc1
      split at h
      · rename_i hk; cases h; exact Or.inr ⟨rfl, c1, hc1, by simpa using hk⟩
      · rename_i hk; cases h
        refine Or.inl ⟨rfl, ?_⟩
        intro c1' hc1'
        rw [hc1] at hc1'; cases hc1'
        simpa using hk
    · rename_i hnone; cases h
      exact Or.inl ⟨rfl, fun c1 hc1 => by rw [hnone] at hc1; cases hc1⟩
  · cases h

/-! ### what a correct result looks like -/

/-- the output entry `oe` is a base object, or an ofs-delta whose distance leads exactly to the output
entry of its base: for an input ofs-delta the entry its distance led to in the thin pack, for a former
ref-delta a base inserted from the object database -/
def PointsOk (entries : List InEntry) (out : List OutEntry) (oe : OutEntry) : Prop :=
  match oe.src with
  | none => oe.hdr = Hdr.base
  | some j => ∃ e, entries[j]? = some e ∧
    match e.hdr with
    | Hdr.base => oe.hdr = Hdr.base
    | Hdr.ofs d0 => ∃ d b eb ob, oe.hdr = Hdr.ofs d ∧ entries[b]? = some eb ∧ eb.ofs = e.ofs - d0
        ∧ ob ∈ out ∧ ob.src = some b ∧ ob.ofs + d = oe.ofs
    | Hdr.ref id => ∃ d ob, oe.hdr = Hdr.ofs d ∧ ob ∈ out ∧ ob.src = none ∧ ob.baseId = some id ∧ ob.ofs + d = oe.ofs

theorem PointsOk.mono {entries : List InEntry} {out out' : List OutEntry} {oe : OutEntry}
    (hsub : ∀ x, x ∈ out → x ∈ out') (h : PointsOk entries out oe) : PointsOk entries out' oe := by
  unfold PointsOk at *
  split
  · rename_i hs; rw [hs] at h; exact h
  · rename_i j hs
    rw [hs] at h
    obtain ⟨e, he, h⟩ := h
    refine ⟨e, he, ?_⟩
    split
    · rename_i hh; rw [hh] at h; exact h
    · rename_i d0 hh
      rw [hh] at h
      obtain ⟨d, b, eb, ob, h1, h2, h3, h4, h5, h6⟩ := h
      exact ⟨d, b, eb, ob, h1, h2, h3, hsub ob h4, h5, h6⟩
    · rename_i id hh
      rw [hh] at h
      obtain ⟨d, ob, h1, h2, h3, h4, h5⟩ := h
      exact ⟨d, ob, h1, hsub ob h2, h3, h4, h5⟩

end GixModel.C10
