import GixModel.Lemmas.C49
/-
C49 — bridging lemma: on a worktree file that exists, gitoxide's status letter is git's.
-/
namespace GixModel.C49
open GixModel GixModel.Spec.C49

/-- The inputs the comparison with git is claimed for.
* regular-file and symlink entries (submodules and sparse directories are not modelled), files,
  symlinks and directories in the worktree (no FIFOs, sockets, devices);
* git's default build (no USE_NSEC, no USE_STDEV) and an index timestamp that is known (≠ 0);
* the stat's size is the file length truncated to 32 bits (`Stat::from_fs`), an index in which
  the empty blob is recorded with size 0, and no content filter (an empty blob differs from a
  non-empty file — stated for files below 4 GiB);
* not the two recorded differences: a symlink in the worktree while `core.symlinks=false`, and
  `core.checkStat=minimal` + `core.trustctime=true` with only the ctime differing. -/
structure Domain (e : Entry) (m : Meta) (tsS : Nat) (o : Opts) (hashDiffers : Bool) : Prop where
  mode : e.mode = .file ∨ e.mode = .fileExec ∨ e.mode = .symlink
  kind : m.kind = .file ∨ m.kind = .symlink ∨ m.kind = .dir
  build : o.stat.useNsec = false ∧ o.stat.useStdev = false
  ts : tsS % 2 ^ 32 ≠ 0
  size : m.stat.size = m.len % 2 ^ 32
  wellFormed : e.emptyBlob = true → e.stat.size = 0
  content : e.emptyBlob = true → m.stat.size ≠ 0 → hashDiffers = true
  noLinkWithoutSymlinks : ¬ (e.mode = .symlink ∧ o.symlink = false ∧ m.kind = .symlink)
  ctimeMinimal : o.stat.checkStat = false → o.stat.trustCtime = true → e.stat.ctimeS = m.stat.ctimeS

theorem entry_found (e : Entry) (m : Meta) (tsS tsN : Nat) (o : Opts) (hd : Bool)
    (h : Domain e m tsS o hd) :
    letterOf (entryStatus e (.found m) tsS tsN o hd) = gitLetter e (.found m) tsS o hd := by
  obtain ⟨hmode, hkind, ⟨hns, hsd⟩, hts, hlen, hwf, hcontent, hnolink, hct⟩ := h
  unfold entryStatus gitLetter
  by_cases hskip : e.skip = true
  · simp [hskip, letterOf]
  · simp only [hskip, Bool.false_eq_true, if_false]
    by_cases hdir : m.kind = .dir
    · have hc : e.mode ≠ .commit := by rcases hmode with h | h | h <;> simp [h]
      simp [hdir, hc, letterOf]
    · have hkind' : m.kind = .file ∨ m.kind = .symlink := by
        rcases hkind with h | h | h
        · exact Or.inl h
        · exact Or.inr h
        · exact absurd h hdir
      simp only [show (m.kind == FsKind.dir) = false by simpa using hdir, Bool.false_eq_true, if_false]
      by_cases hita : e.intentToAdd = true
      · simp [hita, letterOf]
      · simp only [hita, Bool.false_eq_true, if_false]
        obtain ⟨hmc, htd⟩ := modeChange_eq e m o hmode hkind' hnolink
        have hmatch := matches_iff m.stat e.stat o.stat hns hsd hct
        have hbasic : (gitBasic e m o).data = ((e.stat.size != m.stat.size) || (e.stat.size == 0 && !e.emptyBlob))
            ∧ (gitBasic e m o).other = (gitMatchStatData e.stat m.stat o.stat.trustCtime o.stat.checkStat).1 := by
          rcases hmode with hm | hm | hm <;> simp [gitBasic, hm, gitMatchStatData]
        have hracy : (gitMatchStatData e.stat m.stat o.stat.trustCtime o.stat.checkStat).1 = false →
            isRacy tsS tsN m.stat o.stat = gitRacy tsS e := by
          intro hot
          have hmt : e.stat.mtimeS = m.stat.mtimeS := by
            unfold gitMatchStatData at hot
            simp only [Bool.or_eq_false_iff, bne_eq_false_iff_eq] at hot
            exact hot.1.1
          unfold isRacy gitRacy
          simp only [hns, Bool.false_and, Bool.false_eq_true, if_false, hmt]
          have hne : tsS % 2 ^ 32 ≠ 0 := hts
          generalize tsS % 2 ^ 32 = t at hne ⊢
          by_cases h1 : t < m.stat.mtimeS
          · have : t ≤ m.stat.mtimeS := by omega
            simp [h1, this, hne]
          · by_cases h2 : t = m.stat.mtimeS
            · subst h2; simp [hne]
            · have : ¬ t ≤ m.stat.mtimeS := by omega
              simp [h1, h2, this]
        have hF2 : e.emptyBlob = true → (e.stat.size != m.stat.size) = true → hd = true := by
          intro heb hsn
          apply hcontent heb
          have := hwf heb
          intro hz
          rw [this, hz] at hsn
          simp at hsn
        have hF1 : e.emptyBlob = true → (e.stat.size == 0) = true := by
          intro heb; simp [hwf heb]
        have key := mod_eq (gitBasic e m o).mode
          (gitMatchStatData e.stat m.stat o.stat.trustCtime o.stat.checkStat).1
          (e.stat.size != m.stat.size) (e.stat.size == 0) e.emptyBlob hd
          (isRacy tsS tsN m.stat o.stat) (gitRacy tsS e) hF1 hF2 hracy
        have hgit : gitIeModified e m tsS o hd =
            if (gitBasic e m o).type then true else gitMod (gitBasic e m o).mode
              (gitMatchStatData e.stat m.stat o.stat.trustCtime o.stat.checkStat).1
              (e.stat.size != m.stat.size) (e.stat.size == 0) e.emptyBlob hd (gitRacy tsS e) := by
          unfold gitIeModified gitIeMatchStat gitMod Chg.any
          simp only [hita, Bool.false_eq_true, if_false]
          rw [← hbasic.1, ← hbasic.2]
          generalize gitBasic e m o = c
          obtain ⟨ty, xc, dt, ot⟩ := c
          generalize gitRacy tsS e = rg
          rw [show (e.stat.size != 0) = !(e.stat.size == 0) by simp [bne]]
          generalize (e.stat.size == 0) = z
          cases ty <;> cases xc <;> cases dt <;> cases ot <;> cases rg <;> cases hd <;> simp_all
        rw [hgit, htd, hmc]
        cases hty : (gitBasic e m o).type
        · simp only [Bool.false_eq_true, if_false]
          rw [← key]
          unfold gixMod compareBlobs
          rw [hmatch]
          simp only [← hlen]
          rw [show (e.stat.size == m.stat.size) = !(e.stat.size != m.stat.size) by simp [bne],
            show (e.stat.size != 0) = !(e.stat.size == 0) by simp [bne]]
          generalize (gitMatchStatData e.stat m.stat o.stat.trustCtime o.stat.checkStat).1 = ot
          generalize (e.stat.size != m.stat.size) = sn
          generalize (e.stat.size == 0) = z
          generalize isRacy tsS tsN m.stat o.stat = rx
          generalize e.emptyBlob = eb
          cases hxc : (gitBasic e m o).mode <;> cases ot <;> cases sn <;> cases z <;> cases rx <;> cases eb <;> cases hd <;>
            simp [letterOf]
        · simp [letterOf]

end GixModel.C49
