import GixModel.Lemmas.C20Main
/-
C20 helper lemmas, part 4: what the file of one edited ref and packed-refs look like after every
prefix of the steps that touch them.
-/
namespace GixModel.C20
open GixModel

/-- an entry that is a file with the given content, or nothing -/
def ent (o : Option Bytes) : Option Entry := o.map Entry.file

theorem fileAt_ent {fs : Fs} {p : Path} {o : Option Bytes} (h : fs p = ent o) : fileAt fs p = o := by
  cases o <;> simp [fileAt, ent, h]

theorem entry_of_fileAt {fs : Fs} {p : Path} (h : fs p ≠ some .dir) : fs p = ent (fileAt fs p) := by
  cases hp : fs p with
  | none => simp [fileAt, ent, hp]
  | some e =>
    cases e with
    | dir => exact absurd hp h
    | file c => simp [fileAt, ent, hp]

/-- what the transaction makes of packed-refs -/
def newPackedFile (s : Store) (txn : List Edit) : Option Bytes :=
  if s.hasGlobalLock txn = true ∧ (s.packedDeletions txn).isEmpty = false then
    (if (s.remaining txn).isEmpty = true then none else some (renderPacked (s.remaining txn)))
  else s.packed.map renderPacked

/-- a property that looks only at the entries of some paths holds for all prefixes of operations
that do not touch them -/
theorem allPrefixes_frame (P : Fs → Prop) (paths : List Path)
    (hdep : ∀ f g : Fs, (∀ q ∈ paths, f q = g q) → P g → P f) (ops : List FsOp)
    (hops : ∀ op ∈ ops, ∀ q ∈ paths, q ∉ op.touches) (fs : Fs) (h : P fs) : AllPrefixes P ops fs := by
  intro j
  apply hdep _ fs _ h
  intro q hq
  exact applyAll_frame (fun op ho => hops op (List.mem_of_mem_take ho) q hq) fs

theorem run_appends (p : Path) (chunks : List Bytes) (fs : Fs) (c0 : Bytes) (h : fs p = some (.file c0)) :
    applyAll (chunks.map (FsOp.append p)) fs p = some (.file (c0 ++ chunks.flatten)) := by
  induction chunks generalizing fs c0 with
  | nil => simpa using h
  | cons x xs ih =>
    simp only [List.map_cons, applyAll_cons, List.flatten_cons]
    have : (FsOp.append p x).apply fs p = some (.file (c0 ++ x)) := by simp [FsOp.apply, h]
    rw [ih _ _ this, List.append_assoc]

theorem run_create_appends (p : Path) (chunks : List Bytes) (fs : Fs) (h : fs p = none) :
    applyAll (FsOp.create p :: chunks.map (FsOp.append p)) fs p = some (.file chunks.flatten) := by
  rw [applyAll_cons]
  have : (FsOp.create p).apply fs p = some (.file []) := by simp [FsOp.apply, h]
  rw [run_appends p chunks _ [] this]; simp

theorem appends_touch (p : Path) (chunks : List Bytes) :
    ∀ op ∈ chunks.map (FsOp.append p), ∀ t ∈ op.touches, t = p := by
  intro op ho t ht
  simp only [List.mem_map] at ho
  obtain ⟨x, _, rfl⟩ := ho
  simpa [FsOp.touches] using ht

/-- the packed-refs part: for every prefix packed-refs is the old or the new file and nothing but
packed-refs and its lock changes; at the end it is the new file -/
theorem run_packed (c : Cfg) (s : Store) (txn : List Edit) (hchunk : ∀ bs, (c.chunk bs).flatten = bs)
    (fs : Fs) (hpk : fs packedPath = ent (s.packed.map renderPacked))
    (hlock : s.hasGlobalLock txn = true → fs (lockPath packedPath) = some (.file [])) :
    AllPrefixes (fun f => (f packedPath = fs packedPath ∨ f packedPath = ent (newPackedFile s txn)) ∧
        ∀ q, q ≠ packedPath → q ≠ lockPath packedPath → f q = fs q) (packedCommit c s txn) fs ∧
      applyAll (packedCommit c s txn) fs packedPath = ent (newPackedFile s txn) := by
  have hne : lockPath packedPath ≠ packedPath := by decide
  have frame : ∀ j q, q ≠ packedPath → q ≠ lockPath packedPath →
      applyAll ((packedCommit c s txn).take j) fs q = fs q := by
    intro j q h1 h2
    apply applyAll_frame
    intro op ho ht
    rcases packedCommit_touches c s txn op (List.mem_of_mem_take ho) q ht with e | e
    · exact h1 e
    · exact h2 e
  by_cases hg : s.hasGlobalLock txn = true
  · by_cases hd : (s.packedDeletions txn).isEmpty = true
    · -- nothing to delete from packed-refs: the lock is dropped
      have hnew : newPackedFile s txn = s.packed.map renderPacked := by simp [newPackedFile, hd]
      have hops : packedCommit c s txn = [FsOp.unlink (lockPath packedPath)] := by simp [packedCommit, hg, hd]
      have hkeep : ∀ j, applyAll ((packedCommit c s txn).take j) fs packedPath = fs packedPath := by
        intro j
        apply applyAll_frame
        intro op ho
        rw [hops] at ho
        have := List.mem_of_mem_take ho
        simp at this; subst this
        simp [FsOp.touches]; exact hne.symm
      refine ⟨fun j => ⟨.inl (hkeep j), frame j⟩, ?_⟩
      have := hkeep (packedCommit c s txn).length
      rw [List.take_length] at this
      rw [this, hpk, hnew]
    · have hd' : (s.packedDeletions txn).isEmpty = false := by simpa using hd
      have hsome : s.packed.isSome = true := by
        simp only [Store.hasGlobalLock, Bool.and_eq_true] at hg; exact hg.1
      obtain ⟨rs, hrs⟩ := Option.isSome_iff_exists.mp hsome
      have hpk' : fs packedPath = some (.file (renderPacked rs)) := by simp [hpk, hrs, ent]
      let A := writeOps c.chunk (lockPath packedPath) (renderPacked (s.remaining txn))
      have hA : ∀ op ∈ A, ∀ t ∈ op.touches, t = lockPath packedPath := appends_touch _ _
      have hAlock : applyAll A fs (lockPath packedPath) = some (.file (renderPacked (s.remaining txn))) := by
        have := run_appends (lockPath packedPath) (c.chunk (renderPacked (s.remaining txn))) fs [] (hlock hg)
        simpa [A, writeOps, hchunk] using this
      have hApk : ∀ j, applyAll (A.take j) fs packedPath = fs packedPath := by
        intro j
        apply applyAll_frame
        intro op ho ht
        exact hne.symm (hA op (List.mem_of_mem_take ho) _ ht)
      have hApk' : applyAll A fs packedPath = fs packedPath := by
        have := hApk A.length; rwa [List.take_length] at this
      by_cases hr : (s.remaining txn).isEmpty = true
      · -- every record is deleted: packed-refs is removed
        have hnew : newPackedFile s txn = none := by simp [newPackedFile, hg, hd', hr]
        have hops : packedCommit c s txn = A ++ [FsOp.unlink packedPath, FsOp.unlink (lockPath packedPath)] := by
          simp [packedCommit, hg, hd', hr, A]
        have hfin : ∀ f : Fs, f packedPath = fs packedPath →
            AllPrefixes (fun f' => f' packedPath = fs packedPath ∨ f' packedPath = ent (newPackedFile s txn))
              [FsOp.unlink packedPath, FsOp.unlink (lockPath packedPath)] f ∧
            applyAll [FsOp.unlink packedPath, FsOp.unlink (lockPath packedPath)] f packedPath = none := by
          intro f hf
          have h1 : (FsOp.unlink packedPath).apply f packedPath = none := by simp [FsOp.apply, hf, hpk']
          have h2 : (FsOp.unlink (lockPath packedPath)).apply ((FsOp.unlink packedPath).apply f) packedPath = none := by
            rw [apply_frame _ _ (by simp [FsOp.touches]; exact hne.symm), h1]
          refine ⟨?_, by simpa using h2⟩
          refine allPrefixes_cons (P := fun f' => f' packedPath = fs packedPath ∨ f' packedPath = ent (newPackedFile s txn))
            (Or.inl hf) ?_
          refine allPrefixes_cons (P := fun f' => f' packedPath = fs packedPath ∨ f' packedPath = ent (newPackedFile s txn))
            (Or.inr (by rw [h1, hnew]; rfl)) ?_
          exact allPrefixes_nil (P := fun f' => f' packedPath = fs packedPath ∨ f' packedPath = ent (newPackedFile s txn))
            (Or.inr (by rw [h2, hnew]; rfl))
        obtain ⟨hf1, hf2⟩ := hfin (applyAll A fs) hApk'
        refine ⟨fun j => ⟨?_, frame j⟩, ?_⟩
        · rw [hops]
          exact allPrefixes_append (P := fun f' => f' packedPath = fs packedPath ∨ f' packedPath = ent (newPackedFile s txn))
            (fun j => .inl (hApk j)) hf1 j
        · rw [hops, applyAll_append, hf2, hnew]; rfl
      · -- the remaining records replace packed-refs
        have hr' : (s.remaining txn).isEmpty = false := by simpa using hr
        have hnew : newPackedFile s txn = some (renderPacked (s.remaining txn)) := by
          simp [newPackedFile, hg, hd', hr']
        have hops : packedCommit c s txn = A ++ [FsOp.rename (lockPath packedPath) packedPath] := by
          simp [packedCommit, hg, hd', hr', A]
        have hren : (FsOp.rename (lockPath packedPath) packedPath).apply (applyAll A fs) packedPath =
            some (.file (renderPacked (s.remaining txn))) := by
          simp [FsOp.apply, hAlock, hApk', hpk']
        refine ⟨fun j => ⟨?_, frame j⟩, ?_⟩
        · rw [hops]
          refine allPrefixes_append (P := fun f' => f' packedPath = fs packedPath ∨ f' packedPath = ent (newPackedFile s txn))
            (fun j => .inl (hApk j)) ?_ j
          refine allPrefixes_cons (P := fun f' => f' packedPath = fs packedPath ∨ f' packedPath = ent (newPackedFile s txn))
            (Or.inl hApk') ?_
          exact allPrefixes_nil (P := fun f' => f' packedPath = fs packedPath ∨ f' packedPath = ent (newPackedFile s txn))
            (Or.inr (by rw [hren, hnew]; rfl))
        · rw [hops, applyAll_append]
          simp only [applyAll_cons, applyAll_nil]
          rw [hren, hnew]; rfl
  · -- no packed-refs file: nothing happens
    have hops : packedCommit c s txn = [] := by simp [packedCommit, hg]
    have hnew : newPackedFile s txn = s.packed.map renderPacked := by simp [newPackedFile, hg]
    refine ⟨fun j => ⟨.inl ?_, frame j⟩, ?_⟩
    · rw [hops]; simp
    · rw [hops]; simp [hpk, hnew]

/-- the pairs (file of the ref, packed-refs) a reader may find -/
def Allowed (s : Store) (txn : List Edit) (e : Edit) (a b : Option Bytes) : Prop :=
  let oldN := (s.looseOf e.name).map renderRef
  let oldP := s.packed.map renderPacked
  let newP := newPackedFile s txn
  match e with
  | .update _ new => (a = oldN ∧ b = oldP) ∨ (a = some (renderRef new) ∧ (b = oldP ∨ b = newP))
  | .delete _ => (a = oldN ∧ (b = oldP ∨ b = newP)) ∨ (a = none ∧ b = newP)

def finalN : Edit → Option Bytes
  | .update _ new => some (renderRef new)
  | .delete _ => none

theorem lock_ne_self (n : Name) : lockPath n ≠ n := by
  intro e
  have : (lockPath n).length = n.length := by rw [e]
  simp [lockPath, lockSuffix] at this

/-- every prefix of the steps touching one edited ref leaves an allowed pair; the complete run
leaves the final pair -/
theorem run_edit (c : Cfg) (s : Store) (txn : List Edit) (h : TxnOk c s txn) (e : Edit) (he : e ∈ txn) :
    AllPrefixes (fun f => Allowed s txn e (fileAt f e.name) (fileAt f packedPath)) (coreOf c s txn e) s.toFs ∧
      fileAt (applyAll (coreOf c s txn e) s.toFs) e.name = finalN e ∧
      fileAt (applyAll (coreOf c s txn e) s.toFs) packedPath = newPackedFile s txn := by
  have hn := h.names_ref e he
  have hnp := refName_ne_packed hn
  have hlp := lockPath_ne_packed hn
  have hne : lockPath packedPath ≠ packedPath := by decide
  -- the initial entries
  have h0n : s.toFs e.name = ent ((s.looseOf e.name).map renderRef) := by
    rw [entry_of_fileAt (h.not_dir e he), init_loose h.loose_ref hn]
  have h0p : s.toFs packedPath = ent (s.packed.map renderPacked) := by
    have : s.toFs packedPath ≠ some .dir := by
      unfold Store.toFs
      have : s.loose.find? (fun x => decide (x.1 = packedPath)) = none := by
        apply List.find?_eq_none.mpr
        intro x hx; simpa using (refName_ne_packed (h.loose_ref x hx)).1
      simp only [this, if_true]
      cases s.packed <;> simp
    rw [entry_of_fileAt this, init_packed h.loose_ref]
  -- phase 1: locks only
  let g := s.hasGlobalLock txn
  have hpk0 : ∀ op ∈ pk0 g, ∀ t ∈ op.touches, t = lockPath packedPath := by
    intro op ho t ht
    simp only [pk0] at ho
    split at ho
    · simp at ho; subst ho; simpa [FsOp.touches] using ht
    · cases ho
  have pk0lock : g = true → applyAll (pk0 g) s.toFs (lockPath packedPath) = some (.file []) := by
    intro hg
    simp [pk0, hg, FsOp.apply, h.no_packed_lock]
  have pk0other : ∀ q, q ≠ lockPath packedPath → applyAll (pk0 g) s.toFs q = s.toFs q := by
    intro q hq
    apply applyAll_frame
    intro op ho ht
    exact hq (hpk0 op ho q ht)
  -- the property only looks at two entries
  have hdep : ∀ f g' : Fs, (∀ q ∈ [e.name, packedPath], f q = g' q) →
      Allowed s txn e (fileAt g' e.name) (fileAt g' packedPath) →
      Allowed s txn e (fileAt f e.name) (fileAt f packedPath) := by
    intro f g' hq hA
    rw [fileAt_congr (hq e.name (by simp)), fileAt_congr (hq packedPath (by simp))]
    exact hA
  have hstart : Allowed s txn e (fileAt s.toFs e.name) (fileAt s.toFs packedPath) := by
    rw [fileAt_ent h0n, fileAt_ent h0p]
    cases e <;> simp [Allowed, Edit.name]
  cases e with
  | update n new =>
    simp only [Edit.name] at hn hnp hlp h0n hdep hstart ⊢
    let L1 := pk0 g ++ (FsOp.create (lockPath n) :: writeOps c.chunk (lockPath n) (renderRef new))
    have hL1t : ∀ op ∈ L1, ∀ t ∈ op.touches, t = lockPath packedPath ∨ t = lockPath n := by
      intro op ho t ht
      rcases List.mem_append.mp ho with ho | ho
      · exact .inl (hpk0 op ho t ht)
      · rcases List.mem_cons.mp ho with rfl | ho
        · right; simpa [FsOp.touches] using ht
        · right; exact appends_touch _ _ op ho t ht
    have hL1frame : ∀ j q, q ≠ lockPath packedPath → q ≠ lockPath n → applyAll (L1.take j) s.toFs q = s.toFs q := by
      intro j q h1 h2
      apply applyAll_frame
      intro op ho ht
      rcases hL1t op (List.mem_of_mem_take ho) q ht with e' | e'
      · exact h1 e'
      · exact h2 e'
    have hL1full : ∀ q, q ≠ lockPath packedPath → q ≠ lockPath n → applyAll L1 s.toFs q = s.toFs q := by
      intro q h1 h2
      have := hL1frame L1.length q h1 h2
      rwa [List.take_length] at this
    have p1 : AllPrefixes (fun f => Allowed s txn (.update n new) (fileAt f n) (fileAt f packedPath)) L1 s.toFs := by
      apply allPrefixes_frame _ [n, packedPath] hdep _ _ _ hstart
      intro op ho q hq ht
      simp at hq
      rcases hL1t op ho q ht with e' | e' <;> rcases hq with rfl | rfl
      · exact hnp.2 e'
      · exact hne e'.symm
      · exact lock_ne_self _ e'.symm
      · exact hlp.1 e'.symm
    let fs1 := applyAll L1 s.toFs
    have f1n : fs1 n = s.toFs n := hL1full n hnp.2 (fun e' => lock_ne_self n e'.symm)
    have f1p : fs1 packedPath = s.toFs packedPath := hL1full packedPath hne.symm (fun e' => hlp.1 e'.symm)
    have f1lock : fs1 (lockPath n) = some (.file (renderRef new)) := by
      show applyAll L1 s.toFs (lockPath n) = _
      simp only [L1, applyAll_append]
      have hnone : applyAll (pk0 g) s.toFs (lockPath n) = none := by
        rw [pk0other _ hlp.2]; exact h.no_locks _ he
      have := run_create_appends (lockPath n) (c.chunk (renderRef new)) _ hnone
      simpa [writeOps, h.chunk_ok] using this
    have f1plock : g = true → fs1 (lockPath packedPath) = some (.file []) := by
      intro hg
      show applyAll L1 s.toFs (lockPath packedPath) = _
      simp only [L1, applyAll_append]
      rw [applyAll_frame _ _, pk0lock hg]
      intro op ho ht
      rcases List.mem_cons.mp ho with rfl | ho
      · simp [FsOp.touches] at ht; exact hlp.2 ht.symm
      · exact hlp.2 (appends_touch _ _ op ho _ ht).symm
    -- phase 2: the rename
    let fs2 := (FsOp.rename (lockPath n) n).apply fs1
    have f2n : fs2 n = some (.file (renderRef new)) := by
      show (FsOp.rename (lockPath n) n).apply fs1 n = _
      have hnd : fs1 n ≠ some .dir := by rw [f1n]; exact h.not_dir _ he
      cases hx : fs1 n with
      | none => simp [FsOp.apply, f1lock, hx]
      | some x =>
        cases x with
        | dir => exact absurd hx hnd
        | file c' => simp [FsOp.apply, f1lock, hx]
    have f2p : fs2 packedPath = s.toFs packedPath := by
      show (FsOp.rename (lockPath n) n).apply fs1 packedPath = _
      rw [apply_frame _ _ (by simp [FsOp.touches]; exact ⟨fun e' => hlp.1 e'.symm, fun e' => hnp.1 e'.symm⟩), f1p]
    have f2plock : g = true → fs2 (lockPath packedPath) = some (.file []) := by
      intro hg
      show (FsOp.rename (lockPath n) n).apply fs1 (lockPath packedPath) = _
      rw [apply_frame _ _ (by simp [FsOp.touches]; exact ⟨fun e' => hlp.2 e'.symm, fun e' => hnp.2 e'.symm⟩), f1plock hg]
    -- phase 3: packed-refs
    obtain ⟨p3, p3fin⟩ := run_packed c s txn h.chunk_ok fs2 (by rw [f2p, h0p]) f2plock
    have hcore : coreOf c s txn (.update n new) = L1 ++ ([FsOp.rename (lockPath n) n] ++ packedCommit c s txn) := by
      simp [coreOf, prepCoreEdit, renameCore, delCore, L1, g, List.append_assoc]
    rw [hcore]
    refine ⟨?_, ?_, ?_⟩
    · apply allPrefixes_append p1
      apply allPrefixes_append
      · refine allPrefixes_cons (P := fun f => Allowed s txn (.update n new) (fileAt f n) (fileAt f packedPath)) ?_ ?_
        · show Allowed s txn (.update n new) (fileAt fs1 n) (fileAt fs1 packedPath)
          rw [fileAt_congr f1n, fileAt_congr f1p]; exact hstart
        · refine allPrefixes_nil (P := fun f => Allowed s txn (.update n new) (fileAt f n) (fileAt f packedPath)) ?_
          show Allowed s txn (.update n new) (fileAt fs2 n) (fileAt fs2 packedPath)
          rw [fileAt_ent (o := some (renderRef new)) (by simpa [ent] using f2n), fileAt_congr f2p, fileAt_ent h0p]
          simp [Allowed, Edit.name]
      · intro j
        obtain ⟨hp, hfr⟩ := p3 j
        show Allowed s txn (.update n new) (fileAt (applyAll ((packedCommit c s txn).take j) fs2) n)
          (fileAt (applyAll ((packedCommit c s txn).take j) fs2) packedPath)
        have hnn : applyAll ((packedCommit c s txn).take j) fs2 n = fs2 n := hfr n hnp.1 hnp.2
        rw [fileAt_congr hnn, fileAt_ent (o := some (renderRef new)) (by simpa [ent] using f2n)]
        rcases hp with hp | hp
        · rw [fileAt_congr hp, fileAt_congr f2p, fileAt_ent h0p]; simp [Allowed, Edit.name]
        · rw [fileAt_ent hp]; simp [Allowed, Edit.name]
    · rw [applyAll_append, applyAll_append]
      have hfr := (p3 (packedCommit c s txn).length).2 n hnp.1 hnp.2
      rw [List.take_length] at hfr
      show fileAt (applyAll (packedCommit c s txn) fs2) n = _
      rw [fileAt_congr hfr, fileAt_ent (o := some (renderRef new)) (by simpa [ent] using f2n)]; rfl
    · rw [applyAll_append, applyAll_append]
      show fileAt (applyAll (packedCommit c s txn) fs2) packedPath = _
      exact fileAt_ent p3fin
  | delete n =>
    simp only [Edit.name] at hn hnp hlp h0n hdep hstart ⊢
    let L1 := pk0 g ++ (if g then [] else [FsOp.create (lockPath n)])
    have hL1t : ∀ op ∈ L1, ∀ t ∈ op.touches, t = lockPath packedPath ∨ t = lockPath n := by
      intro op ho t ht
      rcases List.mem_append.mp ho with ho | ho
      · exact .inl (hpk0 op ho t ht)
      · split at ho
        · cases ho
        · simp at ho; subst ho; right; simpa [FsOp.touches] using ht
    have hL1frame : ∀ j q, q ≠ lockPath packedPath → q ≠ lockPath n → applyAll (L1.take j) s.toFs q = s.toFs q := by
      intro j q h1 h2
      apply applyAll_frame
      intro op ho ht
      rcases hL1t op (List.mem_of_mem_take ho) q ht with e' | e'
      · exact h1 e'
      · exact h2 e'
    have hL1full : ∀ q, q ≠ lockPath packedPath → q ≠ lockPath n → applyAll L1 s.toFs q = s.toFs q := by
      intro q h1 h2
      have := hL1frame L1.length q h1 h2
      rwa [List.take_length] at this
    have p1 : AllPrefixes (fun f => Allowed s txn (.delete n) (fileAt f n) (fileAt f packedPath)) L1 s.toFs := by
      apply allPrefixes_frame _ [n, packedPath] hdep _ _ _ hstart
      intro op ho q hq ht
      simp at hq
      rcases hL1t op ho q ht with e' | e' <;> rcases hq with rfl | rfl
      · exact hnp.2 e'
      · exact hne e'.symm
      · exact lock_ne_self _ e'.symm
      · exact hlp.1 e'.symm
    let fs1 := applyAll L1 s.toFs
    have f1n : fs1 n = s.toFs n := hL1full n hnp.2 (fun e' => lock_ne_self n e'.symm)
    have f1p : fs1 packedPath = s.toFs packedPath := hL1full packedPath hne.symm (fun e' => hlp.1 e'.symm)
    have f1plock : g = true → fs1 (lockPath packedPath) = some (.file []) := by
      intro hg
      show applyAll L1 s.toFs (lockPath packedPath) = _
      have : L1 = pk0 g := by simp [L1, hg]
      rw [this]
      exact pk0lock hg
    -- phase 2: packed-refs
    obtain ⟨p2, p2fin⟩ := run_packed c s txn h.chunk_ok fs1 (by rw [f1p, h0p]) f1plock
    let fs2 := applyAll (packedCommit c s txn) fs1
    have f2n : fs2 n = s.toFs n := by
      have hfr := (p2 (packedCommit c s txn).length).2 n hnp.1 hnp.2
      rw [List.take_length] at hfr
      show applyAll (packedCommit c s txn) fs1 n = _
      rw [hfr, f1n]
    -- phase 3: the loose file and the lock
    let D := delCore s g (.delete n)
    have hcore : coreOf c s txn (.delete n) = L1 ++ (packedCommit c s txn ++ D) := by
      simp [coreOf, prepCoreEdit, renameCore, L1, D, g, List.append_assoc]
    have hDp : ∀ j, applyAll (D.take j) fs2 packedPath = fs2 packedPath := by
      intro j
      apply applyAll_frame
      intro op ho ht
      have := edit_core_touches c s g (.delete n) op (by simp [D] at ho ⊢; exact .inr (.inr (List.mem_of_mem_take ho))) packedPath ht
      rcases this with e' | e'
      · exact hnp.1 e'.symm
      · exact hlp.1 e'.symm
    have hDn : ∀ j, fileAt (applyAll (D.take j) fs2) n = fileAt s.toFs n ∨ fileAt (applyAll (D.take j) fs2) n = none := by
      intro j
      by_cases hl : (s.looseOf n).isSome = true
      · have hD : D = FsOp.unlink n :: (if g then [] else [FsOp.unlink (lockPath n)]) := by simp [D, delCore, hl]
        cases j with
        | zero => left; simp [fileAt_congr f2n]
        | succ j =>
          right
          rw [hD, List.take_succ_cons, applyAll_cons]
          have h1 : (FsOp.unlink n).apply fs2 n = none := by
            cases hx : fs2 n with
            | none => simp [FsOp.apply, hx]
            | some x =>
              cases x with
              | file c' => simp [FsOp.apply, hx]
              | dir => rw [f2n] at hx; exact absurd hx (h.not_dir _ he)
          have : applyAll (List.take j (if g then [] else [FsOp.unlink (lockPath n)])) ((FsOp.unlink n).apply fs2) n =
              (FsOp.unlink n).apply fs2 n := by
            apply applyAll_frame
            intro op ho ht
            have := List.mem_of_mem_take ho
            split at this
            · cases this
            · simp at this; subst this; simp [FsOp.touches] at ht; exact lock_ne_self n ht.symm
          simp [fileAt, this, h1]
      · left
        have hD : D = (if g then [] else [FsOp.unlink (lockPath n)]) := by simp [D, delCore, hl]
        have : applyAll (D.take j) fs2 n = fs2 n := by
          apply applyAll_frame
          intro op ho ht
          rw [hD] at ho
          have := List.mem_of_mem_take ho
          split at this
          · cases this
          · simp at this; subst this; simp [FsOp.touches] at ht; exact lock_ne_self n ht.symm
        rw [fileAt_congr this, fileAt_congr f2n]
    have hDfinal : fileAt (applyAll D fs2) n = none := by
      by_cases hl : (s.looseOf n).isSome = true
      · have := hDn D.length
        have hD : D = FsOp.unlink n :: (if g then [] else [FsOp.unlink (lockPath n)]) := by simp [D, delCore, hl]
        have hlen : D.length = (D.length - 1) + 1 := by rw [hD]; simp
        rcases this with h1 | h1
        · -- the unlink happened: use the explicit computation
          rw [List.take_length] at h1
          have h2 := hDn (D.length)
          rw [List.take_length] at h2
          -- recompute directly
          rw [hD, applyAll_cons]
          have h3 : (FsOp.unlink n).apply fs2 n = none := by
            cases hx : fs2 n with
            | none => simp [FsOp.apply, hx]
            | some x =>
              cases x with
              | file c' => simp [FsOp.apply, hx]
              | dir => rw [f2n] at hx; exact absurd hx (h.not_dir _ he)
          have : applyAll (if g then [] else [FsOp.unlink (lockPath n)]) ((FsOp.unlink n).apply fs2) n =
              (FsOp.unlink n).apply fs2 n := by
            apply applyAll_frame
            intro op ho ht
            split at ho
            · cases ho
            · simp at ho; subst ho; simp [FsOp.touches] at ht; exact lock_ne_self n ht.symm
          simp [fileAt, this, h3]
        · rwa [List.take_length] at h1
      · have hnone : s.looseOf n = none := by simpa using hl
        have := hDn D.length
        rw [List.take_length] at this
        rcases this with h1 | h1
        · rw [h1, fileAt_ent h0n, hnone]; rfl
        · exact h1
    rw [hcore]
    refine ⟨?_, ?_, ?_⟩
    · apply allPrefixes_append p1
      apply allPrefixes_append
      · intro j
        obtain ⟨hp, hfr⟩ := p2 j
        show Allowed s txn (.delete n) (fileAt (applyAll ((packedCommit c s txn).take j) fs1) n)
          (fileAt (applyAll ((packedCommit c s txn).take j) fs1) packedPath)
        have hnn : applyAll ((packedCommit c s txn).take j) fs1 n = fs1 n := hfr n hnp.1 hnp.2
        rw [fileAt_congr hnn, fileAt_congr f1n, fileAt_ent h0n]
        rcases hp with hp | hp
        · rw [fileAt_congr hp, fileAt_congr f1p, fileAt_ent h0p]; simp [Allowed, Edit.name]
        · rw [fileAt_ent hp]; simp [Allowed, Edit.name]
      · intro j
        show Allowed s txn (.delete n) (fileAt (applyAll (D.take j) fs2) n) (fileAt (applyAll (D.take j) fs2) packedPath)
        rw [fileAt_congr (hDp j), fileAt_ent p2fin]
        rcases hDn j with h1 | h1
        · rw [h1, fileAt_ent h0n]; simp [Allowed, Edit.name]
        · rw [h1]; simp [Allowed, Edit.name]
    · rw [applyAll_append, applyAll_append]
      exact hDfinal
    · rw [applyAll_append, applyAll_append]
      have := hDp D.length
      rw [List.take_length] at this
      show fileAt (applyAll D fs2) packedPath = _
      rw [fileAt_congr this]
      exact fileAt_ent p2fin

end GixModel.C20
