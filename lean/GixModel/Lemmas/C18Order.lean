import GixModel.Model.C18
/-
C18 helper lemmas, part 1: the byte order `cmpB`, strictly sorted item lists, uniqueness of a
strictly sorted list with given members, and the merge.
-/
namespace GixModel.C18
open GixModel

theorem u8_eq_of_toNat {a b : UInt8} (h : a.toNat = b.toNat) : a = b := UInt8.toNat_inj.mp h

theorem cmpB_refl (a : Bytes) : cmpB a a = .eq := by
  induction a with
  | nil => rfl
  | cons x xs ih => simp [cmpB, ih]

theorem cmpB_eq_iff {a b : Bytes} : cmpB a b = .eq ↔ a = b := by
  constructor
  · intro h
    induction a generalizing b with
    | nil => cases b <;> simp_all [cmpB]
    | cons x xs ih =>
      cases b with
      | nil => simp [cmpB] at h
      | cons y ys =>
        simp only [cmpB] at h
        split at h
        · cases h
        · split at h
          · cases h
          · have : x = y := u8_eq_of_toNat (by omega)
            rw [this, ih h]
  · intro h; rw [h]; exact cmpB_refl b

theorem cmpB_swap (a b : Bytes) : cmpB a b = .lt ↔ cmpB b a = .gt := by
  induction a generalizing b with
  | nil => cases b <;> simp [cmpB]
  | cons x xs ih =>
    cases b with
    | nil => simp [cmpB]
    | cons y ys =>
      simp only [cmpB]
      by_cases h1 : x.toNat < y.toNat
      · have : ¬ y.toNat < x.toNat := by omega
        simp [h1, this]
      · by_cases h2 : y.toNat < x.toNat
        · simp [h1, h2]
        · simp [h1, h2, ih]

theorem cmpB_trans {a b c : Bytes} (h1 : cmpB a b = .lt) (h2 : cmpB b c = .lt) : cmpB a c = .lt := by
  induction a generalizing b c with
  | nil =>
    cases c with
    | nil => cases b <;> simp [cmpB] at h1 h2
    | cons z zs => simp [cmpB]
  | cons x xs ih =>
    cases b with
    | nil => simp [cmpB] at h1
    | cons y ys =>
      cases c with
      | nil => simp [cmpB] at h2
      | cons z zs =>
        simp only [cmpB] at h1 h2 ⊢
        by_cases hxy : x.toNat < y.toNat
        · by_cases hyz : y.toNat < z.toNat
          · have : x.toNat < z.toNat := by omega
            simp [this]
          · simp only [hyz, if_false] at h2
            by_cases hzy : z.toNat < y.toNat
            · simp [hzy] at h2
            · have : x.toNat < z.toNat := by omega
              simp [this]
        · simp only [hxy, if_false] at h1
          by_cases hyx : y.toNat < x.toNat
          · simp [hyx] at h1
          · simp only [hyx, if_false] at h1
            by_cases hyz : y.toNat < z.toNat
            · have : x.toNat < z.toNat := by omega
              simp [this]
            · simp only [hyz, if_false] at h2
              by_cases hzy : z.toNat < y.toNat
              · simp [hzy] at h2
              · simp only [hzy, if_false] at h2
                have e1 : ¬ x.toNat < z.toNat := by omega
                have e2 : ¬ z.toNat < x.toNat := by omega
                simp only [e1, e2, if_false]
                exact ih h1 h2

theorem cmpB_irrefl {a : Bytes} : cmpB a a ≠ .lt := by simp [cmpB_refl]

theorem cmpB_asymm {a b : Bytes} (h : cmpB a b = .lt) : cmpB b a ≠ .lt := by
  intro h2; exact cmpB_irrefl (cmpB_trans h h2)

/-- trichotomy -/
theorem cmpB_total (a b : Bytes) : cmpB a b = .lt ∨ a = b ∨ cmpB b a = .lt := by
  cases h : cmpB a b with
  | lt => exact .inl rfl
  | eq => exact .inr (.inl (cmpB_eq_iff.mp h))
  | gt => exact .inr (.inr ((cmpB_swap b a).mpr h))

/-- a common prefix does not matter -/
theorem cmpB_append_left (p a b : Bytes) : cmpB (p ++ a) (p ++ b) = cmpB a b := by
  induction p with
  | nil => rfl
  | cons x xs ih => simp [cmpB, ih]

/-- extending the larger side keeps `<` -/
theorem cmpB_lt_append_right {a b : Bytes} (y : Bytes) (h : cmpB a b = .lt) : cmpB a (b ++ y) = .lt := by
  induction a generalizing b with
  | nil =>
    cases b with
    | nil => simp [cmpB] at h
    | cons z zs => simp [cmpB]
  | cons x xs ih =>
    cases b with
    | nil => simp [cmpB] at h
    | cons z zs =>
      simp only [cmpB, List.cons_append] at h ⊢
      by_cases h1 : x.toNat < z.toNat
      · simp [h1]
      · simp only [h1, if_false] at h ⊢
        by_cases h2 : z.toNat < x.toNat
        · simp [h2] at h
        · simp only [h2, if_false] at h ⊢
          exact ih h

/-- if `a < b` and `a` is not a prefix of `b`, they differ inside both: extensions keep `<` -/
theorem cmpB_lt_append_both {a b : Bytes} (x y : Bytes) (h : cmpB a b = .lt) (hp : ¬ a <+: b) :
    cmpB (a ++ x) (b ++ y) = .lt := by
  induction a generalizing b with
  | nil => exact absurd (List.nil_prefix) hp
  | cons c cs ih =>
    cases b with
    | nil => simp [cmpB] at h
    | cons z zs =>
      simp only [cmpB, List.cons_append] at h ⊢
      by_cases h1 : c.toNat < z.toNat
      · simp [h1]
      · simp only [h1, if_false] at h ⊢
        by_cases h2 : z.toNat < c.toNat
        · simp [h2] at h
        · simp only [h2, if_false] at h ⊢
          have hcz : c = z := u8_eq_of_toNat (by omega)
          apply ih h
          intro hpre
          apply hp
          rw [hcz]
          exact (List.cons_prefix_cons).mpr ⟨rfl, hpre⟩

/-- a proper prefix is smaller -/
theorem cmpB_prefix_lt (a : Bytes) {x : Bytes} (hx : x ≠ []) : cmpB a (a ++ x) = .lt := by
  induction a with
  | nil => cases x with
    | nil => exact absurd rfl hx
    | cons => simp [cmpB]
  | cons c cs ih => simp [cmpB, ih]

/-- strictly ascending by name (hence every name at most once) -/
def SortedN (l : List Item) : Prop := l.Pairwise fun a b => cmpB a.1 b.1 = .lt

instance (l : List Item) : Decidable (SortedN l) := by unfold SortedN; infer_instance

theorem SortedN.filter {l : List Item} (q : Item → Bool) (h : SortedN l) : SortedN (l.filter q) :=
  List.Pairwise.filter q h

theorem SortedN.tail {x : Item} {l : List Item} (h : SortedN (x :: l)) : SortedN l :=
  (List.pairwise_cons.mp h).2

theorem SortedN.head_lt {x : Item} {l : List Item} (h : SortedN (x :: l)) :
    ∀ y ∈ l, cmpB x.1 y.1 = .lt := (List.pairwise_cons.mp h).1

/-- names are unique in a strictly sorted list -/
theorem SortedN.name_unique {l : List Item} (h : SortedN l) {x y : Item} (hx : x ∈ l) (hy : y ∈ l)
    (hn : x.1 = y.1) : x = y := by
  induction l with
  | nil => cases hx
  | cons z zs ih =>
    have hz := h.head_lt
    rcases List.mem_cons.mp hx with rfl | hx' <;> rcases List.mem_cons.mp hy with rfl | hy'
    · rfl
    · have := hz y hy'; rw [hn] at this; exact absurd this cmpB_irrefl
    · have := hz x hx'; rw [← hn] at this; exact absurd this cmpB_irrefl
    · exact ih h.tail hx' hy'

/-- a strictly sorted list is determined by its members -/
theorem sorted_ext {a b : List Item} (ha : SortedN a) (hb : SortedN b)
    (h : ∀ x, x ∈ a ↔ x ∈ b) : a = b := by
  induction a generalizing b with
  | nil =>
    cases b with
    | nil => rfl
    | cons y ys => exact absurd ((h y).mpr (List.mem_cons_self ..)) (by simp)
  | cons x xs ih =>
    cases b with
    | nil => exact absurd ((h x).mp (List.mem_cons_self ..)) (by simp)
    | cons y ys =>
      have hxy : x = y := by
        have hx := (h x).mp (List.mem_cons_self ..)
        have hy := (h y).mpr (List.mem_cons_self ..)
        rcases List.mem_cons.mp hx with e | hx'
        · exact e
        · rcases List.mem_cons.mp hy with e | hy'
          · exact e.symm
          · have l1 := hb.head_lt x hx'
            have l2 := ha.head_lt y hy'
            exact absurd l1 (cmpB_asymm l2)
      subst hxy
      congr 1
      apply ih ha.tail hb.tail
      intro z
      constructor
      · intro hz
        have := (h z).mp (List.mem_cons_of_mem _ hz)
        rcases List.mem_cons.mp this with e | h'
        · subst e; exact absurd (ha.head_lt z hz) cmpB_irrefl
        · exact h'
      · intro hz
        have := (h z).mpr (List.mem_cons_of_mem _ hz)
        rcases List.mem_cons.mp this with e | h'
        · subst e; exact absurd (hb.head_lt z hz) cmpB_irrefl
        · exact h'

/-! ### the merge -/

@[simp] theorem merge_nil_left (p : List Item) : merge [] p = p := rfl

@[simp] theorem merge_nil_right (l : List Item) : merge l [] = l := by
  induction l with
  | nil => rfl
  | cons x xs ih => simp [merge, mergeOne, ih]

theorem merge_cons_cons (l : Item) (ls : List Item) (p : Item) (ps : List Item) :
    merge (l :: ls) (p :: ps) =
      match cmpB l.1 p.1 with
      | .lt => l :: merge ls (p :: ps)
      | .eq => l :: merge ls ps
      | .gt => p :: merge (l :: ls) ps := by
  cases h : cmpB l.1 p.1 <;> simp [merge, mergeOne, h]

/-- members of the merge: every loose item, and every packed item whose name is not loose -/
theorem mem_merge {l p : List Item} (hl : SortedN l) (hp : SortedN p) (x : Item) :
    x ∈ merge l p ↔ x ∈ l ∨ (x ∈ p ∧ ∀ y ∈ l, y.1 ≠ x.1) := by
  induction l generalizing p with
  | nil => simp
  | cons a as iha =>
    induction p with
    | nil => simp
    | cons b bs ihb =>
      rw [merge_cons_cons]
      have ha := hl.head_lt
      have hb := hp.head_lt
      cases hc : cmpB a.1 b.1 with
      | lt =>
        simp only [List.mem_cons]
        rw [iha hl.tail hp]
        constructor
        · rintro (e | h | ⟨h, hn⟩)
          · exact .inl (.inl e)
          · exact .inl (.inr h)
          · refine .inr ⟨List.mem_cons.mp h, ?_⟩
            intro y hy
            rcases hy with e | hy
            · subst e
              rcases List.mem_cons.mp h with e | h'
              · subst e; intro e; rw [e] at hc; exact absurd hc cmpB_irrefl
              · intro e
                have := cmpB_trans hc (hb x h')
                rw [e] at this; exact absurd this cmpB_irrefl
            · exact hn y hy
        · rintro ((e | h) | ⟨h, hn⟩)
          · exact .inl e
          · exact .inr (.inl h)
          · exact .inr (.inr ⟨List.mem_cons.mpr h, fun y hy => hn y (.inr hy)⟩)
      | eq =>
        have hab : a.1 = b.1 := cmpB_eq_iff.mp hc
        simp only [List.mem_cons]
        rw [iha hl.tail hp.tail]
        constructor
        · rintro (e | h | ⟨h, hn⟩)
          · exact .inl (.inl e)
          · exact .inl (.inr h)
          · refine .inr ⟨.inr h, ?_⟩
            intro y hy
            rcases hy with e | hy
            · subst e; intro e
              have := hb x h; rw [← hab, e] at this; exact absurd this cmpB_irrefl
            · exact hn y hy
        · rintro ((e | h) | ⟨h, hn⟩)
          · exact .inl e
          · exact .inr (.inl h)
          · rcases h with e | h
            · subst e; exact absurd hab (hn a (.inl rfl))
            · exact .inr (.inr ⟨h, fun y hy => hn y (.inr hy)⟩)
      | gt =>
        have hba : cmpB b.1 a.1 = .lt := (cmpB_swap b.1 a.1).mpr hc
        simp only [List.mem_cons]
        rw [ihb hp.tail]
        simp only [List.mem_cons]
        constructor
        · rintro (e | h | ⟨h, hn⟩)
          · subst e
            refine .inr ⟨.inl rfl, ?_⟩
            intro y hy
            rcases hy with e | hy
            · subst e; intro e; rw [e] at hba; exact absurd hba cmpB_irrefl
            · intro e
              have := cmpB_trans hba (ha y hy)
              rw [e] at this; exact absurd this cmpB_irrefl
          · exact .inl h
          · exact .inr ⟨.inr h, hn⟩
        · rintro (h | ⟨h, hn⟩)
          · exact .inr (.inl h)
          · rcases h with e | h
            · exact .inl e
            · exact .inr (.inr ⟨h, hn⟩)

/-- lower bound is preserved by the merge -/
theorem merge_lower {l p : List Item} (n : Name) (hl : ∀ y ∈ l, cmpB n y.1 = .lt)
    (hp : ∀ y ∈ p, cmpB n y.1 = .lt) : ∀ y ∈ merge l p, cmpB n y.1 = .lt := by
  induction l generalizing p with
  | nil => simpa using hp
  | cons a as iha =>
    induction p with
    | nil => simpa using hl
    | cons b bs ihb =>
      rw [merge_cons_cons]
      cases hc : cmpB a.1 b.1 with
      | lt =>
        intro y hy
        rcases List.mem_cons.mp hy with e | hy
        · subst e; exact hl _ (.head _)
        · exact iha (fun y hy => hl y (.tail _ hy)) hp y hy
      | eq =>
        intro y hy
        rcases List.mem_cons.mp hy with e | hy
        · subst e; exact hl _ (.head _)
        · exact iha (fun y hy => hl y (.tail _ hy)) (fun y hy => hp y (.tail _ hy)) y hy
      | gt =>
        intro y hy
        rcases List.mem_cons.mp hy with e | hy
        · subst e; exact hp _ (.head _)
        · exact ihb (fun y hy => hp y (.tail _ hy)) y hy

theorem merge_sorted {l p : List Item} (hl : SortedN l) (hp : SortedN p) : SortedN (merge l p) := by
  induction l generalizing p with
  | nil => simpa using hp
  | cons a as iha =>
    induction p with
    | nil => simpa using hl
    | cons b bs ihb =>
      rw [merge_cons_cons]
      have ha := hl.head_lt
      have hb := hp.head_lt
      cases hc : cmpB a.1 b.1 with
      | lt =>
        refine List.pairwise_cons.mpr ⟨?_, iha hl.tail hp⟩
        apply merge_lower _ ha
        intro y hy
        rcases List.mem_cons.mp hy with e | hy
        · subst e; exact hc
        · exact cmpB_trans hc (hb y hy)
      | eq =>
        have hab : a.1 = b.1 := cmpB_eq_iff.mp hc
        refine List.pairwise_cons.mpr ⟨?_, iha hl.tail hp.tail⟩
        apply merge_lower _ ha
        intro y hy; rw [hab]; exact hb y hy
      | gt =>
        have hba : cmpB b.1 a.1 = .lt := (cmpB_swap b.1 a.1).mpr hc
        refine List.pairwise_cons.mpr ⟨?_, ihb hp.tail⟩
        apply merge_lower _ _ hb
        intro y hy
        rcases List.mem_cons.mp hy with e | hy
        · subst e; exact hba
        · exact cmpB_trans hba (ha y hy)

end GixModel.C18
