import GixModel.Lemmas.C47BridgeLoop
/-
C47 — lemmas, part 16: the start of the two transcriptions (in-degree table, start commits, initial
queues) and `gitCount = gitKahn`.
-/
namespace GixModel.C47
open GixModel GixModel.CG GixModel.Spec.C47

/-! ### the in-degree table -/

theorem bumpDeg_fold (n : Nat) : ∀ (ps : List Nat) (a : Array Nat), ps.Nodup → a.size = n →
    (ps.foldl bumpDeg a).size = n ∧
    ∀ p v, a[p]? = some v → (ps.foldl bumpDeg a)[p]? = some (v + if ps.contains p then 1 else 0) := by
  intro ps
  induction ps with
  | nil => intro a _ hs; exact ⟨hs, by intro p v h; simpa using h⟩
  | cons x xs ih =>
    intro a hnd hs
    obtain ⟨hx, hnd'⟩ := List.nodup_cons.mp hnd
    simp only [List.foldl_cons]
    have hsz : (bumpDeg a x).size = n := by
      unfold bumpDeg
      cases a[x]? with
      | none => exact hs
      | some d => dsimp only; rw [Array.size_setIfInBounds]; exact hs
    obtain ⟨i1, i2⟩ := ih (bumpDeg a x) hnd' hsz
    refine ⟨i1, ?_⟩
    intro p v hv
    have hb : (bumpDeg a x)[p]? = some (v + if x = p then 1 else 0) := by
      unfold bumpDeg
      cases hax : a[x]? with
      | none =>
        dsimp only
        have : x ≠ p := by intro h; rw [h, hv] at hax; cases hax
        rw [if_neg this]; exact hv
      | some d =>
        dsimp only
        rw [Array.getElem?_setIfInBounds]
        by_cases hxp : x = p
        · subst hxp
          rw [hv] at hax
          cases hax
          have : x < a.size := by
            cases h : decide (x < a.size) with
            | true => exact of_decide_eq_true h
            | false =>
              have h' : ¬ x < a.size := of_decide_eq_false h
              rw [Array.getElem?_eq_none (by omega)] at hv
              cases hv
          rw [if_pos rfl, if_pos this, if_pos rfl]
        · rw [if_neg hxp, if_neg hxp]; exact hv
    rw [i2 p _ hb]
    by_cases hxp : x = p
    · subst hxp
      have : xs.contains x = false := by simpa using hx
      rw [this]
      simp
    · have : (x :: xs).contains p = xs.contains p := by
        simp
        intro h; exact absurd h.symm hxp
      rw [this, if_neg hxp]
      simp

theorem indegInit_fold (g : Dag) (sel : Nat → Bool) (n : Nat) (hnd : ∀ c, (g.parents c).Nodup) :
    ∀ (L : List Nat) (a : Array Nat) (b : Nat → Nat), a.size = n → (∀ p, p < n → a[p]? = some (b p)) →
    (L.foldl (fun (a : Array Nat) c => if sel c then (g.parents c).foldl bumpDeg a else a) a).size = n ∧
    ∀ p, p < n → (L.foldl (fun (a : Array Nat) c => if sel c then (g.parents c).foldl bumpDeg a else a) a)[p]?
      = some (b p + (L.filter (fun c => sel c && (g.parents c).contains p)).length) := by
  intro L
  induction L with
  | nil => intro a b hs hb; exact ⟨hs, by intro p hp; simpa using hb p hp⟩
  | cons c L ih =>
    intro a b hs hb
    simp only [List.foldl_cons]
    by_cases hc : sel c = true
    · rw [if_pos hc]
      obtain ⟨j1, j2⟩ := bumpDeg_fold n (g.parents c) a (hnd c) hs
      obtain ⟨i1, i2⟩ := ih _ (fun p => b p + if (g.parents c).contains p then 1 else 0) j1
        (fun p hp => j2 p _ (hb p hp))
      refine ⟨i1, ?_⟩
      intro p hp
      rw [i2 p hp, List.filter_cons]
      by_cases hcp : (g.parents c).contains p = true
      · simp only [hc, hcp, Bool.and_self, if_true, List.length_cons]
        congr 1; omega
      · simp only [hc, hcp, Bool.and_false, if_false, Bool.false_eq_true, Nat.add_zero]
    · rw [if_neg hc]
      obtain ⟨i1, i2⟩ := ih a b hs hb
      refine ⟨i1, ?_⟩
      intro p hp
      rw [i2 p hp, List.filter_cons]
      have : sel c = false := by simpa using hc
      simp [this]

theorem indegInit_spec (g : Dag) (sel : Nat → Bool) (n : Nat) (hnd : ∀ c, (g.parents c).Nodup) :
    (indegInit g n sel).size = n ∧
    ∀ p, p < n → (indegInit g n sel)[p]? = some (1 + ucnt g sel n [] p) := by
  obtain ⟨i1, i2⟩ := indegInit_fold g sel n hnd (List.range n) (Array.replicate n 1) (fun _ => 1)
    (by simp) (by intro p hp; rw [Array.getElem?_replicate, if_pos hp])
  refine ⟨i1, ?_⟩
  intro p hp
  unfold indegInit
  rw [i2 p hp]
  unfold ucnt
  simp

/-! ### the start commits -/

def dd : List Nat → List Nat → List Nat
  | [], _ => []
  | x :: xs, acc => if acc.contains x then dd xs acc else x :: dd xs (x :: acc)

theorem dedup_eq : ∀ (l acc : List Nat), dedup l acc = acc.reverse ++ dd l acc := by
  intro l
  induction l with
  | nil => intro acc; simp [dedup, dd]
  | cons x xs ih =>
    intro acc
    unfold dedup dd
    by_cases h : acc.contains x = true
    · rw [if_pos h, if_pos h]; exact ih acc
    · rw [if_neg h, if_neg h, ih]; simp

theorem dd_spec : ∀ (l acc : List Nat), (dd l acc).Nodup ∧ ∀ x, x ∈ dd l acc → x ∈ l ∧ x ∉ acc := by
  intro l
  induction l with
  | nil => intro acc; exact ⟨List.nodup_nil, by intro x hx; simp [dd] at hx⟩
  | cons y ys ih =>
    intro acc
    unfold dd
    by_cases h : acc.contains y = true
    · rw [if_pos h]
      obtain ⟨a, b⟩ := ih acc
      exact ⟨a, fun x hx => ⟨List.mem_cons_of_mem _ (b x hx).1, (b x hx).2⟩⟩
    · rw [if_neg h]
      obtain ⟨a, b⟩ := ih (y :: acc)
      have hy : y ∉ acc := by simpa using h
      refine ⟨List.nodup_cons.mpr ⟨fun hm => (b y hm).2 List.mem_cons_self, a⟩, ?_⟩
      intro x hx
      cases List.mem_cons.mp hx with
      | inl h' => subst h'; exact ⟨List.mem_cons_self, hy⟩
      | inr h' =>
        exact ⟨List.mem_cons_of_mem _ (b x h').1, fun hm => (b x h').2 (List.mem_cons_of_mem _ hm)⟩

theorem kTips_eq (g : Dag) (sel : Nat → Bool) (nodes : List Nat) (d : Bool) :
    ∀ (l acc done : List Nat) (k : KQ), (∀ x, x ∈ done ↔ (x ∈ acc ∧ ready g sel nodes [] x = true)) →
      kTips g sel nodes d l done k = ((dd l acc).filter (ready g sel nodes [])).foldl (kPush g d) k := by
  intro l
  induction l with
  | nil => intro acc done k _; rfl
  | cons x xs ih =>
    intro acc done k hd
    unfold kTips dd
    by_cases hr : ready g sel nodes [] x = true
    · by_cases hdn : done.contains x = true
      · have hxa : x ∈ acc := ((hd x).mp (by simpa using hdn)).1
        have : acc.contains x = true := by simpa using hxa
        rw [this, if_pos rfl]
        simp only [hr, hdn, Bool.not_true, Bool.and_false, Bool.false_eq_true, if_false]
        exact ih acc done k hd
      · have hxa : x ∉ acc := by
          intro h
          exact hdn (by simpa using (hd x).mpr ⟨h, hr⟩)
        have : acc.contains x = false := by simpa using hxa
        rw [this]
        have hdn' : done.contains x = false := by simpa using hdn
        simp only [hr, hdn', Bool.not_false, Bool.and_self, if_true, Bool.false_eq_true, if_false,
          List.filter_cons, List.foldl_cons]
        apply ih
        intro y
        constructor
        · intro hy
          cases List.mem_cons.mp hy with
          | inl h => subst h; exact ⟨List.mem_cons_self, hr⟩
          | inr h => exact ⟨List.mem_cons_of_mem _ ((hd y).mp h).1, ((hd y).mp h).2⟩
        · intro ⟨hy, hry⟩
          cases List.mem_cons.mp hy with
          | inl h => subst h; exact List.mem_cons_self
          | inr h => exact List.mem_cons_of_mem _ ((hd y).mpr ⟨h, hry⟩)
    · have hr' : ready g sel nodes [] x = false := by simpa using hr
      simp only [hr', Bool.false_and, Bool.false_eq_true, if_false]
      by_cases hxa : acc.contains x = true
      · rw [if_pos hxa]; exact ih acc done k hd
      · rw [if_neg hxa, List.filter_cons, hr']
        simp only [Bool.false_eq_true, if_false]
        apply ih
        intro y
        constructor
        · intro hy
          exact ⟨List.mem_cons_of_mem _ ((hd y).mp hy).1, ((hd y).mp hy).2⟩
        · intro ⟨hy, hry⟩
          cases List.mem_cons.mp hy with
          | inl h => subst h; rw [hr'] at hry; cases hry
          | inr h => exact (hd y).mpr ⟨h, hry⟩

/-! ### the initial queues -/

theorem insNewest_perm (g : Dag) (c : Nat) : ∀ l, (insNewest g c l).Perm (c :: l) := by
  intro l
  induction l with
  | nil => exact List.Perm.refl _
  | cons x xs ih =>
    unfold insNewest
    split
    · exact (List.Perm.cons x ih).trans (List.Perm.swap _ _ _)
    · exact List.Perm.refl _

theorem sortNewest_perm (g : Dag) (l : List Nat) : (sortNewestFirst g l).Perm l := by
  have key : ∀ (l acc : List Nat), (l.foldl (fun acc c => insNewest g c acc) acc).Perm (l.reverse ++ acc) := by
    intro l
    induction l with
    | nil => intro acc; exact List.Perm.refl _
    | cons x xs ih =>
      intro acc
      simp only [List.foldl_cons, List.reverse_cons, List.append_assoc]
      refine (ih _).trans (List.Perm.append_left _ ?_)
      exact insNewest_perm g x acc
  have := key l []
  rw [List.append_nil] at this
  exact this.trans (List.reverse_perm l)

theorem insNewest_sorted (g : Dag) (c : Nat) : ∀ l, l.Pairwise (fun a b => g.time a ≥ g.time b) →
    (insNewest g c l).Pairwise (fun a b => g.time a ≥ g.time b) := by
  intro l
  induction l with
  | nil => intro _; exact List.pairwise_singleton _ _
  | cons x xs ih =>
    intro hp
    obtain ⟨hx, hxs⟩ := List.pairwise_cons.mp hp
    unfold insNewest
    by_cases h : g.time x ≥ g.time c
    · rw [if_pos h]
      refine List.pairwise_cons.mpr ⟨?_, ih hxs⟩
      intro y hy
      cases List.mem_cons.mp ((insNewest_perm g c xs).subset hy) with
      | inl h' => subst h'; exact h
      | inr h' => exact hx y h'
    · rw [if_neg h]
      refine List.pairwise_cons.mpr ⟨?_, hp⟩
      intro y hy
      cases List.mem_cons.mp hy with
      | inl h' => subst h'; omega
      | inr h' => have := hx y h'; omega

theorem sortNewest_sorted (g : Dag) (l : List Nat) :
    (sortNewestFirst g l).Pairwise (fun a b => g.time a ≥ g.time b) := by
  have key : ∀ (l acc : List Nat), acc.Pairwise (fun a b => g.time a ≥ g.time b) →
      (l.foldl (fun acc c => insNewest g c acc) acc).Pairwise (fun a b => g.time a ≥ g.time b) := by
    intro l
    induction l with
    | nil => intro acc h; exact h
    | cons x xs ih => intro acc h; exact ih _ (insNewest_sorted g x acc h)
  exact key l [] List.Pairwise.nil

def tid (g : Dag) (c : Nat) : Int × Nat := (g.time c, c)

theorem dateInsert_newest (g : Dag) (c cA : Nat) : ∀ (sq : List (Int × Nat × Nat)) (L : List Nat),
    sq.map proj1 = L.map (tid g) →
    (dateInsert (g.time c, cA, c) sq).map proj1 = (insNewest g c L).map (tid g) := by
  intro sq
  induction sq with
  | nil =>
    intro L h
    cases L with
    | nil => rfl
    | cons x xs => simp at h
  | cons y ys ih =>
    intro L h
    cases L with
    | nil => simp at h
    | cons x xs =>
      simp only [List.map_cons, List.cons.injEq] at h
      obtain ⟨h1, h2⟩ := h
      have ht : y.1 = g.time x := congrArg Prod.fst h1
      unfold dateInsert insNewest
      simp only
      rw [ht]
      by_cases hc : g.time x ≥ g.time c
      · rw [if_pos hc, if_pos hc]
        simp only [List.map_cons]
        rw [h1, ih xs h2]
      · rw [if_neg hc, if_neg hc]
        simp only [List.map_cons]
        rw [h1, h2]
        rfl

/-- pushing the commits in the order given yields the list git sorts them into -/
theorem cPush_fold_newest (g : Dag) : ∀ (F : List Nat) (s : KahnState) (L : List Nat),
    s.dateQ.map proj1 = L.map (tid g) →
    ((F.foldl (cPush g true) s).dateQ).map proj1
      = (F.foldl (fun acc c => insNewest g c acc) L).map (tid g) := by
  intro F
  induction F with
  | nil => intro s L h; exact h
  | cons x xs ih =>
    intro s L h
    simp only [List.foldl_cons]
    apply ih
    simp only [cPush, if_true]
    exact dateInsert_newest g x s.ctr s.dateQ L h

theorem dateInsert_append (e : Int × Nat × Nat) : ∀ (sq : List (Int × Nat × Nat)),
    (∀ x, x ∈ sq → x.1 ≥ e.1) → dateInsert e sq = sq ++ [e] := by
  intro sq
  induction sq with
  | nil => intro _; rfl
  | cons y ys ih =>
    intro h
    unfold dateInsert
    rw [if_pos (h y List.mem_cons_self), ih (fun x hx => h x (List.mem_cons_of_mem _ hx))]
    rfl

/-- pushing an already sorted list leaves it as it is -/
theorem cPush_fold_sorted (g : Dag) : ∀ (H : List Nat) (s : KahnState) (L : List Nat),
    s.dateQ.map proj1 = L.map (tid g) → (L ++ H).Pairwise (fun a b => g.time a ≥ g.time b) →
    ((H.foldl (cPush g true) s).dateQ).map proj1 = (L ++ H).map (tid g) := by
  intro H
  induction H with
  | nil => intro s L h _; simpa using h
  | cons x xs ih =>
    intro s L h hp
    simp only [List.foldl_cons]
    have hp' : ((L ++ [x]) ++ xs).Pairwise (fun a b => g.time a ≥ g.time b) := by
      simpa using hp
    have := ih (cPush g true s x) (L ++ [x]) ?_ hp'
    · simpa using this
    · simp only [cPush, if_true]
      rw [dateInsert_append]
      · simp only [List.map_append, List.map_cons, List.map_nil, h]
        rfl
      · intro y hy
        have hy' : proj1 y ∈ L.map (tid g) := by rw [← h]; exact List.mem_map.mpr ⟨y, hy, rfl⟩
        obtain ⟨l, hl, hle⟩ := List.mem_map.mp hy'
        have hyt : y.1 = g.time l := (congrArg Prod.fst hle).symm
        obtain ⟨_, _, h3⟩ := List.pairwise_append.mp hp
        have := h3 l hl x List.mem_cons_self
        show y.1 ≥ g.time x
        rw [hyt]; exact this

theorem kPush_fold_rel (g : Dag) : ∀ (F : List Nat) (s : KahnState) (k : KQ), QRc true s k →
    QRc true (F.foldl (cPush g true) s) (F.foldl (kPush g true) k) := by
  intro F
  induction F with
  | nil => intro s k h; exact h
  | cons x xs ih => intro s k h; exact ih _ _ (cPush_rel g true h x)

theorem kPush_fold_stack (g : Dag) : ∀ (F : List Nat) (k : KQ),
    (F.foldl (kPush g false) k).stack = F.reverse ++ k.stack := by
  intro F
  induction F with
  | nil => intro k; rfl
  | cons x xs ih =>
    intro k
    simp only [List.foldl_cons, List.reverse_cons, List.append_assoc]
    rw [ih]
    rfl

/-! ### `gitCount = gitKahn` -/

theorem gitCount_eq_gitKahn (g : Dag) (n : Nat) (sel : Nat → Bool) (tips : List Nat) (d : Bool)
    (hlt : ∀ x, sel x = true → x < n) (hnd : ∀ c, (g.parents c).Nodup) :
    gitCount g n sel tips d = gitKahn g sel (List.range n) tips d n := by
  obtain ⟨isz, ideg⟩ := indegInit_spec g sel n hnd
  let F := (dd tips []).filter (ready g sel (List.range n) [])
  have hF : (dedup tips []).filter (fun t => sel t && ((indegInit g n sel)[t]? == some 1)) = F := by
    rw [dedup_eq]
    simp only [List.reverse_nil, List.nil_append]
    apply List.filter_congr
    intro t _
    cases hr : ready g sel (List.range n) [] t with
    | true =>
      obtain ⟨a, b⟩ := (ready_iff_ucnt g sel n [] t).mp hr
      rw [a, ideg t (hlt t a), b]
      rfl
    | false =>
      cases hs : sel t with
      | false => rfl
      | true =>
        rw [ideg t (hlt t hs)]
        have : ucnt g sel n [] t ≠ 0 := by
          intro h
          have := (ready_iff_ucnt g sel n [] t).mpr ⟨hs, h⟩
          rw [hr] at this; cases this
        simp only [Bool.true_and, beq_eq_false_iff_ne, ne_eq, Option.some.injEq]
        omega
  have hk0 : kTips g sel (List.range n) d tips [] { dq := [], ctr := 0, stack := [] }
      = F.foldl (kPush g d) { dq := [], ctr := 0, stack := [] } :=
    kTips_eq g sel (List.range n) d tips [] [] _ (by intro x; simp)
  have hFnd : F.Nodup := (dd_spec tips []).1.sublist List.filter_sublist
  have hFr : ∀ x, x ∈ F → sel x = true ∧ ucnt g sel n [] x = 0 := by
    intro x hx
    exact (ready_iff_ucnt g sel n [] x).mp (List.mem_filter.mp hx).2
  have hperm := sortNewest_perm g F
  unfold gitCount gitKahn
  dsimp only
  rw [hF, hk0]
  -- the invariant of the start state, from the ids of its queue
  have hinv : ∀ (s0 : KahnState), s0.indeg = indegInit g n sel → s0.out = [] →
      qids d s0 = sortNewestFirst g F → CInv g sel n d s0 [] := by
    intro s0 e1 e2 e3
    refine ⟨by rw [e1]; exact isz, ?_, ?_, ?_, ?_⟩
    · intro p hp
      rw [e1, e2, ideg p (hlt p hp)]
      simp
    · intro q hq
      rw [e3] at hq
      rw [e2]
      exact ⟨(hFr q (hperm.subset hq)).1, by simp⟩
    · rw [e3]; exact hperm.nodup_iff.mpr hFnd
    · intro q hq
      rw [e2, e3] at hq
      cases hq with
      | inl h => rw [e2]; exact ⟨(hFr q (hperm.subset h)).2, by simp⟩
      | inr h => simp at h
  cases d
  · -- topo order: a stack
    simp only [Bool.false_eq_true, if_false]
    have hst : (F.foldl (kPush g false) { dq := [], ctr := 0, stack := [] }).stack = F.reverse := by
      rw [kPush_fold_stack]; simp
    have hi := hinv { indeg := indegInit g n sel, dateQ := [], ctr := 0, stack := sortNewestFirst g F, out := [] }
      rfl rfl rfl
    refine cLoop_sim hlt hnd (n + 1) _ _ hi ?_
    simp only [QRc, Bool.false_eq_true, if_false]
    rw [hst, sortNewest_eq]
  · -- date order
    simp only [if_true]
    have hA : ((sortNewestFirst g F).foldl (cPush g true)
        { indeg := indegInit g n sel, dateQ := [], ctr := 0, stack := [], out := [] }).dateQ.map proj1
        = (sortNewestFirst g F).map (tid g) := by
      have := cPush_fold_sorted g (sortNewestFirst g F)
        { indeg := indegInit g n sel, dateQ := [], ctr := 0, stack := [], out := [] } [] rfl
        (by simpa using sortNewest_sorted g F)
      simpa using this
    have hV : ((F.foldl (cPush g true)
        { indeg := indegInit g n sel, dateQ := [], ctr := 0, stack := [], out := [] }).dateQ).map proj1
        = (sortNewestFirst g F).map (tid g) :=
      cPush_fold_newest g F _ [] rfl
    have hrelV := kPush_fold_rel g F
      { indeg := indegInit g n sel, dateQ := [], ctr := 0, stack := [], out := [] }
      { dq := [], ctr := 0, stack := [] }
      (by
        simp only [QRc, if_true]
        exact ⟨[], List.Perm.refl _, List.Pairwise.nil, rfl, by intro e he; simp at he⟩)
    have hframe : ∀ (H : List Nat) (s : KahnState), (H.foldl (cPush g true) s).indeg = s.indeg ∧
        (H.foldl (cPush g true) s).out = s.out := by
      intro H
      induction H with
      | nil => intro s; exact ⟨rfl, rfl⟩
      | cons x xs ih => intro s; simp only [List.foldl_cons]; exact ⟨(ih _).1, (ih _).2⟩
    obtain ⟨fr1, fr2⟩ := hframe (sortNewestFirst g F)
      { indeg := indegInit g n sel, dateQ := [], ctr := 0, stack := [], out := [] }
    have hids : qids true ((sortNewestFirst g F).foldl (cPush g true)
        { indeg := indegInit g n sel, dateQ := [], ctr := 0, stack := [], out := [] }) = sortNewestFirst g F := by
      simp only [qids, if_true]
      have := congrArg (List.map Prod.snd) hA
      simp only [List.map_map] at this
      have e1 : (Prod.snd ∘ proj1) = fun (e : Int × Nat × Nat) => e.2.2 := rfl
      have e2 : (Prod.snd ∘ tid g) = fun (c : Nat) => c := rfl
      rw [e1, e2] at this
      simpa using this
    have hi := hinv _ fr1 fr2 hids
    refine (cLoop_sim hlt hnd (n + 1) _ (F.foldl (kPush g true) { dq := [], ctr := 0, stack := [] }) hi ?_).trans
      (by rw [fr2])
    simp only [QRc, if_true] at hrelV ⊢
    obtain ⟨l, h1, h2, h3, h4⟩ := hrelV
    exact ⟨l, h1, h2, by rw [hA, ← hV]; exact h3, h4⟩

end GixModel.C47
