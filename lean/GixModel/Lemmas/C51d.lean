import GixModel.Lemmas.C51c
/-
Helper lemmas for C51 (c), continued: early stop after the result receiver is gone (budget per
worker) and the bound on the number of steps (measure).
-/
namespace GixModel.C51

/-! ### early stop -/

def isChanConsumeBy (t : Nat) : CEv → Bool
  | CEv.consume t' => t' = t
  | _ => false

/-- how many more items a worker may consume once the result receiver is gone -/
def wbudget : WPc → Nat
  | WPc.idle => 1
  | WPc.item _ => 1
  | _ => 0

theorem cstep_budget {c c' : Chan} {e : CEv} (t : Nat) (hf : c.rpc = RPc.failed) (hs : cstep c e = some c') :
    c'.rpc = RPc.failed ∧ wbudget (c'.wpcs t) + (if isChanConsumeBy t e then 1 else 0) ≤ wbudget (c.wpcs t) := by
  cases e <;> simp only [cstep] at hs <;> (repeat' split at hs) <;>
    first
    | (simp only [Option.some.injEq] at hs; subst hs; simp only [setW, isChanConsumeBy]; grind [wbudget])
    | cases hs

theorem crun_budget (t : Nat) : ∀ (sched : List CEv) (c c' : Chan), c.rpc = RPc.failed → crun c sched = some c' →
    (sched.filter (isChanConsumeBy t)).length ≤ wbudget (c.wpcs t) := by
  intro sched
  induction sched with
  | nil => intro c c' _ _; simp
  | cons e es ih =>
    intro c c' hf hr
    simp only [crun] at hr
    cases hst : cstep c e with
    | none => simp [hst] at hr
    | some c1 =>
      simp only [hst] at hr
      obtain ⟨h1, h2⟩ := cstep_budget t hf hst
      have := ih c1 c' h1 hr
      by_cases hc : isChanConsumeBy t e = true
      · simp only [hc, if_true] at h2
        simp only [List.filter_cons, hc, if_true, List.length_cons]
        omega
      · simp only [hc, Bool.false_eq_true, if_false] at h2
        simp only [List.filter_cons, hc, Bool.false_eq_true, if_false]
        omega

/-! ### every run is finite -/

def wweight : WPc → Nat
  | WPc.idle => 1
  | WPc.item _ => 4
  | WPc.result _ => 3
  | WPc.done => 0

def sumWW (w : Nat → WPc) : Nat → Nat
  | 0 => 0
  | k + 1 => sumWW w k + wweight (w k)

def cmeasure (c : Chan) : Nat :=
  5 * (c.n - c.sent) + 4 * c.inQ.length + sumWW c.wpcs c.k + c.outQ.length
    + (if c.prodDone then 0 else 1) + (if c.rpc = RPc.running then 1 else 0)

theorem sumWW_set_ge (w : Nat → WPc) (t : Nat) (pc : WPc) : ∀ k, k ≤ t → sumWW (setW w t pc) k = sumWW w k := by
  intro k
  induction k with
  | zero => intro _; rfl
  | succ k ih =>
    intro hk
    have hne : k ≠ t := by omega
    simp only [sumWW, ih (by omega), setW, hne, if_false]

theorem sumWW_set (w : Nat → WPc) (t : Nat) (pc : WPc) : ∀ k, t < k →
    sumWW (setW w t pc) k + wweight (w t) = sumWW w k + wweight pc := by
  intro k
  induction k with
  | zero => intro h; omega
  | succ k ih =>
    intro hk
    by_cases hkt : k = t
    · subst hkt
      simp only [sumWW, sumWW_set_ge w k pc k (Nat.le_refl _), setW, if_true]
      omega
    · have := ih (by omega)
      simp only [sumWW, setW, hkt, if_false] at this ⊢
      omega

theorem cstep_measure {c c' : Chan} {e : CEv} (hle : c.sent ≤ c.n) (hs : cstep c e = some c') :
    cmeasure c' + 1 ≤ cmeasure c := by
  cases e with
  | prodSend =>
    simp only [cstep] at hs
    split at hs
    · rename_i hc
      simp only [Option.some.injEq] at hs; subst hs
      simp only [cmeasure, List.length_append, List.length_cons, List.length_nil]
      omega
    · cases hs
  | prodEnd =>
    simp only [cstep] at hs
    split at hs
    · rename_i hc
      simp only [Option.some.injEq] at hs; subst hs
      simp only [cmeasure, hc.1, Bool.false_eq_true, if_false, if_true]
      omega
    · cases hs
  | recv t =>
    simp only [cstep] at hs
    split at hs
    · rename_i hc
      split at hs
      · rename_i i q hq
        simp only [Option.some.injEq] at hs; subst hs
        have := sumWW_set c.wpcs t (WPc.item i) c.k hc.1
        simp only [cmeasure, hq, List.length_cons, hc.2, wweight] at this ⊢
        omega
      · cases hs
    · cases hs
  | workerEnd t =>
    simp only [cstep] at hs
    split at hs
    · rename_i hc
      simp only [Option.some.injEq] at hs; subst hs
      have := sumWW_set c.wpcs t WPc.done c.k hc.1
      simp only [cmeasure, hc.2.1, wweight] at this ⊢
      omega
    · cases hs
  | consume t =>
    simp only [cstep] at hs
    split at hs
    · rename_i hc
      split at hs
      · rename_i x i heq
        simp only [Option.some.injEq] at hs; subst hs
        have := sumWW_set c.wpcs t (WPc.result i) c.k hc
        simp only [cmeasure, heq, wweight] at this ⊢
        omega
      · cases hs
    · cases hs
  | send t =>
    simp only [cstep] at hs
    split at hs
    · rename_i hc
      split at hs
      · rename_i x i heq
        simp only [Option.some.injEq] at hs; subst hs
        have := sumWW_set c.wpcs t WPc.idle c.k hc.1
        simp only [cmeasure, heq, wweight, List.length_append, List.length_cons, List.length_nil] at this ⊢
        omega
      · cases hs
    · cases hs
  | sendFail t =>
    simp only [cstep] at hs
    split at hs
    · rename_i hc
      split at hs
      · rename_i x i heq
        simp only [Option.some.injEq] at hs; subst hs
        have := sumWW_set c.wpcs t WPc.done c.k hc.1
        simp only [cmeasure, heq, wweight] at this ⊢
        omega
      · cases hs
    · cases hs
  | feedOk =>
    simp only [cstep] at hs
    split at hs
    · split at hs
      · rename_i r q hq
        simp only [Option.some.injEq] at hs; subst hs
        simp only [cmeasure, hq, List.length_cons]
        omega
      · cases hs
    · cases hs
  | feedErr =>
    simp only [cstep] at hs
    split at hs
    · rename_i hr
      split at hs
      · rename_i r q hq
        simp only [Option.some.injEq] at hs; subst hs
        simp only [cmeasure, hq, hr, List.length_cons, List.length_nil]
        simp
      · cases hs
    · cases hs
  | finalize =>
    simp only [cstep] at hs
    split at hs
    · rename_i hc
      simp only [Option.some.injEq] at hs; subst hs
      simp only [cmeasure, hc.1]
      simp
    · cases hs
  | drop =>
    simp only [cstep] at hs
    split at hs
    · rename_i hr
      simp only [Option.some.injEq] at hs; subst hs
      simp only [cmeasure, hr, List.length_nil]
      simp
    · cases hs

theorem crun_measure : ∀ (sched : List CEv) (c c' : Chan), CInv c → crun c sched = some c' →
    sched.length + cmeasure c' ≤ cmeasure c := by
  intro sched
  induction sched with
  | nil => intro c c' _ hr; simp only [crun, Option.some.injEq] at hr; subst hr; simp
  | cons e es ih =>
    intro c c' h hr
    simp only [crun] at hr
    cases hst : cstep c e with
    | none => simp [hst] at hr
    | some c1 =>
      simp only [hst] at hr
      have h1 := cstep_measure h.sent_le hst
      have h2 := ih c1 c' (cstep_inv c c1 e h hst) hr
      simp only [List.length_cons]
      omega

theorem sumWW_init (k : Nat) : sumWW (fun _ => WPc.idle) k = k := by
  induction k with
  | zero => rfl
  | succ k ih => simp [sumWW, ih, wweight]

/-! ### the channels bound the work in flight -/

theorem cstep_bounded {c c' : Chan} {e : CEv} (h : c.inQ.length ≤ c.k ∧ c.outQ.length ≤ c.k)
    (hs : cstep c e = some c') : c'.inQ.length ≤ c'.k ∧ c'.outQ.length ≤ c'.k := by
  obtain ⟨h1, h2⟩ := h
  cases e <;> simp only [cstep] at hs <;> (repeat' split at hs) <;>
    first
    | (simp only [Option.some.injEq] at hs; subst hs; constructor <;> grind)
    | cases hs

theorem crun_bounded : ∀ (sched : List CEv) (c c' : Chan), (c.inQ.length ≤ c.k ∧ c.outQ.length ≤ c.k) →
    crun c sched = some c' → c'.inQ.length ≤ c'.k ∧ c'.outQ.length ≤ c'.k := by
  intro sched
  induction sched with
  | nil => intro c c' h hr; simp only [crun, Option.some.injEq] at hr; subst hr; exact h
  | cons e es ih =>
    intro c c' h hr
    simp only [crun] at hr
    cases hst : cstep c e with
    | none => simp [hst] at hr
    | some c1 =>
      simp only [hst] at hr
      exact ih c1 c' (cstep_bounded h hst) hr

end GixModel.C51
