import GixModel.Model.C53
/-
C53 — on byte strings that contain none of the `White_Space` characters git's `isspace` does not
know (VT, FF, U+0085, U+00A0, U+1680, U+2000.., …), bstr's Unicode `trim` is git's ASCII trim.
-/
namespace GixModel.C53
open GixModel
open GixModel.Spec.C53 (isSpace dropEndWhile)

/-- git-style trim: what `parse_name_and_email` does to the name -/
def gitTrim (bs : Bytes) : Bytes := dropEndWhile isSpace (bs.dropWhile isSpace)

/-- an exotic `White_Space` character starts here -/
def exoticAt (s : Bytes) : Bool := exoticWs.any (fun p => p.isPrefixOf s)

/-- no exotic `White_Space` character anywhere in the string -/
def noExotic : Bytes → Bool
  | [] => true
  | b :: r => !exoticAt (b :: r) && noExotic r

theorem isPrefixOf_append {p s : Bytes} (t : Bytes) (h : p.isPrefixOf s = true) : p.isPrefixOf (s ++ t) = true := by
  rw [List.isPrefixOf_iff_prefix] at *
  obtain ⟨u, hu⟩ := h
  exact ⟨u ++ t, by rw [← hu, List.append_assoc]⟩

theorem exoticAt_append {s : Bytes} (t : Bytes) (h : exoticAt s = true) : exoticAt (s ++ t) = true := by
  unfold exoticAt at *
  rw [List.any_eq_true] at *
  obtain ⟨p, hp, hps⟩ := h
  exact ⟨p, hp, isPrefixOf_append t hps⟩

theorem noExotic_suffix (x y : Bytes) (h : noExotic (x ++ y) = true) : noExotic y = true := by
  induction x with
  | nil => exact h
  | cons b r ih =>
    simp only [List.cons_append, noExotic, Bool.and_eq_true] at h
    exact ih h.2

theorem noExotic_prefix (x y : Bytes) (h : noExotic (x ++ y) = true) : noExotic x = true := by
  induction x with
  | nil => rfl
  | cons b r ih =>
    simp only [List.cons_append, noExotic, Bool.and_eq_true, Bool.not_eq_true'] at h ⊢
    refine ⟨?_, ih h.2⟩
    cases hx : exoticAt (b :: r) with
    | false => rfl
    | true =>
      have := exoticAt_append y hx
      simp only [List.cons_append] at this
      rw [this] at h
      exact absurd h.1 (by simp)

theorem exoticWs_ne_nil : ∀ p ∈ exoticWs, p ≠ [] := by decide

theorem noExotic_head {s : Bytes} (hs : s ≠ []) (h : noExotic s = true) : exoticAt s = false := by
  cases s with
  | nil => exact absurd rfl hs
  | cons b r =>
    simp only [noExotic, Bool.and_eq_true, Bool.not_eq_true'] at h
    exact h.1

/-- an exotic pattern cannot occur as an infix -/
theorem noExotic_no_infix (x p w : Bytes) (hp : p ∈ exoticWs) (h : noExotic (x ++ (p ++ w)) = true) : False := by
  have h1 := noExotic_suffix x (p ++ w) h
  have hne : p ++ w ≠ [] := by
    intro h0
    have := List.append_eq_nil_iff.mp h0
    exact exoticWs_ne_nil p hp this.1
  have h2 := noExotic_head hne h1
  have h3 : exoticAt (p ++ w) = true := by
    unfold exoticAt
    rw [List.any_eq_true]
    exact ⟨p, hp, by rw [List.isPrefixOf_iff_prefix]; exact List.prefix_append p w⟩
  rw [h3] at h2
  cases h2

theorem gitSpaces_find (s : Bytes) :
    gitSpaces.find? (fun p => p.isPrefixOf s) =
      match s with
      | [] => none
      | b :: _ => if isSpace b then some [b] else none := by
  cases s with
  | nil => simp [gitSpaces, List.isPrefixOf]
  | cons b r =>
    simp only [gitSpaces, List.find?_cons, List.isPrefixOf, List.find?_nil, isSpace]
    by_cases h1 : b = 32
    · subst h1; simp
    · by_cases h2 : b = 9
      · subst h2; simp
      · by_cases h3 : b = 10
        · subst h3; simp
        · by_cases h4 : b = 13
          · subst h4; simp
          · have e1 : ((32 : UInt8) == b) = false := by simpa using fun h => h1 h.symm
            have e2 : ((9 : UInt8) == b) = false := by simpa using fun h => h2 h.symm
            have e3 : ((10 : UInt8) == b) = false := by simpa using fun h => h3 h.symm
            have e4 : ((13 : UInt8) == b) = false := by simpa using fun h => h4 h.symm
            simp [e1, e2, e3, e4, h1, h2, h3, h4]

theorem wsLenFwd_plain (s : Bytes) (h : exoticAt s = false) :
    wsLenFwd s = match s with | [] => 0 | b :: _ => if isSpace b then 1 else 0 := by
  unfold wsLenFwd wsPatterns
  rw [List.find?_append, gitSpaces_find]
  have hnone : exoticWs.find? (fun p => p.isPrefixOf s) = none := by
    rw [List.find?_eq_none]
    intro p hp hps
    unfold exoticAt at h
    have : exoticWs.any (fun p => p.isPrefixOf s) = true := List.any_eq_true.mpr ⟨p, hp, hps⟩
    rw [this] at h; cases h
  cases s with
  | nil => simp [hnone]
  | cons b r =>
    simp only
    by_cases hb : isSpace b = true
    · simp [hb]
    · simp [hb, hnone]

theorem trimStartFuel_plain : ∀ (fuel : Nat) (s : Bytes), s.length ≤ fuel → noExotic s = true →
    trimStartFuel fuel s = s.dropWhile isSpace := by
  intro fuel
  induction fuel with
  | zero =>
    intro s hl _
    have : s = [] := List.length_eq_zero_iff.mp (by omega)
    subst this; rfl
  | succ fuel ih =>
    intro s hl hs
    cases s with
    | nil => simp [trimStartFuel, wsLenFwd, wsPatterns, gitSpaces, exoticWs, List.isPrefixOf]
    | cons b r =>
      have hx := noExotic_head (by simp) hs
      simp only [trimStartFuel, wsLenFwd_plain _ hx]
      have hr : noExotic r = true := by
        simp only [noExotic, Bool.and_eq_true] at hs; exact hs.2
      by_cases hb : isSpace b = true
      · simp only [hb, if_true, List.drop_succ_cons, List.drop_zero, List.dropWhile_cons]
        simp only [show ((1 : Nat) == 0) = false by decide, Bool.false_eq_true, if_false]
        exact ih r (by simp at hl; omega) hr
      · simp [hb]

theorem trimStart_plain (s : Bytes) (hs : noExotic s = true) : trimStart s = s.dropWhile isSpace :=
  trimStartFuel_plain s.length s (Nat.le_refl _) hs

/-- the reversed pattern at the head of a reversed prefix means the pattern is an infix -/
theorem wsLenRev_plain (t : Bytes) (h : noExotic t.reverse = true) :
    wsLenRev t = match t with | [] => 0 | b :: _ => if isSpace b then 1 else 0 := by
  unfold wsLenRev wsPatterns
  rw [List.find?_append]
  have hg : gitSpaces.find? (fun p => p.reverse.isPrefixOf t) = gitSpaces.find? (fun p => p.isPrefixOf t) := by
    simp only [gitSpaces, List.find?_cons, List.find?_nil, List.reverse_cons, List.reverse_nil, List.nil_append]
  rw [hg, gitSpaces_find]
  have hnone : exoticWs.find? (fun p => p.reverse.isPrefixOf t) = none := by
    rw [List.find?_eq_none]
    intro p hp hps
    rw [List.isPrefixOf_iff_prefix] at hps
    obtain ⟨u, hu⟩ := hps
    have : t.reverse = u.reverse ++ (p ++ []) := by
      rw [← hu]; simp
    rw [this] at h
    exact noExotic_no_infix u.reverse p [] hp h
  cases t with
  | nil => simp [hnone]
  | cons b r =>
    simp only
    by_cases hb : isSpace b = true
    · simp [hb]
    · simp [hb, hnone]

theorem trimRevFuel_plain : ∀ (fuel : Nat) (t : Bytes), t.length ≤ fuel → noExotic t.reverse = true →
    trimRevFuel fuel t = t.dropWhile isSpace := by
  intro fuel
  induction fuel with
  | zero =>
    intro t hl _
    have : t = [] := List.length_eq_zero_iff.mp (by omega)
    subst this; rfl
  | succ fuel ih =>
    intro t hl ht
    cases t with
    | nil => simp [trimRevFuel, wsLenRev, wsPatterns, gitSpaces, exoticWs, List.isPrefixOf]
    | cons b r =>
      simp only [trimRevFuel, wsLenRev_plain _ ht]
      have hr : noExotic r.reverse = true := by
        rw [List.reverse_cons] at ht
        exact noExotic_prefix _ _ ht
      by_cases hb : isSpace b = true
      · simp only [hb, if_true, List.drop_succ_cons, List.drop_zero, List.dropWhile_cons]
        simp only [show ((1 : Nat) == 0) = false by decide, Bool.false_eq_true, if_false]
        exact ih r (by simp at hl; omega) hr
      · simp [hb]

theorem trimEnd_plain (s : Bytes) (hs : noExotic s = true) : trimEnd s = dropEndWhile isSpace s := by
  unfold trimEnd dropEndWhile
  rw [trimRevFuel_plain s.length s.reverse (by simp) (by simpa using hs)]

theorem dropWhile_suffix (p : UInt8 → Bool) (s : Bytes) : ∃ x, s = x ++ s.dropWhile p :=
  ⟨s.takeWhile p, (List.takeWhile_append_dropWhile (p := p) (l := s)).symm⟩

theorem trim_plain (s : Bytes) (hs : noExotic s = true) : trim s = gitTrim s := by
  unfold trim gitTrim
  rw [trimStart_plain s hs]
  obtain ⟨x, hx⟩ := dropWhile_suffix isSpace s
  have : noExotic (s.dropWhile isSpace) = true := by
    rw [hx] at hs; exact noExotic_suffix _ _ hs
  exact trimEnd_plain _ this

end GixModel.C53
