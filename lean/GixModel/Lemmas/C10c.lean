import GixModel.Lemmas.C10b
/-
C10 — from the decidable forest check to `TreeOk`; what `Inv` gives at the end of a traversal.
-/
namespace GixModel.C10

variable {V Id : Type}

theorem children_invalid (f : Forest) (n : Node) (h : f.valid n = false) : f.children n = [] := by
  cases n with
  | root i =>
    simp only [Forest.valid, decide_eq_false_iff_not, Nat.not_lt] at h
    simp [Forest.children, List.getD, List.getElem?_eq_none h]
  | kid j =>
    simp only [Forest.valid, decide_eq_false_iff_not, Nat.not_lt] at h
    simp [Forest.children, List.getD, List.getElem?_eq_none h]

theorem mem_allNodes (f : Forest) (n : Node) : n ∈ f.allNodes ↔ f.valid n = true := by
  cases n with
  | root i => simp [Forest.allNodes, Forest.valid]
  | kid j => simp [Forest.allNodes, Forest.valid]

theorem valid_of_child (f : Forest) (n : Node) (k : Nat) (h : k ∈ f.children n) : f.valid n = true := by
  cases hv : f.valid n with
  | true => rfl
  | false => rw [children_invalid f n hv] at h; cases h

theorem eq_of_mem_singleton_length {α : Type} {l : List α} (hl : l.length = 1) {a b : α} (ha : a ∈ l) (hb : b ∈ l) :
    a = b := by
  match l, hl with
  | [x], _ =>
    simp only [List.mem_singleton] at ha hb
    rw [ha, hb]

theorem ok_treeOk (f : Forest) (h : f.ok = true) : TreeOk f := by
  simp only [Forest.ok, Bool.and_eq_true, List.all_eq_true, decide_eq_true_eq, List.mem_range, beq_iff_eq] at h
  obtain ⟨⟨⟨h1, h2⟩, h3⟩, h4⟩ := h
  have hpar : ∀ n k, k ∈ f.children n → n ∈ f.parents k := by
    intro n k hk
    simp only [Forest.parents, List.mem_filter, List.contains_iff_mem]
    exact ⟨(mem_allNodes f n).mpr (valid_of_child f n k hk), hk⟩
  refine ⟨?_, ?_, ?_, ?_, ?_⟩
  · intro n k hk
    exact h1 n ((mem_allNodes f n).mpr (valid_of_child f n k hk)) k hk
  · intro n
    cases hv : f.valid n with
    | true => exact h2 n ((mem_allNodes f n).mpr hv)
    | false => rw [children_invalid f n hv]; exact List.nodup_nil
  · intro n n' k hk hk'
    have hlt : k < f.kids.length := h1 n ((mem_allNodes f n).mpr (valid_of_child f n k hk)) k hk
    exact eq_of_mem_singleton_length (h3 k hlt) (hpar n k hk) (hpar n' k hk')
  · intro j hj
    have hl := h3 j hj
    match hp : f.parents j, hl with
    | [n], _ =>
      have : n ∈ f.parents j := by rw [hp]; exact List.mem_singleton.mpr rfl
      simp only [Forest.parents, List.mem_filter, List.contains_iff_mem] at this
      exact ⟨n, (mem_allNodes f n).mp this.1, this.2⟩
  · intro j k hk
    have hv := valid_of_child f (Node.kid j) k hk
    simp only [Forest.valid, decide_eq_true_eq] at hv
    exact h4 j hv k hk

/-- at the end every entry was handled -/
theorem terminal_all_done {f : Forest} {c : Codec V Id} {val : Node → V} {s : St V Id} (tk : TreeOk f)
    (inv : Inv f c val s) (ht : Terminal f s) : ∀ n, f.valid n = true → s.st n = Status.done := by
  obtain ⟨hnr, hq, hw⟩ := ht
  have notq : ∀ n, s.st n ≠ Status.queued := by
    intro n h; have := (inv.q n).mpr h; rw [hq] at this; cases this
  have noth : ∀ n, s.st n ≠ Status.held := by
    intro n h
    obtain ⟨t, w, hw', _⟩ := (inv.held n).mp h
    rw [hw t] at hw'; cases hw'
  have fin : ∀ n, s.st n ≠ Status.fresh → s.st n = Status.done := by
    intro n h
    cases hs : s.st n with
    | fresh => exact absurd hs h
    | queued => exact absurd hs (notq n)
    | held => exact absurd hs (noth n)
    | done => rfl
  have hroot : ∀ i, i < f.roots.length → s.st (Node.root i) = Status.done := by
    intro i hi
    apply fin
    intro h
    have := (inv.roots i).mp h
    omega
  have hkid : ∀ j, j < f.kids.length → s.st (Node.kid j) = Status.done := by
    intro j
    induction j using Nat.strongRecOn with
    | _ j ih =>
      intro hj
      obtain ⟨n, hv, hmem⟩ := tk.hasParent j hj
      have hn : s.st n = Status.done := by
        cases n with
        | root i => exact hroot i (by simpa [Forest.valid] using hv)
        | kid i => exact ih i (tk.back i j hmem) (by simpa [Forest.valid] using hv)
      exact fin _ ((inv.ch n j hmem).2 hn)
  intro n hv
  cases n with
  | root i => exact hroot i (by simpa [Forest.valid] using hv)
  | kid j => exact hkid j (by simpa [Forest.valid] using hv)

end GixModel.C10
