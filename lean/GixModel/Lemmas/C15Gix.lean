import GixModel.Lemmas.C15
/-
C15 — lemmas, part 2: the loop of `name_inner`. What the index arithmetic (`component_end`, the two
slices tested for ".lock") amounts to, one iteration on a byte that keeps the name valid
(`step_good`), validation = `Valid`.
-/
namespace GixModel.C15
open GixModel Spec.C15


/-- what the loop knows about `component_end`: it is at or before the last '/' consumed (so the
slice that is tested for ".lock" covers the whole current component), or it is still 0 and no '/'
has been consumed -/
def CE (pre : Bytes) (ce : Nat) : Prop :=
  (comp pre).length + 1 + ce ≤ pre.length ∨ (ce = 0 ∧ pre.contains 47 = false)

theorem CE.le {pre : Bytes} {ce : Nat} (h : CE pre ce) : ce ≤ pre.length := by
  rcases h with h | ⟨h, _⟩ <;> omega

theorem CE_nil : CE [] 0 := Or.inr ⟨rfl, rfl⟩

theorem CE_cons_ne {pre : Bytes} {ce : Nat} {b : UInt8} (h : CE pre ce) (hb : (b == 47) = false) :
    CE (b :: pre) ce := by
  have hb' : (b != 47) = true := by simp [bne, hb]
  rcases h with h | ⟨h1, h2⟩
  · left; rw [comp_cons]; simp only [hb', if_true, List.length_cons]; omega
  · right; refine ⟨h1, ?_⟩
    simp only [List.contains_cons, h2, Bool.or_false]
    cases h : (47 : UInt8) == b
    · rfl
    · rw [beq_iff_eq] at h; subst h; simp at hb

theorem CE_slash_new (pre : Bytes) : CE (47 :: pre) pre.length := by
  left; rw [comp_cons]; simp; omega

theorem CE_slash_skip {pre : Bytes} {ce : Nat} (h : CE pre ce) : CE (47 :: pre) ce := by
  left; rw [comp_cons]; simp; have := h.le; omega

theorem rlock_take (l : Bytes) (k : Nat) :
    rlock.isPrefixOf (l.take k) = (rlock.isPrefixOf l && decide (5 ≤ k)) := by
  rw [Bool.eq_iff_iff]
  simp only [List.isPrefixOf_iff_prefix, Bool.and_eq_true, decide_eq_true_eq]
  rw [List.prefix_take_iff]
  simp [rlock, Spec.C15.rlock]

theorem rlock_len {l : Bytes} (h : rlock.isPrefixOf l = true) : 5 ≤ l.length := by
  rw [List.isPrefixOf_iff_prefix] at h
  have := h.length_le
  simpa [rlock, Spec.C15.rlock] using this

theorem comp_length_le (l : Bytes) : (comp l).length ≤ l.length := by
  unfold comp
  induction l with
  | nil => simp
  | cons a l ih => simp only [List.takeWhile_cons]; split <;> simp <;> omega

/-- the test `input[component_start..component_end].ends_with(".lock")` at a '/' -/
theorem lock1_eq {pre : Bytes} {ce : Nat} (h : CE pre ce) :
    rlock.isPrefixOf (pre.take (pre.length - ce)) = rlock.isPrefixOf pre := by
  rw [rlock_take]
  cases hp : rlock.isPrefixOf pre
  · rfl
  · have h5 : 5 ≤ (comp pre).length := rlock_len (by rw [rlock_comp]; exact hp)
    have := comp_length_le pre
    rcases h with h | ⟨h1, _⟩
    · simp; omega
    · simp; omega

/-- the test `input[component_end + 1..].ends_with(".lock")` at the last byte -/
theorem lock2_eq {full : Bytes} {ce : Nat} (h : CE full ce) :
    rlock.isPrefixOf (full.take (full.length - (ce + 1))) = (rlock.isPrefixOf full && full != rlock) := by
  rw [rlock_take]
  cases hp : rlock.isPrefixOf full
  · rfl
  · have h5 : 5 ≤ (comp full).length := rlock_len (by rw [rlock_comp]; exact hp)
    have hle := comp_length_le full
    have hne : (full != rlock) = decide (6 ≤ full.length) := by
      rw [List.isPrefixOf_iff_prefix] at hp
      by_cases h6 : 6 ≤ full.length
      · simp only [h6, decide_true, bne_iff_ne]
        intro e; rw [e] at h6; simp [rlock, Spec.C15.rlock] at h6
      · have : full = rlock := by
          have hl : full.length = rlock.length := by
            have := rlock_len (List.isPrefixOf_iff_prefix.2 hp)
            simp [rlock, Spec.C15.rlock]; omega
          exact (List.IsPrefix.eq_of_length hp hl.symm).symm
        simp [this]; simp [rlock, Spec.C15.rlock]
    rw [hne]
    rcases h with h | ⟨h1, _⟩
    · have : 6 ≤ full.length := by omega
      simp [this]; omega
    · subst h1; simp only [Bool.true_and]; congr 1; simp; omega


/-- `PreOk 0 (b :: pre)` given `PreOk 0 pre` -/
def stepGood (pre : Bytes) (b : UInt8) : Bool :=
  !gitBad b && pairOk (pre.headD 0) b && !(b == 47 && rlock.isPrefixOf pre)

theorem PreOk_cons (p0 : UInt8) (b : UInt8) (r : Bytes) :
    PreOk p0 (b :: r) = (PreOk p0 r && (!gitBad b && pairOk (r.headD p0) b && !(b == 47 && rlock.isPrefixOf r))) := by
  simp only [PreOk, Bool.and_assoc]

theorem table_bad {t : Table} (ht : tableOk t = true) (b : UInt8) :
    (inRanges t.forbidden b || inRanges t.star b) = gitBad b := by
  obtain ⟨h1, h2⟩ := tableOk_spec ht b
  rw [h1, h2]; unfold gitBad
  cases (disp b == 4) <;> cases (b == 0) <;> cases (disp b == 5) <;> rfl

theorem step_good {t : Table} (ht : tableOk t = true) {pre : Bytes} {ce : Nat} (hce : CE pre ce)
    {b : UInt8} (hg : stepGood pre b = true) (san isLast : Bool) (out : Bytes) :
    step t san isLast ⟨pre, ce, out⟩ b =
      (if (isLast && (rlock.isPrefixOf (b :: pre) && (b :: pre) != rlock)) = true then
        (if san = true then
          .ok ⟨b :: pre, if (b == 47) = true then pre.length else ce, stripLocks (b :: out)⟩
         else .err .lockFileSuffix)
       else .ok ⟨b :: pre, if (b == 47) = true then pre.length else ce, if san = true then b :: out else out⟩) := by
  simp only [stepGood, Bool.and_eq_true, Bool.not_eq_eq_eq_not, Bool.not_true] at hg
  obtain ⟨⟨hbad, hpair⟩, hlock⟩ := hg
  have hb := table_bad ht b
  rw [hbad] at hb
  have hf : inRanges t.forbidden b = false := by
    cases h : inRanges t.forbidden b
    · rfl
    · rw [h] at hb; simp at hb
  have hs : inRanges t.star b = false := by
    cases h : inRanges t.star b
    · rfl
    · rw [h] at hb; simp at hb
  simp only [pairOk, Bool.and_eq_true, Bool.not_eq_eq_eq_not, Bool.not_true] at hpair
  obtain ⟨⟨⟨g1, g2⟩, g3⟩, g4⟩ := hpair
  have hle := hce.le
  have hcs : (b == 47 && decide (ce > pre.length)) = false := by
    have : decide (ce > pre.length) = false := by simp; omega
    simp [this]
  have hl1 : (b == 47 && rlock.isPrefixOf (pre.take (pre.length - ce))) = false := by
    rw [lock1_eq hce]; exact hlock
  unfold step
  simp only [hf, hs, g1, g2, g3, g4, Bool.false_eq_true, if_false, hcs, hl1, Bool.false_and]
  by_cases h47 : (b == 47) = true
  · have hce' : CE (b :: pre) pre.length := by
      have : b = 47 := by simpa using h47
      subst this; exact CE_slash_new pre
    have hl2 := lock2_eq hce'
    simp only [List.length_cons] at hl2
    simp only [h47, if_true]
    have : ¬ (pre.length + 1 > pre.length + 1) := by omega
    simp only [this, if_false, hl2]
    cases isLast <;> cases san <;> cases (rlock.isPrefixOf (b :: pre) && (b :: pre) != rlock) <;> simp
  · have h47' : (b == 47) = false := by simpa using h47
    have hce' : CE (b :: pre) ce := CE_cons_ne hce h47'
    have hl2 := lock2_eq hce'
    simp only [List.length_cons] at hl2
    simp only [h47', Bool.false_eq_true, if_false]
    have : ¬ (ce + 1 > pre.length + 1) := by omega
    simp only [this, if_false, hl2]
    cases isLast <;> cases san <;> cases (rlock.isPrefixOf (b :: pre) && (b :: pre) != rlock) <;> simp

theorem step_bad {t : Table} (ht : tableOk t = true) {pre : Bytes} {ce : Nat} (hce : CE pre ce)
    {b : UInt8} (hg : stepGood pre b = false) (isLast : Bool) (out : Bytes) :
    ∃ e, step t false isLast ⟨pre, ce, out⟩ b = .err e := by
  have hb := table_bad ht b
  unfold step
  by_cases c1 : inRanges t.forbidden b = true
  · refine ⟨.invalidByte, ?_⟩; simp [c1]
  by_cases c2 : inRanges t.star b = true
  · refine ⟨.asterisk, ?_⟩; simp [c1, c2]
  by_cases c3 : (b == 46 && pre.headD 0 == 46) = true
  · refine ⟨.repeatedDot, ?_⟩; simp only [c1, c2, c3]; simp
  by_cases c4 : (b == 46 && pre.headD 0 == 47) = true
  · refine ⟨.startsWithDot, ?_⟩; simp only [c1, c2, c3, c4]; simp
  by_cases c5 : (b == 123 && pre.headD 0 == 64) = true
  · refine ⟨.reflogPortion, ?_⟩; simp only [c1, c2, c3, c4, c5]; simp
  by_cases c6 : (b == 47 && pre.headD 0 == 47) = true
  · refine ⟨.repeatedSlash, ?_⟩; simp only [c1, c2, c3, c4, c5, c6]; simp
  -- the catch-all arm: only the ".lock/" test is left
  refine ⟨.lockFileSuffix, ?_⟩
  have c1' : inRanges t.forbidden b = false := by simpa using c1
  have c2' : inRanges t.star b = false := by simpa using c2
  have c3' : (b == 46 && pre.headD 0 == 46) = false := by simpa using c3
  have c4' : (b == 46 && pre.headD 0 == 47) = false := by simpa using c4
  have c5' : (b == 123 && pre.headD 0 == 64) = false := by simpa using c5
  have c6' : (b == 47 && pre.headD 0 == 47) = false := by simpa using c6
  rw [c1', c2'] at hb
  have hbad : gitBad b = false := by rw [← hb]; rfl
  have hlock : (b == 47 && rlock.isPrefixOf pre) = true := by
    simp only [stepGood, hbad, pairOk, c3', c4', c5', c6'] at hg
    simpa using hg
  have hle := hce.le
  have hcs : (b == 47 && decide (ce > pre.length)) = false := by
    have : decide (ce > pre.length) = false := by simp; omega
    simp [this]
  have hl1 : (b == 47 && rlock.isPrefixOf (pre.take (pre.length - ce))) = true := by
    rw [lock1_eq hce]; exact hlock
  simp only [c1', c2', c3', c4', c5', c6', Bool.false_eq_true, if_false, hcs, hl1]
  simp

theorem CE_step {pre : Bytes} {ce : Nat} (hce : CE pre ce) (b : UInt8) :
    CE (b :: pre) (if (b == 47) = true then pre.length else ce) := by
  by_cases h47 : (b == 47) = true
  · have : b = 47 := by simpa using h47
    subst this; simp; exact CE_slash_new pre
  · have h47' : (b == 47) = false := by simpa using h47
    simp only [h47', Bool.false_eq_true, if_false]; exact CE_cons_ne hce h47'

theorem PreOk_cons_good {pre : Bytes} {b : UInt8} (hp : PreOk 0 pre = true) :
    PreOk 0 (b :: pre) = stepGood pre b := by
  rw [PreOk_cons, hp]; simp [stepGood]

theorem PreOk_false_append {p0 : UInt8} (x r : Bytes) (h : PreOk p0 r = false) : PreOk p0 (x ++ r) = false := by
  cases hq : PreOk p0 (x ++ r)
  · rfl
  · rw [PreOk_append x r hq] at h; cases h

/-- the loop when validating: it never panics and succeeds exactly on the `PreOk` names whose last
component does not end in ".lock" (the 5-byte name ".lock" slips through this test; it is refused
afterwards for its leading '.') -/
theorem loop_validate {t : Table} (ht : tableOk t = true) (rest : Bytes) :
    ∀ (pre : Bytes) (ce : Nat) (out : Bytes), PreOk 0 pre = true → CE pre ce →
      let full := rest.reverse ++ pre
      let cond := PreOk 0 full && (rest.isEmpty || !(rlock.isPrefixOf full && full != rlock))
      (cond = true ∧ ∃ ce', loop t false ⟨pre, ce, out⟩ rest = .ok ⟨full, ce', out⟩)
        ∨ (cond = false ∧ ∃ e, loop t false ⟨pre, ce, out⟩ rest = .err e) := by
  induction rest with
  | nil =>
    intro pre ce out hp _
    left
    simp [loop, hp]
  | cons b rest ih =>
    intro pre ce out hp hce
    have hrev : (b :: rest).reverse ++ pre = rest.reverse ++ (b :: pre) := by simp
    simp only [hrev, List.isEmpty_cons, Bool.false_or]
    cases hg : stepGood pre b
    · right
      obtain ⟨e, he⟩ := step_bad ht hce hg rest.isEmpty out
      have : PreOk 0 (b :: pre) = false := by rw [PreOk_cons_good hp]; exact hg
      refine ⟨by rw [PreOk_false_append _ _ this]; rfl, e, ?_⟩
      simp [loop, he]
    · have hst := step_good ht hce hg false rest.isEmpty out
      have hp' : PreOk 0 (b :: pre) = true := by rw [PreOk_cons_good hp]; exact hg
      cases rest with
      | nil =>
        simp only [List.isEmpty_nil, Bool.true_and, Bool.false_eq_true, if_false] at hst
        simp only [List.reverse_nil, List.nil_append, hp', Bool.true_and]
        cases hl : (rlock.isPrefixOf (b :: pre) && (b :: pre) != rlock)
        · left
          rw [hl] at hst
          simp only [Bool.false_eq_true, if_false] at hst
          exact ⟨rfl, _, by simp only [loop, List.isEmpty_nil, hst]; rfl⟩
        · right
          rw [hl] at hst
          simp only [if_true] at hst
          exact ⟨rfl, _, by simp only [loop, List.isEmpty_nil, hst]; rfl⟩
      | cons c rest =>
        simp only [List.isEmpty_cons, Bool.false_and, Bool.false_eq_true, if_false] at hst
        have := ih (b :: pre) _ out hp' (CE_step hce b)
        simp only [List.isEmpty_cons, Bool.false_or] at this
        rcases this with ⟨h1, ce', h2⟩ | ⟨h1, e, h2⟩
        · left; refine ⟨h1, ce', ?_⟩
          simp only [loop, List.isEmpty_cons, hst]; exact h2
        · right; refine ⟨h1, e, ?_⟩
          simp only [loop, List.isEmpty_cons, hst]; exact h2


theorem pairOk_zero (b : UInt8) : pairOk 0 b = true := by
  simp [pairOk]

theorem pairOk_slash (b : UInt8) : pairOk 47 b = (b != 46 && b != 47) := by
  have h1 : ((47 : UInt8) == 46) = false := by decide
  have h3 : ((47 : UInt8) == 64) = false := by decide
  simp only [pairOk, h1, h3, beq_self_eq_true, Bool.and_false, Bool.and_true, Bool.not_false, Bool.true_and]
  rfl

/-- a name is fine from the start of a component iff it is fine "in the middle" and its first byte
is neither '.' nor '/' -/
theorem PreOk_start (r : Bytes) :
    PreOk 47 r = (PreOk 0 r && r.getLast? != some 46 && r.getLast? != some 47) := by
  induction r with
  | nil => rfl
  | cons b r ih =>
    rw [PreOk_cons, PreOk_cons]
    cases r with
    | nil =>
      simp only [PreOk, List.headD_nil, pairOk_zero, pairOk_slash, List.getLast?_singleton, Bool.true_and]
      have e1 : (some b != some (46 : UInt8)) = (b != 46) := by simp [bne]
      have e2 : (some b != some (47 : UInt8)) = (b != 47) := by simp [bne]
      rw [e1, e2]
      cases gitBad b <;> cases (b != 46) <;> cases (b != 47) <;> cases (b == 47 && rlock.isPrefixOf []) <;> rfl
    | cons c r =>
      rw [ih]
      simp only [List.headD_cons, List.getLast?_cons_cons]
      cases PreOk 0 (c :: r) <;> cases ((c :: r).getLast? != some 46) <;> cases ((c :: r).getLast? != some 47) <;> simp

theorem Valid_eq (r : Bytes) :
    Valid r = (!r.isEmpty && PreOk 0 r && r.getLast? != some 46 && r.getLast? != some 47
      && r.head? != some 47 && r.head? != some 46 && !rlock.isPrefixOf r) := by
  unfold Valid
  rw [PreOk_start]
  cases r with
  | nil => simp
  | cons a l =>
    simp only [List.headD_cons, List.head?_cons, List.isEmpty_cons]
    have e1 : (some a != some (46 : UInt8)) = (a != 46) := by simp [bne]
    have e2 : (some a != some (47 : UInt8)) = (a != 47) := by simp [bne]
    rw [e1, e2]
    cases PreOk 0 (a :: l) <;> cases ((a :: l).getLast? != some 46) <;> cases ((a :: l).getLast? != some 47)
      <;> cases (a != 47) <;> cases (a != 46) <;> cases (rlock.isPrefixOf (a :: l)) <;> rfl

theorem Valid_rev_eq (bs : Bytes) :
    Valid bs.reverse = (!bs.isEmpty && PreOk 0 bs.reverse && bs.head? != some 46 && bs.head? != some 47
      && bs.getLast? != some 47 && bs.getLast? != some 46 && !rlock.isPrefixOf bs.reverse) := by
  rw [Valid_eq, List.getLast?_reverse, List.head?_reverse, List.isEmpty_reverse]

/-- `name_inner(input, Mode::Validate)`: never panics, returns `Ok(None)` exactly on `Valid` names -/
theorem nameInner_validate {t : Table} (ht : tableOk t = true) (bs : Bytes) :
    (Valid bs.reverse = true ∧ nameInner t false bs = .ok none)
      ∨ (Valid bs.reverse = false ∧ ∃ e, nameInner t false bs = .err e) := by
  rw [Valid_rev_eq]
  unfold nameInner
  cases hE : bs.isEmpty
  case true => right; simp
  simp only [Bool.false_eq_true, if_false, Bool.not_false, Bool.true_and, Bool.and_true]
  cases hL : bs.getLast? == some 47
  case true =>
    right
    have : (bs.getLast? != some 47) = false := by simp [bne, hL]
    simp [this]
  cases hH : bs.head? == some 47
  case true =>
    right
    have : (bs.head? != some 47) = false := by simp [bne, hH]
    simp [this]
  have hL' : (bs.getLast? != some 47) = true := by simp [bne, hL]
  have hH' : (bs.head? != some 47) = true := by simp [bne, hH]
  simp only [Bool.false_eq_true, if_false, hL', hH', Bool.and_true]
  have hloop := loop_validate ht bs [] 0 [] rfl CE_nil
  simp only [List.append_nil, hE, Bool.false_or] at hloop
  rcases hloop with ⟨hc, ce', hl⟩ | ⟨hc, e, hl⟩
  · rw [hl]
    simp only [Bool.and_eq_true, Bool.not_eq_eq_eq_not, Bool.not_true] at hc
    obtain ⟨hp, hlk⟩ := hc
    simp only [hp, Bool.true_and, finishValidate]
    cases hh : bs.head? with
    | none => cases bs <;> simp at hE hh
    | some f =>
      cases hg : bs.getLast? with
      | none => cases bs <;> simp at hE hg
      | some l =>
        simp only
        have e1 : (some f != some (46 : UInt8)) = !(f == 46) := by simp [bne]
        have e2 : (some l != some (46 : UInt8)) = !(l == 46) := by simp [bne]
        rw [e1, e2]
        cases hf : f == 46
        case true => right; simp
        cases hl46 : l == 46
        case true => right; simp
        left
        simp only [Bool.not_false, Bool.true_and, Bool.false_eq_true, if_false, and_true]
        cases hr : rlock.isPrefixOf bs.reverse
        · rfl
        · rw [hr] at hlk
          have : bs.reverse = rlock := by simpa using hlk
          have : bs = rlock.reverse := by rw [← this, List.reverse_reverse]
          subst this
          simp [rlock, Spec.C15.rlock] at hh
          subst hh; simp at hf
  · rw [hl]
    right
    refine ⟨?_, e, rfl⟩
    cases hp : PreOk 0 bs.reverse
    · simp
    · rw [hp] at hc
      have : rlock.isPrefixOf bs.reverse = true := by
        cases hr : rlock.isPrefixOf bs.reverse
        · rw [hr] at hc; simp at hc
        · rfl
      simp [this]
end GixModel.C15
