/-
C16: what `commit_inner` does to the loose files, name by name.
-/
import GixModel.Lemmas.C16Prep
import GixModel.Lemmas.C16Order

namespace GixModel.C17

theorem lookup_eraseKey {α : Type} (l : List (Name × α)) (n m : Name) :
    lookup (eraseKey l n) m = if n = m then none else lookup l m := by
  unfold eraseKey
  induction l with
  | nil => simp [lookup]
  | cons kv rest ih =>
    obtain ⟨k, w⟩ := kv
    by_cases hk : k = n
    · subst hk
      have : List.filter (fun kv => decide (kv.1 ≠ k)) ((k, w) :: rest) = List.filter (fun kv => decide (kv.1 ≠ k)) rest := by
        simp [List.filter_cons]
      rw [this, ih]
      by_cases h : k = m <;> simp [lookup, h]
    · have : List.filter (fun kv => decide (kv.1 ≠ n)) ((k, w) :: rest) = (k, w) :: List.filter (fun kv => decide (kv.1 ≠ n)) rest := by
        simp [List.filter_cons, hk]
      rw [this]
      simp only [lookup, ih]
      by_cases h : n = m
      · subst h; simp [hk]
      · simp [h]

theorem lookup_insertKey {α : Type} (l : List (Name × α)) (n m : Name) (v : α) :
    lookup (insertKey l n v) m = if n = m then some v else lookup l m := by
  unfold insertKey
  simp only [lookup]
  by_cases h : n = m
  · simp [h]
  · simp [h, lookup_eraseKey]

/-- what the first loop of `commit_inner` writes to the loose file of the edit's name -/
def writesLoose (dl : Bool) (e : Edit) : Option Target :=
  match e.update.change with
  | .update log _ new =>
    if dl && !new.isSymbolic && packable e.name then none
    else if log = .andReference ∧ e.lock = true then some new else none
  | .delete _ _ => none

/-- names and changes are not touched by the loops of commit (only the lock flags are) -/
def Edit.sig (e : Edit) : Name × Change := (e.name, e.update.change)

/-! ### one step of the first loop -/

theorem updateStep_frame (dl : Bool) (S : Store) (e : Edit) :
    (commitUpdateStep dl S e).1.packed = S.packed ∧ (commitUpdateStep dl S e).1.packedLock = S.packedLock ∧
    (commitUpdateStep dl S e).2.sig = e.sig := by
  unfold commitUpdateStep
  split
  · split
    · exact ⟨rfl, rfl, rfl⟩
    · split <;> (cases e.lock <;> exact ⟨rfl, rfl, rfl⟩)
  · exact ⟨rfl, rfl, rfl⟩

theorem updateStep_loose (dl : Bool) (S : Store) (e : Edit) (m : Name) :
    lookup (commitUpdateStep dl S e).1.loose m =
      if e.name = m then (match writesLoose dl e with | some t => some t | none => lookup S.loose m)
      else lookup S.loose m := by
  unfold commitUpdateStep writesLoose
  cases e.update.change with
  | delete exp log => simp
  | update log exp new =>
    simp only []
    by_cases hc : (dl && !new.isSymbolic && packable e.name) = true
    · simp [hc]
    · simp only [hc, Bool.false_eq_true, if_false]
      by_cases hlog : log = .andReference
      · simp only [hlog, if_true, true_and]
        cases hl : e.lock
        · simp
        · simp only [if_true, release, lookup_insertKey]
      · simp only [hlog, if_false, false_and]
        cases hl : e.lock <;> simp [release]

/-! ### one step of the last loop -/

theorem deleteStep_frame (dl : Bool) (S : Store) (e : Edit) :
    (commitDeleteStep dl S e).1.packed = S.packed ∧ (commitDeleteStep dl S e).1.packedLock = S.packedLock ∧
    (commitDeleteStep dl S e).2.sig = e.sig := by
  unfold commitDeleteStep
  split
  · cases e.lock <;> exact ⟨rfl, rfl, rfl⟩
  · exact ⟨rfl, rfl, rfl⟩

theorem deleteStep_loose (dl : Bool) (S : Store) (e : Edit) (m : Name) :
    lookup (commitDeleteStep dl S e).1.loose m =
      if e.name = m ∧ takeLockAndDelete dl e = true then none else lookup S.loose m := by
  unfold commitDeleteStep
  by_cases hc : takeLockAndDelete dl e = true
  · simp only [hc, if_true, and_true]
    cases e.lock <;> simp [release, lookup_eraseKey]
  · simp [hc]

/-! ### the loops -/

theorem commitUpdates_frame (dl : Bool) (S : Store) (E : List Edit) :
    (commitUpdates dl S E).1.packed = S.packed ∧ (commitUpdates dl S E).1.packedLock = S.packedLock ∧
    (commitUpdates dl S E).2.map Edit.sig = E.map Edit.sig := by
  induction E generalizing S with
  | nil => simp [commitUpdates]
  | cons e E ih =>
    obtain ⟨h1, h2, h3⟩ := updateStep_frame dl S e
    obtain ⟨i1, i2, i3⟩ := ih (commitUpdateStep dl S e).1
    simp only [commitUpdates, List.map_cons]
    exact ⟨by rw [i1, h1], by rw [i2, h2], by rw [i3, h3]⟩

theorem commitUpdates_other (dl : Bool) (m : Name) (S : Store) (E : List Edit) (h : ∀ e ∈ E, e.name ≠ m) :
    lookup (commitUpdates dl S E).1.loose m = lookup S.loose m := by
  induction E generalizing S with
  | nil => simp [commitUpdates]
  | cons e E ih =>
    have hne : e.name ≠ m := h e (List.mem_cons_self ..)
    simp only [commitUpdates]
    rw [ih _ (fun e' he' => h e' (List.mem_cons_of_mem _ he')), updateStep_loose]
    simp [hne]

theorem commitUpdates_at (dl : Bool) (m : Name) (S : Store) (E : List Edit) (hn : (E.map Edit.name).Nodup)
    (e : Edit) (he : e ∈ E) (hm : e.name = m) :
    lookup (commitUpdates dl S E).1.loose m =
      match writesLoose dl e with
      | some t => some t
      | none => lookup S.loose m := by
  induction E generalizing S with
  | nil => cases he
  | cons x E ih =>
    simp only [List.map_cons, List.nodup_cons] at hn
    simp only [commitUpdates]
    cases he with
    | head =>
      have hrest : ∀ e' ∈ E, e'.name ≠ m := by
        intro e' he' heq
        exact hn.1 (by rw [hm, ← heq]; exact List.mem_map_of_mem he')
      rw [commitUpdates_other dl m _ E hrest, updateStep_loose]
      simp [hm]
    | tail _ he' =>
      have hx : x.name ≠ m := by
        intro heq
        exact hn.1 (by rw [heq, ← hm]; exact List.mem_map_of_mem he')
      rw [ih _ hn.2 he', updateStep_loose]
      simp [hx]

theorem commitDeletes_frame (dl : Bool) (S : Store) (E : List Edit) :
    (commitDeletes dl S E).1.packed = S.packed ∧ (commitDeletes dl S E).1.packedLock = S.packedLock ∧
    (commitDeletes dl S E).2.map Edit.sig = E.map Edit.sig := by
  induction E generalizing S with
  | nil => simp [commitDeletes]
  | cons e E ih =>
    obtain ⟨h1, h2, h3⟩ := deleteStep_frame dl S e
    obtain ⟨i1, i2, i3⟩ := ih (commitDeleteStep dl S e).1
    simp only [commitDeletes, List.map_cons]
    exact ⟨by rw [i1, h1], by rw [i2, h2], by rw [i3, h3]⟩

theorem commitDeletes_other (dl : Bool) (m : Name) (S : Store) (E : List Edit) (h : ∀ e ∈ E, e.name ≠ m) :
    lookup (commitDeletes dl S E).1.loose m = lookup S.loose m := by
  induction E generalizing S with
  | nil => simp [commitDeletes]
  | cons e E ih =>
    have hne : e.name ≠ m := h e (List.mem_cons_self ..)
    simp only [commitDeletes]
    rw [ih _ (fun e' he' => h e' (List.mem_cons_of_mem _ he')), deleteStep_loose]
    simp [hne]

theorem commitDeletes_at (dl : Bool) (m : Name) (S : Store) (E : List Edit) (hn : (E.map Edit.name).Nodup)
    (e : Edit) (he : e ∈ E) (hm : e.name = m) :
    lookup (commitDeletes dl S E).1.loose m = if takeLockAndDelete dl e = true then none else lookup S.loose m := by
  induction E generalizing S with
  | nil => cases he
  | cons x E ih =>
    simp only [List.map_cons, List.nodup_cons] at hn
    simp only [commitDeletes]
    cases he with
    | head =>
      have hrest : ∀ e' ∈ E, e'.name ≠ m := by
        intro e' he' heq
        exact hn.1 (by rw [hm, ← heq]; exact List.mem_map_of_mem he')
      rw [commitDeletes_other dl m _ E hrest, deleteStep_loose]
      simp [hm]
    | tail _ he' =>
      have hx : x.name ≠ m := by
        intro heq
        exact hn.1 (by rw [heq, ← hm]; exact List.mem_map_of_mem he')
      rw [ih _ hn.2 he', deleteStep_loose]
      simp [hx]

/-! ### every lock an edit owns is released exactly once -/

def Own (E : List Edit) (m : Name) : Prop := ∃ e ∈ E, e.lock = true ∧ e.name = m

/-- a loop of `commit_inner` as a fold of a step over the edits -/
def foldSteps (step : Store → Edit → Store × Edit) : Store → List Edit → Store × List Edit
  | S, [] => (S, [])
  | S, e :: rest => ((foldSteps step (step S e).1 rest).1, (step S e).2 :: (foldSteps step (step S e).1 rest).2)

theorem commitUpdates_eq_fold (dl : Bool) (S : Store) (E : List Edit) :
    commitUpdates dl S E = foldSteps (commitUpdateStep dl) S E := by
  induction E generalizing S with
  | nil => rfl
  | cons e E ih => simp [commitUpdates, foldSteps, ih]

theorem commitDeletes_eq_fold (dl : Bool) (S : Store) (E : List Edit) :
    commitDeletes dl S E = foldSteps (commitDeleteStep dl) S E := by
  induction E generalizing S with
  | nil => rfl
  | cons e E ih => simp [commitDeletes, foldSteps, ih]

/-- a step keeps the name and either leaves lock file and flag alone, or removes the lock file
and clears the flag, or clears a flag that was not set -/
def StepOk (step : Store → Edit → Store × Edit) : Prop :=
  ∀ S e, (step S e).2.name = e.name ∧
    (((step S e).1.locks = S.locks ∧ (step S e).2.lock = e.lock) ∨
     ((step S e).1.locks = S.locks.erase e.name ∧ (step S e).2.lock = false) ∨
     (e.lock = false ∧ (step S e).1.locks = S.locks ∧ (step S e).2.lock = false))

theorem updateStep_ok (dl : Bool) : StepOk (commitUpdateStep dl) := by
  intro S e
  unfold commitUpdateStep
  cases e.update.change with
  | delete exp log => exact ⟨rfl, Or.inl ⟨rfl, rfl⟩⟩
  | update log exp new =>
    simp only []
    split
    · exact ⟨rfl, Or.inl ⟨rfl, rfl⟩⟩
    · split
      · cases hl : e.lock
        · exact ⟨rfl, Or.inr (Or.inr ⟨rfl, rfl, rfl⟩)⟩
        · exact ⟨rfl, Or.inr (Or.inl ⟨rfl, rfl⟩)⟩
      · cases hl : e.lock
        · exact ⟨rfl, Or.inr (Or.inr ⟨rfl, rfl, rfl⟩)⟩
        · exact ⟨rfl, Or.inr (Or.inl ⟨rfl, rfl⟩)⟩

theorem deleteStep_ok (dl : Bool) : StepOk (commitDeleteStep dl) := by
  intro S e
  unfold commitDeleteStep
  split
  · cases hl : e.lock
    · exact ⟨rfl, Or.inr (Or.inr ⟨rfl, rfl, rfl⟩)⟩
    · exact ⟨rfl, Or.inr (Or.inl ⟨rfl, rfl⟩)⟩
  · exact ⟨rfl, Or.inl ⟨rfl, rfl⟩⟩

theorem foldSteps_locks (step : Store → Edit → Store × Edit) (hs : StepOk step) :
    ∀ (E : List Edit) (S : Store) (P : Name → Prop), S.locks.Nodup → (∀ m ∈ S.locks, P m ∨ Own E m) →
      (foldSteps step S E).1.locks.Nodup ∧
      ∀ m ∈ (foldSteps step S E).1.locks, P m ∨ Own (foldSteps step S E).2 m := by
  intro E
  induction E with
  | nil =>
    intro S P hn h
    exact ⟨hn, fun m hm => h m hm⟩
  | cons e E ih =>
    intro S P hn h
    obtain ⟨hname, hcase⟩ := hs S e
    have key : (step S e).1.locks.Nodup ∧
        ∀ m ∈ (step S e).1.locks, (P m ∨ ((step S e).2.lock = true ∧ (step S e).2.name = m)) ∨ Own E m := by
      rcases hcase with ⟨h1, h2⟩ | ⟨h1, h2⟩ | ⟨h0, h1, h2⟩
      · rw [h1]
        refine ⟨hn, fun m hm => ?_⟩
        rcases h m hm with hp | ⟨e0, he0, hl0, hn0⟩
        · exact Or.inl (Or.inl hp)
        · cases he0 with
          | head => exact Or.inl (Or.inr ⟨by rw [h2]; exact hl0, by rw [hname]; exact hn0⟩)
          | tail _ hmem => exact Or.inr ⟨e0, hmem, hl0, hn0⟩
      · rw [h1]
        refine ⟨hn.erase _, fun m hm => ?_⟩
        have hm' := (List.Nodup.mem_erase_iff hn).mp hm
        rcases h m hm'.2 with hp | ⟨e0, he0, hl0, hn0⟩
        · exact Or.inl (Or.inl hp)
        · cases he0 with
          | head => exact absurd hn0 (Ne.symm hm'.1)
          | tail _ hmem => exact Or.inr ⟨e0, hmem, hl0, hn0⟩
      · rw [h1]
        refine ⟨hn, fun m hm => ?_⟩
        rcases h m hm with hp | ⟨e0, he0, hl0, hn0⟩
        · exact Or.inl (Or.inl hp)
        · cases he0 with
          | head => rw [h0] at hl0; cases hl0
          | tail _ hmem => exact Or.inr ⟨e0, hmem, hl0, hn0⟩
    obtain ⟨i1, i2⟩ := ih (step S e).1 (fun m => P m ∨ ((step S e).2.lock = true ∧ (step S e).2.name = m)) key.1 key.2
    refine ⟨i1, fun m hm => ?_⟩
    rcases i2 m hm with (hp | ⟨hl, hnm⟩) | ⟨e0, he0, hl0, hn0⟩
    · exact Or.inl hp
    · exact Or.inr ⟨(step S e).2, List.mem_cons_self .., hl, hnm⟩
    · exact Or.inr ⟨e0, List.mem_cons_of_mem _ he0, hl0, hn0⟩

theorem releaseAll_owned (E : List Edit) :
    ∀ (S : Store) (P : Name → Prop), S.locks.Nodup → (∀ m ∈ S.locks, P m ∨ Own E m) →
      ∀ m ∈ (releaseAll S E).locks, P m := by
  induction E with
  | nil =>
    intro S P _ h m hm
    rcases h m hm with hp | ⟨e0, he0, _, _⟩
    · exact hp
    · cases he0
  | cons e E ih =>
    intro S P hn h m hm
    simp only [releaseAll] at hm
    cases hl : e.lock with
    | false =>
      simp only [hl, Bool.false_eq_true, if_false] at hm
      apply ih S P hn _ m hm
      intro m' hm'
      rcases h m' hm' with hp | ⟨e0, he0, hl0, hn0⟩
      · exact Or.inl hp
      · cases he0 with
        | head => rw [hl] at hl0; cases hl0
        | tail _ hmem => exact Or.inr ⟨e0, hmem, hl0, hn0⟩
    | true =>
      simp only [hl, if_true] at hm
      apply ih (release S e.name) P (hn.erase _) _ m hm
      intro m' hm'
      have hm'' := (List.Nodup.mem_erase_iff hn).mp hm'
      rcases h m' hm''.2 with hp | ⟨e0, he0, hl0, hn0⟩
      · exact Or.inl hp
      · cases he0 with
        | head => exact absurd hn0 (Ne.symm hm''.1)
        | tail _ hmem => exact Or.inr ⟨e0, hmem, hl0, hn0⟩

/-! ### the loose files stay a map -/

/-- loose references are files: one per name -/
def LooseNodup (S : Store) : Prop := (S.loose.map (·.1)).Nodup

theorem keys_eraseKey {α : Type} (l : List (Name × α)) (n : Name) :
    (eraseKey l n).map (·.1) = (l.map (·.1)).filter (fun k => decide (k ≠ n)) := by
  unfold eraseKey
  induction l with
  | nil => rfl
  | cons kv rest ih =>
    by_cases h : kv.1 = n
    · have h1 : List.filter (fun kv => decide (kv.1 ≠ n)) (kv :: rest) = List.filter (fun kv => decide (kv.1 ≠ n)) rest := by
        simp [List.filter_cons, h]
      have h2 : List.filter (fun k => decide (k ≠ n)) (List.map (·.1) (kv :: rest)) = List.filter (fun k => decide (k ≠ n)) (List.map (·.1) rest) := by
        simp [List.filter_cons, h]
      rw [h1, h2, ih]
    · have h1 : List.filter (fun kv => decide (kv.1 ≠ n)) (kv :: rest) = kv :: List.filter (fun kv => decide (kv.1 ≠ n)) rest := by
        simp [List.filter_cons, h]
      have h2 : List.filter (fun k => decide (k ≠ n)) (List.map (·.1) (kv :: rest)) = kv.1 :: List.filter (fun k => decide (k ≠ n)) (List.map (·.1) rest) := by
        simp [List.filter_cons, h]
      rw [h1, h2, List.map_cons, ih]

theorem nodup_eraseKey {α : Type} (l : List (Name × α)) (n : Name) (h : (l.map (·.1)).Nodup) :
    ((eraseKey l n).map (·.1)).Nodup := by
  rw [keys_eraseKey]; exact List.Nodup.sublist List.filter_sublist h

theorem nodup_insertKey {α : Type} (l : List (Name × α)) (n : Name) (v : α) (h : (l.map (·.1)).Nodup) :
    ((insertKey l n v).map (·.1)).Nodup := by
  unfold insertKey
  simp only [List.map_cons, List.nodup_cons]
  refine ⟨?_, nodup_eraseKey l n h⟩
  rw [keys_eraseKey]
  simp [List.mem_filter]

theorem updateStep_nodup (dl : Bool) (S : Store) (e : Edit) (h : LooseNodup S) :
    LooseNodup (commitUpdateStep dl S e).1 := by
  unfold commitUpdateStep LooseNodup
  split
  · split
    · exact h
    · split
      · cases e.lock
        · exact h
        · exact nodup_insertKey _ _ _ h
      · cases e.lock <;> exact h
  · exact h

theorem deleteStep_nodup (dl : Bool) (S : Store) (e : Edit) (h : LooseNodup S) :
    LooseNodup (commitDeleteStep dl S e).1 := by
  unfold commitDeleteStep LooseNodup
  split
  · cases e.lock <;> exact nodup_eraseKey _ _ h
  · exact h

theorem commitUpdates_nodup (dl : Bool) (S : Store) (E : List Edit) (h : LooseNodup S) :
    LooseNodup (commitUpdates dl S E).1 := by
  induction E generalizing S with
  | nil => exact h
  | cons e E ih => simp only [commitUpdates]; exact ih _ (updateStep_nodup dl S e h)

theorem commitDeletes_nodup (dl : Bool) (S : Store) (E : List Edit) (h : LooseNodup S) :
    LooseNodup (commitDeletes dl S E).1 := by
  induction E generalizing S with
  | nil => exact h
  | cons e E ih => simp only [commitDeletes]; exact ih _ (deleteStep_nodup dl S e h)

theorem commitPacked_loose (S : Store) (p : PTx) (S2 : Store) (h : commitPacked S p = some S2) :
    S2.loose = S.loose := by
  unfold commitPacked at h
  by_cases h1 : p.edits.isEmpty = true
  · simp only [h1, if_true] at h
    injection h with h; rw [← h]
  · simp only [h1, Bool.false_eq_true, if_false] at h
    by_cases h2 : (mergeAll (bufferList p.buffer) (sortEdits p.edits)).isEmpty = true
    · simp only [h2, if_true] at h
      by_cases h3 : S.packed.isSome = true
      · simp only [h3, if_true] at h
        injection h with h; rw [← h]
      · simp [h3] at h
    · simp only [h2, Bool.false_eq_true, if_false] at h
      injection h with h; rw [← h]

theorem commit_nodup (S : Store) (p : Prepared) (h : LooseNodup S) (a : Unit) (S' : Store)
    (hc : commit S p = .ok a S') : LooseNodup S' := by
  unfold commit at hc
  simp only [] at hc
  cases hp : p.ptx with
  | none =>
    rw [hp] at hc
    simp only [] at hc
    injection hc with _ hc
    rw [← hc]
    unfold LooseNodup
    rw [(releaseAll_locks _ _).1]
    exact commitDeletes_nodup _ _ _ (commitUpdates_nodup _ _ _ h)
  | some ptx =>
    rw [hp] at hc
    simp only [] at hc
    cases hcp : commitPacked (commitUpdates (decide (p.mode = .updatesRemoveLoose)) S (p.edits.map Edit.core)).1 ptx with
    | none => rw [hcp] at hc; cases hc
    | some S2 =>
      rw [hcp] at hc
      simp only [] at hc
      injection hc with _ hc
      rw [← hc]
      unfold LooseNodup
      rw [(releaseAll_locks _ _).1]
      apply commitDeletes_nodup
      unfold LooseNodup
      rw [commitPacked_loose _ _ _ hcp]
      exact commitUpdates_nodup _ _ _ h

end GixModel.C17
