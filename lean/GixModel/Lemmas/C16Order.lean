/-
C16: the bytewise order of packed-refs is a strict total order; merging a sorted packed buffer
with sorted edits (`packed::Transaction::commit`) gives a sorted buffer with the expected lookups.
-/
import GixModel.Model.C17Core

namespace GixModel.C17

theorem nameLt_irrefl : ∀ a : Name, nameLt a a = false := by
  intro a
  induction a with
  | nil => rfl
  | cons x xs ih => simp [nameLt, ih]

theorem nameLt_trans : ∀ a b c : Name, nameLt a b = true → nameLt b c = true → nameLt a c = true := by
  intro a
  induction a with
  | nil =>
    intro b c h1 h2
    cases b with
    | nil => simp [nameLt] at h1
    | cons y ys =>
      cases c with
      | nil => simp [nameLt] at h2
      | cons z zs => simp [nameLt]
  | cons x xs ih =>
    intro b c h1 h2
    cases b with
    | nil => simp [nameLt] at h1
    | cons y ys =>
      cases c with
      | nil => simp [nameLt] at h2
      | cons z zs =>
        simp only [nameLt] at h1 h2 ⊢
        by_cases hxy : x.toNat < y.toNat
        · by_cases hyz : y.toNat < z.toNat
          · have : x.toNat < z.toNat := by omega
            simp [this]
          · simp only [hyz, if_false] at h2
            by_cases hzy : z.toNat < y.toNat
            · simp [hzy] at h2
            · have : x.toNat < z.toNat := by omega
              simp [this]
        · simp only [hxy, if_false] at h1
          by_cases hyx : y.toNat < x.toNat
          · simp [hyx] at h1
          · simp only [hyx, if_false] at h1
            have hxy' : x.toNat = y.toNat := by omega
            by_cases hyz : y.toNat < z.toNat
            · have : x.toNat < z.toNat := by omega
              simp [this]
            · simp only [hyz, if_false] at h2
              by_cases hzy : z.toNat < y.toNat
              · simp [hzy] at h2
              · simp only [hzy, if_false] at h2
                have h1' : ¬ x.toNat < z.toNat := by omega
                have h2' : ¬ z.toNat < x.toNat := by omega
                simp only [h1', h2', if_false]
                exact ih ys zs h1 h2

theorem nameLt_total : ∀ a b : Name, nameLt a b = false → nameLt b a = false → a = b := by
  intro a
  induction a with
  | nil =>
    intro b h1 h2
    cases b with
    | nil => rfl
    | cons y ys => simp [nameLt] at h1
  | cons x xs ih =>
    intro b h1 h2
    cases b with
    | nil => simp [nameLt] at h2
    | cons y ys =>
      simp only [nameLt] at h1 h2
      by_cases hxy : x.toNat < y.toNat
      · simp [hxy] at h1
      · by_cases hyx : y.toNat < x.toNat
        · simp [hyx] at h2
        · simp only [hxy, hyx, if_false] at h1 h2
          have : x = y := UInt8.toNat_inj.mp (by omega)
          rw [this, ih ys h1 h2]

theorem nameLt_asymm (a b : Name) (h : nameLt a b = true) : nameLt b a = false := by
  cases hb : nameLt b a with
  | false => rfl
  | true =>
    have := nameLt_trans a b a h hb
    rw [nameLt_irrefl] at this
    cases this

theorem nameLt_ne (a b : Name) (h : nameLt a b = true) : a ≠ b := by
  intro heq
  subst heq
  rw [nameLt_irrefl] at h
  cases h

/-- strictly increasing keys -/
def SortedKeys {α : Type} : List (Name × α) → Prop
  | [] => True
  | [_] => True
  | a :: b :: rest => nameLt a.1 b.1 = true ∧ SortedKeys (b :: rest)

/-- every key of the list is above `n` -/
def AllAbove {α : Type} (n : Name) (l : List (Name × α)) : Prop := ∀ kv ∈ l, nameLt n kv.1 = true

theorem sorted_tail {α : Type} (a : Name × α) (l : List (Name × α)) (h : SortedKeys (a :: l)) : SortedKeys l := by
  cases l with
  | nil => trivial
  | cons b rest => exact h.2

theorem sorted_allAbove {α : Type} (a : Name × α) (l : List (Name × α)) (h : SortedKeys (a :: l)) :
    AllAbove a.1 l := by
  induction l generalizing a with
  | nil => intro kv hkv; cases hkv
  | cons b rest ih =>
    intro kv hkv
    cases hkv with
    | head => exact h.1
    | tail _ hmem =>
      have := ih b h.2 kv hmem
      exact nameLt_trans _ _ _ h.1 this

theorem sorted_cons {α : Type} (a : Name × α) (l : List (Name × α)) (hs : SortedKeys l) (ha : AllAbove a.1 l) :
    SortedKeys (a :: l) := by
  cases l with
  | nil => trivial
  | cons b rest => exact ⟨ha b (List.mem_cons_self ..), hs⟩

theorem lookup_none_of_allAbove {α : Type} (n : Name) (l : List (Name × α)) (h : AllAbove n l) :
    lookup l n = none := by
  induction l with
  | nil => rfl
  | cons kv rest ih =>
    obtain ⟨k, v⟩ := kv
    have hk : nameLt n k = true := h (k, v) (List.mem_cons_self ..)
    have hne : k ≠ n := fun heq => nameLt_ne n k hk heq.symm
    simp only [lookup, hne, if_false]
    exact ih (fun kv hkv => h kv (List.mem_cons_of_mem _ hkv))

theorem lookup_none_of_lt {α : Type} (n : Name) (a : Name × α) (l : List (Name × α))
    (hs : SortedKeys (a :: l)) (hlt : nameLt n a.1 = true) : lookup (a :: l) n = none := by
  apply lookup_none_of_allAbove
  intro kv hkv
  cases hkv with
  | head => exact hlt
  | tail _ hmem => exact nameLt_trans _ _ _ hlt (sorted_allAbove a l hs kv hmem)

/-! ### the merge -/

/-- what the edits say about a name -/
def editFor (es : List (Name × Option Oid)) (n : Name) : Option (Option Oid) := lookup es n

/-- expected lookup after the merge -/
def mergedLookup (ps : List (Name × Oid)) (es : List (Name × Option Oid)) (n : Name) : Option Oid :=
  match lookup es n with
  | some v => v
  | none => lookup ps n

theorem lookup_append_writeEdit (e : Name × Option Oid) (l : List (Name × Oid)) (n : Name) :
    lookup (writeEdit e ++ l) n = if e.1 = n ∧ e.2.isSome then e.2 else lookup l n := by
  obtain ⟨k, v⟩ := e
  cases v with
  | none => simp [writeEdit]
  | some o =>
    simp only [writeEdit, List.cons_append, List.nil_append, lookup]
    by_cases h : k = n <;> simp [h]

/-- keys of the merge come from the inputs -/
theorem mergePacked_keys (fuel : Nat) :
    ∀ (ps : List (Name × Oid)) (es : List (Name × Option Oid)) (kv : Name × Oid),
      kv ∈ mergePacked fuel ps es → (∃ p ∈ ps, p.1 = kv.1) ∨ (∃ e ∈ es, e.1 = kv.1) := by
  induction fuel with
  | zero => intro ps es kv h; simp [mergePacked] at h
  | succ fuel ih =>
    intro ps es kv h
    cases ps with
    | nil =>
      cases es with
      | nil => simp [mergePacked] at h
      | cons e es =>
        simp only [mergePacked, List.mem_append] at h
        rcases h with h | h
        · right
          refine ⟨e, List.mem_cons_self .., ?_⟩
          obtain ⟨k, v⟩ := e
          cases v <;> simp [writeEdit] at h
          rw [h]
        · rcases ih [] es kv h with ⟨p, hp, _⟩ | ⟨e', he', hk⟩
          · cases hp
          · exact Or.inr ⟨e', List.mem_cons_of_mem _ he', hk⟩
    | cons p ps =>
      cases es with
      | nil =>
        simp only [mergePacked, List.mem_cons] at h
        rcases h with h | h
        · exact Or.inl ⟨p, List.mem_cons_self .., by rw [h]⟩
        · rcases ih ps [] kv h with ⟨p', hp', hk⟩ | ⟨e', he', _⟩
          · exact Or.inl ⟨p', List.mem_cons_of_mem _ hp', hk⟩
          · cases he'
      | cons e es =>
        simp only [mergePacked] at h
        split at h
        · simp only [List.mem_cons] at h
          rcases h with h | h
          · exact Or.inl ⟨p, List.mem_cons_self .., by rw [h]⟩
          · rcases ih ps (e :: es) kv h with ⟨p', hp', hk⟩ | hr
            · exact Or.inl ⟨p', List.mem_cons_of_mem _ hp', hk⟩
            · exact Or.inr hr
        · have hw : kv ∈ writeEdit e → e.1 = kv.1 := by
            intro hh
            obtain ⟨k, v⟩ := e
            cases v <;> simp [writeEdit] at hh
            rw [hh]
          split at h
          · simp only [List.mem_append] at h
            rcases h with h | h
            · exact Or.inr ⟨e, List.mem_cons_self .., hw h⟩
            · rcases ih (p :: ps) es kv h with hl | ⟨e', he', hk⟩
              · exact Or.inl hl
              · exact Or.inr ⟨e', List.mem_cons_of_mem _ he', hk⟩
          · simp only [List.mem_append] at h
            rcases h with h | h
            · exact Or.inr ⟨e, List.mem_cons_self .., hw h⟩
            · rcases ih ps es kv h with ⟨p', hp', hk⟩ | ⟨e', he', hk⟩
              · exact Or.inl ⟨p', List.mem_cons_of_mem _ hp', hk⟩
              · exact Or.inr ⟨e', List.mem_cons_of_mem _ he', hk⟩

theorem allAbove_merge (fuel : Nat) (n : Name) (ps : List (Name × Oid)) (es : List (Name × Option Oid))
    (hp : AllAbove n ps) (he : AllAbove n es) : AllAbove n (mergePacked fuel ps es) := by
  intro kv hkv
  rcases mergePacked_keys fuel ps es kv hkv with ⟨p, hp', hk⟩ | ⟨e, he', hk⟩
  · rw [← hk]; exact hp p hp'
  · rw [← hk]; exact he e he'

theorem allAbove_writeEdit_append (e : Name × Option Oid) (l : List (Name × Oid))
    (hs : SortedKeys l) (ha : AllAbove e.1 l) : SortedKeys (writeEdit e ++ l) := by
  obtain ⟨k, v⟩ := e
  cases v with
  | none => simpa [writeEdit] using hs
  | some o =>
    simp only [writeEdit, List.cons_append, List.nil_append]
    exact sorted_cons (k, o) l hs ha

theorem mergePacked_sorted (fuel : Nat) :
    ∀ (ps : List (Name × Oid)) (es : List (Name × Option Oid)),
      SortedKeys ps → SortedKeys es → SortedKeys (mergePacked fuel ps es) := by
  induction fuel with
  | zero => intro ps es _ _; simp [mergePacked, SortedKeys]
  | succ fuel ih =>
    intro ps es hps hes
    cases ps with
    | nil =>
      cases es with
      | nil => simp [mergePacked, SortedKeys]
      | cons e es =>
        simp only [mergePacked]
        exact allAbove_writeEdit_append e _ (ih [] es trivial (sorted_tail e es hes))
          (allAbove_merge fuel e.1 [] es (fun _ h => by cases h) (sorted_allAbove e es hes))
    | cons p ps =>
      cases es with
      | nil =>
        simp only [mergePacked]
        exact sorted_cons p _ (ih ps [] (sorted_tail p ps hps) trivial)
          (allAbove_merge fuel p.1 ps [] (sorted_allAbove p ps hps) (fun _ h => by cases h))
      | cons e es =>
        simp only [mergePacked]
        split
        · rename_i hlt
          apply sorted_cons p _ (ih ps (e :: es) (sorted_tail p ps hps) hes)
          apply allAbove_merge fuel p.1 ps (e :: es) (sorted_allAbove p ps hps)
          intro kv hkv
          cases hkv with
          | head => exact hlt
          | tail _ hm => exact nameLt_trans _ _ _ hlt (sorted_allAbove e es hes kv hm)
        · rename_i hnlt
          split
          · rename_i hlt
            apply allAbove_writeEdit_append e _ (ih (p :: ps) es hps (sorted_tail e es hes))
            apply allAbove_merge fuel e.1 (p :: ps) es _ (sorted_allAbove e es hes)
            intro kv hkv
            cases hkv with
            | head => exact hlt
            | tail _ hm => exact nameLt_trans _ _ _ hlt (sorted_allAbove p ps hps kv hm)
          · rename_i hnlt2
            have heq : p.1 = e.1 := nameLt_total p.1 e.1 (by simpa using hnlt) (by simpa using hnlt2)
            apply allAbove_writeEdit_append e _ (ih ps es (sorted_tail p ps hps) (sorted_tail e es hes))
            apply allAbove_merge fuel e.1 ps es _ (sorted_allAbove e es hes)
            rw [← heq]
            exact sorted_allAbove p ps hps

theorem mergePacked_lookup (fuel : Nat) :
    ∀ (ps : List (Name × Oid)) (es : List (Name × Option Oid)) (n : Name),
      SortedKeys ps → SortedKeys es → ps.length + es.length ≤ fuel →
      lookup (mergePacked fuel ps es) n = mergedLookup ps es n := by
  induction fuel with
  | zero =>
    intro ps es n _ _ hf
    have h1 : ps = [] := List.eq_nil_of_length_eq_zero (by omega)
    have h2 : es = [] := List.eq_nil_of_length_eq_zero (by omega)
    subst h1 h2
    simp [mergePacked, mergedLookup, lookup]
  | succ fuel ih =>
    intro ps es n hps hes hf
    cases ps with
    | nil =>
      cases es with
      | nil => simp [mergePacked, mergedLookup, lookup]
      | cons e es =>
        simp only [mergePacked]
        rw [lookup_append_writeEdit, ih [] es n trivial (sorted_tail e es hes) (by simp at hf ⊢; omega)]
        obtain ⟨k, v⟩ := e
        simp only [mergedLookup, lookup]
        by_cases hk : k = n
        · subst hk
          have hnone : lookup es k = none := lookup_none_of_allAbove k es (sorted_allAbove (k, v) es hes)
          cases v <;> simp [hnone]
        · simp [hk]
    | cons p ps =>
      cases es with
      | nil =>
        simp only [mergePacked]
        obtain ⟨k, v⟩ := p
        simp only [lookup, mergedLookup]
        rw [ih ps [] n (sorted_tail (k, v) ps hps) trivial (by simp at hf ⊢; omega)]
        simp [mergedLookup, lookup]
      | cons e es =>
        simp only [mergePacked]
        split
        · rename_i hlt
          obtain ⟨k, v⟩ := p
          simp only [lookup]
          rw [ih ps (e :: es) n (sorted_tail (k, v) ps hps) hes (by simp at hf ⊢; omega)]
          by_cases hk : k = n
          · subst hk
            have : lookup (e :: es) k = none := lookup_none_of_lt k e es hes hlt
            simp only [mergedLookup, this]
            simp [lookup]
          · simp [mergedLookup, lookup, hk]
        · rename_i hnlt
          split
          · rename_i hlt
            rw [lookup_append_writeEdit, ih (p :: ps) es n hps (sorted_tail e es hes) (by simp at hf ⊢; omega)]
            obtain ⟨k, v⟩ := e
            by_cases hk : k = n
            · subst hk
              have h1 : lookup es k = none := lookup_none_of_allAbove k es (sorted_allAbove (k, v) es hes)
              have h2 : lookup (p :: ps) k = none := lookup_none_of_lt k p ps hps hlt
              have h3 : lookup ((k, v) :: es) k = some v := by simp [lookup]
              simp only [mergedLookup, h1, h2, h3]
              cases v <;> simp
            · have h3 : lookup ((k, v) :: es) n = lookup es n := by simp [lookup, hk]
              simp [mergedLookup, h3, hk]
          · rename_i hnlt2
            have heq : p.1 = e.1 := nameLt_total p.1 e.1 (by simpa using hnlt) (by simpa using hnlt2)
            rw [lookup_append_writeEdit, ih ps es n (sorted_tail p ps hps) (sorted_tail e es hes) (by simp at hf ⊢; omega)]
            obtain ⟨k, v⟩ := e
            obtain ⟨pk, pv⟩ := p
            simp only at heq
            subst heq
            simp only [mergedLookup, lookup]
            by_cases hk : pk = n
            · subst hk
              have h1 : lookup es pk = none := lookup_none_of_allAbove pk es (sorted_allAbove (pk, v) es hes)
              have h2 : lookup ps pk = none := lookup_none_of_allAbove pk ps (sorted_allAbove (pk, pv) ps hps)
              cases v <;> simp [h1, h2]
            · simp [hk]

/-! ### sorting the edits -/

theorem insertSorted_mem (e : Name × Option Oid) (l : List (Name × Option Oid)) :
    ∀ x, x ∈ insertSorted e l ↔ x = e ∨ x ∈ l := by
  induction l with
  | nil => intro x; simp [insertSorted]
  | cons y ys ih =>
    intro x
    simp only [insertSorted]
    split
    · simp only [List.mem_cons, ih]
      constructor
      · rintro (h | h | h) <;> simp [h]
      · rintro (h | h | h) <;> simp [h]
    · simp only [List.mem_cons]

theorem sortEdits_mem (l : List (Name × Option Oid)) : ∀ x, x ∈ sortEdits l ↔ x ∈ l := by
  induction l with
  | nil => intro x; simp [sortEdits]
  | cons e es ih =>
    intro x
    simp only [sortEdits, insertSorted_mem, ih, List.mem_cons]

theorem insertSorted_sorted (e : Name × Option Oid) (l : List (Name × Option Oid))
    (hs : SortedKeys l) (hne : ∀ x ∈ l, x.1 ≠ e.1) : SortedKeys (insertSorted e l) := by
  induction l with
  | nil => simp [insertSorted, SortedKeys]
  | cons y ys ih =>
    simp only [insertSorted]
    split
    · rename_i hlt
      apply sorted_cons y _ (ih (sorted_tail y ys hs) (fun x hx => hne x (List.mem_cons_of_mem _ hx)))
      intro kv hkv
      rcases (insertSorted_mem e ys kv).mp hkv with h | h
      · rw [h]; exact hlt
      · exact sorted_allAbove y ys hs kv h
    · rename_i hnlt
      have hney : y.1 ≠ e.1 := hne y (List.mem_cons_self ..)
      have hlt : nameLt e.1 y.1 = true := by
        cases h : nameLt e.1 y.1 with
        | true => rfl
        | false => exact absurd (nameLt_total y.1 e.1 (by simpa using hnlt) h) hney
      exact ⟨hlt, hs⟩

theorem sortEdits_sorted (l : List (Name × Option Oid)) (hn : (l.map (·.1)).Nodup) : SortedKeys (sortEdits l) := by
  induction l with
  | nil => simp [sortEdits, SortedKeys]
  | cons e es ih =>
    simp only [List.map_cons, List.nodup_cons] at hn
    simp only [sortEdits]
    apply insertSorted_sorted e _ (ih hn.2)
    intro x hx heq
    have hx' : x ∈ es := (sortEdits_mem es x).mp hx
    exact hn.1 (by rw [← heq]; exact List.mem_map_of_mem hx')

/-- lookups in an association list with distinct keys only depend on membership -/
theorem lookup_eq_some_of_mem {α : Type} (l : List (Name × α)) (hn : (l.map (·.1)).Nodup) (k : Name) (v : α)
    (h : (k, v) ∈ l) : lookup l k = some v := by
  induction l with
  | nil => cases h
  | cons kv rest ih =>
    obtain ⟨k', v'⟩ := kv
    simp only [List.map_cons, List.nodup_cons] at hn
    cases h with
    | head => simp [lookup]
    | tail _ hm =>
      have hne : k' ≠ k := by
        intro heq
        subst heq
        exact hn.1 (List.mem_map_of_mem (f := (·.1)) hm)
      simp only [lookup, hne, if_false]
      exact ih hn.2 hm

theorem mem_of_lookup_eq_some {α : Type} (l : List (Name × α)) (k : Name) (v : α)
    (h : lookup l k = some v) : (k, v) ∈ l := by
  induction l with
  | nil => simp [lookup] at h
  | cons kv rest ih =>
    obtain ⟨k', v'⟩ := kv
    simp only [lookup] at h
    split at h
    · rename_i heq
      injection h with h
      subst heq h
      exact List.mem_cons_self ..
    · exact List.mem_cons_of_mem _ (ih h)

theorem sorted_nodup {α : Type} (l : List (Name × α)) (hs : SortedKeys l) : (l.map (·.1)).Nodup := by
  induction l with
  | nil => simp
  | cons a rest ih =>
    simp only [List.map_cons, List.nodup_cons]
    refine ⟨?_, ih (sorted_tail a rest hs)⟩
    intro hmem
    obtain ⟨x, hx, hk⟩ := List.mem_map.mp hmem
    have := sorted_allAbove a rest hs x hx
    exact nameLt_ne _ _ this hk.symm

theorem sortEdits_lookup (l : List (Name × Option Oid)) (hn : (l.map (·.1)).Nodup) (n : Name) :
    lookup (sortEdits l) n = lookup l n := by
  have hs := sortEdits_sorted l hn
  have hn' := sorted_nodup _ hs
  cases h : lookup l n with
  | none =>
    cases h' : lookup (sortEdits l) n with
    | none => rfl
    | some v =>
      have hm := (sortEdits_mem l (n, v)).mp (mem_of_lookup_eq_some _ n v h')
      rw [lookup_eq_some_of_mem l hn n v hm] at h
      cases h
  | some v =>
    have hm := (sortEdits_mem l (n, v)).mpr (mem_of_lookup_eq_some _ n v h)
    exact lookup_eq_some_of_mem _ hn' n v hm

end GixModel.C17
