import GixModel.Model.C34
import GixModel.Spec.C34
/-
Helper lemmas for C34: unfolding of the shell word splitter, `single` yields one word, plain
words, the trimming used by the leading-dash check, provenance of the per-kind options,
`for_shell` only drops the slash in front of `~`.
-/
namespace GixModel.C34
open GixModel GixModel.Spec.C34

theorem shGo_q (b : UInt8) (rest : Bytes) (cur : Option Bytes) :
    shGo (b :: rest) cur true = if b == 39 then shGo rest cur false else shGo rest (push cur b) true := by
  rw [shGo]

theorem shGo_u (b : UInt8) (rest : Bytes) (cur : Option Bytes) :
    shGo (b :: rest) cur false =
      if b == 39 then shGo rest (openWord cur) true
      else if b == 92 then
        match rest with
        | [] => none
        | c :: rest' => if c == 10 then shGo rest' cur false else shGo rest' (push cur c) false
      else if b == 32 || b == 9 then emit cur (shGo rest none false)
      else if isPlain b then shGo rest (push cur b) false
      else none := by
  cases rest <;> rfl

theorem shGo_singleGo (v : Bytes) : ∀ w : Bytes, shGo (singleGo v) (some w) true = some [w ++ v] := by
  induction v with
  | nil => intro w; simp [singleGo, shGo_q, shGo, emit]
  | cons b rest ih =>
    intro w
    simp only [singleGo]
    by_cases hb : (b == 39 || b == 33) = true
    · simp only [hb, if_true]
      have hb10 : (b == 10) = false := by
        simp only [Bool.or_eq_true, beq_iff_eq] at hb
        cases hb with
        | inl e => subst e; decide
        | inr e => subst e; decide
      have h1 : ((92 : UInt8) == 39) = false := by decide
      have h2 : ((39 : UInt8) == 39) = true := by decide
      have h3 : ((92 : UInt8) == 92) = true := by decide
      simp only [List.cons_append, List.nil_append]
      rw [shGo_q, h2, if_pos rfl, shGo_u, h1, h3]
      simp only [Bool.false_eq_true, if_false, if_true, hb10]
      rw [shGo_u, h2, if_pos rfl]
      simp only [push, openWord]
      rw [ih]; simp
    · simp only [hb, Bool.false_eq_true, if_false]
      have h39 : (b == 39) = false := by
        simp only [Bool.or_eq_true, not_or, Bool.not_eq_true] at hb; exact hb.1
      rw [shGo_q, h39]
      simp only [Bool.false_eq_true, if_false, push]
      rw [ih]; simp

theorem single_one_word (v : Bytes) : shWords (single v) = some [v] := by
  have h2 : ((39 : UInt8) == 39) = true := by decide
  simp only [shWords, single]
  rw [shGo_u, h2, if_pos rfl]
  simp only [openWord]
  rw [shGo_singleGo]; simp

theorem shGo_plain (b : UInt8) (rest : Bytes) (cur : Option Bytes) (hp : isPlain b = true) :
    shGo (b :: rest) cur false = shGo rest (push cur b) false := by
  have h1 : (b == 39) = false := by
    cases h : b == 39 with
    | false => rfl
    | true => simp only [beq_iff_eq] at h; subst h; revert hp; decide
  have h2 : (b == 92) = false := by
    cases h : b == 92 with
    | false => rfl
    | true => simp only [beq_iff_eq] at h; subst h; revert hp; decide
  have h3 : (b == 32 || b == 9) = false := by
    cases h : (b == 32 || b == 9) with
    | false => rfl
    | true =>
      simp only [Bool.or_eq_true, beq_iff_eq] at h
      cases h with
      | inl e => subst e; revert hp; decide
      | inr e => subst e; revert hp; decide
  rw [shGo_u, h1, h2, h3, hp]; simp

theorem shGo_plain_word (w : Bytes) (hw : w.all isPlain = true) (rest : Bytes) (cur : Bytes) :
    shGo (w ++ rest) (some cur) false = shGo rest (some (cur ++ w)) false := by
  induction w generalizing cur with
  | nil => simp
  | cons b bs ih =>
    simp only [List.all_cons, Bool.and_eq_true] at hw
    rw [List.cons_append, shGo_plain b _ _ hw.1]
    simp only [push]
    rw [ih hw.2]; simp

theorem remote_command (svc p : Bytes) (hs : svc.all isPlain = true) (hne : svc ≠ []) :
    shWords (svc ++ [32] ++ single p) = some [svc, p] := by
  cases svc with
  | nil => exact absurd rfl hne
  | cons b bs =>
    simp only [List.all_cons, Bool.and_eq_true] at hs
    have h2 : ((39 : UInt8) == 39) = true := by decide
    have h32a : ((32 : UInt8) == 39) = false := by decide
    have h32b : ((32 : UInt8) == 92) = false := by decide
    simp only [shWords, List.cons_append, List.append_assoc]
    rw [shGo_plain b _ _ hs.1]
    simp only [push]
    rw [shGo_plain_word bs hs.2]
    simp only [List.cons_append, List.nil_append, single]
    rw [shGo_u, h32a, h32b]
    simp only [Bool.false_eq_true, if_false, beq_self_eq_true, Bool.true_or, if_true]
    rw [shGo_u, h2, if_pos rfl]
    simp only [openWord]
    rw [shGo_singleGo]; simp [emit]


theorem trimStart_dash (rest : Bytes) : trimStart (45 :: rest) = 45 :: rest := by
  unfold trimStart
  simp

theorem looksLike_of_dash (p : Bytes) (h : p.head? = some 45) : pathLooksLikeOption p = true := by
  cases p with
  | nil => simp at h
  | cons b rest =>
    simp only [List.head?_cons, Option.some.injEq] at h
    subst h
    simp [pathLooksLikeOption, trimStart_dash]

def notUrlText (a : Arg) : Bool := a.origin == .fixed || a.origin == .port

/-- the options a program kind puts in front of the host are never URL text -/
theorem kindOptions_ok {kind : Kind} {port : Option Nat} {v : Nat} {opts : List Arg}
    (h : kindOptions kind port v = .ok opts) : opts.all notUrlText = true := by
  cases kind <;> cases port <;> simp only [kindOptions] at h
  all_goals first
    | (injection h with h; subst h; by_cases hv : (v != 1) = true <;> simp [hv, notUrlText])
    | (injection h with h; subst h; simp [notUrlText])
    | (simp at h)
    | (split at h <;> first | (injection h with h; subst h; simp [notUrlText]) | simp at h)



/-- an argument is URL-derived text when it comes from the user/host or from the path -/
def urlDerived (a : Arg) : Bool := a.origin == .userHost || a.origin == .path

def startsWithDash (b : Bytes) : Bool := b.head? == some 45

theorem asArgument_usable {x : Option Bytes} {v : Bytes} (h : asArgument x = .usable v) :
    x = some v ∧ startsWithDash v = false := by
  cases x with
  | none => simp [asArgument] at h
  | some w =>
    simp only [asArgument] at h
    split at h
    · simp at h
    · rename_i hl
      simp only [Safety.usable.injEq] at h
      subst h
      exact ⟨rfl, by simpa [startsWithDash, looksLikeOption] using hl⟩

theorem userAtHost_no_dash (user host : Bytes) (h : startsWithDash user = false) :
    startsWithDash (user ++ [64] ++ host) = false := by
  cases user with
  | nil => simp [startsWithDash]
  | cons b bs => simpa [startsWithDash] using h

theorem prepareInvocation_args {kind : Kind} {u : Url} {v : Nat} {args : List Arg}
    (h : prepareInvocation kind u v = .ok args) :
    ∀ a ∈ args, notUrlText a = true ∨ (a.origin = .userHost ∧ startsWithDash a.bytes = false) := by
  simp only [prepareInvocation] at h
  cases hk : kindOptions kind u.port v with
  | err e => simp [hk] at h
  | panic => simp [hk] at h
  | ok opts =>
    have hopts := kindOptions_ok hk
    simp only [hk] at h
    have key : ∀ ub : Bytes, startsWithDash ub = false → args = opts ++ [⟨.userHost, ub⟩] →
        ∀ a ∈ args, notUrlText a = true ∨ (a.origin = .userHost ∧ startsWithDash a.bytes = false) := by
      intro ub hub e a ha
      subst e
      simp only [List.mem_append, List.mem_singleton] at ha
      cases ha with
      | inl h1 => exact Or.inl (List.all_eq_true.mp hopts a h1)
      | inr h1 => subst h1; exact Or.inr ⟨rfl, hub⟩
    cases hu : asArgument u.user with
    | absent =>
      cases hh : asArgument u.host with
      | absent => simp [hu, hh] at h
      | dangerous x => simp [hu, hh] at h
      | usable host =>
        simp only [hu, hh, Outcome.ok.injEq] at h
        exact key host (asArgument_usable hh).2 h.symm
    | dangerous x => simp [hu] at h
    | usable user =>
      have hud := (asArgument_usable hu).2
      cases hh : asArgument u.host with
      | absent => simp [hu, hh] at h
      | dangerous host =>
        simp only [hu, hh, Outcome.ok.injEq] at h
        exact key _ (userAtHost_no_dash user host hud) h.symm
      | usable host =>
        simp only [hu, hh, Outcome.ok.injEq] at h
        exact key _ (userAtHost_no_dash user host hud) h.symm

theorem single_no_dash (p : Bytes) : startsWithDash (single p) = false := by
  simp [startsWithDash, single]

theorem sshArgv_shape {kind : Kind} {u : Url} {v : Nat} {svc : Bytes} {args : List Arg}
    (h : sshArgv kind u v svc = .ok args) :
    ∃ pre, prepareInvocation kind u v = .ok pre ∧
      args = pre ++ [⟨.service, svc⟩, ⟨.path, single (forShell u.path)⟩] ∧
      pathLooksLikeOption (forShell u.path) = false := by
  simp only [sshArgv] at h
  split at h
  · simp at h
  · cases hp : prepareInvocation kind u v with
    | err e => simp [hp] at h
    | panic => simp [hp] at h
    | ok pre =>
      simp only [hp] at h
      split at h
      · simp at h
      · rename_i hl
        simp only [Outcome.ok.injEq] at h
        exact ⟨pre, rfl, h.symm, by simpa using hl⟩

theorem sshArgv_not_panic (kind : Kind) (u : Url) (v : Nat) (svc : Bytes) : sshArgv kind u v svc ≠ .panic := by
  simp only [sshArgv]
  split
  · simp
  · rename_i hc
    simp only [Bool.or_eq_true, Bool.not_eq_true', Option.isNone_iff_eq_none, not_or] at hc
    have hhost : u.host ≠ none := hc.2
    -- with a host present `prepare_invocation` cannot reach its `panic!`
    have hp : prepareInvocation kind u v ≠ .panic := by
      simp only [prepareInvocation]
      cases hk : kindOptions kind u.port v with
      | panic =>
        exfalso
        cases kind <;> cases hport : u.port <;> simp [kindOptions, hport] at hk
        all_goals (split at hk <;> simp at hk)
      | err e => simp
      | ok opts =>
        simp only
        cases hh : u.host with
        | none => exact absurd hh hhost
        | some host =>
          have hhs : asArgument (some host) ≠ .absent := by
            simp only [asArgument]; split <;> simp
          cases hu : asArgument u.user <;> cases hh2 : asArgument (some host) <;> simp_all
    cases hq : prepareInvocation kind u v with
    | panic => exact absurd hq hp
    | err e => simp
    | ok args => simp only; split <;> simp



theorem splitSlash_ne_nil (x : Bytes) : splitSlash x ≠ [] := by
  induction x with
  | nil => simp [splitSlash]
  | cons b rest ih =>
    simp only [splitSlash]
    split
    · simp
    · split <;> simp

theorem joinSlash_cons_cons (p q : Bytes) (ps : List Bytes) :
    joinSlash (p :: q :: ps) = p ++ [47] ++ joinSlash (q :: ps) := by
  simp [joinSlash]

/-- splitting at `/` and joining with `/` gives the bytes back -/
theorem joinSlash_splitSlash (x : Bytes) : joinSlash (splitSlash x) = x := by
  induction x with
  | nil => simp [splitSlash, joinSlash]
  | cons b rest ih =>
    simp only [splitSlash]
    by_cases hb : b == 47
    · simp only [hb, if_true]
      have hb' : b = 47 := by simpa using hb
      subst hb'
      cases hs : splitSlash rest with
      | nil => exact absurd hs (splitSlash_ne_nil rest)
      | cons p ps => rw [joinSlash_cons_cons, ← hs, ih]; simp
    · simp only [hb, Bool.false_eq_true, if_false]
      cases hs : splitSlash rest with
      | nil => exact absurd hs (splitSlash_ne_nil rest)
      | cons p ps =>
        simp only
        rw [hs] at ih
        cases ps with
        | nil => simp only [joinSlash] at ih ⊢; rw [ih]
        | cons q qs => rw [joinSlash_cons_cons] at ih ⊢; simp only [List.cons_append, List.append_assoc] at ih ⊢; rw [ih]

/-- the first piece has no `/`; there is exactly one piece iff there is no `/` at all -/
theorem splitSlash_single_iff (x : Bytes) : (∃ f, splitSlash x = [f]) ↔ x.contains 47 = false := by
  induction x with
  | nil => simp [splitSlash]
  | cons b rest ih =>
    simp only [splitSlash]
    by_cases hb : b == 47
    · have hb' : b = 47 := by simpa using hb
      subst hb'
      simp only [beq_self_eq_true, if_true]
      constructor
      · intro ⟨f, hf⟩
        simp only [List.cons.injEq] at hf
        exact absurd hf.2 (splitSlash_ne_nil rest)
      · intro h; simp at h
    · simp only [hb, Bool.false_eq_true, if_false]
      have hne : (b == 47) = false := by simpa using hb
      cases hs : splitSlash rest with
      | nil => exact absurd hs (splitSlash_ne_nil rest)
      | cons p ps =>
        simp only
        rw [hs] at ih
        constructor
        · intro ⟨f, hf⟩
          simp only [List.cons.injEq] at hf
          have : ∃ f, p :: ps = [f] := ⟨p, by rw [hf.2]⟩
          have := ih.mp this
          simp only [List.contains_cons, Bool.or_eq_false_iff]
          refine ⟨?_, this⟩
          cases h47 : (47 : UInt8) == b with
          | false => rfl
          | true => simp only [beq_iff_eq] at h47; subst h47; simp at hne
        · intro h
          simp only [List.contains_cons, Bool.or_eq_false_iff] at h
          obtain ⟨f, hf⟩ := ih.mpr h.2
          simp only [List.cons.injEq] at hf
          exact ⟨b :: p, by rw [hf.2]⟩

theorem splitSlash_head (x : Bytes) (first : Bytes) (more : List Bytes) (h : splitSlash x = first :: more) :
    first.head? = (match x with
      | [] => none
      | b :: _ => if b == 47 then none else some b) := by
  cases x with
  | nil => simp [splitSlash] at h; simp [← h.1]
  | cons b rest =>
    simp only [splitSlash] at h
    by_cases hb : b == 47
    · simp only [hb, if_true, List.cons.injEq] at h
      simp [hb, ← h.1]
    · simp only [hb, Bool.false_eq_true, if_false] at h
      cases hs : splitSlash rest with
      | nil => exact absurd hs (splitSlash_ne_nil rest)
      | cons p ps =>
        simp only [hs, List.cons.injEq] at h
        simp [hb, ← h.1]

/-- what git does (`if (path[1] == '~') path++`), plus the `/` gitoxide guarantees after `~user` -/
def forShellSpec (path : Bytes) : Bytes :=
  match path with
  | 47 :: 126 :: r => if (126 :: r).contains 47 then 126 :: r else (126 :: r) ++ [47]
  | _ => path

theorem forShell_eq_spec (path : Bytes) : forShell path = forShellSpec path := by
  cases path with
  | nil => rfl
  | cons a rest =>
    by_cases ha : a = 47
    · subst ha
      simp only [forShell]
      cases hs : splitSlash rest with
      | nil => exact absurd hs (splitSlash_ne_nil rest)
      | cons first more =>
        simp only
        have hh := splitSlash_head rest first more hs
        have hj := joinSlash_splitSlash rest
        rw [hs] at hj
        cases rest with
        | nil =>
          simp only at hh
          simp [hh, forShellSpec]
        | cons b r =>
          simp only at hh
          by_cases hb : b = 126
          · subst hb
            have : ((126 : UInt8) == 47) = false := by decide
            simp only [this, Bool.false_eq_true, if_false] at hh
            simp only [hh, beq_self_eq_true, if_true, forShellSpec]
            cases more with
            | nil =>
              have hc := (splitSlash_single_iff (126 :: r)).mp ⟨first, hs⟩
              simp only [joinSlash] at hj
              rw [hc]
              simp [joinSlash, hj]
            | cons q qs =>
              have hc : (126 :: r).contains 47 = true := by
                cases h : (126 :: r).contains 47 with
                | true => rfl
                | false =>
                  obtain ⟨f, hf⟩ := (splitSlash_single_iff (126 :: r)).mpr h
                  rw [hs] at hf; simp at hf
              rw [joinSlash_cons_cons] at hj
              simp only [hc, if_true]
              rw [← hj]
          · have hne : first.head? ≠ some 126 := by
              rw [hh]; split <;> simp; intro e; exact hb e
            have hne' : (first.head? == some 126) = false := by
              cases h : first.head? == some 126 with
              | false => rfl
              | true => simp only [beq_iff_eq] at h; exact absurd h hne
            simp only [hne', Bool.false_eq_true, if_false, forShellSpec]
            split
            · rename_i r' heq
              simp only [List.cons.injEq, true_and] at heq
              exact absurd heq.1 hb
            · rfl
    · simp only [forShell, forShellSpec]
      split
      · rename_i heq; simp only [List.cons.injEq] at heq; exact absurd heq.1 ha
      · split
        · rename_i heq; simp only [List.cons.injEq] at heq; exact absurd heq.1 ha
        · rfl


end GixModel.C34
