import GixModel.Spec.C09M
import GixModel.Lemmas.C14Round
import GixModel.Lemmas.C09V1
import GixModel.Lemmas.C09Midx
/-
C09 helper lemmas, part 15: the multi-pack-index file gitoxide writes, read back by `MidxFile.at`.
-/
namespace GixModel.C09M
open GixModel
open GixModel.C09 (be32 be64 readU32 readU64 slice Midx cmpBytes HIGH_BIT)
open GixModel.C14 (tocBytes layout layoutInit layout_eq layoutInit_length layoutInit_mem layout_sorted
  layoutInit_distinct KindsOk tocBytes_length tocLoop_entries tocParse EntriesOk totalLen chunksOf Chunk
  chunkBytes findChunk Describes chunks_payload chunksOf_getLast layout_all4 optChunk tocBytes_cons)

/-- `tocParse_write` for a header of any length `H` -/
theorem tocParse_writeH (H : Nat) (hdr : Bytes) (cs : List (Bytes × Bytes)) (tr : Bytes) (hh : hdr.length = H)
    (hk : KindsOk cs) (hne : cs ≠ [])
    (hsmall : (hdr ++ (tocBytes (layout cs (H + 12 * (cs.length + 1))) ++ ((cs.map (·.2)).flatten ++ tr))).length
      < 18446744073709551616) :
    tocParse (hdr ++ (tocBytes (layout cs (H + 12 * (cs.length + 1))) ++ ((cs.map (·.2)).flatten ++ tr))) H cs.length
      = some (.ok (chunksOf (layout cs (H + 12 * (cs.length + 1))))) := by
  have hlay := layout_eq cs (H + 12 * (cs.length + 1))
  have hinit4 : ∀ e ∈ layoutInit cs (H + 12 * (cs.length + 1)), e.1.length = 4 := by
    intro e he
    obtain ⟨⟨c, hc, hkk⟩, _, _⟩ := layoutInit_mem cs _ e he
    rw [← hkk]; exact hk.len4 c hc
  have htoclen : (tocBytes (layout cs (H + 12 * (cs.length + 1)))).length = 12 * (cs.length + 1) := by
    rw [tocBytes_length _ (layout_all4 hk _), hlay]; simp [layoutInit_length]
  have hdlen : (hdr ++ (tocBytes (layout cs (H + 12 * (cs.length + 1))) ++ ((cs.map (·.2)).flatten ++ tr))).length
      = H + 12 * (cs.length + 1) + totalLen cs + tr.length := by
    simp only [List.length_append, hh, htoclen, totalLen]; omega
  have hdrop : (hdr ++ (tocBytes (layout cs (H + 12 * (cs.length + 1))) ++ ((cs.map (·.2)).flatten ++ tr))).drop H
      = tocBytes (layout cs (H + 12 * (cs.length + 1))) ++ ((cs.map (·.2)).flatten ++ tr) := List.drop_left' hh
  have hn0 : ¬ cs.length = 0 := by
    intro h; exact hne (List.length_eq_zero_iff.mp h)
  have hentries : EntriesOk (hdr ++ (tocBytes (layout cs (H + 12 * (cs.length + 1))) ++ ((cs.map (·.2)).flatten ++ tr))).length []
      (layoutInit cs (H + 12 * (cs.length + 1))) ([0, 0, 0, 0], H + 12 * (cs.length + 1) + totalLen cs) :=
    { len4 := hinit4
      last4 := rfl
      nonzero := by
        intro e he
        obtain ⟨⟨c, hc, hkk⟩, _, _⟩ := layoutInit_mem cs _ e he
        rw [← hkk]; exact hk.nonzero c hc
      fresh := by intro e _ c hc; simp at hc
      distinct := layoutInit_distinct cs _ hk.distinct
      sorted := layout_sorted cs _
      inFile := by
        intro e he
        rcases List.mem_append.mp he with he | he
        · have := (layoutInit_mem cs _ e he).2.2; rw [hdlen]; omega
        · simp only [List.mem_singleton] at he; subst he; rw [hdlen]; simp only []; omega
      small := hsmall }
  have hloop := tocLoop_entries (hdr ++ (tocBytes (layout cs (H + 12 * (cs.length + 1))) ++ ((cs.map (·.2)).flatten ++ tr))).length
    (layoutInit cs (H + 12 * (cs.length + 1))) ([0, 0, 0, 0], H + 12 * (cs.length + 1) + totalLen cs) []
    ((cs.map (·.2)).flatten ++ tr) hentries
  rw [layoutInit_length, ← hlay, List.nil_append] at hloop
  unfold tocParse
  rw [if_neg hn0, if_neg (by rw [hdlen]; omega)]
  simp only [hdrop]
  rw [if_neg (by simp only [List.length_append, htoclen]; omega), hloop]
  simp only []
  have hs : slice (tocBytes [([0, 0, 0, 0], H + 12 * (cs.length + 1) + totalLen cs)] ++ ((cs.map (·.2)).flatten ++ tr)) 0 4
      = some [0, 0, 0, 0] := by
    rw [tocBytes_cons]
    simp only [List.append_assoc]
    rw [C09.slice_in _ _ _ (by simp)]
    rfl
  rw [hs]
  simp

/-- a field inside a chunk whose bytes are known -/
theorem chunk_slice {data payload : Bytes} {c : Chunk} (h : chunkBytes data c = some payload)
    (a b : Nat) (hab : a + b ≤ payload.length) :
    slice data (c.start + a) b = some ((payload.drop a).take b) := by
  unfold chunkBytes at h
  by_cases hc : c.start ≤ c.stop ∧ c.stop ≤ data.length
  · rw [if_pos hc] at h
    injection h with h
    have hpl : payload.length = c.stop - c.start := by
      rw [← h]; simp only [List.length_take, List.length_drop]; omega
    rw [C09.slice_in _ _ _ (by omega)]
    congr 1
    rw [← h, ← List.drop_drop, List.drop_take, List.take_take, Nat.min_eq_left (by omega)]
  · rw [if_neg hc] at h; cases h

theorem chunk_start_le {data payload : Bytes} {c : Chunk} (h : chunkBytes data c = some payload) :
    c.start ≤ c.stop := by
  unfold chunkBytes at h
  by_cases hc : c.start ≤ c.stop ∧ c.stop ≤ data.length
  · exact hc.1
  · rw [if_neg hc] at h; cases h

/-! ### the index names -/

theorem findNul_append : ∀ (n rest : Bytes) (i : Nat), (∀ b ∈ n, b ≠ 0) → findNul (n ++ 0 :: rest) i = some (i + n.length) := by
  intro n
  induction n with
  | nil => intro rest i _; simp [findNul]
  | cons b t ih =>
    intro rest i h
    have hb : ¬ (b = 0) := h b (by simp)
    simp only [List.cons_append, findNul, hb, if_false]
    rw [ih rest (i + 1) (fun x hx => h x (by simp [hx]))]
    simp only [List.length_cons]; congr 1; omega

/-- names as `write_from_index_paths` has them: without NUL bytes, strictly ascending -/
structure NamesOk (names : List Bytes) : Prop where
  noNul : ∀ n ∈ names, ∀ b ∈ n, b ≠ 0
  sorted : names.Pairwise (fun a b => cmpBytes a b = .lt)

theorem namesLoop_spec : ∀ (names : List Bytes) (out : List Bytes) (pad : Bytes),
    (∀ n ∈ names, ∀ b ∈ n, b ≠ 0) → names.Pairwise (fun a b => cmpBytes a b = .lt) →
    (∀ prev, out.getLast? = some prev → ∀ n ∈ names, cmpBytes prev n = .lt) →
    namesLoop names.length (names.flatMap (fun n => n ++ [0]) ++ pad) out = some (out ++ names, pad) := by
  intro names
  induction names with
  | nil => intro out pad _ _ _; simp [namesLoop]
  | cons n rest ih =>
    intro out pad hz hs hprev
    have hs' := List.pairwise_cons.mp hs
    have hshape : (n :: rest).flatMap (fun n => n ++ [0]) ++ pad = n ++ 0 :: (rest.flatMap (fun n => n ++ [0]) ++ pad) := by
      simp [List.append_assoc]
    have hfind := findNul_append n (rest.flatMap (fun n => n ++ [0]) ++ pad) 0 (hz n (by simp))
    simp only [Nat.zero_add] at hfind
    have htake : (n ++ 0 :: (rest.flatMap (fun n => n ++ [0]) ++ pad)).take n.length = n := List.take_left
    have hdrop : (n ++ 0 :: (rest.flatMap (fun n => n ++ [0]) ++ pad)).drop (n.length + 1) = rest.flatMap (fun n => n ++ [0]) ++ pad := by
      rw [← List.drop_drop, List.drop_left]; rfl
    have hrec := ih (out ++ [n]) pad (fun x hx => hz x (by simp [hx])) hs'.2
      (by intro prev hl x hx; simp at hl; subst hl; exact hs'.1 x hx)
    simp only [List.length_cons]
    rw [hshape]
    unfold namesLoop
    simp only [hfind, htake, hdrop]
    cases hl : out.getLast? with
    | none => simp only [if_true, hrec]; simp
    | some prev =>
      have hc := hprev prev hl n (by simp)
      simp only [hc, beq_self_eq_true, if_true, hrec]; simp

theorem parseNames_payload (names : List Bytes) (h : NamesOk names) :
    parseNames (namesPayload names) names.length = some names := by
  unfold parseNames namesPayload
  simp only []
  rw [namesLoop_spec names [] _ h.noNul h.sorted (by intro prev hl; simp at hl)]
  simp

/-! ### opening the written file -/

structure MEncodable (names : List Bytes) (x : Midx) : Prop where
  namesOk : NamesOk names
  namesCount : names.length < 4294967296
  fanLen : x.fan.length = 256
  fanU32 : ∀ v ∈ x.fan, v < 4294967296
  fanMono : C14.fanMonotone x.fan = true
  fanLast : x.fan[255]? = some x.ids.length
  ids20 : ∀ a ∈ x.ids, a.length = 20
  packLen : x.packIds.length = x.ids.length
  packU32 : ∀ v ∈ x.packIds, v < 4294967296
  ofsLen : x.ofs32.length = x.ids.length
  ofsU32 : ∀ v ∈ x.ofs32, v < 4294967296
  largeU64 : ∀ l, x.large = some l → ∀ v ∈ l, v < 18446744073709551616

theorem mChunks_kinds (names : List Bytes) (x : Midx) : KindsOk (mChunks names x) ∧ (mChunks names x).length ≤ 5 := by
  unfold mChunks
  cases x.large <;> refine ⟨⟨?_, ?_, ?_⟩, ?_⟩ <;> simp [optChunk, PNAM, OIDF, OIDL, OOFF, LOFF]

theorem ooff_records8 (x : Midx) : ∀ a ∈ (x.packIds.zip x.ofs32).map (fun p => be32 p.1 ++ be32 p.2), a.length = 8 := by
  intro a ha
  obtain ⟨p, _, rfl⟩ := List.mem_map.mp ha
  simp [C09.be32_length]

theorem ooff_length (x : Midx) (h1 : x.packIds.length = x.ids.length) (h2 : x.ofs32.length = x.ids.length) :
    (ooffPayload x).length = x.ids.length * 8 := by
  unfold ooffPayload
  rw [C09.flatten_length_fixed _ (ooff_records8 x)]
  simp [h1, h2]

/-- what the opened file is, in terms of the chunks it points into -/
theorem MidxFile.at_mWrite (names : List Bytes) (x : Midx) (tr : Bytes) (h : MEncodable names x)
    (htr : tr.length = 20) (hsz : (mWrite names x tr).length < 18446744073709551616) :
    ∃ f ol oo, MidxFile.at (mWrite names x tr) = some (.ok f) ∧ f.data = mWrite names x tr ∧ f.fan = x.fan ∧
      f.numObjects = x.ids.length ∧ f.names = names ∧ f.numIndices = names.length ∧
      f.lookupOfs = ol.start ∧ chunkBytes (mWrite names x tr) ol = some x.ids.flatten ∧
      f.offsetsOfs = oo.start ∧ chunkBytes (mWrite names x tr) oo = some (ooffPayload x) ∧
      (x.large = none → f.largeOfs = none) ∧
      (∀ l, x.large = some l → ∃ lo, f.largeOfs = some lo.start ∧ chunkBytes (mWrite names x tr) lo = some (l.flatMap be64)) := by
  obtain ⟨cs, hcs⟩ : ∃ cs, cs = mChunks names x := ⟨_, rfl⟩
  obtain ⟨hdr, hhdr⟩ : ∃ hdr, hdr = mHeader names x := ⟨_, rfl⟩
  have hdata : mWrite names x tr = hdr ++ (tocBytes (layout cs (12 + 12 * (cs.length + 1))) ++ ((cs.map (·.2)).flatten ++ tr)) := by
    rw [hhdr, hcs]; rfl
  obtain ⟨hk, hlen5⟩ := mChunks_kinds names x
  rw [← hcs] at hk hlen5
  have hshape : cs = (PNAM, namesPayload names) :: (OIDF, x.fan.flatMap be32) :: (OIDL, x.ids.flatten)
      :: (OOFF, ooffPayload x) :: optChunk LOFF (x.large.map (fun l => l.flatMap be64)) := by
    rw [hcs]; simp [mChunks]
  have hlen4 : 4 ≤ cs.length := by rw [hshape]; simp
  have hne : cs ≠ [] := by intro hh; rw [hh] at hlen4; simp at hlen4
  have hhl : hdr.length = 12 := by rw [hhdr]; simp [mHeader, C09.be32_length]
  rw [hdata] at hsz ⊢
  have hparse := tocParse_writeH 12 hdr cs tr hhl hk hne hsz
  have htoclen : (tocBytes (layout cs (12 + 12 * (cs.length + 1)))).length = 12 * (cs.length + 1) := by
    rw [tocBytes_length _ (layout_all4 hk _), layout_eq]; simp [layoutInit_length]
  have hprelen : (hdr ++ tocBytes (layout cs (12 + 12 * (cs.length + 1)))).length = 12 + 12 * (cs.length + 1) := by
    simp only [List.length_append, hhl, htoclen]
  have hdesc : Describes (hdr ++ (tocBytes (layout cs (12 + 12 * (cs.length + 1))) ++ ((cs.map (·.2)).flatten ++ tr)))
      (chunksOf (layout cs (12 + 12 * (cs.length + 1)))) cs := by
    have := chunks_payload cs (hdr ++ tocBytes (layout cs (12 + 12 * (cs.length + 1)))) tr
    rw [hprelen] at this
    simp only [Describes]
    rw [← List.append_assoc]
    exact this
  have hdlen : (hdr ++ (tocBytes (layout cs (12 + 12 * (cs.length + 1))) ++ ((cs.map (·.2)).flatten ++ tr))).length
      = 12 + 12 * (cs.length + 1) + totalLen cs + 20 := by
    simp only [List.length_append, hhl, htoclen, totalLen, htr]; omega
  have htotal : 1024 ≤ totalLen cs := by
    rw [hshape, C14.totalLen_cons, C14.totalLen_cons, C09.flatMap_be32_length, h.fanLen]; omega
  -- the chunks
  have hc0 : cs[0]'(by omega) = (PNAM, namesPayload names) := by simp only [hshape, List.getElem_cons_zero]
  have hc1 : cs[1]'(by omega) = (OIDF, x.fan.flatMap be32) := by simp only [hshape, List.getElem_cons_succ, List.getElem_cons_zero]
  have hc2 : cs[2]'(by omega) = (OIDL, x.ids.flatten) := by simp only [hshape, List.getElem_cons_succ, List.getElem_cons_zero]
  have hc3 : cs[3]'(by omega) = (OOFF, ooffPayload x) := by simp only [hshape, List.getElem_cons_succ, List.getElem_cons_zero]
  obtain ⟨pn, hpn1, _, _, hpn4⟩ := hdesc.find_at hk.distinct 0 (by omega)
  obtain ⟨fo, hfo1, _, hfo3, hfo4⟩ := hdesc.find_at hk.distinct 1 (by omega)
  obtain ⟨ol, hol1, _, hol3, hol4⟩ := hdesc.find_at hk.distinct 2 (by omega)
  obtain ⟨oo, hoo1, _, hoo3, hoo4⟩ := hdesc.find_at hk.distinct 3 (by omega)
  rw [hc0] at hpn1 hpn4
  rw [hc1] at hfo1 hfo3 hfo4
  rw [hc2] at hol1 hol3 hol4
  rw [hc3] at hoo1 hoo3 hoo4
  simp only [C09.flatMap_be32_length, h.fanLen] at hfo3
  simp only [C09.flatten_length_fixed _ h.ids20] at hol3
  simp only [ooff_length x h.packLen h.ofsLen] at hoo3
  obtain ⟨lastc, hlast, hlaststop⟩ := chunksOf_getLast (layoutInit cs (12 + 12 * (cs.length + 1)))
    ([0, 0, 0, 0], 12 + 12 * (cs.length + 1) + totalLen cs)
    (by intro hh; have := layoutInit_length cs (12 + 12 * (cs.length + 1)); rw [hh] at this; simp at this; omega)
  rw [← layout_eq] at hlast
  simp only at hlaststop
  -- the fan-out table
  have hfanread : C09.readFan 256 ((hdr ++ (tocBytes (layout cs (12 + 12 * (cs.length + 1))) ++ ((cs.map (·.2)).flatten ++ tr))).drop fo.start)
      = some x.fan := by
    have hcb := hfo4
    unfold chunkBytes at hcb
    by_cases hc : fo.start ≤ fo.stop ∧ fo.stop ≤ (hdr ++ (tocBytes (layout cs (12 + 12 * (cs.length + 1))) ++ ((cs.map (·.2)).flatten ++ tr))).length
    · rw [if_pos hc] at hcb
      injection hcb with hcb
      rw [hfo3] at hcb
      have := C14.readFan_of_take x.fan _ h.fanU32 (by rw [h.fanLen]; exact hcb)
      rw [h.fanLen] at this; exact this
    · rw [if_neg hc] at hcb; cases hcb
  -- the optional large offsets chunk
  have hlarge : ∃ large : Option Nat,
      ((findChunk (chunksOf (layout cs (12 + 12 * (cs.length + 1)))) LOFF = none ∧ large = none) ∨
        ∃ lo, findChunk (chunksOf (layout cs (12 + 12 * (cs.length + 1)))) LOFF = some lo ∧ large = some lo.start ∧
          (lo.stop - lo.start) % 8 = 0) ∧
      (x.large = none → large = none) ∧
      (∀ l, x.large = some l → ∃ lo, large = some lo.start ∧
        chunkBytes (hdr ++ (tocBytes (layout cs (12 + 12 * (cs.length + 1))) ++ ((cs.map (·.2)).flatten ++ tr))) lo = some (l.flatMap be64)) := by
    cases hl : x.large with
    | none =>
      have hnone : findChunk (chunksOf (layout cs (12 + 12 * (cs.length + 1)))) LOFF = none := by
        apply hdesc.find_none
        intro c hc
        rw [hshape, hl] at hc
        simp [optChunk] at hc
        rcases hc with hh | hh | hh | hh <;> rw [hh] <;> simp [PNAM, OIDF, OIDL, OOFF, LOFF]
      refine ⟨none, Or.inl ⟨hnone, rfl⟩, fun _ => rfl, ?_⟩
      intro l hh; cases hh
    | some l =>
      have hi4 : 4 < cs.length := by rw [hshape, hl]; simp [optChunk]
      have hc4 : cs[4] = (LOFF, l.flatMap be64) := by
        simp only [hshape, hl, Option.map_some, optChunk, List.getElem_cons_succ, List.getElem_cons_zero]
      obtain ⟨lo, hlo1, _, hlo3, hlo4⟩ := hdesc.find_at hk.distinct 4 hi4
      rw [hc4] at hlo1 hlo3 hlo4
      simp only [C09.flatMap_be64_length] at hlo3
      refine ⟨some lo.start, Or.inr ⟨lo, hlo1, rfl, by omega⟩, ?_, ?_⟩
      · intro hh; cases hh
      · intro l' hh; injection hh with hh; subst hh; exact ⟨lo, rfl, hlo4⟩
  obtain ⟨large, hlarge1, hlarge2, hlarge3⟩ := hlarge
  -- assemble
  refine ⟨{ data := hdr ++ (tocBytes (layout cs (12 + 12 * (cs.length + 1))) ++ ((cs.map (·.2)).flatten ++ tr)),
            fan := x.fan, numObjects := x.ids.length, numIndices := names.length, names := names,
            lookupOfs := ol.start, offsetsOfs := oo.start, largeOfs := large },
    ol, oo, ?_, rfl, rfl, rfl, rfl, rfl, rfl, hol4, rfl, hoo4, hlarge2, hlarge3⟩
  have hlen_ok : ¬ (hdr ++ (tocBytes (layout cs (12 + 12 * (cs.length + 1))) ++ ((cs.map (·.2)).flatten ++ tr))).length < 12 + 5 * 12 + 1024 + 20 := by
    rw [hdlen]; omega
  have hhdr' : hdr = [77, 73, 68, 88, 1, 1, UInt8.ofNat cs.length, 0] ++ be32 names.length := by rw [hhdr, hcs]; rfl
  have htake : (hdr ++ (tocBytes (layout cs (12 + 12 * (cs.length + 1))) ++ ((cs.map (·.2)).flatten ++ tr))).take 4 = [77, 73, 68, 88] := by
    rw [hhdr']; rfl
  have hg4 : (hdr ++ (tocBytes (layout cs (12 + 12 * (cs.length + 1))) ++ ((cs.map (·.2)).flatten ++ tr)))[4]? = some 1 := by rw [hhdr']; rfl
  have hg5 : (hdr ++ (tocBytes (layout cs (12 + 12 * (cs.length + 1))) ++ ((cs.map (·.2)).flatten ++ tr)))[5]? = some 1 := by rw [hhdr']; rfl
  have hg6 : (hdr ++ (tocBytes (layout cs (12 + 12 * (cs.length + 1))) ++ ((cs.map (·.2)).flatten ++ tr)))[6]? = some (UInt8.ofNat cs.length) := by
    rw [hhdr']; rfl
  have hni : (slice (hdr ++ (tocBytes (layout cs (12 + 12 * (cs.length + 1))) ++ ((cs.map (·.2)).flatten ++ tr))) 8 4).bind readU32 = some names.length := by
    rw [hhdr']
    have e : (8 : Nat) = ([77, 73, 68, 88, 1, 1, UInt8.ofNat cs.length, 0] : Bytes).length + 0 := rfl
    rw [List.append_assoc, e, C09.slice_peel, C09.slice_in _ _ _ (by simp [C09.be32_length])]
    simp only [List.drop_zero]
    rw [List.take_left' (C09.be32_length _), Option.bind_some, C09.readU32_be32 h.namesCount]
  have hcc : (UInt8.ofNat cs.length).toNat = cs.length := by rw [UInt8.toNat_ofNat']; exact Nat.mod_eq_of_lt (by omega)
  have hoosz : ¬ (if x.ids.length = 0 then oo.stop ≠ oo.start else (oo.stop - oo.start) / x.ids.length ≠ 8) := by
    by_cases hn0 : x.ids.length = 0
    · rw [if_pos hn0]
      have := chunk_start_le hoo4
      rw [hn0] at hoo3; omega
    · rw [if_neg hn0, hoo3, Nat.mul_div_cancel_left 8 (by omega)]; simp
  unfold MidxFile.at
  rw [if_neg hlen_ok, htake, if_neg (by simp)]
  simp only [hg4, hg5, hg6, hni]
  rw [if_neg (by decide), if_neg (by decide), hcc, hparse]
  simp only [MidxFile.fromChunks, hpn1, hpn4, parseNames_payload names h.namesOk, hfo1]
  rw [if_neg (by omega)]
  simp only [hfanread]
  rw [if_neg (by rw [h.fanMono]; decide)]
  simp only [h.fanLast, hol1]
  rw [if_neg (by rw [hol3]; omega)]
  simp only [hoo1]
  rw [if_neg hoosz]
  rcases hlarge1 with ⟨hf, hlg⟩ | ⟨lo, hf, hlg, hm8⟩
  · simp only [hf, hlast]
    rw [if_neg (by rw [hlaststop, hdlen]; omega), if_neg (by rw [hlaststop, hdlen]; omega), hlg]
  · simp only [hf]
    rw [if_neg (by omega)]
    simp only [hlast]
    rw [if_neg (by rw [hlaststop, hdlen]; omega), if_neg (by rw [hlaststop, hdlen]; omega), hlg]

/-- a field of the `i`-th fixed-width record of a chunk -/
theorem chunk_record_field {data : Bytes} {c : Chunk} {w : Nat} (xss : List Bytes) (hw : ∀ a ∈ xss, a.length = w)
    (h : chunkBytes data c = some xss.flatten) (i : Nat) (hi : i < xss.length) (a b : Nat) (hab : a + b ≤ w) :
    slice data (c.start + (i * w + a)) b = some ((xss[i].drop a).take b) := by
  have hlen := C09.flatten_length_fixed xss hw
  have hmul : (i + 1) * w ≤ xss.length * w := Nat.mul_le_mul_right w hi
  rw [chunk_slice h (i * w + a) b (by rw [hlen, Nat.add_mul] at *; omega)]
  have h1 := C09.slice_in_record xss hw i hi [] a b hab
  rw [List.append_nil, C09.slice_in _ _ _ (by rw [hlen, Nat.add_mul] at *; omega)] at h1
  exact h1

/-- The accessors on the written file give back the tables. -/
theorem mWrite_accessors (names : List Bytes) (x : Midx) (tr : Bytes) (h : MEncodable names x)
    (htr : tr.length = 20) (hsz : (mWrite names x tr).length < 18446744073709551616) :
    ∃ f, MidxFile.at (mWrite names x tr) = some (.ok f) ∧ f.fan = x.fan ∧ f.numObjects = x.ids.length ∧
      f.names = names ∧ f.numIndices = names.length ∧
      (∀ i (hi : i < x.ids.length), f.oidAt i = some x.ids[i]) ∧
      (∀ i r, x.packAndOffsetAt i = some r → f.packAndOffsetAt i = some r) := by
  obtain ⟨f, ol, oo, hat, hd, hfan, hn, hnames, hni, hlo, holb, hoo, hoob, hl1, hl2⟩ := MidxFile.at_mWrite names x tr h htr hsz
  refine ⟨f, hat, hfan, hn, hnames, hni, ?_, ?_⟩
  · intro i hi
    have := chunk_record_field (w := 20) x.ids h.ids20 holb i hi 0 20 (by omega)
    simp only [Nat.add_zero, List.drop_zero] at this
    simp only [MidxFile.oidAt, hn, hi, if_true, hd, hlo, this]
    rw [← h.ids20 _ (List.getElem_mem hi), List.take_length]
  · intro i r hr
    -- unfold the mid-level read
    have hr' : (x.packIds[i]?).bind (fun pk => (x.ofs32[i]?).bind (fun v =>
        if v &&& HIGH_BIT = HIGH_BIT then
          (match x.large with
           | some l => (l[v ^^^ HIGH_BIT]?).bind (fun o => some (pk, o))
           | none => some (pk, v))
        else some (pk, v))) = some r := hr
    cases hpk : x.packIds[i]? with
    | none => rw [hpk] at hr'; cases hr'
    | some pk =>
      rw [hpk, Option.bind_some] at hr'
      cases hv : x.ofs32[i]? with
      | none => rw [hv] at hr'; cases hr'
      | some v =>
        rw [hv, Option.bind_some] at hr'
        have hi1 : i < x.packIds.length := by
          rcases Nat.lt_or_ge i x.packIds.length with hh | hh
          · exact hh
          · rw [List.getElem?_eq_none hh] at hpk; cases hpk
        have hi2 : i < x.ofs32.length := by rw [h.ofsLen, ← h.packLen]; exact hi1
        have hpk' : x.packIds[i] = pk := by rw [List.getElem?_eq_getElem hi1] at hpk; injection hpk
        have hv' : x.ofs32[i] = v := by rw [List.getElem?_eq_getElem hi2] at hv; injection hv
        have hpkb : pk < 4294967296 := by rw [← hpk']; exact h.packU32 _ (List.getElem_mem hi1)
        have hvb : v < 4294967296 := by rw [← hv']; exact h.ofsU32 _ (List.getElem_mem hi2)
        have hiz : i < ((x.packIds.zip x.ofs32).map (fun p => be32 p.1 ++ be32 p.2)).length := by
          simp [h.ofsLen, ← h.packLen]; exact hi1
        have hrec : ((x.packIds.zip x.ofs32).map (fun p => be32 p.1 ++ be32 p.2))[i] = be32 pk ++ be32 v := by
          simp only [List.getElem_map, List.getElem_zip, hpk', hv']
        have hoob' : chunkBytes f.data oo = some ((x.packIds.zip x.ofs32).map (fun p => be32 p.1 ++ be32 p.2)).flatten := by
          rw [hd]; exact hoob
        have s1 := chunk_record_field (w := 8) _ (ooff_records8 x) hoob' i hiz 0 4 (by omega)
        have s2 := chunk_record_field (w := 8) _ (ooff_records8 x) hoob' i hiz 4 4 (by omega)
        rw [hrec] at s1 s2
        simp only [Nat.add_zero, List.drop_zero] at s1
        rw [List.take_left' (C09.be32_length _)] at s1
        rw [List.drop_left' (C09.be32_length _), List.take_of_length_le (by simp [C09.be32_length])] at s2
        have e1 : (slice f.data (f.offsetsOfs + i * 8) 4).bind readU32 = some pk := by
          rw [hoo, s1, Option.bind_some, C09.readU32_be32 hpkb]
        have e2 : (slice f.data (f.offsetsOfs + i * 8 + 4) 4).bind readU32 = some v := by
          rw [hoo, Nat.add_assoc, s2, Option.bind_some, C09.readU32_be32 hvb]
        unfold MidxFile.packAndOffsetAt
        rw [e1, e2]
        simp only []
        by_cases hb : v &&& HIGH_BIT = HIGH_BIT
        · rw [if_pos hb] at hr' ⊢
          cases hlg : x.large with
          | none =>
            rw [hlg] at hr'
            rw [hl1 hlg]
            exact hr'
          | some l =>
            rw [hlg] at hr'
            simp only [] at hr'
            obtain ⟨lo, hlo1, hlo2⟩ := hl2 l hlg
            rw [hlo1]
            simp only []
            cases hk : l[v ^^^ HIGH_BIT]? with
            | none => rw [hk] at hr'; cases hr'
            | some o =>
              rw [hk, Option.bind_some] at hr'
              have hkl : v ^^^ HIGH_BIT < l.length := by
                rcases Nat.lt_or_ge (v ^^^ HIGH_BIT) l.length with hh | hh
                · exact hh
                · rw [List.getElem?_eq_none hh] at hk; cases hk
              have hko : l[v ^^^ HIGH_BIT] = o := by rw [List.getElem?_eq_getElem hkl] at hk; injection hk
              have hlo2' : chunkBytes f.data lo = some (l.map be64).flatten := by
                rw [hd, ← List.flatMap_def]; exact hlo2
              have s3 := chunk_record_field (w := 8) (l.map be64)
                (by intro a ha; obtain ⟨q, _, rfl⟩ := List.mem_map.mp ha; rfl) hlo2' (v ^^^ HIGH_BIT) (by simpa using hkl) 0 8 (by omega)
              simp only [Nat.add_zero, List.drop_zero, List.getElem_map, hko] at s3
              rw [List.take_of_length_le (by simp [C09.be64_length])] at s3
              rw [s3, Option.bind_some, C09.readU64_be64 (by rw [← hko]; exact h.largeU64 l hlg _ (List.getElem_mem hkl))]
              exact hr'
        · rw [if_neg hb] at hr' ⊢
          exact hr'

/-! ### the tables `midxBuild` computes can be written -/

theorem midxOffsets_u32 : ∀ (large : Bool) (es : List C09.MEntry) (nl : Nat) (o32 : List Nat),
    C09.midxOffsets large es nl = some o32 → nl + es.length < 2147483648 →
    o32.length = es.length ∧ ∀ v ∈ o32, v < 4294967296 := by
  intro large es
  induction es with
  | nil => intro nl o32 h _; simp [C09.midxOffsets] at h; subst h; simp
  | cons e rest ih =>
    intro nl o32 h hn
    simp only [List.length_cons] at hn
    unfold C09.midxOffsets at h
    cases large with
    | true =>
      simp only [if_true] at h
      by_cases ho : e.offset > C09.LARGE_OFFSET_THRESHOLD
      · rw [if_pos ho] at h
        have hmod : (nl + 1) % C09.U32 = nl + 1 := Nat.mod_eq_of_lt (by simp only [C09.U32]; omega)
        rw [hmod] at h
        cases hr : C09.midxOffsets true rest (nl + 1) with
        | none => rw [hr] at h; cases h
        | some r =>
          rw [hr] at h; simp only [Option.map_some, Option.some.injEq] at h; subst h
          obtain ⟨h1, h2⟩ := ih (nl + 1) r hr (by omega)
          refine ⟨by simp [h1], ?_⟩
          intro v hv
          rcases List.mem_cons.mp hv with rfl | hv
          · rw [C09.or_high (by omega)]; omega
          · exact h2 v hv
      · rw [if_neg ho] at h
        cases hr : C09.midxOffsets true rest nl with
        | none => rw [hr] at h; cases h
        | some r =>
          rw [hr] at h; simp only [Option.map_some, Option.some.injEq] at h; subst h
          obtain ⟨h1, h2⟩ := ih nl r hr (by omega)
          refine ⟨by simp [h1], ?_⟩
          intro v hv
          rcases List.mem_cons.mp hv with rfl | hv
          · exact Nat.mod_lt _ (by decide)
          · exact h2 v hv
    | false =>
      simp only [Bool.false_eq_true, if_false] at h
      by_cases ho : e.offset < C09.U32
      · rw [if_pos ho] at h
        cases hr : C09.midxOffsets false rest nl with
        | none => rw [hr] at h; cases h
        | some r =>
          rw [hr] at h; simp only [Option.map_some, Option.some.injEq] at h; subst h
          obtain ⟨h1, h2⟩ := ih nl r hr (by omega)
          refine ⟨by simp [h1], ?_⟩
          intro v hv
          rcases List.mem_cons.mp hv with rfl | hv
          · simpa [C09.U32] using ho
          · exact h2 v hv
      · rw [if_neg ho] at h; cases h

/-- what `midxBuild` returns, table by table -/
theorem midxBuild_inv (packs : List C09.PackIn) (x : Midx) (h : C09.midxBuild packs = some x) :
    x.ids = (C09.midxEntries packs).map (·.id) ∧ x.packIds = (C09.midxEntries packs).map (·.pack) ∧
    C09.midxOffsets (C09.numLargeOffsets (C09.midxEntries packs)).isSome (C09.midxEntries packs) 0 = some x.ofs32 ∧
    (∀ l, x.large = some l → l = ((C09.midxEntries packs).filter (fun e => e.offset > C09.LARGE_OFFSET_THRESHOLD)).map (·.offset)) := by
  have e : C09.mdedup (C09.msort (C09.collect 0 packs)) = C09.midxEntries packs := rfl
  unfold C09.midxBuild at h
  simp only [e, Option.bind_eq_bind] at h
  cases hf : C09.firstBytes ((C09.midxEntries packs).map (·.id)) with
  | none => rw [hf] at h; cases h
  | some fbs =>
    rw [hf, Option.bind_some] at h
    cases hfan : C09.fanout fbs with
    | none => rw [hfan] at h; cases h
    | some fan =>
      rw [hfan, Option.bind_some] at h
      cases ho : C09.midxOffsets (C09.numLargeOffsets (C09.midxEntries packs)).isSome (C09.midxEntries packs) 0 with
      | none => rw [ho] at h; cases h
      | some o32 =>
        rw [ho, Option.bind_some] at h
        injection h with h
        subst h
        refine ⟨rfl, rfl, rfl, ?_⟩
        intro l hl
        cases hn : C09.numLargeOffsets (C09.midxEntries packs) with
        | none => simp only [hn] at hl; cases hl
        | some c => simp only [hn] at hl; injection hl with hl; exact hl.symm

/-- `midxBuild`'s tables satisfy everything the byte encoding needs (index names being given) -/
theorem midxBuild_encodable (packs : List C09.PackIn) (names : List Bytes)
    (h20 : ∀ p ∈ packs, ∀ e ∈ p.entries, e.1.length = 20)
    (hsmall : (C09.collect 0 packs).length < 2147483648)
    (hofs : ∀ p ∈ packs, ∀ e ∈ p.entries, e.2 < 18446744073709551616)
    (hnp : packs.length < 4294967296) (hnames : NamesOk names) (hnn : names.length < 4294967296) :
    ∃ x, C09.midxBuild packs = some x ∧ MEncodable names x := by
  obtain ⟨x, hb, hids, hok, hnum, _⟩ := C09.midxBuild_spec packs h20 hsmall
  obtain ⟨_, hpk, hoff, hlg⟩ := midxBuild_inv packs x hb
  have hlen' : (C09.midxEntries packs).length < 2147483648 := by
    have hsorted := C09.msort_sorted (C09.collect 0 packs)
    obtain ⟨_, _, _, hlen⟩ := C09.mdedup_spec _ hsorted
    have := C09.msort_length (C09.collect 0 packs)
    unfold C09.midxEntries; omega
  obtain ⟨ho1, ho2⟩ := midxOffsets_u32 _ _ 0 x.ofs32 hoff (by omega)
  have hidlen : x.ids.length = (C09.midxEntries packs).length := by rw [hids]; simp
  refine ⟨x, hb, ?_⟩
  exact {
    namesOk := hnames
    namesCount := hnn
    fanLen := by rw [hok.fanOk]; simp
    fanU32 := by
      intro v hv
      rw [hok.fanOk] at hv
      obtain ⟨b, _, rfl⟩ := List.mem_map.mp hv
      have := C09.countLe_le_length b (x.ids.map C09.hd)
      simp only [List.length_map] at this
      omega
    fanMono := by rw [C14.fanMonotone_eq, hok.fanOk]; exact C09.fanMonotone_counts _
    fanLast := hnum
    ids20 := hok.len20
    packLen := by rw [hpk, hidlen]; simp
    packU32 := by
      intro v hv
      rw [hpk] at hv
      obtain ⟨e, he, rfl⟩ := List.mem_map.mp hv
      obtain ⟨p, hp, _⟩ := C09.midx_entry_origin packs e he
      have : e.pack < packs.length := by
        rcases Nat.lt_or_ge e.pack packs.length with hh | hh
        · exact hh
        · rw [List.getElem?_eq_none hh] at hp; cases hp
      omega
    ofsLen := by rw [ho1, hidlen]
    ofsU32 := ho2
    largeU64 := by
      intro l hl v hv
      rw [hlg l hl] at hv
      obtain ⟨e, he, rfl⟩ := List.mem_map.mp hv
      have he' := (List.mem_filter.mp he).1
      obtain ⟨p, hp, hin⟩ := C09.midx_entry_origin packs e he'
      exact hofs p (List.mem_of_getElem? hp) _ hin }

end GixModel.C09M
