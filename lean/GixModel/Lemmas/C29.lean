import GixModel.Model.C29
/-
Helper lemmas for C29: hex digits, `hex_prefix`, the core framing lemma (`streaming` of a header
followed by its payload), `read_exact` over arbitrary chunkings, the reader invariant.
-/
namespace GixModel.C29
open GixModel

/-- What the proofs need of the wire constants (decidable; re-established against today's
`lib.rs` by `Props.C29.extracted_consts_ok`). -/
def ConstsOk (c : Consts) : Prop :=
  c.u16HexBytes = 4 ∧ 1 ≤ c.maxDataLen ∧ c.maxDataLen + 4 ≤ 65535 ∧
  c.maxLineLen = c.maxDataLen + c.u16HexBytes ∧
  c.flushLine = [48, 48, 48, 48] ∧ c.delimLine = [48, 48, 48, 49] ∧
  c.responseEndLine = [48, 48, 48, 50] ∧ c.errPrefix = [69, 82, 82, 32] ∧
  c.chData = 1 ∧ c.chProgress = 2 ∧ c.chError = 3

instance (c : Consts) : Decidable (ConstsOk c) := by unfold ConstsOk; infer_instance

/-! ### hex -/

theorem hexVal8_lower : ∀ d, d < 16 → hexVal8 (hexDigitLower d) = some d := by decide

theorem hexDecode4_u16ToHex (v : Nat) (h : v < 65536) : hexDecode4 (u16ToHex v) = some v := by
  unfold u16ToHex hexDecode4
  simp only [hexVal8_lower _ (Nat.mod_lt _ (by omega : 0 < 16))]
  congr 1
  omega

theorem u16ToHex_length (v : Nat) : (u16ToHex v).length = 4 := rfl

theorem hexVal8_lt (b : UInt8) (v : Nat) (h : hexVal8 b = some v) : v < 16 := by
  unfold hexVal8 at h
  split at h
  · simp at h; omega
  · split at h
    · simp at h; omega
    · split at h
      · simp at h; omega
      · simp at h

/-- digits 0, 1, 2 have exactly one spelling -/
theorem hexVal8_small (b : UInt8) (v : Nat) (h : hexVal8 b = some v) (hv : v ≤ 2) :
    b = UInt8.ofNat (48 + v) := by
  unfold hexVal8 at h
  have hb := b.toNat_lt
  split at h
  · simp at h
    apply UInt8.toNat_inj.mp
    simp
    omega
  · split at h
    · simp at h; omega
    · split at h
      · simp at h; omega
      · simp at h

theorem hexDecode4_small (four : Bytes) (w : Nat) (h : hexDecode4 four = some w) (hw : w ≤ 2) :
    four = [48, 48, 48, UInt8.ofNat (48 + w)] := by
  unfold hexDecode4 at h
  split at h
  · rename_i a b c d
    split at h
    · rename_i va vb vc vd ha hb hc hd
      simp at h
      have := hexVal8_lt _ _ ha
      have := hexVal8_lt _ _ hb
      have := hexVal8_lt _ _ hc
      have := hexVal8_lt _ _ hd
      have h0a : va = 0 := by omega
      have h0b : vb = 0 := by omega
      have h0c : vc = 0 := by omega
      have hdw : vd = w := by omega
      subst h0a h0b h0c hdw
      rw [hexVal8_small _ _ ha (by omega), hexVal8_small _ _ hb (by omega),
        hexVal8_small _ _ hc (by omega), hexVal8_small _ _ hd hw]
      rfl
    · simp at h
  · simp at h

theorem hexPrefix_total (c : Consts) (hc : ConstsOk c) (four : Bytes) (h4 : four.length = 4) :
    hexPrefix c four ≠ .panic := by
  obtain ⟨hu, _, _, _, hf, hd, hr, _⟩ := hc
  unfold hexPrefix
  simp only [h4, ne_eq, not_true_eq_false, if_false]
  split
  · simp
  · split
    · simp
    · split
      · simp
      · rename_i nf nd nr
        split
        · simp
        · rename_i w hw
          split
          · simp
          · split
            · simp
            · split
              · rename_i h3 h4' hle
                exfalso
                have hw2 : w ≤ 2 := by omega
                have := hexDecode4_small four w hw hw2
                have hcases : w = 0 ∨ w = 1 ∨ w = 2 := by omega
                rcases hcases with h | h | h <;> subst h
                · exact nf (by rw [hf]; exact this)
                · exact nd (by rw [hd]; exact this)
                · exact nr (by rw [hr]; exact this)
              · simp

/-! ### framing -/

/-- the prefix written for a line of total length `v` (5 ≤ v ≤ 65535) asks for `v - 4` bytes -/
theorem hexPrefix_u16ToHex (c : Consts) (hc : ConstsOk c) (v : Nat) (h5 : 5 ≤ v) (h : v < 65536) :
    hexPrefix c (u16ToHex v) = .ok (.wanted (v - 4)) := by
  obtain ⟨hu, _, _, _, hf, hd, hr, _⟩ := hc
  have hdec := hexDecode4_u16ToHex v h
  have ne : ∀ w, w ≤ 2 → u16ToHex v ≠ [48, 48, 48, UInt8.ofNat (48 + w)] := by
    intro w hw heq
    have h2 : hexDecode4 [48, 48, 48, UInt8.ofNat (48 + w)] = some w := by
      have hcases : w = 0 ∨ w = 1 ∨ w = 2 := by omega
      rcases hcases with h | h | h <;> subst h <;> decide
    rw [heq, h2] at hdec
    simp at hdec
    omega
  unfold hexPrefix
  simp only [u16ToHex_length, ne_eq, not_true_eq_false, if_false, hf, hd, hr, hu]
  have ne0 : u16ToHex v ≠ [48, 48, 48, 48] := ne 0 (by omega)
  have ne1 : u16ToHex v ≠ [48, 48, 48, 49] := ne 1 (by omega)
  have ne2 : u16ToHex v ≠ [48, 48, 48, 50] := ne 2 (by omega)
  rw [if_neg ne0, if_neg ne1, if_neg ne2, hdec]
  simp only
  rw [if_neg (by omega), if_neg (by omega), if_neg (by omega)]

theorem toDataLine_ok (c : Consts) (d : Bytes) (h : d.length ≤ c.maxLineLen) :
    toDataLine c d = .ok (.data d) := by
  unfold toDataLine
  rw [if_neg (by omega)]

/-- The framing lemma: a four-byte header asking for `n` bytes, followed by `n` bytes and anything
else, is one complete data line. -/
theorem streaming_frame (c : Consts) (hc : ConstsOk c) (hdr payload rest : Bytes) (n : Nat)
    (h4 : hdr.length = 4) (hp : hexPrefix c hdr = .ok (.wanted n)) (hn : payload.length = n)
    (hmax : n + 4 ≤ c.maxLineLen) :
    streaming c (hdr ++ payload ++ rest) = .ok (.complete (.data payload) (n + 4)) := by
  obtain ⟨hu, _, _, hml, _⟩ := hc
  unfold streaming
  have hlen : (hdr ++ payload ++ rest).length = 4 + n + rest.length := by
    simp [h4, hn]; omega
  have htake : (hdr ++ payload ++ rest).take 4 = hdr := by
    rw [List.append_assoc, List.take_append_of_le_length (by omega), ← h4, List.take_length]
  rw [hu, if_neg (by omega), htake, hp]
  simp only
  rw [if_neg (by omega), if_neg (by omega)]
  have hmid : ((hdr ++ payload ++ rest).take (n + 4)).drop 4 = payload := by
    have : (hdr ++ payload ++ rest).take (n + 4) = hdr ++ payload := by
      rw [List.take_append_of_le_length (by simp [h4, hn]; omega)]
      rw [List.take_of_length_le (by simp [h4, hn]; omega)]
    rw [this, ← h4, List.drop_left]
  rw [hmid, toDataLine_ok c payload (by omega)]

/-- what a successful `encode` wrote -/
theorem encode_ok_iff (c : Consts) (pre data suf : Bytes) (m : Nat) (out : Bytes)
    (h : encode c pre data suf = .ok (m, out)) :
    pre.length + data.length + suf.length ≤ c.maxDataLen ∧ data ≠ [] ∧
    m = pre.length + data.length + suf.length + 4 ∧
    out = u16ToHex ((pre.length + data.length + suf.length + 4) % 65536) ++ pre ++ data ++ suf := by
  unfold encode at h
  simp only at h
  split at h
  · simp at h
  · split at h
    · simp at h
    · rename_i h1 h2
      simp only [Except.ok.injEq, Prod.mk.injEq] at h
      refine ⟨by omega, ?_, h.1.symm, h.2.symm⟩
      intro he; subst he; simp at h2

theorem encode_decode_core (c : Consts) (hc : ConstsOk c) (pre data suf rest : Bytes) (m : Nat)
    (out : Bytes) (h : encode c pre data suf = .ok (m, out)) :
    streaming c (out ++ rest) = .ok (.complete (.data (pre ++ data ++ suf)) m) ∧ m = out.length := by
  obtain ⟨hle, hne, hm, hout⟩ := encode_ok_iff c pre data suf m out h
  have hc' := hc
  obtain ⟨hu, h1, h65, hml, _⟩ := hc
  have hdl : 0 < data.length := List.length_pos_iff.mpr hne
  have hmod : (pre.length + data.length + suf.length + 4) % 65536 = pre.length + data.length + suf.length + 4 :=
    Nat.mod_eq_of_lt (by omega)
  rw [hmod] at hout
  have hp := hexPrefix_u16ToHex c hc' (pre.length + data.length + suf.length + 4) (by omega) (by omega)
  have hfr := streaming_frame c hc' (u16ToHex (pre.length + data.length + suf.length + 4))
    (pre ++ data ++ suf) rest (pre.length + data.length + suf.length) (u16ToHex_length _)
    (by simpa using hp) (by simp; omega) (by omega)
  subst hout
  constructor
  · rw [hm]
    simpa [List.append_assoc] using hfr
  · simp [u16ToHex_length]; omega

/-! ### `read_exact` over arbitrary chunkings -/

/-- a reader never returns an empty chunk before the end of the stream -/
def NonEmptyChunks (cs : List Bytes) : Prop := ∀ ch ∈ cs, ch ≠ []

/-- `read_exact` on the flat stream -/
def takeExact (bs : Bytes) (n : Nat) : Option Bytes × Bytes :=
  if n ≤ bs.length then (some (bs.take n), bs.drop n) else (none, [])

theorem readExact_spec (cs : List Bytes) (hne : NonEmptyChunks cs) (n : Nat) :
    ∃ cs', readExact cs n = ((takeExact cs.flatten n).1, cs') ∧
      cs'.flatten = (takeExact cs.flatten n).2 ∧ NonEmptyChunks cs' := by
  induction cs generalizing n with
  | nil =>
    refine ⟨[], ?_, ?_, hne⟩
    · unfold readExact takeExact
      by_cases h : n = 0
      · subst h; simp
      · simp [h]
    · unfold takeExact; split <;> simp
  | cons ch cs ih =>
    have hch : ch ≠ [] := hne ch (by simp)
    have hcs : NonEmptyChunks cs := fun x hx => hne x (by simp [hx])
    have hpos : 0 < ch.length := List.length_pos_iff.mpr hch
    unfold readExact
    by_cases h0 : n = 0
    · subst h0
      refine ⟨ch :: cs, ?_, ?_, hne⟩
      · simp [takeExact]
      · simp [takeExact]
    · rw [if_neg h0]
      by_cases hle : ch.length ≤ n
      · rw [if_pos hle]
        obtain ⟨cs', h1, h2, h3⟩ := ih hcs (n - ch.length)
        refine ⟨cs', ?_, ?_, h3⟩
        · rw [h1]
          simp only [takeExact, List.flatten_cons, List.length_append]
          by_cases hn : n ≤ ch.length + cs.flatten.length
          · rw [if_pos hn, if_pos (by omega)]
            simp only [Option.map_some]
            rw [List.take_append]
            rw [List.take_of_length_le hle]
          · rw [if_neg hn, if_neg (by omega)]
            simp
        · rw [h2]
          simp only [takeExact, List.flatten_cons, List.length_append]
          by_cases hn : n ≤ ch.length + cs.flatten.length
          · rw [if_pos hn, if_pos (by omega)]
            simp only
            rw [List.drop_append, List.drop_of_length_le hle]
            simp
          · rw [if_neg hn, if_neg (by omega)]
      · rw [if_neg hle]
        refine ⟨ch.drop n :: cs, ?_, ?_, ?_⟩
        · simp only [takeExact, List.flatten_cons, List.length_append]
          rw [if_pos (by omega)]
          simp only
          rw [List.take_append_of_le_length (by omega)]
        · simp only [takeExact, List.flatten_cons, List.length_append]
          rw [if_pos (by omega)]
          simp only
          rw [List.drop_append_of_le_length (by omega)]
        · intro x hx
          simp only [List.mem_cons] at hx
          rcases hx with hx | hx
          · subst hx
            intro he
            have := congrArg List.length he
            simp at this
            omega
          · exact hcs x hx

/-- `read_line_inner` on the flat stream: outcome, rest of the stream, front of the buffer -/
def rliFlat (c : Consts) (bs : Bytes) (bufLen : Nat) : RLI × Bytes × Bytes :=
  if bufLen < 4 then (.panic, bs, [])
  else match takeExact bs 4 with
    | (none, bs1) => (.io, bs1, [])
    | (some four, bs1) =>
      match hexPrefix c four with
      | .panic => (.panic, bs1, four)
      | .err e => (.dec e, bs1, four)
      | .ok (.line l) => (.line l, bs1, four)
      | .ok (.wanted n) =>
        if n + c.u16HexBytes > c.maxLineLen then
          (.dec (.tooLong (n + c.u16HexBytes)), bs1, four)
        else if n > bufLen - 4 then (.panic, bs1, four)
        else match takeExact bs1 n with
          | (none, bs2) => (.io, bs2, four)
          | (some d, bs2) =>
            match toDataLine c d with
            | .ok l => (.line l, bs2, four ++ d)
            | .err e => (.dec e, bs2, four ++ d)
            | .panic => (.panic, bs2, four ++ d)

/-- however the reader splits the stream, `read_line_inner` sees the flat stream -/
theorem readLineInner_flat (c : Consts) (cs : List Bytes) (hne : NonEmptyChunks cs) (bufLen : Nat) :
    ∃ cs', readLineInner c cs bufLen =
        ((rliFlat c cs.flatten bufLen).1, cs', (rliFlat c cs.flatten bufLen).2.2) ∧
      cs'.flatten = (rliFlat c cs.flatten bufLen).2.1 ∧ NonEmptyChunks cs' := by
  unfold readLineInner rliFlat
  by_cases hb : bufLen < 4
  · simp only [hb, if_true]
    exact ⟨cs, rfl, rfl, hne⟩
  · simp only [hb, if_false]
    obtain ⟨cs1, h1, h1f, h1n⟩ := readExact_spec cs hne 4
    rw [h1]
    rcases hte : takeExact cs.flatten 4 with ⟨v, bs1⟩
    rw [hte] at h1f
    simp only at h1f
    cases v with
    | none => exact ⟨cs1, rfl, h1f, h1n⟩
    | some four =>
      simp only
      cases hp : hexPrefix c four with
      | panic => exact ⟨cs1, rfl, h1f, h1n⟩
      | err e => exact ⟨cs1, rfl, h1f, h1n⟩
      | ok p =>
        cases p with
        | line l => exact ⟨cs1, rfl, h1f, h1n⟩
        | wanted n =>
          simp only
          by_cases hbig : n + c.u16HexBytes > c.maxLineLen
          · simp only [hbig, if_true]
            exact ⟨cs1, rfl, h1f, h1n⟩
          · simp only [hbig, if_false]
            by_cases hsp : n > bufLen - 4
            · simp only [hsp, if_true]
              exact ⟨cs1, rfl, h1f, h1n⟩
            · simp only [hsp, if_false]
              obtain ⟨cs2, h2, h2f, h2n⟩ := readExact_spec cs1 h1n n
              rw [h2, h1f]
              rcases hte2 : takeExact bs1 n with ⟨v2, bs2⟩
              rw [h1f, hte2] at h2f
              simp only at h2f
              cases v2 with
              | none => exact ⟨cs2, rfl, h2f, h2n⟩
              | some d =>
                simp only
                cases toDataLine c d <;> exact ⟨cs2, rfl, h2f, h2n⟩

/-- two readers (chunkings) over the same byte stream -/
def Eqv (cs₁ cs₂ : List Bytes) : Prop :=
  NonEmptyChunks cs₁ ∧ NonEmptyChunks cs₂ ∧ cs₁.flatten = cs₂.flatten

theorem readLineInner_eqv (c : Consts) (cs₁ cs₂ : List Bytes) (h : Eqv cs₁ cs₂) (bufLen : Nat) :
    ∃ x s₁ s₂ f, readLineInner c cs₁ bufLen = (x, s₁, f) ∧ readLineInner c cs₂ bufLen = (x, s₂, f) ∧
      Eqv s₁ s₂ := by
  obtain ⟨n1, n2, hf⟩ := h
  obtain ⟨s₁, e1, f1, m1⟩ := readLineInner_flat c cs₁ n1 bufLen
  obtain ⟨s₂, e2, f2, m2⟩ := readLineInner_flat c cs₂ n2 bufLen
  rw [hf] at e1 f1
  exact ⟨_, s₁, s₂, _, e1, e2, m1, m2, by rw [f1, f2]⟩

theorem exhaustive_eqv (c : Consts) (cs₁ cs₂ : List Bytes) (h : Eqv cs₁ cs₂) (buf : Buf)
    (delims : List Line) (failOnErr bufResize : Bool) :
    let e₁ := readLineInnerExhaustive c cs₁ buf delims failOnErr bufResize
    let e₂ := readLineInnerExhaustive c cs₂ buf delims failOnErr bufResize
    e₁.isDone = e₂.isDone ∧ e₁.stoppedAt = e₂.stoppedAt ∧ e₁.res = e₂.res ∧ e₁.buf = e₂.buf ∧
      Eqv e₁.src e₂.src := by
  obtain ⟨x, s₁, s₂, f, h1, h2, hs⟩ := readLineInner_eqv c cs₁ cs₂ h buf.len
  simp only [readLineInnerExhaustive, h1, h2]
  cases x with
  | panic => exact ⟨rfl, rfl, rfl, rfl, hs⟩
  | io => exact ⟨rfl, rfl, rfl, rfl, hs⟩
  | dec e => exact ⟨rfl, rfl, rfl, rfl, hs⟩
  | line l =>
    simp only
    split
    · exact ⟨rfl, rfl, rfl, rfl, hs⟩
    · split
      · exact ⟨rfl, rfl, rfl, rfl, hs⟩
      · split <;> exact ⟨rfl, rfl, rfl, rfl, hs⟩

/-- two reader states that differ only in how the remaining stream is chunked -/
def Sim (r₁ r₂ : Reader) : Prop :=
  r₁.buf = r₂.buf ∧ r₁.peekBuf = r₂.peekBuf ∧ r₁.isDone = r₂.isDone ∧ r₁.stoppedAt = r₂.stoppedAt ∧
    r₁.failOnErr = r₂.failOnErr ∧ r₁.delims = r₂.delims ∧ Eqv r₁.src r₂.src

theorem readLine_sim (c : Consts) (r₁ r₂ : Reader) (h : Sim r₁ r₂) :
    (readLine c r₁).1 = (readLine c r₂).1 ∧ Sim (readLine c r₁).2 (readLine c r₂).2 := by
  rcases r₁ with ⟨s1, b1, p1, d1, st1, f1, dl1⟩
  rcases r₂ with ⟨s2, b2, p2, d2, st2, f2, dl2⟩
  obtain ⟨hb, hp, hd, hs, hf, hdl, he⟩ := h
  simp only at hb hp hd hs hf hdl he
  subst hb hp hd hs hf hdl
  unfold readLine
  simp only
  cases d1
  case true =>
    simp only [if_true]
    (refine ⟨?_, ?_, ?_, ?_, ?_, ?_, ?_, ?_⟩ <;> first | rfl | trivial | exact he)
  case false =>
    simp only [Bool.false_eq_true, if_false]
    by_cases h2 : p1.len ≠ 0
    · rw [if_pos h2, if_pos h2]
      split
      · (refine ⟨?_, ?_, ?_, ?_, ?_, ?_, ?_, ?_⟩ <;> first | rfl | trivial | exact he)
      · (refine ⟨?_, ?_, ?_, ?_, ?_, ?_, ?_, ?_⟩ <;> first | rfl | trivial | exact he)
    · rw [if_neg h2, if_neg h2]
      obtain ⟨a, b, cc, d, e⟩ := exhaustive_eqv c s1 s2 he
        (if b1.len ≠ c.maxLineLen then b1.resize c.maxLineLen else b1) dl1 f1 false
      exact ⟨cc, d, rfl, a, b, rfl, rfl, e⟩

theorem peekLine_sim (c : Consts) (r₁ r₂ : Reader) (h : Sim r₁ r₂) :
    (peekLine c r₁).1 = (peekLine c r₂).1 ∧ Sim (peekLine c r₁).2 (peekLine c r₂).2 := by
  rcases r₁ with ⟨s1, b1, p1, d1, st1, f1, dl1⟩
  rcases r₂ with ⟨s2, b2, p2, d2, st2, f2, dl2⟩
  obtain ⟨hb, hp, hd, hs, hf, hdl, he⟩ := h
  simp only at hb hp hd hs hf hdl he
  subst hb hp hd hs hf hdl
  unfold peekLine
  simp only
  cases d1
  case true =>
    simp only [if_true]
    (refine ⟨?_, ?_, ?_, ?_, ?_, ?_, ?_, ?_⟩ <;> first | rfl | trivial | exact he)
  case false =>
    simp only [Bool.false_eq_true, if_false]
    by_cases h2 : p1.len = 0
    · rw [if_pos h2, if_pos h2]
      obtain ⟨a, b, cc, d, e⟩ := exhaustive_eqv c s1 s2 he (p1.resize c.maxLineLen) dl1 f1 true
      exact ⟨cc, rfl, d, a, b, rfl, rfl, e⟩
    · rw [if_neg h2, if_neg h2]
      split
      · (refine ⟨?_, ?_, ?_, ?_, ?_, ?_, ?_, ?_⟩ <;> first | rfl | trivial | exact he)
      · (refine ⟨?_, ?_, ?_, ?_, ?_, ?_, ?_, ?_⟩ <;> first | rfl | trivial | exact he)

/-! ### the reader never panics -/

/-- a four-byte header that is a control line decodes to that line, whatever follows -/
theorem streaming_ctl (c : Consts) (hc : ConstsOk c) (four rest : Bytes) (l : Line) (h4 : four.length = 4)
    (hp : hexPrefix c four = .ok (.line l)) :
    streaming c (four ++ rest) = .ok (.complete l 4) := by
  obtain ⟨hu, _⟩ := hc
  unfold streaming
  have htake : (four ++ rest).take 4 = four := by
    rw [List.take_append_of_le_length (by omega), ← h4, List.take_length]
  rw [hu, if_neg (by simp; omega), htake, hp]

theorem allAtOnce_frame (c : Consts) (hc : ConstsOk c) (hdr payload rest : Bytes) (n : Nat)
    (h4 : hdr.length = 4) (hp : hexPrefix c hdr = .ok (.wanted n)) (hn : payload.length = n)
    (hmax : n + 4 ≤ c.maxLineLen) :
    allAtOnce c (hdr ++ payload ++ rest) = .ok (.data payload) := by
  unfold allAtOnce
  rw [streaming_frame c hc hdr payload rest n h4 hp hn hmax]

theorem allAtOnce_ctl (c : Consts) (hc : ConstsOk c) (four rest : Bytes) (l : Line) (h4 : four.length = 4)
    (hp : hexPrefix c four = .ok (.line l)) : allAtOnce c (four ++ rest) = .ok l := by
  unfold allAtOnce
  rw [streaming_ctl c hc four rest l h4 hp]

/-- What `read_line_inner` can return when the buffer has the full line length: never a panic, and
a returned line sits complete at the front of the buffer. -/
theorem rliFlat_ok (c : Consts) (hc : ConstsOk c) (bs : Bytes) :
    (rliFlat c bs c.maxLineLen).1 ≠ .panic ∧
    ∀ l, (rliFlat c bs c.maxLineLen).1 = .line l →
      allAtOnce c (rliFlat c bs c.maxLineLen).2.2 = .ok l ∧
      (rliFlat c bs c.maxLineLen).2.2.length = lineLen c l := by
  have hc' := hc
  obtain ⟨hu, h1, h65, hml, _⟩ := hc
  unfold rliFlat
  rw [if_neg (by omega)]
  rcases hte : takeExact bs 4 with ⟨v, bs1⟩
  cases v with
  | none => simp
  | some four =>
    have h4 : four.length = 4 := by
      unfold takeExact at hte
      split at hte
      · simp only [Prod.mk.injEq, Option.some.injEq] at hte
        rw [← hte.1, List.length_take]; omega
      · simp at hte
    simp only
    have htot := hexPrefix_total c hc' four h4
    cases hp : hexPrefix c four with
    | panic => exact absurd hp htot
    | err e => simp
    | ok p =>
      cases p with
      | line l =>
        simp only
        refine ⟨by simp, ?_⟩
        intro l' hl
        simp only [RLI.line.injEq] at hl
        subst hl
        have := allAtOnce_ctl c hc' four [] l h4 hp
        simp only [List.append_nil] at this
        refine ⟨this, ?_⟩
        have hns : l.asSlice = none := by
          unfold hexPrefix at hp
          simp only [h4, ne_eq, not_true_eq_false, if_false] at hp
          split at hp
          · simp at hp; subst hp; rfl
          · split at hp
            · simp at hp; subst hp; rfl
            · split at hp
              · simp at hp; subst hp; rfl
              · split at hp
                · simp at hp
                · split at hp
                  · simp at hp
                  · split at hp
                    · simp at hp
                    · split at hp <;> simp at hp
        rw [lineLen, hns, h4, hu]
      | wanted n =>
        simp only
        by_cases hbig : n + c.u16HexBytes > c.maxLineLen
        · simp [hbig]
        · rw [if_neg hbig, if_neg (by omega)]
          rcases hte2 : takeExact bs1 n with ⟨v2, bs2⟩
          cases v2 with
          | none => simp
          | some d =>
            have hd : d.length = n := by
              unfold takeExact at hte2
              split at hte2
              · simp only [Prod.mk.injEq, Option.some.injEq] at hte2
                rw [← hte2.1, List.length_take]; omega
              · simp at hte2
            simp only
            rw [toDataLine_ok c d (by omega)]
            simp only
            refine ⟨by simp, ?_⟩
            intro l' hl
            simp only [RLI.line.injEq] at hl
            subst hl
            have := allAtOnce_frame c hc' four d [] n h4 hp hd (by omega)
            simp only [List.append_nil] at this
            refine ⟨this, ?_⟩
            simp [lineLen, Line.asSlice, h4, hu]; omega

/-- a line buffer is either empty or holds one complete line at its front -/
def Buf.Ok (c : Consts) (b : Buf) : Prop := b.len = 0 ∨ ∃ l, allAtOnce c b.front = .ok l

theorem exhaustive_ok (c : Consts) (hc : ConstsOk c) (cs : List Bytes) (hne : NonEmptyChunks cs)
    (buf : Buf) (hlen : buf.len = c.maxLineLen) (delims : List Line) (failOnErr bufResize : Bool) :
    let e := readLineInnerExhaustive c cs buf delims failOnErr bufResize
    e.res ≠ .panic ∧ NonEmptyChunks e.src ∧ Buf.Ok c e.buf := by
  obtain ⟨cs', h1, _, hn'⟩ := readLineInner_flat c cs hne buf.len
  obtain ⟨hnp, hline⟩ := rliFlat_ok c hc cs.flatten
  rw [← hlen] at hnp hline
  simp only [readLineInnerExhaustive, h1]
  rcases hx : rliFlat c cs.flatten buf.len with ⟨x, rest, front⟩
  rw [hx] at hnp hline
  simp only at hnp hline
  cases x with
  | panic => exact absurd rfl hnp
  | io => exact ⟨by simp, hn', Or.inl rfl⟩
  | dec e => exact ⟨by simp, hn', Or.inl rfl⟩
  | line l =>
    obtain ⟨hall, hfl⟩ := hline l rfl
    simp only
    split
    · exact ⟨by simp, hn', Or.inl rfl⟩
    · split
      · exact ⟨by simp, hn', Or.inl rfl⟩
      · have hb2 : allAtOnce c (if bufResize = true then
            (Buf.mk front buf.len).resize (lineLen c l) else Buf.mk front buf.len).front = .ok l := by
          split
          · simp only [Buf.resize]
            rw [← hfl, List.take_length]
            exact hall
          · exact hall
        simp only [hb2]
        exact ⟨by simp, hn', Or.inr ⟨l, hb2⟩⟩

/-- the invariant under which no call on the reader can panic -/
def Reader.Inv (c : Consts) (r : Reader) : Prop := NonEmptyChunks r.src ∧ Buf.Ok c r.peekBuf

theorem Reader.new_inv (c : Consts) (cs : List Bytes) (hne : NonEmptyChunks cs) (delims : List Line)
    (f : Bool) : (Reader.new c cs delims f).Inv c := ⟨hne, Or.inl rfl⟩

theorem readLine_inv (c : Consts) (hc : ConstsOk c) (r : Reader) (h : r.Inv c) :
    (readLine c r).1 ≠ .panic ∧ (readLine c r).2.Inv c := by
  obtain ⟨hne, hpk⟩ := h
  unfold readLine
  by_cases h1 : r.isDone
  · rw [if_pos h1]; exact ⟨by simp, hne, hpk⟩
  · rw [if_neg h1]
    by_cases h2 : r.peekBuf.len ≠ 0
    · rw [if_pos h2]
      rcases hpk with h0 | ⟨l, hl⟩
      · exact absurd h0 h2
      · simp only [hl]
        exact ⟨by simp, hne, Or.inl rfl⟩
    · rw [if_neg h2]
      have hlen : (if r.buf.len ≠ c.maxLineLen then r.buf.resize c.maxLineLen else r.buf).len = c.maxLineLen := by
        split
        · rfl
        · rename_i h; simpa using h
      obtain ⟨a, b, _⟩ := exhaustive_ok c hc r.src hne _ hlen r.delims r.failOnErr false
      exact ⟨a, b, hpk⟩

theorem peekLine_inv (c : Consts) (hc : ConstsOk c) (r : Reader) (h : r.Inv c) :
    (peekLine c r).1 ≠ .panic ∧ (peekLine c r).2.Inv c := by
  obtain ⟨hne, hpk⟩ := h
  unfold peekLine
  by_cases h1 : r.isDone
  · rw [if_pos h1]; exact ⟨by simp, hne, hpk⟩
  · rw [if_neg h1]
    by_cases h2 : r.peekBuf.len = 0
    · rw [if_pos h2]
      obtain ⟨a, b, d⟩ := exhaustive_ok c hc r.src hne (r.peekBuf.resize c.maxLineLen) rfl r.delims r.failOnErr true
      exact ⟨a, b, d⟩
    · rw [if_neg h2]
      rcases hpk with h0 | ⟨l, hl⟩
      · exact absurd h0 h2
      · simp only [hl]
        exact ⟨by simp, hne, Or.inr ⟨l, hl⟩⟩

theorem readAll_inv (c : Consts) (hc : ConstsOk c) (fuel : Nat) (r : Reader) (h : r.Inv c) :
    (∀ x ∈ (readAll c fuel r).1, x ≠ .panic) ∧ (readAll c fuel r).2.Inv c := by
  induction fuel generalizing r with
  | zero => exact ⟨by simp [readAll], h⟩
  | succ n ih =>
    obtain ⟨hnp, hinv⟩ := readLine_inv c hc r h
    unfold readAll
    simp only
    split
    · exact ⟨by simpa using hnp, hinv⟩
    · obtain ⟨a, b⟩ := ih (readLine c r).2 hinv
      refine ⟨?_, b⟩
      intro x hx
      simp only [List.mem_cons] at hx
      rcases hx with hx | hx
      · rw [hx]; exact hnp
      · exact a x hx

theorem callStep_inv (c : Consts) (hc : ConstsOk c) (k : Call) (r : Reader) (h : r.Inv c) :
    (∀ x ∈ (callStep c k r).1, x.2 ≠ .panic) ∧ (callStep c k r).2.Inv c := by
  cases k with
  | read => obtain ⟨a, b⟩ := readLine_inv c hc r h; exact ⟨by simpa [callStep] using a, b⟩
  | peek => obtain ⟨a, b⟩ := peekLine_inv c hc r h; exact ⟨by simpa [callStep] using a, b⟩
  | all =>
    obtain ⟨a, b⟩ := readAll_inv c hc (readAllFuel r) r h
    refine ⟨?_, b⟩
    intro z hz
    simp only [callStep, List.mem_map] at hz
    obtain ⟨w, hw, rfl⟩ := hz
    exact a w hw

theorem runCalls_inv (c : Consts) (hc : ConstsOk c) (calls : List Call) (r : Reader) (h : r.Inv c) :
    (∀ x ∈ (runCalls c calls r).1, x.2 ≠ .panic) ∧ (runCalls c calls r).2.Inv c := by
  induction calls generalizing r with
  | nil => exact ⟨by simp [runCalls], h⟩
  | cons k ks ih =>
    have hx := callStep_inv c hc k r h
    unfold runCalls
    simp only
    split
    · exact hx
    · obtain ⟨a, b⟩ := ih _ hx.2
      refine ⟨?_, b⟩
      intro z hz
      simp only [List.mem_append] at hz
      rcases hz with hz | hz
      · exact hx.1 z hz
      · exact a z hz

/-! ### chunk independence of whole call sequences -/

theorem srcLen_eq_flatten (cs : List Bytes) : srcLen cs = cs.flatten.length := by
  induction cs with
  | nil => rfl
  | cons ch cs ih => simp only [srcLen, List.map_cons, List.sum_cons, List.flatten_cons, List.length_append] at *; omega

theorem readAll_sim (c : Consts) (fuel : Nat) (r₁ r₂ : Reader) (h : Sim r₁ r₂) :
    (readAll c fuel r₁).1 = (readAll c fuel r₂).1 ∧ Sim (readAll c fuel r₁).2 (readAll c fuel r₂).2 := by
  induction fuel generalizing r₁ r₂ with
  | zero => exact ⟨rfl, h⟩
  | succ n ih =>
    obtain ⟨h1, h2⟩ := readLine_sim c r₁ r₂ h
    unfold readAll
    simp only
    rw [h1]
    split
    · exact ⟨rfl, h2⟩
    · obtain ⟨a, b⟩ := ih _ _ h2
      exact ⟨by rw [a], b⟩

theorem callStep_sim (c : Consts) (k : Call) (r₁ r₂ : Reader) (h : Sim r₁ r₂) :
    (callStep c k r₁).1 = (callStep c k r₂).1 ∧ Sim (callStep c k r₁).2 (callStep c k r₂).2 := by
  cases k with
  | read => obtain ⟨a, b⟩ := readLine_sim c r₁ r₂ h; exact ⟨by simp [callStep, a], b⟩
  | peek => obtain ⟨a, b⟩ := peekLine_sim c r₁ r₂ h; exact ⟨by simp [callStep, a], b⟩
  | all =>
    have hf : readAllFuel r₁ = readAllFuel r₂ := by
      unfold readAllFuel
      rw [srcLen_eq_flatten, srcLen_eq_flatten, h.2.2.2.2.2.2.2.2]
    obtain ⟨a, b⟩ := readAll_sim c (readAllFuel r₁) r₁ r₂ h
    simp only [callStep]
    rw [← hf]
    exact ⟨by rw [a], b⟩

theorem runCalls_sim (c : Consts) (calls : List Call) (r₁ r₂ : Reader) (h : Sim r₁ r₂) :
    (runCalls c calls r₁).1 = (runCalls c calls r₂).1 ∧
      Sim (runCalls c calls r₁).2 (runCalls c calls r₂).2 := by
  induction calls generalizing r₁ r₂ with
  | nil => exact ⟨rfl, h⟩
  | cons k ks ih =>
    obtain ⟨a, b⟩ := callStep_sim c k r₁ r₂ h
    unfold runCalls
    simp only
    rw [a]
    split
    · exact ⟨a, b⟩
    · obtain ⟨a2, b2⟩ := ih _ _ b
      exact ⟨by simp only [a2], b2⟩

/-! ### reading back what was written -/

theorem takeExact_append (a b : Bytes) (n : Nat) (h : a.length = n) :
    takeExact (a ++ b) n = (some a, b) := by
  subst h
  unfold takeExact
  rw [if_pos (by simp)]
  simp

theorem hexPrefix_ctl (c : Consts) (hc : ConstsOk c) :
    hexPrefix c c.flushLine = .ok (.line .flush) ∧ hexPrefix c c.delimLine = .ok (.line .delim) ∧
    hexPrefix c c.responseEndLine = .ok (.line .responseEnd) := by
  obtain ⟨_, _, _, _, hf, hd, hr, _⟩ := hc
  unfold hexPrefix
  rw [hf, hd, hr]
  refine ⟨?_, ?_, ?_⟩ <;> simp

theorem wire_data (c : Consts) (hc : ConstsOk c) (d : Bytes) (hv : (Line.data d).Valid c) :
    wire c (.data d) = u16ToHex (d.length + 4) ++ d ∧
      hexPrefix c (u16ToHex (d.length + 4)) = .ok (.wanted d.length) := by
  obtain ⟨hne, hle⟩ := hv
  have hc' := hc
  obtain ⟨hu, h1, h65, hml, _⟩ := hc
  have hpos : 0 < d.length := List.length_pos_iff.mpr hne
  constructor
  · unfold wire encLine encData encode
    simp only [List.length_nil, Nat.zero_add, Nat.add_zero]
    rw [if_neg (by omega), if_neg (by simpa using hne)]
    simp only [List.append_nil]
    rw [Nat.mod_eq_of_lt (by omega)]
  · have := hexPrefix_u16ToHex c hc' (d.length + 4) (by omega) (by omega)
    simpa using this

/-- `read_line_inner` on a stream that starts with a written line -/
theorem rliFlat_wire (c : Consts) (hc : ConstsOk c) (l : Line) (hv : l.Valid c) (rest : Bytes) :
    rliFlat c (wire c l ++ rest) c.maxLineLen = (.line l, rest, wire c l) := by
  have hc' := hc
  obtain ⟨hu, h1, h65, hml, hf, hd, hr, _⟩ := hc
  obtain ⟨pf, pd, pr⟩ := hexPrefix_ctl c hc'
  unfold rliFlat
  rw [if_neg (by omega)]
  cases l with
  | flush =>
    have hw : wire c .flush = c.flushLine := rfl
    have h4 : c.flushLine.length = 4 := by rw [hf]; rfl
    rw [hw, takeExact_append _ _ 4 h4]
    simp only [pf]
  | delim =>
    have hw : wire c .delim = c.delimLine := rfl
    have h4 : c.delimLine.length = 4 := by rw [hd]; rfl
    rw [hw, takeExact_append _ _ 4 h4]
    simp only [pd]
  | responseEnd =>
    have hw : wire c .responseEnd = c.responseEndLine := rfl
    have h4 : c.responseEndLine.length = 4 := by rw [hr]; rfl
    rw [hw, takeExact_append _ _ 4 h4]
    simp only [pr]
  | data d =>
    obtain ⟨hw, hp⟩ := wire_data c hc' d hv
    obtain ⟨hne, hle⟩ := hv
    rw [hw, List.append_assoc]
    have h4 : (u16ToHex (d.length + 4)).length = 4 := rfl
    rw [takeExact_append _ _ 4 h4]
    simp only [hp]
    rw [if_neg (by omega), if_neg (by omega), takeExact_append _ _ _ rfl]
    simp only
    rw [toDataLine_ok c d (by omega)]

theorem find_of_contains (delims : List Line) (l : Line) (h : delims.contains l = true) :
    delims.find? (· == l) = some l := by
  induction delims with
  | nil => simp at h
  | cons x xs ih =>
    simp only [List.find?_cons]
    by_cases hx : x == l
    · simp only [hx]
      rw [eq_of_beq hx]
    · simp only [hx]
      simp only [List.contains_cons] at h
      have hx' : (l == x) = false := by
        cases hlx : l == x
        · rfl
        · exact absurd (by rw [eq_of_beq hlx]; exact beq_self_eq_true x) hx
      rw [hx'] at h
      exact ih (by simpa using h)

/-- what one `read_line` does on a stream that starts with a written line -/
def lineOutcome (c : Consts) (delims : List Line) (failOnErr : Bool) (l : Line) : Res × Bool × Option Line :=
  if delims.contains l then (.none, true, some l)
  else match (if failOnErr then checkError c l else none) with
    | some m => (.errLine m, true, none)
    | none => (.line l, false, none)

theorem readLine_wire (c : Consts) (hc : ConstsOk c) (r : Reader) (l : Line) (hv : l.Valid c)
    (rest : Bytes) (hdone : r.isDone = false) (hpeek : r.peekBuf.len = 0) (hne : NonEmptyChunks r.src)
    (hflat : r.src.flatten = wire c l ++ rest) :
    let o := lineOutcome c r.delims r.failOnErr l
    let r' := (readLine c r).2
    (readLine c r).1 = o.1 ∧ r'.isDone = o.2.1 ∧ r'.stoppedAt = o.2.2 ∧
      r'.src.flatten = rest ∧ NonEmptyChunks r'.src ∧ r'.peekBuf = r.peekBuf ∧
      r'.failOnErr = r.failOnErr ∧ r'.delims = r.delims ∧
      (o.1 = .line l → r'.buf = ⟨wire c l, c.maxLineLen⟩) := by
  unfold readLine
  rw [hdone]
  simp only [Bool.false_eq_true, if_false]
  rw [if_neg (by omega)]
  have hlen : (if r.buf.len ≠ c.maxLineLen then r.buf.resize c.maxLineLen else r.buf).len = c.maxLineLen := by
    split
    · rfl
    · rename_i h; simpa using h
  generalize (if r.buf.len ≠ c.maxLineLen then r.buf.resize c.maxLineLen else r.buf) = buf at hlen
  obtain ⟨cs', h1, h1f, h1n⟩ := readLineInner_flat c r.src hne buf.len
  rw [hflat, hlen, rliFlat_wire c hc l hv rest] at h1 h1f
  simp only at h1 h1f
  unfold readLineInnerExhaustive lineOutcome
  rw [hlen, h1]
  simp only
  by_cases hd : r.delims.contains l
  · simp only [hd, if_true]
    (refine ⟨?_, ?_, ?_, ?_, ?_, ?_, ?_, ?_, ?_⟩ <;> first | trivial | rfl | exact find_of_contains _ _ hd | exact h1f | exact h1n | (intro h; cases h))
  · simp only [hd, Bool.false_eq_true, if_false]
    cases hce : (if r.failOnErr = true then checkError c l else none) with
    | some m => (refine ⟨?_, ?_, ?_, ?_, ?_, ?_, ?_, ?_, ?_⟩ <;> first | trivial | rfl | exact h1f | exact h1n | (intro _; rfl) | (intro h; cases h))
    | none =>
      simp only
      have hall : allAtOnce c (wire c l) = .ok l := by
        obtain ⟨_, hline⟩ := rliFlat_ok c hc (wire c l ++ rest)
        rw [rliFlat_wire c hc l hv rest] at hline
        exact (hline l rfl).1
      rw [hall]
      (refine ⟨?_, ?_, ?_, ?_, ?_, ?_, ?_, ?_, ?_⟩ <;> first | trivial | rfl | exact h1f | exact h1n | (intro _; rfl) | (intro h; cases h))

/-- the wire image of a list of lines -/
def wireAll (c : Consts) (ls : List Line) : Bytes := (ls.map (wire c)).flatten

/-- a line the reader hands out as such: valid, not a delimiter, not an ERR line under `fail_on_err_lines` -/
def Plain (c : Consts) (delims : List Line) (failOnErr : Bool) (l : Line) : Prop :=
  l.Valid c ∧ delims.contains l = false ∧ (failOnErr = true → checkError c l = none)

instance (c : Consts) (l : Line) : Decidable (l.Valid c) := by
  cases l <;> unfold Line.Valid <;> infer_instance

instance (c : Consts) (delims : List Line) (f : Bool) (l : Line) : Decidable (Plain c delims f l) := by
  unfold Plain; infer_instance

theorem lineOutcome_plain (c : Consts) (delims : List Line) (f : Bool) (l : Line) (h : Plain c delims f l) :
    lineOutcome c delims f l = (.line l, false, none) := by
  obtain ⟨_, hd, he⟩ := h
  unfold lineOutcome
  rw [hd]
  simp only [Bool.false_eq_true, if_false]
  cases f with
  | false => simp
  | true => simp [he rfl]

theorem wire_length_pos (c : Consts) (hc : ConstsOk c) (l : Line) (hv : l.Valid c) : 0 < (wire c l).length := by
  obtain ⟨_, _, _, _, hf, hd, hr, _⟩ := hc
  cases l with
  | flush => show 0 < c.flushLine.length; rw [hf]; decide
  | delim => show 0 < c.delimLine.length; rw [hd]; decide
  | responseEnd => show 0 < c.responseEndLine.length; rw [hr]; decide
  | data d =>
    have hc' : ConstsOk c := ⟨by assumption, by assumption, by assumption, by assumption, hf, hd, hr, by assumption⟩
    rw [(wire_data c hc' d hv).1]
    simp [u16ToHex_length]; omega

theorem wireAll_length (c : Consts) (hc : ConstsOk c) (ls : List Line) (hv : ∀ l ∈ ls, l.Valid c) :
    ls.length ≤ (wireAll c ls).length := by
  induction ls with
  | nil => simp [wireAll]
  | cons l ls ih =>
    have h1 := wire_length_pos c hc l (hv l (by simp))
    have h2 := ih (fun x hx => hv x (by simp [hx]))
    simp only [wireAll, List.map_cons, List.flatten_cons, List.length_append, List.length_cons] at *
    omega

theorem readAll_terminal (c : Consts) (n : Nat) (r : Reader) (h : (readLine c r).1.terminal = true) :
    readAll c (n + 1) r = ([(readLine c r).1], (readLine c r).2) := by
  unfold readAll
  simp only [h, if_true]

theorem readAll_plain (c : Consts) (hc : ConstsOk c) (ls : List Line) (tail : Bytes) (r : Reader)
    (hpl : ∀ l ∈ ls, Plain c r.delims r.failOnErr l)
    (hdone : r.isDone = false) (hpeek : r.peekBuf.len = 0) (hne : NonEmptyChunks r.src)
    (hflat : r.src.flatten = wireAll c ls ++ tail) (fuel : Nat) :
    ∃ r', readAll c (ls.length + fuel) r =
        (ls.map Res.line ++ (readAll c fuel r').1, (readAll c fuel r').2) ∧
      r'.isDone = false ∧ r'.peekBuf.len = 0 ∧ NonEmptyChunks r'.src ∧ r'.src.flatten = tail ∧
      r'.delims = r.delims ∧ r'.failOnErr = r.failOnErr := by
  induction ls generalizing r with
  | nil =>
    refine ⟨r, ?_, hdone, hpeek, hne, ?_, rfl, rfl⟩
    · simp
    · simpa [wireAll] using hflat
  | cons l ls ih =>
    have hl := hpl l (by simp)
    have hflat' : r.src.flatten = wire c l ++ (wireAll c ls ++ tail) := by
      rw [hflat]; simp [wireAll]
    obtain ⟨h1, h2, h3, h4, h5, h6, h7, h8, _⟩ := readLine_wire c hc r l hl.1 _ hdone hpeek hne hflat'
    rw [lineOutcome_plain c _ _ l hl] at h1 h2 h3
    simp only at h1 h2 h3
    obtain ⟨r', e1, e2, e3, e4, e5, e6, e7⟩ := ih (readLine c r).2
      (by intro x hx; rw [h8, h7]; exact hpl x (by simp [hx])) h2 (by rw [h6]; exact hpeek) h5 h4
    refine ⟨r', ?_, e2, e3, e4, e5, by rw [e6, h8], by rw [e7, h7]⟩
    have : (l :: ls).length + fuel = (ls.length + fuel) + 1 := by simp; omega
    rw [this]
    conv => lhs; unfold readAll
    simp only [h1, Res.terminal, Bool.false_eq_true, if_false]
    rw [e1]
    simp

theorem readLine_eof (c : Consts) (hc : ConstsOk c) (r : Reader) (hdone : r.isDone = false)
    (hpeek : r.peekBuf.len = 0) (hne : NonEmptyChunks r.src) (hshort : r.src.flatten.length < 4) :
    (readLine c r).1 = .io := by
  obtain ⟨hu, h1, h65, hml, _⟩ := hc
  unfold readLine
  rw [hdone]
  simp only [Bool.false_eq_true, if_false]
  rw [if_neg (by omega)]
  have hlen : (if r.buf.len ≠ c.maxLineLen then r.buf.resize c.maxLineLen else r.buf).len = c.maxLineLen := by
    split
    · rfl
    · rename_i h; simpa using h
  generalize (if r.buf.len ≠ c.maxLineLen then r.buf.resize c.maxLineLen else r.buf) = buf at hlen
  obtain ⟨cs', h1', _, _⟩ := readLineInner_flat c r.src hne buf.len
  have hx : rliFlat c r.src.flatten buf.len = (.io, [], []) := by
    unfold rliFlat takeExact
    rw [if_neg (by omega), if_neg (by omega)]
  rw [hx] at h1'
  unfold readLineInnerExhaustive
  rw [h1']

theorem readAll_lines_eof (c : Consts) (hc : ConstsOk c) (ls : List Line) (r : Reader)
    (hpl : ∀ l ∈ ls, Plain c r.delims r.failOnErr l)
    (hdone : r.isDone = false) (hpeek : r.peekBuf.len = 0) (hne : NonEmptyChunks r.src)
    (hflat : r.src.flatten = wireAll c ls) :
    (readAll c (readAllFuel r) r).1 = ls.map Res.line ++ [.io] := by
  have hlen := wireAll_length c hc ls (fun l hl => (hpl l hl).1)
  have hfuel : readAllFuel r = ls.length + ((wireAll c ls).length - ls.length + 1 + 1) := by
    unfold readAllFuel; rw [srcLen_eq_flatten, hflat]; omega
  obtain ⟨r', e1, e2, e3, e4, e5, _, _⟩ := readAll_plain c hc ls [] r hpl hdone hpeek hne (by simpa using hflat)
    ((wireAll c ls).length - ls.length + 1 + 1)
  rw [hfuel, e1]
  have hio := readLine_eof c hc r' e2 e3 e4 (by rw [e5]; simp)
  rw [readAll_terminal c _ r' (by rw [hio]; rfl), hio]

theorem readAll_lines_delim (c : Consts) (hc : ConstsOk c) (ls : List Line) (d : Line) (rest : Bytes)
    (r : Reader) (hpl : ∀ l ∈ ls, Plain c r.delims r.failOnErr l)
    (hd : r.delims.contains d = true) (hdv : d.Valid c)
    (hdone : r.isDone = false) (hpeek : r.peekBuf.len = 0) (hne : NonEmptyChunks r.src)
    (hflat : r.src.flatten = wireAll c ls ++ (wire c d ++ rest)) :
    (readAll c (readAllFuel r) r).1 = ls.map Res.line ++ [.none] ∧
      (readAll c (readAllFuel r) r).2.stoppedAt = some d ∧
      (readAll c (readAllFuel r) r).2.isDone = true ∧
      (readAll c (readAllFuel r) r).2.src.flatten = rest := by
  have hlen := wireAll_length c hc ls (fun l hl => (hpl l hl).1)
  have hfuel : readAllFuel r = ls.length + ((wireAll c ls).length - ls.length + (wire c d ++ rest).length + 1 + 1) := by
    unfold readAllFuel; rw [srcLen_eq_flatten, hflat]; simp only [List.length_append]; omega
  obtain ⟨r', e1, e2, e3, e4, e5, e6, e7⟩ := readAll_plain c hc ls (wire c d ++ rest) r hpl hdone hpeek hne hflat
    ((wireAll c ls).length - ls.length + (wire c d ++ rest).length + 1 + 1)
  rw [hfuel, e1]
  obtain ⟨h1, h2, h3, h4, _⟩ := readLine_wire c hc r' d hdv rest e2 e3 e4 e5
  have ho : lineOutcome c r'.delims r'.failOnErr d = (.none, true, some d) := by
    unfold lineOutcome; rw [e6, hd]; simp
  rw [ho] at h1 h2 h3
  simp only at h1 h2 h3
  rw [readAll_terminal c _ r' (by rw [h1]; rfl), h1]
  exact ⟨rfl, h3, h2, h4⟩

theorem checkError_errPrefix (c : Consts) (m : Bytes) : checkError c (.data (c.errPrefix ++ m)) = some m := by
  unfold checkError Line.asSlice
  simp

theorem readAll_lines_err (c : Consts) (hc : ConstsOk c) (ls : List Line) (m rest : Bytes)
    (r : Reader) (hpl : ∀ l ∈ ls, Plain c r.delims r.failOnErr l)
    (hf : r.failOnErr = true) (hd : r.delims.contains (.data (c.errPrefix ++ m)) = false)
    (hv : (Line.data (c.errPrefix ++ m)).Valid c)
    (hdone : r.isDone = false) (hpeek : r.peekBuf.len = 0) (hne : NonEmptyChunks r.src)
    (hflat : r.src.flatten = wireAll c ls ++ (wire c (.data (c.errPrefix ++ m)) ++ rest)) :
    (readAll c (readAllFuel r) r).1 = ls.map Res.line ++ [.errLine m] ∧
      (readAll c (readAllFuel r) r).2.isDone = true ∧
      (readAll c (readAllFuel r) r).2.src.flatten = rest := by
  have hlen := wireAll_length c hc ls (fun l hl => (hpl l hl).1)
  have hfuel : readAllFuel r = ls.length + ((wireAll c ls).length - ls.length +
      (wire c (.data (c.errPrefix ++ m)) ++ rest).length + 1 + 1) := by
    unfold readAllFuel; rw [srcLen_eq_flatten, hflat]; simp only [List.length_append]; omega
  obtain ⟨r', e1, e2, e3, e4, e5, e6, e7⟩ := readAll_plain c hc ls _ r hpl hdone hpeek hne hflat
    ((wireAll c ls).length - ls.length + (wire c (.data (c.errPrefix ++ m)) ++ rest).length + 1 + 1)
  rw [hfuel, e1]
  obtain ⟨h1, h2, h3, h4, _⟩ := readLine_wire c hc r' _ hv rest e2 e3 e4 e5
  have ho : lineOutcome c r'.delims r'.failOnErr (.data (c.errPrefix ++ m)) = (.errLine m, true, none) := by
    unfold lineOutcome; rw [e6, e7, hd, hf]; simp [checkError_errPrefix]
  rw [ho] at h1 h2 h3
  simp only at h1 h2 h3
  rw [readAll_terminal c _ r' (by rw [h1]; rfl), h1]
  exact ⟨rfl, h2, h4⟩

set_option linter.unusedSimpArgs false

/-! ### side-band demultiplexing -/

/-- one side-band message as handed to `band_to_write` -/
inductive Msg
  | data (d : Bytes)
  | progress (t : Bytes)
  | error (t : Bytes)
  deriving Repr, DecidableEq

def Msg.band : Msg → UInt8
  | .data _ => 1
  | .progress _ => 2
  | .error _ => 3

def Msg.payload : Msg → Bytes
  | .data d => d
  | .progress t => t
  | .error t => t

/-- the data line `band_to_write` produces -/
def Msg.line (m : Msg) : Line := .data (m.band :: m.payload)

def Msg.isData : Msg → Bool
  | .data _ => true
  | _ => false

/-- all band-1 payloads, concatenated -/
def dataOf : List Msg → Bytes
  | [] => []
  | .data d :: ms => d ++ dataOf ms
  | _ :: ms => dataOf ms

/-- the handler calls, in order: `(is_error, text)` with one trailing newline removed -/
def progressOf : List Msg → List (Bool × Bytes)
  | [] => []
  | .data _ :: ms => progressOf ms
  | .progress t :: ms => (false, textFrom t) :: progressOf ms
  | .error t :: ms => (true, textFrom t) :: progressOf ms

theorem dataOf_append (a b : List Msg) : dataOf (a ++ b) = dataOf a ++ dataOf b := by
  induction a with
  | nil => rfl
  | cons m ms ih => cases m <;> simp [dataOf, ih]

theorem progressOf_append (a b : List Msg) : progressOf (a ++ b) = progressOf a ++ progressOf b := by
  induction a with
  | nil => rfl
  | cons m ms ih => cases m <;> simp [progressOf, ih]

theorem dataOf_nodata (a : List Msg) (h : ∀ m ∈ a, m.isData = false) : dataOf a = [] := by
  induction a with
  | nil => rfl
  | cons m ms ih =>
    have := h m (by simp)
    cases m with
    | data d => simp [Msg.isData] at this
    | progress t => simp only [dataOf]; exact ih (fun x hx => h x (by simp [hx]))
    | error t => simp only [dataOf]; exact ih (fun x hx => h x (by simp [hx]))

/-- messages up to the first data message -/
theorem split_first_data (ms : List Msg) :
    (∀ m ∈ ms, m.isData = false) ∨
    ∃ pre d post, ms = pre ++ Msg.data d :: post ∧ ∀ m ∈ pre, m.isData = false := by
  induction ms with
  | nil => left; simp
  | cons m ms ih =>
    cases m with
    | data d => right; exact ⟨[], d, ms, rfl, by simp⟩
    | progress t =>
      rcases ih with h | ⟨pre, d, post, h1, h2⟩
      · left; intro x hx; simp only [List.mem_cons] at hx
        rcases hx with hx | hx
        · subst hx; rfl
        · exact h x hx
      · right; refine ⟨.progress t :: pre, d, post, by simp [h1], ?_⟩
        intro x hx; simp only [List.mem_cons] at hx
        rcases hx with hx | hx
        · subst hx; rfl
        · exact h2 x hx
    | error t =>
      rcases ih with h | ⟨pre, d, post, h1, h2⟩
      · left; intro x hx; simp only [List.mem_cons] at hx
        rcases hx with hx | hx
        · subst hx; rfl
        · exact h x hx
      · right; refine ⟨.error t :: pre, d, post, by simp [h1], ?_⟩
        intro x hx; simp only [List.mem_cons] at hx
        rcases hx with hx | hx
        · subst hx; rfl
        · exact h2 x hx

/-- the reader is ready to read the next line (not stopped, nothing peeked) -/
structure Ready (r : Reader) : Prop where
  notDone : r.isDone = false
  noPeek : r.peekBuf.len = 0
  chunks : NonEmptyChunks r.src

/-- the progress/error messages before the next data message are handed to the handler, in order -/
theorem fillLoop_progress (c : Consts) (hc : ConstsOk c) (pre : List Msg) (tail : Bytes) (r : Reader)
    (hnd : ∀ m ∈ pre, m.isData = false)
    (hpl : ∀ m ∈ pre, Plain c r.delims r.failOnErr m.line)
    (hr : Ready r) (hflat : r.src.flatten = wireAll c (pre.map Msg.line) ++ tail)
    (fuel : Nat) (log : List (Bool × Bytes)) (intr : Option Nat)
    (hni : ∀ k, intr = some k → log.length + (progressOf pre).length ≤ k) :
    ∃ r', fillLoop c intr (pre.length + fuel) r true log = fillLoop c intr fuel r' true (log ++ progressOf pre) ∧
      Ready r' ∧ r'.src.flatten = tail ∧ r'.delims = r.delims ∧ r'.failOnErr = r.failOnErr := by
  induction pre generalizing r log with
  | nil =>
    refine ⟨r, by simp [progressOf], hr, by simpa [wireAll] using hflat, rfl, rfl⟩
  | cons m ms ih =>
    have hm := hpl m (by simp)
    have hflat' : r.src.flatten = wire c m.line ++ (wireAll c (ms.map Msg.line) ++ tail) := by
      rw [hflat]; simp [wireAll]
    obtain ⟨h1, h2, h3, h4, h5, h6, h7, h8, _⟩ :=
      readLine_wire c hc r m.line hm.1 _ hr.notDone hr.noPeek hr.chunks hflat'
    rw [lineOutcome_plain c _ _ _ hm] at h1 h2 h3
    simp only at h1 h2 h3
    have hr1 : Ready (readLine c r).2 := ⟨h2, by rw [h6]; exact hr.noPeek, h5⟩
    have hnm := hnd m (by simp)
    have hfu : (m :: ms).length + fuel = (ms.length + fuel) + 1 := by simp; omega
    rcases hrl : readLine c r with ⟨x, r1⟩
    rw [hrl] at h1 h4 hr1 h7 h8
    simp only at h1 h4 hr1 h7 h8
    subst h1
    cases m with
    | data d => simp [Msg.isData] at hnm
    | progress t =>
      obtain ⟨r', e1, e2, e3, e4, e5⟩ := ih r1
        (fun x hx => hnd x (by simp [hx]))
        (by intro x hx; rw [h8, h7]; exact hpl x (by simp [hx])) hr1 h4 (log ++ [(false, textFrom t)])
        (by intro k hk; have := hni k hk; simp [progressOf] at this ⊢; omega)
      have hne : intr ≠ some log.length := by
        intro h; have := hni _ h; simp [progressOf] at this; omega
      refine ⟨r', ?_, e2, e3, by rw [e4, h8], by rw [e5, h7]⟩
      rw [hfu]
      conv => lhs; unfold fillLoop
      simp only [hrl, if_true, Msg.line, Msg.band, Msg.payload, decodeBand, Line.asSlice]
      simp only [show ((2 : UInt8) = 1) = False by decide, show ((2 : UInt8) = 2) = True by decide,
        if_false, if_true, show ((2 : Nat) = 1) = False by decide, show ((2 : Nat) == 3) = false by decide]
      rw [if_neg hne, e1]
      simp [progressOf]
    | error t =>
      obtain ⟨r', e1, e2, e3, e4, e5⟩ := ih r1
        (fun x hx => hnd x (by simp [hx]))
        (by intro x hx; rw [h8, h7]; exact hpl x (by simp [hx])) hr1 h4 (log ++ [(true, textFrom t)])
        (by intro k hk; have := hni k hk; simp [progressOf] at this ⊢; omega)
      have hne : intr ≠ some log.length := by
        intro h; have := hni _ h; simp [progressOf] at this; omega
      refine ⟨r', ?_, e2, e3, by rw [e4, h8], by rw [e5, h7]⟩
      rw [hfu]
      conv => lhs; unfold fillLoop
      simp only [hrl, if_true, Msg.line, Msg.band, Msg.payload, decodeBand, Line.asSlice]
      simp only [show ((3 : UInt8) = 1) = False by decide, show ((3 : UInt8) = 2) = False by decide,
        show ((3 : UInt8) = 3) = True by decide,
        if_false, if_true, show ((3 : Nat) = 1) = False by decide, show ((3 : Nat) == 3) = true by decide]
      rw [if_neg hne, e1]
      simp [progressOf]

/-- what `band_to_write` accepts: a non-empty payload that fits together with the band byte -/
def Msg.Valid (c : Consts) (m : Msg) : Prop := m.payload ≠ [] ∧ m.payload.length + 1 ≤ c.maxDataLen

instance (c : Consts) (m : Msg) : Decidable (m.Valid c) := by unfold Msg.Valid; infer_instance

/-- the unread rest of the data band the side-band reader is positioned in -/
def pendingOf (s : SB) : Bytes :=
  if s.pos ≥ s.cap then [] else (s.r.buf.front.take s.cap).drop s.pos

/-- invariant of `WithSidebands` while messages `rem`, a flush and `rest` are still to be read -/
structure SBInv (c : Consts) (s : SB) (rem : List Msg) (rest : Bytes) : Prop where
  handler : s.handler = true
  ready : Ready s.r
  flat : s.r.src.flatten = wireAll c (rem.map Msg.line) ++ (wire c .flush ++ rest)
  plain : ∀ m ∈ rem, Plain c s.r.delims s.r.failOnErr m.line
  valid : ∀ m ∈ rem, m.Valid c
  flushDelim : s.r.delims.contains .flush = true
  slice : s.pos ≥ s.cap ∨ (s.cap ≤ s.r.buf.len ∧ s.cap ≤ s.r.buf.front.length)

/-- the handler's next `n` calls are not the one it interrupts at -/
def NoIntr (s : SB) (n : Nat) : Prop := ∀ k, s.interruptAt = some k → s.log.length + n ≤ k

theorem fillBuf_pending (c : Consts) (s : SB) (rem : List Msg) (rest : Bytes) (h : SBInv c s rem rest)
    (hlt : s.pos < s.cap) : fillBuf c s = (.ok (pendingOf s), s) := by
  unfold fillBuf pendingOf
  rw [if_neg (by omega), if_neg (by omega)]
  rcases h.slice with h1 | ⟨h1, h2⟩
  · omega
  · unfold bufSlice
    rw [if_pos ⟨by omega, h1, h2⟩]

theorem fillFuel_ge (c : Consts) (hc : ConstsOk c) (r : Reader) (ms : List Msg) (tail : Bytes)
    (hv : ∀ m ∈ ms, m.line.Valid c) (hflat : r.src.flatten = wireAll c (ms.map Msg.line) ++ tail) :
    fillFuel r = ms.length + ((fillFuel r - ms.length - 2) + 1 + 1) := by
  have := wireAll_length c hc (ms.map Msg.line) (by
    intro l hl
    simp only [List.mem_map] at hl
    obtain ⟨m, hm, rfl⟩ := hl
    exact hv m hm)
  unfold fillFuel
  rw [srcLen_eq_flatten, hflat]
  simp only [List.length_append, List.length_map] at *
  omega

/-- with nothing pending, `fill_buf` hands the progress messages to the handler and positions
itself on the payload of the next data band -/
theorem fillBuf_data (c : Consts) (hc : ConstsOk c) (s : SB) (pre post : List Msg) (d rest : Bytes)
    (h : SBInv c s (pre ++ Msg.data d :: post) rest) (hnd : ∀ m ∈ pre, m.isData = false)
    (hge : s.pos ≥ s.cap) (hni : NoIntr s (progressOf pre).length) :
    ∃ s1, fillBuf c s = (.ok d, s1) ∧ SBInv c s1 post rest ∧ s1.pos < s1.cap ∧ pendingOf s1 = d ∧
      s1.log = s.log ++ progressOf pre ∧ s1.interruptAt = s.interruptAt := by
  have hc' := hc
  obtain ⟨hu, hmin, h65, hml, _⟩ := hc
  have hflat : s.r.src.flatten = wireAll c (pre.map Msg.line) ++
      (wire c (Msg.data d).line ++ (wireAll c (post.map Msg.line) ++ (wire c .flush ++ rest))) := by
    rw [h.flat]; simp [wireAll]
  have hfuel := fillFuel_ge c hc' s.r pre _ (fun m hm => (h.plain m (by simp [hm])).1) hflat
  obtain ⟨r', e1, e2, e3, e4, e5⟩ := fillLoop_progress c hc' pre _ s.r hnd
    (fun m hm => h.plain m (by simp [hm])) h.ready hflat ((fillFuel s.r - pre.length - 2) + 1 + 1) s.log
    s.interruptAt hni
  have hd := h.plain (Msg.data d) (by simp)
  have hdv := h.valid (Msg.data d) (by simp)
  obtain ⟨h1, h2, h3, h4, h5, h6, h7, h8, h9⟩ :=
    readLine_wire c hc' r' (Msg.data d).line hd.1 _ e2.notDone e2.noPeek e2.chunks e3
  rw [e4, e5, lineOutcome_plain c _ _ _ hd] at h1 h2 h3 h9
  simp only at h1 h2 h3 h9
  have hbuf := h9 trivial
  obtain ⟨hdne, hdlen⟩ := hdv
  simp only [Msg.payload] at hdne hdlen
  have hloop : fillLoop c s.interruptAt (fillFuel s.r) s.r true s.log =
      (.ok (c.u16HexBytes + 1) d.length, (readLine c r').2, s.log ++ progressOf pre) := by
    rw [hfuel, e1]
    conv => lhs; unfold fillLoop
    rcases hrl : readLine c r' with ⟨x, r1⟩
    rw [hrl] at h1
    simp only at h1
    subst h1
    simp only [if_true, Msg.line, Msg.band, Msg.payload, decodeBand, Line.asSlice]
    have : d.isEmpty = false := by
      cases d with
      | nil => exact absurd rfl hdne
      | cons a b => rfl
    simp [this]
  have hwire := (wire_data c hc' ((1 : UInt8) :: d) hd.1).1
  refine ⟨⟨(readLine c r').2, s.handler, c.u16HexBytes + 1, d.length + (c.u16HexBytes + 1),
    s.log ++ progressOf pre, s.interruptAt⟩, ?_, ?_, ?_, ?_, rfl, rfl⟩
  · unfold fillBuf
    rw [if_pos hge, h.handler, hloop]
    simp only
    unfold bufSlice
    rw [hbuf]
    simp only [Msg.line, Msg.band, Msg.payload, hwire]
    rw [if_pos ⟨by omega, by simp only [hu, hml]; omega, by simp [u16ToHex_length, hu]; omega⟩]
    congr 2
    rw [List.take_of_length_le (by simp [u16ToHex_length, hu]; omega)]
    rw [hu]
    show List.drop 5 (u16ToHex _ ++ ((1 : UInt8) :: d)) = d
    rw [List.drop_append]
    simp [u16ToHex_length]
  · exact {
      handler := h.handler
      ready := ⟨h2, by rw [h6]; exact e2.noPeek, h5⟩
      flat := h4
      plain := by intro m hm; rw [h8, h7, e4, e5]; exact h.plain m (by simp [hm])
      valid := fun m hm => h.valid m (by simp [hm])
      flushDelim := by rw [h8, e4]; exact h.flushDelim
      slice := Or.inr ⟨by simp only [hbuf, hu, hml]; omega, by
        simp only [hbuf, Msg.line, Msg.band, Msg.payload, hwire]
        simp [u16ToHex_length, hu]; omega⟩ }
  · simp only; have := List.length_pos_iff.mpr hdne; omega
  · unfold pendingOf
    have := List.length_pos_iff.mpr hdne
    simp only
    rw [if_neg (by omega), hbuf]
    simp only [Msg.line, Msg.band, Msg.payload, hwire]
    rw [List.take_of_length_le (by simp [u16ToHex_length, hu]; omega), hu]
    show List.drop 5 (u16ToHex _ ++ ((1 : UInt8) :: d)) = d
    rw [List.drop_append]
    simp [u16ToHex_length]

/-- with nothing pending and only progress messages before the flush, `fill_buf` delivers them
and reports the end of the data (`Ok(&[])`), leaving the reader stopped at the flush -/
theorem fillBuf_eof (c : Consts) (hc : ConstsOk c) (s : SB) (pre : List Msg) (rest : Bytes)
    (h : SBInv c s pre rest) (hnd : ∀ m ∈ pre, m.isData = false) (hge : s.pos ≥ s.cap)
    (hni : NoIntr s (progressOf pre).length) :
    ∃ s1, fillBuf c s = (.ok [], s1) ∧ s1.log = s.log ++ progressOf pre ∧
      s1.r.stoppedAt = some .flush ∧ s1.r.isDone = true ∧ s1.r.src.flatten = rest := by
  have hc' := hc
  obtain ⟨hu, hmin, h65, hml, _⟩ := hc
  have hfuel := fillFuel_ge c hc' s.r pre _ (fun m hm => (h.plain m hm).1) h.flat
  obtain ⟨r', e1, e2, e3, e4, e5⟩ := fillLoop_progress c hc' pre _ s.r hnd h.plain h.ready h.flat
    ((fillFuel s.r - pre.length - 2) + 1 + 1) s.log s.interruptAt hni
  obtain ⟨h1, h2, h3, h4, h5, h6, h7, h8, _⟩ :=
    readLine_wire c hc' r' .flush trivial _ e2.notDone e2.noPeek e2.chunks e3
  have ho : lineOutcome c r'.delims r'.failOnErr .flush = (.none, true, some .flush) := by
    unfold lineOutcome; rw [e4, h.flushDelim]; simp
  rw [ho] at h1 h2 h3
  simp only at h1 h2 h3
  have hloop : fillLoop c s.interruptAt (fillFuel s.r) s.r true s.log =
      (.ok 0 0, (readLine c r').2, s.log ++ progressOf pre) := by
    rw [hfuel, e1]
    conv => lhs; unfold fillLoop
    rcases hrl : readLine c r' with ⟨x, r1⟩
    rw [hrl] at h1
    simp only at h1
    subst h1
    rfl
  refine ⟨⟨(readLine c r').2, s.handler, 0, 0 + 0, s.log ++ progressOf pre, s.interruptAt⟩, ?_, rfl, h3, h2, h4⟩
  unfold fillBuf
  rw [if_pos hge, h.handler, hloop]
  simp only
  unfold bufSlice
  rw [if_pos ⟨by omega, by omega, by omega⟩]
  simp

/-- `Read::read` = `fill_buf` + copy + `consume`, when `fill_buf` yields `p` and leaves the
reader positioned on it -/
theorem sbRead_of_fill (c : Consts) (s s1 : SB) (p : Bytes) (n : Nat) (rem : List Msg) (rest : Bytes)
    (hfill : fillBuf c s = (.ok p, s1)) (hinv : SBInv c s1 rem rest) (hlt : s1.pos < s1.cap)
    (hp : pendingOf s1 = p) :
    ∃ s2, sbRead c s n = (.ok (p.take n), s2) ∧ SBInv c s2 rem rest ∧ pendingOf s2 = p.drop n ∧
      s2.log = s1.log ∧ s2.interruptAt = s1.interruptAt := by
  have hsl : s1.cap ≤ s1.r.buf.len ∧ s1.cap ≤ s1.r.buf.front.length := by
    rcases hinv.slice with h | h
    · omega
    · exact h
  have hplen : p.length = s1.cap - s1.pos := by
    rw [← hp]; unfold pendingOf
    rw [if_neg (by omega)]
    simp only [List.length_drop, List.length_take]
    omega
  refine ⟨{ s1 with pos := min (s1.pos + (p.take n).length) s1.cap }, ?_, ?_, ?_, rfl, rfl⟩
  · unfold sbRead
    rw [hfill]
  · exact { handler := hinv.handler, ready := hinv.ready, flat := hinv.flat, plain := hinv.plain,
            valid := hinv.valid, flushDelim := hinv.flushDelim, slice := Or.inr hsl }
  · unfold pendingOf
    simp only [List.length_take]
    by_cases hn : n ≥ s1.cap - s1.pos
    · rw [if_pos (by omega)]
      rw [List.drop_of_length_le (by omega)]
    · rw [if_neg (by omega)]
      have : min (s1.pos + min n p.length) s1.cap = s1.pos + n := by omega
      rw [this, ← hp]
      unfold pendingOf
      rw [if_neg (by omega), List.drop_drop]

/-- what a sequence of `read` calls delivers -/
structure DrainOk (c : Consts) (s : SB) (rem : List Msg) (rest acc : Bytes) (ns : List Nat)
    (out : Bytes × DrainEnd × SB) : Prop where
  ends : out.2.1 = .eof ∨ out.2.1 = .sizes
  dataPrefix : ∃ suf, acc ++ pendingOf s ++ dataOf rem = out.1 ++ suf
  logPrefix : ∃ suf, s.log ++ progressOf rem = out.2.2.log ++ suf
  atEof : out.2.1 = .eof →
    out.1 = acc ++ pendingOf s ++ dataOf rem ∧ out.2.2.log = s.log ++ progressOf rem ∧
    out.2.2.r.stoppedAt = some .flush ∧ out.2.2.r.isDone = true ∧ out.2.2.r.src.flatten = rest
  /-- every `read` before the end delivers at least one byte -/
  progressMade : out.2.1 = .sizes → acc.length + ns.length ≤ out.1.length

theorem pendingOf_ne_nil (c : Consts) (s : SB) (rem : List Msg) (rest : Bytes) (h : SBInv c s rem rest)
    (hlt : s.pos < s.cap) : pendingOf s ≠ [] := by
  rcases h.slice with h1 | ⟨h1, h2⟩
  · omega
  · intro he
    have := congrArg List.length he
    unfold pendingOf at this
    rw [if_neg (by omega)] at this
    simp only [List.length_drop, List.length_take, List.length_nil] at this
    omega

theorem take_ne_nil (p : Bytes) (n : Nat) (hp : p ≠ []) (hn : 0 < n) : (p.take n).isEmpty = false := by
  cases p with
  | nil => exact absurd rfl hp
  | cons a b =>
    cases n with
    | zero => omega
    | succ k => rfl

theorem drain_spec (c : Consts) (hc : ConstsOk c) (ns : List Nat) (hpos : ∀ n ∈ ns, 0 < n) (s : SB)
    (rem : List Msg) (rest acc : Bytes) (h : SBInv c s rem rest) (hni : NoIntr s (progressOf rem).length) :
    DrainOk c s rem rest acc ns (drain c s ns acc) := by
  induction ns generalizing s rem acc with
  | nil =>
    unfold drain
    exact ⟨Or.inr rfl, ⟨pendingOf s ++ dataOf rem, by simp⟩, ⟨progressOf rem, rfl⟩, (by intro h; cases h), (by intro _; simp)⟩
  | cons n ns ih =>
    have hn : 0 < n := hpos n (by simp)
    have hpos' : ∀ k ∈ ns, 0 < k := fun k hk => hpos k (by simp [hk])
    unfold drain
    by_cases hlt : s.pos < s.cap
    · -- inside a data band
      have hfill := fillBuf_pending c s rem rest h hlt
      obtain ⟨s2, e1, e2, e3, e4, e4i⟩ := sbRead_of_fill c s s (pendingOf s) n rem rest hfill h hlt rfl
      have hne := pendingOf_ne_nil c s rem rest h hlt
      rw [e1]
      simp only [take_ne_nil _ n hne hn, Bool.false_eq_true, if_false]
      have := ih hpos' s2 rem (acc ++ (pendingOf s).take n) e2
        (by intro k hk; rw [e4i] at hk; rw [e4]; exact hni k hk)
      have hcat : acc ++ List.take n (pendingOf s) ++ pendingOf s2 ++ dataOf rem =
          acc ++ pendingOf s ++ dataOf rem := by
        rw [e3]; simp [List.append_assoc]
      obtain ⟨a, b, cc, d, pm⟩ := this
      rw [hcat] at b d
      rw [e4] at cc d
      refine ⟨a, b, cc, d, ?_⟩
      intro hs
      have := pm hs
      have hl : 1 ≤ ((pendingOf s).take n).length := by
        have := take_ne_nil _ n hne hn
        cases hq : (pendingOf s).take n with
        | nil => rw [hq] at this; simp at this
        | cons x y => simp
      simp only [List.length_append, List.length_cons] at *
      omega
    · have hge : s.pos ≥ s.cap := by omega
      have hpend : pendingOf s = [] := by unfold pendingOf; rw [if_pos hge]
      rcases split_first_data rem with hnd | ⟨pre, d, post, hrem, hnd⟩
      · -- only progress messages before the flush
        obtain ⟨s1, e1, e2, e3, e4, e5⟩ := fillBuf_eof c hc s rem rest h hnd hge hni
        have hsb : sbRead c s n = (.ok [], { s1 with pos := min (s1.pos + 0) s1.cap }) := by
          unfold sbRead; rw [e1]; simp
        rw [hsb]
        simp only [List.isEmpty_nil, if_true]
        refine ⟨Or.inl rfl, ⟨[], by simp [hpend, dataOf_nodata rem hnd]⟩, ⟨[], by simp [e2]⟩, ?_, ?_⟩
        · intro _
          exact ⟨by simp [hpend, dataOf_nodata rem hnd], e2, e3, e4, e5⟩
        · intro hs; cases hs
      · subst hrem
        have hprog0 : progressOf (pre ++ Msg.data d :: post) = progressOf pre ++ progressOf post := by
          rw [progressOf_append]; rfl
        obtain ⟨s1, e1, e2, e3, e4, e5, e5i⟩ := fillBuf_data c hc s pre post d rest h hnd hge
          (by intro k hk; have := hni k hk; rw [hprog0] at this; simp only [List.length_append] at this; omega)
        obtain ⟨s2, f1, f2, f3, f4, f4i⟩ := sbRead_of_fill c s s1 d n post rest e1 e2 e3 e4
        have hdne : d ≠ [] := (h.valid (Msg.data d) (by simp)).1
        rw [f1]
        simp only [take_ne_nil _ n hdne hn, Bool.false_eq_true, if_false]
        have := ih hpos' s2 post (acc ++ d.take n) f2
          (by intro k hk; rw [f4i, e5i] at hk; have := hni k hk; rw [hprog0] at this
              rw [f4, e5]; simp only [List.length_append] at this ⊢; omega)
        have hdata : dataOf (pre ++ Msg.data d :: post) = d ++ dataOf post := by
          rw [dataOf_append, dataOf_nodata pre hnd]; rfl
        have hprog : progressOf (pre ++ Msg.data d :: post) = progressOf pre ++ progressOf post := by
          rw [progressOf_append]; rfl
        have hcat : acc ++ List.take n d ++ pendingOf s2 ++ dataOf post =
            acc ++ pendingOf s ++ dataOf (pre ++ Msg.data d :: post) := by
          rw [f3, hpend, hdata]; simp [List.append_assoc]
        have hlog : s2.log ++ progressOf post = s.log ++ progressOf (pre ++ Msg.data d :: post) := by
          rw [f4, e5, hprog]; simp [List.append_assoc]
        obtain ⟨a, b, cc, dd, pm⟩ := this
        rw [hcat] at b dd
        rw [hlog] at cc dd
        refine ⟨a, b, cc, dd, ?_⟩
        intro hs
        have := pm hs
        have hl : 1 ≤ (d.take n).length := by
          have := take_ne_nil _ n hdne hn
          cases hq : d.take n with
          | nil => rw [hq] at this; simp at this
          | cons x y => simp
        simp only [List.length_append, List.length_cons] at *
        omega

/-! ### the decoder never looks behind a complete line -/

theorem streaming_ignores_rest (c : Consts) (hc : ConstsOk c) (front rest : Bytes) (l : Line) (n : Nat)
    (h : streaming c front = .ok (.complete l n)) :
    streaming c (front ++ rest) = .ok (.complete l n) := by
  obtain ⟨hu, _⟩ := hc
  unfold streaming at h ⊢
  rw [hu] at h ⊢
  by_cases h4 : front.length < 4
  · rw [if_pos h4] at h; simp at h
  · rw [if_neg h4] at h
    rw [if_neg (by simp; omega)]
    have ht : (front ++ rest).take 4 = front.take 4 := List.take_append_of_le_length (by omega)
    rw [ht]
    cases hp : hexPrefix c (front.take 4) with
    | panic => rw [hp] at h; simp at h
    | err e => rw [hp] at h; simp at h
    | ok p =>
      rw [hp] at h
      cases p with
      | line l' => exact h
      | wanted s =>
        simp only at h ⊢
        by_cases hw : s + 4 > c.maxLineLen
        · rw [if_pos hw] at h; simp at h
        · rw [if_neg hw] at h ⊢
          by_cases hl : front.length < s + 4
          · rw [if_pos hl] at h; simp at h
          · rw [if_neg hl] at h
            rw [if_neg (by simp; omega)]
            have ht2 : (front ++ rest).take (s + 4) = front.take (s + 4) :=
              List.take_append_of_le_length (by omega)
            rw [ht2]
            exact h

theorem allAtOnce_ignores_rest (c : Consts) (hc : ConstsOk c) (front rest : Bytes) (l : Line)
    (h : allAtOnce c front = .ok l) : allAtOnce c (front ++ rest) = .ok l := by
  unfold allAtOnce at h ⊢
  cases hs : streaming c front with
  | panic => rw [hs] at h; simp at h
  | err e => rw [hs] at h; simp at h
  | ok st =>
    rw [hs] at h
    cases st with
    | incomplete k => simp at h
    | complete l' n =>
      simp only [Out.ok.injEq] at h
      subst h
      rw [streaming_ignores_rest c hc front rest l' n hs]

/-! ### typed views -/

theorem textFrom_append_nl (t : Bytes) : textFrom (t ++ [10]) = t := by
  unfold textFrom
  simp

theorem streaming_total (c : Consts) (hc : ConstsOk c) (data : Bytes) : streaming c data ≠ .panic := by
  have hc' := hc
  obtain ⟨hu, _⟩ := hc
  unfold streaming
  rw [hu]
  by_cases h4 : data.length < 4
  · rw [if_pos h4]; simp
  · rw [if_neg h4]
    have htot := hexPrefix_total c hc' (data.take 4) (by rw [List.length_take]; omega)
    cases hp : hexPrefix c (data.take 4) with
    | panic => exact absurd hp htot
    | err e => simp
    | ok p =>
      cases p with
      | line l => simp
      | wanted s =>
        simp only
        split
        · simp
        · split
          · simp
          · have ht : ∀ d, toDataLine c d ≠ .panic := by
              intro d; unfold toDataLine; split <;> simp
            cases hd : toDataLine c (List.drop 4 (List.take (s + 4) data)) with
            | panic => exact absurd hd (ht _)
            | err e => simp
            | ok l => simp

end GixModel.C29
