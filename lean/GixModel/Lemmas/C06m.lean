import GixModel.Model.C06m
import GixModel.Lemmas.C06
import GixModel.Lemmas.C06d
/-
C06 (round 2) — opening a multi-pack index never panics (Model/C06m.lean), for every order on
pack names.
-/
namespace GixModel.C06
open GixModel
open GixModel.C14 (Chunk tocParse findChunk)
open GixModel.C06C14 (WF tocParse_inv findChunk_mem)

theorem dataById_ne_none (data : Bytes) (chunks : List Chunk) (id : Bytes)
    (hwf : ∀ c ∈ chunks, WF data.length c) : dataById data chunks id ≠ none := by
  unfold dataById
  split
  · simp
  · rename_i c hc
    have h : c.start ≤ c.stop ∧ c.stop ≤ data.length := hwf c (findChunk_mem _ _ _ hc)
    simp only [slice, if_pos h]
    simp

theorem namesFromBytes_ne_none (ordered : Bytes → Bytes → Bool) :
    ∀ (n : Nat) (chunk : Bytes) (prev : Option Bytes), namesFromBytes ordered n chunk prev ≠ none
  | 0, chunk, prev => by simp [namesFromBytes]
  | n + 1, chunk, prev => by
    unfold namesFromBytes
    cases h : findByte 0 chunk with
    | none => simp
    | some pos =>
      have hlt := findByte_lt _ _ _ h
      simp only [sliceTo, if_pos (Nat.le_of_lt hlt)]
      split
      · simp
      · have hle : pos + 1 ≤ chunk.length := by omega
        simp only [sliceFrom, if_pos hle]
        exact namesFromBytes_ne_none ordered n _ _

theorem fanFromBytes_length : ∀ (k : Nat) (d : Bytes), (fanFromBytes k d).length = k
  | 0, _ => rfl
  | k + 1, d => by unfold fanFromBytes; rw [List.length_cons, fanFromBytes_length k]

theorem loffOk_ne_none (data : Bytes) (chunks : List Chunk) (hwf : ∀ c ∈ chunks, WF data.length c) :
    loffOk chunks ≠ none := by
  unfold loffOk
  split
  · exact Option.some_ne_none _
  · rename_i lo hlo
    have wlo : lo.start ≤ lo.stop ∧ lo.stop ≤ data.length := hwf lo (findChunk_mem _ _ _ hlo)
    have n3 : ¬ (lo.stop < lo.start) := by omega
    rw [if_neg n3]; exact Option.some_ne_none _

theorem midxTrailer_ne_none (data : Bytes) (chunks : List Chunk) (hwf : ∀ c ∈ chunks, WF data.length c)
    (hne : chunks ≠ []) : midxTrailer data chunks ≠ none := by
  unfold midxTrailer
  cases hl : chunks.getLast? with
  | none => simp [List.getLast?_eq_none_iff] at hl; exact absurd hl hne
  | some last =>
    have wl : last.start ≤ last.stop ∧ last.stop ≤ data.length := hwf last (List.mem_of_getLast? hl)
    simp only [sliceFrom, if_pos wl.2]
    exact Option.some_ne_none _

theorem midxTail_ne_none (data : Bytes) (chunks : List Chunk) (n : Nat) (hwf : ∀ c ∈ chunks, WF data.length c)
    (hne : chunks ≠ []) : midxTail data chunks n ≠ none := by
  unfold midxTail
  cases hol : findChunk chunks OIDLm with
  | none => exact Option.some_ne_none _
  | some ol =>
    have wol : ol.start ≤ ol.stop ∧ ol.stop ≤ data.length := hwf ol (findChunk_mem _ _ _ hol)
    have n1 : ¬ (ol.stop < ol.start) := by omega
    simp only [if_neg n1]
    by_cases c1 : (ol.stop - ol.start) / 20 ≠ n
    · rw [if_pos c1]; exact Option.some_ne_none _
    · rw [if_neg c1]
      cases hoo : findChunk chunks OOFF with
      | none => exact Option.some_ne_none _
      | some oo =>
        have woo : oo.start ≤ oo.stop ∧ oo.stop ≤ data.length := hwf oo (findChunk_mem _ _ _ hoo)
        have n2 : ¬ (oo.stop < oo.start) := by omega
        simp only [if_neg n2]
        by_cases c2 : (if n = 0 then oo.stop ≠ oo.start else (oo.stop - oo.start) / n ≠ 8)
        · rw [if_pos c2]; exact Option.some_ne_none _
        · rw [if_neg c2]
          have hl := loffOk_ne_none data chunks hwf
          cases hlo : loffOk chunks with
          | none => exact absurd hlo hl
          | some b =>
            cases b with
            | false => exact Option.some_ne_none _
            | true => exact midxTrailer_ne_none data chunks hwf hne

theorem midxFan_ne_none (data : Bytes) (chunks : List Chunk) (hwf : ∀ c ∈ chunks, WF data.length c)
    (hne : chunks ≠ []) : midxFan data chunks ≠ none := by
  unfold midxFan
  have hf := dataById_ne_none data chunks OIDFm hwf
  split
  · rename_i heq; exact absurd heq hf
  · exact Option.some_ne_none _
  · rename_i fanBytes _
    split
    · exact Option.some_ne_none _
    · split
      · exact Option.some_ne_none _
      · have hl := fanFromBytes_length 256 fanBytes
        have h255 : (fanFromBytes 256 fanBytes)[255]? = some ((fanFromBytes 256 fanBytes)[255]'(by omega)) := by
          simp [hl]
        rw [h255]
        exact midxTail_ne_none data chunks _ hwf hne

theorem midxChunks_ne_none (ordered : Bytes → Bytes → Bool) (data : Bytes) (chunks : List Chunk) (ni : Nat)
    (hwf : ∀ c ∈ chunks, WF data.length c) (hne : chunks ≠ []) : midxChunks ordered data chunks ni ≠ none := by
  unfold midxChunks
  have hp := dataById_ne_none data chunks PNAM hwf
  split
  · rename_i heq; exact absurd heq hp
  · exact Option.some_ne_none _
  · rename_i names _
    have hn := namesFromBytes_ne_none ordered ni names none
    split
    · rename_i heq; exact absurd heq hn
    · exact Option.some_ne_none _
    · exact midxFan_ne_none data chunks hwf hne

theorem midxHeader_ne_none (ordered : Bytes → Bytes → Bool) (data d : Bytes) (h12 : 12 ≤ data.length)
    (hd : 8 ≤ d.length) : midxHeader ordered data d ≠ none := by
  match d, hd with
  | ver :: hk :: nc :: nb :: d', hd =>
    unfold midxHeader
    simp only []
    by_cases c1 : ver ≠ 1
    · rw [if_pos c1]; exact Option.some_ne_none _
    · rw [if_neg c1]
      by_cases c2 : hk ≠ 1
      · rw [if_pos c2]; exact Option.some_ne_none _
      · rw [if_neg c2]
        have h4' : 4 ≤ d'.length := by simp at hd; omega
        simp only [splitAt, if_pos h4']
        have hni : ¬ ((List.take 4 d').length ≠ 4) := by rw [List.length_take]; omega
        rw [if_neg hni]
        obtain ⟨r, hr, hprop⟩ := tocParse_inv data 12 nc.toNat h12
        rw [hr]
        cases r with
        | error e => exact Option.some_ne_none _
        | ok chunks =>
          obtain ⟨hwf, hne⟩ := hprop chunks rfl
          exact midxChunks_ne_none ordered data chunks _ hwf hne
  | [], hd => simp at hd
  | [_], hd => simp at hd
  | [_, _], hd => simp at hd
  | [_, _, _], hd => simp at hd

/-- `multi_index::File::try_from` on ANY bytes, for ANY order on the pack names: never a panic -/
theorem midxOpen_ne_none (ordered : Bytes → Bytes → Bool) (data : Bytes) : midxOpen ordered data ≠ none := by
  unfold midxOpen
  by_cases hlen : data.length < 12 + 5 * 12 + 1024 + 20
  · rw [if_pos hlen]; exact Option.some_ne_none _
  · rw [if_neg hlen]
    have h4 : 4 ≤ data.length := by omega
    simp only [splitAt, if_pos h4]
    split
    · exact Option.some_ne_none _
    · exact midxHeader_ne_none ordered data _ (by omega) (by rw [List.length_drop]; omega)

end GixModel.C06
