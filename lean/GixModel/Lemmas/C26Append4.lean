import GixModel.Lemmas.C26Append3
/-
C26 — appended newline without the "text does not end in CR" hypothesis: a rest `[13]` anywhere
inside an accepted text is impossible (the remaining parse would fail), which is all the hypothesis
was used for.
-/
namespace GixModel.C26
open GixModel

theorem bodyLoop13 (f : Nat) : bodyLoop f [13] = some ([], [13]) := by
  cases f with
  | zero => rfl
  | succ n => simp [bodyLoop, show bodyIter [13] = some ([], [13]) by decide]

theorem frontLoop13 (f : Nat) : frontLoop f [13] = ([], [13]) := by
  cases f with
  | zero => rfl
  | succ n => simp [frontLoop, show frontStep [13] = none by decide]

theorem bodyLoop_appH {t : Bytes} (ht : NL t) {G : Event → Bool} (hG : EofOk t G) : ∀ (f : Nat) (a : Bytes) (evs : List Event) (b : Bytes) (g : Nat),
    bodyLoop f a = some (evs, b) → a.length < f → (a ++ t).length < g → b ≠ [13] →
    (b ≠ [] → bodyLoop g (a ++ t) = some (evs, b ++ t)) ∧
    (b = [] → GoodEndG G evs → bodyLoop g (a ++ t) = some (evs ++ [.newline t], [])) := by
  intro f
  induction f with
  | zero => intro a evs b g _ hf; omega
  | succ f ih =>
    intro a evs b g h hf hg hq
    obtain ⟨g', rfl⟩ : ∃ g', g = g' + 1 := ⟨g - 1, by omega⟩
    have htpos : 0 < t.length := by rcases ht with rfl | rfl <;> simp
    simp only [bodyLoop] at h
    cases hbi : bodyIter a with
    | none => simp [hbi] at h
    | some p =>
      obtain ⟨e1, r1⟩ := p
      simp only [hbi] at h
      have hok := bodyIter_ok hbi
      have hle : r1.length ≤ a.length := length_le_of_ok hok
      by_cases hprog : r1.length = a.length
      · simp only [hprog, beq_self_eq_true, ↓reduceIte, Option.some.injEq, Prod.mk.injEq] at h
        obtain ⟨rfl, rfl⟩ := h
        by_cases ha : a = []
        · subst ha
          have hr1 : r1 = [] := by simpa using hprog
          subst hr1
          have : bodyIter [] = some ([], []) := by decide
          rw [this] at hbi
          simp only [Option.some.injEq, Prod.mk.injEq] at hbi
          obtain ⟨rfl, _⟩ := hbi
          refine ⟨fun h => absurd rfl h, fun _ _ => ?_⟩
          simp only [List.nil_append]
          exact bodyLoop_nl ht _ (by simpa using hg)
        · have hr1 : r1 ≠ [] := by
            intro he; subst he; simp at hprog; exact ha (by simpa using hprog.symm)
          have hit := bodyIter_app ht hbi hr1 hq
          refine ⟨fun _ => ?_, fun he => absurd he hr1⟩
          simp only [bodyLoop, hit]
          simp [hprog]
      · have hne : (r1.length == a.length) = false := by simpa using hprog
        simp only [hne, Bool.false_eq_true, ↓reduceIte] at h
        cases hbl : bodyLoop f r1 with
        | none => simp [hbl] at h
        | some q =>
          obtain ⟨more, r'⟩ := q
          simp only [hbl, Option.some.injEq, Prod.mk.injEq] at h
          obtain ⟨rfl, rfl⟩ := h
          by_cases hr1 : r1 = []
          · subst hr1
            rw [bodyLoop_nil] at hbl
            simp only [Option.some.injEq, Prod.mk.injEq] at hbl
            obtain ⟨rfl, rfl⟩ := hbl
            refine ⟨fun h => absurd rfl h, fun _ hge => ?_⟩
            have ha : a ≠ [] := by intro he; subst he; simp at hprog
            simp only [List.append_nil] at hge ⊢
            have hapos : 0 < a.length := List.length_pos_iff.mpr ha
            have hl : ∃ e, e1.getLast? = some e ∧ G e = true := by
              rcases hge with he | he
              · subst he; simp [renderRaw] at hok; exact absurd hok ha
              · exact he
            rcases hG a e1 hbi ha hl with hit | hit
            · simp only [bodyLoop, hit]
              have : (t.length == (a ++ t).length) = false := by simp; omega
              simp only [this, Bool.false_eq_true, ↓reduceIte]
              rw [bodyLoop_nl ht g' (by simp at hg; omega)]
            · simp only [bodyLoop, hit]
              have : (([] : Bytes).length == (a ++ t).length) = false := by simp; omega
              simp only [this, Bool.false_eq_true, ↓reduceIte]
              rw [bodyLoop_nil]
              simp
          · have h13 : r1 ≠ [13] := by
              intro h13
              rw [h13, bodyLoop13] at hbl
              simp only [Option.some.injEq, Prod.mk.injEq] at hbl
              exact hq hbl.2.symm
            have hit := bodyIter_app ht hbi hr1 h13
            have hih := ih r1 more r' g' hbl (by omega) (by simp at hg ⊢; omega) hq
            have hne' : ((r1 ++ t).length == (a ++ t).length) = false := by simp; omega
            constructor
            · intro hb
              simp only [bodyLoop, hit, hne', Bool.false_eq_true, ↓reduceIte, hih.1 hb]
            · intro hb hge
              subst hb
              have hmore : more ≠ [] := renderRaw_nil_of (bodyLoop_ok _ _ _ _ hbl) hr1
              have hge' : GoodEndG G more := by
                right
                rcases hge with he | ⟨e, he, hv⟩
                · simp at he; exact absurd he.2 hmore
                · rw [getLast?_append_ne _ _ hmore] at he; exact ⟨e, he, hv⟩
              simp only [bodyLoop, hit, hne', Bool.false_eq_true, ↓reduceIte, hih.2 rfl hge']
              simp


theorem sectionRaw_appH {t : Bytes} (ht : NL t) {G : Event → Bool} (hG : EofOk t G) {a b : Bytes} {evs : List Event} (h : sectionRaw a = some (evs, b)) (hq : b ≠ [13]) :
    (b ≠ [] → sectionRaw (a ++ t) = some (evs, b ++ t)) ∧
    (b = [] → LastOkG G evs → sectionRaw (a ++ t) = some (evs ++ [.newline t], [])) := by
  unfold sectionRaw at h ⊢
  cases hh : sectionHeaderRaw a with
  | none => simp [hh] at h
  | some p =>
    obtain ⟨hd, r0⟩ := p
    simp only [hh] at h
    rw [sectionHeaderRaw_app ht hh]
    simp only
    cases hb : bodyLoop (r0.length + 1) r0 with
    | none => simp [hb] at h
    | some q =>
      obtain ⟨body, r'⟩ := q
      simp only [hb, Option.some.injEq, Prod.mk.injEq] at h
      obtain ⟨rfl, rfl⟩ := h
      have := bodyLoop_appH ht hG (r0.length + 1) r0 body r' ((r0 ++ t).length + 1) hb (by omega) (by omega) hq
      constructor
      · intro hne
        rw [this.1 hne]
      · intro he hl
        subst he
        have hge : GoodEndG G body := by
          obtain ⟨e, hle, hv⟩ := hl
          by_cases hbody : body = []
          · exact Or.inl hbody
          · right
            rw [show Event.header hd :: body = [Event.header hd] ++ body from rfl, getLast?_append_ne _ _ hbody] at hle
            rcases hv with hv | hv
            · exact ⟨e, hle, hv⟩
            · exfalso
              have := bodyLoop_no_header _ _ _ _ hb e (List.mem_of_getLast? hle)
              rw [this] at hv; simp at hv
        rw [this.2 rfl hge]
        simp


theorem sectionsRaw_appH {t : Bytes} (ht : NL t) {G : Event → Bool} (hG : EofOk t G) : ∀ (f : Nat) (a : Bytes) (evs : List Event) (g : Nat),
    sectionsRaw f a = some evs → a ≠ [] → a.length ≤ f → (a ++ t).length ≤ g → LastOkG G evs →
    sectionsRaw g (a ++ t) = some (evs ++ [.newline t]) := by
  intro f
  induction f with
  | zero => intro a evs g _ ha hf; simp at hf; exact absurd hf ha
  | succ f ih =>
    intro a evs g h ha hf hg hl
    have htpos : 0 < t.length := by rcases ht with rfl | rfl <;> simp
    obtain ⟨g', rfl⟩ : ∃ g', g = g' + 1 := ⟨g - 1, by simp at hg; omega⟩
    have hae : a.isEmpty = false := by simpa using ha
    have hate : (a ++ t).isEmpty = false := by simp [ha]
    simp only [sectionsRaw, hae, hate, Bool.false_eq_true, ↓reduceIte] at h ⊢
    cases hs : sectionRaw a with
    | none => simp [hs] at h
    | some p =>
      obtain ⟨e1, r⟩ := p
      simp only [hs, Option.map_eq_some_iff] at h
      obtain ⟨more, hm, rfl⟩ := h
      obtain ⟨hlt, hd, body, rfl⟩ := sectionRaw_shrinks hs
      have hok := sectionRaw_ok hs
      have hr13 : r ≠ [13] := by
        intro h13
        rw [h13] at hm
        cases f <;> simp [sectionsRaw, show sectionRaw [13] = none by decide] at hm
      have hsa := sectionRaw_appH ht hG hs hr13
      by_cases hr : r = []
      · subst hr
        have hmore : more = [] := by
          cases f <;> simp [sectionsRaw] at hm <;> exact hm
        subst hmore
        simp only [List.append_nil] at hl ⊢
        rw [hsa.2 rfl hl]
        cases g' <;> simp [sectionsRaw]
      · rw [hsa.1 hr]
        simp only
        have hmne : more ≠ [] := by
          intro he; subst he
          have := sectionsRaw_ok _ _ _ hm
          simp [renderRaw] at this; exact hr this
        have hl' : LastOkG G more := by
          obtain ⟨e, hle, hv⟩ := hl
          rw [getLast?_append_ne _ _ hmne] at hle
          exact ⟨e, hle, hv⟩
        rw [ih r more g' hm hr (by omega) (by simp at hg ⊢; omega) hl']
        simp



theorem frontLoop_appH {t : Bytes} (ht : NL t) : ∀ (f : Nat) (a : Bytes) (g : Nat),
    a.length ≤ f → (a ++ t).length ≤ g → (frontLoop f a).2 ≠ [13] → (frontLoop f a).2 ≠ [] →
    frontLoop g (a ++ t) = ((frontLoop f a).1, (frontLoop f a).2 ++ t) := by
  intro f
  induction f with
  | zero =>
    intro a g hf _ _ h
    have : a = [] := by simpa using hf
    subst this
    simp [frontLoop] at h
  | succ f ih =>
    intro a g hf hg hq h
    have htpos : 0 < t.length := by rcases ht with rfl | rfl <;> simp
    obtain ⟨g', rfl⟩ : ∃ g', g = g' + 1 := ⟨g - 1, by simp at hg; omega⟩
    simp only [frontLoop] at h hq ⊢
    cases hs : frontStep a with
    | none =>
      simp only [hs] at h hq ⊢
      have ha : a ≠ [] := h
      simp [frontStep_none_app ht hs ha hq]
    | some p =>
      obtain ⟨e, r⟩ := p
      simp only [hs] at h hq ⊢
      have hok := frontStep_ok hs
      have hr : r ≠ [] := by
        intro he; subst he
        have := frontLoop_ok f []
        cases hfl : frontLoop f [] with
        | mk x y =>
          rw [hfl] at this h
          simp at this
          exact h this.2
      have hr13 : r ≠ [13] := by
        intro h13
        rw [h13, frontLoop13] at hq
        exact hq rfl
      rw [frontStep_app ht hs hr hr13]
      simp only
      rw [ih r g' (by omega) (by simp at hg ⊢; omega) hq h]


theorem parseRaw_appH {t : Bytes} (ht : NL t) {G : Event → Bool} (hG : EofOk t G) {bs : Bytes} {evs : List Event} (h : parseRaw bs = some evs)
    (hb : noBomHead bs = true) (hh : ∃ e ∈ evs, isHeaderEv e = true) (hl : LastOkG G evs) :
    parseRaw (bs ++ t) = some (evs ++ [.newline t]) := by
  unfold parseRaw at h ⊢
  rw [bomLen_of_noBomHead _ (noBomHead_app ht bs hb)]
  rw [bomLen_of_noBomHead _ hb] at h
  simp only [List.drop_zero] at h ⊢
  by_cases he : (frontLoop bs.length bs).2.isEmpty = true
  · exfalso
    simp only [he, ↓reduceIte, Option.some.injEq] at h
    obtain ⟨e, hmem, hv⟩ := hh
    rw [← h] at hmem
    have := frontLoop_kind2 bs.length bs e hmem
    rw [this] at hv; simp at hv
  · simp only [he, Bool.false_eq_true, ↓reduceIte, Option.map_eq_some_iff] at h
    obtain ⟨more, hm, rfl⟩ := h
    have hne : (frontLoop bs.length bs).2 ≠ [] := by simpa using he
    have h13 : (frontLoop bs.length bs).2 ≠ [13] := by
      intro h13
      rw [h13] at hm
      simp [sectionsRaw, show sectionRaw [13] = none by decide] at hm
    have hfl := frontLoop_appH ht bs.length bs (bs ++ t).length (by omega) (by omega) h13 hne
    rw [hfl]
    have hok := frontLoop_ok bs.length bs
    have hmne : more ≠ [] := by
      intro hmm; subst hmm
      have := sectionsRaw_ok _ _ _ hm
      simp [renderRaw] at this; exact hne this
    have hl' : LastOkG G more := by
      obtain ⟨e, hle, hv⟩ := hl
      rw [getLast?_append_ne _ _ hmne] at hle
      exact ⟨e, hle, hv⟩
    have hs := sectionsRaw_appH ht hG _ _ more ((frontLoop bs.length bs).2 ++ t).length hm hne (by omega) (by omega) hl'
    simp only
    have hne2 : ((frontLoop bs.length bs).2 ++ t).isEmpty = false := by simp [hne]
    simp only [hne2, Bool.false_eq_true, ↓reduceIte, hs]
    simp



/-- the file read back from the text with the final newline appended, parametric -/
theorem fileFromBytes_app_eqH {t : Bytes} (ht : NL t) {G : Event → Bool} (hG : EofOk t G)
    (hGr : ∀ e : Event, G e.toReal = G e) {bs : Bytes} {f : File} (h : fileFromBytes bs = some f)
    (hb : noBomHead bs = true) (hsec : f.sections ≠ []) (hl : LastOkG G f.events) :
    fileFromBytes (bs ++ t) = some (fileOfEvents (f.events ++ [.newline t])) := by
  have hhd : ∃ e ∈ f.events, isHeaderEv e = true := by
    cases hs : f.sections with
    | nil => exact absurd hs hsec
    | cons s ss => exact ⟨.header s.header, by simp [File.events, hs], rfl⟩
  unfold fileFromBytes parseEvents at h ⊢
  simp only [Option.map_eq_some_iff] at h
  obtain ⟨evs, ⟨revs, hr, rfl⟩, rfl⟩ := h
  rw [fileOfEvents_events] at hl hhd ⊢
  have hl' : LastOkG G revs := by
    obtain ⟨e, hle, hv⟩ := hl
    rw [List.getLast?_map] at hle
    cases hg : revs.getLast? with
    | none => rw [hg] at hle; simp at hle
    | some e0 =>
      rw [hg] at hle
      simp only [Option.map_some, Option.some.injEq] at hle
      subst hle
      exact ⟨e0, hg, by rw [← hGr, ← isHeaderEv_toReal]; exact hv⟩
  have hh' : ∃ e ∈ revs, isHeaderEv e = true := by
    obtain ⟨e, hmem, hv⟩ := hhd
    simp only [List.mem_map] at hmem
    obtain ⟨e0, h0, rfl⟩ := hmem
    exact ⟨e0, h0, by rw [← isHeaderEv_toReal]; exact hv⟩
  rw [parseRaw_appH ht hG hr hb hh' hl']
  simp [Event.toReal]

/-! ### no byte-order mark, from parse success -/

theorem frontStep_head {c : UInt8} {r r1 : Bytes} {e : Event} (h : frontStep (c :: r) = some (e, r1)) :
    c = 59 ∨ c = 35 ∨ c = 32 ∨ c = 9 ∨ c = 10 ∨ c = 13 := by
  unfold frontStep at h
  cases hc : comment (c :: r) with
  | some x =>
    simp only [comment] at hc
    split at hc
    · rename_i hx
      simp only [Bool.or_eq_true, beq_iff_eq] at hx
      rcases hx with hx | hx
      · exact Or.inl hx
      · exact Or.inr (Or.inl hx)
    · simp at hc
  | none =>
    simp only [hc] at h
    cases hs : takeSpaces1 (c :: r) with
    | some x =>
      unfold takeSpaces1 at hs
      simp only at hs
      split at hs
      · simp at hs
      · rename_i hne
        by_cases hsp : isSpace c = true
        · simp only [isSpace, Bool.or_eq_true, beq_iff_eq] at hsp
          rcases hsp with hsp | hsp
          · exact Or.inr (Or.inr (Or.inl hsp))
          · exact Or.inr (Or.inr (Or.inr (Or.inl hsp)))
        · simp [spanP, List.takeWhile_cons, hsp] at hne
    | none =>
      simp only [hs] at h
      cases hn : takeNewlines1 (c :: r) with
      | none => simp [hn] at h
      | some x =>
        unfold takeNewlines1 at hn
        simp only at hn
        split at hn
        · simp at hn
        · rename_i hne
          by_cases h10 : c = 10
          · exact Or.inr (Or.inr (Or.inr (Or.inr (Or.inl h10))))
          · by_cases h13 : c = 13
            · exact Or.inr (Or.inr (Or.inr (Or.inr (Or.inr h13))))
            · exfalso
              apply hne
              rw [takeNewlines.eq_def]
              split
              · rfl
              · rename_i heq; simp at heq; exact absurd heq.1 h13
              · rename_i heq; simp at heq; exact absurd heq.1 h10
              · rfl

theorem noBomHead_of_parse {bs : Bytes} {evs : List Event} (h : parseRaw bs = some evs) (hb : bomLen bs = 0) :
    noBomHead bs = true := by
  unfold parseRaw at h
  rw [hb] at h
  simp only [List.drop_zero] at h
  cases bs with
  | nil => rfl
  | cons c r =>
    simp only [List.length_cons, frontLoop] at h
    have key : c = 59 ∨ c = 35 ∨ c = 32 ∨ c = 9 ∨ c = 10 ∨ c = 13 ∨ c = 91 := by
      cases hs : frontStep (c :: r) with
      | some p =>
        obtain ⟨e, r1⟩ := p
        rcases frontStep_head hs with h1 | h1 | h1 | h1 | h1 | h1
        · exact Or.inl h1
        · exact Or.inr (Or.inl h1)
        · exact Or.inr (Or.inr (Or.inl h1))
        · exact Or.inr (Or.inr (Or.inr (Or.inl h1)))
        · exact Or.inr (Or.inr (Or.inr (Or.inr (Or.inl h1))))
        · exact Or.inr (Or.inr (Or.inr (Or.inr (Or.inr (Or.inl h1)))))
      | none =>
        simp only [hs, List.isEmpty_cons, Bool.false_eq_true, ↓reduceIte, List.length_cons, sectionsRaw,
          Option.map_eq_some_iff] at h
        obtain ⟨more, hm, _⟩ := h
        cases hsr : sectionRaw (c :: r) with
        | none => simp [hsr] at hm
        | some q =>
          unfold sectionRaw at hsr
          cases hh : sectionHeaderRaw (c :: r) with
          | none => simp [hh] at hsr
          | some hq =>
            unfold sectionHeaderRaw at hh
            split at hh
            · rename_i heq
              simp only [List.cons.injEq] at heq
              exact Or.inr (Or.inr (Or.inr (Or.inr (Or.inr (Or.inr heq.1)))))
            · simp at hh
    rcases key with h1 | h1 | h1 | h1 | h1 | h1 | h1 <;> subst h1 <;> rfl

theorem write_eq_writeRaw_of_not_header {e : Event} (h : isHeaderEv e = false) : e.toReal.write = e.writeRaw := by
  cases e <;> simp_all [isHeaderEv, Event.toReal, Event.write, Event.writeRaw, Event.writeWith]

theorem noBomHead_cons_good {c : UInt8} (r : Bytes) (h : c = 59 ∨ c = 35 ∨ c = 32 ∨ c = 9 ∨ c = 10 ∨ c = 13 ∨ c = 91) :
    noBomHead (c :: r) = true := by
  rcases h with h1 | h1 | h1 | h1 | h1 | h1 | h1 <;> subst h1 <;> rfl

/-- what the parsed events are written as never starts with a byte-order mark byte -/
theorem noBomHead_render_of_parse {bs : Bytes} {revs : List Event} (h : parseRaw bs = some revs) :
    noBomHead (render (revs.map Event.toReal)) = true := by
  unfold parseRaw at h
  simp only at h
  generalize bs.drop (bomLen bs) = i0 at h
  cases i0 with
  | nil =>
    simp [frontLoop] at h
    subst h; rfl
  | cons c r =>
    simp only [List.length_cons, frontLoop] at h
    cases hs : frontStep (c :: r) with
    | some p =>
      obtain ⟨e, r1⟩ := p
      simp only [hs] at h
      have hk := frontStep_kind2 hs
      have hok := frontStep_ok hs
      have hhead := frontStep_head hs
      have hrevs : ∃ rest, revs = e :: rest := by
        split at h
        · simp only [Option.some.injEq] at h; exact ⟨_, h.symm⟩
        · simp only [Option.map_eq_some_iff] at h
          obtain ⟨more, _, rfl⟩ := h
          exact ⟨_, rfl⟩
      obtain ⟨rest, rfl⟩ := hrevs
      simp only [List.map_cons, render, List.flatMap_cons, write_eq_writeRaw_of_not_header hk]
      cases hw : e.writeRaw with
      | nil =>
        rw [hw] at hok
        obtain ⟨h1, h2⟩ := hok
        simp only [List.nil_append] at h1
        rw [h1] at h2
        exact absurd h2 (Nat.lt_irrefl _)
      | cons x xs =>
        rw [hw] at hok
        simp only [List.cons_append, List.cons.injEq] at hok
        rw [hok.1.1]
        simp only [List.cons_append]
        apply noBomHead_cons_good
        rcases hhead with h1 | h1 | h1 | h1 | h1 | h1
        · exact Or.inl h1
        · exact Or.inr (Or.inl h1)
        · exact Or.inr (Or.inr (Or.inl h1))
        · exact Or.inr (Or.inr (Or.inr (Or.inl h1)))
        · exact Or.inr (Or.inr (Or.inr (Or.inr (Or.inl h1))))
        · exact Or.inr (Or.inr (Or.inr (Or.inr (Or.inr (Or.inl h1)))))
    | none =>
      simp only [hs, List.isEmpty_cons, Bool.false_eq_true, ↓reduceIte, List.length_cons, sectionsRaw,
        Option.map_eq_some_iff, List.nil_append] at h
      obtain ⟨more, hm, rfl⟩ := h
      cases hsr : sectionRaw (c :: r) with
      | none => simp [hsr] at hm
      | some q =>
        obtain ⟨e1, r1⟩ := q
        simp only [hsr, Option.map_eq_some_iff] at hm
        obtain ⟨more2, _, rfl⟩ := hm
        obtain ⟨_, hd, body, rfl⟩ := sectionRaw_shrinks hsr
        simp [render, Event.toReal, Event.write, Event.writeWith, Header.writeWith, noBomHead]

/-- a text that is reproduced by its own events has no byte-order mark -/
theorem bomLen_of_lossless {bs : Bytes} {f : File} (h : fileFromBytes bs = some f) (hl : render f.events = bs) :
    bomLen bs = 0 := by
  unfold fileFromBytes parseEvents at h
  simp only [Option.map_eq_some_iff] at h
  obtain ⟨_, ⟨revs, hr, rfl⟩, rfl⟩ := h
  rw [fileOfEvents_events] at hl
  have := noBomHead_render_of_parse hr
  rw [hl] at this
  exact bomLen_of_noBomHead bs this

end GixModel.C26
