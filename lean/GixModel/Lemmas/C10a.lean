import GixModel.Model.C10Core
/-
C10 — delta-tree traversal: what the forest invariant gives, inversion of `step`, and the inductive
invariant `Inv` (every item is in exactly one place; values are the specified ones).
-/
namespace GixModel.C10

variable {V Id : Type}

/-- the `Tree` invariant in the form the proofs use -/
structure TreeOk (f : Forest) : Prop where
  inb : ∀ n k, k ∈ f.children n → k < f.kids.length
  nodup : ∀ n, (f.children n).Nodup
  parent : ∀ n n' k, k ∈ f.children n → k ∈ f.children n' → n = n'
  hasParent : ∀ j, j < f.kids.length → ∃ n, f.valid n = true ∧ j ∈ f.children n
  back : ∀ j k, k ∈ f.children (Node.kid j) → j < k

/-- the resolved bytes of every entry, specified by the delta chain -/
structure ValOk (f : Forest) (c : Codec V Id) (val : Node → V) : Prop where
  root : ∀ i, val (Node.root i) = c.decodeRoot i
  kid : ∀ n k, k ∈ f.children n → val (Node.kid k) = c.applyDelta (val n) k

theorem upd_same {α β : Type} [DecidableEq α] (f : α → β) (a : α) (b : β) : upd f a b a = b := by
  simp [upd]

theorem upd_other {α β : Type} [DecidableEq α] (f : α → β) (a x : α) (b : β) (h : x ≠ a) : upd f a b x = f x := by
  simp [upd, h]

theorem lookup_erase_ne (l : List (Nat × V)) (j k : Nat) (h : k ≠ j) :
    lookupStored (eraseStored l j) k = lookupStored l k := by
  induction l with
  | nil => rfl
  | cons p rest ih =>
    obtain ⟨a, v⟩ := p
    by_cases ha : a = j
    · subst ha
      have : eraseStored ((a, v) :: rest) a = eraseStored rest a := by simp [eraseStored]
      rw [this, ih]
      simp only [lookupStored]
      rw [if_neg (fun h' => h h'.symm)]
    · have : eraseStored ((a, v) :: rest) j = (a, v) :: eraseStored rest j := by
        simp [eraseStored, ha]
      rw [this]
      simp only [lookupStored]
      split
      · rfl
      · exact ih

theorem mem_eraseIdx_nodup {α : Type} {l : List α} (hn : l.Nodup) {q : Nat} {a : α} (hq : l[q]? = some a) (x : α) :
    x ∈ l.eraseIdx q ↔ x ∈ l ∧ x ≠ a := by
  induction l generalizing q with
  | nil => simp at hq
  | cons b rest ih =>
    cases q with
    | zero =>
      simp at hq; subst hq
      simp only [List.eraseIdx_cons_zero, List.mem_cons]
      have hb : b ∉ rest := (List.nodup_cons.mp hn).1
      constructor
      · intro hx; exact ⟨Or.inr hx, fun h => hb (h ▸ hx)⟩
      · rintro ⟨h1 | h1, h2⟩
        · exact absurd h1 h2
        · exact h1
    | succ q =>
      simp only [List.getElem?_cons_succ] at hq
      simp only [List.eraseIdx_cons_succ, List.mem_cons]
      have hn' := (List.nodup_cons.mp hn)
      have ha : a ∈ rest := List.mem_of_getElem? hq
      rw [ih hn'.2 hq]
      constructor
      · rintro (h | ⟨h1, h2⟩)
        · subst h; exact ⟨Or.inl rfl, fun h => hn'.1 (h ▸ ha)⟩
        · exact ⟨Or.inr h1, h2⟩
      · rintro ⟨h1 | h1, h2⟩
        · exact Or.inl h1
        · exact Or.inr ⟨h1, h2⟩

/-! ### inversion of `step` -/

theorem inv_claim {f : Forest} {c : Codec V Id} {s s' : St V Id} (hs : step f c s Ev.claim = some s') :
    s.nextRoot < f.roots.length ∧
    s' = { s with nextRoot := s.nextRoot + 1, queue := s.queue ++ [Node.root s.nextRoot],
                  st := upd s.st (Node.root s.nextRoot) Status.queued } := by
  simp only [step] at hs
  split at hs
  · rename_i h; cases hs; exact ⟨h, rfl⟩
  · cases hs

theorem inv_pop {f : Forest} {c : Codec V Id} {s s' : St V Id} {t q : Nat}
    (hs : step f c s (Ev.pop t q) = some s') :
    s.workers t = none ∧ ∃ n, s.queue[q]? = some n ∧
      ((∃ i, n = Node.root i ∧
          s' = { s with queue := s.queue.eraseIdx q,
                        workers := upd s.workers t (some { node := n, val := c.decodeRoot i, rem := f.children n }),
                        data := upd s.data n (some (c.hash (c.decodeRoot i))),
                        writes := upd s.writes n (s.writes n + 1), st := upd s.st n Status.held })
       ∨ (∃ j v, n = Node.kid j ∧ lookupStored s.stored j = some v ∧
          s' = { s with queue := s.queue.eraseIdx q, stored := eraseStored s.stored j,
                        workers := upd s.workers t (some { node := n, val := v, rem := f.children n }),
                        data := upd s.data n (some (c.hash v)),
                        writes := upd s.writes n (s.writes n + 1), st := upd s.st n Status.held })
       ∨ (∃ j, n = Node.kid j ∧ lookupStored s.stored j = none ∧
          s' = { s with queue := s.queue.eraseIdx q, panicked := true })) := by
  simp only [step] at hs
  split at hs
  · rename_i n hw hq
    refine ⟨hw, n, hq, ?_⟩
    split at hs
    · rename_i i; cases hs; exact Or.inl ⟨i, rfl, rfl⟩
    · rename_i j
      split at hs
      · rename_i v hv; cases hs; exact Or.inr (Or.inl ⟨j, v, rfl, hv, rfl⟩)
      · rename_i hv; cases hs; exact Or.inr (Or.inr ⟨j, rfl, hv, rfl⟩)
  · cases hs

theorem inv_child {f : Forest} {c : Codec V Id} {s s' : St V Id} {t : Nat}
    (hs : step f c s (Ev.child t) = some s') :
    ∃ w k rest, s.workers t = some w ∧ w.rem = k :: rest ∧
      (((f.children (Node.kid k)).isEmpty = true ∧
          s' = { s with workers := upd s.workers t (some { w with rem := rest }),
                        data := upd s.data (Node.kid k) (some (c.hash (c.applyDelta w.val k))),
                        writes := upd s.writes (Node.kid k) (s.writes (Node.kid k) + 1),
                        st := upd s.st (Node.kid k) Status.done })
       ∨ ((f.children (Node.kid k)).isEmpty = false ∧
          s' = { s with workers := upd s.workers t (some { w with rem := rest }),
                        stored := (k, c.applyDelta w.val k) :: s.stored, queue := s.queue ++ [Node.kid k],
                        st := upd s.st (Node.kid k) Status.queued })) := by
  simp only [step] at hs
  split at hs
  · rename_i w hw
    split at hs
    · rename_i k rest hr
      split at hs
      · rename_i he; cases hs; exact ⟨w, k, rest, hw, hr, Or.inl ⟨he, rfl⟩⟩
      · rename_i he; cases hs; exact ⟨w, k, rest, hw, hr, Or.inr ⟨by simpa using he, rfl⟩⟩
    · cases hs
  · cases hs

theorem inv_done {f : Forest} {c : Codec V Id} {s s' : St V Id} {t : Nat}
    (hs : step f c s (Ev.done t) = some s') :
    ∃ w, s.workers t = some w ∧ w.rem = [] ∧
      s' = { s with workers := upd s.workers t none, st := upd s.st w.node Status.done } := by
  simp only [step] at hs
  split at hs
  · rename_i w hw
    split at hs
    · rename_i hr; cases hs; exact ⟨w, hw, hr, rfl⟩
    · cases hs
  · cases hs

/-! ### the invariant -/

def Settled (x : Status) : Prop := x = Status.held ∨ x = Status.done

instance (x : Status) : Decidable (Settled x) := by unfold Settled; exact inferInstance

structure Inv (f : Forest) (c : Codec V Id) (val : Node → V) (s : St V Id) : Prop where
  np : s.panicked = false
  nr : s.nextRoot ≤ f.roots.length
  qnodup : s.queue.Nodup
  q : ∀ n, n ∈ s.queue ↔ s.st n = Status.queued
  held : ∀ n, s.st n = Status.held ↔ ∃ t w, s.workers t = some w ∧ w.node = n
  uniq : ∀ t t' w w', s.workers t = some w → s.workers t' = some w' → w.node = w'.node → t = t'
  wr : ∀ n, s.writes n = if Settled (s.st n) then 1 else 0
  dat : ∀ n, s.data n = if Settled (s.st n) then some (c.hash (val n)) else none
  wval : ∀ t w, s.workers t = some w → w.val = val w.node
  rem : ∀ t w, s.workers t = some w → ∃ pre, f.children w.node = pre ++ w.rem
    ∧ (∀ k ∈ pre, s.st (Node.kid k) ≠ Status.fresh) ∧ (∀ k ∈ w.rem, s.st (Node.kid k) = Status.fresh)
  ch : ∀ n k, k ∈ f.children n →
    ((s.st n = Status.fresh ∨ s.st n = Status.queued) → s.st (Node.kid k) = Status.fresh)
    ∧ (s.st n = Status.done → s.st (Node.kid k) ≠ Status.fresh)
  roots : ∀ i, s.st (Node.root i) = Status.fresh ↔ s.nextRoot ≤ i
  sto : ∀ j, s.st (Node.kid j) = Status.queued → lookupStored s.stored j = some (val (Node.kid j))
  leaf : ∀ j, (s.st (Node.kid j) = Status.queued ∨ s.st (Node.kid j) = Status.held) →
    (f.children (Node.kid j)).isEmpty = false
  inval : ∀ n, f.valid n = false → s.st n = Status.fresh

theorem inv_init (f : Forest) (c : Codec V Id) (val : Node → V) : Inv f c val (St.init V Id) := by
  refine ⟨rfl, Nat.zero_le _, List.nodup_nil, ?_, ?_, ?_, ?_, ?_, ?_, ?_, ?_, ?_, ?_, ?_, ?_⟩
  · intro n; simp [St.init]
  · intro n; simp [St.init]
  · intro t t' w w' h; simp [St.init] at h
  · intro n; simp [St.init, Settled]
  · intro n; simp [St.init, Settled]
  · intro t w h; simp [St.init] at h
  · intro t w h; simp [St.init] at h
  · intro n k _; simp [St.init]
  · intro i; simp [St.init]
  · intro j h; simp [St.init] at h
  · intro j h; simp [St.init] at h
  · intro n _; rfl

end GixModel.C10
